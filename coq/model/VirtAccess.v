(* C14 -- model of the virtual-array access path of src/jmemmgr.c:
   access_virt_sarray / access_virt_barray (identical up to the element type) and
   do_sarray_io / do_barray_io, written for ANY memory system (with a backing store the
   in-memory buffer is a window of rows_in_mem rows that is swapped through the file).
   Row contents are abstract cells: None = uninitialised memory, Some v = a row whose
   contents are v (Some 0 = zeroed by jzero_far).  mem / file are total maps index -> cell.
   JDIMENSION arithmetic (mod 2^32) is explicit where the code computes in JDIMENSION. *)
From Coq Require Import List ZArith Bool.
From LJT Require Import model.MemMgr.
Import ListNotations.
Local Open Scope Z_scope.

Record varray := {
  a_rows : Z;        (* rows_in_array *)
  a_maxacc : Z;      (* maxaccess *)
  a_inmem : Z;       (* rows_in_mem *)
  a_rpc : Z;         (* rowsperchunk *)
  a_cur : Z;         (* cur_start_row *)
  a_undef : Z;       (* first_undef_row *)
  a_prezero : bool;
  a_dirty : bool;
  a_bsopen : bool;   (* b_s_open *)
  a_real : bool;     (* mem_buffer != NULL *)
  a_mem : Z -> option Z;    (* mem_buffer[i], 0 <= i < rows_in_mem *)
  a_file : Z -> option Z    (* backing store, row r at offset r * bytesperrow *)
}.

Definition set_data (a : varray) (m f : Z -> option Z) : varray :=
  {| a_rows := a_rows a; a_maxacc := a_maxacc a; a_inmem := a_inmem a; a_rpc := a_rpc a; a_cur := a_cur a; a_undef := a_undef a;
     a_prezero := a_prezero a; a_dirty := a_dirty a; a_bsopen := a_bsopen a; a_real := a_real a; a_mem := m; a_file := f |}.
Definition set_win (a : varray) (cur undef : Z) (dirty : bool) : varray :=
  {| a_rows := a_rows a; a_maxacc := a_maxacc a; a_inmem := a_inmem a; a_rpc := a_rpc a; a_cur := cur; a_undef := undef;
     a_prezero := a_prezero a; a_dirty := dirty; a_bsopen := a_bsopen a; a_real := a_real a; a_mem := a_mem a; a_file := a_file a |}.

Inductive xfer := XWrite (memidx filerow n : Z) | XRead (memidx filerow n : Z).

(* copy n cells src[s ..] -> dst[d ..] *)
Definition blit (dst src : Z -> option Z) (d s n : Z) : Z -> option Z :=
  fun k => if (d <=? k) && (k <? d + n) then src (s + (k - d)) else dst k.

(* do_sarray_io / do_barray_io: the loop over allocation chunks.  [frow] is file_offset / bytesperrow *)
Fixpoint io_loop (fuel : nat) (writing : bool) (a : varray) (i frow : Z) (acc : list xfer) : varray * list xfer * bool :=
  if i <? a_inmem a then
    match fuel with
    | O => (a, acc, false)
    | S f =>
        let rows := Z.min (a_rpc a) (a_inmem a - i) in
        let thisrow := a_cur a + i in
        let rows := Z.min rows (a_undef a - thisrow) in
        let rows := Z.min rows (a_rows a - thisrow) in
        if rows <=? 0 then (a, acc, true) else
        let a' := if writing then set_data a (a_mem a) (blit (a_file a) (a_mem a) frow i rows)
                  else set_data a (blit (a_mem a) (a_file a) i frow rows) (a_file a) in
        io_loop f writing a' (i + a_rpc a) (frow + rows)
                ((if writing then XWrite i frow rows else XRead i frow rows) :: acc)
    end
  else (a, acc, true).

Definition do_io (writing : bool) (a : varray) : varray * list xfer * bool :=
  let '(a', x, ok) := io_loop (Z.to_nat (a_inmem a)) writing a 0 (a_cur a) [] in (a', rev x, ok).

Inductive aerr := BadVirtualAccess | VirtualBug | IoFuel.

(* jzero_far of rows [lo, hi) of the in-memory buffer *)
Definition zero_rows (m : Z -> option Z) (lo hi : Z) : Z -> option Z :=
  fun k => if (lo <=? k) && (k <? hi) then Some 0 else m k.

(* access_virt_sarray / access_virt_barray.  Result: new state, error or the index of the first returned
   row pointer (mem_buffer + (start_row - cur_start_row)), backing-store transfers *)
(* "Make the desired part of the virtual array accessible" *)
Definition ensure_window (a : varray) (start end_row : Z) : varray * list xfer * option aerr :=
  if (start <? a_cur a) || (end_row >? (a_cur a + a_inmem a) mod two32) then
    if negb (a_bsopen a) then (a, [], Some VirtualBug) else
    let '(a0, x1, ok1) := if a_dirty a then (let '(b, x, ok) := do_io true a in (set_win b (a_cur b) (a_undef b) false, x, ok))
                          else (a, [], true) in
    let cur' := if start >? a_cur a0 then start
                else (let lt := end_row - a_inmem a0 in (if lt <? 0 then 0 else lt) mod two32) in
    let '(a2, x2, ok2) := do_io false (set_win a0 cur' (a_undef a0) (a_dirty a0)) in
    (a2, x1 ++ x2, if ok1 && ok2 then None else Some IoFuel)
  else (a, [], None).

(* "Ensure the accessed part of the array is defined; prezero if needed", dirty flag, returned index *)
Definition ensure_defined (a1 : varray) (start end_row : Z) (writable : bool) : varray * (aerr + Z) :=
  if a_undef a1 <? end_row then
    if (a_undef a1 <? start) && writable then (a1, inl BadVirtualAccess) else
    let undef := if a_undef a1 <? start then start else a_undef a1 in
    let a2 := if writable then set_win a1 (a_cur a1) end_row (a_dirty a1) else a1 in
    if a_prezero a2 then
      let a3 := set_data a2 (zero_rows (a_mem a2) ((undef - a_cur a2) mod two32) ((end_row - a_cur a2) mod two32)) (a_file a2) in
      (if writable then set_win a3 (a_cur a3) (a_undef a3) true else a3, inr ((start - a_cur a3) mod two32))
    else if negb writable then (a2, inl BadVirtualAccess)
    else (set_win a2 (a_cur a2) (a_undef a2) true, inr ((start - a_cur a2) mod two32))
  else
    (if writable then set_win a1 (a_cur a1) (a_undef a1) true else a1, inr ((start - a_cur a1) mod two32)).

(* access_virt_sarray / access_virt_barray.  Result: new state, error or the index of the first returned
   row pointer (mem_buffer + (start_row - cur_start_row)), backing-store transfers *)
Definition access (a : varray) (start num : Z) (writable : bool) : varray * (aerr + Z) * list xfer :=
  let end_row := (start + num) mod two32 in
  if (end_row >? a_rows a) || (num >? a_maxacc a) || negb (a_real a) then (a, inl BadVirtualAccess, []) else
  match ensure_window a start end_row with
  | (a1, xf, Some er) => (a1, inl er, xf)
  | (a1, xf, None) => let (a2, r) := ensure_defined a1 start end_row writable in (a2, r, xf)
  end.

(* the client fills the rows it got from a writable access *)
Fixpoint store_rows (m : Z -> option Z) (off : Z) (vals : list Z) : Z -> option Z :=
  match vals with
  | [] => m
  | v :: r => store_rows (fun k => if k =? off then Some v else m k) (off + 1) r
  end.

Definition write_rows (a : varray) (start : Z) (vals : list Z) : varray * (aerr + Z) * list xfer :=
  match access a start (Z.of_nat (length vals)) true with
  | (a', inr off, x) => (set_data a' (store_rows (a_mem a') off vals) (a_file a'), inr off, x)
  | r => r
  end.

Fixpoint load_rows (m : Z -> option Z) (off : Z) (n : nat) : list (option Z) :=
  match n with O => [] | S k => m off :: load_rows m (off + 1) k end.

(* ---- realize_virt_arrays for ONE array on a system WITH backing store (the else-branch of the allocation
   pass when jpeg_open_backing_store succeeds); shares mem_available / max_minheights with MemMgr.v ---- *)
Definition chunk_rows (c : cfg) (rowbytes numrows : Z) : Z :=
  let ltemp := (c_max c - c_hdr c) / rowbytes in if ltemp <? numrows then ltemp else numrows.

Definition va_realize (c : cfg) (unit width_alloc width rows maxacc : Z) (prezero : bool) (maxmem total : Z) : varray :=
  let spm := maxacc * width * unit in
  let maximum := rows * width * unit in
  let avail := mem_available maxmem maximum total in
  let K := max_minheights c avail spm maximum in
  let minheights := Z.quot (rows - 1) maxacc + 1 in
  let fits := minheights <=? K in
  let inmem := if fits then rows else (K * maxacc) mod two32 in
  {| a_rows := rows; a_maxacc := maxacc; a_inmem := inmem; a_rpc := chunk_rows c (width_alloc * unit) inmem;
     a_cur := 0; a_undef := 0; a_prezero := prezero; a_dirty := false; a_bsopen := negb fits; a_real := true;
     a_mem := fun _ => None; a_file := fun _ => None |}.

(* ---- clients: a reader and a writer; and the SPECIFICATION: a plain array with a defined prefix ---- *)
Inductive vop := VRead (start num : Z) | VWrite (start : Z) (vals : list Z).

Definition vstep (a : varray) (o : vop) : varray * (aerr + list (option Z)) :=
  match o with
  | VRead s n =>
      match access a s n false with
      | (a', inr off, _) => (a', inr (load_rows (a_mem a') off (Z.to_nat n)))
      | (a', inl e, _) => (a', inl e)
      end
  | VWrite s vals =>
      match write_rows a s vals with
      | (a', inr _, _) => (a', inr [])
      | (a', inl e, _) => (a', inl e)
      end
  end.

Fixpoint spec_read (L : Z -> Z) (U s : Z) (n : nat) : list (option Z) :=
  match n with O => [] | S k => (if s <? U then Some (L s) else Some 0) :: spec_read L U (s + 1) k end.

(* state of the specification: contents L, number of defined rows U *)
Definition sstep (rows maxacc : Z) (prezero : bool) (L : Z -> Z) (U : Z) (o : vop) : (Z -> Z) * Z * (aerr + list (option Z)) :=
  match o with
  | VRead s n =>
      if (s + n >? rows) || (n >? maxacc) then (L, U, inl BadVirtualAccess)
      else if (U <? s + n) && negb prezero then (L, U, inl BadVirtualAccess)
      else (L, U, inr (spec_read L U s (Z.to_nat n)))
  | VWrite s vals =>
      let n := Z.of_nat (length vals) in
      if (s + n >? rows) || (n >? maxacc) then (L, U, inl BadVirtualAccess)
      else if (U <? s + n) && (U <? s) then (L, U, inl BadVirtualAccess)      (* a writer must not skip rows *)
      else (fun r => if (s <=? r) && (r <? s + n) then nth (Z.to_nat (r - s)) vals 0 else L r, Z.max U (s + n), inr [])
  end.

Fixpoint vrun (a : varray) (ops : list vop) : varray * list (aerr + list (option Z)) :=
  match ops with
  | [] => (a, [])
  | o :: r => let (a', x) := vstep a o in let (a'', xs) := vrun a' r in (a'', x :: xs)
  end.

Fixpoint srun (rows maxacc : Z) (prezero : bool) (L : Z -> Z) (U : Z) (ops : list vop) : list (aerr + list (option Z)) :=
  match ops with
  | [] => []
  | o :: r => let '(L', U', x) := sstep rows maxacc prezero L U o in x :: srun rows maxacc prezero L' U' r
  end.
