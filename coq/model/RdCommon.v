(* C18 -- shared result type for the GIF and Targa reader models. *)
From Coq Require Import List ZArith Bool.
Import ListNotations.
Local Open Scope Z_scope.

Inductive rerr :=
| R_EOF            (* JERR_INPUT_EOF *)
| R_GIF_NOT | R_GIF_EMPTY | R_TOOBIG | R_GIF_NOIMAGE | R_GIF_CODESIZE
| R_TGA_BADPARMS | R_TGA_BADCMAP
| R_OOB            (* NOT a C error: an array indexed outside its allocation *)
| R_UNINIT         (* NOT a C error: a table entry / pixel read before it was written *)
| R_FUEL.          (* NOT a C error: the model ran out of fuel *)

Inductive rres (A : Type) := ROk (a : A) | RErr (e : rerr).
Arguments ROk {A} a.
Arguments RErr {A} e.

Definition rbind {A B} (r : rres A) (f : A -> rres B) : rres B :=
  match r with ROk a => f a | RErr e => RErr e end.
Notation "'let^' x ':=' r 'in' k" := (rbind r (fun x => k))
  (at level 200, x pattern, r at level 100, k at level 200).

Definition znth (l : list Z) (i : Z) (d : Z) : Z := nth (Z.to_nat i) l d.

(* bounds-checked array read: -1 marks a cell never written *)
Definition arr_get (size : Z) (a : list Z) (i : Z) : rres Z :=
  if (i <? 0) || (i >=? size) then RErr R_OOB
  else let v := znth a i (-1) in if v <? 0 then RErr R_UNINIT else ROk v.

Fixpoint list_set (l : list Z) (n : nat) (v : Z) : list Z :=
  match l, n with
  | [], _ => []
  | _ :: t, O => v :: t
  | x :: t, S m => x :: list_set t m v
  end.

Definition arr_set (size : Z) (a : list Z) (i v : Z) : rres (list Z) :=
  if (i <? 0) || (i >=? size) then RErr R_OOB else ROk (list_set a (Z.to_nat i) v).

Fixpoint take_n (n : nat) (s : list Z) : option (list Z * list Z) :=
  match n with
  | O => Some ([], s)
  | S m => match s with
           | [] => None
           | c :: t => match take_n m t with Some (a, r) => Some (c :: a, r) | None => None end
           end
  end.

(* n x ReadByte / ReadOK(n): premature end of file *)
Definition rtake (n : Z) (s : list Z) : rres (list Z * list Z) :=
  if Z.of_nat (length s) <? n then RErr R_EOF else
  match take_n (Z.to_nat n) s with Some p => ROk p | None => RErr R_EOF end.

Definition le16 (l : list Z) (o : Z) : Z := znth l o 0 + 256 * znth l (o + 1) 0.
