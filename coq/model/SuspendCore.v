(* C09 -- generic model of the libjpeg suspension protocol (decoder side).

   A data source is a list of chunks.  The library is a "unit parser"
     u : st -> list byte -> ures
   called on the bytes that are currently unread (from the restart point
   cinfo->src->next_input_byte on).  Results:
     Done s' n k : the unit completed; n bytes consumed (INPUT_SYNC), then the
                   source manager is asked to skip k more bytes (skip_input_data)
     More s' n   : fill_input_buffer returned FALSE (suspension).  The restart
                   point moved by n bytes (n = 0 for every routine except
                   next_marker / save_marker, which sync while they go) and the
                   permanent state is s' -- possibly DIRTY: C routines write
                   cinfo fields before they know that the marker is complete.
     Fail e      : ERREXIT
     Halt        : nothing left to do in this state (EOI / SOS reached)
   The driver run_chunked re-invokes the pending unit from the unchanged
   restart point on (unread bytes ++ next chunk): the documented backtracking
   source-manager protocol (libjpeg.txt, "I/O suspension"), including the
   deferred skip of a suspending skip_input_data.                              *)
From Coq Require Import List ZArith.
Import ListNotations.

Definition byte := Z.

Section Driver.
  Variables st err : Type.

  Inductive ures :=
  | Done (s : st) (n k : nat)
  | More (s : st) (n : nat)
  | Fail (e : err)
  | Halt.

  Inductive outcome :=
  | Susp (s : st) (buf : list byte) (skip : nat)   (* suspended: unread bytes, pending skip *)
  | Halted (s : st) (buf : list byte)
  | Failed (e : err)
  | OutOfFuel.

  Variable u : st -> list byte -> ures.
  Variable slack : st -> nat.      (* termination measure for units that consume 0 bytes *)

  (* one library call: run units until one suspends *)
  Fixpoint drain_f (fuel : nat) (s : st) (buf : list byte) : outcome :=
    match fuel with
    | O => OutOfFuel
    | S f =>
      match u s buf with
      | Done s' n k =>
          let b1 := skipn n buf in
          if Nat.leb k (length b1) then drain_f f s' (skipn k b1)
          else Susp s' [] (k - length b1)
      | More s' n => Susp s' (skipn n buf) 0
      | Fail e => Failed e
      | Halt => Halted s buf
      end
    end.

  Definition drain (s : st) (buf : list byte) : outcome :=
    drain_f (S (slack s + length buf)) s buf.

  (* the application appends a chunk to the unread bytes (after the deferred skip)
     and calls the library again *)
  Definition feed (o : outcome) (c : list byte) : outcome :=
    match o with
    | Susp s buf skip =>
        if Nat.eqb (skip - length c) 0 then drain s (buf ++ skipn skip c)
        else Susp s buf (skip - length c)
    | Halted s buf => Halted s (buf ++ c)
    | Failed e => Failed e
    | OutOfFuel => OutOfFuel
    end.

  (* first call with an empty buffer, then one call per chunk *)
  Definition run_chunked (cs : list (list byte)) (s : st) : outcome :=
    fold_left feed cs (drain s []).

  (* shift of the consumed count, used to state resumability of More s' n *)
  Definition shift (n : nat) (r : ures) : ures :=
    match r with
    | Done s m k => Done s (n + m) k
    | More s m => More s (n + m)
    | Fail e => Fail e
    | Halt => Halt
    end.

  (* The C discipline, as a property of a unit. *)
  Record resumable : Prop := {
    done_stable : forall s p s' n k, u s p = Done s' n k ->
        n <= length p /\ slack s' < slack s + n /\ forall e, u s (p ++ e) = Done s' n k;
    fail_stable : forall s p x, u s p = Fail x -> forall e, u s (p ++ e) = Fail x;
    halt_state  : forall s p, u s p = Halt -> forall q, u s q = Halt;
    (* re-invocation on the (possibly dirty) suspended state, from the moved
       restart point, is indistinguishable from the invocation on the longer input *)
    more_replay : forall s p s1 n, u s p = More s1 n ->
        n <= length p /\ forall e, u s (p ++ e) = shift n (u s1 (skipn n p ++ e))
  }.
End Driver.

Arguments Done {st err}. Arguments More {st err}. Arguments Fail {st err}. Arguments Halt {st err}.
Arguments Susp {st err}. Arguments Halted {st err}. Arguments Failed {st err}. Arguments OutOfFuel {st err}.
Arguments drain_f {st err}. Arguments drain {st err}. Arguments feed {st err}.
Arguments run_chunked {st err}. Arguments shift {st err}. Arguments resumable {st err}.

(* all ways of cutting a list in two: used by the non-vacuity examples *)
Definition split_at {A} (i : nat) (l : list A) : list (list A) := [firstn i l; skipn i l].
Definition singletons {A} (l : list A) : list (list A) := map (fun x => [x]) l.
