(* C20 -- the copy loops of the per-plane functions of src/turbojpeg.c: which bytes of a caller-supplied plane
   tj3EncodeYUVPlanes8 / tj3DecompressToYUVPlanes8 write and tj3DecodeYUVPlanes8 / tj3CompressFromYUVPlanes8 read.

   Every expression (row-pointer step, loop steps, first row / number of rows / length of each copy, usetmpbuf test,
   intermediate-buffer geometry) is a definition of gen/GenSubsamp.v translated from the C text; the loop structure is
   written here.  An access trace is a list of byte offsets relative to the plane pointer passed by the caller, or
   [None] when a row-pointer array would be indexed outside [0, ph) (undefined behaviour in C) or a loop does not
   terminate within its fuel.  Modelled by hand (library behaviour, not turbojpeg.c): jcopy_sample_rows copies
   num_rows rows starting at the given row; jpeg_read_raw_data / jpeg_write_raw_data touch, for one iMCU row, the rows
   crow .. crow + min(th, ih - crow) - 1 and the columns 0 .. iw - 1 of the row pointers they are given. *)
From Coq Require Import ZArith List Bool.
From LJT Require Import lib.Sweep gen.GenSubsamp model.Geometry.
Import ListNotations.
Local Open Scope Z_scope.
Local Open Scope bool_scope.

Definition acc := option (list Z).
Definition acc_app (a b : acc) : acc :=
  match a, b with Some x, Some y => Some (x ++ y) | _, _ => None end.

(* ptr = plane; for (row = 0; row < n; row++) { buf[row] = ptr; ptr += step; } *)
Fixpoint rowptrs (n : nat) (ptr step : Z) : list Z :=
  match n with O => [] | S k => ptr :: rowptrs k (ptr + step) step end.

(* len bytes through row pointer number r *)
Definition row_access (ptrs : list Z) (r len : Z) : acc :=
  if r <? 0 then None else
  match nth_error ptrs (Z.to_nat r) with
  | Some p => Some (map (fun c => p + c) (zrange 0 (Z.to_nat len)))
  | None => None
  end.

(* for (j = 0; j < n; j++) access(row f(j), len) *)
Fixpoint rows_access (ptrs : list Z) (n : nat) (j : Z) (f : Z -> Z) (len : Z) : acc :=
  match n with
  | O => Some []
  | S k => acc_app (row_access ptrs (f j) len) (rows_access ptrs k (j + 1) f len)
  end.

(* for (row = row0; row < bound; row += step) body(row) *)
Fixpoint for_rows (fuel : nat) (row bound step : Z) (body : Z -> acc) : acc :=
  match fuel with
  | O => if row <? bound then None else Some []
  | S k => if row <? bound then acc_app (body row) (for_rows k (row + step) bound step body) else Some []
  end.

(* ---- tj3EncodeYUVPlanes8: bytes written to plane i (strides: 0 = NULL pointer) ---- *)
Definition enc_access (strides stride_i i w h s : Z) : acc :=
  let maxv := comp_vsamp0 s in
  let vs := if i =? 0 then maxv else 1 in
  let pw := enc_plane_w i w s in
  let ph := enc_plane_h i h s in
  let ph0 := enc_ph0 h maxv in
  let ptrs := rowptrs (Z.to_nat ph) 0 (enc_rowstep strides stride_i pw) in
  for_rows (Z.to_nat ph0) 0 ph0 (enc_loopstep maxv)
    (fun row => rows_access ptrs (Z.to_nat (enc_copy_n vs)) 0 (fun j => enc_copy_row row vs maxv + j) (enc_copy_w pw)).

(* ---- tj3DecodeYUVPlanes8: bytes read from plane i ---- *)
Definition dec_access (strides stride_i i w h s : Z) : acc :=
  let maxv := dec_vsamp0 s in
  let vs := if i =? 0 then maxv else 1 in
  let pw := dec_plane_w i w s in
  let ph := dec_plane_h i h s in
  let ph0 := dec_ph0 h maxv in
  let ptrs := rowptrs (Z.to_nat ph) 0 (dec_rowstep strides stride_i pw) in
  for_rows (Z.to_nat ph0) 0 ph0 (dec_loopstep maxv)
    (fun row => rows_access ptrs (Z.to_nat (dec_copy_n vs)) 0 (fun j => dec_copy_row row vs maxv + j) (dec_copy_w pw)).

(* ---- what libjpeg derives for component i of a JPEG of level s, w x h, scaled by num/denom (jdinput.c initial_setup,
        jdmaster.c jpeg_calc_output_dimensions; written by hand, compared with the library by the harness) ---- *)
Definition lj_hs (i s : Z) : Z := if i =? 0 then comp_hsamp0 s else 1.
Definition lj_vs (i s : Z) : Z := if i =? 0 then comp_vsamp0 s else 1.
Definition lj_wib (i w s : Z) : Z := (w * lj_hs i s + (comp_hsamp0 s * DCTSIZE) - 1) / (comp_hsamp0 s * DCTSIZE).
Definition lj_hib (i h s : Z) : Z := (h * lj_vs i s + (comp_vsamp0 s * DCTSIZE) - 1) / (comp_vsamp0 s * DCTSIZE).
Definition lj_out (dim num denom : Z) : Z := (dim * num + denom - 1) / denom.

(* ---- tj3DecompressToYUVPlanes8: bytes written to plane i.  usetmp: the function-wide usetmpbuf flag ---- *)
Definition dtp_component_usetmp (i w h s num denom : Z) : bool :=
  let d := dtp_dctsize num denom in
  dtp_usetmp (dtp_iw (lj_wib i w s) d) (tj3YUVPlaneWidth i (lj_out w num denom) s)
             (dtp_ih (lj_hib i h s) d) (tj3YUVPlaneHeight i (lj_out h num denom) s).
Definition dtp_usetmpbuf (w h s num denom : Z) : bool :=
  existsb (fun i => dtp_component_usetmp i w h s num denom) (if s =? TJSAMP_GRAY then [0] else [0; 1; 2]).

Definition dtp_access (strides stride_i i w h s num denom : Z) : acc :=
  let d := dtp_dctsize num denom in
  let maxv := comp_vsamp0 s in
  let vs := lj_vs i s in
  let outh := lj_out h num denom in
  let pw := tj3YUVPlaneWidth i (lj_out w num denom) s in
  let ph := tj3YUVPlaneHeight i outh s in
  let iw := dtp_iw (lj_wib i w s) d in
  let ih := dtp_ih (lj_hib i h s) d in
  let th := dtp_th vs d in
  let ptrs := rowptrs (Z.to_nat ph) 0 (dtp_rowstep strides stride_i pw) in
  let usetmp := dtp_usetmpbuf w h s num denom in
  for_rows (Z.to_nat outh) 0 outh (dtp_loopstep maxv d)
    (fun row =>
       let crow := dtp_crow row vs maxv in
       if usetmp then
         rows_access ptrs (Z.to_nat (dtp_copy_n th ph crow)) 0 (fun j => dtp_copy_dst crow j) (dtp_copy_len pw)
       else (* jpeg_read_raw_data writes through &outbuf[i][crow] *)
         rows_access ptrs (Z.to_nat (Z.min th (ih - crow))) 0 (fun j => crow + j) iw).

(* the intermediate buffer: offset of byte c of row j of component i, and the size of the buffer *)
Definition dtp_tmp_geom (i w h s num denom : Z) : Z * Z * Z :=   (* (row width, rows, bytes) of component i *)
  let d := dtp_dctsize num denom in
  let pw := tj3YUVPlaneWidth i (lj_out w num denom) s in
  let iw := dtp_iw (lj_wib i w s) d in
  let th := dtp_th (lj_vs i s) d in
  (dtp_tmpstep iw pw, th, dtp_tmpsize iw pw th).

(* ---- tj3CompressFromYUVPlanes8: bytes read from plane i ---- *)
Definition cfp_component_usetmp (i w h s : Z) : bool :=
  cfp_usetmp (cfp_iw (lj_wib i w s)) (cfp_plane_w i w s) (cfp_ih (lj_hib i h s)) (cfp_plane_h i h s).
Definition cfp_usetmpbuf (w h s : Z) : bool :=
  existsb (fun i => cfp_component_usetmp i w h s) (if s =? TJSAMP_GRAY then [0] else [0; 1; 2]).

Definition cfp_access (strides stride_i i w h s : Z) : acc :=
  let maxv := comp_vsamp0 s in
  let vs := lj_vs i s in
  let pw := cfp_plane_w i w s in
  let ph := cfp_plane_h i h s in
  let iw := cfp_iw (lj_wib i w s) in
  let ih := cfp_ih (lj_hib i h s) in
  let th := cfp_th vs in
  let ptrs := rowptrs (Z.to_nat ph) 0 (cfp_rowstep strides stride_i pw) in
  let usetmp := cfp_usetmpbuf w h s in
  for_rows (Z.to_nat h) 0 h (cfp_loopstep maxv)
    (fun row =>
       let crow := cfp_crow row vs maxv in
       if usetmp then
         rows_access ptrs (Z.to_nat (cfp_copy_n th ph crow)) 0 (fun j => cfp_copy_src crow j) (cfp_copy_len pw)
       else (* jpeg_write_raw_data reads through &inbuf[i][crow] *)
         rows_access ptrs (Z.to_nat (Z.min th (ih - crow))) 0 (fun j => crow + j) iw).
