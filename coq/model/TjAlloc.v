(* C14 -- allocation / release structure of the TurboJPEG API functions (src/turbojpeg.c,
   src/turbojpeg-mp.c) as small programs GENERATED from the source (gen/GenTjAlloc.v):
   every acquisition site (malloc / MALLOC / tj3Init / fopen) with its NULL test, every THROW,
   every libjpeg call that may longjmp to the function's setjmp handler, every release in
   the `bailout:` epilogue.  A trun is determined by which CHOICE POINT fails first (an
   acquisition returning NULL, a THROW condition holding, a libjpeg call raising an error):
   after the first failure control is in the epilogue, so "any subset of failures" = its
   least element.  [nc] = number of components driving the per-component loops. *)
From Coq Require Import List ZArith Bool Arith.
Import ListNotations.

Inductive slot := Uninit | Null | Ptr (id : nat).

Inductive binstr :=
| BDecl (v : nat) (init : bool)   (* declaration; init = initialised to NULL at the declaration *)
| BSetNull (v : nat)              (* v = NULL  /  v[i] = NULL inside a loop *)
| BAcquire (v : nat)              (* v = malloc(..) etc. with NULL test -> bailout          (choice point) *)
| BAcquireRet (v : nat)           (* the same, but the NULL test returns directly (no epilogue) (choice point) *)
| BThrow                          (* a THROW / goto bailout under some condition             (choice point) *)
| BSetjmp                         (* if (setjmp(..)) { retval = -1; goto bailout; } *)
| BCall                           (* libjpeg call: may longjmp to the handler                (choice point) *)
| BRealloc (v : nat)              (* v = realloc(v, ..) with NULL test: on failure the old block stays allocated but v is overwritten (choice point) *)
| BAcquireOut (v : nat)           (* a libjpeg call that returns a malloc'ed block through an out-parameter (jpeg_read_icc_profile(.., &v, ..)):
                                     may longjmp (needs a handler); on success v holds a new block        (choice point) *)
| BMove (dst src : nat)           (* dst = src; the block changes owner (src is not used afterwards) *)
| BEscape (v : nat)               (* *out = v: the block is handed to the caller (followed by v = NULL) *)
| BRelease (v : nat)              (* free(v) / free(v[i]) / tj3Destroy(v) / if (v) fclose(v): NULL tolerated *)
| BReleaseIfFailed (v : nat).     (* if (retval < 0) { free(v); v = NULL; } *)

Inductive instr := I (b : binstr) | Loop (maxc : bool) (body : list binstr).

Record prog := {
  p_name : nat;
  p_body : list instr;            (* up to the bailout label *)
  p_bail : list instr;            (* the epilogue *)
  p_escape : list nat;            (* variables returned to the caller when the call succeeds *)
  p_owned : list nat;             (* members of the instance (this->iccBuf ...): live across calls *)
  p_destroys : bool               (* tj3Destroy: afterwards the instance owns nothing *)
}.

Definition MAXC : nat := 10.      (* MAX_COMPONENTS *)

Record tst := {
  vars : nat -> nat -> slot;
  heap : list nat;                (* live block ids *)
  nextid : nat;
  bad : nat;                      (* free of an indeterminate pointer, double free, lost block, longjmp without handler *)
  failed : bool;
  handler : bool;
  cnt : nat                       (* choice points passed *)
}.

Definition upd (f : nat -> nat -> slot) (v i : nat) (x : slot) : nat -> nat -> slot :=
  fun v' i' => if (v' =? v) && (i' =? i) then x else f v' i'.
Definition upd_all (f : nat -> nat -> slot) (v : nat) (x : slot) : nat -> nat -> slot :=
  fun v' i' => if v' =? v then x else f v' i'.
Definition memn (x : nat) (l : list nat) : bool := existsb (Nat.eqb x) l.
Definition remn (x : nat) (l : list nat) : list nat := filter (fun y => negb (y =? x)) l.

Definition set_vars s f := {| vars := f; heap := heap s; nextid := nextid s; bad := bad s; failed := failed s; handler := handler s; cnt := cnt s |}.
Definition add_bad s := {| vars := vars s; heap := heap s; nextid := nextid s; bad := S (bad s); failed := failed s; handler := handler s; cnt := cnt s |}.
Definition set_failed s := {| vars := vars s; heap := heap s; nextid := nextid s; bad := bad s; failed := true; handler := handler s; cnt := cnt s |}.
Definition tick s := {| vars := vars s; heap := heap s; nextid := nextid s; bad := bad s; failed := failed s; handler := handler s; cnt := S (cnt s) |}.

Definition release (s : tst) (v i : nat) : tst :=
  match vars s v i with
  | Null => s
  | Uninit => add_bad s
  | Ptr id => if memn id (heap s)
              then {| vars := vars s; heap := remn id (heap s); nextid := nextid s; bad := bad s; failed := failed s; handler := handler s; cnt := cnt s |}
              else add_bad s
  end.

Inductive outcome := Cont | Jump | Ret.

(* [fail_at] = index of the first choice point that fails *)
Definition exec_b (fail_at i : nat) (b : binstr) (s : tst) : tst * outcome :=
  match b with
  | BDecl v init => (set_vars s (upd_all (vars s) v (if init then Null else Uninit)), Cont)
  | BSetNull v => (set_vars s (upd (vars s) v i Null), Cont)
  | BAcquire v | BAcquireRet v =>
      let lost := match vars s v i with Ptr id => memn id (heap s) | _ => false end in
      let s0 := if lost then add_bad s else s in
      if cnt s0 =? fail_at then
        (set_failed (set_vars (tick s0) (upd (vars s0) v i Null)), match b with BAcquireRet _ => Ret | _ => Jump end)
      else
        ({| vars := upd (vars s0) v i (Ptr (nextid s0)); heap := nextid s0 :: heap s0; nextid := S (nextid s0); bad := bad s0;
            failed := failed s0; handler := handler s0; cnt := S (cnt s0) |}, Cont)
  | BRealloc v =>
      if cnt s =? fail_at then (set_failed (set_vars (tick s) (upd (vars s) v i Null)), Jump)
      else
        let s1 := match vars s v i with
                  | Ptr id => {| vars := vars s; heap := remn id (heap s); nextid := nextid s; bad := (if memn id (heap s) then bad s else S (bad s));
                                 failed := failed s; handler := handler s; cnt := cnt s |}
                  | Null => s
                  | Uninit => add_bad s
                  end in
        ({| vars := upd (vars s1) v i (Ptr (nextid s1)); heap := nextid s1 :: heap s1; nextid := S (nextid s1); bad := bad s1;
            failed := failed s1; handler := handler s1; cnt := S (cnt s1) |}, Cont)
  | BAcquireOut v =>
      if cnt s =? fail_at then (set_failed (tick (if handler s then s else add_bad s)), Jump)
      else
        let lost := match vars s v i with Ptr id => memn id (heap s) | _ => false end in
        let s0 := if lost then add_bad s else s in
        ({| vars := upd (vars s0) v i (Ptr (nextid s0)); heap := nextid s0 :: heap s0; nextid := S (nextid s0); bad := bad s0;
            failed := failed s0; handler := handler s0; cnt := S (cnt s0) |}, Cont)
  | BMove dst src =>
      let lost := match vars s dst i with Ptr id => memn id (heap s) | _ => false end in
      let s0 := if lost then add_bad s else s in
      (set_vars s0 (upd (upd (vars s0) dst i (vars s0 src i)) src i Null), Cont)
  | BEscape v =>
      match vars s v i with
      | Ptr id => ({| vars := vars s; heap := remn id (heap s); nextid := nextid s; bad := (if memn id (heap s) then bad s else S (bad s));
                      failed := failed s; handler := handler s; cnt := cnt s |}, Cont)
      | Null => (s, Cont)
      | Uninit => (add_bad s, Cont)
      end
  | BThrow => if cnt s =? fail_at then (set_failed (tick s), Jump) else (tick s, Cont)
  | BSetjmp => ({| vars := vars s; heap := heap s; nextid := nextid s; bad := bad s; failed := failed s; handler := true; cnt := cnt s |}, Cont)
  | BCall => if cnt s =? fail_at then (set_failed (tick (if handler s then s else add_bad s)), Jump) else (tick s, Cont)
  | BRelease v => (release s v i, Cont)
  | BReleaseIfFailed v => if failed s then (set_vars (release s v i) (upd (vars (release s v i)) v i Null), Cont) else (s, Cont)
  end.

Fixpoint exec_bs (fail_at i : nat) (bs : list binstr) (s : tst) : tst * outcome :=
  match bs with
  | [] => (s, Cont)
  | b :: r => match exec_b fail_at i b s with
              | (s', Cont) => exec_bs fail_at i r s'
              | x => x
              end
  end.

Fixpoint exec_loop (fail_at : nat) (bs : list binstr) (i n : nat) (s : tst) : tst * outcome :=
  match n with
  | O => (s, Cont)
  | S k => match exec_bs fail_at i bs s with
           | (s', Cont) => exec_loop fail_at bs (S i) k s'
           | x => x
           end
  end.

Fixpoint exec (fail_at nc : nat) (is : list instr) (s : tst) : tst * outcome :=
  match is with
  | [] => (s, Cont)
  | I b :: r => match exec_b fail_at 0 b s with
                | (s', Cont) => exec fail_at nc r s'
                | x => x
                end
  | Loop maxc bs :: r => match exec_loop fail_at bs 0 (if maxc then MAXC else nc) s with
                         | (s', Cont) => exec fail_at nc r s'
                         | x => x
                         end
  end.

(* owned members start either NULL (own0 = false) or holding a live block from an earlier call *)
Definition tinit (p : prog) (own0 : bool) : tst :=
  let ids := seq 0 (length (p_owned p)) in
  {| vars := fun v i => if memn v (p_owned p) then (if own0 && (i =? 0) then Ptr (v + 1000) else Null) else Uninit;
     heap := if own0 then map (fun v => v + 1000) (p_owned p) else [];
     nextid := 0; bad := 0; failed := false; handler := false; cnt := 0 |}.

Definition trun (p : prog) (own0 : bool) (nc fail_at : nat) : tst :=
  match exec fail_at nc (p_body p) (tinit p own0) with
  | (s, Ret) => s
  | (s, _) => fst (exec (S (S fail_at) + cnt s) nc (p_bail p) s)      (* no choice point fails inside the epilogue *)
  end.

(* a block may stay allocated only if the caller gets it (success) or the instance owns it *)
Definition held (s : tst) (vs : list nat) (id : nat) : bool :=
  existsb (fun v => existsb (fun i => match vars s v i with Ptr x => x =? id | _ => false end) (seq 0 (S MAXC))) vs.

Definition safe_b (p : prog) (s : tst) : bool :=
  (bad s =? 0) &&
  forallb (fun id => (negb (p_destroys p) && held s (p_owned p) id) || (negb (failed s) && held s (p_escape p) id)) (heap s).

Definition check (p : prog) : bool :=
  forallb (fun own0 => forallb (fun nc => forallb (fun k => safe_b p (trun p own0 nc k)) (seq 0 201)) (seq 0 (S MAXC))) [false; true].

(* number of acquisitions executed by a failure-free call *)
Definition acq_count (p : prog) (nc : nat) : nat := nextid (trun p false nc 5000).

(* classes of the calls that occur inside a `bailout:` epilogue (generated list: gen/GenTjAlloc.v tj_epilogue_calls) *)
Inductive ecall :=
| ERelease        (* free / tj3Free / fclose: no allocation, cannot raise a libjpeg error *)
| EAbortLike      (* jpeg_abort_* / jpeg_destroy_* / tj3Destroy: only free_pool / self_destruct underneath *)
| ETerm           (* the term_destination method of the memory destination: two assignments in jdatadst-tj.c *)
| EOther.         (* anything else: not accepted *)
Definition ecall_ok (c : ecall) : bool := match c with EOther => false | _ => true end.
