(* C09 -- buffered-image mode, input/output interlock of the lossless decoder
   (jddiffct.c consume_data / output_data, jdmaster.c prepare_for_output_pass,
   jdapistd.c jpeg_start_output / jpeg_finish_output), one scan.

   The input side undifferences one row per consume_data call; its predictor state
   (losslessd->predict_undifference: first-row predictor or the selected one) is
   INPUT-side state.  `resets` = does prepare_for_output_pass call
   idct->start_pass (= start_pass_lossless, which re-arms the first-row predictor)?
   The current source does not (lossless); it did before the fix found by this check.
   A row is abstracted to one sample; predictor = sample above (psv 2), first row
   predicts 2^(P-1) = 128.                                                         *)
From Coq Require Import List ZArith Bool.
Import ListNotations.
Local Open Scope Z_scope.

Inductive bop := Consume | StartOut | ReadRow | FinishOut.

Record bst := {
  in_rows : nat;          (* cinfo->input_iMCU_row *)
  first_row : bool;       (* predict_undifference[ci] == jpeg_undifference_first_row *)
  store : list Z;         (* whole_image[]: undifferenced rows, newest last *)
  out_row : nat;          (* cinfo->output_iMCU_row *)
  in_pass : bool
}.

Definition binit : bst := {| in_rows := 0; first_row := true; store := []; out_row := 0; in_pass := false |}.

(* consume_data -> decompress_data: one row *)
Definition consume1 (diffs : list Z) (s : bst) : bst :=
  match nth_error diffs (in_rows s) with
  | None => s                                   (* EOI reached *)
  | Some d =>
      let pred := if first_row s then 128 else last (store s) 0 in
      {| in_rows := S (in_rows s); first_row := false; store := store s ++ [(d + pred) mod 256];
         out_row := out_row s; in_pass := in_pass s |}
  end.

Fixpoint consume_n (n : nat) (diffs : list Z) (s : bst) : bst :=
  match n with O => s | S n' => consume_n n' diffs (consume1 diffs s) end.

Definition bstep (resets : bool) (diffs : list Z) (s : bst) (o : bop) : bst :=
  match o with
  | Consume => consume1 diffs s
  | StartOut =>                                  (* jpeg_start_output -> prepare_for_output_pass *)
      {| in_rows := in_rows s; first_row := if resets then true else first_row s; store := store s;
         out_row := 0; in_pass := true |}
  | ReadRow =>                                   (* output_data: force input while input_iMCU_row <= output_iMCU_row *)
      if in_pass s then
        let s1 := if Nat.leb (in_rows s) (out_row s) then consume1 diffs s else s in
        {| in_rows := in_rows s1; first_row := first_row s1; store := store s1; out_row := S (out_row s1); in_pass := true |}
      else s
  | FinishOut =>                                 (* jpeg_finish_output: read up to the end of the displayed scan *)
      let s1 := consume_n (length diffs) diffs s in
      {| in_rows := in_rows s1; first_row := first_row s1; store := store s1; out_row := out_row s1; in_pass := false |}
  end.

Definition brun (resets : bool) (diffs : list Z) (ops : list bop) : bst := fold_left (bstep resets diffs) ops binit.

(* the image the final pass displays = the store once all input is in *)
Definition final_image (resets : bool) (diffs : list Z) (ops : list bop) : list Z :=
  store (brun resets diffs (ops ++ [FinishOut])).

(* reference: undifferencing without any output activity *)
Fixpoint undiff (diffs : list Z) (prev : option Z) : list Z :=
  match diffs with
  | [] => []
  | d :: t => let v := (d + match prev with None => 128 | Some p => p end) mod 256 in v :: undiff t (Some v)
  end.

(* ---- the documented display loop: jpeg_start_output(cinfo, cinfo->input_scan_number) while the input
   is still INSIDE that scan.  decompress_data / output_data first force the input side:
     while (input_scan_number == output_scan_number && input_iMCU_row <= output_iMCU_row) consume_input
   i.e. the input must be `ahead` = 1 rows ahead of the output row (input_iMCU_row is the row the input
   side is ABOUT to read).  `ahead` is read from jdcoefct.c / jddiffct.c by the translator. *)
Fixpoint force_input (fuel ahead : nat) (diffs : list Z) (s : bst) : bst :=
  match fuel with
  | O => s
  | S f =>
    if Nat.leb (out_row s + ahead) (in_rows s) || Nat.leb (length diffs) (in_rows s) then s   (* far enough, or EOI *)
    else force_input f ahead diffs (consume1 diffs s)
  end.

(* one row of the pass: what the output side finds in the buffer for row output_iMCU_row *)
Definition live_row (ahead : nat) (diffs : list Z) (s : bst) : option Z * bst :=
  let s1 := force_input (length diffs) ahead diffs s in
  (nth_error (store s1) (out_row s1),
   {| in_rows := in_rows s1; first_row := first_row s1; store := store s1; out_row := S (out_row s1); in_pass := true |}).

Fixpoint live_pass (n ahead : nat) (diffs : list Z) (s : bst) : list (option Z) :=
  match n with
  | O => []
  | S n' => let (r, s') := live_row ahead diffs s in r :: live_pass n' ahead diffs s'
  end.

(* a complete pass started in state s (any point of the scan) *)
Definition display_pass (ahead : nat) (diffs : list Z) (s : bst) : list (option Z) :=
  live_pass (length diffs) ahead diffs
    {| in_rows := in_rows s; first_row := first_row s; store := store s; out_row := 0; in_pass := true |}.

(* ---- multi-scan (progressive / multi-scan sequential) coefficient arrays, jdcoefct.c consume_data /
   decompress_data, jdapistd.c.  nscans scans of nrows iMCU rows each; ver[r] = number of scans whose
   data iMCU row r of the virtual arrays holds (each scan adds to every row, in row order). *)
Local Close Scope Z_scope.
Record pst := {
  p_scan : nat;           (* cinfo->input_scan_number, 1-based *)
  p_row : nat;            (* cinfo->input_iMCU_row *)
  p_ver : list nat;
  p_eoi : bool            (* inputctl->eoi_reached *)
}.

Definition pinit (nrows : nat) : pst := {| p_scan := 1; p_row := 0; p_ver := repeat 0 nrows; p_eoi := false |}.

Fixpoint setn (i v : nat) (l : list nat) : list nat :=
  match l with [] => [] | x :: t => match i with O => v :: t | S j => x :: setn j v t end end.

(* one consume_input call that decodes an iMCU row (marker-only calls change nothing here) *)
Definition pconsume (nscans nrows : nat) (s : pst) : pst :=
  if p_eoi s then s
  else
    let ver := setn (p_row s) (p_scan s) (p_ver s) in
    if Nat.ltb (S (p_row s)) nrows then {| p_scan := p_scan s; p_row := S (p_row s); p_ver := ver; p_eoi := false |}
    else if Nat.ltb (p_scan s) nscans then {| p_scan := S (p_scan s); p_row := 0; p_ver := ver; p_eoi := false |}   (* next SOS *)
    else {| p_scan := p_scan s; p_row := S (p_row s); p_ver := ver; p_eoi := true |}.                              (* EOI *)

(* decompress_data: force input while it is behind the scan N being displayed, or in it and not
   `ahead` rows ahead of output row r *)
Fixpoint pforce (fuel ahead nscans nrows N r : nat) (s : pst) : pst :=
  match fuel with
  | O => s
  | S f =>
    if p_eoi s then s
    else if Nat.ltb (p_scan s) N || (Nat.eqb (p_scan s) N && Nat.ltb (p_row s) (r + ahead))
         then pforce f ahead nscans nrows N r (pconsume nscans nrows s)
         else s
  end.

Definition prender (ahead nscans nrows N r : nat) (s : pst) : nat * pst :=
  let s1 := pforce (S (nscans * nrows)) ahead nscans nrows N r s in (nth r (p_ver s1) 0, s1).

(* any application schedule *)
Inductive pop := PConsume | PRender (N r : nat).
Definition pstep (ahead nscans nrows : nat) (s : pst) (o : pop) : pst :=
  match o with PConsume => pconsume nscans nrows s | PRender N r => snd (prender ahead nscans nrows N r s) end.
Definition prun (ahead nscans nrows : nat) (ops : list pop) : pst := fold_left (pstep ahead nscans nrows) ops (pinit nrows).
