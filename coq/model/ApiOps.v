(* C12 -- the TurboJPEG entry points written in the command language of ApiState.v.
   Handlers and bailout blocks, the tj3Set table and the member lists assigned by
   jpeg_set_defaults / get_soi / get_sof / default_decompress_parms / setCompDefaults /
   setDecompParameters come from gen/GenErrPaths.v (regenerated from the source on every
   run).  The four places where the current source reads state of an earlier call are
   controlled by `fixes` (faithful = as the source is now, per gen flags).  No proofs. *)
From Coq Require Import List ZArith String Bool.
From LJT Require Import gen.GenErrPaths model.ApiState.
Import ListNotations.
Local Open Scope Z_scope.
Local Open Scope string_scope.

Notation "a ;; b" := (CSeq a b) (at level 61, right associativity).

Definition T (n : string) : fld := (OT, n).
Definition C (n : string) : fld := (OC, n).
Definition D (n : string) : fld := (OD, n).
Definition P (n : string) : expr := EG (T n).
Definition retval : fld := T "$retval".
Definition allocv : fld := T "$alloc".
Definition warning : fld := T "jerr.warning".

Fixpoint seq (l : list cmd) : cmd := match l with [] => CSkip | c :: t => c ;; seq t end.
Definition ENe (a b : expr) : expr := ENot (EEq a b).

(* stage k: the libjpeg code reached here raises an error iff the input says so *)
Definition stage (k : Z) : cmd := CIf (EEq (EA "fail") (EC k)) CRaise CSkip.
Definition THROW : cmd := CSet retval (EC (-1)) ;; CGoto TBailout.
Definition throw (k : Z) : cmd := CIf (EEq (EA "fail") (EC k)) THROW CSkip.

(* stage numbers *)
Definition S_ARGS := 1.      Definition S_HDR := 2.       Definition S_POSTHDR := 3.
Definition S_START0 := 4.    Definition S_STARTCC := 5.   Definition S_START := 6.
Definition S_CROP := 7.      Definition S_SCAN := 8.      Definition S_FINISH := 9.
Definition S_CDEF := 10.     Definition S_CSTART := 11.   Definition S_CSCAN := 12.
Definition S_CFINISH := 13.  Definition S_RDCOEF := 14.   Definition S_WRCOEF := 15.
Definition S_XTHROW := 16.   Definition S_MEMDEST := 17.  Definition S_NOIMAGE := 18.
Definition S_RDCOEF2 := 19.  Definition S_CSTART2 := 20.   Definition S_POSTHDR2 := 21.

(* ------------------------------------------------------------ jpeg_abort + memory accounting *)
(* "mem->image_space": what total_space_allocated holds for image-pool objects (small blocks: module
   structs; large blocks: sample / coefficient arrays).  jpeg_abort -> free_pool takes it back out, list by
   list, as far as the regenerated facts say it does. *)
Definition img_small (o : obj) : fld := (o, "mem->image_space_small").
Definition img_large (o : obj) : fld := (o, "mem->image_space_large").
Definition abortc (o : obj) : cmd :=
  CSeq (CAbort o)
       (CSeq (if free_pool_subtracts_small then CSet (img_small o) (EC 0) else CSkip)
             (if free_pool_subtracts_large then CSet (img_large o) (EC 0) else CSkip)).
(* modules allocated (small) / buffers and virtual arrays realised (large) *)
Definition account (o : obj) : cmd :=
  CSeq (CSet (img_small o) (EC 1)) (CSet (img_large o) (EC 1)).

(* ------------------------------------------------------------ generated handlers *)
Definition cond_expr (c : hcond) : expr :=
  match c with
  | HAlways => EC 1
  | HIfGtStartC => ELt (EC CSTART) (EG gsc)
  | HIfGtStartD => ELt (EC DSTART) (EG gsd)
  | HIfGtStartCOrErr => EOr (ELt (EC CSTART) (EG gsc)) (EEq (EG retval) (EC (-1)))
  | HIfGtStartCAndAlloc => EAnd (ELt (EC CSTART) (EG gsc)) (EG allocv)
  | HIfAlloc => EG allocv
  | HIfWarning => EG warning
  | HIfRetNeg => ELt (EG retval) (EC 0)
  | HIfFile => EC 1
  end.
Definition guarded (c : hcond) (k : cmd) : cmd :=
  match c with HAlways => k | _ => CIf (cond_expr c) k CSkip end.
Definition cmd_of_hstmt (h : hstmt) : cmd :=
  match h with
  | HRetval c v => guarded c (CSet retval (EC v))
  | HGotoBailout c => guarded c (CGoto TBailout)
  | HReturn c => guarded c (CGoto TReturn)
  | HAbortC c => guarded c (abortc OC)
  | HAbortD c => guarded c (abortc OD)
  | HTermDest c => guarded c (CDest DTerm (EG allocv))
  | HWarnRet => CIf (EG warning) (CSet retval (EC (-1))) CSkip
  | HRestoreMarkerMethods c => guarded c (CNull (D "marker->dummy_methods"))
  | HRestoreStartInputPass c => guarded c (CNull (D "inputctl->dummy_start_input_pass"))
  | HFree _ _ | HDestroyTmp _ | HFclose _ | HOther _ _ => CSkip
  end.
Definition cmd_of_hstmts (l : list hstmt) : cmd := seq (map cmd_of_hstmt l).

Fixpoint find_fn (n : string) (l : list apifn) : option apifn :=
  match l with [] => None | f :: t => if String.eqb (fn_name f) n then Some f else find_fn n t end.
(* a function the translator did not find gets a handler that returns without cleaning up:
   its program then fails the analysis *)
Definition handlers_of (n : string) : list cmd :=
  match find_fn n api_functions with
  | Some f => map cmd_of_hstmts (fn_handlers f)
  | None => [CGoto TReturn]
  end.
Definition bailout_of (n : string) : cmd :=
  match find_fn n api_functions with
  | Some f => match fn_bailout f with Some b => cmd_of_hstmts b | None => CSkip end
  | None => CSkip
  end.
Definition mk (n : string) (body : cmd) : prog := mkprog body (handlers_of n) (bailout_of n).

(* ------------------------------------------------------------ fixes *)
Record fixes := mkfix { fx5 : bool; fx9 : bool; fx10 : bool; fx11 : bool; fx2 : bool; fx12 : bool; fx13 : bool }.
Definition faithful : fixes :=
  mkfix skip_ignores_stale_cconvert header_discards_old_icc decodeyuv_resets_lossless copy_critical_sets_precision_first
        dest_forgets_newbuffer decodeyuv_resets_marker_flags decodeyuv_ignores_huffman_slots.
Definition all_fixed : fixes := mkfix true true true true true true true.

(* ------------------------------------------------------------ common pieces *)
Definition prologue : cmd :=
  CSet warning (EC 0) ;; CSet (T "isInstanceError") (EC 0) ;; CSet retval (EC 0) ;; CSet allocv (EC 1).

Definition sets (o : obj) (l : list string) (e : expr) : cmd := seq (map (fun f => CSet (o, f) e) l).

(* --- decompressor: jpeg_read_header --------------------------------------- *)
Definition dptrs : list string := ["main"; "coef"; "post"; "upsample"; "cconvert"; "entropy"; "idct"].

Definition reset_marker_reader : cmd :=
  seq (map (fun f => if String.eqb f "comp_info" then CNull (D "comp_info")
                     else if String.eqb f "marker->cur_marker" then CNull (D "marker->cur_marker")
                     else CSet (D f) (EC 0)) reset_marker_reader_fields).
Definition reset_input_controller (own_marker_reset : bool) : cmd :=
  seq (map (fun f => if String.eqb f "coef_bits" then CNull (D "coef_bits") else CSet (D f) (EC 0)) reset_input_controller_fields) ;;
  (if reset_input_controller_calls_reset_marker_reader && own_marker_reset then reset_marker_reader else CSkip).

(* what the marker reader starts from is observable: a stream is parsed differently when
   SOI / SOF were "already seen" or a marker is pending; saved COM / APPn markers are appended to
   whatever marker_list holds; tj3DecodeYUVPlanes8 temporarily installs marker-reader methods
   that do not parse at all *)
Definition observe_marker_state : cmd :=
  CObs "saw_SOI" (EG (D "marker->saw_SOI")) ;; CObs "saw_SOF" (EG (D "marker->saw_SOF")) ;;
  CObs "unread_marker" (EG (D "unread_marker")) ;;
  CIfNull (D "marker_list") CSkip (CObs "markers_of_an_earlier_stream" (EC 1)) ;;
  CIfNull (D "marker->dummy_methods") CSkip (CObs "dummy_marker_reader_methods" (EC 1)) ;;
  (* save_marker resumes the item cur_marker points to (an image-pool object) when it is not NULL *)
  CIfNull (D "marker->cur_marker") CSkip (CDeref (D "marker->cur_marker") ;; CObs "resumed_partial_marker" (EC 1)) ;;
  (* save_marker: the stream carries markers of a type that is being saved *)
  CIf (EA "saves_markers") (CAlloc (D "marker_list")) CSkip.
(* jcopy_markers_execute / jpeg_read_icc_profile walk the list *)
Definition use_marker_list : cmd := CIf (EA "saves_markers") (CObs "saved_markers" (EA "img")) CSkip.

Definition get_soi : cmd :=
  seq (map (fun f => CSet (D f) (if String.eqb f "marker->saw_SOI" then EC 1
                                 else if String.eqb f "X_density" then EA "o_xDensity"
                                 else if String.eqb f "Y_density" then EA "o_yDensity"
                                 else if String.eqb f "density_unit" then EA "o_densityUnits"
                                 (* get_soi clears them, the APP0 / APP14 markers of the stream set them *)
                                 else if String.eqb f "saw_JFIF_marker" then EA "jfif"
                                 else if String.eqb f "saw_Adobe_marker" then EA "adobe"
                                 else if String.eqb f "Adobe_transform" then EA "adobe_tr"
                                 else EC 0)) get_soi_fields).
Definition get_sof : cmd :=
  seq (map (fun f =>
              if String.eqb f "comp_info" then CAlloc (D "comp_info")
              else CSet (D f) (if String.eqb f "master->lossless" then EA "lossless"
                               else if String.eqb f "arith_code" then EA "arith"
                               else if String.eqb f "progressive_mode" then EA "prog"
                               else EC 1)) get_sof_fields) ;;
  CSet (D "image_width") (EA "jw") ;; CSet (D "image_height") (EA "jh") ;; CSet (D "data_precision") (EA "jprec") ;;
  CSet (D "num_components") (EA "ncomp").
Definition get_sos : cmd :=
  CSet (D "Ss") (EA "o_losslessPSV") ;; CSet (D "Se") (EC 63) ;; CSet (D "Ah") (EC 0) ;; CSet (D "Al") (EA "o_losslessPt") ;;
  CSet (D "comps_in_scan") (EA "ncomp") ;; CSet (D "unread_marker") (EC 0).
(* a self-contained stream defines every table it uses before its first scan *)
Definition define_tables : cmd :=
  CSet (D "quant_tbl_ptrs") (EA "img") ;; CSet (D "dc_huff_tbl_ptrs") (EA "img") ;; CSet (D "ac_huff_tbl_ptrs") (EA "img").
Definition default_decompress_parms : cmd :=
  seq (map (fun f => CSet (D f) (if String.eqb f "jpeg_color_space" then EA "jcs"
                                 else if String.eqb f "do_fancy_upsampling" then EC 1 else EC 0))
           default_decompress_parms_fields).

(* jpeg_read_header(cinfo, require_image); selfc = the stream carries its own tables *)
Definition read_header (selfc : bool) (own_marker_reset : bool) (faked : bool) : cmd :=
  CIf (EAnd (ENe (EG gsd) (EC dstate_start)) (ENe (EG gsd) (EC dstate_inheader))) CRaise CSkip ;;
  CIf (EEq (EG gsd) (EC dstate_start))
      (reset_input_controller own_marker_reset ;; CSet gsd (EC dstate_inheader)) CSkip ;;
  (if faked then stage S_HDR   (* tj3DecodeYUVPlanes8 installs a read_markers that just reports SOS; initial_setup can fail *)
   else
     observe_marker_state ;;
     CIf (EEq (EA "fail") (EC S_HDR))
         (CSet (D "marker->saw_SOI") (EA "f_soi") ;; CSet (D "marker->saw_SOF") (EA "f_sof") ;;
          CSet (D "unread_marker") (EA "f_um") ;;
          CIf (EA "f_soi") (get_soi ;; CSet (D "marker->saw_SOI") (EC 1)) CSkip ;;
          CIf (EA "f_sof") get_sof CSkip ;;
          (* tables read before the error stay in the permanent slots (a truncated DHT is completed with the
             padding the source manager supplies) *)
          CIf (EA "f_tables") (CSet (D "dc_huff_tbl_ptrs") (EA "img") ;; CSet (D "ac_huff_tbl_ptrs") (EA "img")) CSkip ;;
          (* get_sof may have failed half-way *)
          CSet (D "master->lossless") (EA "lossless") ;; CSet (D "arith_code") (EA "arith") ;;
          CSet (D "progressive_mode") (EA "prog") ;; CSet (D "marker->saw_SOF") (EA "f_sof") ;;
          (* the error was raised from inside save_marker (e.g. premature end of the stream with stop-on-warning,
             or out of memory): the partially filled item stays in cur_marker *)
          CIf (EA "f_inmarker") (CAlloc (D "marker->cur_marker")) CSkip ;;
          CRaise) CSkip ;;
     get_soi ;;
     get_sof ;; (if selfc then define_tables else CSkip) ;; get_sos) ;;
  CSet (D "inputctl->inheaders") (EC 0) ;;
  default_decompress_parms ;;
  CSet gsd (EC dstate_ready).

(* a tables-only stream: SOI, tables, EOI (jpeg_read_header then either complains or aborts) *)
Definition read_tables_only (selfc : bool) : cmd :=
  CIf (EAnd (ENe (EG gsd) (EC dstate_start)) (ENe (EG gsd) (EC dstate_inheader))) CRaise CSkip ;;
  CIf (EEq (EG gsd) (EC dstate_start))
      (reset_input_controller true ;; CSet gsd (EC dstate_inheader)) CSkip ;;
  observe_marker_state ;;
  CIf (EEq (EA "fail") (EC S_HDR))
      (CSet (D "marker->saw_SOI") (EA "f_soi") ;; CSet (D "marker->saw_SOF") (EA "f_sof") ;;
       CSet (D "unread_marker") (EA "f_um") ;; CIf (EA "f_soi") get_soi CSkip ;; CRaise) CSkip ;;
  get_soi ;; (if selfc then define_tables else CSkip) ;;
  CIf (EA "f_sof") get_sof CSkip ;;
  CSet (D "unread_marker") (EA "um_end") ;; CSet (D "inputctl->eoi_reached") (EC 1).

Definition mem_src : cmd := CSet (D "src") (EA "img").

Definition set_decomp_parameters : cmd :=
  seq (map (fun pr => let '(a, b) := pr in
                      if String.eqb b "comp_info" then CDeref (D "comp_info") ;; CSet (T a) (EA "subsamp")
                      else if String.eqb b "jpeg_color_space" then CSet (T a) (EA "colorspace")
                      else CSet (T a) (EG (D b))) setdecompparameters_pairs).

Definition header_or_tables (selfc : bool) (require_image : bool) (tables_case : cmd) : cmd :=
  CIf (EA "tables_only")
      (read_tables_only selfc ;;
       (if require_image then CRaise (* JERR_NO_IMAGE *)
        else (if read_header_tables_only_aborts then abortc OD else CSet gsd (EC dstate_start)) ;; tables_case))
      (read_header selfc true false).

(* --- tj3DecompressHeader ---------------------------------------------------- *)
Definition icc_wanted : expr := EOr (EEq (P "saveMarkers") (EC 2)) (EEq (P "saveMarkers") (EC 4)).
Definition prog_header (fx : fixes) (selfc validargs : bool) : prog :=
  mk "tj3DecompressHeader"
     (prologue ;;
      (* validargs: the caller passes a non-NULL buffer of positive size to a decompression instance *)
      (if validargs then CSkip else throw S_ARGS) ;; CSetjmp 0 ;; CSet warning (EA "warn") ;;
      mem_src ;;
      (* F9 fix: an ICC profile extracted from a previous image does not belong to this one *)
      (if fx9 fx then CSet (T "tempICCBuf") (EC 0) ;; CSet (T "tempICCSize") (EC 0) ;; CSet (T "tempICCMarkers") (EC 0) else CSkip) ;;
      CIf icc_wanted (CSet (D "marker->save_APP2") (EC 1)) CSkip ;;     (* jpeg_save_markers: never switched off again *)
      header_or_tables selfc false (CGoto TReturn) ;;
      set_decomp_parameters ;;
      CIf icc_wanted use_marker_list CSkip ;;
      CIf icc_wanted
          (CIf (EA "has_icc") (CSet (T "tempICCBuf") (EA "icc_id") ;; CSet (T "tempICCSize") (EA "icc_id") ;; CSet (T "tempICCMarkers") (EC 1)) CSkip)
          CSkip ;;
      abortc OD ;;
      throw S_POSTHDR).

(* --- jpeg_start_decompress / master_selection ------------------------------- *)
Definition observe_decode_params : cmd :=
  seq (map (fun f => CObs f (EG (D f)))
           ["master->lossless"; "arith_code"; "progressive_mode"; "data_precision"; "jpeg_color_space"; "out_color_space";
            "scale_num"; "scale_denom"; "do_fancy_upsampling"; "dct_method"; "raw_data_out"; "quantize_colors";
            "CCIR601_sampling"; "restart_interval"; "num_components"; "image_width"; "image_height";
            "quant_tbl_ptrs"; "dc_huff_tbl_ptrs"; "ac_huff_tbl_ptrs"]).

Definition master_selection (fx : fixes) (raw merged : bool) : cmd :=
  stage S_START0 ;;
  observe_decode_params ;;
  CSet (D "master->using_merged_upsample") (if raw then EA "merged_obs" else EC (b2z merged)) ;;
  (* F5 fix: pointers to the previous image's colour converter / quantizer are dropped *)
  (if fx5 fx then CNull (D "cconvert") ;; CNull (D "cquantize") else CSkip) ;;
  (if raw
   then (* lossless mode disables raw (downsampled) output: the whole pipeline is built *)
     CIf (EG (D "master->lossless"))
         (CSet (D "raw_data_out") (EC 0) ;; CAlloc (D "cconvert") ;; stage S_STARTCC ;; CAlloc (D "upsample") ;; CAlloc (D "post") ;;
          CAlloc (D "main"))
         CSkip
   else
     (if merged then CAlloc (D "upsample")
      else CAlloc (D "cconvert") ;; stage S_STARTCC ;; CAlloc (D "upsample")) ;;
     CAlloc (D "post")) ;;
  CAlloc (D "idct") ;; CAlloc (D "entropy") ;;
  CIf (EAnd (EG (D "progressive_mode")) (ENot (EG (D "master->lossless")))) (CAlloc (D "coef_bits")) CSkip ;;
  CAlloc (D "coef") ;;
  (if raw then CSkip else CAlloc (D "main")) ;;
  account OD ;;
  CIfNull (D "inputctl->dummy_start_input_pass") CSkip (CObs "dummy_start_input_pass" (EC 1)) ;;
  (* start_input_pass: per_scan_setup, latch_quant_tables, entropy start_pass *)
  CDeref (D "comp_info") ;; CDeref (D "entropy") ;; CDeref (D "coef") ;;
  stage S_START.

(* the progress monitor installed by the TurboJPEG functions lives on their stack *)
Definition set_progress : cmd :=
  CIf (ENe (P "scanLimit") (EC 0)) (CSet (D "progress") (EA "callid")) (CSet (D "progress") (EC 0)).
Definition use_progress : cmd := CObs "progress_frame" (EEq (EG (D "progress")) (EIte (ENe (P "scanLimit") (EC 0)) (EA "callid") (EC 0))).

Definition start_decompress (fx : fixes) (raw merged : bool) : cmd :=
  CIf (ENe (EG gsd) (EC dstate_ready)) CRaise CSkip ;;
  master_selection fx raw merged ;;
  use_progress ;;
  CSet (D "output_scanline") (EC 0) ;;
  CIf (EG (D "raw_data_out")) (CSet gsd (EC dstate_raw_ok)) (CSet gsd (EC dstate_scanning)).

Definition read_scanlines (merged : bool) : cmd :=
  stage S_SCAN ;;
  seq (map (fun p => CDeref (D p)) ["main"; "coef"; "entropy"; "idct"; "post"; "upsample"]) ;;
  (if merged then CSkip else CDeref (D "cconvert")) ;;
  CObs "pixels" (EA "img").

(* read_and_discard_scanlines: `if (cinfo->cconvert && cinfo->cconvert->color_convert)` *)
Definition skip_scanlines (fx : fixes) (merged : bool) : cmd :=
  stage S_SCAN ;;
  (if fx5 fx
   then (if merged then CSkip else CDeref (D "cconvert"))
   else CIfNull (D "cconvert") CSkip (CDeref (D "cconvert"))) ;;
  seq (map (fun p => CDeref (D p)) ["main"; "coef"; "entropy"; "idct"; "post"; "upsample"]).

Definition finish_decompress : cmd :=
  stage S_FINISH ;; CSet (D "unread_marker") (EA "um_end") ;; abortc OD.

(* --- tj3Decompress8/12/16 ---------------------------------------------------- *)
Definition crop_set : expr :=
  EOr (ENe (P "croppingRegion.y") (EC 0)) (ENe (P "croppingRegion.h") (EC 0)).
Definition decompress_body (fx : fixes) (selfc crop merged : bool) : cmd :=
      prologue ;; throw S_ARGS ;;
      set_progress ;;
      CSet (D "mem->max_memory_to_use") (P "maxMemory") ;;
      CSetjmp 0 ;; CSet warning (EA "warn") ;;
      CIf (ELe (EG gsd) (EC dstate_inheader)) (mem_src ;; header_or_tables selfc true CSkip) CSkip ;;
      set_decomp_parameters ;;
      throw S_POSTHDR ;;
      CSet (D "out_color_space") (EA "pf") ;;
      CSet (D "do_fancy_upsampling") (ENot (P "fastUpsample")) ;;
      CSet (D "dct_method") (P "fastDCT") ;;
      CSet (D "scale_num") (P "scalingFactor.num") ;; CSet (D "scale_denom") (P "scalingFactor.denom") ;;
      start_decompress fx false merged ;;
      (if crop then
         CIf (EOr (ENe (P "croppingRegion.x") (EC 0)) (ENe (P "croppingRegion.w") (EC 0)))
             (CDeref (D "main") ;; CDeref (D "upsample") ;; stage S_CROP ;; throw S_CROP) CSkip
       else CSkip) ;;
      CSetjmp 1 ;;
      CObs "bottomUp" (P "bottomUp") ;;
      (if crop then
         CIf crop_set
             (CIf (ENe (P "croppingRegion.y") (EC 0)) (skip_scanlines fx merged ;; throw S_CROP) CSkip ;;
              read_scanlines merged ;;
              CIf (EA "skip_tail") (skip_scanlines fx merged ;; throw S_CROP) CSkip)
             (read_scanlines merged)
       else read_scanlines merged) ;;
      finish_decompress.

Definition prog_decompress (fx : fixes) (name : string) (selfc crop merged : bool) : prog :=
  mk name (decompress_body fx selfc crop merged).

(* --- tj3DecompressToYUV8 -> tj3DecompressToYUVPlanes8 ---------------------------- *)
(* the wrapper reads the header itself (handler 0) and then calls the planar function with
   global_state = DSTATE_READY, which therefore does not read the header again (handlers 1, 2);
   both bailout blocks abort when global_state > DSTATE_START *)
Definition prog_decompress_yuv (fx : fixes) (selfc direct : bool) : prog :=
  mkprog
     ((* direct: tj3DecompressToYUVPlanes8 called by the application itself *)
      (if direct then CSkip else
      prologue ;; throw S_ARGS ;;
      CSetjmp 0 ;; CSet warning (EA "warn") ;;
      CIf (ELe (EG gsd) (EC dstate_inheader)) (mem_src ;; header_or_tables selfc true CSkip) CSkip ;;
      set_decomp_parameters ;;
      throw S_POSTHDR) ;;
      (* tj3DecompressToYUVPlanes8 *)
      prologue ;; (if direct then throw S_ARGS else CSkip) ;;
      set_progress ;;
      CSet (D "mem->max_memory_to_use") (P "maxMemory") ;;
      CSetjmp 1 ;; CSet warning (EA "warn") ;;
      CIf (ELe (EG gsd) (EC dstate_inheader)) (mem_src ;; header_or_tables selfc true CSkip) CSkip ;;
      set_decomp_parameters ;;
      throw S_POSTHDR2 ;;
      CSet (D "scale_num") (P "scalingFactor.num") ;; CSet (D "scale_denom") (P "scalingFactor.denom") ;;
      CDeref (D "comp_info") ;;
      CSetjmp 2 ;;
      CSet (D "do_fancy_upsampling") (ENot (P "fastUpsample")) ;;
      CSet (D "dct_method") (P "fastDCT") ;;
      CSet (D "raw_data_out") (EC 1) ;;
      start_decompress fx true false ;;
      stage S_SCAN ;;
      seq (map (fun p => CDeref (D p)) ["comp_info"; "idct"; "coef"; "entropy"]) ;;
      CObs "planes" (EA "img") ;;
      finish_decompress)
     (handlers_of "tj3DecompressToYUV8" ++ handlers_of "tj3DecompressToYUVPlanes8")%list
     (bailout_of "tj3DecompressToYUVPlanes8").

(* --- tj3DecodeYUVPlanes8 ------------------------------------------------------- *)
Definition prog_decode_yuv (fx : fixes) (merged : bool) : prog :=
  (* the F13 fix puts the original start_input_pass back in the bailout block as well (idempotent once the
     regenerated bailout contains that statement itself) *)
  let p := mk "tj3DecodeYUVPlanes8"
     (prologue ;; throw S_ARGS ;; CSetjmp 0 ;; CSet warning (EA "warn") ;; throw S_XTHROW ;;
      seq (map (fun f =>
                  if String.eqb f "comp_info" then CAlloc (D "comp_info")
                  else CSet (D f) (if String.eqb f "num_components" then EIte (EEq (P "subsamp") (EC 3)) (EC 1) (EC 3)
                                   else if String.eqb f "out_color_space" then EA "pf"
                                   else if String.eqb f "mem->max_memory_to_use" then P "maxMemory"
                                   else if String.eqb f "dct_method" then EC 0
                                   else EC 0))
               (filter (fun f => negb (String.eqb f "out_color_space" || String.eqb f "dct_method" || String.eqb f "do_fancy_upsampling"
                                       (* the members the F10 / F12 fixes assign are governed by the fix flags below *)
                                       || String.eqb f "master->lossless" || String.eqb f "arith_code" || String.eqb f "saw_JFIF_marker"
                                       || String.eqb f "saw_Adobe_marker" || String.eqb f "Adobe_transform"))
                       decodeyuv_assigned_fields)) ;;
      (if fx10 fx then CSet (D "master->lossless") (EC 0) ;; CSet (D "arith_code") (EC 0) else CSkip) ;;
      (if fx12 fx then CSet (D "saw_JFIF_marker") (EC 0) ;; CSet (D "saw_Adobe_marker") (EC 0) ;; CSet (D "Adobe_transform") (EC 0)
       else CSkip) ;;
      CAlloc (D "marker->dummy_methods") ;;
      read_header false false true ;;
      CNull (D "marker->dummy_methods") ;;
      (* default_decompress_parms: 3 components: JFIF marker seen -> YCbCr, else Adobe marker seen -> by its transform
         code (0 = RGB), else by the component ids (1,2,3 = YCbCr); these flags are only cleared by get_soi *)
      CObs "jpeg_color_space"
           (EIte (EEq (EG (D "num_components")) (EC 1)) (EC 1)
                 (EIte (EG (D "saw_JFIF_marker")) (EC 3)
                       (EIte (EG (D "saw_Adobe_marker")) (EIte (EEq (EG (D "Adobe_transform")) (EC 0)) (EC 2) (EC 3)) (EC 3)))) ;;
      (* an Adobe transform code other than 0 / 1 makes it warn (JWRN_ADOBE_XFORM): the call then returns -1 *)
      CObs "adobe_transform_warning"
           (EAnd (ENe (EG (D "num_components")) (EC 1))
                 (EAnd (ENot (EG (D "saw_JFIF_marker")))
                       (EAnd (EG (D "saw_Adobe_marker"))
                             (EAnd (ENe (EG (D "Adobe_transform")) (EC 0)) (ENe (EG (D "Adobe_transform")) (EC 1)))))) ;;
      CSet (D "out_color_space") (EA "pf") ;; CSet (D "dct_method") (P "fastDCT") ;; CSet (D "do_fancy_upsampling") (EC 0) ;;
      CSet (D "Se") (EC 63) ;;
      (* initial_setup and master_selection branch on master->lossless, which only get_sof assigns *)
      CObs "master->lossless" (EG (D "master->lossless")) ;;
      CIf (ENe (EG gsd) (EC dstate_ready)) CRaise CSkip ;;
      (if fx13 fx then CAlloc (D "inputctl->dummy_start_input_pass") else CSkip) ;;
      stage S_START0 ;;
      CSet (D "master->using_merged_upsample") (EC (b2z merged)) ;;
      (if fx5 fx then CNull (D "cconvert") ;; CNull (D "cquantize") else CSkip) ;;
      (if merged then CAlloc (D "upsample") else CAlloc (D "cconvert") ;; stage S_STARTCC ;; CAlloc (D "upsample")) ;;
      CAlloc (D "post") ;; CAlloc (D "idct") ;; CAlloc (D "entropy") ;; CAlloc (D "coef") ;; CAlloc (D "main") ;;
      CDeref (D "comp_info") ;; CDeref (D "entropy") ;;
      (* start_input_pass -> entropy start_pass builds the derived tables from the permanent Huffman table slots,
         which no part of this function (re)defines: whatever an earlier header left there is validated (F13) *)
      (if fx13 fx then CSkip else CObs "dc_huff_tbl_ptrs" (EG (D "dc_huff_tbl_ptrs")) ;; CObs "ac_huff_tbl_ptrs" (EG (D "ac_huff_tbl_ptrs"))) ;;
      stage S_START ;;
      (if fx13 fx then CNull (D "inputctl->dummy_start_input_pass") else CSkip) ;;
      CDeref (D "upsample") ;;
      CSetjmp 1 ;;
      CObs "bottomUp" (P "bottomUp") ;; CObs "subsamp" (P "subsamp") ;;
      CDeref (D "upsample") ;; (if merged then CSkip else CDeref (D "cconvert")) ;;
      CObs "pixels" (EA "img") ;;
      abortc OD) in
  mkprog (p_body p) (p_handlers p)
         ((if fx13 fx then CNull (D "inputctl->dummy_start_input_pass") else CSkip) ;; p_bailout p).

(* --- tj3GetICCProfile / tj3TransformBufSize / parameter setters ----------------- *)
Definition prog_get_icc : prog :=
  mk "tj3GetICCProfile"
     (prologue ;; throw S_ARGS ;;
      CObs "tempICCBuf" (P "tempICCBuf") ;; CObs "tempICCSize" (P "tempICCSize") ;;
      CIf (EOr (EEq (P "tempICCBuf") (EC 0)) (EEq (P "tempICCSize") (EC 0))) (CSet warning (EC 1) ;; THROW) CSkip ;;
      (* the size is deliberately retained for tj3TransformBufSize *)
      CIf (EA "fetch") (CSet (T "tempICCBuf") (EC 0)) CSkip ;;
      CGoto TReturn).
Definition prog_transform_bufsize : prog :=
  mk "tj3TransformBufSize"
     (prologue ;; throw S_ARGS ;;
      CObs "jpegWidth" (P "jpegWidth") ;; CObs "jpegHeight" (P "jpegHeight") ;; CObs "subsamp" (P "subsamp") ;;
      CIf (EAnd icc_wanted (ENot (EA "copynone")))
          (CObs "tempICCSize" (P "tempICCSize") ;;
           CIf (EEq (P "tempICCSize") (EC 0)) (CObs "iccSize" (P "iccSize")) (CObs "tempICCMarkers" (P "tempICCMarkers")))
          (CObs "iccSize" (P "iccSize"))).

Definition need_ok (n : pneed) : expr :=
  match n with NeedNone => EC 1 | NeedC => P "initC" | NeedD => P "initD" end.
Fixpoint set_cases (tbl : list tjparam) : cmd :=
  match tbl with
  | [] => THROW
  | p :: t =>
      CIf (EEq (EA "param") (EC (p_id p)))
          (CIf (ENot (need_ok (p_need p))) THROW CSkip ;;
           (if p_readonly p then THROW
            else
              CIf (EOr (ELt (EA "value") (EC (p_lo p))) (EAnd (ELt (EC 0) (EC (p_hi p))) (ELt (EC (p_hi p)) (EA "value")))) THROW CSkip ;;
              CSet (T (p_field p)) (EA "value") ;;
              (if String.eqb (p_clears p) "" then CSkip
               else CIf (ENe (EA "value") (EC 0)) (CSet (T (p_clears p)) (EC 0)) CSkip)))
          (set_cases t)
  end.
Definition prog_set : prog := mk "tj3Set" (prologue ;; set_cases tj3set_table).
Definition prog_set_scaling : prog :=
  mk "tj3SetScalingFactor"
     (prologue ;; CIf (ENot (P "initD")) THROW CSkip ;; throw S_ARGS ;;
      CSet (T "scalingFactor.num") (EA "num") ;; CSet (T "scalingFactor.denom") (EA "denom")).
Definition prog_set_crop : prog :=
  mk "tj3SetCroppingRegion"
     (prologue ;; CIf (ENot (P "initD")) THROW CSkip ;;
      CObs "jpegWidth" (P "jpegWidth") ;; CObs "jpegHeight" (P "jpegHeight") ;; CObs "precision" (P "precision") ;;
      CObs "lossless" (P "lossless") ;; CObs "subsamp" (P "subsamp") ;;
      CObs "sf" (P "scalingFactor.num") ;; CObs "sfd" (P "scalingFactor.denom") ;;
      throw S_ARGS ;;
      CSet (T "croppingRegion.x") (EA "x") ;; CSet (T "croppingRegion.y") (EA "y") ;;
      CSet (T "croppingRegion.w") (EA "w") ;; CSet (T "croppingRegion.h") (EA "h")).
Definition prog_set_icc : prog :=
  mk "tj3SetICCProfile"
     (prologue ;; CIf (ENot (P "initC")) THROW CSkip ;; CSet (T "iccSize") (EA "icc_id")).

(* --- compressor ------------------------------------------------------------- *)
Definition cptrs : list string := ["main"; "prep"; "cconvert"; "downsample"; "fdct"; "coef"; "entropy"; "marker"].

(* jpeg_set_defaults: every member the translator found assigned there; the only input it
   reads is data_precision (12-bit forces optimize_coding) *)
Definition jpeg_set_defaults : cmd :=
  CIf (ENe (EG gsc) (EC cstate_start)) CRaise CSkip ;;
  stage S_CDEF ;;
  seq (map (fun f => CSet (C f) (if String.eqb f "optimize_coding" && set_defaults_reads_data_precision
                                 then EEq (EG (C "data_precision")) (EC 12) else EC 0)) set_defaults_fields).

Definition set_comp_defaults : cmd :=
  CSet (C "in_color_space") (EA "pf") ;; CSet (C "input_components") (EA "pf") ;;
  jpeg_set_defaults ;;
  seq (map (fun pr => CSet (C (fst pr)) (P (snd pr))) setcompdefaults_pairs) ;;
  CIf (P "lossless")
      (stage S_CDEF ;;
       CSet (C "master->lossless") (EC 1) ;;
       CObs "psv" (P "losslessPSV") ;; CObs "pt" (P "losslessPt"))
      (CSet (C "quant_tbl_ptrs") (P "quality") ;;
       seq (map (fun pr => if String.eqb (fst pr) "optimize_coding"
                           then CIf (EEq (EG (C "data_precision")) (EC 8)) (CSet (C "optimize_coding") (P "optimize")) CSkip
                           else CSkip) setcompdefaults_lossy_pairs) ;;
       CSet (C "dct_method") (P "fastDCT") ;;
       CSet (C "jpeg_color_space") (EIte (ELe (EC 0) (P "colorspace")) (P "colorspace") (EA "pf")) ;;
       CObs "subsamp" (P "subsamp") ;;
       CSet (C "num_components") (EA "pf") ;; CSet (C "write_JFIF_header") (EC 1) ;; CSet (C "write_Adobe_marker") (EC 0) ;;
       CIf (P "progressive") (CSet (C "scan_info") (EC 1) ;; CSet (C "num_scans") (EC 10)) CSkip ;;
       CSet (C "arith_code") (P "arithmetic") ;;
       CSet (C "comp_info") (P "subsamp")).

(* the members a compression function assigns itself before setCompDefaults (regenerated list): data_precision
   gets `prec`, the image dimensions come from the arguments *)
Definition pre_defaults (fname : string) (prec : expr) : cmd :=
  match find (fun p => String.eqb (fst p) fname) tj_pre_defaults with
  | Some (_, fs) => seq (map (fun f => CSet (C f) (if String.eqb f "data_precision" then prec
                                                  else if String.eqb f "image_width" then EA "w" else EA "h")) fs)
  | None => CSkip
  end.

Definition observe_comp_params : cmd :=
  seq (map (fun f => CObs f (EG (C f))) comp_param_members_read).

(* jinit_c_master_control: derives progressive_mode / num_scans from the scan script and
   forces or forbids Huffman optimisation *)
Definition master_control : cmd :=
  CSet (C "progressive_mode") (EAnd (EG (C "scan_info")) (ENot (EG (C "master->lossless")))) ;;
  CIf (EG (C "scan_info")) CSkip (CSet (C "num_scans") (EC 1)) ;;
  CIf (EG (C "master->lossless")) (CSet (C "raw_data_in") (EC 0) ;; CSet (C "smoothing_factor") (EC 0)) CSkip ;;
  (* per_scan_setup: a restart interval given in MCU rows is converted (the factor is image geometry) *)
  CIf (ELt (EC 0) (EG (C "restart_in_rows"))) (CSet (C "restart_interval") (EA "ri_obs")) CSkip ;;
  CIf (EG (C "arith_code")) (CSet (C "optimize_coding") (EC 0))
      (CIf (EOr (EG (C "master->lossless")) (EG (C "progressive_mode"))) (CSet (C "optimize_coding") (EC 1))
           (CIf (EEq (EG (C "data_precision")) (EC 12)) (CSet (C "optimize_coding") (EC 1)) CSkip)).

(* jinit_compress_master *)
Definition compress_master (raw : bool) : cmd :=
  stage S_CSTART ;;
  observe_comp_params ;;
  master_control ;;
  (if raw then CSkip else CAlloc (C "cconvert") ;; CAlloc (C "downsample") ;; CAlloc (C "prep")) ;;
  CAlloc (C "fdct") ;; CAlloc (C "entropy") ;; CAlloc (C "coef") ;; CAlloc (C "main") ;; CAlloc (C "marker") ;;
  account OC ;;
  stage S_CSTART2.
Definition start_compress (raw : bool) : cmd :=
  CIf (ENe (EG gsc) (EC cstate_start)) CRaise CSkip ;;
  compress_master raw ;;
  CSet (C "next_scanline") (EC 0) ;;
  CSet gsc (EC (if raw then cstate_raw_ok else cstate_scanning)).
Definition write_icc : cmd := CIf (ENe (P "iccSize") (EC 0)) (CDeref (C "marker") ;; CObs "icc" (P "iccSize")) CSkip.
Definition grow : cmd := CIf (EA "grow") (CDest DGrow (EG allocv)) CSkip.
Definition finish_compress : cmd :=
  stage S_CFINISH ;; grow ;; CDest DTerm (EG allocv) ;; abortc OC.
Definition mem_dest (fx : fixes) : cmd :=
  CDest (DMemDest (fx2 fx)) (EG allocv) ;; stage S_MEMDEST.
Definition caller_buffer : cmd :=
  CIf (EEq (EA "bufmode") (EC 0)) (CDest DArgNull (EC 0))
      (CIf (EEq (EA "bufmode") (EC 1)) (CDest DArgFresh (EC 0)) (CDest DArgReuse (EC 0))).

Definition compress_body (fx : fixes) (bits : Z) : cmd :=
      caller_buffer ;;
      prologue ;; throw S_ARGS ;;
      CSetjmp 0 ;; CSet warning (EA "warn") ;;
      pre_defaults (if Z.eqb bits 8 then "tj3Compress8" else if Z.eqb bits 12 then "tj3Compress12" else "tj3Compress16")
                   (EIte (EAnd (P "lossless") (EA "prec_in_range")) (P "precision") (EC bits)) ;;
      (if compress_defaults_before_dest
       then set_comp_defaults ;; CSet allocv (ENot (P "noRealloc")) ;; mem_dest fx
       else CSet allocv (ENot (P "noRealloc")) ;; mem_dest fx ;; set_comp_defaults) ;;
      start_compress false ;;
      write_icc ;;
      CObs "bottomUp" (P "bottomUp") ;;
      stage S_CSCAN ;; grow ;;
      seq (map (fun p => CDeref (C p)) cptrs) ;;
      CObs "pixels" (EA "img") ;;
      finish_compress.

Definition prog_compress (fx : fixes) (name : string) (bits : Z) : prog :=
  mk name (compress_body fx bits).

Definition prog_compress_yuv (fx : fixes) : prog :=
  mk "tj3CompressFromYUVPlanes8"
     (caller_buffer ;;
      prologue ;; throw S_ARGS ;;
      CSetjmp 0 ;; CSet warning (EA "warn") ;;
      pre_defaults "tj3CompressFromYUVPlanes8" (EC 8) ;;
      CSet allocv (ENot (P "noRealloc")) ;; mem_dest fx ;;
      set_comp_defaults ;;
      CSet (C "raw_data_in") (EC 1) ;;
      start_compress true ;;
      write_icc ;;
      throw S_XTHROW ;;
      CSetjmp 1 ;;
      stage S_CSCAN ;; grow ;;
      seq (map (fun p => CDeref (C p)) ["fdct"; "coef"; "entropy"; "main"; "marker"]) ;;
      CObs "planes" (EA "img") ;;
      finish_compress).

Definition prog_encode_yuv : prog :=
  mk "tj3EncodeYUVPlanes8"
     (prologue ;; throw S_ARGS ;;
      CSetjmp 0 ;; CSet warning (EA "warn") ;;
      pre_defaults "tj3EncodeYUVPlanes8" (EC 8) ;;
      set_comp_defaults ;;
      CIf (ENe (EG gsc) (EC cstate_start)) THROW CSkip ;;
      stage S_CSTART ;;
      observe_comp_params ;;
      master_control ;;
      CAlloc (C "cconvert") ;; stage S_CSTART2 ;; CAlloc (C "downsample") ;;
      CDeref (C "cconvert") ;;
      throw S_XTHROW ;;
      CSetjmp 1 ;;
      CObs "bottomUp" (P "bottomUp") ;;
      CDeref (C "cconvert") ;; CDeref (C "downsample") ;;
      CObs "pixels" (EA "img") ;;
      CSet (C "next_scanline") (EA "h") ;;
      abortc OC).

Definition copy_row : Type := (Z * ((bool * bool * bool) * (bool * bool * bool)))%type.
(* jcopy_markers_setup(dinfo, option): switches the saving of marker classes ON (sticky members of the marker
   reader; nothing ever switches them off); rows from the regenerated copy_option_table *)
Definition jcopy_markers_setup (opt : expr) : cmd :=
  seq (map (fun row : copy_row => let '(o, ((sc_, sa2, sao), _)) := row in
                       CIf (EEq opt (EC o))
                           ((if sc_ then CSet (D "marker->save_COM") (EC 1) else CSkip) ;;
                            (if sa2 then CSet (D "marker->save_APP2") (EC 1) else CSkip) ;;
                            (if sao then CSet (D "marker->save_APPn") (EC 1) else CSkip))
                           CSkip) copy_option_table).
(* which classes jcopy_markers_execute lets through for an option is within what jcopy_markers_setup switched on
   for the same option (theorem C12_copy_filter_within_setup): the copied markers depend on the stream and the
   option only, whatever else earlier calls switched on *)
Definition copy_filter_within_setup : bool :=
  forallb (fun row : copy_row => let '(_, ((sc_, sa2, sao), (pc, pa2, pao))) := row in
                      (negb pc || sc_) && (negb pa2 || sa2) && (negb pao || sao)) copy_option_table.

(* --- tj3Transform (one transform) ------------------------------------------------ *)
Definition copy_critical_parameters (fx : fixes) : cmd :=
  CIf (ENe (EG gsc) (EC cstate_start)) CRaise CSkip ;;
  CSet (C "image_width") (EG (D "image_width")) ;; CSet (C "image_height") (EG (D "image_height")) ;;
  CSet (C "input_components") (EG (D "num_components")) ;; CSet (C "in_color_space") (EG (D "jpeg_color_space")) ;;
  (if fx11 fx then CSet (C "data_precision") (EG (D "data_precision")) else CSkip) ;;
  jpeg_set_defaults ;;
  CSet (C "jpeg_color_space") (EG (D "jpeg_color_space")) ;;
  CSet (C "num_components") (EG (D "num_components")) ;; CSet (C "write_JFIF_header") (EC 1) ;; CSet (C "write_Adobe_marker") (EC 0) ;;
  CSet (C "data_precision") (EG (D "data_precision")) ;;
  CSet (C "CCIR601_sampling") (EG (D "CCIR601_sampling")) ;;
  CSet (C "quant_tbl_ptrs") (EG (D "quant_tbl_ptrs")) ;;
  CDeref (D "comp_info") ;; CSet (C "comp_info") (EA "img") ;;
  CSet (C "JFIF_major_version") (EG (D "JFIF_major_version")) ;; CSet (C "JFIF_minor_version") (EG (D "JFIF_minor_version")) ;;
  CSet (C "density_unit") (EG (D "density_unit")) ;; CSet (C "X_density") (EG (D "X_density")) ;;
  CSet (C "Y_density") (EG (D "Y_density")).

Definition xarg (sfx n : string) : expr := EA (n ++ sfx).
Definition finish_compress_nodest : cmd := stage S_CFINISH ;; abortc OC.
(* one output image of tj3Transform; sfx selects the arguments of the i-th transform; only the first output
   buffer is followed through the destination-manager model *)
Definition transform_output (fx : fixes) (sfx : string) (dest : bool) : cmd :=
      CSet allocv (ENot (P "noRealloc")) ;;
      CIf (xarg sfx "nooutput") CSkip (if dest then mem_dest fx else stage S_MEMDEST) ;;
      copy_critical_parameters fx ;;
      CIf (EOr (P "optimize") (xarg sfx "x_optimize")) (CSet (C "optimize_coding") (EC 1)) CSkip ;;
      CIf (EOr (P "progressive") (xarg sfx "x_progressive")) (CSet (C "scan_info") (EC 1) ;; CSet (C "num_scans") (EC 10)) CSkip ;;
      CIf (EOr (P "arithmetic") (xarg sfx "x_arithmetic")) (CSet (C "arith_code") (EC 1) ;; CSet (C "optimize_coding") (EC 0)) CSkip ;;
      CSet (C "restart_interval") (P "restartIntervalBlocks") ;; CSet (C "restart_in_rows") (P "restartIntervalRows") ;;
      CIf (xarg sfx "nooutput")
          (stage S_WRCOEF ;; observe_comp_params ;; master_control ;; throw S_XTHROW)
          (CIf (ENe (EG gsc) (EC cstate_start)) CRaise CSkip ;;
           stage S_WRCOEF ;;
           observe_comp_params ;;
           master_control ;;
           CAlloc (C "entropy") ;; CAlloc (C "coef") ;; CAlloc (C "marker") ;;
           account OC ;;
           CSet (C "next_scanline") (EC 0) ;;
           CSet gsc (EC cstate_wrcoefs) ;;
           CObs "copy_markers" (EIte (xarg sfx "copynone") (EC 0) (P "saveMarkers")) ;;
           use_marker_list ;;
           write_icc ;;
           throw S_XTHROW ;;
           CDeref (C "coef") ;; CDeref (C "entropy") ;; CDeref (C "marker") ;; (if dest then finish_compress else finish_compress_nodest)).

Definition transform_body (fx : fixes) (selfc two : bool) : cmd :=
      caller_buffer ;;
      prologue ;; throw S_ARGS ;;
      set_progress ;;
      CSet (D "mem->max_memory_to_use") (P "maxMemory") ;;
      CSetjmp 0 ;; CSet warning (EA "warn") ;;
      CIf (ELe (EG gsd) (EC dstate_inheader)) mem_src CSkip ;;
      throw S_XTHROW ;;
      (* marker saving is switched on unless EVERY transform asks for TJXOPT_COPYNONE *)
      jcopy_markers_setup (EIte (EA "copynone_all") (EC 0) (P "saveMarkers")) ;;
      CIf (ELe (EG gsd) (EC dstate_inheader)) (header_or_tables selfc true CSkip) CSkip ;;
      throw S_POSTHDR ;;
      CDeref (D "comp_info") ;;
      throw S_CROP ;;
      (* jpeg_read_coefficients *)
      CIf (ENe (EG gsd) (EC dstate_ready)) CRaise CSkip ;;
      stage S_RDCOEF ;;
      observe_decode_params ;;
      CAlloc (D "entropy") ;;
      CIf (EG (D "progressive_mode")) (CAlloc (D "coef_bits")) CSkip ;;
      CAlloc (D "coef") ;;
      account OD ;;
      use_progress ;;
      CSet gsd (EC dstate_rdcoefs) ;;
      stage S_RDCOEF2 ;;
      CDeref (D "entropy") ;; CDeref (D "coef") ;;
      CSet (D "unread_marker") (EA "um_end") ;;
      CSet gsd (EC dstate_stopping) ;;
      CObs "coefficients" (EA "img") ;;
      transform_output fx "" true ;;
      (if two then transform_output fx "2" false else CSkip) ;;
      finish_decompress.

Definition prog_transform (fx : fixes) (selfc two : bool) : prog :=
  mk "tj3Transform" (transform_body fx selfc two).

(* ------------------------------------------------------------ legacy (TurboJPEG 2.x) wrappers *)
Definition S_LARGS := 22.   Definition S_LSCALE := 23.
(* processFlags(handle, flags, operation): the flag bits arrive as separate arguments *)
Definition process_flags (compress : bool) : cmd :=
  CSet (T "bottomUp") (EA "fl_bottomup") ;;
  CSet (T "fastUpsample") (EA "fl_fastupsample") ;;
  CSet (T "noRealloc") (EA "fl_norealloc") ;;
  (if compress
   then CIf (EOr (ELe (EC 96) (P "quality")) (EA "fl_accuratedct")) (CSet (T "fastDCT") (EC 0)) (CSet (T "fastDCT") (EC 1))
   else CSet (T "fastDCT") (EA "fl_fastdct")) ;;
  CSet (T "jerr.stopOnWarning") (EA "fl_stoponwarning") ;;
  CSet (T "progressive") (EA "fl_progressive") ;;
  CIf (EA "fl_limitscans") (CSet (T "scanLimit") (EC 500)) CSkip.

(* tjCompress2: quality / subsampling / flags into the parameters, then tj3Compress8 *)
Definition prog_legacy_compress (fx : fixes) : prog :=
  mk "tj3Compress8"
     (prologue ;; throw S_LARGS ;;
      CSet (T "quality") (EA "qual") ;; CSet (T "subsamp") (EA "ss") ;;
      process_flags true ;;
      compress_body fx 8).

(* tjDecompress2: reads the header itself (own setjmp handler and bailout block), picks the scaling factor, clears
   the cropping region, then tj3Decompress8 continues from DSTATE_READY *)
Definition prog_legacy_decompress (fx : fixes) (selfc merged : bool) : prog :=
  mkprog
     (prologue ;; throw S_LARGS ;;
      CSetjmp 0 ;; CSet warning (EA "warn") ;;
      mem_src ;; header_or_tables selfc true CSkip ;;
      throw S_LSCALE ;;
      process_flags false ;;
      CSet (T "scalingFactor.num") (EA "sfn") ;; CSet (T "scalingFactor.denom") (EA "sfd") ;;
      CSet (T "croppingRegion.x") (EC 0) ;; CSet (T "croppingRegion.y") (EC 0) ;;
      CSet (T "croppingRegion.w") (EC 0) ;; CSet (T "croppingRegion.h") (EC 0) ;;
      decompress_body fx selfc false merged)
     (handlers_of "tjDecompress2" ++ handlers_of "tj3Decompress8")%list
     (bailout_of "tj3Decompress8").

(* tjTransform: flags into the parameters; with TJFLAG_NOREALLOC it reads the header first to size the buffers *)
Definition prog_legacy_transform (fx : fixes) (selfc : bool) : prog :=
  mkprog
     (prologue ;; throw S_LARGS ;;
      CSetjmp 0 ;; CSet warning (EA "warn") ;;
      process_flags true ;;
      CIf (P "noRealloc") (mem_src ;; header_or_tables selfc true CSkip ;; CDeref (D "comp_info")) CSkip ;;
      throw S_LSCALE ;;
      transform_body fx selfc false)
     (handlers_of "tjTransform" ++ handlers_of "tj3Transform")%list
     (bailout_of "tj3Transform").

Inductive bits := B8 | B12 | B16.
Definition bitsz (b : bits) : Z := match b with B8 => 8 | B12 => 12 | B16 => 16 end.
Definition cname (b : bits) : string := match b with B8 => "tj3Compress8" | B12 => "tj3Compress12" | B16 => "tj3Compress16" end.
Definition dname (b : bits) : string := match b with B8 => "tj3Decompress8" | B12 => "tj3Decompress12" | B16 => "tj3Decompress16" end.

(* tjDecompressToYUV2 / tjDecompressToYUVPlanes: header read by the wrapper (own handler and bailout), scaling
   factor, flags; then tj3DecompressToYUV8 / tj3DecompressToYUVPlanes8 continue from DSTATE_READY *)
Definition prog_legacy_decompress_yuv (fx : fixes) (selfc : bool) : prog :=
  let inner := prog_decompress_yuv fx selfc false in
  mkprog
     (prologue ;; throw S_LARGS ;;
      CSetjmp 0 ;; CSet warning (EA "warn") ;;
      mem_src ;; header_or_tables selfc true CSkip ;;
      throw S_LSCALE ;;
      process_flags false ;;
      CSet (T "scalingFactor.num") (EA "sfn") ;; CSet (T "scalingFactor.denom") (EA "sfd") ;;
      p_body inner)
     (handlers_of "tjDecompressToYUV2" ++ p_handlers inner)%list
     (p_bailout inner).

(* tj3LoadImage* / tj3SaveImage*: the work is done on a temporary instance that the bailout block destroys; of the
   instance passed in only parameters are read, and tj3LoadImage* stores the pixel density of a BMP file *)
Definition lname (b : bits) : string := match b with B8 => "tj3LoadImage8" | B12 => "tj3LoadImage12" | B16 => "tj3LoadImage16" end.
Definition sname (b : bits) : string := match b with B8 => "tj3SaveImage8" | B12 => "tj3SaveImage12" | B16 => "tj3SaveImage16" end.
Definition prog_load_image (b : bits) : prog :=
  mk (lname b)
     (prologue ;; throw S_ARGS ;;
      CSetjmp 0 ;;
      CObs "bottomUp" (P "bottomUp") ;; CObs "precision" (P "precision") ;; CObs "maxMemory" (P "maxMemory") ;;
      CObs "maxPixels" (P "maxPixels") ;;
      stage S_SCAN ;;
      CIf (EA "bmp_density")
          (CSet (T "xDensity") (EA "o_xDensity") ;; CSet (T "yDensity") (EA "o_yDensity") ;; CSet (T "densityUnits") (EA "o_densityUnits"))
          CSkip ;;
      CSetjmp 1 ;;
      stage S_FINISH ;;
      CObs "pixels" (EA "img")).
Definition prog_save_image (b : bits) : prog :=
  mk (sname b)
     (prologue ;; throw S_ARGS ;;
      CSetjmp 0 ;;
      CObs "bottomUp" (P "bottomUp") ;; CObs "precision" (P "precision") ;; CObs "maxMemory" (P "maxMemory") ;;
      CObs "xDensity" (P "xDensity") ;; CObs "yDensity" (P "yDensity") ;; CObs "densityUnits" (P "densityUnits") ;;
      stage S_SCAN ;;
      CObs "file" (EA "img")).

(* ------------------------------------------------------------ operation kinds *)

(* selfc: the JPEG stream passed to the call carries all the tables it uses (true for
   every probe; abbreviated streams may occur in histories) *)
Inductive opk :=
  | KSet | KSetScaling | KSetCrop | KSetICC
  | KCompress (b : bits) | KCompressYUV | KEncodeYUV
  | KHeader (selfc : bool) (validargs : bool)
  | KDecompress (b : bits) (selfc : bool) (crop : bool) (merged : bool)
  | KDecompressYUV (selfc : bool) (direct : bool)
  | KDecodeYUV (merged : bool) | KGetICC | KTransformBufSize
  | KTransform (selfc : bool) (two : bool)
  | KLegacyCompress | KLegacyDecompress (selfc : bool) (merged : bool) | KLegacyTransform (selfc : bool)
  | KLegacyDecompressYUV (selfc : bool)
  | KLoadImage (b : bits) | KSaveImage (b : bits).

Definition prog_of (fx : fixes) (k : opk) : prog :=
  match k with
  | KSet => prog_set
  | KSetScaling => prog_set_scaling
  | KSetCrop => prog_set_crop
  | KSetICC => prog_set_icc
  | KCompress b => prog_compress fx (cname b) (bitsz b)
  | KCompressYUV => prog_compress_yuv fx
  | KEncodeYUV => prog_encode_yuv
  | KHeader s v => prog_header fx s v
  | KDecompress b s c m => prog_decompress fx (dname b) s (match b with B16 => false | _ => c end) m
  | KDecompressYUV s d => prog_decompress_yuv fx s d
  | KDecodeYUV m => prog_decode_yuv fx m
  | KGetICC => prog_get_icc
  | KTransformBufSize => prog_transform_bufsize
  | KTransform s t2 => prog_transform fx s t2
  | KLegacyCompress => prog_legacy_compress fx
  | KLegacyDecompress s m => prog_legacy_decompress fx s m
  | KLegacyTransform s => prog_legacy_transform fx s
  | KLegacyDecompressYUV s => prog_legacy_decompress_yuv fx s
  | KLoadImage b => prog_load_image b
  | KSaveImage b => prog_save_image b
  end.

Definition is_selfc (k : opk) : bool :=
  match k with
  | KHeader s _ | KDecompress _ s _ _ | KDecompressYUV s _ | KTransform s _ | KLegacyDecompress s _ | KLegacyTransform s | KLegacyDecompressYUV s => s
  | _ => true
  end.

(* ------------------------------------------------------------ instances, histories *)
Definition env_of (l : list (string * Z)) : env :=
  fun n => match find (fun p => String.eqb (fst p) n) l with Some p => snd p | None => 0 end.

Record call := mkcall { c_kind : opk; c_args : list (string * Z) }.

(* the parameter members: what tj3Get / the getters of the harness can observe, i.e. what a
   "fresh instance with the same settings" shares with the used one *)
Definition param_fields : list fld :=
  (map (fun p => T (p_field p)) tj3set_table ++
  [T "scalingFactor.num"; T "scalingFactor.denom"; T "croppingRegion.x"; T "croppingRegion.y"; T "croppingRegion.w";
   T "croppingRegion.h"; T "iccSize"; T "initC"; T "initD"])%list.

Definition init_state (ic id : bool) : state :=
  mkst (fun f =>
          if fld_eqb f gsc then CSTART else if fld_eqb f gsd then DSTART
          else if fld_eqb f (T "initC") then b2z ic else if fld_eqb f (T "initD") then b2z id
          else if fld_eqb f (T "quality") || fld_eqb f (T "subsamp") || fld_eqb f (T "jpegWidth") || fld_eqb f (T "jpegHeight")
                  || fld_eqb f (T "colorspace") then -1
          else if fld_eqb f (T "precision") then 8
          else if fld_eqb f (T "losslessPSV") || fld_eqb f (T "xDensity") || fld_eqb f (T "yDensity")
                  || fld_eqb f (T "scalingFactor.num") || fld_eqb f (T "scalingFactor.denom") then 1
          else if fld_eqb f (T "saveMarkers") then 2
          else 0)
       (fun _ => None) (fun _ => 0).
Definition init_x (ic id : bool) : xstate := mkx (init_state ic id) dest0 [] None 0%nat.

(* a fresh instance that received the parameter members of s *)
Definition fresh_like (s : state) : state :=
  let i := init_state false false in
  mkst (fun f => if memf f param_fields then sc s f else sc i f) (pt i) (ep i).

Definition step (fx : fixes) (c : call) (x : xstate) : xstate :=
  run_prog (env_of (c_args c)) (prog_of fx (c_kind c)) (mkx (xs x) (xd x) [] (xerr x) 0%nat).
Fixpoint run (fx : fixes) (h : list call) (x : xstate) : xstate :=
  match h with [] => x | c :: t => run fx t (step fx c x) end.

(* a probe is a short sequence of calls (one call, or e.g. tj3DecompressHeader followed by
   tj3GetICCProfile); its result: the observations of every call, in order, and whether any
   of them touched freed memory *)
Fixpoint probe_from (fx : fixes) (cs : list call) (x : xstate) : list (list (string * Z)) * option merr :=
  match cs with
  | [] => ([], xerr x)
  | c :: t => let x' := step fx c x in
              let (o, e) := probe_from fx t x' in (xobs x' :: o, e)
  end.
Definition probe (fx : fixes) (cs : list call) (s : state) (d : dest) : list (list (string * Z)) * option merr :=
  probe_from fx cs (mkx s d [] None 0%nat).

(* ------------------------------------------------------------ analysis entry points *)
Fixpoint cmd_fields (c : cmd) : list fld :=
  match c with
  | CSeq a b => (cmd_fields a ++ cmd_fields b)%list
  | CSet f e => f :: reads e
  | CIfNull _ a b => (cmd_fields a ++ cmd_fields b)%list
  | CIf e a b => (reads e ++ cmd_fields a ++ cmd_fields b)%list
  | CObs _ e => reads e
  | CDest _ e => reads e
  | _ => []
  end.
Definition prog_fields (p : prog) : list fld :=
  (cmd_fields (p_body p) ++ flat_map cmd_fields (p_handlers p) ++ cmd_fields (p_bailout p))%list.
Definition hist_fields (fx : fixes) : list fld :=
  flat_map (fun k => prog_fields (prog_of fx k))
           [KSet; KSetScaling; KSetCrop; KSetICC; KCompress B8; KCompress B12; KCompress B16; KCompressYUV; KEncodeYUV;
            KHeader false false; KDecompress B8 false true false; KDecompress B12 false true false; KDecompress B16 false false false;
            KDecompressYUV false true; KDecodeYUV false; KGetICC; KTransformBufSize; KTransform false true;
            KLegacyCompress; KLegacyDecompress false false; KLegacyTransform false; KLegacyDecompressYUV false;
            KLoadImage B8; KSaveImage B8].

Fixpoint dedup (l acc : list fld) : list fld :=
  match l with [] => acc | f :: t => dedup t (addf f acc) end.

(* between calls *)
Definition a_probe : astate := mka CSTART DSTART param_fields [] idle_nulls.
Definition a_hist (fx : fixes) : astate := mka CSTART DSTART (dedup (hist_fields fx) param_fields) [] idle_nulls.

Definition exits_from (fx : fixes) (a : astate) (k : opk) : option (list astate) :=
  match ana_prog (prog_of fx k) a with
  | Some exits => if forallb at_start exits then Some exits else None
  | None => None
  end.
(* as a call inside a history: returns with both objects in their START state and never
   uses a pointer it did not set itself *)
Definition ok_hist (fx : fixes) (k : opk) : bool :=
  match exits_from fx (a_hist fx) k with Some _ => true | None => false end.
(* as a probe sequence: additionally every value a call reads was written by the sequence
   itself or is a parameter.  All exits are at START, hence merged into one abstract state;
   the next call starts from it (no pointer is assumed valid across calls). *)
Fixpoint inter_all (l : list astate) : list fld :=
  match l with
  | [] => []
  | [a] => a_s a
  | a :: t => inter (a_s a) (inter_all t)
  end.
Definition next_entry (exits : list astate) : astate := mka CSTART DSTART (inter_all exits) [] idle_nulls.
Fixpoint ok_seq (fx : fixes) (a : astate) (ks : list opk) : bool :=
  match ks with
  | [] => true
  | k :: t => is_selfc k &&
              match exits_from fx a k with
              | Some exits => ok_seq fx (next_entry exits) t
              | None => false
              end
  end.
Definition ok_probe (fx : fixes) (ks : list opk) : bool := ok_seq fx a_probe ks.
