(* C06 -- SPECIFICATION of the lossless transforms, independent of the C text.

   In-block: the eight symmetries of the square act on a DCT block as a signed
   permutation of the 64 coefficient positions k = 8*row + col:
     mirror left-right   : coefficient (row, col) is multiplied by (-1)^col
     mirror top-bottom   : coefficient (row, col) is multiplied by (-1)^row
     transposition       : coefficient (row, col) is taken from (col, row)
   (the DCT basis function of horizontal frequency u is even/odd under
   x -> 7-x according to the parity of u).  Every other element is a product.

   Block positions: an operation relocates the blocks of a plane like pixels;
   the part of the plane made of whole iMCUs ("mirrorable area", cw x ch blocks
   of the destination component) is mirrored, blocks outside stay where they
   are (only transposed when the operation transposes).                      *)
From Coq Require Import List ZArith Bool.
From LJT Require Import model.Transform.
Import ListNotations.
Local Open Scope Z_scope.

Inductive d4 := D_id | D_fh | D_fv | D_r180 | D_tr | D_r90 | D_r270 | D_tv.
Definition all_d4 : list d4 := [D_id; D_fh; D_fv; D_r180; D_tr; D_r90; D_r270; D_tv].

Definition tr_idx (k : nat) : nat := ((k mod 8) * 8 + k / 8)%nat.
Definition oddc (k : nat) : bool := Nat.odd (k mod 8).
Definition oddr (k : nat) : bool := Nat.odd (k / 8).

(* destination index k takes  (sign) * source[perm k] *)
Definition d4_perm (g : d4) (k : nat) : nat :=
  match g with D_id | D_fh | D_fv | D_r180 => k | _ => tr_idx k end.
Definition d4_sgn (g : d4) (k : nat) : bool :=
  match g with
  | D_id | D_tr => false
  | D_fh | D_r90 => oddc k          (* r90  = mirror left-right after transposition *)
  | D_fv | D_r270 => oddr k         (* r270 = mirror top-bottom after transposition *)
  | D_r180 | D_tv => xorb (oddc k) (oddr k)
  end.

Definition act (g : d4) (b : blk) : blk :=
  map (fun k => let v := nth (d4_perm g k) b 0 in if d4_sgn g k then neg16 v else v) (seq 0 64).

(* blocks that are not touched are the very same list *)
Definition d4_apply (g : d4) (b : blk) : blk := match g with D_id => b | _ => act g b end.

(* the group element from its three geometric bits *)
Definition d4_of (tr fx fy : bool) : d4 :=
  match tr, fx, fy with
  | false, false, false => D_id | false, true, false => D_fh
  | false, false, true => D_fv  | false, true, true => D_r180
  | true, false, false => D_tr  | true, true, false => D_r90
  | true, false, true => D_r270 | true, true, true => D_tv
  end.

(* g after h, found by comparing signed permutations (closure is a theorem) *)
Definition same_action (e g h : d4) : bool :=
  forallb (fun k => Nat.eqb (d4_perm e k) (d4_perm h (d4_perm g k)) &&
                    Bool.eqb (d4_sgn e k) (xorb (d4_sgn g k) (d4_sgn h (d4_perm g k)))) (seq 0 64).
Definition d4_mul (g h : d4) : d4 := hd D_id (filter (fun e => same_action e g h) all_d4).

(* which destination axes an operation mirrors *)
Definition mirror_x (op : xop) : bool :=
  match op with XFlipH | XTransverse | XRot90 | XRot180 => true | _ => false end.
Definition mirror_y (op : xop) : bool :=
  match op with XFlipV | XTransverse | XRot180 | XRot270 => true | _ => false end.
Definition d4_of_op (op : xop) : d4 := d4_of (transposes op) (mirror_x op) (mirror_y op).

(* destination block (x,y) of a component whose mirrorable area is cw x ch
   blocks, cropped at block offset (X,Y) of the uncropped destination:
   group element and source block position (column, row) *)
Definition spec_pos (op : xop) (cw ch X Y : Z) (x y : Z) : d4 * Z * Z :=
  let fx := mirror_x op && (X + x <? cw) in
  let fy := mirror_y op && (Y + y <? ch) in
  let dx := if fx then cw - 1 - (X + x) else X + x in
  let dy := if fy then ch - 1 - (Y + y) else Y + y in
  (d4_of (transposes op) fx fy, if transposes op then dy else dx, if transposes op then dx else dy).

Definition spec_plane (op : xop) (cw ch X Y : Z) (src : srcfn) : srcfn := fun x y =>
  let fx := mirror_x op && (X + x <? cw) in
  let fy := mirror_y op && (Y + y <? ch) in
  let dx := if fx then cw - 1 - (X + x) else X + x in
  let dy := if fy then ch - 1 - (Y + y) else Y + y in
  d4_apply (d4_of (transposes op) fx fy) (if transposes op then src dy dx else src dx dy).

(* the numbers of whole iMCU columns / rows of the (uncropped) destination *)
Definition mirror_cols (op : xop) (g : geom) : Z :=
  (if transposes op then g_sh g else g_sw g) / (g_maxh g * 8).
Definition mirror_rows (op : xop) (g : geom) : Z :=
  (if transposes op then g_sw g else g_sh g) / (g_maxv g * 8).

Definition spec_comp (op : xop) (g : geom) (src : srcfn) : srcfn :=
  spec_plane op (mirror_cols op g * g_hs g) (mirror_rows op g * g_vs g)
             (g_xco g * g_hs g) (g_yco g * g_vs g) src.

(* whole-plane operation: w x h source blocks, everything mirrorable, no crop *)
Definition full_plane (op : xop) (w h : Z) (src : srcfn) : srcfn :=
  spec_plane op (if transposes op then h else w) (if transposes op then w else h) 0 0 src.

(* quantisation table follows the pixels *)
Definition spec_q (op : xop) (q : list Z) : list Z :=
  if transposes op then map (fun k => nth (tr_idx k) q 0) (seq 0 64) else q.

(* an edge of the SOURCE image is mirrored by op *)
Definition mirrors_src_x (op : xop) : bool :=
  match op with XFlipH | XRot270 | XTransverse | XRot180 => true | _ => false end.
Definition mirrors_src_y (op : xop) : bool :=
  match op with XFlipV | XRot90 | XTransverse | XRot180 => true | _ => false end.

(* operation composition (op2 after op1) through the group *)
Definition op_of_d4 (g : d4) : xop :=
  match g with
  | D_id => XNone | D_fh => XFlipH | D_fv => XFlipV | D_r180 => XRot180
  | D_tr => XTranspose | D_r90 => XRot90 | D_r270 => XRot270 | D_tv => XTransverse
  end.
Definition op_mul (op2 op1 : xop) : xop := op_of_d4 (d4_mul (d4_of_op op2) (d4_of_op op1)).
