(* C09 -- progressive AC refinement scan, jdphuff.c decode_mcu_AC_refine, as a suspendable unit.

   The block lives in the coefficient array and is modified IN PLACE while the MCU is decoded.  On
   suspension (goto undoit) only the coefficients that became newly nonzero in this call are re-zeroed
   (newnz_pos[]); correction bits already added to previously nonzero coefficients stay, and the re-run
   recognises them by `(thiscoef[0] & p1) == 0`.  So the unit returns More with a DIRTY block.

   The nested loops are written as one machine over the band position k:
     MSym        : top of `for (; k <= Se; k++)` -- decode the next symbol
     MSkip r s   : inside `do { } while (k <= Se)` -- skip r zero coefficients, correct nonzero ones,
                   then place the newly nonzero value s (0 for ZRL)
     MEob        : the `if (EOBRUN > 0)` loop
   The block is indexed by the zigzag position k (the C code goes through jpeg_natural_order[k]).   *)
From Coq Require Import List ZArith Bool.
From LJT Require Import model.SuspendCore model.SuspendMarker model.SuspendHuff.
Import ListNotations.
Local Open Scope Z_scope.

Record rcfg := { c_ss : nat; c_se : nat; c_al : Z; c_tbl : dtbl }.

Inductive rmode := MSym | MSkip (r s : Z) | MEob.

Record rwork := {
  w_mode : rmode;
  w_k : nat;
  w_blk : list Z;        (* the block, being modified in place *)
  w_nz : list nat;       (* newnz_pos[], newest first *)
  w_eob : Z;             (* EOBRUN *)
  w_b : br               (* bit reader working state *)
}.

Inductive sres :=
| SNext (w : rwork)
| SFin (blk : list Z) (eob : Z) (b : br)     (* "Completed MCU, so update state" *)
| SSusp (blk : list Z) (nz : list nat)       (* goto undoit *)
| SBad.                                      (* newly nonzero coefficient beyond position 63: corrupt data *)

(* append a correction bit to an already nonzero coefficient *)
Definition correct (al : Z) (c bit : Z) : Z :=
  if bit =? 0 then c
  else if Z.testbit c al then c                   (* (thiscoef[0] & p1) != 0: already done *)
  else if c >=? 0 then c + 2 ^ al                 (* += p1 *)
  else c - 2 ^ al.                                (* += m1 *)

Definition with_b (w : rwork) (b : br) : rwork :=
  {| w_mode := w_mode w; w_k := w_k w; w_blk := w_blk w; w_nz := w_nz w; w_eob := w_eob w; w_b := b |}.

(* run a bit-reader action; a suspension inside it is `goto undoit` *)
Definition rbind {A} (m : B A) (w : rwork) (k : A -> br -> sres) : sres :=
  match m (w_b w) with
  | BOk a b' => k a b'
  | BSusp => SSusp (w_blk w) (w_nz w)
  end.

Definition mk (m : rmode) (k : nat) (blk : list Z) (nz : list nat) (eob : Z) (b : br) : rwork :=
  {| w_mode := m; w_k := k; w_blk := blk; w_nz := nz; w_eob := eob; w_b := b |}.

Definition rstep (c : rcfg) (w : rwork) : sres :=
  let k := w_k w in
  match w_mode w with
  | MSym =>
      if Nat.ltb (c_se c) k then                                  (* for loop finished *)
        if w_eob w >? 0 then SNext (mk MEob k (w_blk w) (w_nz w) (w_eob w) (w_b w))
        else SFin (w_blk w) (w_eob w) (w_b w)
      else
        rbind (huff_decode (c_tbl c)) w (fun s0 b1 =>
          let r := Z.shiftr s0 4 in
          let s := Z.land s0 15 in
          if negb (s =? 0) then
            (* if (s != 1) WARNMS(JWRN_HUFF_BAD_CODE); CHECK_BIT_BUFFER(1); s = GET_BITS(1) ? p1 : m1 *)
            rbind (fun b => bbind (if s =? 1 then bret tt else warn) (fun _ => bbind (check_bits 1) (fun _ => get_bits 1)) b)
                  (with_b w b1) (fun bit b2 =>
              SNext (mk (MSkip r (if bit =? 0 then - 2 ^ c_al c else 2 ^ c_al c)) k (w_blk w) (w_nz w) (w_eob w) b2))
          else if negb (r =? 15) then
            (* EOBr: EOBRUN = 1 << r (+ r appended bits); break *)
            if r =? 0 then SNext (mk MEob k (w_blk w) (w_nz w) 1 b1)
            else rbind (fun b => bbind (check_bits r) (fun _ => get_bits r) b) (with_b w b1) (fun v b2 =>
                   SNext (mk MEob k (w_blk w) (w_nz w) (2 ^ r + v) b2))
          else SNext (mk (MSkip 15 0) k (w_blk w) (w_nz w) (w_eob w) b1))          (* ZRL *)
  | MSkip r s =>
      let coef := nth k (w_blk w) 0 in
      (* the newly nonzero value s is stored at the target zero coefficient, then the for loop's k++:
         if (s) { block[natural_order[k]] = s; newnz_pos[num_newnz++] = pos; } *)
      let place (b : br) : sres :=
        if s =? 0 then SNext (mk MSym (S k) (w_blk w) (w_nz w) (w_eob w) b)
        else if Nat.ltb 63 k then SBad
        else SNext (mk MSym (S k) (upd k s (w_blk w)) (k :: w_nz w) (w_eob w) b) in
      (* the do-while ran off the band: nothing to store for ZRL; a pending nonzero value would be written
         outside the band (natural_order[Se+1]) -- corrupt data, outside the model *)
      let off_band (blk : list Z) (b : br) : sres :=
        if s =? 0 then SNext (mk MSym (S (S k)) blk (w_nz w) (w_eob w) b) else SBad in
      if negb (coef =? 0) then
        rbind (fun b => bbind (check_bits 1) (fun _ => get_bits 1) b) w (fun bit b1 =>
          let blk := upd k (correct (c_al c) coef bit) (w_blk w) in
          if Nat.leb (S k) (c_se c) then SNext (mk (MSkip r s) (S k) blk (w_nz w) (w_eob w) b1)
          else off_band blk b1)
      else if r - 1 <? 0 then place (w_b w)                         (* reached the target zero coefficient *)
      else if Nat.leb (S k) (c_se c) then SNext (mk (MSkip (r - 1) s) (S k) (w_blk w) (w_nz w) (w_eob w) (w_b w))
      else off_band (w_blk w) (w_b w)
  | MEob =>
      if Nat.ltb (c_se c) k then SFin (w_blk w) (w_eob w - 1) (w_b w)           (* EOBRUN-- *)
      else
        let coef := nth k (w_blk w) 0 in
        if negb (coef =? 0) then
          rbind (fun b => bbind (check_bits 1) (fun _ => get_bits 1) b) w (fun bit b1 =>
            SNext (mk MEob (S k) (upd k (correct (c_al c) coef bit) (w_blk w)) (w_nz w) (w_eob w) b1))
        else SNext (mk MEob (S k) (w_blk w) (w_nz w) (w_eob w) (w_b w))
  end.

Inductive rres := RFin (blk : list Z) (eob : Z) (b : br) | RSusp (blk : list Z) (nz : list nat) | RBad | RFuel.

Fixpoint rrun (fuel : nat) (c : rcfg) (w : rwork) : rres :=
  match fuel with
  | O => RFuel
  | S f =>
    match rstep c w with
    | SNext w' => rrun f c w'
    | SFin blk eob b => RFin blk eob b
    | SSusp blk nz => RSusp blk nz
    | SBad => RBad
    end
  end.

(* undoit: while (num_newnz > 0) block[newnz_pos[--num_newnz]] = 0; *)
Definition undo (nz : list nat) (blk : list Z) : list Z := fold_left (fun b p => upd p 0 b) nz blk.

(* ------------------------------------------------------------ permanent state of the scan *)
Record qstate := {
  q_gb : Z; q_bl : Z; q_um : Z; q_insuf : bool; q_warn : nat;     (* bitstate, unread_marker, flags *)
  q_eob : Z;                                                      (* entropy->saved.EOBRUN *)
  q_todo : list (list Z);                                         (* blocks of the scan still to refine; head = current *)
  q_done : list (list Z)
}.

Inductive qerr := Q_CORRUPT | Q_FUEL.

Definition q_load (s : qstate) (p : list byte) : br :=
  {| gb := q_gb s; bl := q_bl s; rest := p; um := q_um s; insuf := q_insuf s; wn := q_warn s |}.

Definition q_set_todo (s : qstate) (t : list (list Z)) : qstate :=
  {| q_gb := q_gb s; q_bl := q_bl s; q_um := q_um s; q_insuf := q_insuf s; q_warn := q_warn s; q_eob := q_eob s;
     q_todo := t; q_done := q_done s |}.

Definition refine_start (s : qstate) (blk : list Z) (c : rcfg) (p : list byte) : rwork :=
  mk (if q_eob s =? 0 then MSym else MEob) (c_ss c) blk [] (q_eob s) (q_load s p).

Definition refine_unit (c : rcfg) (s : qstate) (p : list byte) : ures qstate qerr :=
  match q_todo s with
  | [] => Halt
  | blk :: more =>
    if negb (Nat.eqb (length blk) 64) || (c_al c <? 0) then Fail Q_CORRUPT      (* not a JBLOCK / not a scan header value *)
    else if q_insuf s then                              (* out of data: don't modify the MCU *)
      Done {| q_gb := q_gb s; q_bl := q_bl s; q_um := q_um s; q_insuf := q_insuf s; q_warn := q_warn s; q_eob := q_eob s;
              q_todo := more; q_done := q_done s ++ [blk] |} 0 0
    else
      match rrun 200 c (refine_start s blk c p) with
      | RFin blk' eob b =>
          Done {| q_gb := gb b; q_bl := bl b; q_um := um b; q_insuf := insuf b; q_warn := wn b; q_eob := eob;
                  q_todo := more; q_done := q_done s ++ [blk'] |} (length p - length (rest b)) 0
      | RSusp blk1 nz1 => More (q_set_todo s (undo nz1 blk1 :: more)) 0          (* dirty block stays in the array *)
      | RBad => Fail Q_CORRUPT
      | RFuel => Fail Q_FUEL
      end
  end.

Definition refine_slack (s : qstate) : nat := length (q_todo s).

Definition run_refine (c : rcfg) (cs : list (list byte)) (s : qstate) := run_chunked (refine_unit c) refine_slack cs s.

Definition qinit (eob : Z) (blocks : list (list Z)) : qstate :=
  {| q_gb := 0; q_bl := 0; q_um := 0; q_insuf := false; q_warn := 0%nat; q_eob := eob; q_todo := blocks; q_done := [] |}.
