(* Extraction of the executable C13 model (ExtrOcamlBasic only). *)
From Coq Require Import ExtrOcamlBasic.
From Coq Require Extraction.
From LJT Require Import model.Dest model.WorstCase model.XformIcc proofs.EncoderBounds.
Extraction Language OCaml.
Extraction "x_c13.ml" run cfg_tj cfg_tj_old cfg_ijg tj3JPEGBufSize icc_bytes block_coefs scan_size size_term icc_written chunk_max icc_bytes_written marker_budget size_term_bytes.
