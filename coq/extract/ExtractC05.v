(* Extraction of the executable C05 models (ExtrOcamlBasic only). *)
From Coq Require Import ExtrOcamlBasic.
From Coq Require Extraction.
From LJT Require Import lib.Words model.SimdColor model.SimdSample model.SimdQuant model.SimdDct.
Extraction Language OCaml.
Extraction "x_c05.ml"
  asm_rgb_ycc c_rgb_ycc asm_rgb_y c_rgb_y jccolor_sse2_consts jccolor_avx2_consts jcgray_sse2_consts jcgray_avx2_consts
  asm_ycc_rgb c_ycc_rgb jdcolor_sse2_consts jdcolor_avx2_consts jdmerge_sse2_consts jdmerge_avx2_consts
  c_jdcolor_tabs c_jdmerge_tabs
  asm_h2v1_downsample c_h2v1_downsample asm_h2v2_downsample c_h2v2_downsample jcsample_sse2_consts jcsample_avx2_consts
  asm_h2v1_fancy c_h2v1_fancy asm_h2v2_fancy c_h2v2_fancy jdsample_sse2_consts jdsample_avx2_consts flat2
  compute_reciprocal c_quantize asm_quantize_sse2 asm_quantize_avx2 s16 w16
  c_fdct_ifast asm_fdct_ifast.
