(* Extraction of the executable C06 model (ExtrOcamlBasic only). *)
From Coq Require Import ExtrOcamlBasic.
From Coq Require Extraction.
From LJT Require Import model.Transform model.TransformExt.
Extraction Language OCaml.
Extraction "x_c06.ml" transform tj_transform perfect_transform get_subsamp_l tj_transform_buf_size transform_pad transform2 tj_transform2.
