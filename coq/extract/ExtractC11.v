(* Extraction of the executable C11 model (ExtrOcamlBasic only). *)
From Coq Require Import ExtrOcamlBasic.
From Coq Require Extraction.
From LJT Require Import model.Extent model.ExtentApi model.ExtentHist model.ExtentLanes model.Extent565 gen.GenAlign.
Extraction Language OCaml.
Extraction "x_c11.ml" tjscaled set_crop dec_out_w dec_out_h packed_accesses decompress_accesses packed_size
  plane_w plane_h plane_size yuv_buf_size eff_stride samp_h samp_v ncomp
  encdec_plane rawdata_plane all_planes unified_planes writes footprint model_trace
  st_row_stores ld_row_loads sse2_st3 sse2_st4 avx2_st3 avx2_st4 sse2_ld3 sse2_ld4 avx2_ld3 avx2_ld4
  sarray_row_len simd_touched dec_recheck hist_region crop_align dec_chk_left dec_chk_width dec_chk_bottom
  h2v1_downsample_c h2v2_downsample_c h2v1_fancy_c h2v2_fancy_c h2v1_downsample_simd h2v2_downsample_simd h2v1_fancy_simd h2v2_fancy_simd rgb565_row_end.
