(* Extraction of the executable C01 model (ExtrOcamlBasic only). *)
From Coq Require Import ExtrOcamlBasic.
From Coq Require Extraction.
From LJT Require Import model.Huff model.DMarkers model.DFastPath model.DProg model.DArith model.DCoef model.DCoefPos.
Extraction Language OCaml.
Extraction "x_c01.ml" read_and_start read_header_susp read_header_mem start_input_pass
  decode_block apply_stores make_d_derived decode_block_fast fstate0 ac_first_loop ac_refine_block lh_setup dc_decode ac_decode mcu_positions.
