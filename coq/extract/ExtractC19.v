(* Extraction of the executable C19 model (ExtrOcamlBasic only). *)
From Coq Require Import ExtrOcamlBasic.
From Coq Require Extraction.
From LJT Require Import model.Huff model.HuffSym.
Extraction Language OCaml.
Extraction "x_c19.ml" nbits gen_optimal_table make_c_derived make_d_derived
  encode_sym decode_lookahead decode_serial valid_table
  htest_one_block dc_first_symbol ac_first_mcu ac_refine_mcu emit_eobrun pstate0 lossless_symbol count_syms.
