(* Extraction of the executable C20 model (ExtrOcamlBasic only). *)
From Coq Require Import ExtrOcamlBasic.
From Coq Require Extraction.
From LJT Require Import gen.GenSubsamp model.Geometry model.YuvCopy model.RawData.
Extraction Language OCaml.
Extraction "x_c20.ml" tj3YUVPlaneWidth tj3YUVPlaneHeight tj3YUVBufSize tj3YUVPlaneSize unified_layout
  unified_fns scaled_dim sf_tbl tjMCUWidth_tbl tjMCUHeight_tbl cfp_plane_w cfp_plane_h enc_plane_w enc_plane_h
  dec_plane_w dec_plane_h dtp_dctsize getSubsamp3
  enc_access dec_access dtp_access cfp_access dtp_usetmpbuf cfp_usetmpbuf dtp_tmp_geom lj_wib lj_hib lj_out
  ljg_wib ljg_hib ljg_imcu_rows ljg_rows_in_call ljg_min_dct ljg_out_w ljg_out_h dtp_protocol cfp_protocol cfp_iteration_ok
  cfp_plane_w cfp_plane_h cfp_iw cfp_ih cfp_th cfp_crow lj_vs comp_vsamp0 cfp_loopstep.
