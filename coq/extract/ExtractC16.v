(* Extraction of the executable C16 model (ExtrOcamlBasic only). *)
From Coq Require Import ExtrOcamlBasic.
From Coq Require Extraction.
From LJT Require Import gen.GenIccConst model.MarkerRT model.Icc model.CopyMarkers model.TjHeader model.MarkerSuspend model.CopyMulti model.MarkerSeq model.MarkerTrace model.MarkerScan.
Extraction Language OCaml.
Extraction "x_c16.ml" write_icc read_icc read_icc_fast marker_is_icc markers_of saved_of write_marker write_markers
  jpeg_save_markers cfg_init read_header read_app_markers hinfo_init
  emit_sof get_sof emit_sos get_sos emit_dri get_dri emit_jfif_app0 emit_adobe_app14 emit_file_header
  sof_code sof_flags decide_colorspace copy_setup copy_execute copy_pipeline
  tj_setup_option tj_execute_option tj_transform_extras history_cfg copy_pipeline_from scan_header first_marker next_marker_full trace_marker mapi_run tj_transform_multi_bytes tj_bufsize_icc tj_transform_multi jpeg_write_marker_api jpeg_write_icc_profile_api read_file read_marker_seq apply_markers emit_dqt susp_header susp_run hstate_init header_of get_subsamp tj_factors.
