(* Extraction of the executable C18 model (ExtrOcamlBasic only). *)
From Coq Require Import ExtrOcamlBasic.
From Coq Require Extraction.
From LJT Require Import model.Pnm model.Bmp model.ImgEntry model.RdCommon model.Gif model.Tga.
Extraction Language OCaml.
Extraction "x_c18.ml" load_pnm save_pnm look_fn look_tbl layout_of_pf bmp_header load_bmp load_bmp_cj save_bmp tj_load_dp tj_fmt cj_accepts cj_fmt load_gif gif_header load_tga tga_header.
