(* Extraction of the executable C17 model (ExtrOcamlBasic only). *)
From Coq Require Import ExtrOcamlBasic.
From Coq Require Extraction.
From LJT Require Import model.Huff gen.GenParams model.CParams model.CProgScript model.CRestart model.CMarker model.CParamApi model.CRefine model.CModules.
Extraction Language OCaml.
Extraction "x_c17.ml" validate_script initial_setup per_scan_setup master_start master_rest
  run_master encode_one_block flush_bits bitstate0 zigzag_block make_c_derived
  prog_dc_ok prog_ac_ok seq_dc_ok seq_ac_ok tj3set_accepts quant_entry islow_divisor
  g_ZERO_QUANT_REJECTED g_BUFSIZE in_bounds simple_progression simple_nscans sp_workspace wspace0 image_intervals dri_run assemble encode_mk regen_std optimize_eff dcrefine_of pass_trace
  g_std_luminance_quant_tbl g_std_dc_bits g_std_dc_vals g_std_ac_bits g_std_ac_vals
  g_std_chrominance_quant_tbl g_std_dcc_bits g_std_dcc_vals g_std_acc_bits g_std_acc_vals write_tables_only api_write_marker bytes_of
  refine_scan g_CORR_BUFFER_SIZE set_quality_tables linear_quality_tables set_colorspace default_colorspace select_modules select_modules_gen tj_compress_setup
  g_TJPARAM_QUALITY g_TJPARAM_SUBSAMP g_TJPARAM_PRECISION g_TJPARAM_COLORSPACE g_TJPARAM_LOSSLESS g_TJPARAM_LOSSLESSPSV
  g_TJPARAM_LOSSLESSPT g_TJPARAM_PROGRESSIVE g_TJPARAM_ARITHMETIC g_TJPARAM_OPTIMIZE g_TJPARAM_RESTARTBLOCKS g_TJPARAM_RESTARTROWS.
