(* Extraction of the executable C03 models (ExtrOcamlBasic only). *)
From Coq Require Import ExtrOcamlBasic.
From Coq Require Extraction.
From LJT Require Import model.Huff model.Seq model.Prog model.Script model.ArithBin.
Extraction Language OCaml.
Extraction "x_c03.ml" make_c_derived make_d_derived encode_sym decode_serial
  natural_order seq_enc_scan seq_dec_scan
  dcf_enc_scan dcf_dec_scan dcr_enc_scan dcr_dec_scan
  acf_enc_scan acf_dec_scan acr_enc_scan acr_dec_scan
  validate_script script_complete
  aseq_enc_scan aseq_dec_scan adcf_enc_scan adcf_dec_scan adcr_enc_scan adcr_dec_scan
  aacf_enc_scan aacf_dec_scan aacr_enc_scan aacr_dec_scan.
