(* Extraction of the executable C09 models (ExtrOcamlBasic only). *)
From Coq Require Import ExtrOcamlBasic.
From Coq Require Extraction.
From Coq Require Import ZArith.
From LJT Require Import model.SuspendCore model.SuspendMarker model.SuspendHuff model.SuspendEnc model.SuspendRefine model.SuspendProg.
Extraction Language OCaml.
Extraction "x_c09.ml" run_markers minit default_procs resume_after_sos marker_unit cget run_scan hinit scan_blocks toy_run toy_pure run_scan_sw run_refine run_dc_first run_ac_first run_dc_refine run_lossless_mcus pq_init dq_init qinit derive_dtbl Z.div Z.modulo.
