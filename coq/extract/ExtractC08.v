(* Extraction of the executable C08 model (ExtrOcamlBasic only). *)
From Coq Require Import ExtrOcamlBasic.
From Coq Require Extraction.
From LJT Require Import model.Partial model.PartialSmooth model.PartialCols gen.GenScaling proofs.PartialCtxFinal.
Extraction Language OCaml.
Extraction "x_c08.ml" derive_config crop_scanline comp_window comp_dsw crop_align run overread row_of_prov
  first_hazard first_hazard_c c_init a_init crop_reinit_hazard tj_set_region tjscaled jdiv_round_up gen_scale_chain gen_sf gen_DCTSIZE gen_tjMCUWidth gen_tjMCUHeight gen_crop_merged_guard gen_fix_h1 gen_fix_h2 gen_fix_h4 gen_fix_h6 gen_smooth_left_real recrop_faithful recrop_documented smooth_left_band smoothing_active ctx_v2_okb.
