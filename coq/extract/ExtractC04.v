(* Extraction of the executable T.81 specification model (ExtrOcamlBasic only). *)
From Coq Require Import ExtrOcamlBasic.
From Coq Require Extraction.
From LJT Require Import model.T81Spec model.T81Arith.
Extraction Language OCaml.
Extraction "x_c04.ml" parse_raw stream_ok t81_parse t81_decode t81_qtables t81_decode_lossless t81_decode_progressive t81_emit_lossless t81_decode_arith t81_emit_arith t81_decode_arith_prog t81_emit_arith_prog qm_encode_all aenc_interval t81_emit layout emit_stream stuff read_ecs.
