(* Extraction of the executable C07 model (ExtrOcamlBasic only). *)
From Coq Require Import ExtrOcamlBasic.
From Coq Require Extraction.
From LJT Require Import model.Quant model.Dct model.C07Edge.
Extraction Language OCaml.
Extraction "x_c07.ml" flss compute_reciprocal quantize_recip_one quantize_simd_one
  quantize_one scaled_divisor start_pass_divisors quantize_block rdiv
  maxsample centersample convsamp fdct_islow dct_table idct_islow range_limit_entry range_limit
  forward_block inverse_block roundtrip_block expand_right_edge expand_bottom_edge.
