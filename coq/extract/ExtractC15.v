(* Extraction of the executable C15 replay (ExtrOcamlBasic only). *)
From Coq Require Import ExtrOcamlBasic.
From Coq Require Extraction.
From LJT Require Import model.Threads model.ErrState.
Extraction Language OCaml.
Extraction "x_c15.ml" lreplay.
