(* Extraction of the executable C15 replays (ExtrOcamlBasic only). *)
From Coq Require Import ExtrOcamlBasic.
From Coq Require Extraction.
From LJT Require Import model.Threads model.ErrState model.ErrCode.
Extraction Language OCaml.
Extraction "x_c15.ml" lreplay lcreplay.
