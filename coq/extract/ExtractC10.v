(* Extraction of the executable C10 model (ExtrOcamlBasic only). *)
From Coq Require Import ExtrOcamlBasic.
From Coq Require Extraction.
From LJT Require Import model.Color model.Color565.
Extraction Language OCaml.
Extraction "x_c10.ml" cs_layout rows prec_of_bits amax_of_bits plane
  rgb_ycc_convert rgb_gray_convert rgb_rgb_convert
  ycc_rgb_convert gray_rgb_convert rgb_ext_convert grayscale_convert_d rgb_gray_convert_d
  h2v1_rows h2v2_rows convert565 merged565 cmyk_ycck_convert ycck_cmyk_convert.
