(* Extraction of the executable C14 model (ExtrOcamlBasic only). *)
From Coq Require Import ExtrOcamlBasic.
From Coq Require Extraction.
From LJT Require Import model.MemMgr model.TjInit model.DestBuf model.VirtAccess model.TjAlloc model.MemCfg gen.GenMemConst gen.GenTjAlloc.
Extraction Language OCaml.
Extraction "x_c14.ml" gen_cfg step64 init_st align_simd align_nosimd
  pixels_rejected_src scan_rejected_src max_memory_to_use_of tjinit_src tjinit_handler_destroys
  final dcfg_tj dcfg_ljpeg
  va_realize access write_rows load_rows sample_size rup
  acq_count tj_progs tj_nonmalloc.
