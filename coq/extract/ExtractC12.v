(* Extraction of the executable C12 model (ExtrOcamlBasic only). *)
From Coq Require Import ExtrOcamlBasic.
From Coq Require Extraction.
From LJT Require Import gen.GenErrPaths model.ApiState model.ApiOps model.ErrPaths.
Extraction Language OCaml.
Extraction "x_c12.ml" run step probe fresh_like init_x faithful all_fixed ok_hist ok_probe pstat
  tj3set_table param_fields fn_ok api_functions a_hist cptrs dptrs.
