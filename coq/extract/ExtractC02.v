(* Extraction of the executable C02 model (ExtrOcamlBasic only). *)
From Coq Require Import ExtrOcamlBasic.
From Coq Require Extraction.
From LJT Require Import model.Huff model.Lossless model.LosslessBytes model.LosslessLazy proofs.LosslessHuffProofs model.LosslessPixels gen.GenLossless proofs.LosslessGenProofs.
Extraction Language OCaml.
Extraction "x_c02.ml" diff_fn undiff_fn scale_down scale_up bits_of_prec enc_component dec_component
  codec_component decode_scan_e2e encode_scan_e2e huff_dec make_d_derived gen_tj_layout gen_dec_alpha dec_slots_of scatter gen_optimal_table make_c_derived encode_scan_bytes read_ecs emit_bits flush_bits enc_scan_rows dec_scan_rows codec_scan params_ok enc_rows dec_rows start_pass_ok bits_of get_bits encode_tok decode_tok encode_diff decode_diff canon_diff clear_low enc_after_row reset_predictor.
