(* Arithmetic of the PAD / IS_POW2 / ceil-division idioms (used by C20). *)
From Coq Require Import ZArith Lia Bool.
Local Open Scope Z_scope.

(* ceil(a / b) for b > 0 *)
Definition cdiv (a b : Z) : Z := (a + b - 1) / b.
(* a rounded up to a multiple of b *)
Definition pad_up (a b : Z) : Z := cdiv a b * b.

Lemma cdiv_spec a b : 0 < b -> (cdiv a b - 1) * b < a <= cdiv a b * b.
Proof.
  intros Hb. unfold cdiv.
  pose proof (Z.div_mod (a + b - 1) b ltac:(lia)) as E.
  pose proof (Z.mod_pos_bound (a + b - 1) b Hb) as M.
  nia.
Qed.

Lemma cdiv_unique a b q : 0 < b -> (q - 1) * b < a <= q * b -> cdiv a b = q.
Proof.
  intros Hb H. pose proof (cdiv_spec a b Hb) as S.
  assert (~ cdiv a b < q) by nia. assert (~ q < cdiv a b) by nia. lia.
Qed.

Lemma cdiv_pos a b : 0 < b -> 1 <= a -> 1 <= cdiv a b.
Proof. intros Hb Ha. pose proof (cdiv_spec a b Hb). nia. Qed.

Lemma cdiv_nonneg a b : 0 < b -> 0 <= a -> 0 <= cdiv a b.
Proof. intros Hb Ha. pose proof (cdiv_spec a b Hb). nia. Qed.

Lemma cdiv_le a b : 0 < b -> 0 <= a -> cdiv a b <= a.
Proof.
  intros Hb Ha. destruct (Z.eq_dec a 0) as [->|].
  - unfold cdiv. rewrite Z.div_small; lia.
  - pose proof (cdiv_spec a b Hb). nia.
Qed.

Lemma cdiv_1 a : cdiv a 1 = a.
Proof. unfold cdiv. rewrite Z.div_1_r. lia. Qed.

Lemma cdiv_mono a a' b : 0 < b -> a <= a' -> cdiv a b <= cdiv a' b.
Proof. intros. unfold cdiv. apply Z.div_le_mono; lia. Qed.

Lemma pad_up_bounds a b : 0 < b -> a <= pad_up a b < a + b.
Proof. intros Hb. unfold pad_up. pose proof (cdiv_spec a b Hb). nia. Qed.

Lemma pad_up_multiple a b : 0 < b -> pad_up a b mod b = 0.
Proof. intros. unfold pad_up. apply Z.mod_mul. lia. Qed.

Lemma pad_up_of_multiple q b : 0 < b -> pad_up (q * b) b = q * b.
Proof.
  intros Hb. unfold pad_up. f_equal. apply cdiv_unique; nia.
Qed.

Lemma pad_up_div a b : 0 < b -> pad_up a b / b = cdiv a b.
Proof. intros. unfold pad_up. apply Z.div_mul. lia. Qed.

(* ceil(ceil(a/b)*b / b) : the chroma dimension computed from the padded luma one *)
Lemma pad_up_1 a : pad_up a 1 = a.
Proof. unfold pad_up. rewrite cdiv_1. lia. Qed.

(* ---- the bit trick:  (v + p - 1) & ~(p - 1)  for p = 2^k ---- *)
Lemma land_lnot_pow2 a k : 0 <= k -> Z.land a (Z.lnot (2 ^ k - 1)) = (a / 2 ^ k) * 2 ^ k.
Proof.
  intros Hk. rewrite <- Z.ldiff_land.
  replace (2 ^ k - 1) with (Z.ones k) by (rewrite Z.ones_equiv; lia).
  rewrite Z.ldiff_ones_r by lia.
  rewrite Z.shiftl_mul_pow2, Z.shiftr_div_pow2 by lia. reflexivity.
Qed.

Lemma pad_trick v k : 0 <= k ->
  Z.land ((v + 2 ^ k) - 1) (Z.lnot (2 ^ k - 1)) = pad_up v (2 ^ k).
Proof.
  intros Hk. rewrite land_lnot_pow2 by lia. unfold pad_up, cdiv. reflexivity.
Qed.

(* reducing the mask modulo 2^n does not matter when the other operand is below 2^n *)
Lemma land_mod_r a b n : 0 <= n -> 0 <= a < 2 ^ n -> Z.land a (b mod 2 ^ n) = Z.land a b.
Proof.
  intros Hn Ha. rewrite <- (Z.land_ones b n) by lia.
  rewrite (Z.land_comm b), Z.land_assoc, Z.land_ones by lia.
  rewrite Z.mod_small by lia. reflexivity.
Qed.

(* ---- IS_POW2 ---- *)
Lemma is_pow2_pow2 k : 0 <= k -> Z.land (2 ^ k) (2 ^ k - 1) = 0.
Proof.
  intros Hk. replace (2 ^ k - 1) with (Z.ones k) by (rewrite Z.ones_equiv; lia).
  rewrite Z.land_ones by lia. apply Z.mod_same. apply Z.pow_nonzero; lia.
Qed.

Lemma is_pow2_inv x : 1 <= x -> Z.land x (x - 1) = 0 -> x = 2 ^ Z.log2 x.
Proof.
  intros Hx H.
  pose proof (Z.log2_spec x ltac:(lia)) as [L U].
  pose proof (Z.log2_nonneg x) as Hk.
  set (k := Z.log2 x) in *.
  destruct (Z.eq_dec x (2 ^ k)) as [|Hne]; [assumption|exfalso].
  assert (Hk1 : Z.log2 (x - 1) = k).
  { apply Z.log2_unique; [assumption|]. replace (Z.succ k) with (k + 1) in * by lia. lia. }
  assert (B1 : Z.testbit x k = true) by (apply Z.bit_log2; lia).
  assert (B2 : Z.testbit (x - 1) k = true).
  { rewrite <- Hk1. apply Z.bit_log2. assert (0 < 2 ^ k) by (apply Z.pow_pos_nonneg; lia). lia. }
  assert (B : Z.testbit (Z.land x (x - 1)) k = true) by (rewrite Z.land_spec, B1, B2; reflexivity).
  rewrite H, Z.bits_0 in B. discriminate.
Qed.

Lemma pow2_le_log k n : 0 <= k -> 2 ^ k <= 2 ^ n -> 0 <= n -> k <= n.
Proof.
  intros Hk H Hn. destruct (Z_le_gt_dec k n); [assumption|].
  assert (2 ^ n < 2 ^ k) by (apply Z.pow_lt_mono_r; lia). lia.
Qed.
