(* Finite sweeps: a boolean predicate checked by vm_compute on every element of
   an integer interval, lifted to a universally quantified statement. *)
From Coq Require Import List ZArith Lia Bool.
Import ListNotations.
Local Open Scope Z_scope.

Fixpoint zrange (lo : Z) (n : nat) : list Z :=
  match n with O => [] | S k => lo :: zrange (lo + 1) k end.

Lemma zrange_In lo n x : lo <= x < lo + Z.of_nat n -> In x (zrange lo n).
Proof.
  revert lo. induction n as [|n IH]; intros lo H; [lia|].
  cbn [zrange]. destruct (Z.eq_dec lo x) as [->|Hne]; [left; reflexivity|].
  right. apply IH. lia.
Qed.

Definition sweep (f : Z -> bool) (lo hi : Z) : bool := forallb f (zrange lo (Z.to_nat (hi - lo))).

Lemma sweep_sound f lo hi : sweep f lo hi = true -> forall x, lo <= x < hi -> f x = true.
Proof.
  unfold sweep. intros H x Hx. rewrite forallb_forall in H. apply H. apply zrange_In. lia.
Qed.

(* two-dimensional sweep *)
Definition sweep2 (f : Z -> Z -> bool) (lo1 hi1 lo2 hi2 : Z) : bool :=
  sweep (fun a => sweep (f a) lo2 hi2) lo1 hi1.
Lemma sweep2_sound f lo1 hi1 lo2 hi2 : sweep2 f lo1 hi1 lo2 hi2 = true ->
  forall a b, lo1 <= a < hi1 -> lo2 <= b < hi2 -> f a b = true.
Proof.
  unfold sweep2. intros H a b Ha Hb.
  pose proof (sweep_sound _ _ _ H a Ha) as H1. cbv beta in H1.
  exact (sweep_sound _ _ _ H1 b Hb).
Qed.
