(* Lane semantics of the x86 SIMD integer instructions used by the libjpeg-turbo
   kernels (SSE2 and their AVX2 "v" forms, which act lane-wise identically).

   A lane holds its BIT PATTERN as a natural number: 0 <= w < 2^width.  The
   signed reading is s16 / s32.  Every operation below is the Intel SDM
   definition of one lane (or one pair of lanes for pmaddwd) of the instruction
   of the same name.  Register-level shuffles (punpck*, psrldq/pslldq, pack
   halves) are list operations on the list of lanes, lowest lane first. *)
From Coq Require Import List ZArith Lia Bool.
Import ListNotations.
Local Open Scope Z_scope.

Definition w8 (x : Z) : Z := x mod 256.
Definition w16 (x : Z) : Z := x mod 65536.
Definition w32 (x : Z) : Z := x mod 4294967296.
Definition s16 (w : Z) : Z := (w + 32768) mod 65536 - 32768.
Definition s32 (w : Z) : Z := (w + 2147483648) mod 4294967296 - 2147483648.

(* ---- word lanes ---- *)
Definition paddw (a b : Z) : Z := w16 (a + b).
Definition psubw (a b : Z) : Z := w16 (a - b).
Definition pmullw (a b : Z) : Z := w16 (a * b).
Definition pmulhw (a b : Z) : Z := w16 ((s16 a * s16 b) / 65536).      (* signed high half *)
Definition pmulhuw (a b : Z) : Z := (a * b) / 65536.                    (* unsigned high half *)
Definition psllw (a n : Z) : Z := w16 (a * 2 ^ n).
Definition psrlw (a n : Z) : Z := a / 2 ^ n.                            (* logical *)
Definition psraw (a n : Z) : Z := w16 (s16 a / 2 ^ n).                  (* arithmetic *)
Definition pxor16 (a b : Z) : Z := Z.lxor a b.
(* ---- dword lanes ---- *)
Definition paddd (a b : Z) : Z := w32 (a + b).
Definition pslld (a n : Z) : Z := w32 (a * 2 ^ n).
Definition psrld (a n : Z) : Z := a / 2 ^ n.
Definition psrad (a n : Z) : Z := w32 (s32 a / 2 ^ n).
(* pmaddwd: two adjacent signed words times two adjacent signed words, summed into a dword *)
Definition pmaddwd (a0 a1 b0 b1 : Z) : Z := w32 (s16 a0 * s16 b0 + s16 a1 * s16 b1).
(* punpcklwd zero,x : the word lands in the HIGH half of the dword *)
Definition dword_hi (x : Z) : Z := x * 65536.
(* ---- saturating packs (per lane) ---- *)
Definition packuswb (w : Z) : Z :=                 (* signed word -> unsigned saturated byte *)
  let v := s16 w in if v <? 0 then 0 else if 255 <? v then 255 else v.
Definition packssdw (d : Z) : Z :=                 (* signed dword -> signed saturated word *)
  let v := s32 d in w16 (if v <? -32768 then -32768 else if 32767 <? v then 32767 else v).
(* low / high byte of a word lane as stored in memory (little endian) *)
Definition lo8 (w : Z) : Z := w mod 256.
Definition hi8 (w : Z) : Z := w / 256.
(* (even | odd << 8): psllw odd,8 ; por *)
Definition pack_eo (e o : Z) : Z := Z.lor e (psllw o 8).

(* ---- list (register) level ---- *)
Fixpoint interleave {A} (l1 l2 : list A) : list A :=
  match l1, l2 with
  | a :: t1, b :: t2 => a :: b :: interleave t1 t2
  | _, _ => []
  end.
Definition punpckl {A} (n : nat) (a b : list A) : list A := interleave (firstn n a) (firstn n b).
Definition punpckh {A} (n : nat) (a b : list A) : list A := interleave (skipn n a) (skipn n b).
(* byte shifts of a whole register: psrldq k drops the k lowest lanes and zero fills the top *)
Definition psrldq (k : nat) (l : list Z) : list Z := skipn k l ++ repeat 0 (Nat.min k (length l)).
Definition pslldq (k : nat) (l : list Z) : list Z := repeat 0 (Nat.min k (length l)) ++ firstn (length l - k) l.
Definition map2 {A B C} (f : A -> B -> C) (l1 : list A) (l2 : list B) : list C :=
  map (fun p => f (fst p) (snd p)) (combine l1 l2).
(* even / odd bytes of a byte vector seen as word lanes: pand 0x00FF / psrlw 8 *)
Fixpoint evens {A} (l : list A) : list A :=
  match l with a :: _ :: t => a :: evens t | [a] => [a] | [] => [] end.
Fixpoint odds {A} (l : list A) : list A :=
  match l with _ :: b :: t => b :: odds t | _ => [] end.

(* ---- basic facts ---- *)
Lemma s16_small x : 0 <= x < 32768 -> s16 x = x.
Proof. unfold s16. intros. rewrite Z.mod_small by lia. lia. Qed.
Lemma s16_w16 x : -32768 <= x < 32768 -> s16 (w16 x) = x.
Proof.
  unfold s16, w16. intros.
  rewrite Zplus_mod_idemp_l. rewrite Z.mod_small by lia. lia.
Qed.
Lemma s32_small x : 0 <= x < 2147483648 -> s32 x = x.
Proof. unfold s32. intros. rewrite Z.mod_small by lia. lia. Qed.
Lemma s32_w32 x : -2147483648 <= x < 2147483648 -> s32 (w32 x) = x.
Proof.
  unfold s32, w32. intros.
  rewrite Zplus_mod_idemp_l. rewrite Z.mod_small by lia. lia.
Qed.
Lemma w16_small x : 0 <= x < 65536 -> w16 x = x.
Proof. unfold w16. intros. apply Z.mod_small. lia. Qed.
Lemma w32_small x : 0 <= x < 4294967296 -> w32 x = x.
Proof. unfold w32. intros. apply Z.mod_small. lia. Qed.
Lemma w16_range x : 0 <= w16 x < 65536.
Proof. unfold w16. apply Z.mod_pos_bound. lia. Qed.
Lemma w32_range x : 0 <= w32 x < 4294967296.
Proof. unfold w32. apply Z.mod_pos_bound. lia. Qed.

Lemma packuswb_clamp t : -32768 <= t < 32768 ->
  packuswb (w16 t) = if t <? 0 then 0 else if 255 <? t then 255 else t.
Proof. intros. unfold packuswb. rewrite s16_w16 by lia. reflexivity. Qed.

(* even | (odd << 8) for two bytes: the memory bytes are exactly (even, odd) *)
Lemma pack_eo_bytes e o : 0 <= e < 256 -> 0 <= o < 256 ->
  lo8 (pack_eo e o) = e /\ hi8 (pack_eo e o) = o.
Proof.
  intros He Ho. unfold pack_eo, psllw, lo8, hi8.
  replace (w16 (o * 2 ^ 8)) with (o * 256) by (unfold w16; rewrite Z.mod_small; lia).
  assert (Hor : Z.lor e (o * 256) = e + o * 256).
  { replace (o * 256) with (Z.shiftl o 8) by (rewrite Z.shiftl_mul_pow2; lia).
    rewrite <- Z.lxor_lor.
    - rewrite <- Z.add_nocarry_lxor; [reflexivity|].
      apply Z.bits_inj'. intros n Hn. rewrite Z.land_spec, Z.bits_0.
      destruct (Z.ltb_spec n 8).
      + rewrite Z.shiftl_spec_low by lia. apply andb_false_r.
      + replace (Z.testbit e n) with false; [reflexivity|].
        symmetry. destruct (Z.eq_dec e 0) as [->|]; [apply Z.bits_0|].
        apply Z.bits_above_log2; [lia|].
        assert (Z.log2 e < 8) by (apply Z.log2_lt_pow2; lia). lia.
    - apply Z.bits_inj'. intros n Hn. rewrite Z.land_spec, Z.bits_0.
      destruct (Z.ltb_spec n 8).
      + rewrite Z.shiftl_spec_low by lia. apply andb_false_r.
      + replace (Z.testbit e n) with false; [reflexivity|].
        symmetry. destruct (Z.eq_dec e 0) as [->|]; [apply Z.bits_0|].
        apply Z.bits_above_log2; [lia|].
        assert (Z.log2 e < 8) by (apply Z.log2_lt_pow2; lia). lia. }
  rewrite Hor. split.
  - rewrite Z.mod_add by lia. apply Z.mod_small. lia.
  - rewrite Z.div_add by lia. rewrite Z.div_small by lia. lia.
Qed.

Lemma interleave_length {A} (a b : list A) : length a = length b -> length (interleave a b) = (2 * length a)%nat.
Proof.
  revert b. induction a as [|x a IH]; intros [|y b] H; cbn in *; try lia.
  rewrite IH by lia. lia.
Qed.

(* SSSE3 / AVX2 sign helpers used by jquanti-avx2.asm *)
Definition pabsw (a : Z) : Z := w16 (Z.abs (s16 a)).
Definition psignw (a b : Z) : Z :=
  let sb := s16 b in if sb <? 0 then w16 (- a) else if sb =? 0 then 0 else a.
