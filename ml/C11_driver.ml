(* C11: reads the same case lines as harness/c11.c, prints for every caller buffer its
   minimal size and the model's write footprint (merged sorted intervals, "r" for a
   buffer that is only read) *)
open X_c11

let kv line =
  let tbl = Hashtbl.create 16 in
  List.iter (fun w -> match String.index_opt w '=' with
    | Some i -> Hashtbl.replace tbl (String.sub w 0 i) (String.sub w (i + 1) (String.length w - i - 1))
    | None -> ()) (words line);
  tbl
let gi t k = try int_of_string (Hashtbl.find t k) with Not_found -> (match k with "num" | "den" | "align" -> 1 | "bits" -> 8 | _ -> 0)
let gz t k = z_of_int (gi t k)
let gs t k = try Hashtbl.find t k with Not_found -> ""

let pixel_size = [| 3; 3; 4; 4; 4; 4; 1; 4; 4; 4; 4; 4 |]

let ivs l = match l with
  | [] -> "-"
  | _ -> String.concat "," (List.map (fun (o, n) -> Printf.sprintf "%d+%d" (int_of_z o) (int_of_z n)) l)
let big = ref false
let bufw id size tr =
  if !big then Printf.sprintf "b%d=%d:%s" id (int_of_z size) (if footprint (z_of_int id) (writes tr) = [] then "-" else "full")
  else Printf.sprintf "b%d=%d:%s" id (int_of_z size) (ivs (footprint (z_of_int id) (writes tr)))
let hdr ow oh = if !big then "ok" else Printf.sprintf "ok ow=%d oh=%d" ow oh
let bufr id size = Printf.sprintf "b%d=%d:r" id (int_of_z size)

let kernel_of name =
  match name with
  | "sse2_st3" -> `St sse2_st3 | "sse2_st4" -> `St sse2_st4 | "avx2_st3" -> `St avx2_st3 | "avx2_st4" -> `St avx2_st4
  | "sse2_ld3" -> `Ld sse2_ld3 | "sse2_ld4" -> `Ld sse2_ld4 | "avx2_ld3" -> `Ld avx2_ld3 | "avx2_ld4" -> `Ld avx2_ld4
  | _ -> `No

let () = iter_lines (fun line ->
  let t = kv line in
  big := false;
  let ws = match words line with
    | "big" :: rest -> big := true;
        (if gs t "api" = "cmp" || gs t "api" = "dec" then "pk" else "yuv") :: rest
    | l -> l in
  match ws with
  | "pk" :: _ ->
      let api = gs t "api" in
      let ps = z_of_int pixel_size.(gi t "pf") in
      let ssize = z_of_int (if gi t "bits" > 8 then 2 else 1) in
      let bu = gi t "bu" = 1 in
      let pad = gi t "pad" in
      if api = "cmp" then begin
        let w = gz t "w" and h = gz t "h" in
        let pitch = if pad < 0 then Z0 else z_of_int (gi t "w" * int_of_z ps + pad) in
        Printf.printf "%s %s\n" (hdr (gi t "w") (gi t "h")) (bufr 0 (packed_size w pitch h ps ssize))
      end else begin
        let jw = gz t "w" and jh = gz t "h" and num = gz t "num" and den = gz t "den" in
        let mcuw = z_of_int (8 * int_of_z (samp_h (gz t "ss"))) in
        match set_crop jw jh num den mcuw { r_x = gz t "cx"; r_y = gz t "cy"; r_w = gz t "cw"; r_h = gz t "ch" } with
        | None -> print_endline "err crop"
        | Some c ->
            let ow = dec_out_w jw num den c and oh = dec_out_h jh num den c in
            let pitch = if pad < 0 then Z0 else z_of_int (int_of_z ow * int_of_z ps + pad) in
            let tr = decompress_accesses jw jh num den c pitch ps ssize bu in
            Printf.printf "%s %s\n" (hdr (int_of_z ow) (int_of_z oh)) (bufw 0 (packed_size ow pitch oh ps ssize) tr)
      end
  | "yuv" :: _ ->
      let api = gs t "api" in
      let ss = gz t "ss" in
      let nc = int_of_z (ncomp ss) in
      let unified = String.length api > 0 && api.[String.length api - 1] = 'u' in
      let base = String.sub api 0 (String.length api - 1) in
      let num = gz t "num" and den = gz t "den" in
      let width, height = if base = "d2" then tjscaled (gz t "w") num den, tjscaled (gz t "h") num den
                          else gz t "w", gz t "h" in
      let align = gz t "align" in
      let stride c = let sx = gi t (Printf.sprintf "s%d" c) in
        if sx < 0 then Z0 else z_of_int (int_of_z (plane_w (z_of_int c) width ss) + sx) in
      let dct = z_of_int (8 * gi t "num" / gi t "den") in
      let plane_fun k : z -> z -> access list = fun c st ->
        match base with
        | "enc" | "dec" -> encdec_plane k c width height ss st
        | "d2" -> rawdata_plane k c width height ss st dct
        | _ -> rawdata_plane k c width height ss st (z_of_int 8) in
      let plane_rw = match base with "enc" | "d2" -> W | _ -> R in
      let b = Buffer.create 256 in
      Buffer.add_string b "ok";
      (* packed buffer *)
      if base = "enc" || base = "dec" then begin
        let ps = z_of_int pixel_size.(gi t "pf") in
        let pad = gi t "pad" in
        let pitch = if pad < 0 then Z0 else z_of_int (gi t "w" * int_of_z ps + pad) in
        let bu = gi t "bu" = 1 in
        let size = packed_size width pitch height ps (z_of_int 1) in
        if base = "enc" then Buffer.add_string b (" " ^ bufr 0 size)
        else Buffer.add_string b (" " ^ bufw 0 size (packed_accesses W width pitch height ps (z_of_int 1) bu))
      end;
      if unified then begin
        let size = yuv_buf_size width align height ss in
        let tr = unified_planes ss width height align (plane_fun plane_rw) in
        Buffer.add_string b (" " ^ (if plane_rw = W then bufw 1 size tr else bufr 1 size))
      end else begin
        let strides = List.init 3 stride in
        let tr = all_planes ss (fun c -> plane_fun plane_rw c (List.nth strides (int_of_z c))) in
        for c = 0 to nc - 1 do
          let size = plane_size (z_of_int c) width (List.nth strides c) height ss in
          Buffer.add_string b (" " ^ (if plane_rw = W then bufw (c + 1) size tr else bufr (c + 1) size))
        done
      end;
      print_endline (Buffer.contents b)
  | "hist" :: _ ->
      let ps = z_of_int pixel_size.(gi t "pf") in
      let ssize = z_of_int (if gi t "bits" > 8 then 2 else 1) in
      let bu = gi t "bu" = 1 and pad = gi t "pad" in
      let same = gi t "same" = 1 in
      let wA = gz t "wA" and hA = gz t "hA" and ssA = gz t "ssA" in
      let n1 = z_of_int (max 1 (gi t "n1")) and d1 = z_of_int (max 1 (gi t "d1")) in
      let num = gz t "num" and den = gz t "den" in
      let stored = hist_region wA hA n1 d1 (z_of_int (8 * int_of_z (samp_h ssA)))
                     { r_x = gz t "cx"; r_y = gz t "cy"; r_w = gz t "cw"; r_h = gz t "ch" } in
      let fw, fh, fss = if same then wA, hA, ssA else gz t "w", gz t "h", gz t "ss" in
      let align = crop_align num den (samp_h fss) (int_of_z fss = 3) in
      (match dec_recheck dec_chk_left dec_chk_width dec_chk_bottom fw fh num den align stored with
       | Rejected -> print_endline "err rej"
       | NoReturn -> print_endline "hang"
       | Accepted (ow, oh) ->
           let dw = dec_out_w fw num den stored and dh = dec_out_h fh num den stored in
           let pitch = if pad < 0 then Z0 else z_of_int (int_of_z dw * int_of_z ps + pad) in
           let tr = packed_accesses W ow (if pad < 0 then z_of_int (int_of_z dw * int_of_z ps) else pitch) oh ps ssize bu in
           Printf.printf "ok ow=%d oh=%d %s\n" (int_of_z dw) (int_of_z dh) (bufw 0 (packed_size dw pitch dh ps ssize) tr))
  | "kv" :: _ ->
      (* value level: the C loops of jcsample.c / jdsample.c; the SIMD lane model must agree on the same columns *)
      let unhex h = List.init (String.length h / 2) (fun i -> z_of_int (int_of_string ("0x" ^ String.sub h (2 * i) 2))) in
      let n = gi t "n" in
      let avx2 = gs t "isa" = "avx2" in
      let v = nat_of_int (if avx2 then 32 else 16) in
      let pad l len = l @ List.init (max 0 (len - List.length l)) (fun _ -> z_of_int 0xEE) in
      let hex l = String.concat "" (List.map (fun z -> Printf.sprintf "%02x" (int_of_z z)) l) in
      let r0 = unhex (gs t "r0") and r1 = unhex (gs t "r1") and r2 = unhex (gs t "r2") in
      let oc = (n + 15) / 16 * 8 in
      let chk a b = if take (List.length a) b = a then "" else " MODEL-SIMD-LANES-DIFFER" in
      (match gs t "k" with
       | "ds1" -> let row = pad r0 (2 * oc + 64) in
           let c = h2v1_downsample_c row (nat_of_int n) (nat_of_int oc) in
           Printf.printf "ok %s%s\n" (hex c) (chk c (h2v1_downsample_simd v row (nat_of_int n) (nat_of_int oc)))
       | "ds2" -> let a = pad r0 (2 * oc + 64) and b = pad r1 (2 * oc + 64) in
           let c = h2v2_downsample_c a b (nat_of_int n) (nat_of_int oc) in
           Printf.printf "ok %s%s\n" (hex c) (chk c (h2v2_downsample_simd v a b (nat_of_int n) (nat_of_int oc)))
       | "fu1" -> let row = pad r0 (n + 64) in
           let c = h2v1_fancy_c row (nat_of_int n) in
           Printf.printf "ok %s%s\n" (hex c) (chk c (h2v1_fancy_simd v row (nat_of_int n)))
       | "fu2" -> let a = pad r0 (n + 64) and b = pad r1 (n + 64) and d = pad r2 (n + 64) in
           let c0 = h2v2_fancy_c b a (nat_of_int n) and c1 = h2v2_fancy_c b d (nat_of_int n) in
           Printf.printf "ok %s %s%s%s\n" (hex c0) (hex c1) (chk c0 (h2v2_fancy_simd v b a (nat_of_int n))) (chk c1 (h2v2_fancy_simd v b d (nat_of_int n)))
       | _ -> print_endline "?")
  | "pp" :: _ ->
      (* documented geometry of a libjpeg-API decode: rows of output_width * bytes-per-pixel, output_height rows *)
      let num = gz t "num" and den = gz t "den" in
      let hh = int_of_z (tjscaled (gz t "h") num den) and sw = int_of_z (tjscaled (gz t "w") num den) in
      let ss = if gs t "src" = "gray" then 3 else gi t "ss" in
      let single = ss = 3 in
      let align = int_of_z (crop_align num den (samp_h (z_of_int ss)) single) in
      let cx = gi t "cx" and cw = gi t "cw" in
      let ow = if cw > 0 then cw + cx - (cx / align * align) else sw in
      let bpp = if gi t "quant" > 0 then 1 else (match gi t "cs" with 0 -> 3 | 1 -> 2 | 2 -> 4 | _ -> 1) in
      let sk = gi t "sk" in
      Printf.printf "ok total=%d rowbytes=%d full\n" (if sk > 0 && sk < hh then hh - sk else hh) (ow * bpp)
  | "r565" :: _ ->
      (* every row of every color_convert call ends at 2*width whatever its alignment (C11_rgb565_row_exact) *)
      let w = gz t "w" in
      Printf.printf "ok total=%d rowbytes=%d full\n" (gi t "h") (int_of_z (rgb565_row_end w (gz t "al")))
  | "rs" :: _ ->
      (* whole image through jpeg_read_scanlines(max_lines): every call stays within its rows
         (C11_read_scanlines_rows_within); the calls together deliver the scaled height *)
      Printf.printf "ok total=%d\n" (int_of_z (tjscaled (gz t "h") (gz t "num") (gz t "den")))
  | "kern" :: _ ->
      (* one row through one SIMD kernel: footprint on the caller-side row *)
      let cols = gz t "n" in
      (match kernel_of (gs t "k") with
       | `St k -> (match st_row_stores k cols with
                   | Some l -> Printf.printf "ok b0=%d:%s\n" (int_of_z cols * int_of_z k.sk_ps) (ivs (footprint Z0 (List.map (fun (o, n) -> { a_buf = Z0; a_off = o; a_len = n; a_rw = W }) l)))
                   | None -> print_endline "err fuel")
       | `Ld k -> (match ld_row_loads k cols with
                   | Some l -> Printf.printf "ok b0=%d:r\n" (int_of_z cols * int_of_z k.lk_ps)
                   | None -> print_endline "err fuel")
       | `No -> print_endline "?")
  | _ -> print_endline "?")
