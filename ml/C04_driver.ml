(* C04 driver: the extracted T.81 specification model.
   dec <hex>      parse + decode a JPEG stream given as hex
   file <path>    same, stream read from a file
   emit <ints>    build a sequential stream with the spec writer (see checks/C04.py for the format)
   lemit <ints>   build a lossless (SOF3) stream with the spec writer
   paemit <ints>  build a progressive arithmetic-coded (SOF10) stream with the spec writer (G.1.3)
   aemit <ints>   build a sequential arithmetic-coded (SOF9) stream with the spec writer (Annex D, F.1.4)
   Result lines:  ok sof=<n> nc=<k> warn=0 | w h c.. | w h c.. ; Q q0..q63 ; Q ..   (decoded; tables in natural order)
                  lossless sof=3 nc=<k> warn=0 | w h s.. | ..                        (Annex H samples)
                  parsed sof=<n>                                     (valid syntax, process not decoded)
                  reject-syntax | reject-invalid | decode-fail sof=<n>
                  hex <stream> | fail                                (emit) *)
open X_c04
let hexval c = match c with '0'..'9' -> Char.code c - 48 | 'a'..'f' -> Char.code c - 87 | 'A'..'F' -> Char.code c - 55 | _ -> failwith "hex"
let ztab = Array.init 256 z_of_int
let bytes_of_hex s =
  let n = String.length s / 2 in
  let rec go i acc = if i < 0 then acc else go (i - 1) (ztab.(hexval s.[2*i] * 16 + hexval s.[2*i+1]) :: acc) in
  go (n - 1) []
let bytes_of_file p =
  let ic = open_in_bin p in let n = in_channel_length ic in let s = really_input_string ic n in close_in ic;
  let rec go i acc = if i < 0 then acc else go (i - 1) (ztab.(Char.code s.[i]) :: acc) in go (n - 1) []
let sof_of st =
  let rec f = function [] -> -1 | (_, SegSOF (n, _, _, _, _)) :: _ -> int_of_z n | _ :: t -> f t in f st.st_segs
let dec_bytes bs =
  match parse_raw bs with
  | None -> print_endline "reject-syntax"
  | Some st ->
    if not (stream_ok st) then print_endline "reject-invalid" else
    let n = sof_of st in
    if n = 3 then begin
      match t81_decode_lossless st with
      | None -> Printf.printf "decode-fail sof=3\n"
      | Some comps ->
        let b = Buffer.create 65536 in
        Buffer.add_string b (Printf.sprintf "lossless sof=3 nc=%d warn=0" (List.length comps));
        List.iter (fun ((w, h), l) ->
          Buffer.add_string b (Printf.sprintf " | %d %d" (int_of_z w) (int_of_z h));
          List.iter (fun c -> Buffer.add_char b ' '; Buffer.add_string b (string_of_int (int_of_z c))) l) comps;
        print_endline (Buffer.contents b)
    end else
    if n > 2 && n <> 9 && n <> 10 then Printf.printf "parsed sof=%d\n" n else
    match (if n = 2 then t81_decode_progressive st else if n = 9 then t81_decode_arith st
           else if n = 10 then t81_decode_arith_prog st else t81_decode st) with
    | None -> Printf.printf "decode-fail sof=%d\n" n
    | Some comps ->
      let b = Buffer.create 65536 in
      Buffer.add_string b (Printf.sprintf "ok sof=%d nc=%d warn=0" n (List.length comps));
      List.iter (fun ((w, h), blocks) ->
        Buffer.add_string b (Printf.sprintf " | %d %d" (int_of_z w) (int_of_z h));
        List.iter (fun blk -> List.iter (fun c -> Buffer.add_char b ' '; Buffer.add_string b (string_of_int (int_of_z c))) blk) blocks) comps;
      (match t81_qtables st with
       | None -> Buffer.add_string b " ; Q none"
       | Some qs -> List.iter (fun q -> Buffer.add_string b " ; Q"; List.iter (fun c -> Buffer.add_char b ' '; Buffer.add_string b (string_of_int (int_of_z c))) q) qs);
      print_endline (Buffer.contents b)
let hex_of bs =
  let b = Buffer.create 4096 in List.iter (fun z -> Buffer.add_string b (Printf.sprintf "%02x" (int_of_z z))) bs; Buffer.contents b
let emit_line lossless arith prog toks =
  let a = Array.of_list (List.map int_of_string toks) in
  let pos = ref 0 in
  let next () = let v = a.(!pos) in incr pos; v in
  let nz () = z_of_int (next ()) in
  let rec rep n f = if n <= 0 then [] else let x = f () in x :: rep (n - 1) f in
  let p = nz () in let y = nz () in let x = nz () in
  let nc = next () in
  let comps = rep nc (fun () -> let c = nz () in let h = nz () in let v = nz () in let tq = nz () in (((c, h), v), tq)) in
  let seg () =
    let k = next () in
    match k with
    | 1 -> let nt = next () in SegDQT (rep nt (fun () -> let pq = nz () in let tq = nz () in let q = rep 64 nz in ((pq, tq), q)))
    | 2 -> let nt = next () in SegDHT (rep nt (fun () -> let tc = nz () in let th = nz () in let cnt = rep 16 nz in
                                                 let nv = next () in let vals = rep nv nz in (((tc, th), cnt), vals)))
    | 3 -> SegDRI (nz ())
    | 4 -> let n = nz () in let l = next () in SegAPP (n, rep l nz)
    | 6 -> let nt = next () in SegDAC (rep nt (fun () -> let tc = nz () in let tb = nz () in let cs = nz () in ((tc, tb), cs)))
    | _ -> let l = next () in SegCOM (rep l nz) in
  let scomps () = let ns = next () in rep ns (fun () -> let c = nz () in let td = nz () in let ta = nz () in ((c, td), ta)) in
  let fills () = let nr = next () in rep nr (fun () -> nat_of_int (next ())) in
  let res =
    if lossless then begin
      let samples = rep nc (fun () -> let n = next () in rep n nz) in
      let ni = next () in
      let items = rep ni (fun () ->
        let kind = next () in let fill = nat_of_int (next ()) in
        match kind with
        | 0 -> let s = seg () in LMisc (fill, s)
        | 1 -> LFrame fill
        | _ -> let sc = scomps () in let psv = nz () in let pt = nz () in let rf = fills () in LScan (fill, sc, psv, pt, rf)) in
      let ef = nat_of_int (next ()) in
      t81_emit_lossless items ef { li_p = p; li_y = y; li_x = x; li_comps = comps; li_samples = samples }
    end else begin
      let coefs = rep nc (fun () -> let nb = next () in rep nb (fun () -> rep 64 nz)) in
      let ni = next () in
      if prog then begin
        let items = rep ni (fun () ->
          let kind = next () in let fill = nat_of_int (next ()) in
          match kind with
          | 0 -> let s = seg () in PAMisc (fill, s)
          | 1 -> PAFrame fill
          | _ -> let sc = scomps () in let ss = nz () in let se = nz () in let ah = nz () in let al = nz () in
                 let rf = fills () in PAScan (fill, sc, ss, se, ah, al, rf)) in
        let ef = nat_of_int (next ()) in
        t81_emit_arith_prog items ef { im_p = p; im_y = y; im_x = x; im_comps = comps; im_coefs = coefs }
      end else
      let items = rep ni (fun () ->
        let kind = next () in let fill = nat_of_int (next ()) in
        match kind with
        | 0 -> let s = seg () in IMisc (fill, s)
        | 1 -> IFrame (fill, nz ())
        | _ -> let sc = scomps () in let rf = fills () in IScan (fill, sc, rf)) in
      let ef = nat_of_int (next ()) in
      (if arith then t81_emit_arith else t81_emit)
        { ch_items = items; ch_eoi_fill = ef } { im_p = p; im_y = y; im_x = x; im_comps = comps; im_coefs = coefs }
    end in
  match res with
  | None -> print_endline "fail"
  | Some bs -> print_endline ("hex " ^ hex_of bs)
let () = iter_lines (fun line ->
  match words line with
  | [ "dec"; h ] -> (try dec_bytes (bytes_of_hex h) with Failure _ -> print_endline "reject-syntax")
  | [ "file"; p ] -> dec_bytes (bytes_of_file p)
  | [ "affsearch"; dlo; dhi; alo; ahi ] ->
      (* single-block restart intervals (default conditioning) whose Annex D code string ends in X'FF' *)
      let b = Buffer.create 4096 in
      Buffer.add_string b "ff";
      for dc = int_of_string dlo to int_of_string dhi do
        for a1 = int_of_string alo to int_of_string ahi do
          let zz = z_of_int dc :: z_of_int a1 :: List.init 62 (fun _ -> Z0) in
          let cond = ((((Z0, Z0), z_of_int 1), Z0), z_of_int 5) in
          let bytes = aenc_interval [cond] (nat_of_int 1) [(nat_of_int 0, zz)] in
          (match List.rev bytes with
           | last :: _ when int_of_z last = 255 -> Buffer.add_string b (Printf.sprintf " %d,%d" dc a1)
           | _ -> ())
        done
      done;
      print_endline (Buffer.contents b)
  | "paemit" :: toks -> (try emit_line false true true toks with Invalid_argument _ | Failure _ -> print_endline "fail")
  | "emit" :: toks -> (try emit_line false false false toks with Invalid_argument _ | Failure _ -> print_endline "fail")
  | "lemit" :: toks -> (try emit_line true false false toks with Invalid_argument _ | Failure _ -> print_endline "fail")
  | "aemit" :: toks -> (try emit_line false true false toks with Invalid_argument _ | Failure _ -> print_endline "fail")
  | _ -> print_endline "?")
