(* C12 model driver: one history per line
     T <ic> <id> <nprobe> | <kind> k=v k=v ... | <kind> ...
   prints, for every call, the abstract state after it (same fields as harness/c12.c prints) and
   the model's verdict for the probe (the last <nprobe> calls): same / differ / uaf *)
open X_c12
let cs_of_string (s : Stdlib.String.t) = (* OCaml string -> Coq string *)
  let rec go i = if i >= String.length s then EmptyString else
    let c = Char.code s.[i] in
    let b k = (c lsr k) land 1 = 1 in
    String (Ascii (b 0, b 1, b 2, b 3, b 4, b 5, b 6, b 7), go (i + 1)) in go 0
let string_of_cs (s : X_c12.string) =
  let b = Buffer.create 16 in
  let rec go = function EmptyString -> () | String (Ascii (a0, a1, a2, a3, a4, a5, a6, a7), t) ->
    let v x k = if x then 1 lsl k else 0 in
    Buffer.add_char b (Char.chr (v a0 0 + v a1 1 + v a2 2 + v a3 3 + v a4 4 + v a5 5 + v a6 6 + v a7 7)); go t in
  go s; Buffer.contents b
let okey (o, n) = (match o with OC -> "C." | OD -> "D." | OT -> "T.") ^ string_of_cs n

(* the members any program mentions: used to re-tabulate the state between calls (identity
   on the state as a function; only shortens the chain of functional updates) *)
let universe_s = (a_hist faithful).a_s
let universe_p = List.map (fun n -> (OC, n)) cptrs @ List.map (fun n -> (OD, n)) dptrs
                 @ [ (OD, cs_of_string "comp_info"); (OD, cs_of_string "marker_list"); (OD, cs_of_string "marker->dummy_methods"); (OD, cs_of_string "inputctl->dummy_start_input_pass"); (OD, cs_of_string "coef_bits"); (OD, cs_of_string "cquantize") ]
let compact (s : state) : state =
  let ts = Hashtbl.create 512 and tp = Hashtbl.create 64 in
  List.iter (fun f -> Hashtbl.replace ts (okey f) (s.sc f)) universe_s;
  List.iter (fun f -> Hashtbl.replace tp (okey f) (s.pt f)) universe_p;
  let ec = s.ep OC and ed = s.ep OD and et = s.ep OT in
  { sc = (fun f -> match Hashtbl.find_opt ts (okey f) with Some v -> v | None -> s.sc f);
    pt = (fun f -> match Hashtbl.find_opt tp (okey f) with Some v -> v | None -> s.pt f);
    ep = (fun o -> match o with OC -> ec | OD -> ed | OT -> et) }
let compact_x (x : xstate) = { x with xs = compact x.xs }

let kind_of (s : Stdlib.String.t) : opk =
  let b c = c = '1' in
  let bits_of = function "8" -> B8 | "12" -> B12 | _ -> B16 in
  match String.split_on_char '.' s with
  | ["set"] -> KSet | ["sf"] -> KSetScaling | ["crop"] -> KSetCrop | ["icc"] -> KSetICC
  | ["c"; n] -> KCompress (bits_of n) | ["cy"] -> KCompressYUV | ["ey"] -> KEncodeYUV
  | ["h"; f] -> KHeader (b f.[0], b f.[1])
  | ["d"; n; f] -> KDecompress (bits_of n, b f.[0], b f.[1], b f.[2])
  | ["dy"; f] -> KDecompressYUV (b f.[0], b f.[1])
  | ["ldy"; f] -> KLegacyDecompressYUV (b f.[0])
  | ["li"; n] -> KLoadImage (bits_of n) | ["si"; n] -> KSaveImage (bits_of n)
  | ["uy"; f] -> KDecodeYUV (b f.[0])
  | ["gi"] -> KGetICC | ["tb"] -> KTransformBufSize
  | ["t"; f] -> KTransform (b f.[0], b f.[1])
  | ["lc"] -> KLegacyCompress
  | ["ld"; f] -> KLegacyDecompress (b f.[0], b f.[1])
  | ["lt"; f] -> KLegacyTransform (b f.[0])
  | _ -> failwith ("unknown kind " ^ s)

let parse_call (s : Stdlib.String.t) : call =
  match words s with
  | [] -> failwith "empty call"
  | k :: args ->
      { c_kind = kind_of k;
        c_args = List.map (fun a -> match String.index_opt a '=' with
                             | Some i -> (cs_of_string (String.sub a 0 i), z_of_int (int_of_string (String.sub a (i + 1) (String.length a - i - 1))))
                             | None -> failwith ("bad arg " ^ a)) args }

let fC n = (OC, cs_of_string n) and fD n = (OD, cs_of_string n) and fT n = (OT, cs_of_string n)
let geti s f = int_of_z (s.sc f)
let mask s fs = List.fold_left (fun (acc, k) f -> ((if s.pt f <> None then acc lor (1 lsl k) else acc), k + 1)) (0, 0) fs |> fst
let cmask_f = List.map fC ["main"; "prep"; "cconvert"; "downsample"; "fdct"; "coef"; "entropy"; "marker"]
let dmask_f = List.map fD ["comp_info"; "marker_list"; "main"; "coef"; "post"; "upsample"; "cconvert"; "entropy"; "idct"; "cquantize"; "coef_bits"]
let pfields = List.map (fun p -> (OT, p.p_field)) tj3set_table
              @ List.map fT ["scalingFactor.num"; "scalingFactor.denom"; "croppingRegion.x"; "croppingRegion.y"; "croppingRegion.w"; "croppingRegion.h"; "iccSize"]

let dump ic id (x : xstate) : Stdlib.String.t =
  let s = x.xs in
  let c = if ic then Printf.sprintf "c:%d,%d,%d,%d,%d,%d,%d,%d,%d,%d" (geti s (fC "global_state")) (geti s (fC "scan_info"))
            (geti s (fC "master->lossless")) (geti s (fC "arith_code")) (geti s (fC "optimize_coding")) (geti s (fC "restart_interval"))
            (geti s (fC "restart_in_rows")) (geti s (fC "raw_data_in")) (mask s cmask_f) (if x.xd.d_newbuffer <> None then 1 else 0)
          else "c:-" in
  let d = if id then Printf.sprintf "d:%d,%d,%d,%d,%d,%d,%d,%d,%d,%d,%d" (geti s (fD "global_state")) (geti s (fD "marker->saw_SOI"))
            (geti s (fD "marker->saw_SOF")) (geti s (fD "unread_marker")) (geti s (fD "master->lossless")) (geti s (fD "arith_code"))
            (geti s (fD "progressive_mode")) (mask s dmask_f) (if geti s (fD "progress") <> 0 then 1 else 0)
            (if geti s (fT "tempICCSize") <> 0 && geti s (fT "tempICCBuf") <> 0 then 1 else 0) (geti s (fD "master->using_merged_upsample"))
          else "d:-" in
  let m = Printf.sprintf "m:%d,%d,%d,%d" (geti s (fC "mem->image_space_small")) (geti s (fC "mem->image_space_large"))
            (geti s (fD "mem->image_space_small")) (geti s (fD "mem->image_space_large")) in
  let k = Printf.sprintf "k:%d,%d" (if s.pt (fD "marker->dummy_methods") <> None then 0 else 1)
            (if s.pt (fD "inputctl->dummy_start_input_pass") <> None then 0 else 1) in
  let sv = Printf.sprintf "s:%d,%d,%d" (geti s (fD "marker->save_COM")) (geti s (fD "marker->save_APP2")) (geti s (fD "marker->save_APPn")) in
  c ^ " " ^ d ^ " " ^ m ^ " " ^ k ^ " " ^ sv ^ " p:" ^ String.concat "," (List.map (fun f -> string_of_int (geti s f)) pfields)

let okh_cache : (Stdlib.String.t, bool) Hashtbl.t = Hashtbl.create 64
let okh k kname = match Hashtbl.find_opt okh_cache kname with Some b -> b | None -> let b = ok_hist faithful k in Hashtbl.add okh_cache kname b; b
let okp_cache : (Stdlib.String.t, bool) Hashtbl.t = Hashtbl.create 64

let () = iter_lines (fun line ->
  try
    match fields line with
    | hd :: calls ->
        let ic, id, nprobe = (match words hd with ["T"; a; b; n] -> (a = "1", b = "1", int_of_string n) | _ -> failwith "bad header") in
        let names = List.map (fun c -> List.hd (words c)) calls in
        let cl = List.map parse_call calls in
        let nh = List.length cl - nprobe in
        let hist = take nh cl and pr = drop nh cl in
        let b = Buffer.create 2048 in
        let x = ref (init_x ic id) in
        Buffer.add_string b ("S=" ^ dump ic id !x);
        List.iter (fun c -> x := compact_x (step faithful c !x); Buffer.add_string b (" | S=" ^ dump ic id !x)) hist;
        let used = !x in
        (* probe on the used instance and on a fresh one with the same parameter members *)
        let (ou, eu) = probe faithful pr used.xs used.xd in
        let (of_, ef) = probe faithful pr (compact (fresh_like used.xs)) dest0 in
        List.iter (fun c -> x := compact_x (step faithful c !x); Buffer.add_string b (" | S=" ^ dump ic id !x)) pr;
        let verdict =
          (match eu, ef with
           | Some (UseAfterFree f), _ -> "uaf:" ^ okey f
           | Some (NullDeref f), _ -> "null:" ^ okey f
           | None, Some _ -> "fresh-error"
           | None, None -> if ou = of_ then "same" else "differ") in
        let histerr = (match used.xerr with Some (UseAfterFree f) -> "uaf:" ^ okey f | Some (NullDeref f) -> "null:" ^ okey f | None -> "none") in
        let pk = String.concat "+" (drop nh names) in
        let okp = (match Hashtbl.find_opt okp_cache pk with Some v -> v | None ->
                     let v = ok_probe faithful (List.map (fun c -> c.c_kind) pr) in Hashtbl.add okp_cache pk v; v) in
        let okhs = List.for_all2 (fun c n -> okh c.c_kind n) hist (take nh names) in
        Buffer.add_string b (Printf.sprintf " | pred=%s histerr=%s okh=%d okp=%d df=%d" verdict histerr (if okhs then 1 else 0) (if okp then 1 else 0)
                               (if (!x).xd.d_doublefree then 1 else 0));
        print_endline (Buffer.contents b)
    | [] -> print_endline "X empty"
  with e -> print_endline ("X " ^ Printexc.to_string e))
