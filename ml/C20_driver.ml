(* C20 model driver: same case lines as harness/c20.c (size functions), plus model-only lines
   (lay, cd, sc) that the check compares with the closed forms proved equal to the model.
   ABI parameters of the model: unsigned long and size_t are 64-bit (the harness platform);
   lines starting with "bs32"/"ps32" evaluate the ILP32 instance instead. *)
(* decimal printing of an arbitrarily large z (buffer sizes exceed OCaml's 63-bit int) *)
let dec_of_pos p =
  (* digits base 10^9, little endian; acc = acc*2 + bit from the most significant bit down *)
  let rec bits = function XH -> [true] | XO q -> false :: bits q | XI q -> true :: bits q in
  let bl = List.rev (bits p) in
  let acc = ref [0] in
  List.iter (fun b ->
    let carry = ref (if b then 1 else 0) in
    acc := List.map (fun d -> let v = d * 2 + !carry in carry := v / 1000000000; v mod 1000000000) !acc;
    if !carry > 0 then acc := !acc @ [!carry]) bl;
  match List.rev !acc with
  | [] -> "0"
  | hd :: tl -> String.concat "" (string_of_int hd :: List.map (Printf.sprintf "%09d") tl)
let dec_of_z = function Z0 -> "0" | Zpos p -> dec_of_pos p | Zneg p -> "-" ^ dec_of_pos p
let zi = z_of_int
let z64 = zi 64 and z32 = zi 32
let cres_str = function Val v -> dec_of_z v | UB -> "UB"
let range lo hi = let rec go i acc = if i < lo then acc else go (i - 1) (i :: acc) in go hi []
let fns = Array.of_list unified_fns
let () = iter_lines (fun line ->
  match words line with
  | ["pw"; c; w; s] -> Printf.printf "pw %s\n" (dec_of_z (tj3YUVPlaneWidth (zi (int_of_string c)) (zi (int_of_string w)) (zi (int_of_string s))))
  | ["ph"; c; h; s] -> Printf.printf "ph %s\n" (dec_of_z (tj3YUVPlaneHeight (zi (int_of_string c)) (zi (int_of_string h)) (zi (int_of_string s))))
  | [("bs" | "bs32") as k; w; a; h; s] ->
      let b = if k = "bs" then z64 else z32 in
      Printf.printf "%s %s\n" k (dec_of_z (tj3YUVBufSize b b (zi (int_of_string w)) (zi (int_of_string a)) (zi (int_of_string h)) (zi (int_of_string s))))
  | [("ps" | "ps32") as k; c; w; st; h; s] ->
      let b = if k = "ps" then z64 else z32 in
      Printf.printf "%s %s\n" k (cres_str (tj3YUVPlaneSize b b (zi (int_of_string c)) (zi (int_of_string w)) (zi (int_of_string st)) (zi (int_of_string h)) (zi (int_of_string s))))
  | ["pwr"; c; s; lo; hi] ->
      let c = zi (int_of_string c) and s = zi (int_of_string s) in
      Printf.printf "pwr %s\n" (String.concat " " (List.map (fun w -> dec_of_z (tj3YUVPlaneWidth c (zi w) s)) (range (int_of_string lo) (int_of_string hi))))
  | ["phr"; c; s; lo; hi] ->
      let c = zi (int_of_string c) and s = zi (int_of_string s) in
      Printf.printf "phr %s\n" (String.concat " " (List.map (fun h -> dec_of_z (tj3YUVPlaneHeight c (zi h) s)) (range (int_of_string lo) (int_of_string hi))))
  | ["bsr"; s; a; h; lo; hi] ->
      let s = zi (int_of_string s) and a = zi (int_of_string a) and h = zi (int_of_string h) in
      Printf.printf "bsr %s\n" (String.concat " " (List.map (fun w -> dec_of_z (tj3YUVBufSize z64 z64 (zi w) a h s)) (range (int_of_string lo) (int_of_string hi))))
  | ["psr"; s; c; st; h; lo; hi] ->
      let s = zi (int_of_string s) and c = zi (int_of_string c) and st = zi (int_of_string st) and h = zi (int_of_string h) in
      Printf.printf "psr %s\n" (String.concat " " (List.map (fun w -> cres_str (tj3YUVPlaneSize z64 z64 c (zi w) st h s)) (range (int_of_string lo) (int_of_string hi))))
  | ["sc"; d; n; dn] -> Printf.printf "sc %s\n" (cres_str (scaled_dim (zi (int_of_string d)) (zi (int_of_string n)) (zi (int_of_string dn))))
  | ["tbl"] ->
      Printf.printf "tbl %s | %s | %s\n" (String.concat " " (List.map dec_of_z tjMCUWidth_tbl)) (String.concat " " (List.map dec_of_z tjMCUHeight_tbl))
        (String.concat " " (List.map (fun (n, d) -> dec_of_z n ^ "/" ^ dec_of_z d) sf_tbl))
  | ["lay"; f; w; a; h; s] ->
      (match unified_layout fns.(int_of_string f) (zi (int_of_string w)) (zi (int_of_string a)) (zi (int_of_string h)) (zi (int_of_string s)) with
       | UErr -> print_endline "lay err"
       | UUB -> print_endline "lay UB"
       | ULayout (offs, strides) ->
           Printf.printf "lay %s | %s\n" (String.concat " " (List.map (function Some o -> dec_of_z o | None -> "null") offs))
             (String.concat " " (List.map dec_of_z strides)))
  | ["cd"; c; w; h; s] ->
      let c = zi (int_of_string c) and w = zi (int_of_string w) and h = zi (int_of_string h) and s = zi (int_of_string s) in
      Printf.printf "cd %s\n" (String.concat " " (List.map dec_of_z
        [cfp_plane_w c w s; cfp_plane_h c h s; enc_plane_w c w s; enc_plane_h c h s; dec_plane_w c w s; dec_plane_h c h s]))
  | ["dct"; n; d] -> Printf.printf "dct %s\n" (dec_of_z (dtp_dctsize (zi (int_of_string n)) (zi (int_of_string d))))
  | ["gs"; a; b; c; d; e; f] ->
      Printf.printf "gs %s\n" (dec_of_z (getSubsamp3 (zi (int_of_string a)) (zi (int_of_string b)) (zi (int_of_string c)) (zi (int_of_string d)) (zi (int_of_string e)) (zi (int_of_string f))))
  | ["fp"; fn; snull; st0; st1; st2; w; h; sv; sfi] ->
      (* footprint of the bytes written to each plane: count, lowest, highest offset and a hash of the sorted distinct offsets *)
      let ios = int_of_string in
      let strides = zi (if ios snull = 1 then 0 else 1) in
      let st = [| zi (ios st0); zi (ios st1); zi (ios st2) |] in
      let w = zi (ios w) and h = zi (ios h) and s = zi (ios sv) in
      let (num, denom) = List.nth sf_tbl (ios sfi) in
      let nc = if ios sv = 3 then 1 else 3 in
      let b = Buffer.create 256 in
      Buffer.add_string b ("fp " ^ fn);
      for i = 0 to nc - 1 do
        let a = if fn = "enc" then enc_access strides st.(i) (zi i) w h s else dtp_access strides st.(i) (zi i) w h s num denom in
        (match a with
         | None -> Buffer.add_string b " | UB"
         | Some l ->
             let l = List.sort_uniq compare (List.map int_of_z l) in
             let hsh = List.fold_left (fun acc o -> (acc * 1000003 + (o + (1 lsl 40))) mod 2147483629) 7 l in
             (match l with
              | [] -> Buffer.add_string b " | 0 0 0 7"
              | lo :: _ -> Buffer.add_string b (Printf.sprintf " | %d %d %d %d" (List.length l) lo (List.nth l (List.length l - 1)) hsh)))
      done;
      if fn = "dtp" then begin
        Buffer.add_string b " | lj";
        for i = 0 to nc - 1 do
          Buffer.add_string b (Printf.sprintf " %s %s" (dec_of_z (lj_wib (zi i) w s)) (dec_of_z (lj_hib (zi i) h s)))
        done;
        Buffer.add_string b (Printf.sprintf " %s %s %s" (dec_of_z (lj_out w num denom)) (dec_of_z (lj_out h num denom))
          (if dtp_usetmpbuf w h s num denom then "tmp" else "direct"))
      end;
      print_endline (Buffer.contents b)
  | ["rawfp"; w; h; sv; sfi] ->
      (* what one raw-data decompression does: output size, scaled block size, number of calls, and per component the blocks,
         the columns and the rows written by each call -- all from the generated library statements (model/RawData.v) *)
      let ios = int_of_string in
      let w = zi (ios w) and h = zi (ios h) and s = zi (ios sv) in
      let (num, denom) = List.nth sf_tbl (ios sfi) in
      let nc = if ios sv = 3 then 1 else 3 in
      let d = ljg_min_dct num denom in
      let outh = ljg_out_h h num denom in
      let calls = match dtp_protocol outh (comp_vsamp0 s) d with RawOk c -> dec_of_z c | RawBufferSize -> "buffer-size" | RawTooMuchData -> "too-much-data" | RawFuel -> "fuel" in
      let b = Buffer.create 256 in
      Buffer.add_string b (Printf.sprintf "rawfp %s %s %s %s" (dec_of_z (ljg_out_w w num denom)) (dec_of_z outh) (dec_of_z d) calls);
      let total = ljg_imcu_rows h s in
      for i = 0 to nc - 1 do
        let wib = ljg_wib (zi i) w s and hib = ljg_hib (zi i) h s and vs = lj_vs (zi i) s in
        Buffer.add_string b (Printf.sprintf " | %s %s %d" (dec_of_z wib) (dec_of_z hib) (int_of_z wib * int_of_z d));
        for k = 0 to int_of_z total - 1 do
          Buffer.add_string b (Printf.sprintf "%s%s" (if k = 0 then " " else ",") (dec_of_z (ljg_rows_in_call (zi k) total hib vs d)))
        done
      done;
      print_endline (Buffer.contents b)
  | ["edge"; i; w; h; sv; row] ->
      let ios = int_of_string in
      let i = zi (ios i) and w = zi (ios w) and h = zi (ios h) and s = zi (ios sv) and row = zi (ios row) in
      let vs = lj_vs i s in
      let ok = cfp_iteration_ok (cfp_plane_w i w s) (cfp_plane_h i h s) (cfp_iw (lj_wib i w s)) (cfp_ih (lj_hib i h s)) (cfp_th vs)
                 (cfp_crow row vs (comp_vsamp0 s)) in
      let cp = match cfp_protocol h (comp_vsamp0 s) with RawOk c -> dec_of_z c | _ -> "error" in
      Printf.printf "edge %s calls=%s\n" (if ok then "true" else "false") cp
  | _ -> print_endline "?")
