(* reads the same case lines as harness/c08.c and prints what the extracted model
   predicts, in the harness' format up to the " | px" field *)
open X_c08
let zi = z_of_int and iz = int_of_z
let parse_samp s =
  let n = String.length s / 2 in
  List.init n (fun k -> (Char.code s.[2 * k] - 48, Char.code s.[2 * k + 1] - 48))
let parse_ops s =
  List.filter_map (fun w ->
      if String.length w < 2 then None else
      let n = int_of_string (String.sub w 1 (String.length w - 1)) in
      match w.[0] with 'R' -> Some (Read (zi n)) | 'S' -> Some (Skip (zi n)) | _ -> None) (words s)
let () = iter_lines (fun line ->
  try
    let kind = line.[0] in
    let fs = fields (String.sub line 2 (String.length line - 2)) in
    let hd = words (List.nth fs 0) in
    let w = int_of_string (List.nth hd 0) and h = int_of_string (List.nth hd 1) in
    let comps = parse_samp (List.nth hd 2) in
    let mode = int_of_string (List.nth hd 3) in
    let prec = int_of_string (List.nth hd 5) in
    let nc = List.length comps in
    let zcomps = List.map (fun (a, b) -> (zi a, zi b)) comps in
    if kind = 'K' then begin
      (* jpeg_crop_scanline called twice: prediction of the faithful model (second request tested against the cropped width)
         and of the documentation (requests are relative to the image row) *)
      let d = ints (List.nth fs 1) in
      let m = List.nth d 0 and ocs = List.nth d 4 in
      let c = ints (List.nth fs 2) in
      let x1 = List.nth c 1 and w1 = List.nth c 2 and x2 = List.nth c 3 and w2 = List.nth c 4 in
      let ycc3 = nc = 3 in
      let grayout = ycc3 && ocs = 3 in
      (match derive_config gen_scale_chain gen_DCTSIZE (zi w) (zi h) zcomps (zi m) (zi 8) false ycc3 (ycc3 && not grayout) grayout gen_fix_h1 gen_fix_h2 gen_fix_h4 gen_fix_h6 with
       | Some k when not k.k_bad ->
         let align = crop_align (nc = 1) k.k_M k.k_hmax in
         let doc = match recrop_documented k.k_ow align (zi x2) (zi w2) with None -> "err" | Some (a, b) -> Printf.sprintf "%d,%d" (iz a) (iz b) in
         let fm = match recrop_faithful k.k_ow align (zi x1) (zi w1) (zi x2) (zi w2) with
           | None -> "first-err"
           | Some ReErr -> "err"
           | Some (ReIgnored (a, b)) -> Printf.sprintf "ignored,%d,%d" (iz a) (iz b)
           | Some (ReOk (a, b)) -> Printf.sprintf "ok,%d,%d" (iz a) (iz b) in
         Printf.printf "k ow=%d oh=%d doc=%s model=%s\n" (iz k.k_ow) (iz k.k_oh) doc fm
       | _ -> print_endline "err")
    end else
    if kind = 'T' then begin
      let a = ints (List.nth fs 1) and b = ints (List.nth fs 2) in
      let sfi = List.nth a 0 in
      let nsf = List.length gen_sf in
      let (num, den) = List.nth gen_sf (((sfi mod nsf) + nsf) mod nsf) in
      let (h0, v0) = List.hd comps in
      (* tj subsampling index as turbojpeg.c derives it for the frames the check generates *)
      let sub = if nc = 1 then 3 else
        match (h0, v0) with (1, 1) -> 0 | (2, 1) -> 1 | (2, 2) -> 2 | (1, 2) -> 4 | (4, 1) -> 5 | (1, 4) -> 6 | _ -> -1 in
      let mcuw = List.nth gen_tjMCUWidth sub in
      let mcuw_scaled = tjscaled mcuw num den in
      let x = List.nth b 0 and y = List.nth b 1 and rw = List.nth b 2 and rh = List.nth b 3 in
      let sw = iz (tjscaled (zi w) num den) and sh = iz (tjscaled (zi h) num den) in
      let r = tj_set_region (zi w) (zi h) num den mcuw (zi x) (zi y) (zi rw) (zi rh) in
      (* hazard 5 (crop + merged upsampling + region so narrow that jpeg_crop_scanline re-initialises the upsampler) *)
      let fu = List.nth a 1 = 1 and pfi = List.nth a 3 in
      let ycc3 = nc = 3 in
      let grayout = ycc3 && pfi mod 5 = 2 in
      let hz = match r with
        | TjOk (x1, _, w1, _) when iz w1 <> sw ->
          let m = zi (8 * iz num / iz den) in
          (match derive_config gen_scale_chain gen_DCTSIZE (zi w) (zi h) zcomps m (zi 8) (not fu) ycc3 (ycc3 && not grayout) grayout gen_fix_h1 gen_fix_h2 gen_fix_h4 gen_fix_h6 with
           | Some k ->
             (match crop_scanline k.k_ow (crop_align (nc = 1) k.k_M k.k_hmax) x1 w1 with
              | CropOk (_, w', _, _) -> if crop_reinit_hazard gen_DCTSIZE (zi w) zcomps k w' && not gen_crop_merged_guard then 5 else 0
              | _ -> 0)
           | None -> 0)
        | _ -> 0 in
      let band = match r with
        | TjOk (x1, _, w1, _) when iz w1 <> sw && iz x1 > 0 && smoothing_active (zi mode) (zi 0) ->
          iz (smooth_left_band gen_smooth_left_real mcuw_scaled (not fu))
        | _ -> 0 in
      Printf.printf "tj sub=%d sf=%d/%d dims %d %d full=0 set=%s | haz %d over=0 band=%d gok=1\n" sub (iz num) (iz den) sw sh
        (match r with TjErr -> "-1" | _ -> "0 dec=0") hz band
    end else begin
      let d = ints (List.nth fs 1) in
      let m = List.nth d 0 and fancy = List.nth d 1 = 1 and ocs = List.nth d 4 in
      let bscan = if List.length d > 5 then List.nth d 5 else 0 in
      let c = ints (List.nth fs 2) in
      let cx = List.nth c 0 and cw = List.nth c 1 in
      let ops = parse_ops (List.nth fs 3) in
      let ycc3 = nc = 3 in
      let grayout = ycc3 && ocs = 3 in
      let rgbout = ycc3 && (ocs = 0 || ocs = 1 || ocs = 2 || ocs = 4) in
      ignore prec;
      match derive_config gen_scale_chain gen_DCTSIZE (zi w) (zi h) zcomps (zi m) (zi 8) fancy ycc3 rgbout grayout gen_fix_h1 gen_fix_h2 gen_fix_h4 gen_fix_h6 with
      | None -> print_endline "err"
      | Some k when k.k_bad -> print_endline "err"
      | Some k ->
        let b = Buffer.create 1024 in
        let ms = if mode = 1 || mode >= 3 || (mode = 2 && nc > 1) || bscan > 0 then 1 else 0 in
        let sm = if smoothing_active (zi mode) (zi bscan) then 1 else 0 in
        let band = ref 0 in
        Buffer.add_string b (Printf.sprintf "ok dims %d %d M=%d v=%d h=%d ctx=%d mrg=%d ms=%d" (iz k.k_ow) (iz k.k_oh) (iz k.k_M)
          (iz k.k_vmax) (iz k.k_hmax) (if k.k_ctx then 1 else 0) (if k.k_merged then 1 else 0) ms);
        Buffer.add_string b (Printf.sprintf " sm=%d" sm);
        let ok = ref true in
        let haz5 = ref false in
        if cx >= 0 then begin
          let single = nc = 1 in
          let align = crop_align single k.k_M k.k_hmax in
          match crop_scanline k.k_ow align (zi cx) (zi cw) with
          | CropErr -> ok := false
          | CropWhole -> Buffer.add_string b (Printf.sprintf " | crop %d %d ow=%d win" cx cw cw)
          | CropOk (x', w', fi, li) ->
            haz5 := crop_reinit_hazard gen_DCTSIZE (zi w) zcomps k w' && not gen_crop_merged_guard;
            if sm = 1 && iz x' > 0 then band := iz (smooth_left_band gen_smooth_left_real align fancy);
            Buffer.add_string b (Printf.sprintf " | crop %d %d ow=%d win %d %d" (iz x') (iz w') (iz w') (iz fi) (iz li));
            List.iter (fun (hs, _) ->
                let (f, l) = comp_window align x' w' (if single then zi 1 else hs) in
                Buffer.add_string b (Printf.sprintf " %d %d" (iz f) (iz l))) zcomps
        end else Buffer.add_string b " | crop -";
        if not !ok then (Buffer.add_string b " err"; print_endline (Buffer.contents b)) else begin
          let g = k.k_geom in
          let (_, tr) = run g ops in
          Buffer.add_string b " | ops";
          let provs = ref [] in
          List.iter2 (fun o (((before, cs), rows), after) ->
              (match o with
               | Read _ ->
                 Buffer.add_string b " r";
                 if cs = [] then Buffer.add_string b "-" else Buffer.add_string b (String.concat "+" (List.map (fun c -> string_of_int (iz c)) cs))
               | Skip _ -> Buffer.add_string b (" s" ^ String.concat "+" (List.map (fun c -> string_of_int (iz c)) cs)));
              Buffer.add_string b (Printf.sprintf "@%d" (iz after));
              List.iteri (fun i p ->
              let y = iz before + i in
              provs := (if y >= iz k.k_oh then -1 else iz (row_of_prov g (zi y) p)) :: !provs) rows) ops tr;
          Buffer.add_string b " | prov";
          List.iter (fun p -> Buffer.add_string b (Printf.sprintf " %d" p)) (List.rev !provs);
          let hz = if !haz5 then 5 else if k.k_ctx then iz (first_hazard_c g (c_init g) ops) else iz (first_hazard g a_init ops) in
          (* hypothesis of theorem C08_skip_read_equals_full_context_v2 on this frame's geometry *)
          let gok = if k.k_ctx && iz k.k_vmax = 2 then (if ctx_v2_okb g then 1 else 0) else 1 in
          Buffer.add_string b (Printf.sprintf " | haz %d over=%d band=%d gok=%d" hz (if overread g ops then 1 else 0) !band gok);
          print_endline (Buffer.contents b)
        end
    end
  with _ -> print_endline "bad-case")
