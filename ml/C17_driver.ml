(* C17: reads the same case lines as harness/c17.c, prints the model's result line
   (the part before " # " of the harness line) *)
let err_name = function
  | EmptyImage -> "EmptyImage" | ImageTooBig -> "ImageTooBig" | WidthOverflow -> "WidthOverflow"
  | BadPrecision -> "BadPrecision" | ComponentCount -> "ComponentCount" | BadSampling -> "BadSampling"
  | BadScanScript -> "BadScanScript" | BadProgScript -> "BadProgScript" | MissingData -> "MissingData"
  | BadMcuSize -> "BadMcuSize" | FractSample -> "FractSample" | ConversionNotImpl -> "ConversionNotImpl"
  | BadRestart -> "BadRestart" | BadState -> "BadState" | BadLength -> "BadLength"
  | ArithNotImpl -> "ArithNotImpl" | BadDctCoef -> "BadDctCoef" | MissingCode -> "MissingCode" | NoQuantTable -> "NoQuantTable" | NoHuffTable -> "NoHuffTable"

let zi = z_of_int
let iz = int_of_z
let split_on c s = List.map String.trim (String.split_on_char c s)

let parse_scan s =
  (* n:c0,c1,c2,c3:Ss:Se:Ah:Al *)
  match String.split_on_char ':' s with
  | [n; cs; ss; se; ah; al] ->
      { s_ncomps = zi (int_of_string n);
        s_comps = List.map (fun x -> zi (int_of_string x)) (String.split_on_char ',' cs);
        s_Ss = zi (int_of_string ss); s_Se = zi (int_of_string se);
        s_Ah = zi (int_of_string ah); s_Al = zi (int_of_string al) }
  | _ -> failwith ("bad scan " ^ s)

let in_bounds_all tr = List.for_all (fun a -> in_bounds a) tr

let hex_of_bytes l = String.concat "" (List.map (fun b -> Printf.sprintf "%02x" (iz b)) l)

let parse_tbl s =
  (* "b1 .. b16 ; v0 v1 ..." *)
  match split_on ';' s with
  | [b; v] -> (0 :: ints b, ints v)
  | [b] -> (0 :: ints b, [])
  | _ -> failwith "bad table"

let () = iter_lines (fun line ->
  let fs = fields line in
  let w0 = words (List.nth fs 0) in
  let variant = (match w0 with k :: _ -> k | [] -> "") in
  let w0 = (match w0 with "rst" :: r | "hdr" :: r -> "setup" :: r | "raw" :: _ :: r -> "setup" :: r | l -> l) in
  match w0 with
  | "setup" :: w :: h :: incomp :: ncomp :: prec :: lossless :: raw :: arith :: opt_s :: _smooth :: ri :: rir :: _ ->
      let comps = List.map (fun p -> match String.split_on_char ',' p with
                                     | [a; b] -> { c_h = zi (int_of_string a); c_v = zi (int_of_string b) }
                                     | _ -> failwith "bad comp") (words (List.nth fs 1)) in
      let script = match words (List.nth fs 2) with
        | ["-"] -> None
        | l -> Some (List.map parse_scan l) in
      (* image_width / image_height are JDIMENSION (unsigned int) fields *)
      let c = { f_width = zi ((int_of_string w) land 0xFFFFFFFF); f_height = zi ((int_of_string h) land 0xFFFFFFFF);
                f_incomp = zi (int_of_string incomp); f_ncomp = zi (int_of_string ncomp);
                f_prec = zi (int_of_string prec); f_lossless = (lossless <> "0");
                f_comps = comps; f_script = script;
                f_restart_interval = zi ((int_of_string ri) land 0xFFFFFFFF); f_restart_in_rows = zi (int_of_string rir);
                f_raw = (raw <> "0"); f_arith = (arith <> "0") } in
      let (tr, r) = master_start c in
      let oob = if in_bounds_all tr then "" else " OOB" in
      (match r with
       | Inl e -> Printf.printf "err %s%s\n" (err_name e) oob
       | Inr t ->
           let u = t.t_setup and i = t.t_scan0 in
           let b = Buffer.create 256 in
           Buffer.add_string b (Printf.sprintf "start %d %d %d |" (iz u.u_max_h) (iz u.u_max_v) (iz u.u_total_iMCU_rows));
           List.iter (fun d -> Buffer.add_string b (Printf.sprintf " %d,%d" (iz d.d_wib) (iz d.d_hib))) u.u_comps;
           Buffer.add_string b (Printf.sprintf " | %d %d %d %d |" (iz i.i_blocks_in_MCU) (iz i.i_MCUs_per_row) (iz i.i_MCU_rows) (iz i.i_restart_interval));
           List.iter (fun m -> Buffer.add_string b (Printf.sprintf " %d" (iz m))) i.i_membership;
           let (tr2, r2) = master_rest c t in
           let oob2 = if in_bounds_all tr2 && not t.t_stale then oob else " OOB" in
           (match r2 with
            | Inl e -> Buffer.add_string b (Printf.sprintf " ; err %s%s" (err_name e) oob2)
            | Inr () -> Buffer.add_string b (" ; ok" ^ oob2);
                if variant = "rst" then
                  (match image_intervals c t with
                   | (_, Inr l) ->
                       Buffer.add_string b (" dri=" ^ String.concat "," (List.map (fun x -> string_of_int (iz x)) l));
                       if not (dri_run Z0 Z0 l) then Buffer.add_string b " OOB"
                   | _ -> Buffer.add_string b " dri=?");
                if variant = "hdr" then begin
                  let lossless = t.t_lossless in
                  let ncs = iz t.t_ncomp in
                  let compsl = List.init ncs (fun i ->
                    let cc = if lossless then { c_h = zi 1; c_v = zi 1 } else List.nth comps i in
                    { k_id = zi i; k_h = cc.c_h; k_v = cc.c_v; k_tq = Z0; k_td = Z0; k_ta = Z0 }) in
                  let img = { im_prec = c.f_prec; im_width = c.f_width; im_height = c.f_height; im_comps = compsl;
                              im_arith = c.f_arith; im_progressive = t.t_progressive; im_lossless = lossless;
                              im_jfif = None; im_adobe = None;
                              im_dc_L = List.init 16 (fun _ -> Z0); im_dc_U = List.init 16 (fun _ -> zi 1);
                              im_ac_K = List.init 16 (fun _ -> zi 5) } in
                  let intervals = (match image_intervals c t with (_, Inr l) -> l | _ -> []) in
                  let sl = scans_of c t.t_ncomp in
                  let params k = (match c.f_script with
                    | Some scs -> let s = List.nth scs k in (s.s_Ss, s.s_Se, s.s_Ah, s.s_Al)
                    | None -> if lossless then (zi 1, Z0, Z0, Z0) else (Z0, zi 63, Z0, Z0)) in
                  let nsc = List.length sl in
                  let scans kz = let k = iz kz in
                    if k < 0 || k >= nsc then { sp_comps = []; sp_Ss = Z0; sp_Se = Z0; sp_Ah = Z0; sp_Al = Z0; sp_ri = Z0 } else
                    let (ss, se, ah, al) = params k in
                    { sp_comps = snd (List.nth sl k); sp_Ss = ss; sp_Se = se; sp_Ah = ah; sp_Al = al; sp_ri = List.nth intervals k } in
                  let q0 = List.map (fun bq -> quant_entry bq (zi 50) true) g_std_luminance_quant_tbl in
                  let tb a bb = Some { t_a = a; t_b = bb; t_sent = false } in
                  let tbls = List.init 12 (fun i -> if i = 0 then tb q0 [] else if i = 4 then tb (drop 1 g_std_dc_bits) g_std_dc_vals
                                                     else if i = 8 then tb (drop 1 g_std_ac_bits) g_std_ac_vals else None) in
                  let st0 = { w_tbls = tbls; w_last_ri = Z0 } in
                  let opt = optimize_eff c.f_arith lossless t.t_progressive (opt_s <> "0") (iz c.f_prec = 12) in
                  let dcr = dcrefine_of scans in
                  let total = if opt then 2 * nsc else nsc in
                  (match run_master (zi nsc) opt dcr with
                   | None -> Buffer.add_string b " hdr=nofuel"
                   | Some ev ->
                       (match assemble img scans (fun _ -> []) (regen_std img scans (fun _ _ -> ([], []))) ev st0 with
                        | Inl e -> Buffer.add_string b (" hdr=err " ^ err_name e)
                        | Inr tr ->
                            Buffer.add_string b " hdr=";
                            List.iter (fun m -> match m with
                              | MkData (_, _) -> Buffer.add_string b "|"
                              | MkDHT (idx, _, _) when opt -> Buffer.add_string b (Printf.sprintf "ffc4%02x.." (iz idx))
                              | _ -> Buffer.add_string b (hex_of_bytes (encode_mk m))) tr));
                  let pt = pass_trace (nat_of_int (total + 1)) opt dcr (zi total) { m_pass_type = Main_pass; m_scan = Z0; m_pass = Z0 } in
                  Buffer.add_string b (Printf.sprintf " passes=%d:%s" total (String.concat "," (List.map (fun x -> string_of_int (iz x)) pt)))
                end);
           print_endline (Buffer.contents b))
  | [ "blk"; prec; opt; _destbuf ] ->
      let prec = int_of_string prec in
      let (dcb, dcv) = parse_tbl (List.nth fs 1) and (acb, acv) = parse_tbl (List.nth fs 2) in
      let block = ints (List.nth fs 3) in
      let zz = zigzag_block (zl block) in
      if opt <> "0" then
        (* tables are regenerated by the optimisation pass: only the range checks remain *)
        let e = { ehufco = List.init 257 (fun _ -> Z0); ehufsi = List.init 257 (fun _ -> zi 1) } in
        print_endline (match encode_one_block (zi prec) e e bitstate0 Z0 zz with
                       | Inl BadDctCoef -> "err BadDctCoef" | _ -> "ok")
      else
      (match make_c_derived (zl dcb) (zl dcv) (zi 15), make_c_derived (zl acb) (zl acv) (zi 255) with
       | Some dct, Some act ->
           (match encode_one_block (zi prec) dct act bitstate0 Z0 zz with
            | Inl e -> Printf.printf "err %s\n" (err_name e)
            | Inr st -> Printf.printf "ok %s\n" (hex_of_bytes (flush_bits st)))
       | _ -> print_endline "err BadHuffTable")
  | [ "coef"; prec; mode; pos; v ] ->
      let prec = zi (int_of_string prec) and mode = int_of_string mode and pos = int_of_string pos and v = zi (int_of_string v) in
      let ok =
        if mode = 3 then None
        else if mode = 2 then Some (if pos = 0 then prog_dc_ok prec (zi 1) v Z0 else prog_ac_ok prec (zi 2) v)
        else Some (if pos = 0 then seq_dc_ok prec v else seq_ac_ok prec v) in
      print_endline (match ok with None -> "any" | Some true -> "ok" | Some false -> "err BadDctCoef")
  | [ "tjset"; init; param; value ] ->
      print_endline (if tj3set_accepts (zi (int_of_string init)) (zi (int_of_string param)) (zi (int_of_string value)) then "acc" else "rej")
  | [ "qt"; _prec; force; _dct; direct ] ->
      let basic = ints (List.nth fs 1) in
      if direct = "0" then
        Printf.printf "ok q=%s\n" (pr_ints (List.map (fun b -> iz (quant_entry (zi b) (zi 100) (force <> "0"))) basic))
      else if List.exists (fun b -> b land 65535 = 0) basic && iz g_ZERO_QUANT_REJECTED = 1 then print_endline "err NoQuantTable"
      else Printf.printf "ok q=%s\n" (pr_ints (List.map (fun b -> b land 65535) basic))
  | "tjseq" :: _ | "tn" :: _ -> print_endline "any"
  | [ "tjc"; prec; w; h; pf; _seed ] ->
      (* the parameters tj3Set accepted, then the checks of tj3Compress8/12/16 + setCompDefaults *)
      let get = Hashtbl.create 16 in
      List.iter (fun kv -> match String.split_on_char '=' kv with
        | [k; v] -> let k = int_of_string k and v = int_of_string v in
                    if tj3set_accepts (zi 1) (zi k) (zi v) then Hashtbl.replace get k v
        | _ -> ()) (words (List.nth fs 1));
      let g id d = (match Hashtbl.find_opt get (iz id) with Some v -> v | None -> d) in
      let p = { tp_quality = zi (g g_TJPARAM_QUALITY (-1)); tp_subsamp = zi (g g_TJPARAM_SUBSAMP (-1));
                tp_precision = zi (g g_TJPARAM_PRECISION 8); tp_colorspace = zi (g g_TJPARAM_COLORSPACE (-1));
                tp_lossless = (g g_TJPARAM_LOSSLESS 0 = 1); tp_psv = zi (g g_TJPARAM_LOSSLESSPSV 1); tp_pt = zi (g g_TJPARAM_LOSSLESSPT 0);
                tp_progressive = (g g_TJPARAM_PROGRESSIVE 0 = 1); tp_arith = (g g_TJPARAM_ARITHMETIC 0 = 1);
                tp_optimize = (g g_TJPARAM_OPTIMIZE 0 = 1);
                tp_restart_blocks = zi (g g_TJPARAM_RESTARTBLOCKS 0); tp_restart_rows = zi (g g_TJPARAM_RESTARTROWS 0) } in
      let prec = int_of_string prec in
      let bits = if prec <= 8 then 8 else if prec <= 12 then 12 else 16 in
      (match tj_compress_setup (zi bits) p (zi (int_of_string w)) (zi (int_of_string h)) (zi (int_of_string pf)) with
       | Inl _ -> print_endline "rej"
       | Inr s ->
           (* later libjpeg checks the model knows: lossy needs precision 8 / 12, lossless + arithmetic is not implemented *)
           (* module selection by the tree parsed out of jcinit.c *)
           (match select_modules_gen false s.ts_lossless s.ts_arith s.ts_progressive s.ts_prec (zi 1) s.ts_optimize with
            | Some (Inr _) -> print_endline "any"
            | _ -> print_endline "rej"))
  | [ "ref"; _nbx; _nby; _opt ] ->
      let counts = ints (List.nth fs 1) in
      let blk c = let (c, extra) = if c >= 100 then (c - 100, true) else (c, false) in
        let c = min c 63 in
        List.init 63 (fun i -> if i < c then Ccorr else if extra && i = c then Cnew else Czero) in
      let w = refine_scan { r_EOBRUN = Z0; r_BE = Z0 } (List.map blk counts) in
      let mx = List.fold_left (fun a x -> max a (iz x)) (-1) w in
      print_endline (if mx < iz g_CORR_BUFFER_SIZE then "ok" else "ok OOB")
  | [ "qs"; quality; force; linear; scale ] ->
      let (t0, t1) = if linear <> "0" then linear_quality_tables (zi (int_of_string scale)) (force <> "0")
                     else set_quality_tables (zi (int_of_string quality)) (force <> "0") in
      let pr l = String.concat "," (List.map (fun x -> string_of_int (iz x)) l) in
      Printf.printf "ok t0=%s t1=%s\n" (pr t0) (pr t1)
  | [ "cs"; mode; cs; incomp; lossless ] ->
      let cs = zi (int_of_string cs) and incomp = zi (int_of_string incomp) in
      let r = if mode = "0" then (match set_colorspace cs incomp with Inl e -> Inl e | Inr i -> Inr (cs, i))
              else default_colorspace cs incomp (lossless <> "0") in
      (match r with
       | Inl BadJColorspace -> print_endline "err BadJColorspace"
       | Inl CsComponentCount -> print_endline "err ComponentCount"
       | Inl BadInColorspace -> print_endline "err BadInColorspace"
       | Inr (c, i) ->
           Printf.printf "ok cs=%d nc=%d jfif=%d adobe=%d |%s\n" (iz c) (List.length i.cs_comps) (if i.cs_jfif then 1 else 0) (if i.cs_adobe then 1 else 0)
             (String.concat "" (List.map (fun k -> Printf.sprintf " %d,%d,%d,%d,%d,%d" (iz k.k_id) (iz k.k_h) (iz k.k_v) (iz k.k_tq) (iz k.k_td) (iz k.k_ta)) i.cs_comps)))
  | [ "wm"; state; len; code ] ->
      let state = int_of_string state and len = int_of_string len in
      let (g, next) = (match state with 0 | 3 -> (CSTATE_START, 0) | 2 -> (CSTATE_SCANNING, 1) | 5 -> (CSTATE_WRCOEFS, 0) | _ -> (CSTATE_SCANNING, 0)) in
      (match api_write_marker g (zi next) (zi (int_of_string code)) (List.init len (fun k -> zi ((k * 7 + 1) land 255))) with
       | Inl e -> Printf.printf "err %s\n" (err_name e)
       | Inr _ -> print_endline "ok m=1")
  | [ "wt"; nc; arith; opt; prog ] ->
      let nc = int_of_string nc and arith = arith <> "0" and opt = opt <> "0" and prog = prog <> "0" in
      let mkc id h v t = { k_id = zi id; k_h = zi h; k_v = zi v; k_tq = zi t; k_td = zi t; k_ta = zi t } in
      let compsl = if nc = 1 then [mkc 1 1 1 0] else [mkc 1 2 2 0; mkc 2 1 1 1; mkc 3 1 1 1] in
      let img = { im_prec = zi 8; im_width = zi 16; im_height = zi 16; im_comps = compsl;
                  im_arith = arith; im_progressive = prog; im_lossless = false;
                  im_jfif = Some ((((zi 1, zi 1), Z0), zi 1), zi 1); im_adobe = None;
                  im_dc_L = List.init 16 (fun _ -> Z0); im_dc_U = List.init 16 (fun _ -> zi 1); im_ac_K = List.init 16 (fun _ -> zi 5) } in
      let q t = List.map (fun bq -> quant_entry bq (zi 50) true) t in
      let tb a bb = Some { t_a = a; t_b = bb; t_sent = false } in
      let tbls = [ tb (q g_std_luminance_quant_tbl) []; tb (q g_std_chrominance_quant_tbl) []; None; None;
                   tb (drop 1 g_std_dc_bits) g_std_dc_vals; tb (drop 1 g_std_dcc_bits) g_std_dcc_vals; None; None;
                   tb (drop 1 g_std_ac_bits) g_std_ac_vals; tb (drop 1 g_std_acc_bits) g_std_acc_vals; None; None ] in
      let st0 = { w_tbls = tbls; w_last_ri = Z0 } in
      (match write_tables_only arith st0 with
       | Inl e -> Printf.printf "err %s\n" (err_name e)
       | Inr (tr1, st1) ->
           let script = if prog then simple_progression (zi nc) (nc = 3)
                        else [ { s_ncomps = zi nc; s_comps = List.init 4 (fun i -> zi (if i < nc then i else 0)); s_Ss = Z0; s_Se = zi 63; s_Ah = Z0; s_Al = Z0 } ] in
           let nsc = List.length script in
           let scans kz = let k = iz kz in
             if k < 0 || k >= nsc then { sp_comps = []; sp_Ss = Z0; sp_Se = Z0; sp_Ah = Z0; sp_Al = Z0; sp_ri = Z0 } else
             let s = List.nth script k in
             { sp_comps = take (iz s.s_ncomps) s.s_comps; sp_Ss = s.s_Ss; sp_Se = s.s_Se; sp_Ah = s.s_Ah; sp_Al = s.s_Al; sp_ri = Z0 } in
           let o = optimize_eff arith false prog opt false in
           (match run_master (zi nsc) o (dcrefine_of scans) with
            | None -> print_endline "nofuel"
            | Some ev ->
                (match assemble img scans (fun _ -> []) (regen_std img scans (fun _ _ -> ([], []))) ev st1 with
                 | Inl e -> Printf.printf "err %s\n" (err_name e)
                 | Inr tr ->
                     let b = Buffer.create 2048 in
                     Buffer.add_string b ("ok A=" ^ hex_of_bytes (bytes_of tr1) ^ " B=");
                     List.iter (fun m -> match m with
                       | MkData (_, _) -> Buffer.add_string b "|"
                       | MkDHT (idx, _, _) when o -> Buffer.add_string b (Printf.sprintf "ffc4%02x.." (iz idx))
                       | _ -> Buffer.add_string b (hex_of_bytes (encode_mk m))) tr;
                     print_endline (Buffer.contents b))))
  | "ll" :: api :: prec :: psv :: pt :: _ ->
      (* lossless: jpeg_enable_lossless rejects psv outside 1..7 and pt >= precision; precision 2..16 *)
      if api <> "0" then print_endline "any"
      else
        let prec = int_of_string prec and psv = int_of_string psv and pt = int_of_string pt in
        if psv < 1 || psv > 7 || pt < 0 || pt >= prec then print_endline "err BadProgression" else print_endline "ok"
  | "seq" :: _ ->
      let imgs = List.filter (fun x -> x <> "") (split_on ';' (List.nth fs 1)) in
      let w = ref wspace0 and oob = ref false in
      let parts = List.map (fun im ->
        match ints im with
        | cs :: nc :: prog :: _ ->
            let ncomps = (match cs with 0 -> 1 | 1 | 5 -> 3 | 2 | 3 -> 4 | _ -> nc) in
            let ycc = (cs = 1) in
            if prog = 0 then (if ncomps > 4 then "img ns=1 ; img err ComponentCount" else "img ns=1 ok")
            else begin
              let sc = simple_progression (zi ncomps) ycc in
              let ns = iz (simple_nscans (zi ncomps) ycc) in
              w := sp_workspace !w (zi ns);
              (match (!w).w_alloc with Some a when ns <= iz a -> () | _ -> oob := true);
              if List.length sc <> ns then oob := true;
              let b = Buffer.create 512 in
              Buffer.add_string b (Printf.sprintf "img ns=%d" ns);
              List.iter (fun s ->
                Buffer.add_string b (Printf.sprintf " %d:%s:%d:%d:%d:%d" (iz s.s_ncomps)
                  (String.concat "," (List.map (fun x -> string_of_int (iz x)) (take (iz s.s_ncomps) s.s_comps)))
                  (iz s.s_Ss) (iz s.s_Se) (iz s.s_Ah) (iz s.s_Al))) sc;
              (match validate_script (zi ncomps) (zi 8) sc with
               | (_, Inr _) -> Buffer.add_string b " ok"
               | (_, Inl e) -> Buffer.add_string b (" ; img err " ^ err_name e));
              Buffer.contents b
            end
        | _ -> "?") imgs in
      print_endline (String.concat " ; " parts ^ (if !oob then " OOB" else ""))
  | "master" :: nscans :: opt :: refs ->
      (* pass sequencing: scans listed in refs are Huffman DC refinement scans *)
      let refs = List.map int_of_string refs in
      (match run_master (zi (int_of_string nscans)) (opt <> "0") (fun k -> List.mem (iz k) refs) with
       | None -> print_endline "nofuel"
       | Some ev ->
           print_endline (String.concat " " (List.map (function
             | EvSOI -> "SOI" | EvFrameHeader -> "SOF" | EvScanHeader k -> Printf.sprintf "SOS%d" (iz k)
             | EvGather k -> Printf.sprintf "G%d" (iz k) | EvScanData k -> Printf.sprintf "D%d" (iz k) | EvEOI -> "EOI") ev)))
  | _ -> print_endline "?")
