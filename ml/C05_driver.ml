(* reads the kernel case lines of harness/c05.c and prints "S <asm model> | C <C model>".
   argv[1] = sse2 | avx2 selects the constant set / vector width of the asm model. *)
open X_c05
let isa = if Array.length Sys.argv > 1 then Sys.argv.(1) else "avx2"
let avx2 = (isa = "avx2")
let vec = nat_of_int (if avx2 then 32 else 16)
let zi = z_of_int and iz = int_of_z
let rec triples = function a :: b :: c :: t -> (a, b, c) :: triples t | _ -> []
let pr3 l = String.concat " " (List.map (fun ((a, b), c) -> Printf.sprintf "%d %d %d" (iz a) (iz b) (iz c)) l)
let prz l = pr_ints (List.map iz l)
let () = iter_lines (fun line ->
  match words line with
  | "rgbycc" :: _ :: _ :: n :: rest ->
      let px = triples (List.map int_of_string rest) in
      let k = if avx2 then jccolor_avx2_consts else jccolor_sse2_consts in
      let s = List.map (fun (r, g, b) -> asm_rgb_ycc k (zi r) (zi g) (zi b)) px in
      let c = List.map (fun (r, g, b) -> c_rgb_ycc (zi r) (zi g) (zi b)) px in
      Printf.printf "S %s | C %s\n" (pr3 s) (pr3 c)
  | "rgbgray" :: _ :: _ :: n :: rest ->
      let px = triples (List.map int_of_string rest) in
      let k = if avx2 then jcgray_avx2_consts else jcgray_sse2_consts in
      let s = List.map (fun (r, g, b) -> asm_rgb_y k (zi r) (zi g) (zi b)) px in
      let c = List.map (fun (r, g, b) -> c_rgb_y (zi r) (zi g) (zi b)) px in
      Printf.printf "S %s | C %s\n" (prz s) (prz c)
  | "yccrgb" :: _ :: _ :: n :: rest ->
      let px = triples (List.map int_of_string rest) in
      let k = if avx2 then jdcolor_avx2_consts else jdcolor_sse2_consts in
      let s = List.map (fun (y, cb, cr) -> asm_ycc_rgb k (zi y) (zi cb) (zi cr)) px in
      let c = List.map (fun (y, cb, cr) -> c_ycc_rgb c_jdcolor_tabs (zi y) (zi cb) (zi cr)) px in
      Printf.printf "S %s | C %s\n" (pr3 s) (pr3 c)
  | "merged" :: v2 :: _ :: _ :: w :: _ ->
      let fs = fields line in
      let v2 = v2 = "1" and w = int_of_string w in
      let y0 = Array.of_list (ints (List.nth fs 1)) and y1 = Array.of_list (ints (List.nth fs 2)) in
      let cb = Array.of_list (ints (List.nth fs 3)) and cr = Array.of_list (ints (List.nth fs 4)) in
      let k = if avx2 then jdmerge_avx2_consts else jdmerge_sse2_consts in
      let row f (y : int array) = List.init w (fun i -> f (zi y.(i)) (zi cb.(i / 2)) (zi cr.(i / 2))) in
      let s = row (asm_ycc_rgb k) y0 @ (if v2 then row (asm_ycc_rgb k) y1 else []) in
      let c = row (c_ycc_rgb c_jdmerge_tabs) y0 @ (if v2 then row (c_ycc_rgb c_jdmerge_tabs) y1 else []) in
      Printf.printf "S %s | C %s\n" (pr3 s) (pr3 c)
  | "down" :: v2 :: iw :: wib :: _ ->
      let fs = fields line in
      let v2 = v2 = "1" and iw = int_of_string iw and oc = 8 * int_of_string wib in
      (* the harness zero-fills the rest of its 4096-byte row buffers *)
      let pad l = l @ List.init (max 0 (2 * oc + 64 - List.length l)) (fun _ -> 0) in
      let r0 = zl (pad (ints (List.nth fs 1))) and r1 = zl (pad (ints (List.nth fs 2))) in
      let k = if avx2 then jcsample_avx2_consts else jcsample_sse2_consts in
      let s = if v2 then asm_h2v2_downsample k vec (nat_of_int iw) (nat_of_int oc) r0 r1
              else asm_h2v1_downsample k vec (nat_of_int iw) (nat_of_int oc) r0 in
      let c = if v2 then c_h2v2_downsample (nat_of_int iw) (nat_of_int oc) r0 r1
              else c_h2v1_downsample (nat_of_int iw) (nat_of_int oc) r0 in
      Printf.printf "S %s | C %s\n" (prz s) (prz c)
  | "fancy" :: v2 :: w :: _ ->
      let fs = fields line in
      let v2 = v2 = "1" and w = int_of_string w in
      let ab = zl (ints (List.nth fs 1)) and cu = zl (ints (List.nth fs 2)) and be = zl (ints (List.nth fs 3)) in
      let k = if avx2 then jdsample_avx2_consts else jdsample_sse2_consts in
      let n = nat_of_int w in
      let cut l = zl (take w (il l)) in
      let s = if v2 then flat2 (asm_h2v2_fancy k vec n cu ab) @ flat2 (asm_h2v2_fancy k vec n cu be)
              else flat2 (asm_h2v1_fancy k vec n cu) in
      let c = if v2 then flat2 (c_h2v2_fancy (cut cu) (cut ab)) @ flat2 (c_h2v2_fancy (cut cu) (cut be))
              else flat2 (c_h2v1_fancy (cut cu)) in
      Printf.printf "S %s | C %s\n" (prz s) (prz c)
  | "quant" :: d :: xs ->
      let q = compute_reciprocal (zi (int_of_string d)) in
      let hdr = Printf.sprintf "%d %d %d %d %d :" (iz q.q_ret) (iz q.q_recip) (iz q.q_corr) (iz q.q_scale) (iz (s16 q.q_shift)) in
      let xs = List.map int_of_string xs in
      let s = List.map (fun x -> iz (s16 ((if avx2 then asm_quantize_avx2 else asm_quantize_sse2) q.q_recip q.q_corr q.q_scale (w16 (zi x))))) xs in
      let c = List.map (fun x -> iz (c_quantize q.q_recip q.q_corr q.q_shift (zi x))) xs in
      Printf.printf "S %s %s | C %s %s\n" hdr (pr_ints s) hdr (pr_ints c)
  | "fdctfst" :: xs ->
      let blk = zl (List.map int_of_string xs) in
      Printf.printf "S %s | C %s\n" (prz (asm_fdct_ifast blk)) (prz (c_fdct_ifast blk))
  | _ -> print_endline "-")
