(* reads the kernel case lines of harness/c05.c and prints "S <asm model> | C <C model>".
   argv[1] = sse2 | avx2 selects the constant set / vector width of the asm model. *)
open X_c05
let isa = if Array.length Sys.argv > 1 then Sys.argv.(1) else "avx2"
let avx2 = (isa = "avx2")
let vec = nat_of_int (if avx2 then 32 else 16)
let zi = z_of_int and iz = int_of_z
let rec triples = function a :: b :: c :: t -> (a, b, c) :: triples t | _ -> []
let pr3 l = String.concat " " (List.map (fun ((a, b), c) -> Printf.sprintf "%d %d %d" (iz a) (iz b) (iz c)) l)
let prz l = pr_ints (List.map iz l)
let () = iter_lines (fun line ->
  match words line with
  | "rgbycc" :: _ :: _ :: n :: rest ->
      let px = triples (List.map int_of_string rest) in
      let k = if avx2 then jccolor_avx2_consts else jccolor_sse2_consts in
      let s = List.map (fun (r, g, b) -> asm_rgb_ycc k (zi r) (zi g) (zi b)) px in
      let c = List.map (fun (r, g, b) -> c_rgb_ycc (zi r) (zi g) (zi b)) px in
      Printf.printf "S %s | C %s\n" (pr3 s) (pr3 c)
  | "rgbgray" :: _ :: _ :: n :: rest ->
      let px = triples (List.map int_of_string rest) in
      let k = if avx2 then jcgray_avx2_consts else jcgray_sse2_consts in
      let s = List.map (fun (r, g, b) -> asm_rgb_y k (zi r) (zi g) (zi b)) px in
      let c = List.map (fun (r, g, b) -> c_rgb_y (zi r) (zi g) (zi b)) px in
      Printf.printf "S %s | C %s\n" (prz s) (prz c)
  | "yccrgb" :: _ :: _ :: n :: rest ->
      let px = triples (List.map int_of_string rest) in
      let k = if avx2 then jdcolor_avx2_consts else jdcolor_sse2_consts in
      let s = List.map (fun (y, cb, cr) -> asm_ycc_rgb k (zi y) (zi cb) (zi cr)) px in
      let c = List.map (fun (y, cb, cr) -> c_ycc_rgb c_jdcolor_tabs (zi y) (zi cb) (zi cr)) px in
      Printf.printf "S %s | C %s\n" (pr3 s) (pr3 c)
  | "merged" :: v2 :: _ :: _ :: w :: _ ->
      let fs = fields line in
      let v2 = v2 = "1" and w = int_of_string w in
      let y0 = Array.of_list (ints (List.nth fs 1)) and y1 = Array.of_list (ints (List.nth fs 2)) in
      let cb = Array.of_list (ints (List.nth fs 3)) and cr = Array.of_list (ints (List.nth fs 4)) in
      let k = if avx2 then jdmerge_avx2_consts else jdmerge_sse2_consts in
      let row f (y : int array) = List.init w (fun i -> f (zi y.(i)) (zi cb.(i / 2)) (zi cr.(i / 2))) in
      let alias = (List.nth (words line) 1) = "2" in     (* v2 = 2: both output rows are the same buffer; the last store wins *)
      let v2 = v2 || alias in
      let fin f g = match f (fun _ -> Z0) (fun r -> if iz r = 0 then g y0 else g y1) Z0 with Some l -> l | None -> [] in
      let flat l = List.concat (List.map (fun ((a, b), c) -> [a; b; c]) l) in
      let unflat l = List.map (fun (a, b, c) -> ((zi a, zi b), zi c)) (triples (il l)) in
      let calls = if avx2 then merged_h2v2_call_rows_avx2 else merged_h2v2_call_rows_sse2 in
      let s = if alias then unflat (fin (asm_merged2_final calls) (fun y -> flat (row (asm_ycc_rgb k) y))) else row (asm_ycc_rgb k) y0 @ (if v2 then row (asm_ycc_rgb k) y1 else []) in
      let c = if alias then unflat (fin c_merged2_final (fun y -> flat (row (c_ycc_rgb c_jdmerge_tabs) y))) else row (c_ycc_rgb c_jdmerge_tabs) y0 @ (if v2 then row (c_ycc_rgb c_jdmerge_tabs) y1 else []) in
      Printf.printf "S %s | C %s\n" (pr3 s) (pr3 c)
  | "down" :: v2 :: iw :: wib :: _ ->
      let fs = fields line in
      let v2 = v2 = "1" and iw = int_of_string iw and oc = 8 * int_of_string wib in
      (* the harness zero-fills the rest of its 4096-byte row buffers *)
      let pad l = l @ List.init (max 0 (2 * oc + 64 - List.length l)) (fun _ -> 0) in
      let r0 = zl (pad (ints (List.nth fs 1))) and r1 = zl (pad (ints (List.nth fs 2))) in
      let k = if avx2 then jcsample_avx2_consts else jcsample_sse2_consts in
      let s = if v2 then asm_h2v2_downsample k vec (nat_of_int iw) (nat_of_int oc) r0 r1
              else asm_h2v1_downsample k vec (nat_of_int iw) (nat_of_int oc) r0 in
      let c = if v2 then c_h2v2_downsample (nat_of_int iw) (nat_of_int oc) r0 r1
              else c_h2v1_downsample (nat_of_int iw) (nat_of_int oc) r0 in
      Printf.printf "S %s | C %s\n" (prz s) (prz c)
  | "fancy" :: v2 :: w :: _ ->
      let fs = fields line in
      let v2 = v2 = "1" and w = int_of_string w in
      let ab = zl (ints (List.nth fs 1)) and cu = zl (ints (List.nth fs 2)) and be = zl (ints (List.nth fs 3)) in
      let k = if avx2 then jdsample_avx2_consts else jdsample_sse2_consts in
      let n = nat_of_int w in
      let cut l = zl (take w (il l)) in
      let s = if v2 then flat2 (asm_h2v2_fancy k vec n cu ab) @ flat2 (asm_h2v2_fancy k vec n cu be)
              else flat2 (asm_h2v1_fancy k vec n cu) in
      let c = if v2 then flat2 (c_h2v2_fancy (cut cu) (cut ab)) @ flat2 (c_h2v2_fancy (cut cu) (cut be))
              else flat2 (c_h2v1_fancy (cut cu)) in
      Printf.printf "S %s | C %s\n" (prz s) (prz c)
  | "quant" :: d :: xs ->
      let q = compute_reciprocal (zi (int_of_string d)) in
      let hdr = Printf.sprintf "%d %d %d %d %d :" (iz q.q_ret) (iz q.q_recip) (iz q.q_corr) (iz q.q_scale) (iz (s16 q.q_shift)) in
      let xs = List.map int_of_string xs in
      let s = List.map (fun x -> iz (s16 ((if avx2 then asm_quantize_avx2 else asm_quantize_sse2) q.q_recip q.q_corr q.q_scale (w16 (zi x))))) xs in
      let c = List.map (fun x -> iz (c_quantize q.q_recip q.q_corr q.q_shift (zi x))) xs in
      Printf.printf "S %s %s | C %s %s\n" hdr (pr_ints s) hdr (pr_ints c)
  | g :: v2 :: a2 :: a3 :: rest when g = "plaing" || g = "fancyg" || g = "downg" ->
      let fs = fields line in
      let v2 = v2 = "1" and a2 = int_of_string a2 and a3 = int_of_string a3 in
      let rows = List.map (fun f -> zl (ints f)) (List.tl fs) in
      let hdl = function [] -> [] | r :: _ -> r in
      let one = S O in let two = S (S O) in
      let out (s : _ list list) (c : _ list list) = Printf.printf "S %s | C %s\n" (prz (List.concat s)) (prz (List.concat c)) in
      if g = "plaing" then begin
        let body = if v2 then (fun rs -> [dup_row (hdl rs); dup_row (hdl rs)]) else (fun rs -> [dup_row (hdl rs)]) in
        let st = if v2 then (if avx2 then rowloop_h2v2_upsample_avx2 else rowloop_h2v2_upsample_sse2)
                 else (if avx2 then rowloop_h2v1_upsample_avx2 else rowloop_h2v1_upsample_sse2) in
        let cut r = zl (take ((a2 + 1) / 2) (il r)) in      (* output_width a2: (a2+1)/2 input samples are read *)
        let rows = List.map cut rows in
        let trim l = List.map (fun r -> zl (take a2 (il r))) l in
        out (trim (asm_rows body st (zi a3) rows)) (trim (c_rows body one (zi (if v2 then 2 else 1)) (zi a3) rows))
      end else if g = "fancyg" then begin
        let k = if avx2 then jdsample_avx2_consts else jdsample_sse2_consts in
        let n = nat_of_int a2 in
        let cut l = zl (take a2 (il l)) in
        let pad l = l @ List.init (max 0 (a2 + 96 - List.length l)) (fun _ -> Z0) in
        if v2 then begin
          let arr = Array.of_list (List.map pad rows) in
          let trip = List.init (Array.length arr - 2) (fun i -> (arr.(i), arr.(i + 1), arr.(i + 2))) in
          let bs = function [] -> [] | (a, c, b) :: _ -> [flat2 (asm_h2v2_fancy k vec n c a); flat2 (asm_h2v2_fancy k vec n c b)] in
          let bc = function [] -> [] | (a, c, b) :: _ -> [flat2 (c_h2v2_fancy (cut c) (cut a)); flat2 (c_h2v2_fancy (cut c) (cut b))] in
          let st = if avx2 then rowloop_h2v2_fancy_upsample_avx2 else rowloop_h2v2_fancy_upsample_sse2 in
          out (asm_rows bs st (zi a3) trip) (c_rows bc one (zi 2) (zi a3) trip)
        end else begin
          let rs = List.map pad (List.tl rows) in       (* drop row -1 *)
          let bs rs = [flat2 (asm_h2v1_fancy k vec n (hdl rs))] in
          let bc rs = [flat2 (c_h2v1_fancy (cut (hdl rs)))] in
          let st = if avx2 then rowloop_h2v1_fancy_upsample_avx2 else rowloop_h2v1_fancy_upsample_sse2 in
          out (asm_rows bs st (zi a3) rs) (c_rows bc one (zi 1) (zi a3) rs)
        end
      end else begin
        let iw = a2 and wib = a3 in
        let vs = int_of_string (List.hd rest) in
        let oc = 8 * wib in
        let pad l = l @ List.init (max 0 (2 * oc + 64 - List.length l)) (fun _ -> Z0) in
        let rows = List.map pad rows in
        let k = if avx2 then jcsample_avx2_consts else jcsample_sse2_consts in
        let niw = nat_of_int iw and noc = nat_of_int oc in
        let r2 = function a :: b :: _ -> (a, b) | _ -> ([], []) in
        if v2 then begin
          let bs rs = let (a, b) = r2 rs in [asm_h2v2_downsample k vec niw noc a b] in
          let bc rs = let (a, b) = r2 rs in [c_h2v2_downsample niw noc a b] in
          let st = if avx2 then rowloop_h2v2_downsample_avx2 else rowloop_h2v2_downsample_sse2 in
          out (asm_rows bs st (zi vs) rows) (c_rows bc two (zi 1) (zi vs) rows)
        end else begin
          let bs rs = [asm_h2v1_downsample k vec niw noc (hdl rs)] in
          let bc rs = [c_h2v1_downsample niw noc (hdl rs)] in
          let st = if avx2 then rowloop_h2v1_downsample_avx2 else rowloop_h2v1_downsample_sse2 in
          out (asm_rows bs st (zi vs) rows) (c_rows bc one (zi 1) (zi vs) rows)
        end
      end
  | "idctfst" :: _ ->
      let fs = fields line in
      let cf = zl (List.tl (ints (List.nth fs 0 |> fun x -> "0 " ^ (String.sub x 7 (String.length x - 7))))) and q = zl (ints (List.nth fs 1)) in
      Printf.printf "S %s | C %s ; W%d\n" (prz (asm_idct_ifast cf q)) (prz (c_idct_ifast cf q)) (if c_idct_ifast_ok cf q then 0 else 1)
  | "huff" :: seed :: ones :: last_dc :: buf :: fb :: blk ->
      let seed = int_of_string seed and ones = ones = "1" in
      let tbl off = { h_co = (fun s -> let s = iz s in let si = 1 + ((7 * s + seed + off) mod 16) in
                                 if ones then zi ((1 lsl si) - 1) else zi (((2654435761 * s + 97 * (seed + off)) land 0xFFFFFFFF) land ((1 lsl si) - 1)));
                      h_si = (fun s -> zi (1 + ((7 * iz s + seed + off) mod 16))) } in
      (* 64-bit put_buffer as a decimal string: build the Z from two halves *)
      let zbig str = let n = Int64.of_string ("0u" ^ str) in
        let hi = Int64.to_int (Int64.shift_right_logical n 32) and lo = Int64.to_int (Int64.logand n 0xFFFFFFFFL) in
        Z.add (Z.mul (zi hi) (zi 4294967296)) (zi lo) in
      let st = { w_buf = zbig buf; w_free = zi (int_of_string fb); w_out = [] } in
      let block = zl (List.map int_of_string blk) in
      let show r = let b = r.w_buf in
        let hi = iz (Z.div b (zi 4294967296)) and lo = iz (Z.modulo b (zi 4294967296)) in
        Printf.sprintf "%s ; %s %d" (prz r.w_out) (Printf.sprintf "%Lu" (Int64.logor (Int64.shift_left (Int64.of_int hi) 32) (Int64.of_int lo))) (iz r.w_free) in
      let k = k_encode_block (tbl 5) (tbl 0) block (zi (int_of_string last_dc)) st in
      let c = c_encode_block (tbl 5) (tbl 0) block (zi (int_of_string last_dc)) st in
      let fix s = if String.length s > 0 && s.[0] = ' ' then s else " " ^ s in
      Printf.printf "S%s | C%s\n" (fix (show k)) (fix (show c))
  | "idctint" :: _ ->
      let fs = fields line in
      let x = List.nth fs 0 in
      let cf = zl (ints (String.sub x 7 (String.length x - 7))) and q = zl (ints (List.nth fs 1)) in
      Printf.printf "S %s | C %s ; W%d\n" (prz (asm_idct_islow cf q)) (prz (c_idct_islow cf q)) (if c_idct_islow_ok cf q then 0 else 1)
  | "idct2x2" :: _ ->
      let fs = fields line in
      let x = List.nth fs 0 in
      let cf = zl (ints (String.sub x 7 (String.length x - 7))) and q = zl (ints (List.nth fs 1)) in
      Printf.printf "S %s | C %s ; W%d\n" (prz (asm_idct_2x2 cf q)) (prz (c_idct_2x2 cf q)) (if c2_ok cf q then 0 else 1)
  | "fdctint" :: _ ->
      let fs = fields line in
      let x = List.nth fs 0 in
      let blk = zl (ints (String.sub x 7 (String.length x - 7))) in
      Printf.printf "S %s | C %s ; W%d\n" (prz (asm_fdct_islow blk)) (prz (c_fdct_islow blk)) (if c_fdct_islow_ok blk then 0 else 1)
  | [ "rangelimit" ] ->
      let t = pr_ints (List.init 1024 (fun i -> iz (idct_range_limit (zi i)))) in Printf.printf "S %s | C %s\n" t t
  | "fdctfst" :: xs ->
      let blk = zl (List.map int_of_string xs) in
      Printf.printf "S %s | C %s ; W%d\n" (prz (asm_fdct_ifast blk)) (prz (c_fdct_ifast blk)) (if c_wraps14 blk then 1 else 0)
  | _ -> print_endline "-")
