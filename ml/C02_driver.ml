(* reads the same case lines as harness/c02k.c and harness/c02.c and prints the
   same result lines, computed by the extracted model (coq/model/Lossless.v) *)
open X_c02
let zi = z_of_int
let sp l = String.concat "" (List.map (fun x -> " " ^ string_of_int x) l)
let ints_of s = ints s
let rec split_rows w l = if l = [] then [] else take w l :: split_rows w (drop w l)
let zrows rows = List.map zl rows
let irows rows = List.map il rows
let group comps = String.concat " /" (List.map (fun rows -> sp (List.concat rows)) comps)
let rec pairs = function a :: b :: t -> (a, b) :: pairs t | _ -> []
(* the harness repeats the last (psv, pt) pair for the remaining components *)
let rec pad_pairs n l = if List.length l >= n || l = [] then take n l else pad_pairs n (l @ [List.nth l (List.length l - 1)])
(* one scan of the components whose planes are given (each a list of rows):
   the scan-level model (per-component encoder state, shared decoder restart counter).
   inject = the planes ARE the difference rows handed to the entropy coder. *)
let rec transpose_rows = function
  | [] -> [] | [] :: _ -> []
  | planes -> List.map List.hd planes :: transpose_rows (List.map List.tl planes)
let scan_codec inject ri w psv pt prec planes =
  let n = List.length planes in
  let zri = zi ri and zw = zi w and zpsv = zi psv and zprec = zi prec and zpt = zi pt in
  if not (params_ok zpsv zprec zpt && start_pass_ok zri zw) then None else begin
    let mrows = transpose_rows (List.map zrows planes) in       (* rows -> comps -> samples *)
    let nn = nat_of_int n in
    let rec rep x k = if k = 0 then [] else x :: rep x (k - 1) in
    let ed = if inject then mrows else
        enc_scan_rows zri zw zpsv zprec zpt (rep (reset_predictor zri zw) n) (rep [] n) mrows in
    let dd = List.map (List.map (List.map canon_diff)) ed in
    let out = dec_scan_rows zri zw zpsv zprec zpt (rep true n) (Z.div zri zw) (rep [] n) dd in
    let percomp x = List.map irows (transpose_rows x) in           (* comps -> rows -> samples *)
    let e = percomp ed and d = percomp dd and o = percomp out in
    ignore nn;
    Some (List.map2 (fun (a, b) c -> (a, b, c)) (List.combine e d) o, ed, out)
  end

(* bytes of the scan: statistics pass (counts[nbits]++), jpeg_gen_optimal_table, derived
   table, then emit_bits / stuffing / RSTn / final padding -- all by the extracted model.
   All components use Huffman table 0 in lossless mode. *)
let scan_bytes ri w n psv pt prec ed outrows =
  let cnt = Array.make 256 0 in
  List.iter (List.iter (List.iter (fun d ->
      let (nb, _) = encode_diff d in let k = int_of_z nb in cnt.(k) <- cnt.(k) + 1))) ed;
  match gen_optimal_table (zl (Array.to_list cnt)) with
  | Inl _ -> None
  | Inr t ->
      (match make_c_derived t.h_bits t.h_vals (zi 16) with
       | None -> None
       | Some ct ->
           let rec rep x k = if k = 0 then [] else x :: rep x (k - 1) in
           (match encode_scan_bytes (fun _ -> ct) (zi ri) (rep Z0 n) (nat_of_int w) ed with
            | None -> None
            | Some bytes ->
                let nv = List.fold_left (+) 0 (il (drop 1 t.h_bits)) in
                (* the decoder as it runs (lazy bit buffer, row counters, restart_pending), on these
                   bytes followed by EOI, with the decoder-side derived table: must give the samples *)
                let lz = match make_d_derived t.h_bits t.h_vals true (zi 16) with
                  | None -> false
                  | Some dt ->
                      (match decode_scan_e2e (huff_dec (fun _ -> dt)) (nat_of_int n) (zi ri) (zi psv) (zi prec) (zi pt)
                               (rep Z0 n) (nat_of_int w) (nat_of_int (List.length ed)) (bytes @ [zi 255; zi 217]) with
                       | Some (rows, st) -> rows = outrows && (match st.br_marker with Some _ -> true | None -> il st.br_inp = [255; 217])
                       | None -> false) in
                Some (0 :: (il (drop 1 t.h_bits)) @ take nv (il t.h_vals), il bytes, lz)))
let () = iter_lines (fun line ->
  let fs = fields line in
  let hd = words (List.nth fs 0) in
  match hd with
  | cmd :: rest when cmd = "row" || cmd = "und" ->
      let a = List.map int_of_string rest in
      let prec = List.nth a 0 and pt = List.nth a 1 and psv = List.nth a 2 and first = List.nth a 3 = 1 in
      let prev = ints_of (List.nth fs 1) and cur = ints_of (List.nth fs 2) in
      let n = List.length cur in
      (* the harness pads / truncates the previous row to the row length *)
      let prev = take n (prev @ List.init n (fun _ -> 0)) in
      if cmd = "row" then begin
        let d = diff_fn first (zi psv) (zi prec) (zi pt) (zl prev) (zl cur) in
        let u = undiff_fn first (zi psv) (zi prec) (zi pt) (zl prev) d in
        Printf.printf "d%s | u%s\n" (sp (il d)) (sp (il u))
      end else begin
        let u = undiff_fn first (zi psv) (zi prec) (zi pt) (zl prev) (zl cur) in
        Printf.printf "u%s\n" (sp (il u))
      end
  | "seq" :: rest ->
      let a = List.map int_of_string rest in
      let prec = List.nth a 0 and pt = List.nth a 1 and psv = List.nth a 2 and ri = List.nth a 3
      and mpr = List.nth a 4 and w = List.nth a 5 in
      let rows = split_rows w (ints_of (List.nth fs 1)) in
      if not (start_pass_ok (zi ri) (zi mpr)) then print_endline "err" else begin
        let d = enc_rows (zi ri) (zi mpr) (zi psv) (zi prec) (zi pt) (reset_predictor (zi ri) (zi mpr)) [] (zrows rows) in
        Printf.printf "e%s\n" (String.concat " ;" (List.map sp (irows d)))
      end
  | "scale" :: rest ->
      let a = List.map int_of_string rest in
      let bits = List.nth a 0 and pt = List.nth a 2 in
      let s = ints_of (List.nth fs 1) in
      let dn = scale_down (zi bits) (zi pt) (zl s) in
      let up = scale_up (zi bits) (zi pt) dn in
      Printf.printf "s%s |%s\n" (sp (il dn)) (sp (il up))
  | "api" :: kind :: rest ->
      let a = List.map int_of_string rest in
      let prec = List.nth a 0 and w = List.nth a 1 and nc = List.nth a 3 and ri = List.nth a 4 in
      let scanmode = if List.length a > 10 then List.nth a 10 else 0 in
      let pp = pad_pairs nc (pairs (ints_of (List.nth fs 1))) in
      let planes = List.map (fun f -> split_rows w (ints_of f)) (take nc (drop 2 fs)) in
      (* component groups of the scans *)
      let idx = List.init nc (fun i -> i) in
      let scans = match scanmode with
        | 2 -> List.map (fun i -> [i]) idx
        | 3 when nc >= 2 -> [[0]; List.tl idx]
        | 4 -> let rec grp l = if l = [] then [] else take 3 l :: grp (drop 3 l) in grp idx
        | _ -> [idx] in
      let results = List.map (fun comps ->
          let (psv, pt) = List.nth pp (List.hd comps) in
          scan_codec false ri w psv pt prec (List.map (List.nth planes) comps)) scans in
      if List.exists (fun r -> r = None) results then print_endline "rej" else begin
        let per = List.concat (List.map (function Some (l, _, _) -> l | None -> []) results) in
        let sb = List.map2 (fun comps r -> match r with
            | Some (_, ed, outrows) ->
                let (psv, pt) = List.nth pp (List.hd comps) in
                scan_bytes ri w (List.length comps) psv pt prec ed outrows
            | None -> None) scans results in
        let tbs = String.concat "" (List.map (function Some (t, _, _) -> sp t ^ " /" | None -> " ? /") sb) in
        let ecs = String.concat " /" (List.map (function Some (_, b, _) -> sp b | None -> " ?") sb) in
        let lz = if List.for_all (function Some (_, _, l) -> l | None -> false) sb then " ; lz ok" else " ; lz BAD" in
        let ed = List.map (fun (e, _, _) -> e) per and dd = List.map (fun (_, d, _) -> d) per
        and out = List.map (fun (_, _, o) -> o) per in
        let eds = if kind = "tj" then " -" else group ed in
        (* tj: the packed destination buffer of tj3Decompress* (filled with 0xC3 bytes before):
           scatter of the decoded planes through the generated layout of the pixel format *)
        let bufs = if kind <> "tj" then "" else begin
          let pf = List.nth a 7 and bottomup = List.nth a 8 = 1 and pad = List.nth a 9 and h = List.nth a 2 in
          let tj = List.nth gen_tj_layout pf and alpha = List.nth gen_dec_alpha pf in
          let (_, psz) = tj in let ps = int_of_z psz in
          let pitch = w * ps + pad in
          if pitch * h > 1500 then " ; buf -" else begin
            let slots = dec_slots_of tj alpha in
            let bits = if prec <= 8 then 8 else if prec <= 12 then 12 else 16 in
            let fill = if bits = 8 then 195 else if bits = 12 then -15421 else 50115 in
            let maxs = (1 lsl bits) - 1 in
            let outa = Array.of_list (List.map (fun rows -> Array.of_list (List.map Array.of_list rows)) out) in
            let nco = Array.length outa in
            let v k i x = let k = int_of_nat k and i = int_of_nat i and x = int_of_nat x in
              zi (if k < nco then outa.(k).(i).(x) else maxs) in
            let rec rep x k = if k = 0 then [] else x :: rep x (k - 1) in
            let b = scatter bottomup (nat_of_int w) (nat_of_int h) (nat_of_int pitch) (nat_of_int ps) slots v
                (rep (zi fill) (pitch * h)) in
            " ; buf" ^ sp (il b)
          end end in
        Printf.printf "ok ed%s ; dd%s ; out%s ; tb%s ; ecs%s%s%s\n" eds (group dd) (group out) tbs ecs lz bufs
      end
  | "inj" :: rest ->
      let a = List.map int_of_string rest in
      let prec = List.nth a 0 and w = List.nth a 1 and nc = List.nth a 3 and ri = List.nth a 4 in
      let (psv, pt) = List.hd (pairs (ints_of (List.nth fs 1))) in
      let planes = List.map (fun f -> split_rows w (ints_of f)) (take nc (drop 2 fs)) in
      (match scan_codec true ri w psv pt prec planes with
       | None -> print_endline "rej"
       | Some (per, _, _) ->
           Printf.printf "ok dd%s ; out%s\n" (group (List.map (fun (_, d, _) -> d) per))
             (group (List.map (fun (_, _, o) -> o) per)))
  | _ -> print_endline "?")
