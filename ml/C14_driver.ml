(* C14 model driver: reads the same case lines as harness/c14.c and prints the same result lines *)
open X_c14

let ten = z_of_int 10
let z_of_dec (s : string) : z =
  let neg = String.length s > 0 && s.[0] = '-' in
  let acc = ref Z0 in
  String.iteri (fun i ch -> if not (i = 0 && neg) then acc := Z.add (Z.mul !acc ten) (z_of_int (Char.code ch - 48))) s;
  if neg then Z.opp !acc else !acc

(* decimal printing of a non-negative z of any size *)
let rec dec_of_z (x : z) : string =
  match x with
  | Z0 -> "0"
  | Zneg _ -> "-" ^ dec_of_z (Z.opp x)
  | _ ->
      let (q, r) = Z.div_eucl x ten in
      let d = string_of_int (int_of_z r) in
      (match q with Z0 -> d | _ -> dec_of_z q ^ d)

let kv s = match String.index_opt s '=' with
  | Some i -> (String.sub s 0 i, String.sub s (i + 1) (String.length s - i - 1))
  | None -> (s, "")

let cfg_ref = ref (gen_cfg (z_of_int 32) (z_of_int 160) (z_of_int 152) (z_of_int 152))

let err_str = function
  | OOM w -> "oom" ^ string_of_int (int_of_z w)
  | BadPool -> "badpool"
  | WidthOverflow -> "width"
  | NoBackingStore -> "nobs"
  | NoMgr -> "nomgr"
  | Undef -> "undef"
  | OutOfFuel -> "OUTOFFUEL"

let ev_str = function
  | EMalloc (sz, Some id) -> "m" ^ dec_of_z sz ^ "=" ^ dec_of_z id
  | EMalloc (sz, None) -> "m" ^ dec_of_z sz ^ "=F"
  | EFree id -> "f" ^ dec_of_z id

let pools_str l = String.concat "," (List.map (fun p -> dec_of_z p.p_id ^ ":" ^ dec_of_z p.p_used ^ ":" ^ dec_of_z p.p_left) l)
let varrs_str l = String.concat "," (List.map (fun v ->
    dec_of_z v.v_width ^ ":" ^ dec_of_z v.v_rows ^ ":" ^ dec_of_z v.v_maxacc ^ ":" ^
    (if v.v_real then "R" ^ dec_of_z v.v_inmem else "U")) l)

let parse_op (s : string) : op option =
  match words s with
  | [ "init" ] -> Some OInit
  | [ "small"; p; n ] -> Some (OSmall (z_of_dec p, z_of_dec n))
  | [ "large"; p; n ] -> Some (OLarge (z_of_dec p, z_of_dec n))
  | [ "sarr"; p; w; r ] -> Some (OSarray (z_of_dec p, z_of_dec w, z_of_dec r))
  | [ "barr"; p; w; r ] -> Some (OBarray (z_of_dec p, z_of_dec w, z_of_dec r))
  | [ "reqs"; p; w; r; a ] -> Some (OReqS (z_of_dec p, z_of_dec w, z_of_dec r, z_of_dec a))
  | [ "reqb"; p; w; r; a ] -> Some (OReqB (z_of_dec p, z_of_dec w, z_of_dec r, z_of_dec a))
  | [ "real" ] -> Some ORealize
  | [ "freep"; p ] -> Some (OFreePool (z_of_dec p))
  | [ "destroy" ] -> Some ODestroy
  | [ "maxmem"; x ] -> Some (OSetMax (z_of_dec x))
  | [ "prec"; p ] -> Some (OSetPrec (z_of_dec p))
  | _ -> None

let oracle_of (spec : string) : bool list =
  match words spec with
  | [ "none" ] -> []
  | [ "from"; k ] -> List.init (int_of_string k) (fun _ -> false) @ List.init 20000 (fun _ -> true)
  | "at" :: ks ->
      let ks = List.map int_of_string ks in
      let mx = List.fold_left max 0 ks in
      List.init (mx + 1) (fun i -> List.mem i ks)
  | _ -> []

let rec rev_take_new (tr : event list) (n : int) = take n tr |> List.rev

let summary (s : st) : string =
  let h = s.s_heap in
  let bytes = List.fold_left (fun a (_, sz) -> Z.add a sz) Z0 h.live in
  let base = Printf.sprintf "live=%d bytes=%s badfree=%s" (List.length h.live) (dec_of_z bytes) (dec_of_z h.badfree) in
  match s.s_mgr with
  | None -> "nomgr " ^ base
  | Some m ->
      Printf.sprintf "S0=%s S1=%s L0=%s L1=%s VS=%s VB=%s t=%s maxmem=%s %s"
        (pools_str m.m_small0) (pools_str m.m_small1) (pools_str m.m_large0) (pools_str m.m_large1)
        (varrs_str m.m_vs) (varrs_str m.m_vb) (dec_of_z m.m_total) (dec_of_z m.m_maxmem) base

let do_seq (body : string) =
  match fields body with
  | [ spec; opss ] ->
      let ops = List.filter (fun x -> String.trim x <> "") (String.split_on_char ';' opss) in
      let s = ref (init_st (oracle_of spec)) in
      let b = Buffer.create 1024 in
      List.iter (fun os ->
          match parse_op os with
          | None -> Buffer.add_string b "? ; "
          | Some o ->
              let n0 = List.length !s.s_heap.trace in
              let (s', e) = step64 !cfg_ref o !s in
              let n1 = List.length s'.s_heap.trace in
              let evs = rev_take_new s'.s_heap.trace (n1 - n0) in
              s := s';
              Buffer.add_string b (match e with None -> "ok" | Some e -> err_str e);
              Buffer.add_string b "[";
              Buffer.add_string b (String.concat " " (List.map ev_str evs));
              Buffer.add_string b "]";
              (match s'.s_mgr with Some m -> Buffer.add_string b ("t=" ^ dec_of_z m.m_total) | None -> Buffer.add_string b "t=-");
              Buffer.add_string b " ; ") ops;
      Buffer.add_string b "|| ";
      Buffer.add_string b (summary !s);
      (* implicit final destroy *)
      let (s', _) = step64 !cfg_ref ODestroy !s in
      Buffer.add_string b (Printf.sprintf " || end live=%d badfree=%s" (List.length s'.s_heap.live) (dec_of_z s'.s_heap.badfree));
      print_endline (Buffer.contents b)
  | _ -> print_endline "?"

let () = iter_lines (fun line ->
  match words line with
  | "cfg" :: rest ->
      let a = List.map kv rest in
      let g k = z_of_dec (List.assoc k a) in
      let simd = List.assoc "simd" a = "1" in
      let c = gen_cfg (g "align") (g "mgr") (g "sctl") (g "bctl") in
      let expect_align = if simd then align_simd else align_nosimd in
      let chk = [ ("align", expect_align); ("hdr", c.c_hdr); ("max", c.c_max); ("f0", c.c_first0); ("f1", c.c_first1);
                  ("e0", c.c_extra0); ("e1", c.c_extra1); ("minslop", c.c_minslop); ("ptr", c.c_ptr); ("block", c.c_block) ] in
      let bad = List.filter (fun (k, v) -> not (Z.eqb (g k) v)) chk in
      cfg_ref := c;
      if bad = [] then print_endline "cfg ok"
      else print_endline ("cfg MISMATCH " ^ String.concat " " (List.map (fun (k, v) -> k ^ "=" ^ dec_of_z v) bad))
  | "seq" :: _ ->
      do_seq (String.sub line 3 (String.length line - 3))
  | "tjinit" :: ty :: spec ->
      (* tj3Init (+ tj3Destroy on success) with the handler found in the source *)
      let t = (match ty with "c" -> ICompress | "d" -> IDecompress | _ -> ITransform) in
      let (ok, h) = tjinit_src !cfg_ref t (oracle_of (String.concat " " spec)) in
      let nm = List.length (List.filter (function EMalloc _ -> true | _ -> false) h.trace) in
      Printf.printf "tjinit ok=%d n=%d live=%d badfree=%s hd=%d\n" (if ok then 1 else 0) nm (List.length h.live) (dec_of_z h.badfree)
        (if tjinit_handler_destroys then 1 else 0)
  | [ "tjalloc" ] ->
      (* per generated program: number of malloc calls of a failure-free call with 1, 3 and 4 components *)
      let rec go ps ns i = match ps, ns with
        | p :: pr, n :: nr ->
            let c k = int_of_nat (acq_count p (nat_of_int k)) - int_of_nat n in
            Printf.printf "%s%d:%d:%d:%d" (if i = 0 then "tjalloc " else " ") i (c 1) (c 3) (c 4);
            go pr nr (i + 1)
        | _, _ -> print_newline () in
      go tj_progs tj_nonmalloc 0
  | "vacc" :: _ ->
      (* virtual-array access path with backing store: same line as harness/c14.c do_vacc *)
      let body = String.sub line 4 (String.length line - 4) in
      (match fields body with
       | [ hd; opss ] ->
           (match words hd with
            | [ kind; prec; width; rows; maxacc; pz; maxmem ] ->
                let c = !cfg_ref in
                let isb = (kind = "b") in
                let zprec = z_of_dec prec and zw = z_of_dec width and zr = z_of_dec rows and za = z_of_dec maxacc in
                (* total_space_allocated after init + request, from the memory-manager model *)
                let s0 = init_st [] in
                let (s1, _) = step64 c OInit s0 in
                let (s2, _) = step64 c (OSetPrec zprec) s1 in
                let (s3, _) = step64 c (if isb then OReqB (z_of_int 1, zw, zr, za) else OReqS (z_of_int 1, zw, zr, za)) s2 in
                let total = (match s3.s_mgr with Some m -> m.m_total | None -> Z0) in
                let ss = sample_size zprec in
                let unit = if isb then c.c_block else ss in
                let walloc = if isb then zw
                  else Z.modulo (rup w64 zw (Z.div (Z.mul (z_of_int 2) c.c_align) ss)) two32 in
                let a = ref (va_realize c unit walloc zw zr za (pz = "1") (z_of_dec maxmem) total) in
                let b = Buffer.create 1024 in
                Buffer.add_string b (Printf.sprintf "geom inmem=%s rpc=%s open=%d total=%s" (dec_of_z !a.a_inmem) (dec_of_z !a.a_rpc)
                                       (if !a.a_bsopen then 1 else 0) (dec_of_z total));
                let xs l = String.concat " " (List.map (function
                  | XWrite (i, f, n) -> "W" ^ dec_of_z i ^ ":" ^ dec_of_z f ^ ":" ^ dec_of_z n
                  | XRead (i, f, n) -> "R" ^ dec_of_z i ^ ":" ^ dec_of_z f ^ ":" ^ dec_of_z n) l) in
                let errs = function BadVirtualAccess -> "bad" | VirtualBug -> "bug" | IoFuel -> "IOFUEL" in
                List.iter (fun os ->
                    match words os with
                    | "r" :: st :: n :: _ ->
                        let zn = z_of_dec n in
                        let ((a', res), x) = access !a (z_of_dec st) zn false in
                        a := a';
                        Buffer.add_string b " ; ";
                        (match res with
                         | Inl e -> Buffer.add_string b (errs e)
                         | Inr off ->
                             let vals = load_rows a'.a_mem off (Z.to_nat zn) in
                             Buffer.add_string b ("ok off=" ^ dec_of_z off ^ " [" ^
                               String.concat " " (List.map (function Some v -> dec_of_z v | None -> "?") vals) ^ "]"));
                        Buffer.add_string b (Printf.sprintf " x=[%s] cur=%s undef=%s dirty=%d" (xs x) (dec_of_z a'.a_cur) (dec_of_z a'.a_undef)
                                               (if a'.a_dirty then 1 else 0))
                    | "w" :: st :: vals ->
                        let ((a', res), x) = write_rows !a (z_of_dec st) (List.map z_of_dec vals) in
                        a := a';
                        Buffer.add_string b " ; ";
                        (match res with
                         | Inl e -> Buffer.add_string b (errs e)
                         | Inr off -> Buffer.add_string b ("ok off=" ^ dec_of_z off));
                        Buffer.add_string b (Printf.sprintf " x=[%s] cur=%s undef=%s dirty=%d" (xs x) (dec_of_z a'.a_cur) (dec_of_z a'.a_undef)
                                               (if a'.a_dirty then 1 else 0))
                    | _ -> ()) (List.filter (fun x -> String.trim x <> "") (String.split_on_char ';' opss));
                Buffer.add_string b " || end live=0 badfree=0";
                print_endline (Buffer.contents b)
            | _ -> print_endline "?")
       | _ -> print_endline "?")
  | "destbuf" :: api :: script ->
      (* destination-buffer protocol with the configuration found in the source; one token per image:
         <L|C|R><grows><F|T|J|I><f|k> *)
      let call tok =
        let m = (match tok.[0] with 'L' -> MLib | 'C' -> MCaller | _ -> MReuse) in
        let g = nat_of_int (Char.code tok.[1] - 48) in
        let e = (match tok.[2] with 'F' -> EFinish | 'T' -> EThrow | 'J' -> ELongjmp | _ -> EInitFail) in
        { c_mode = m; c_grows = g; c_exit = e; c_free_after = (tok.[3] = 'f') } in
      let s = final (if api = "tj" then dcfg_tj else dcfg_ljpeg) (List.map call script) in
      Printf.printf "destbuf leak=%d badfree=%s stolen=%s\n" (List.length s.b_live) (dec_of_z s.b_badfree) (dec_of_z s.b_stolen)
  | [ "pix"; w; h; lim ] ->
      print_endline (if pixels_rejected_src (z_of_dec w) (z_of_dec h) (z_of_dec lim) then "pix reject" else "pix accept")
  | [ "scan"; n; lim ] ->
      print_endline (if scan_rejected_src (z_of_dec n) (z_of_dec lim) then "scan reject" else "scan accept")
  | [ "maxmem"; mb ] ->
      print_endline ("maxmem " ^ dec_of_z (max_memory_to_use_of (z_of_dec mb)))
  | _ -> print_endline "?")
