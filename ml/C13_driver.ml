(* reads the same case lines as harness/c13.c and prints the same result lines,
   followed by " | ok=<w_ok> cb=<caller misuse notes> hz=<hazard notes> bad=<library bad count>" *)
open X_c13
let gen_byte seed j = (seed + j * 131 + (j lsr 8) * 7) land 255
let adler l =
  let a = ref 1 and b = ref 0 in
  List.iter (fun x -> a := (!a + x) mod 65521; b := (!b + !a) mod 65521) l;
  !b * 65536 + !a
let bytes seed start n = List.init n (fun i -> z_of_int (gen_byte seed (start + i)))

(* producer of a C call *)
let pops_of_c seed cs =
  let j = ref 0 in
  List.concat (List.map (fun c ->
    if c > 0 then begin let r = [PChunk (bytes seed !j c)] in j := !j + c; r end
    else if c < 0 then begin let r = List.map (fun b -> PByte b) (bytes seed !j (-c)) in j := !j + (-c); r end
    else [PAbort]) cs)

(* producer standing for a real encoder that emits n bytes *)
let pops_of_n n =
  let rec go j acc = if j >= n then List.rev acc else
    let c = min 256 (n - j) in go (j + c) (PChunk (bytes 1 j c) :: acc) in
  go 0 []

let st_name = function StOk -> "ok" | StBufSize -> "bufsize" | StAbort -> "abort" | StFuel -> "fuel"
let own = function Lib -> "L" | Caller -> "C"

let () = iter_lines (fun line ->
  match words line with
  | "hist" :: mgr :: _ ->
      let cfg = match mgr with "ijg" -> cfg_ijg | "tjold" -> cfg_tj_old | _ -> cfg_tj in
      let parts = List.tl (String.split_on_char ';' line) in
      let kinds = ref [] in
      let hops = List.concat (List.map (fun part ->
        match words part with
        | [ "A"; n; rc ] -> [HAlloc (z_of_int (int_of_string n), rc = "1")]
        | [ "Z"; z ] -> [HSetSize (z_of_int (int_of_string z))]
        | [ "N" ] -> [HSetNull]
        | [ "S" ] -> [HSave]
        | [ "T"; k ] -> [HTake (nat_of_int (int_of_string k))]
        | [ "F" ] -> [HFreeBuf]
        | [ "G"; k ] -> [HFreeHeld (nat_of_int (int_of_string k))]
        | [ "V"; k ] -> [HSwitch (true, nat_of_int (int_of_string k))]
        | [ "P"; k ] -> [HSwitch (false, nat_of_int (int_of_string k))]
        | "C" :: alloc :: seed :: cs ->
            kinds := `C :: !kinds;
            [HCall (alloc = "1", pops_of_c (int_of_string seed) (List.map int_of_string cs))]
        | "J" :: alloc :: n :: _ ->
            kinds := `J :: !kinds;
            [HCall (alloc = "1", pops_of_n (int_of_string n))]
        | _ -> []) parts) in
      let w = run cfg hops in
      let log = List.rev w.w_heap.h_log in
      let kinds = ref (List.rev !kinds) in
      let b = Buffer.create 1024 in
      let cb = ref 0 and hz = ref 0 and bad = ref 0 and stop = ref false in
      List.iter (fun e -> if not !stop then match e with
        | LMalloc (id, sz, o) -> Buffer.add_string b (Printf.sprintf "m%d:%d:%s " (int_of_z id) (int_of_z sz) (own o))
        | LFree (id, o) -> Buffer.add_string b (Printf.sprintf "f%d:%s " (int_of_z id) (own o))
        | LBad (BadDoubleFree id) -> incr bad; Buffer.add_string b (Printf.sprintf "!df%d " (int_of_z id))
        | LBad (BadFreeForeign id) -> incr bad; Buffer.add_string b (Printf.sprintf "!ff%d " (int_of_z id))
        | LBad (BadFreeHanded id) -> incr bad; Buffer.add_string b (Printf.sprintf "!fh%d " (int_of_z id))
        | LBad (BadOverrun (id, off)) -> incr bad; Buffer.add_string b (Printf.sprintf "!ov%d@%d STOP" (int_of_z id) (int_of_z off)); stop := true
        | LBad BadStalePair -> incr bad; Buffer.add_string b "!pair STOP"; stop := true
        | LBad (BadOverRead (id, n)) -> incr bad; Buffer.add_string b (Printf.sprintf "!or%d:%d STOP" (int_of_z id) (int_of_z n)); stop := true
        | LNote (NRecycled | NZeroReuse) -> incr hz
        | LNote _ -> incr cb
        | LResult (st, id, sz, data) ->
            let k = (match !kinds with k :: t -> kinds := t; k | [] -> `C) in
            let ck = if st <> StOk then "0" else if k = `J then "ref" else string_of_int (adler (il data)) in
            let szs = if st <> StOk && k = `J then "-" else string_of_int (int_of_z sz) in
            Buffer.add_string b (Printf.sprintf "r%s:%d:%s:%s " (st_name st) (int_of_z id) szs ck)) log;
      Printf.printf "%s | ok=%d cb=%d hz=%d bad=%d\n" (Buffer.contents b) (if w.w_ok then 1 else 0) !cb !hz !bad
  | [ "icc"; n ] -> Printf.printf "icc %d\n" (int_of_z (icc_bytes (z_of_int (int_of_string n))))
  | [ "bufsize"; w; h; s ] ->
      Printf.printf "bufsize %d\n" (int_of_z (tj3JPEGBufSize (z_of_int (int_of_string w)) (z_of_int (int_of_string h)) (z_of_int (int_of_string s))))
  | [ "xicc"; src; inst; save; cn; getb; _; _ ] ->
      let x = { x_save = z_of_int (int_of_string save); x_copynone = (cn = "1"); x_src = z_of_int (int_of_string src);
                x_inst = z_of_int (int_of_string inst); x_got = (getb = "1") } in
      let kk = z_of_int ((int_of_string src + 65518) / 65519) in      (* chunks of a profile written by jpeg_write_icc_profile *)
      Printf.printf "xicc term=%d written=%d\n" (int_of_z (size_term_bytes x kk)) (int_of_z (icc_written x))
  | [ "xmk"; kind; k; payload; save; cn; _; _ ] ->
      let isicc = kind = "0" in
      let x = { x_save = z_of_int (int_of_string save); x_copynone = (cn = "1");
                x_src = z_of_int (if isicc then int_of_string payload else 0); x_inst = z_of_int 0; x_got = false } in
      let kk = z_of_int (if isicc then int_of_string k else 0) in
      Printf.printf "xmk term=%d iccbytes=%d budget=%d\n" (int_of_z (size_term_bytes x kk))
        (int_of_z (icc_bytes_written x kk)) (int_of_z (marker_budget x))
  | [ "chunkmax"; prec ] -> Printf.printf "chunkmax %d\n" (int_of_z (chunk_max (z_of_int (int_of_string prec))))
  | "blk" :: px ->
      let px = zl (List.map int_of_string px) in
      let cs = il (block_coefs px) in
      (match scan_size [px] with
       | Some (bytes, _) -> Printf.printf "blk %s | %d\n" (pr_ints cs) (int_of_z bytes)
       | None -> print_endline "blk nocode")
  | _ -> print_endline "?")
