(* one merged event trace per line:  "tid kind inst msg|tid kind inst msg|..."  (kind: N C F T G Q; msg = message id)
   prints what every query (G, Q) observes according to the extracted thread-model replay *)
open X_c15
let ev_of s =
  match words s with
  | [t; k; i; m] ->
      let t = nat_of_int (int_of_string t) and i = nat_of_int (int_of_string i) and m = z_of_int (int_of_string m) in
      let o = (match k with
        | "N" -> ENew i | "C" -> ECall i | "F" -> EFail (i, m) | "T" -> ETlsFail m | "G" -> EGet i | _ -> EGetTls) in
      Some (t, o)
  | _ -> None
let () = iter_lines (fun line ->
  let evs = List.filter_map ev_of (fields line) in
  print_endline (pr_ints (il (lreplay evs []))))
