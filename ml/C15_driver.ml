(* one merged event trace per line:
     "tid kind inst msg|tid kind inst msg|..."      error strings (kind: N C F T G Q; msg = message id)  -> ErrState.lreplay
     "K|tid kind inst w|..."                        error codes   (kind: N C F O K; w = 1 warning-level failure) -> ErrCode.lcreplay
   prints what every query observes according to the extracted thread-model replay *)
open X_c15
let ev_of s =
  match words s with
  | [t; k; i; m] ->
      let t = nat_of_int (int_of_string t) and i = nat_of_int (int_of_string i) and m = z_of_int (int_of_string m) in
      let o = (match k with
        | "N" -> ENew i | "C" -> ECall i | "F" -> EFail (i, m) | "T" -> ETlsFail m | "G" -> EGet i | _ -> EGetTls) in
      Some (t, o)
  | _ -> None
let cev_of s =
  match words s with
  | [t; k; i; w] ->
      let t = nat_of_int (int_of_string t) and i = nat_of_int (int_of_string i) in
      let o = (match k with
        | "N" -> CNew i | "C" -> CCall i | "F" -> CFail (i, w = "1") | "K" -> CCode i | _ -> COther) in
      Some (t, o)
  | _ -> None
let () = iter_lines (fun line ->
  match fields line with
  | "K" :: rest -> print_endline (pr_ints (il (lcreplay (List.filter_map cev_of rest) [])))
  | fs -> print_endline (pr_ints (il (lreplay (List.filter_map ev_of fs) []))))
