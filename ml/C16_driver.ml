(* C16 model driver: same case lines as harness/c16.c where a model counterpart exists
   ("rd"), plus model-only commands ("emit ...", "copy ...", "iccrd ...") whose outputs
   checks/C16.py compares with bytes / marker lists taken from the real streams. *)
open X_c16

let ztab = Array.init 65536 z_of_int
let zb i = if i >= 0 && i < 65536 then ztab.(i) else z_of_int i
let hexv c = if c <= '9' then Char.code c - 48 else (Char.code c lor 32) - 87
let unhex s =
  if s = "-" then [] else begin
    let n = String.length s / 2 in
    let r = ref [] in
    for i = n - 1 downto 0 do
      r := zb (hexv s.[2 * i] * 16 + hexv s.[2 * i + 1]) :: !r
    done; !r end
let hexd = "0123456789abcdef"
let tohex (l : z list) =
  if l = [] then "-" else begin
    let b = Buffer.create 1024 in
    List.iter (fun z -> let v = int_of_z z in
                Buffer.add_char b hexd.[(v lsr 4) land 15]; Buffer.add_char b hexd.[v land 15]) l;
    Buffer.contents b end
let fnv (l : z list) =
  let h = ref 0xcbf29ce484222325L in
  List.iter (fun z -> h := Int64.mul (Int64.logxor !h (Int64.of_int (int_of_z z))) 0x100000001b3L) l;
  Printf.sprintf "%016Lx" !h
let zlen l = List.length l
let split_on c s = if s = "-" || s = "" then [] else String.split_on_char c s
let cspace_of_int = function 1 -> CS_GRAY | 2 -> CS_RGB | 3 -> CS_YCbCr | 4 -> CS_CMYK | 5 -> CS_YCCK | _ -> CS_UNKNOWN
let int_of_cspace = function CS_UNKNOWN -> 0 | CS_GRAY -> 1 | CS_RGB -> 2 | CS_YCbCr -> 3 | CS_CMYK -> 4 | CS_YCCK -> 5
let b2i b = if b then 1 else 0
let out_opt = function None -> print_endline "err" | Some l -> print_endline (tohex l)

let cfg_of s =
  List.fold_left (fun c item ->
      match String.split_on_char ':' item with
      | [code; lim] -> jpeg_save_markers c (z_of_int (int_of_string code)) (z_of_int (int_of_string lim))
      | _ -> c) cfg_init (split_on ',' s)

let icc_str = function
  | IccAbsent -> "icc absent" | IccBogus -> "icc bogus"
  | IccOk p -> Printf.sprintf "icc ok %d %s" (zlen p) (fnv p)

let segs_of s =
  List.map (fun item -> match String.split_on_char ':' item with
      | [code; hx] -> (z_of_int (int_of_string code), unhex hx)
      | [code] -> (z_of_int (int_of_string code), [])
      | _ -> failwith "seg") (split_on ',' s)

let header_line (hd : header) : string =
    (match hd.hd_frame, hd.hd_scan, sof_flags hd.hd_sofcode with
     | Some fr, Some sc, Some ((prog, lossless), arith) ->
       let h = hd.hd_info in
       let b = Buffer.create 4096 in
       let ids = List.map (fun c -> c.c_id) fr.f_comps in
       Buffer.add_string b (Printf.sprintf "hdr %d %d %d flags=%d%d%d ncomp=%d comps=%s"
         (int_of_z fr.f_width) (int_of_z fr.f_height) (int_of_z fr.f_prec) (b2i prog) (b2i lossless) (b2i arith)
         (zlen fr.f_comps)
         (String.concat "," (List.map (fun c -> Printf.sprintf "%d.%d.%d.%d" (int_of_z c.c_id) (int_of_z c.c_h)
                                          (int_of_z c.c_v) (int_of_z c.c_tq)) fr.f_comps)));
       Buffer.add_string b (Printf.sprintf " jfif=%d ver=%d.%d dens=%d.%d.%d adobe=%d tr=%d ri=%d scan=%s;%d;%d;%d;%d cs=%d |"
         (b2i h.h_saw_jfif) (int_of_z h.h_major) (int_of_z h.h_minor) (int_of_z h.h_unit) (int_of_z h.h_xd)
         (int_of_z h.h_yd) (b2i h.h_saw_adobe) (int_of_z h.h_transform) (int_of_z h.h_restart)
         (String.concat "," (List.map (fun c -> Printf.sprintf "%d.%d.%d" (int_of_nat c.sc_ci) (int_of_z c.sc_dc)
                                          (int_of_z c.sc_ac)) sc.s_comps))
         (int_of_z sc.s_Ss) (int_of_z sc.s_Se) (int_of_z sc.s_Ah) (int_of_z sc.s_Al)
         (int_of_cspace (decide_colorspace (z_of_int (zlen fr.f_comps)) h lossless ids)));
       List.iter (fun m -> Buffer.add_string b (Printf.sprintf " m %d %d %d %s ;" (int_of_z m.sm_code)
                                                 (int_of_z m.sm_orig) (zlen m.sm_data) (fnv m.sm_data))) hd.hd_saved;
       (* more than 30 ICC markers: the proved-equal closed-form reader (C16_icc_read_fast_correct) *)
       let nicc = List.length (List.filter marker_is_icc hd.hd_saved) in
       Buffer.add_string b (" | " ^ icc_str (if nicc > 30 then read_icc_fast hd.hd_saved else read_icc hd.hd_saved));
       Buffer.contents b
     | _ -> "err")

let do_rd cfgs hx =
  match read_header (cfg_of cfgs) (unhex hx) with
  | None -> print_endline "err"
  | Some (hd, _) -> print_endline (header_line hd)

(* the header through the suspending-source model for one visibility schedule *)
let susp_one cfg (stream : z array) (cuts : int list) : string * string =
  let n = Array.length stream in
  let cuts = List.filter (fun k -> k < n) cuts in
  let bounds = cuts @ [n] in
  let rec pieces lo = function [] -> [] | hi :: t -> (Array.to_list (Array.sub stream lo (max 0 (hi - lo)))) :: pieces (max lo hi) t in
  match pieces 0 bounds with
  | [] -> ("err", "")
  | first :: rest ->
      (match susp_header (nat_of_int (4 * n + 64)) cfg hstate_init first rest (z_of_int (List.length first)) [] with
       | None -> ("err", "")
       | Some (hs, log) ->
           (header_line (header_of hs), String.concat "" (List.rev_map (fun o -> "." ^ string_of_int (int_of_z o)) log)))

let do_rds cfgs spec hx =
  let cfg = cfg_of cfgs in
  let l = unhex hx in
  let stream = Array.of_list l in
  let reference = match read_header cfg l with None -> "err" | Some (hd, _) -> header_line hd in
  let parts =
    if String.length spec > 6 && String.sub spec 0 6 = "every:" then
      (match String.split_on_char ':' spec with
       | [_; lo; hi] -> let lo = int_of_string lo and hi = int_of_string hi in
           List.filter (fun (_, c) -> List.hd c < Array.length stream) (List.init (max 0 (hi - lo + 1)) (fun i -> (string_of_int (lo + i), [lo + i])))
       | _ -> [])
    else List.map (fun p -> (p, List.map int_of_string (String.split_on_char '+' p)))
        (String.split_on_char '/' (String.sub spec 4 (String.length spec - 4))) in
  let b = Buffer.create 65536 in
  List.iteri (fun i (label, cuts) ->
      let (line, offs) = susp_one cfg stream cuts in
      if i > 0 then Buffer.add_char b ' ';
      Buffer.add_string b (Printf.sprintf "%s=%c:%s" label (if line = reference then 'S' else 'D') offs)) parts;
  print_endline (Buffer.contents b)

let () = iter_lines (fun line ->
  match words line with
  | [ "rd"; cfgs; hx ] -> do_rd cfgs hx
  | [ "rds"; cfgs; spec; hx ] -> do_rds cfgs spec hx
  | [ "emit"; "icc"; hx ] ->
      (match write_icc (unhex hx) with
       | None -> print_endline "err"
       | Some segs -> out_opt (write_markers segs))
  | [ "emit"; "markers"; s ] -> out_opt (write_markers (segs_of s))
  | [ "mapi"; s ] ->
      (* the call trace harness/c16.c makes: odd lengths through jpeg_write_m_header + jpeg_write_m_byte, even ones through jpeg_write_marker *)
      let trace = List.concat_map (fun (c, d) ->
          if List.length d land 1 = 1 then CHeader (c, z_of_int (List.length d)) :: List.map (fun b -> CByte b) d else [CMarker (c, d)]) (segs_of s) in
      (match mapi_run (zb 101) (zb 0) { ma_open = zb 0; ma_out = [] } trace with
       | Some st when int_of_z st.ma_open = 0 -> print_endline (tohex st.ma_out)
       | _ -> print_endline "err")
  | [ "emit"; "sof"; code; prec; h; w; comps ] ->
      let cs = List.map (fun it -> match List.map int_of_string (String.split_on_char '.' it) with
          | [a; b; c; d] -> { c_id = z_of_int a; c_h = z_of_int b; c_v = z_of_int c; c_tq = z_of_int d }
          | _ -> failwith "comp") (split_on ',' comps) in
      out_opt (emit_sof (z_of_int (int_of_string code))
                 { f_prec = z_of_int (int_of_string prec); f_height = z_of_int (int_of_string h);
                   f_width = z_of_int (int_of_string w); f_comps = cs })
  | [ "emit"; "sos"; lossless; ids; scs; ss; se; ah; al ] ->
      let ids = zl (List.map int_of_string (split_on ',' ids)) in
      let scs = List.map (fun it -> match List.map int_of_string (String.split_on_char '.' it) with
          | [a; b; c] -> { sc_ci = nat_of_int a; sc_dc = z_of_int b; sc_ac = z_of_int c }
          | _ -> failwith "scomp") (split_on ',' scs) in
      let zi s = z_of_int (int_of_string s) in
      print_endline (tohex (emit_sos (lossless = "1") ids
                              { s_comps = scs; s_Ss = zi ss; s_Se = zi se; s_Ah = zi ah; s_Al = zi al }))
  | [ "emit"; "dri"; n ] -> print_endline (tohex (emit_dri (z_of_int (int_of_string n))))
  | [ "emit"; "filehdr"; cs; a; b; u; xd; yd ] ->
      let zi s = z_of_int (int_of_string s) in
      print_endline (tohex (emit_file_header (cspace_of_int (int_of_string cs))
                              { j_major = zi a; j_minor = zi b; j_unit = zi u; j_xd = zi xd; j_yd = zi yd }))
  | [ "emit"; "sofcode"; a; p; l; b ] ->
      print_endline (string_of_int (int_of_z (sof_code (a = "1") (p = "1") (l = "1") (b = "1"))))
  | [ "copy"; sopt; eopt; wj; wa; hx ] ->
      (* source stream: SOI must be the first two bytes *)
      (match unhex hx with
       | _ :: _ :: rest ->
           (match copy_pipeline (z_of_int (int_of_string sopt)) (z_of_int (int_of_string eopt)) (wj = "1") (wa = "1")
                    (nat_of_int 100000) rest with
            | None -> print_endline "err"
            | Some segs ->
                print_endline ("x" ^ String.concat "" (List.map (fun (c, d) ->
                    Printf.sprintf " m %d %d %s ;" (int_of_z c) (zlen d) (fnv d)) segs)))
       | _ -> print_endline "err")
  | [ "copyh"; hist; sopt; eopt; wj; wa; hx ] ->
      (* hist: comma list of s<opt> (earlier jcopy_markers_setup) | h<savemarkers> (earlier tj3DecompressHeader) *)
      let steps = List.map (fun it ->
          let v = z_of_int (int_of_string (String.sub it 1 (String.length it - 1))) in
          if it.[0] = 's' then HSetup v else HTjHeader v) (split_on ',' hist) in
      (match unhex hx with
       | _ :: _ :: rest ->
           (match copy_pipeline_from (history_cfg steps) (z_of_int (int_of_string sopt)) (z_of_int (int_of_string eopt))
                    (wj = "1") (wa = "1") (nat_of_int 100000) rest with
            | None -> print_endline "err"
            | Some segs ->
                print_endline ("x" ^ String.concat "" (List.map (fun (c, d) ->
                    Printf.sprintf " m %d %d %s ;" (int_of_z c) (zlen d) (fnv d)) segs)))
       | _ -> print_endline "err")
  | [ "tjm"; sm; flags; wj; wa; dicc; hx ] ->
      (match unhex hx with
       | _ :: _ :: rest ->
           let fl = List.init (String.length flags) (fun i -> flags.[i] = '1') in
           (match tj_transform_multi (z_of_int (int_of_string sm)) fl (wj = "1") (wa = "1") (nat_of_int 100000) rest (unhex dicc) with
            | None -> print_endline "err"
            | Some outs ->
                print_endline ("x " ^ String.concat " | " (List.map (fun segs -> String.concat "" (List.map (fun (c, d) ->
                    Printf.sprintf " m %d %d %s ;" (int_of_z c) (zlen d) (fnv d)) segs)) outs)))
       | _ -> print_endline "err")
  | [ "tjmb"; sm; flags; cs; dicc; hx ] ->
      (match unhex hx with
       | _ :: _ :: rest ->
           let fl = List.init (String.length flags) (fun i -> flags.[i] = '1') in
           (match tj_transform_multi_bytes (z_of_int (int_of_string sm)) fl (cspace_of_int (int_of_string cs)) (nat_of_int 100000) rest (unhex dicc) with
            | None -> print_endline "err"
            | Some outs -> print_endline ("b " ^ String.concat " " (List.map (function Some b -> tohex b | None -> "err") outs)))
       | _ -> print_endline "err")
  | [ "bufsz"; sm; cn; ts; tm; is_ ] ->
      let zi s = z_of_int (int_of_string s) in
      print_endline (string_of_int (int_of_z (tj_bufsize_icc (zi sm) (cn = "1") (zi ts) (zi tm) (zi is_))))
  | [ "wst"; gs; ns; what; len ] ->
      let n = int_of_string len in
      let data = List.init n (fun _ -> zb 0) in
      let r = if what = "2" then jpeg_write_icc_profile_api (z_of_int (int_of_string gs)) (z_of_int (int_of_string ns)) data
              else jpeg_write_marker_api (z_of_int (int_of_string gs)) (z_of_int (int_of_string ns)) ((if what = "0" then zb 254 else zb 229), data) in
      print_endline (match r with WBadState -> "BAD_STATE" | WBadLength -> "BAD_LENGTH" | WBufferSize -> "BUFFER_SIZE" | WOk _ -> "ok")
  | [ "rdall"; cfgs; hx ] ->
      let slot_str f s = String.concat "," (List.map (fun k -> match s (zb k) with None -> "-" | Some v -> f v) [0; 1; 2; 3]) in
      let qf (l : z list) = fnv (List.concat_map (fun q -> let v = int_of_z q in [zb (v lsr 8); zb (v land 255)]) l) in
      let hf ((b, v) : z list * z list) = fnv (b @ v) in
      let view (sc : scan) (st : rstate) =
        Printf.sprintf "view %s;%d;%d;%d;%d ri=%d qt=%s dc=%s ac=%s ar=%s nm=%d"
          (String.concat "," (List.map (fun c -> Printf.sprintf "%d.%d.%d" (int_of_nat c.sc_ci) (int_of_z c.sc_dc) (int_of_z c.sc_ac)) sc.s_comps))
          (int_of_z sc.s_Ss) (int_of_z sc.s_Se) (int_of_z sc.s_Ah) (int_of_z sc.s_Al) (int_of_z st.r_h.h_restart)
          (slot_str qf st.r_qt) (slot_str hf st.r_dc) (slot_str hf st.r_ac)
          (let v k = int_of_z (st.r_dac (zb k)) in
           fnv (List.init 16 (fun k -> zb (v k land 15)) @ List.init 16 (fun k -> zb (v k lsr 4)) @ List.init 16 (fun k -> zb (v (16 + k)))))
          (List.length st.r_saved) in
      (match read_file (cfg_of cfgs) (unhex hx) with
       | None -> print_endline "err"
       | Some (views, stf) ->
           let h = stf.r_h in
           print_endline (String.concat " | " (List.map (fun v -> view v.sv_scan v.sv_state) views)
             ^ (match stf.r_frame, sof_flags stf.r_sofcode with
                | Some fr, Some ((p, l), a) -> Printf.sprintf " | end sof=%d%d%d.%d.%d.%d.%s" (b2i p) (b2i l) (b2i a) (int_of_z fr.f_prec) (int_of_z fr.f_width)
                    (int_of_z fr.f_height) (String.concat "," (List.map (fun c -> Printf.sprintf "%d:%d:%d:%d" (int_of_z c.c_id) (int_of_z c.c_h) (int_of_z c.c_v) (int_of_z c.c_tq)) fr.f_comps))
                | _ -> " | end sof=?")
             ^ Printf.sprintf " ri=%d dens=%d.%d.%d jfif=%d adobe=%d tr=%d |" (int_of_z h.h_restart) (int_of_z h.h_unit) (int_of_z h.h_xd)
                 (int_of_z h.h_yd) (b2i h.h_saw_jfif) (b2i h.h_saw_adobe) (int_of_z h.h_transform)
             ^ String.concat "" (List.map (fun m -> Printf.sprintf " m %d %d %d %s ;" (int_of_z m.sm_code) (int_of_z m.sm_orig) (zlen m.sm_data) (fnv m.sm_data)) stf.r_saved)))
  | [ "trace"; cfgs; ms ] ->
      let cfg = cfg_of cfgs in
      let ev = function
        | WarnJfifMajor (a, b) -> Printf.sprintf "WarnJfifMajor:%d,%d" (int_of_z a) (int_of_z b)
        | TrJfif (a, b, x, y, u) -> Printf.sprintf "TrJfif:%d,%d,%d,%d,%d" (int_of_z a) (int_of_z b) (int_of_z x) (int_of_z y) (int_of_z u)
        | TrThumb (w, h) -> Printf.sprintf "TrThumb:%d,%d" (int_of_z w) (int_of_z h)
        | TrBadThumbSize n -> Printf.sprintf "TrBadThumbSize:%d" (int_of_z n)
        | TrThumbJpeg n -> Printf.sprintf "TrThumbJpeg:%d" (int_of_z n)
        | TrThumbPalette n -> Printf.sprintf "TrThumbPalette:%d" (int_of_z n)
        | TrThumbRgb n -> Printf.sprintf "TrThumbRgb:%d" (int_of_z n)
        | TrJfifExt (c, n) -> Printf.sprintf "TrJfifExt:%d,%d" (int_of_z c) (int_of_z n)
        | TrApp0 n -> Printf.sprintf "TrApp0:%d" (int_of_z n)
        | TrAdobe (v, a, b, t) -> Printf.sprintf "TrAdobe:%d,%d,%d,%d" (int_of_z v) (int_of_z a) (int_of_z b) (int_of_z t)
        | TrApp14 n -> Printf.sprintf "TrApp14:%d" (int_of_z n)
        | TrMisc (c, n) -> Printf.sprintf "TrMisc:%d,%d" (int_of_z c) (int_of_z n) in
      print_endline ("tr" ^ String.concat "" (List.concat_map (fun (c, d) -> List.map (fun e -> " " ^ ev e) (trace_marker cfg c d)) (segs_of ms)))
  | [ "nmscan"; hx ] ->
      (* next_marker over the header: (discarded_bytes, unread_marker) wherever bytes were discarded *)
      (match first_marker (unhex hx) with
       | FOk rest ->
           print_endline ("x" ^ String.concat "" (List.filter_map (fun (m, d) ->
               if int_of_z d > 0 then Some (Printf.sprintf " %d:%d" (int_of_z d) (int_of_z m)) else None) (scan_header (nat_of_int 100000) rest)))
       | _ -> print_endline "err")
  | [ "iccms"; ms ] ->
      (* marker list given directly: code:hex,...  (original_length = data length) *)
      let l = List.map (fun (c, d) -> { sm_code = c; sm_orig = z_of_int (zlen d); sm_data = d }) (segs_of ms) in
      let nicc = List.length (List.filter marker_is_icc l) in
      print_endline (icc_str (if nicc > 30 then read_icc_fast l else read_icc l))
  | [ "subsamp"; cs; comps ] ->
      let cl = List.map (fun it -> match List.map int_of_string (String.split_on_char '.' it) with
          | [a; b] -> (z_of_int a, z_of_int b) | _ -> failwith "samp") (split_on ',' comps) in
      print_endline (string_of_int (int_of_z (get_subsamp (cspace_of_int (int_of_string cs)) cl)))
  | [ "tjx"; sm; cn; wj; wa; dicc; hx ] ->
      (match unhex hx with
       | _ :: _ :: rest ->
           let smz = z_of_int (int_of_string sm) in
           (match read_app_markers (nat_of_int 100000) (copy_setup (tj_setup_option smz (cn = "1")) cfg_init) hinfo_init [] rest with
            | None -> print_endline "err"
            | Some ((_, ms), _) ->
                let segs = tj_transform_extras smz (cn = "1") (wj = "1") (wa = "1") ms (unhex dicc) in
                print_endline ("x" ^ String.concat "" (List.map (fun (c, d) ->
                    Printf.sprintf " m %d %d %s ;" (int_of_z c) (zlen d) (fnv d)) segs)))
       | _ -> print_endline "err")
  | _ -> print_endline "-")
