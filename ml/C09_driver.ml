(* C09 model driver: runs the extracted marker-level units on header bytes under a
   given partition and prints the same canonical line as `hdr` of harness/c09.c.
     m <savecfg> | <hex> | s1 s2 ... sn        (chunk sizes; the rest is delivered at once) *)
let hexbytes s =
  let n = String.length s / 2 in
  List.init n (fun i -> int_of_string ("0x" ^ String.sub s (2 * i) 2))
let rec chunks sizes l =
  match sizes with
  | [] -> if l = [] then [] else [l]
  | k :: t -> take k l :: chunks t (drop k l)
let fnv64 (l : int list) =
  List.fold_left (fun h b -> Int64.mul (Int64.logxor h (Int64.of_int b)) 0x100000001B3L) 0xCBF29CE484222325L l
let cfg sv =
  let procs = Array.of_list (List.map int_of_nat default_procs) and lims = Array.make 17 0 in
  (match sv with
   | 1 -> for i = 0 to 16 do procs.(i) <- 2; lims.(i) <- 0xFFFF done
   | 2 -> for i = 0 to 16 do procs.(i) <- 2; lims.(i) <- 9 done; lims.(0) <- 14; lims.(14) <- 12
   | 3 -> procs.(16) <- 2; lims.(16) <- 70000
   | _ -> ());
  (List.map nat_of_int (Array.to_list procs), List.map nat_of_int (Array.to_list lims))
let nthl l i = List.nth l i
let errname = function
  | E_SOI_DUPLICATE -> "SOI_DUPLICATE" | E_SOF_DUPLICATE -> "SOF_DUPLICATE" | E_EMPTY_IMAGE -> "EMPTY_IMAGE"
  | E_BAD_LENGTH -> "BAD_LENGTH" | E_SOS_NO_SOF -> "SOS_NO_SOF" | E_BAD_COMPONENT_ID -> "BAD_COMPONENT_ID"
  | E_BAD_HUFF_TABLE -> "BAD_HUFF_TABLE" | E_DHT_INDEX -> "DHT_INDEX" | E_DQT_INDEX -> "DQT_INDEX" | E_NO_SOI -> "NO_SOI"
  | E_SOF_UNSUPPORTED -> "SOF_UNSUPPORTED" | E_UNKNOWN_MARKER -> "UNKNOWN_MARKER" | E_ARITH_UNMODELLED -> "ARITH"
let show total s buf =
  let c = List.map il s.cells in
  let g r i = List.nth (List.nth c r) i in
  let b = Buffer.create 4096 in
  let nc = g 0 6 in
  Buffer.add_string b (Printf.sprintf "H %d %d %d %d %d %d %d ri %d |" (g 0 5) (g 0 4) (g 0 3) nc (g 0 0) (g 0 1) (g 0 2) (g 0 12));
  for ci = 0 to nc - 1 do Buffer.add_string b (Printf.sprintf " %d:%d:%d:%d" (g 1 ci) (g 2 ci) (g 3 ci) (g 4 ci)) done;
  let cis = g 0 7 in
  Buffer.add_string b (Printf.sprintf " | scan %d %d %d %d %d" cis (g 0 8) (g 0 9) (g 0 10) (g 0 11));
  for i = 0 to cis - 1 do
    let ci = g 7 i - 1 in
    Buffer.add_string b (Printf.sprintf " %d:%d:%d" ci (g 5 ci) (g 6 ci)) done;
  Buffer.add_string b " | q";
  for t = 0 to 3 do
    if g 12 t <> 0 then
      Buffer.add_string b (Printf.sprintf " %d:%s" t (String.concat "," (List.map string_of_int (List.nth c (8 + t))))) done;
  Buffer.add_string b " | dht";
  let rws = List.map il s.rows in
  for t = 0 to 7 do
    let base = if t < 4 then 2 * t else 8 + 2 * (t - 4) in
    let bits = List.nth rws base and vals = List.nth rws (base + 1) in
    if bits <> [] then
      Buffer.add_string b (Printf.sprintf " %d:%s:%s" t (String.concat "," (List.map string_of_int (List.tl bits)))
                             (String.concat "," (List.map string_of_int vals))) done;
  let j = il s.jfif and a = il s.adobe in
  Buffer.add_string b (Printf.sprintf " | jfif %d %d %d %d %d %d | adobe %d %d | warn %d | mk" (nthl j 0) (nthl j 1) (nthl j 2) (nthl j 3) (nthl j 4) (nthl j 5)
                         (nthl a 0) (nthl a 1) (List.length s.warnings));
  List.iter (fun m ->
      Buffer.add_string b (Printf.sprintf " %d:%d:%d:%016Lx" (int_of_z m.sv_marker) (int_of_nat m.sv_orig) (int_of_nat m.sv_dlen) (fnv64 (il m.sv_data))))
    s.marker_list;
  Buffer.add_string b (Printf.sprintf " | consumed %d | scans %d" (total - List.length buf) (int_of_z s.input_scan_number));
  print_endline (Buffer.contents b)
(* `s | <hex> | sizes` : parse the headers, then decode the first scan (sequential Huffman, single scan)
   with the MCU units under the given partition of the entropy-coded bytes *)
let cdiv a b = (a + b - 1) / b
let scan_case sw hex sizes =
  let bytes = hexbytes (String.trim hex) in
  match run_markers [zl bytes] (minit default_procs (List.map nat_of_int (Array.to_list (Array.make 17 0)))) with
  | Halted (s, buf) ->
      let c = List.map il s.cells in
      let g r i = List.nth (List.nth c r) i in
      let w = g 0 5 and h = g 0 4 and nc = g 0 6 and cis = g 0 7 and ri = g 0 12 in
      let hs = List.init nc (fun i -> g 2 i) and vs = List.init nc (fun i -> g 3 i) in
      let hmax = List.fold_left max 1 hs and vmax = List.fold_left max 1 vs in
      let comp i = g 7 i - 1 in
      let nblk, nmcu =
        if cis = 1 then
          let ci = comp 0 in
          ([1], cdiv (cdiv (w * List.nth hs ci) hmax) 8 * cdiv (cdiv (h * List.nth vs ci) vmax) 8)
        else (List.init cis (fun i -> List.nth hs (comp i) * List.nth vs (comp i)), cdiv w (8 * hmax) * cdiv h (8 * vmax)) in
      let bls = scan_blocks s (List.map nat_of_int nblk) in
      let data = il buf in
      let cs = List.map zl (chunks sizes data) in
      (match (if sw then run_scan_sw else run_scan) bls cs (hinit (nat_of_int cis) (z_of_int ri) (nat_of_int nmcu)) with
       | Halted (hs, _) ->
           let hsh = ref 0xCBF29CE484222325L in
           List.iter (fun mcu -> List.iter (fun blk -> List.iter (fun v ->
               let v = int_of_z v in
               for k = 0 to 3 do
                 hsh := Int64.mul (Int64.logxor !hsh (Int64.of_int ((v asr (8 * k)) land 255))) 0x100000001B3L done) blk) mcu) hs.h_out;
           Printf.printf "S nmcu=%d hash=%016Lx warn=%d\n" (List.length hs.h_out) !hsh (int_of_nat hs.h_warn)
       | Susp (hs, b, _) -> Printf.printf "S susp left=%d unread=%d\n" (int_of_nat hs.h_left) (List.length b)
       | Failed _ -> print_endline "S resync"
       | OutOfFuel -> print_endline "S fuel")
  | _ -> print_endline "S header"

(* `r Ss Se Al eobrun nblocks | bits16 | vals | coefficients | hex | sizes` : AC refinement scan units *)
let refine_case hd bits vals coefs hex sizes =
  match List.map int_of_string (List.tl (words hd)) with
  | [ ss; se; al; eob; nb ] ->
      let tbl = derive_dtbl (zl (0 :: ints bits)) (zl (ints vals)) in
      let cfg = { c_ss = nat_of_int ss; c_se = nat_of_int se; c_al = z_of_int al; c_tbl = tbl } in
      let cl = ints coefs in
      let blocks = List.init nb (fun i -> zl (take 64 (drop (64 * i) cl))) in
      let bytes = hexbytes (String.trim hex) in
      let cs = List.map zl (chunks (ints sizes) bytes) in
      let show s buf =
        let all = s.q_done @ s.q_todo in
        let hexz z = (* 64-bit register as hex *)
          let rec go z acc n = if n = 0 then acc else
            let (q, r) = (Z.div z (z_of_int 16), Z.modulo z (z_of_int 16)) in
            go q (Printf.sprintf "%x" (int_of_z r) ^ acc) (n - 1) in
          let sx = go z "" 16 in
          let i = ref 0 in while !i < 15 && sx.[!i] = '0' do incr i done; String.sub sx !i (16 - !i) in
        Printf.printf "R done=%d eob=%d bl=%d gb=%s um=%d consumed=%d |%s\n" (List.length s.q_done) (int_of_z s.q_eob) (int_of_z s.q_bl)
          (hexz s.q_gb) (int_of_z s.q_um) (List.length bytes - List.length buf)
          (String.concat "" (List.map (fun b -> String.concat "" (List.map (fun v -> " " ^ string_of_int (int_of_z v)) b)) all)) in
      (match run_refine cfg cs (qinit (z_of_int eob) blocks) with
       | Halted (s, buf) -> show s buf
       | Susp (s, buf, _) -> show s buf
       | Failed _ -> print_endline "R corrupt"
       | OutOfFuel -> print_endline "R fuel")
  | _ -> print_endline "?"

(* `q kind Ss Se Al eobrun nmcu bpm | bits16 | vals | initial DC values | hex | sizes` : DC first / AC first / DC refine units *)
let hex64 z =
  let rec go z acc n = if n = 0 then acc else
    let (q, r) = (Z.div z (z_of_int 16), Z.modulo z (z_of_int 16)) in go q (Printf.sprintf "%x" (int_of_z r) ^ acc) (n - 1) in
  let sx = go z "" 16 in
  let i = ref 0 in while !i < 15 && sx.[!i] = '0' do incr i done; String.sub sx !i (16 - !i)
let prog_case hd bits vals init hex sizes =
  match List.map int_of_string (List.tl (words hd)) with
  | [ kind; ss; se; al; eob; nm; bpm ] ->
      let tbl = derive_dtbl (zl (0 :: ints bits)) (zl (ints vals)) in
      let bytes = hexbytes (String.trim hex) in
      let cs = List.map zl (chunks (ints sizes) bytes) in
      let total = List.length bytes in
      let pr done_ eob bl gb um buf last vals =
        Printf.printf "Q done=%d eob=%d bl=%d gb=%s um=%d consumed=%d last=%s |%s\n" done_ eob (int_of_z bl) (hex64 gb) (int_of_z um)
          (total - List.length buf) (String.concat "," (List.map string_of_int last))
          (String.concat "" (List.map (fun v -> " " ^ string_of_int (int_of_z v)) vals)) in
      if kind = 3 then begin
        let iv = ints init in
        let mcus = List.init nm (fun i -> zl (take bpm (drop (bpm * i) iv))) in
        let show s buf = pr (List.length s.dq_done) eob s.dq_bl s.dq_gb s.dq_um buf (List.init bpm (fun _ -> 0)) (List.concat (s.dq_done @ s.dq_todo)) in
        match run_dc_refine (z_of_int al) cs (dq_init mcus) with
        | Halted (s, buf) -> show s buf | Susp (s, buf, _) -> show s buf | _ -> print_endline "Q fail"
      end else begin
        let show s buf = pr (List.length s.pq_out) (int_of_z s.pq_eob) s.pq_bl s.pq_gb s.pq_um buf (il s.pq_last) (List.concat s.pq_out) in
        let r = if kind = 1 then run_dc_first (List.init bpm (fun i -> (nat_of_int i, tbl))) (z_of_int al) cs (pq_init (nat_of_int bpm) (z_of_int eob) (nat_of_int nm))
                else run_ac_first tbl (z_of_int ss) (z_of_int se) (z_of_int al) cs (pq_init (nat_of_int bpm) (z_of_int eob) (nat_of_int nm)) in
        match r with
        | Halted (s, buf) -> show s buf | Susp (s, buf, _) -> show s buf | _ -> print_endline "Q fail"
      end
  | _ -> print_endline "?"

let () = iter_lines (fun line ->
  match fields line with
  | [ "s"; hex; sizes ] -> scan_case false hex (ints sizes)
  | [ "s2"; hex; sizes ] -> scan_case true hex (ints sizes)      (* with the decode_mcu_fast switch *)
  | [ hd; bits; vals; coefs; hex; sizes ] when String.length hd > 1 && hd.[0] = 'r' -> refine_case hd bits vals coefs hex sizes
  | [ hd; bits; vals; init; hex; sizes ] when String.length hd > 1 && hd.[0] = 'q' -> prog_case hd bits vals init hex sizes
  | [ hd; hex; sizes ] ->
      (match words hd with
       | [ "m"; sv ] ->
           let bytes = hexbytes (String.trim hex) in
           let procs, lims = cfg (int_of_string sv) in
           let cs = List.map zl (chunks (ints sizes) bytes) in
           (match run_markers cs (minit procs lims) with
            | Halted (s, buf) -> show (List.length bytes) s buf
            | Susp (s, buf, k) -> Printf.printf "H susp unread=%d skip=%d marker=%d\n" (List.length buf) (int_of_nat k) (int_of_z s.unread_marker)
            | Failed e -> Printf.printf "H err %s\n" (errname e)
            | OutOfFuel -> print_endline "H fuel")
       | _ -> print_endline "?")
  | _ -> print_endline "?")
