(* C03 model driver.  One case per line:
     jpg P NC W H PROG | h0 v0 .. | coef entries | scan ; scan ; ...
        coef entries as in harness/c03.c (c:b:k:v  D:c:v  A:c:k:v)
        scan := Ri Ss Se Ah Al ncs { c <tbl> <tbl> }*ncs hex     tbl := - | b1..b16 n v1..vn
     -> "E <hex|fail> ; E ... | D <sparse coefs|fail>"
        E: the model encoder's entropy-coded bytes of each scan, computed from the INPUT
           coefficient arrays;  D: coefficient arrays the model decoders recover from the
           REAL bytes of all scans in order.
     script NC P spec  ->  same output as the harness.
   The MCU layout (interleaved order, dummy blocks of jctrans.c compress_output) is
   glue written here; everything that codes bits is the extracted model. *)
open X_c03

let hex_of l = let b = Buffer.create 1024 in List.iter (fun x -> Buffer.add_string b (Printf.sprintf "%02x" x)) l; Buffer.contents b
let bytes_of_hex s = List.init (String.length s / 2) (fun i -> int_of_string ("0x" ^ String.sub s (2 * i) 2))
let cdiv a b = (a + b - 1) / b

let mk_codec (bits, vals) isdc =
  let b17 = zl (0 :: bits) in
  match make_c_derived b17 (zl vals) (z_of_int (if isdc then 15 else 255)),
        make_d_derived b17 (zl vals) isdc (z_of_int 15) with
  | Some c, Some d ->
      let tab = Array.init 256 (fun s -> encode_sym c (z_of_int s)) in
      { c_enc = (fun s -> let i = int_of_z s in if i < 0 || i > 255 then None else tab.(i));
        c_dec = (fun bs -> match decode_serial d (S O) bs with
                           | Some ((s, warn), rest) -> if warn then None else Some (s, rest)
                           | None -> None) }
  | _ -> failwith "bad table"

let no_codec = { c_enc = (fun _ -> None); c_dec = (fun _ -> None) }

(* token stream helpers *)
let rec take_n n l = if n = 0 then ([], l) else match l with x :: t -> let (a, b) = take_n (n - 1) t in (x :: a, b) | [] -> failwith "short"
let parse_tbl toks =
  match toks with
  | "-" :: rest -> (None, rest)
  | _ -> let (bits, r1) = take_n 16 toks in
         (match r1 with
          | n :: r2 -> let (vals, r3) = take_n (int_of_string n) r2 in
                       (Some (List.map int_of_string bits, List.map int_of_string vals), r3)
          | [] -> failwith "tbl")

type frame = { p : int; nc : int; w : int; h : int; prog : bool; hs : int array; vs : int array;
               wb : int array; hb : int array; wpad : int array; hpad : int array; hmax : int; vmax : int }

let parse_coefs fr txt =
  let arr = Array.init fr.nc (fun c -> Array.make (fr.wpad.(c) * fr.hpad.(c) * 64) 0) in
  let set c row col k v = arr.(c).((row * fr.wpad.(c) + col) * 64 + k) <- v in
  List.iter (fun t ->
    match String.split_on_char ':' t with
    | [ "D"; c; v ] -> let c = int_of_string c and v = int_of_string v in
        for r = 0 to fr.hb.(c) - 1 do for x = 0 to fr.wb.(c) - 1 do set c r x 0 v done done
    | [ "A"; c; k; v ] -> let c = int_of_string c and k = int_of_string k and v = int_of_string v in
        for r = 0 to fr.hb.(c) - 1 do for x = 0 to fr.wb.(c) - 1 do set c r x k v done done
    | [ c; b; k; v ] -> let c = int_of_string c and b = int_of_string b in
        set c (b / fr.wb.(c)) (b mod fr.wb.(c)) (int_of_string k) (int_of_string v)
    | _ -> ()) (words txt);
  arr

(* MCU layout of a scan: list of MCUs, each a list of (scan comp index, comp, row, col, real?) *)
let layout fr comps =
  match comps with
  | [ c ] ->
      List.concat (List.init fr.hb.(c) (fun r -> List.init fr.wb.(c) (fun x -> [ (0, c, r, x, true) ])))
  | _ ->
      let mpr = cdiv fr.w (8 * fr.hmax) and mrows = cdiv fr.h (8 * fr.vmax) in
      List.concat (List.init mrows (fun mr -> List.init mpr (fun mc ->
        List.concat (List.mapi (fun ci c ->
          List.concat (List.init fr.vs.(c) (fun y -> List.init fr.hs.(c) (fun x ->
            let r = mr * fr.vs.(c) + y and col = mc * fr.hs.(c) + x in
            (ci, c, r, col, r < fr.hb.(c) && col < fr.wb.(c)))))) comps))))

let get_block fr arr c r col = List.init 64 (fun k -> arr.(c).((r * fr.wpad.(c) + col) * 64 + k))
let put_block fr arr c r col (b : int list) = List.iteri (fun k v -> if k < 64 then arr.(c).((r * fr.wpad.(c) + col) * 64 + k) <- v) b

(* encoder input: real blocks from the arrays, dummy blocks = zero AC + DC of the previous block of the MCU *)
let enc_mcus fr arr lay =
  List.map (fun mcu ->
    let prev_dc = ref 0 in
    List.map (fun (_, c, r, col, real) ->
      let b = if real then get_block fr arr c r col else !prev_dc :: List.init 63 (fun _ -> 0) in
      prev_dc := List.hd b; zl b) mcu) lay

let cur_mcus fr arr lay = List.map (fun mcu -> List.map (fun (_, c, r, col, _) -> zl (get_block fr arr c r col)) mcu) lay
let store_mcus fr arr lay ms =
  List.iter2 (fun mcu bl -> List.iter2 (fun (_, c, r, col, _) b -> put_block fr arr c r col (il b)) mcu bl) lay ms

let do_jpg line =
  match fields line with
  | [ hd; samp; coefs; scans ] ->
      let hdw = words hd in
      let geti i = int_of_string (List.nth hdw i) in
      let p = geti 1 and nc = geti 2 and w = geti 3 and h = geti 4 and prog = geti 5 = 1 in
      let arith = List.length hdw > 6 && geti 6 = 1 in
      let sv = Array.of_list (ints samp) in
      let hs = Array.init nc (fun c -> sv.(2 * c)) and vs = Array.init nc (fun c -> sv.(2 * c + 1)) in
      let hmax = Array.fold_left max 1 hs and vmax = Array.fold_left max 1 vs in
      let wb = Array.init nc (fun c -> cdiv (w * hs.(c)) (hmax * 8)) and hb = Array.init nc (fun c -> cdiv (h * vs.(c)) (vmax * 8)) in
      let wpad = Array.init nc (fun c -> cdiv wb.(c) hs.(c) * hs.(c)) and hpad = Array.init nc (fun c -> cdiv hb.(c) vs.(c) * vs.(c)) in
      let fr = { p; nc; w; h; prog; hs; vs; wb; hb; wpad; hpad; hmax; vmax } in
      let src = parse_coefs fr coefs in
      let dst = Array.init nc (fun c -> Array.make (wpad.(c) * hpad.(c) * 64) 0) in
      let mcb = z_of_int (p + 2) in
      let dec_ok = ref true in
      let outs = List.map (fun sc ->
        let t = words sc in
        let (hd6, rest) = take_n 6 t in
        let (ri, ss, se, ah, al, ncs) = match List.map int_of_string hd6 with [ a; b; c; d; e; f ] -> (a, b, c, d, e, f) | _ -> failwith "scan" in
        let rec comps n toks acc = if n = 0 then (List.rev acc, toks) else
          match toks with
          | c :: r0 -> let (dt, r1) = parse_tbl r0 in let (at, r2) = parse_tbl r1 in
              let ci = int_of_string (List.hd (String.split_on_char ':' c)) in comps (n - 1) r2 ((ci, dt, at) :: acc)
          | [] -> failwith "comps" in
        (* arithmetic scans carry "comp:Td:Ta" (conditioning table numbers) instead of Huffman tables *)
        let tdta = List.filter_map (fun t -> match String.split_on_char ':' t with
                                             | [ _; td; ta; l; u; k ] -> Some (int_of_string td, int_of_string ta, int_of_string l, int_of_string u, int_of_string k)
                                             | [ _; td; ta ] -> Some (int_of_string td, int_of_string ta, 0, 1, 5) | _ -> None) rest in
        let (cl, rest2) = comps ncs rest [] in
        let hex = match rest2 with [ x ] -> x | [] -> "" | _ -> failwith "hex" in
        let real = zl (bytes_of_hex hex) in
        let dcs = Array.of_list (List.map (fun (_, dt, _) -> match dt with Some t -> mk_codec t true | None -> no_codec) cl) in
        let acs = Array.of_list (List.map (fun (_, _, at) -> match at with Some t -> mk_codec t false | None -> no_codec) cl) in
        let dct n = let i = int_of_nat n in if i < Array.length dcs then dcs.(i) else no_codec in
        let act n = let i = int_of_nat n in if i < Array.length acs then acs.(i) else no_codec in
        let complist = List.map (fun (c, _, _) -> c) cl in
        let lay = layout fr complist in
        let mem = match lay with m :: _ -> List.map (fun (ci, _, _, _, _) -> nat_of_int ci) m | [] -> [] in
        let ncomp = nat_of_int ncs and rin = nat_of_int ri in
        let em = enc_mcus fr src lay in
        let flat l = List.map (fun m -> match m with [ b ] -> b | _ -> failwith "AC scan with several blocks per MCU") l in
        let unflat l = List.map (fun b -> [ b ]) l in
        let nssn = nat_of_int ss and nsen = nat_of_int se and zal = z_of_int al in
        let cur () = cur_mcus fr dst lay in
        let acs_ = List.map (fun (td, ta, l, u, k) -> { a_dct = z_of_int td; a_act = z_of_int ta; a_L = z_of_int l; a_U = z_of_int u; a_K = z_of_int k }) tdta in
        let (e, d) =
          if arith then begin
            if not prog then
              (aseq_enc_scan acs_ mem ncomp rin em, aseq_dec_scan acs_ mem ncomp rin (nat_of_int (List.length lay)) real)
            else if ss = 0 then
              if ah = 0 then (adcf_enc_scan acs_ mem zal ncomp rin em, adcf_dec_scan acs_ mem zal ncomp rin (cur ()) real)
              else (adcr_enc_scan zal rin em, adcr_dec_scan zal rin (cur ()) real)
            else if ah = 0 then
              (aacf_enc_scan acs_ zal nssn nsen rin (flat em),
               (match aacf_dec_scan acs_ zal nssn nsen rin (flat (cur ())) real with Some l -> Some (unflat l) | None -> None))
            else
              (aacr_enc_scan acs_ zal nssn nsen (z_of_int ah) rin (flat em),
               (match aacr_dec_scan acs_ zal nssn nsen rin (flat (cur ())) real with Some l -> Some (unflat l) | None -> None))
          end else
          if not prog then
            (seq_enc_scan dct act mcb mem ncomp rin em,
             seq_dec_scan dct act mem ncomp rin (nat_of_int (List.length lay)) real)
          else if ss = 0 then
            if ah = 0 then (dcf_enc_scan dct mcb zal mem ncomp rin em, dcf_dec_scan dct zal mem ncomp rin (cur ()) real)
            else (dcr_enc_scan zal rin em, dcr_dec_scan zal rin (cur ()) real)
          else
            let ac = act O in
            if ah = 0 then
              (acf_enc_scan ac mcb nssn nsen zal rin (flat em),
               (match acf_dec_scan ac nssn nsen zal rin (flat (cur ())) real with Some l -> Some (unflat l) | None -> None))
            else
              (acr_enc_scan ac nssn nsen zal rin (flat em),
               (match acr_dec_scan ac nssn nsen zal rin (flat (cur ())) real with Some l -> Some (unflat l) | None -> None)) in
        (match d with Some ms when List.length ms = List.length lay -> store_mcus fr dst lay ms | _ -> dec_ok := false);
        match e with Some bytes -> "E " ^ hex_of (il bytes) | None -> "E fail") (String.split_on_char ';' scans) in
      let b = Buffer.create 4096 in
      Buffer.add_string b (String.concat " ; " outs);
      Buffer.add_string b " | D";
      if not !dec_ok then Buffer.add_string b " fail"
      else
        for c = 0 to nc - 1 do
          for r = 0 to hb.(c) - 1 do for x = 0 to wb.(c) - 1 do for k = 0 to 63 do
            let v = dst.(c).((r * wpad.(c) + x) * 64 + k) in
            if v <> 0 then Buffer.add_string b (Printf.sprintf " %d:%d:%d:%d" c (r * wb.(c) + x) k v)
          done done done
        done;
      print_endline (Buffer.contents b)
  | _ -> print_endline "?"

let parse_scans spec =
  if spec = "-" then [] else
  List.map (fun s ->
    match String.split_on_char ':' s with
    | [ cs; ss; se; ah; al ] ->
        { s_comps = zl (List.map int_of_string (List.filter (fun x -> x <> "") (String.split_on_char ',' cs)));
          s_Ss = z_of_int (int_of_string ss); s_Se = z_of_int (int_of_string se);
          s_Ah = z_of_int (int_of_string ah); s_Al = z_of_int (int_of_string al) }
    | _ -> failwith "scan spec") (String.split_on_char '/' spec)

let do_script line =
  match words line with
  | [ _; nc; p; spec ] ->
      (match validate_script (z_of_int (int_of_string nc)) (z_of_int (int_of_string p)) (parse_scans spec) with
       | Inl (E_BAD_SCAN_SCRIPT n) -> Printf.printf "err BAD_SCAN_SCRIPT %d\n" (int_of_z n)
       | Inl (E_COMPONENT_COUNT n) -> Printf.printf "err COMPONENT_COUNT %d\n" (int_of_z n)
       | Inl (E_BAD_PROG_SCRIPT n) -> Printf.printf "err BAD_PROG_SCRIPT %d\n" (int_of_z n)
       | Inl E_MISSING_DATA -> print_endline "err MISSING_DATA 0"
       | Inr (Sequential, _) -> print_endline "ok sequential"
       | Inr (Progressive, _) -> print_endline "ok progressive"
       | Inr (Lossless, _) -> print_endline "ok lossless")
  | _ -> print_endline "?"

let () = iter_lines (fun line ->
  try
    if String.length line >= 4 && String.sub line 0 4 = "jpg " then do_jpg line
    else if String.length line >= 7 && String.sub line 0 7 = "script " then do_script line
    else print_endline "?"
  with Failure m -> print_endline ("driver-error " ^ m) | Not_found -> print_endline "driver-error notfound"
     | Invalid_argument m -> print_endline ("driver-error " ^ m))
