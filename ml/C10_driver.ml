(* reads the kernel case lines of harness/c10.c ("k <op> ...") and prints the same result
   lines from the extracted Coq model; "enc"/"dec" lines (API oracle, no model) -> "-" *)
open X_c10
let rec chunk n l = if l = [] then [] else take n l :: chunk n (drop n l)
let pr l = pr_ints (il l)
let () = iter_lines (fun line ->
  match words line with
  | "k" :: op :: bits :: cs :: w :: h :: pitch :: bu :: _ ->
      let bits = int_of_string bits and cs = int_of_string cs and w = int_of_string w
      and h = int_of_string h and pitch = int_of_string pitch and bu = (int_of_string bu <> 0) in
      let fs = List.tl (fields line) in
      let lists = List.map (fun f -> zl (ints f)) fs in
      let nth k = List.nth lists k in
      let lay = cs_layout (z_of_int cs) in
      let p = prec_of_bits (z_of_int bits) in
      let amax = amax_of_bits (z_of_int bits) in
      let ptrs = rows (z_of_int pitch) (nat_of_int h) bu in
      let wn = nat_of_int w in
      let flat3 img = String.concat " | " (List.map (fun k -> pr (List.concat (plane (z_of_int k) img))) [0; 1; 2]) in
      let rowsof k width = chunk width (nth k) in
      let zip3 a b c = List.map2 (fun (x, y) z -> ((x, y), z)) (List.combine a b) c in
      let img3 () = List.map2 (fun (a, b) c -> zip3 a b c)
                      (List.combine (rowsof 0 w) (rowsof 1 w)) (rowsof 2 w) in
      (match op with
       | "c2y" -> Printf.printf "ok %s\n" (flat3 (rgb_ycc_convert p lay (nth 0) ptrs wn))
       | "c2g" -> Printf.printf "ok %s\n" (pr (List.concat (rgb_gray_convert p lay (nth 0) ptrs wn)))
       | "c2r" -> Printf.printf "ok %s\n" (flat3 (rgb_rgb_convert lay (nth 0) ptrs wn))
       | "y2c" -> Printf.printf "ok %s\n" (pr (ycc_rgb_convert p lay (img3 ()) (nth 3) ptrs))
       | "r2c" -> Printf.printf "ok %s\n" (pr (rgb_ext_convert amax lay (img3 ()) (nth 3) ptrs))
       | "r2g" -> Printf.printf "ok %s\n" (pr (rgb_gray_convert_d p (img3 ()) (nth 3) ptrs))
       | "y2g" -> Printf.printf "ok %s\n" (pr (grayscale_convert_d (img3 ()) (nth 3) ptrs))
       | "g2c" -> Printf.printf "ok %s\n" (pr (gray_rgb_convert amax lay (rowsof 0 w) (nth 1) ptrs))
       | "m1" | "m2" ->
           let cw = (w + 1) / 2 in
           let f = if op = "m1" then h2v1_rows else h2v2_rows in
           Printf.printf "ok %s\n" (pr (f p lay (take h (rowsof 0 w)) (rowsof 1 cw) (rowsof 2 cw) (nth 3) ptrs))
       | _ -> print_endline "err unknown")
  | _ -> print_endline "-")
