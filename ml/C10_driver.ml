(* reads the kernel case lines of harness/c10.c ("k <op> ...") and prints the same result
   lines from the extracted Coq model; "enc"/"dec" lines (API oracle, no model) -> "-" *)
open X_c10
let rec chunk n l = if l = [] then [] else take n l :: chunk n (drop n l)
let pr l = pr_ints (il l)
let () = iter_lines (fun line ->
  match words line with
  | "k" :: op :: bits :: cs :: w :: h :: pitch :: bu :: _ ->
      let bits = int_of_string bits and cs = int_of_string cs and w = int_of_string w
      and h = int_of_string h and pitch = int_of_string pitch and bu = (int_of_string bu <> 0) in
      let fs = List.tl (fields line) in
      let lists = List.map (fun f -> zl (ints f)) fs in
      let nth k = List.nth lists k in
      let lay = cs_layout (z_of_int cs) in
      let p = prec_of_bits (z_of_int bits) in
      let amax = amax_of_bits (z_of_int bits) in
      let ptrs = rows (z_of_int pitch) (nat_of_int h) bu in
      let wn = nat_of_int w in
      let flat3 img = String.concat " | " (List.map (fun k -> pr (List.concat (plane (z_of_int k) img))) [0; 1; 2]) in
      let rowsof k width = chunk width (nth k) in
      let zip3 a b c = List.map2 (fun (x, y) z -> ((x, y), z)) (List.combine a b) c in
      let img3 () = List.map2 (fun (a, b) c -> zip3 a b c)
                      (List.combine (rowsof 0 w) (rowsof 1 w)) (rowsof 2 w) in
      (match op with
       | "c2y" -> Printf.printf "ok %s\n" (flat3 (rgb_ycc_convert p lay (nth 0) ptrs wn))
       | "c2g" -> Printf.printf "ok %s\n" (pr (List.concat (rgb_gray_convert p lay (nth 0) ptrs wn)))
       | "c2r" -> Printf.printf "ok %s\n" (flat3 (rgb_rgb_convert lay (nth 0) ptrs wn))
       | "y2c" -> Printf.printf "ok %s\n" (pr (ycc_rgb_convert p lay (img3 ()) (nth 3) ptrs))
       | "r2c" -> Printf.printf "ok %s\n" (pr (rgb_ext_convert amax lay (img3 ()) (nth 3) ptrs))
       | "r2g" -> Printf.printf "ok %s\n" (pr (rgb_gray_convert_d p (img3 ()) (nth 3) ptrs))
       | "y2g" -> Printf.printf "ok %s\n" (pr (grayscale_convert_d (img3 ()) (nth 3) ptrs))
       | "g2c" -> Printf.printf "ok %s\n" (pr (gray_rgb_convert amax lay (rowsof 0 w) (nth 1) ptrs))
       | "c2k" ->
           let img = cmyk_ycck_convert p (nth 0) ptrs wn in
           let comp k = List.concat (List.map (List.map (fun (((a, b), c), d) -> match k with 0 -> a | 1 -> b | 2 -> c | _ -> d)) img) in
           Printf.printf "ok %s\n" (String.concat " | " (List.map (fun k -> pr (comp k)) [0; 1; 2; 3]))
       | "k2c" ->
           let zip4 a b c d = List.map2 (fun ((x, y), z) k -> (((x, y), z), k)) (zip3 a b c) d in
           let img4 = List.map2 (fun ((a, b), c) d -> zip4 a b c d)
                        (List.map2 (fun (a, b) c -> ((a, b), c)) (List.combine (rowsof 0 w) (rowsof 1 w)) (rowsof 2 w)) (rowsof 3 w) in
           Printf.printf "ok %s\n" (pr (ycck_cmyk_convert p img4 (nth 4) ptrs))
       | "y5" | "r5" | "g5" | "y5d" | "r5d" | "g5d" ->
           (* <bottomup> field = bu | mis<<1 | rows_per_call<<3 | first_scanline<<6 *)
           let fl = int_of_string (List.nth (words line) 7) in
           let bu5 = (fl land 1) <> 0 and mis = (fl lsr 1) land 3 and chunk = (fl lsr 3) land 7 and scan0 = (fl lsr 6) land 3 in
           let chunk = if chunk = 0 then h else chunk in
           let src = (match op.[0] with 'y' -> 0 | 'r' -> 1 | _ -> 2) in
           let dith = String.length op = 3 in
           let nin = if src = 2 then 1 else 3 in
           let img = if src = 2 then List.map (List.map (fun v -> ((v, Z0), Z0))) (rowsof 0 w) else img3 () in
           let ptrs5 = rows (z_of_int pitch) (nat_of_int h) bu5 in
           let rec go r0 buf =
             if r0 >= h then buf else
             let n = min chunk (h - r0) in
             go (r0 + n) (convert565 false (z_of_int src) dith (z_of_int mis) (z_of_int (scan0 + r0)) (z_of_int w)
                            (take n (drop r0 img)) buf (take n (drop r0 ptrs5))) in
           Printf.printf "ok %s\n" (pr (go 0 (nth nin)))
       | "m15" | "m25" | "m15d" | "m25d" ->
           (* merged upsampling to RGB565; <bottomup> field = bu | mis<<1 | _ | first_scanline<<6 *)
           let fl = int_of_string (List.nth (words line) 7) in
           let bu5 = (fl land 1) <> 0 and scan0 = (fl lsr 6) land 3 in
           let cw = (w + 1) / 2 in
           let ptrs5 = rows (z_of_int pitch) (nat_of_int h) bu5 in
           Printf.printf "ok %s\n" (pr (merged565 false (String.length op = 4) (op.[1] = '2') (z_of_int w) (z_of_int scan0)
                                         (take h (rowsof 0 w)) (rowsof 1 cw) (rowsof 2 cw) (nth 3) ptrs5))
       | "m1" | "m2" ->
           let cw = (w + 1) / 2 in
           let f = if op = "m1" then h2v1_rows else h2v2_rows in
           Printf.printf "ok %s\n" (pr (f p lay (take h (rowsof 0 w)) (rowsof 1 cw) (rowsof 2 cw) (nth 3) ptrs))
       | _ -> print_endline "err unknown")
  | _ -> print_endline "-")
