(* reads the same case lines as harness/c01.c and prints the same result lines
     hdr <hex>                 header parse + first-scan set-up on a memory source
     blk <dc bits1..16> | <dc vals> | <ac bits1..16> | <ac vals> | <hex entropy bytes>
*)
open X_c01

let hexval c = match c with
  | '0'..'9' -> Char.code c - 48 | 'a'..'f' -> Char.code c - 87 | 'A'..'F' -> Char.code c - 55 | _ -> 0
let bytes_of_hex s =
  let n = String.length s / 2 in
  List.init n (fun i -> hexval s.[2*i] * 16 + hexval s.[2*i+1])

(* small cache: bytes 0..255 as extracted Z *)
let ztab = Array.init 256 z_of_int
let zbytes l = List.map (fun b -> ztab.(b)) l

let hash l = List.fold_left (fun h x -> (h * 131 + x + 1) mod 1000000007) 7 l
let b2i b = if b then 1 else 0
let commas l = String.concat "," (List.map string_of_int l)

let err_name = function
  | E_INPUT_EMPTY -> "INPUT_EMPTY" | E_NO_SOI -> "NO_SOI" | E_SOI_DUPLICATE -> "SOI_DUPLICATE"
  | E_SOF_DUPLICATE -> "SOF_DUPLICATE" | E_SOF_UNSUPPORTED -> "SOF_UNSUPPORTED" | E_SOS_NO_SOF -> "SOS_NO_SOF"
  | E_SOF_NO_SOS -> "SOF_NO_SOS" | E_BAD_LENGTH -> "BAD_LENGTH" | E_EMPTY_IMAGE -> "EMPTY_IMAGE"
  | E_BAD_COMPONENT_ID -> "BAD_COMPONENT_ID" | E_DHT_INDEX -> "DHT_INDEX" | E_BAD_HUFF_TABLE -> "BAD_HUFF_TABLE"
  | E_DQT_INDEX -> "DQT_INDEX" | E_DAC_INDEX -> "DAC_INDEX" | E_DAC_VALUE -> "DAC_VALUE"
  | E_UNKNOWN_MARKER -> "UNKNOWN_MARKER" | E_IMAGE_TOO_BIG -> "IMAGE_TOO_BIG" | E_BAD_PRECISION -> "BAD_PRECISION"
  | E_COMPONENT_COUNT -> "COMPONENT_COUNT" | E_BAD_SAMPLING -> "BAD_SAMPLING" | E_BAD_MCU_SIZE -> "BAD_MCU_SIZE"
  | E_NO_QUANT_TABLE -> "NO_QUANT_TABLE" | E_NO_HUFF_TABLE -> "NO_HUFF_TABLE" | E_NO_ARITH_TABLE -> "NO_ARITH_TABLE"
  | E_BAD_PROGRESSION -> "BAD_PROGRESSION" | E_ARITH_NOTIMPL -> "ARITH_NOTIMPL" | E_BAD_RESTART -> "BAD_RESTART" | E_EOI_EXPECTED -> "EOI_EXPECTED"
  | E_OUT_OF_FUEL -> "MODEL_OUT_OF_FUEL"

let tbl_str = function
  | None -> "-"
  | Some (bits, vals) -> string_of_int (hash (il bits @ il vals))
let q_str = function None -> "-" | Some q -> string_of_int (hash (il q))

let tables_str h =
  Printf.sprintf "dc=%s ac=%s q=%s ar=%d"
    (String.concat "," (List.map tbl_str h.dc_tbls))
    (String.concat "," (List.map tbl_str h.ac_tbls))
    (String.concat "," (List.map q_str h.q_tbls))
    (hash (il h.ar_L @ il h.ar_U @ il h.ar_K))

let tail_str (s : io) =
  Printf.sprintf "w=%d eof=%d rem=%d ph=%d" (int_of_z s.warns) (int_of_z s.eofw)
    (List.length s.real) (b2i s.phase)

(* the index trace must be in range on every run (the theorem says so; this is
   a cheap run-time cross-check of the extracted code) *)
let trace_ok (s : io) = List.for_all (fun (i, b) -> let i = int_of_z i and b = int_of_z b in 0 <= i && i < b) s.trace

let header_str h su =
  let f = h.h_frame and sc = h.h_scan in
  let comps = f.f_comps in
  let carr = Array.of_list comps in
  let cs = String.concat "," (List.map (fun c -> Printf.sprintf "%d:%d:%d:%d" (int_of_z c.c_id) (int_of_z c.c_h)
                                          (int_of_z c.c_v) (int_of_z c.c_tq)) comps) in
  let scs = String.concat "," (List.map (fun ci -> let ci = int_of_z ci in
                                          let c = carr.(ci) in
                                          Printf.sprintf "%d:%d:%d" ci (int_of_z c.c_td) (int_of_z c.c_ta)) sc.s_cur) in
  let dims = String.concat "," (List.map2 (fun a b -> Printf.sprintf "%d:%d" (int_of_z a) (int_of_z b)) su.su_wib su.su_hib) in
  Printf.sprintf "OK fr=%d%d%d,%d,%d,%d,%d cs=%s sc=%d;%s;%d,%d,%d,%d ri=%d su=%d,%d,%d,%d;%s %s jf=%s ad=%s"
    (b2i f.f_prog) (b2i f.f_lossless) (b2i f.f_arith) (int_of_z f.f_prec) (int_of_z f.f_height) (int_of_z f.f_width)
    (int_of_z f.f_nc) cs (int_of_z sc.s_n) scs (int_of_z sc.s_Ss) (int_of_z sc.s_Se) (int_of_z sc.s_Ah) (int_of_z sc.s_Al)
    (int_of_z h.h_ri) (int_of_z su.su_maxh) (int_of_z su.su_maxv) (int_of_z su.su_irows) (b2i su.su_multi) dims
    (tables_str h) (commas (il h.h_jfif)) (commas (il h.h_adobe))

let run_hdr hex =
  let data = zbytes (bytes_of_hex hex) in
  match read_header_mem data with
  | Fail (e, s) -> Printf.printf "E %s w=%d%s\n" (err_name e) (int_of_z s.warns) (if trace_ok s then "" else " TRACE-OUT-OF-RANGE")
  | Susp -> print_endline "SUSP"
  | Done (TablesOnly h, s) -> Printf.printf "T %s %s%s\n" (tables_str h) (tail_str s) (if trace_ok s then "" else " TRACE-OUT-OF-RANGE")
  | Done (HeaderOK (h, su), s) ->
      let hs = header_str h su ^ " " ^ tail_str s in
      (match start_input_pass h su s with
       | Fail (e, s') -> Printf.printf "%s ## E %s w=%d%s\n" hs (err_name e) (int_of_z s'.warns) (if trace_ok s' then "" else " TRACE-OUT-OF-RANGE")
       | Susp -> Printf.printf "%s ## SUSP\n" hs
       | Done ((si, _), s') ->
           Printf.printf "%s ## ok %d,%d,%d;%s w=%d%s\n" hs (int_of_z si.si_mcus_per_row) (int_of_z si.si_mcu_rows)
             (int_of_z si.si_blocks) (commas (il si.si_member)) (int_of_z s'.warns) (if trace_ok s' then "" else " TRACE-OUT-OF-RANGE"))

(* entropy bytes -> bits, MSB first; the harness never puts FF into them *)
let bits_of_bytes l =
  List.concat (List.map (fun b -> List.init 8 (fun i -> (b lsr (7 - i)) land 1 = 1)) l)

let run_blk line =
  let fs = fields line in
  let dcb = 0 :: ints (List.nth fs 0) and dcv = ints (List.nth fs 1) in
  let acb = 0 :: ints (List.nth fs 2) and acv = ints (List.nth fs 3) in
  let data = bytes_of_hex (String.trim (List.nth fs 4)) in
  let pad l = l @ List.init (256 - List.length l) (fun _ -> 0) in
  match make_d_derived (zl dcb) (zl (pad dcv)) true (z_of_int 15), make_d_derived (zl acb) (zl (pad acv)) false (z_of_int 15) with
  | Some d, Some a ->
      (* after the data the real decoder meets the fake EOI and feeds zero bits *)
      let bits = bits_of_bytes data @ List.init 2048 (fun _ -> false) in
      (match decode_block d a bits with
       | BlkDone (st, _) ->
           let ks = List.rev_map (fun ((k, _), _) -> int_of_z k) st in
           let kmax = List.fold_left max 0 ks in
           Printf.printf "blk %s kmax=%d\n" (pr_ints (il (apply_stores st))) kmax
       | BlkSusp _ -> print_endline "blk susp"
       | BlkFuel _ -> print_endline "blk MODEL_OUT_OF_FUEL")
  | _ -> print_endline "blk badtable"

(* fblk: the whole decode_mcu of one block: fast path when >= 512 bytes, fall back to the slow
   (bit-level) model when the fast path met a marker *)
let run_fblk line =
  let fs = fields line in
  let dcb = 0 :: ints (List.nth fs 0) and dcv = ints (List.nth fs 1) in
  let acb = 0 :: ints (List.nth fs 2) and acv = ints (List.nth fs 3) in
  let data = bytes_of_hex (String.trim (List.nth fs 4)) in
  let pad l = l @ List.init (256 - List.length l) (fun _ -> 0) in
  match make_d_derived (zl dcb) (zl (pad dcv)) true (z_of_int 15), make_d_derived (zl acb) (zl (pad acv)) false (z_of_int 15) with
  | Some d, Some a ->
      (match decode_block_fast d a (fstate0 (zbytes data) []) with
       | FDone (st, s') when not s'.f_marker ->
           let maxrd = List.fold_left (fun m r -> max m (int_of_z r)) (-1) s'.f_reads in
           Printf.printf "fblk %s pos=%d bits=%d maxread=%d\n" (pr_ints (il (apply_stores st))) (int_of_z s'.f_pos) (List.length s'.f_bits) maxrd
       | FDone (_, _) ->
           (* marker seen by the prefetch: decode_mcu_fast returns FALSE, decode_mcu_slow starts over *)
           let rec unstuff = function
             | 255 :: 0 :: t -> 255 :: unstuff t
             | 255 :: 255 :: t -> unstuff (255 :: t)
             | 255 :: _ -> []
             | b :: t -> b :: unstuff t
             | [] -> [] in
           let bits = bits_of_bytes (unstuff data) @ List.init 2048 (fun _ -> false) in
           (match decode_block d a bits with
            | BlkDone (st, _) -> Printf.printf "fblk %s slow\n" (pr_ints (il (apply_stores st)))
            | _ -> print_endline "fblk susp")
       | FStuck -> print_endline "fblk MODEL_STUCK"
       | FFuel -> print_endline "fblk MODEL_OUT_OF_FUEL")
  | _ -> print_endline "fblk badtable"

(* one block of decode_mcu_AC_first / decode_mcu_AC_refine; JCOEF is a 16-bit store *)
let jcoef v = let w = ((v mod 65536) + 65536) mod 65536 in if w >= 32768 then w - 65536 else w
let run_prog refine rest =
  let fs = fields rest in
  let hd = ints (List.nth fs 0) in
  let ss = List.nth hd 0 and se = List.nth hd 1 and al = List.nth hd 2 in
  let eob, acb = if refine then List.nth hd 3, 0 :: drop 4 hd else 0, 0 :: drop 3 hd in
  let acv = ints (List.nth fs 1) in
  let blk0, data = if refine then ints (List.nth fs 2), bytes_of_hex (String.trim (List.nth fs 3))
                   else [], bytes_of_hex (String.trim (List.nth fs 2)) in
  let pad l = l @ List.init (256 - List.length l) (fun _ -> 0) in
  let tag = if refine then "prefine" else "pfirst" in
  let tr_ok tr = List.for_all (fun (i, b) -> let i = int_of_z i and b = int_of_z b in 0 <= i && i < b) tr in
  match make_d_derived (zl acb) (zl (pad acv)) false (z_of_int 15) with
  | None -> Printf.printf "%s error\n" tag
  | Some a ->
      let bits = bits_of_bytes data @ List.init 4096 (fun _ -> false) in
      if not refine then
        (match ac_first_loop (nat_of_int 64) a (z_of_int se) (z_of_int al) (z_of_int ss) bits [] [] with
         | PDone (e, tr, _, st) ->
             let blk = Array.make 64 0 in
             List.iter (fun (p, v) -> blk.(int_of_z p) <- jcoef (int_of_z v)) (List.rev st);
             Printf.printf "%s %s eob=%d%s\n" tag (pr_ints (Array.to_list blk)) (int_of_z e) (if tr_ok tr then "" else " TRACE-OUT-OF-RANGE")
         | PSusp _ -> Printf.printf "%s susp\n" tag
         | PFuel _ -> Printf.printf "%s MODEL_OUT_OF_FUEL\n" tag)
      else
        (match ac_refine_block a (z_of_int ss) (z_of_int se) (z_of_int al) (z_of_int eob) (zl blk0) bits with
         | RDone (blk, _, e, tr) -> Printf.printf "%s %s eob=%d%s\n" tag (pr_ints (List.map jcoef (il blk))) (int_of_z e) (if tr_ok tr then "" else " TRACE-OUT-OF-RANGE")
         | RSusp _ -> Printf.printf "%s susp\n" tag
         | RFuel _ -> Printf.printf "%s MODEL_OUT_OF_FUEL\n" tag)

(* aric <implementation line of harness/c01arith.c>: replay the logged decisions through the DArith model and print
   the statistics-bin offsets the model forms, MCU by MCU ("ari K=.. | D0 D1 .. A0 F0 ..") *)
let run_aric rest =
  match String.split_on_char '|' rest with
  | [hd; body] ->
      let hd = String.trim hd in
      let ks = List.map int_of_string (String.split_on_char ',' (String.sub hd 2 (String.length hd - 2))) in
      let toks = List.filter (fun x -> x <> "") (String.split_on_char ' ' (String.trim body)) in
      let parsed = Array.of_list (List.map (fun t ->
        let i = String.index t ':' in
        (t.[0], int_of_string (String.sub t 1 (i - 1)), t.[i + 1] = '1')) toks) in
      let nbits = Array.length parsed in
      let d n = let i = int_of_nat n in i < nbits && (let (_, _, b) = parsed.(i) in b) in
      let out = Buffer.create 1024 in
      let emit_dc tr = List.iter (fun (i, b) -> if int_of_z b = 64 then Buffer.add_string out (Printf.sprintf " D%d" (int_of_z i))) (List.rev tr) in
      let emit_ac tr = List.iter (fun (i, b) -> match int_of_z b with
        | 256 -> Buffer.add_string out (Printf.sprintf " A%d" (int_of_z i))
        | 4 -> Buffer.add_string out (Printf.sprintf " F%d" (int_of_z i))
        | _ -> ()) (List.rev tr) in
      let rec blocks ks n =
        match ks with
        | [] -> ()
        | k :: rest ->
            let pos = int_of_nat n in
            if pos >= nbits then () else
            let (kind, off, _) = parsed.(pos) in
            if kind <> 'D' then Buffer.add_string out " MODEL-EXPECTED-DC" else
            (match dc_decode d n (z_of_int off) false false [] with
             | DErr (_, tr) -> emit_dc tr
             | DFuel tr -> emit_dc tr; Buffer.add_string out " MODEL_OUT_OF_FUEL"
             | DOk (n1, _, tr) ->
                 emit_dc tr;
                 (match ac_decode (nat_of_int 64) d (fun kk -> int_of_z kk <= k) n1 (z_of_int 1) [] with
                  | DErr (_, tr2) -> emit_ac tr2
                  | DFuel tr2 -> emit_ac tr2; Buffer.add_string out " MODEL_OUT_OF_FUEL"
                  | DOk (n2, _, tr2) -> emit_ac tr2; blocks rest n2)) in
      blocks ks O;
      Printf.printf "ari %s |%s\n" hd (Buffer.contents out)
  | _ -> print_endline "ari ?"

(* coefc <header of a harness/c01coef.c line>: block positions of one MCU from model/DCoefPos.v *)
let run_coefc rest =
  let hd = String.trim (List.hd (String.split_on_char '|' rest)) in
  let kv = List.map (fun t -> match String.split_on_char '=' t with [a; b] -> (a, b) | _ -> (t, "")) (words hd) in
  let geti k = int_of_string (List.assoc k kv) in
  let comps = List.map (fun c -> match List.map int_of_string (String.split_on_char ':' c) with
                | ci :: h :: v :: _ -> ((z_of_int ci, z_of_int h), z_of_int v) | _ -> ((Z0, Z0), Z0))
                (String.split_on_char ',' (List.assoc "comps" kv)) in
  let pos = mcu_positions (geti "il" = 1) (z_of_int (geti "r")) (z_of_int (geti "yo")) (z_of_int (geti "m")) comps in
  Printf.printf "coef %s |%s\n" hd
    (String.concat "" (List.map (fun ((ci, row), col) -> Printf.sprintf " %d:%d:%d" (int_of_z ci) (int_of_z row) (int_of_z col)) pos))

let () = iter_lines (fun line ->
  let line = String.trim line in
  if String.length line >= 4 && String.sub line 0 4 = "hdr " then run_hdr (String.trim (String.sub line 4 (String.length line - 4)))
  else if line = "hdr" then run_hdr ""
  else if String.length line >= 4 && String.sub line 0 4 = "blk " then run_blk (String.sub line 4 (String.length line - 4))
  else if String.length line >= 6 && String.sub line 0 6 = "coefc " then run_coefc (String.sub line 6 (String.length line - 6))
  else if String.length line >= 5 && String.sub line 0 5 = "aric " then run_aric (String.sub line 5 (String.length line - 5))
  else if String.length line >= 7 && String.sub line 0 7 = "pfirst " then run_prog false (String.sub line 7 (String.length line - 7))
  else if String.length line >= 8 && String.sub line 0 8 = "prefine " then run_prog true (String.sub line 8 (String.length line - 8))
  else if String.length line >= 5 && String.sub line 0 5 = "fblk " then run_fblk (String.sub line 5 (String.length line - 5))
  else print_endline "?")
