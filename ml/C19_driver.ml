(* reads the same case lines as harness/c19.c and prints the same result lines *)
open X_c19
let bits_str bs = String.concat "" (List.map (fun b -> if b then "1" else "0") bs)
let () = iter_lines (fun line ->
  match words line with
  | "gen" :: rest ->
      let f = zl (List.map int_of_string rest) in
      (match gen_optimal_table f with
       | Inl ClenOverflow -> print_endline "err ClenOverflow"
       | Inl OutOfFuel -> print_endline "err OutOfFuel"
       | Inl IndexUnderflow -> print_endline "err IndexUnderflow"
       | Inr t -> Printf.printf "ok %s | %s\n" (pr_ints (il t.h_bits)) (pr_ints (il t.h_vals)))
  | cmd :: _ when cmd = "tbl" || cmd = "rt" ->
      let body = String.sub line (String.length cmd) (String.length line - String.length cmd) in
      let fs = fields body in
      let hd = ints (List.nth fs 0) in
      let isdc = List.nth hd 0 = 1 and lossless = List.nth hd 1 = 1 in
      let bits = 0 :: drop 2 hd in
      let vals = ints (List.nth fs 1) in
      let maxdc = if lossless then 16 else 15 in
      let maxsym = if isdc then maxdc else 255 in
      let ct = make_c_derived (zl bits) (zl vals) (z_of_int maxsym) in
      let dt = make_d_derived (zl bits) (zl vals) isdc (z_of_int maxdc) in
      if cmd = "tbl" then begin
        let b = Buffer.create 4096 in
        (match ct with
         | None -> Buffer.add_string b "c bad"
         | Some c ->
             Buffer.add_string b "c ok";
             let co = Array.of_list (il c.ehufco) and si = Array.of_list (il c.ehufsi) in
             for i = 0 to 255 do Buffer.add_string b (Printf.sprintf " %d:%d" co.(i) si.(i)) done);
        (match dt with
         | None -> Buffer.add_string b " ; d bad"
         | Some d ->
             Buffer.add_string b " ; d ok ";
             Buffer.add_string b (pr_ints (drop 1 (il d.maxcode)));
             Buffer.add_string b " / ";
             Buffer.add_string b (pr_ints (drop 1 (il d.valoffset)));
             Buffer.add_string b " / ";
             Buffer.add_string b (pr_ints (il d.lookup)));
        print_endline (Buffer.contents b)
      end else begin
        let syms = ints (List.nth fs 2) in
        match ct, dt with
        | Some c, Some d ->
            let enc = List.map (fun s -> encode_sym c (z_of_int s)) syms in
            if List.exists (fun e -> e = None) enc then begin
              (* print the bits up to the first codeless symbol like the harness *)
              let rec upto = function Some b :: t -> b @ upto t | _ -> [] in
              Printf.printf "bits %s nocode\n" (bits_str (upto enc))
            end else begin
              let bs = List.concat (List.map (function Some b -> b | None -> []) enc) in
              (* the harness pads with zero bits / 32 zero bytes *)
              let padded = bs @ List.init 300 (fun _ -> false) in
              let rec dec n bits acc =
                if n = 0 then Some (List.rev acc) else
                match decode_lookahead d bits with
                | None -> None
                | Some ((s, _), rest) -> dec (n - 1) rest (int_of_z s :: acc) in
              match dec (List.length syms) padded [] with
              | None -> Printf.printf "bits %s ; suspended\n" (bits_str bs)
              | Some out -> Printf.printf "bits %s ; dec %s\n" (bits_str bs) (pr_ints out)
            end
        | _ -> print_endline "bad"
      end
  | [ "nbits"; lo; hi ] ->
      let lo = int_of_string lo and hi = int_of_string hi in
      let b = Buffer.create 65536 in
      Buffer.add_string b "nb";
      for x = lo to hi do Buffer.add_string b (" " ^ string_of_int (int_of_z (nbits (z_of_int x)))) done;
      print_endline (Buffer.contents b)
  | "ms" :: _ -> print_endline "ms -"
  | _ -> print_endline "?")
