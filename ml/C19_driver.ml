(* reads the same case lines as harness/c19.c and prints the same result lines *)
open X_c19
let bits_str bs = String.concat "" (List.map (fun b -> if b then "1" else "0") bs)
(* ---- symbol statistics (model/HuffSym.v), same protocol as harness/c19sym*.c ---- *)
exception Guard
let parse_group g =
  match words g with
  | w :: rest when String.length w > 0 && w.[0] = '*' ->
      (int_of_string (String.sub w 1 (String.length w - 1)), List.map int_of_string rest)
  | ws -> (1, List.map int_of_string ws)
let groups line cmd =
  let body = String.sub line (String.length cmd) (String.length line - String.length cmd) in
  List.filter (fun (_, l) -> l <> []) (List.map parse_group (String.split_on_char ';' body))
let pr_counts syms =
  let c = il (count_syms syms) in
  let b = Buffer.create 256 in
  List.iteri (fun i x -> if x <> 0 then Buffer.add_string b (Printf.sprintf " %d:%d" i x)) c;
  Buffer.contents b
let rec sub_list l lo hi i = match l with
  | [] -> [] | x :: t -> if i > hi then [] else if i >= lo then x :: sub_list t lo hi (i + 1) else sub_list t lo hi (i + 1)
let do_hs line =
  match groups line "hs" with
  | (_, [prec]) :: blocks ->
      (try
        let dc = ref [] and ac = ref [] in
        List.iter (fun (rep, l) ->
          match l with
          | ld :: zz when List.length zz = 64 ->
              (match htest_one_block (z_of_int prec) (z_of_int ld) (zl zz) with
               | None -> raise Guard
               | Some (s, a) -> for _ = 1 to rep do dc := s :: !dc; ac := List.rev_append a !ac done)
          | _ -> failwith "bad") blocks;
        Printf.printf "hs dc%s | ac%s\n" (pr_counts !dc) (pr_counts !ac)
      with Guard -> print_endline "hs err" | Failure _ -> print_endline "?")
  | _ -> print_endline "?"
let do_hp line =
  match groups line "hp" with
  | (_, [prec; ss; se; ah; al; ri]) :: blocks ->
      (try
        let st = ref pstate0 and ld = ref Z0 and idx = ref 0 and syms = ref [] in
        let add l = syms := List.rev_append l !syms in
        List.iter (fun (rep, zz) ->
          if List.length zz <> 64 then failwith "bad";
          let zzz = zl zz in
          let band = sub_list zzz ss se 0 in
          for _ = 1 to rep do
            if ri > 0 && !idx > 0 && !idx mod ri = 0 then begin
              (match emit_eobrun !st with None -> raise Guard | Some (l, _) -> add l);
              st := pstate0; ld := Z0
            end;
            (if ss = 0 then begin
               if ah = 0 then
                 match dc_first_symbol (z_of_int prec) (z_of_int al) (List.hd zzz) !ld with
                 | None -> raise Guard
                 | Some (s, l') -> add [s]; ld := l'
             end else begin
               let r = if ah = 0 then ac_first_mcu (z_of_int prec) (z_of_int al) !st band
                       else ac_refine_mcu (z_of_int al) !st band in
               match r with None -> raise Guard | Some (l, st') -> add l; st := st'
             end);
            incr idx
          done) blocks;
        let e = int_of_z (!st).eobrun and b = int_of_z (!st).be in
        (match emit_eobrun !st with None -> raise Guard | Some (l, _) -> add l);
        Printf.printf "hp eobrun %d be %d |%s\n" e b (pr_counts !syms)
      with Guard -> print_endline "hp err" | Failure _ -> print_endline "?")
  | _ -> print_endline "?"
let do_hl line =
  let ds = List.map int_of_string (List.tl (words line)) in
  (try
    let syms = List.map (fun d -> match lossless_symbol (z_of_int d) with None -> raise Guard | Some s -> s) ds in
    Printf.printf "hl%s\n" (pr_counts syms)
  with Guard -> print_endline "hl err")

let () = iter_lines (fun line ->
  match words line with
  | "hs" :: _ -> do_hs line
  | "hp" :: _ -> do_hp line
  | "hl" :: _ -> do_hl line
  | "gen" :: rest ->
      let f = zl (List.map int_of_string rest) in
      (match gen_optimal_table f with
       | Inl ClenOverflow -> print_endline "err ClenOverflow"
       | Inl OutOfFuel -> print_endline "err OutOfFuel"
       | Inl IndexUnderflow -> print_endline "err IndexUnderflow"
       | Inr t -> Printf.printf "ok %s | %s\n" (pr_ints (il t.h_bits)) (pr_ints (il t.h_vals)))
  | cmd :: _ when cmd = "tbl" || cmd = "rt" ->
      let body = String.sub line (String.length cmd) (String.length line - String.length cmd) in
      let fs = fields body in
      let hd = ints (List.nth fs 0) in
      let isdc = List.nth hd 0 = 1 and lossless = List.nth hd 1 = 1 in
      let bits = 0 :: drop 2 hd in
      let vals = ints (List.nth fs 1) in
      let maxdc = if lossless then 16 else 15 in
      let maxsym = if isdc then maxdc else 255 in
      let ct = make_c_derived (zl bits) (zl vals) (z_of_int maxsym) in
      let dt = make_d_derived (zl bits) (zl vals) isdc (z_of_int maxdc) in
      if cmd = "tbl" then begin
        let b = Buffer.create 4096 in
        (match ct with
         | None -> Buffer.add_string b "c bad"
         | Some c ->
             Buffer.add_string b "c ok";
             let co = Array.of_list (il c.ehufco) and si = Array.of_list (il c.ehufsi) in
             for i = 0 to 255 do Buffer.add_string b (Printf.sprintf " %d:%d" co.(i) si.(i)) done);
        (match dt with
         | None -> Buffer.add_string b " ; d bad"
         | Some d ->
             Buffer.add_string b " ; d ok ";
             Buffer.add_string b (pr_ints (drop 1 (il d.maxcode)));
             Buffer.add_string b " / ";
             Buffer.add_string b (pr_ints (drop 1 (il d.valoffset)));
             Buffer.add_string b " / ";
             Buffer.add_string b (pr_ints (il d.lookup)));
        print_endline (Buffer.contents b)
      end else begin
        let syms = ints (List.nth fs 2) in
        match ct, dt with
        | Some c, Some d ->
            let enc = List.map (fun s -> encode_sym c (z_of_int s)) syms in
            if List.exists (fun e -> e = None) enc then begin
              (* print the bits up to the first codeless symbol like the harness *)
              let rec upto = function Some b :: t -> b @ upto t | _ -> [] in
              Printf.printf "bits %s nocode\n" (bits_str (upto enc))
            end else begin
              let bs = List.concat (List.map (function Some b -> b | None -> []) enc) in
              (* the harness pads with zero bits / 32 zero bytes *)
              let padded = bs @ List.init 300 (fun _ -> false) in
              let rec dec n bits acc =
                if n = 0 then Some (List.rev acc) else
                match decode_lookahead d bits with
                | None -> None
                | Some ((s, _), rest) -> dec (n - 1) rest (int_of_z s :: acc) in
              match dec (List.length syms) padded [] with
              | None -> Printf.printf "bits %s ; suspended\n" (bits_str bs)
              | Some out -> Printf.printf "bits %s ; dec %s\n" (bits_str bs) (pr_ints out)
            end
        | _ -> print_endline "bad"
      end
  | [ "nbits"; lo; hi ] ->
      let lo = int_of_string lo and hi = int_of_string hi in
      let b = Buffer.create 65536 in
      Buffer.add_string b "nb";
      for x = lo to hi do Buffer.add_string b (" " ^ string_of_int (int_of_z (nbits (z_of_int x)))) done;
      print_endline (Buffer.contents b)
  | "ms" :: _ -> print_endline "ms -"
  | "tn" :: _ -> print_endline "tn -"
  | "tw" :: _ -> print_endline "tw -"
  | _ -> print_endline "?")
