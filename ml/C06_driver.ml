(* C06 driver: one case per line
     xf <path> <n> { op perfect trim gray crop cw cwset ch chset cx cxset cy cyset }*n | <image>
     <image> = W H CS NC { 0 | 1 q*64 }*4 (final slot contents) { hs vs wb hb tq q*64 (latched table) coef*(wb*hb*64) }*NC
   path: tj (tj3Transform wrapper, n >= 1) | jt (jtransform_* sequence, n = 1)
   prints  "err <name>"  or  "ok | <image dump> | <image dump> ..."                      *)
open X_c06
let op_of = function 0 -> XNone | 1 -> XFlipH | 2 -> XFlipV | 3 -> XTranspose | 4 -> XTransverse
                   | 5 -> XRot90 | 6 -> XRot180 | _ -> XRot270
let oset_of = function 0 -> OUnset | 1 -> OPos | _ -> ONeg
let err_name = function ENotPerfect -> "NotPerfect" | EBadCrop -> "BadCrop" | ECropExt -> "CropExt"
                      | ENoGray -> "NoGray" | EAlign -> "Align" | EQuantReuse -> "QuantReuse" | EUnknownSubsamp -> "UnknownSubsamp"
let sentinel = List.init 64 (fun _ -> z_of_int 7777)   (* = the harness's fill of source padding blocks *)

let parse_image (a : int array) =
  let pos = ref 0 in
  let next () = let v = a.(!pos) in incr pos; v in
  let w = next () in let h = next () in let cs = next () in let nc = next () in
  let slots = List.init 4 (fun _ -> 0) |> List.map (fun _ ->
    if next () = 1 then List.init 64 (fun _ -> 0) |> List.map (fun _ -> z_of_int (next ())) else []) in
  let comps = List.init nc (fun _ -> 0) |> List.map (fun _ ->
    let hs = next () in let vs = next () in let wb = next () in let hb = next () in let tq = next () in
    let q = List.init 64 (fun _ -> 0) |> List.map (fun _ -> z_of_int (next ())) in
    let blocks = Array.make (wb * hb) [] in
    for i = 0 to wb * hb - 1 do
      let l = ref [] in
      for _ = 0 to 63 do l := z_of_int (next ()) :: !l done;
      blocks.(i) <- List.rev !l
    done;
    let f x y =
      let xi = int_of_z x and yi = int_of_z y in
      if xi >= 0 && xi < wb && yi >= 0 && yi < hb then blocks.(yi * wb + xi) else sentinel in
    { c_hs = z_of_int hs; c_vs = z_of_int vs; c_wb = z_of_int wb; c_hb = z_of_int hb; c_tq = z_of_int tq; c_q = q; c_blk = f }) in
  { i_w = z_of_int w; i_h = z_of_int h; i_cs = z_of_int cs; i_slots = slots; i_comps = comps }

let dump_image b im =
  Buffer.add_string b (Printf.sprintf "%d %d %d %d" (int_of_z im.i_w) (int_of_z im.i_h) (int_of_z im.i_cs) (List.length im.i_comps));
  List.iteri (fun si q ->
    if q <> [] && List.exists (fun c -> int_of_z c.c_tq = si) im.i_comps then begin
      Buffer.add_string b " 1";
      List.iter (fun v -> Buffer.add_char b ' '; Buffer.add_string b (string_of_int (int_of_z v))) q
    end else Buffer.add_string b " 0") im.i_slots;
  List.iter (fun c ->
    let wb = int_of_z c.c_wb and hb = int_of_z c.c_hb in
    Buffer.add_string b (Printf.sprintf " %d %d %d %d %d" (int_of_z c.c_hs) (int_of_z c.c_vs) wb hb (int_of_z c.c_tq));
    List.iter (fun v -> Buffer.add_char b ' '; Buffer.add_string b (string_of_int (int_of_z v))) c.c_q;
    for y = 0 to hb - 1 do for x = 0 to wb - 1 do
      let blk = c.c_blk (z_of_int x) (z_of_int y) in
      List.iter (fun v -> Buffer.add_char b ' '; Buffer.add_string b (string_of_int (int_of_z v))) blk
    done done) im.i_comps

let () = iter_lines (fun line ->
  match words line with
  | "ss" :: jcs :: nc :: rest ->
    (* ss <jpeg_color_space> <nc> {hs vs}*nc : getSubsamp() *)
    let r = Array.of_list (List.map int_of_string rest) in
    let facs = List.init (int_of_string nc) (fun i -> (z_of_int r.(2 * i), z_of_int r.(2 * i + 1))) in
    Printf.printf "ss %d\n" (int_of_z (get_subsamp_l (z_of_int (int_of_string jcs)) facs))
  | _ ->
  match fields line with
  | [ hd; img ] ->
    (match words hd with
     | "xf" :: path :: n :: rest ->
       let n = int_of_string n in
       let r = Array.of_list (List.map int_of_string rest) in
       let im = parse_image (Array.of_list (ints img)) in
       let b = Buffer.create 65536 in
       let g i k = r.(i * 13 + k) in
       if path = "tj" then begin
         let ts = List.init n (fun i ->
           { t_op = op_of (g i 0); t_perfect = g i 1 = 1; t_trim = g i 2 = 1; t_gray = g i 3 = 1; t_crop = g i 4 = 1;
             t_x = z_of_int (g i 9); t_y = z_of_int (g i 11); t_w = z_of_int (g i 5); t_h = z_of_int (g i 7) }) in
         (* tj3TransformBufSize of every request first, then the transform *)
         let bs = String.concat " " (List.map (fun t -> string_of_int (int_of_z (tj_transform_buf_size im t))) ts) in
         match tj_transform2 im ts with
         | Inl e -> print_endline ("bs " ^ bs ^ " ; err " ^ err_name e)
         | Inr outs ->
           Buffer.add_string b ("bs " ^ bs ^ " ; ok");
           List.iter (fun o -> Buffer.add_string b " | "; dump_image b o) outs;
           print_endline (Buffer.contents b)
       end else begin
         let o = { xo_op = op_of (g 0 0); xo_perfect = g 0 1 = 1; xo_trim = g 0 2 = 1; xo_gray = g 0 3 = 1;
                   xo_crop = (if g 0 4 = 1 then
                                Some { cr_w = z_of_int (g 0 5); cr_wset = g 0 6 = 1; cr_h = z_of_int (g 0 7); cr_hset = g 0 8 = 1;
                                       cr_x = z_of_int (g 0 9); cr_xset = oset_of (g 0 10);
                                       cr_y = z_of_int (g 0 11); cr_yset = oset_of (g 0 12) }
                              else None);
                   xo_slow = false } in
         match transform2 im o with
         | Inl e -> print_endline ("err " ^ err_name e)
         | Inr out ->
           Buffer.add_string b "ok | "; dump_image b out;
           if path = "inj" then begin
             (* whole destination arrays incl. the padding strips the loop nests write *)
             Buffer.add_string b " | pad";
             (match transform_pad im o with
              | Inl _ -> ()
              | Inr l -> List.iter (fun ((wit, hit), arr) ->
                  let wi = int_of_z wit and hi = int_of_z hit in
                  Buffer.add_string b (Printf.sprintf " %d %d" wi hi);
                  for y = 0 to hi - 1 do for x = 0 to wi - 1 do
                    match arr (z_of_int x) (z_of_int y) with
                    | Some blk -> List.iter (fun v -> Buffer.add_char b ' '; Buffer.add_string b (string_of_int (int_of_z v))) blk
                    | None -> Buffer.add_string b " undefined"
                  done done) l)
           end;
           print_endline (Buffer.contents b)
       end
     | _ -> print_endline "?")
  | _ -> print_endline "?")
