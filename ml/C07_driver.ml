(* reads the same case lines as harness/c07.c and prints the same result lines,
   computed by the extracted Coq model (coq/model/Quant.v, coq/model/Dct.v) *)
open X_c07
let mk b dw mw s = { c_bits = z_of_int b; c_dw = z_of_int dw; c_mw = z_of_int mw; c_simd = s }
let cf = ref (mk 8 16 16 true)
let bits () = int_of_z (!cf).c_bits
let simd () = (!cf).c_simd
let zs l = pr_ints (il l)
let rep64 x = List.init 64 (fun _ -> x)
let simd_flag b = if bits () = 8 && simd () then (if b then 1 else 0) else -1
let () = iter_lines (fun line ->
  match words line with
  | ["cfg"; b; dw; mw; s] ->
      cf := mk (int_of_string b) (int_of_string dw) (int_of_string mw) (s = "1");
      Printf.printf "cfg %s %s %s %s\n" b dw mw s
  | ["recip"; d] ->
      (match compute_reciprocal !cf (z_of_int (int_of_string d)) with
       | None -> print_endline "recip trap"
       | Some r -> Printf.printf "recip %d %d %d %d %d\n" (int_of_z r.r_ret) (int_of_z r.r_recip) (int_of_z r.r_corr) (int_of_z r.r_scale) (int_of_z r.r_shift))
  | "quant" :: d :: xs ->
      (match compute_reciprocal !cf (z_of_int (int_of_string d)) with
       | None -> print_endline "quant trap"
       | Some r ->
           let xs = List.map (fun s -> z_of_int (int_of_string s)) xs in
           let ys = List.map (quantize_recip_one !cf r) xs in
           let pre l = String.concat "" (List.map (fun z -> " " ^ string_of_int (int_of_z z)) l) in
           if simd () && int_of_z r.r_ret = 1 then
             Printf.printf "quant%s |%s\n" (pre ys) (pre (List.map (quantize_simd_one r) xs))
           else Printf.printf "quant%s\n" (pre ys))
  | "qsweep" :: _ -> print_endline "qsweep ok"
  | "divs" :: qs when List.length qs = 64 ->
      (match start_pass_divisors !cf (zl (List.map int_of_string qs)) with
       | None -> print_endline "divs trap"
       | Some ds ->
           if bits () = 8 then begin
             let g f = List.map (fun d -> match d with DRecip r -> int_of_z (f r) | DDiv q -> int_of_z q) ds in
             Printf.printf "divs %s %s %s %s\n" (pr_ints (g (fun r -> r.r_recip))) (pr_ints (g (fun r -> r.r_corr)))
               (pr_ints (g (fun r -> r.r_scale))) (pr_ints (g (fun r -> r.r_shift)))
           end else
             Printf.printf "divs %s\n" (pr_ints (List.map (fun d -> match d with DDiv q -> int_of_z q | DRecip r -> 0) ds)))
  | "fdct" :: vs when List.length vs = 64 ->
      Printf.printf "fdct %s | simd=%d\n" (zs (fdct_islow !cf (zl (List.map int_of_string vs)))) (simd_flag true)
  | cmd :: _ when cmd = "idct" || cmd = "rt" ->
      let body = String.sub line (String.length cmd) (String.length line - String.length cmd) in
      (match fields body with
       | [a; b] when List.length (words a) = 64 && List.length (words b) = 64 ->
           let a = zl (ints a) and q = zl (ints b) in
           if cmd = "idct" then begin
             let mt = dct_table !cf q in
             Printf.printf "idct %s | %s | simd=%d\n" (zs mt) (zs (idct_islow !cf a mt)) (simd_flag true)
           end else begin
             match forward_block !cf q a with
             | None -> print_endline "rt trap"
             | Some coefs -> Printf.printf "rt %s | %s | %s | simd=%d\n" (zs (fdct_islow !cf (convsamp !cf a))) (zs coefs) (zs (inverse_block !cf q coefs)) (simd_flag true)
           end
       | _ -> Printf.printf "%s badcase\n" cmd)
  | cmd :: _ when cmd = "redge" || cmd = "bedge" ->
      let body = String.sub line 5 (String.length line - 5) in
      (match fields body with
       | [hd; smp] ->
           (match ints hd with
            | [nr; rl; a2; a3; a4] ->
                let v = Array.of_list (ints smp) in
                let rows = List.init nr (fun r -> List.init rl (fun c -> let k = r * rl + c in z_of_int (if k < Array.length v then v.(k) else 0))) in
                let res = if cmd = "redge" then expand_right_edge rows (nat_of_int a2) (nat_of_int a3) (nat_of_int a4)
                          else expand_bottom_edge rows (nat_of_int a2) (nat_of_int a3) (nat_of_int a4) in
                Printf.printf "%s %s\n" cmd (pr_ints (List.concat (List.map il res)))
            | _ -> print_endline "badcase")
       | _ -> print_endline "badcase")
  | ["rlt"; lo; hi] ->
      let lo = int_of_string lo and hi = int_of_string hi in
      let mask = int_of_z (maxsample !cf) * 4 + 3 in
      let b = Buffer.create 4096 in
      for k = lo to min hi mask do Buffer.add_string b (Printf.sprintf " %d" (int_of_z (range_limit_entry !cf (z_of_int k)))) done;
      Printf.printf "rlt%s\n" (Buffer.contents b)
  | _ -> print_endline "unknown")
