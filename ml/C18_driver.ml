(* reads the same case lines as harness/c18.c (load / save) and prints the same result lines *)


(* cmyk.h, double arithmetic exactly as in C (IEEE binary64, no contraction) *)
let rgb_to_cmyk maxval r g b =
  let mv = float_of_int (int_of_z maxval) in
  let f x = float_of_int (int_of_z x) in
  let ctmp = 1.0 -. (f r /. mv) and mtmp = 1.0 -. (f g /. mv) and ytmp = 1.0 -. (f b /. mv) in
  let mn a b = if a < b then a else b in
  let ktmp = mn (mn ctmp mtmp) ytmp in
  let (c, m, y) =
    if ktmp = 1.0 then (0.0, 0.0, 0.0)
    else ((ctmp -. ktmp) /. (1.0 -. ktmp), (mtmp -. ktmp) /. (1.0 -. ktmp), (ytmp -. ktmp) /. (1.0 -. ktmp)) in
  let q t = z_of_int (truncate (mv -. t *. mv +. 0.5)) in
  [q c; q m; q y; q ktmp]

let cmyk_to_rgb maxval c m y k =
  let mv = float_of_int (int_of_z maxval) in
  let f x = float_of_int (int_of_z x) in
  let q a = z_of_int (truncate (f a *. f k /. mv +. 0.5)) in
  ((q c, q m), q y)

let hexval c = if c <= '9' then Char.code c - 48 else (Char.code c lor 32) - 87
let unhex s =
  let n = String.length s / 2 in
  List.init n (fun i -> z_of_int (hexval s.[2 * i] * 16 + hexval s.[2 * i + 1]))

let err_name = function
  | E_EOF -> "EOF" | E_NONNUM -> "NONNUM" | E_RANGE -> "RANGE" | E_NOTPPM -> "NOTPPM"
  | E_TOOBIG -> "TOOBIG" | E_BADCS -> "BADCS" | E_OOB -> "MODEL_OOB" | E_FUEL -> "MODEL_FUEL"

let berr_name = function
  | B_EOF -> "EOF" | B_NOT -> "BMP_NOT" | B_BADHEADER -> "BMP_BADHEADER" | B_BADDEPTH -> "BMP_BADDEPTH"
  | B_COMPRESSED -> "BMP_COMPRESSED" | B_EMPTY -> "BMP_EMPTY" | B_TOOBIG -> "TOOBIG" | B_BADPLANES -> "BMP_BADPLANES"
  | B_BADCMAP -> "BMP_BADCMAP" | B_BADCS -> "BADCS" | B_RANGE -> "BMP_RANGE" | B_WIDTH -> "WIDTH_OVERFLOW"
  | B_OOB -> "MODEL_OOB"

let pf_of_target t =
  let rec find i = if i > 11 then -1 else if layout_of_pf (z_of_int i) = Some t then i else find (i + 1) in
  find 0

(* tj3LoadImage<bits> with TJPARAM_PRECISION = prec: the extracted acceptance rule (model/ImgEntry.v)
   decides whether a reader is created and with which data precision *)
let do_load bits prec pf bu maxpix hex =
  let bytes = unhex hex in
  match bytes with
  | [] -> print_endline "err EMPTY"
  | c :: _ ->
    let f = tj_fmt c in
    (match f, tj_load_dp (z_of_int bits) (z_of_int prec) f with
     | FUnknown, _ -> print_endline "err UNSUPPORTED"
     | _, None -> print_endline "err BADPREC"
     | FBmp, Some _ ->
       let want = if pf < 0 then None else layout_of_pf (z_of_int pf) in
       let mp = z_of_int maxpix in
       let huge = (match bmp_header false mp want bytes with
                   | BOk (hd, _) -> int_of_z hd.b_w * int_of_z hd.b_h > 16777216 || int_of_z hd.b_w > 4194304
                   | BErr _ -> false) in
       if huge then print_endline "skip huge" else
       (match load_bmp rgb_to_cmyk mp want bu bytes with
        | BErr e -> print_endline ("err " ^ berr_name e)
        | BOk (((w, h), t), rows) ->
          let b = Buffer.create 4096 in
          Buffer.add_string b (Printf.sprintf "ok %d %d %d |" (int_of_z w) (int_of_z h) (pf_of_target t));
          List.iter (fun row -> List.iter (fun v -> Buffer.add_char b ' '; Buffer.add_string b (string_of_int (int_of_z v))) row) rows;
          print_endline (Buffer.contents b))
     | _, Some dp ->
       let want = if pf < 0 then None else layout_of_pf (z_of_int pf) in
       (match load_pnm rgb_to_cmyk look_fn dp (z_of_int maxpix) want bu bytes with
        | Err e -> print_endline ("err " ^ err_name e)
        | Ok (((w, h), t), rows) ->
          let b = Buffer.create 4096 in
          Buffer.add_string b (Printf.sprintf "ok %d %d %d |" (int_of_z w) (int_of_z h) (pf_of_target t));
          List.iter (fun row -> List.iter (fun v -> Buffer.add_char b ' '; Buffer.add_string b (string_of_int (int_of_z v))) row) rows;
          print_endline (Buffer.contents b)))

let () = iter_lines (fun line ->
  match words line with
  | "load" :: prec :: pf :: bu :: _align :: maxpix :: rest ->
      let prec = int_of_string prec in
      do_load (if prec <= 8 then 8 else if prec <= 12 then 12 else 16) prec (int_of_string pf) (bu = "1") (int_of_string maxpix)
        (match rest with h :: _ -> h | [] -> "")
  | "loadx" :: bits :: prec :: pf :: bu :: _align :: maxpix :: rest ->
      do_load (int_of_string bits) (int_of_string prec) (int_of_string pf) (bu = "1") (int_of_string maxpix)
        (match rest with h :: _ -> h | [] -> "")
  | "rd" :: maxpix :: targa :: rest ->
      let bytes = unhex (match rest with h :: _ -> h | [] -> "") in
      let mp = z_of_int (int_of_string maxpix) in
      let rname = function
        | R_EOF -> "EOF" | R_GIF_NOT -> "GIF_NOT" | R_GIF_EMPTY -> "GIF_EMPTY" | R_TOOBIG -> "TOOBIG"
        | R_GIF_NOIMAGE -> "GIF_NOIMAGE" | R_GIF_CODESIZE -> "GIF_CODESIZE" | R_TGA_BADPARMS -> "TGA_BADPARMS"
        | R_TGA_BADCMAP -> "TGA_BADCMAP" | R_OOB -> "MODEL_OOB" | R_UNINIT -> "MODEL_UNINIT" | R_FUEL -> "MODEL_FUEL" in
      let pr w h comps warn rows =
        let b = Buffer.create 4096 in
        Buffer.add_string b (Printf.sprintf "rd ok %d %d %d %d |" (int_of_z w) (int_of_z h) (int_of_z comps) warn);
        List.iter (fun row -> List.iter (fun v -> Buffer.add_char b ' '; Buffer.add_string b (string_of_int (int_of_z v))) row) rows;
        print_endline (Buffer.contents b) in
      (match bytes with
       | [] when targa <> "1" -> print_endline "rd err EMPTY"
       | c :: _ when targa <> "1" && int_of_z c = 66 ->
         let huge = (match bmp_header true mp None bytes with
                     | BOk (hd, _) -> int_of_z hd.b_w * int_of_z hd.b_h > 65536 || int_of_z hd.b_w > 65536
                     | BErr _ -> false) in
         if huge then print_endline "skip huge" else
         (match load_bmp_cj rgb_to_cmyk mp bytes with
          | BErr e -> print_endline ("rd err " ^ berr_name e)
          | BOk (((w, h), t), rows) -> pr w h (z_of_int (match t with TGray -> 1 | _ -> 3)) 0 rows)
       | c :: _ when targa <> "1" && int_of_z c <> 71 && int_of_z c <> 0 -> print_endline "rd err UNKNOWN"
       | c :: _ when targa <> "1" && int_of_z c = 71 ->
         (match gif_header mp bytes with
          | ROk (hd, _) when int_of_z hd.g_w * int_of_z hd.g_h > 65536 -> print_endline "skip huge"
          | _ ->
            (match load_gif mp bytes with
             | RErr e -> print_endline ("rd err " ^ rname e)
             | ROk ((((w, h), comps), warn), rows) -> pr w h comps (int_of_z warn) rows))
       | _ ->
         (match tga_header mp bytes with
          | ROk (hd, _) when int_of_z hd.t_w * int_of_z hd.t_h > 65536 -> print_endline "skip huge"
          | _ ->
            (match load_tga mp bytes with
             | RErr e -> print_endline ("rd err " ^ rname e)
             | ROk (((w, h), comps), rows) -> pr w h comps 0 rows)))
  | "cjx" :: _maxpix :: targa :: prec :: rest ->
      (* only the precision verdict of the reader selection is predicted *)
      (match unhex (match rest with h :: _ -> h | [] -> "") with
       | [] -> print_endline "cjx EMPTY"
       | c :: _ ->
         let f = cj_fmt (targa = "1") c in
         if f = FUnknown then print_endline "cjx UNKNOWN"
         else if cj_accepts f (z_of_int (int_of_string prec)) then print_endline "cjx PASS"
         else print_endline "cjx BADPREC")
  | "save" :: prec :: pf :: bu :: _pad :: ext :: w :: h :: "|" :: samples ->
      begin
        let pf = int_of_string pf and w = int_of_string w and h = int_of_string h in
        match layout_of_pf (z_of_int pf) with
        | None -> print_endline "err pf"
        | Some t ->
          let ps = [| 3; 3; 4; 4; 4; 4; 1; 4; 4; 4; 4; 4 |].(pf) in
          let all = List.map (fun s -> z_of_int (int_of_string s)) samples in
          let rec rows l n = if n = 0 then [] else take (w * ps) l :: rows (drop (w * ps) l) (n - 1) in
          let bytes = if ext = "bmp" then save_bmp cmyk_to_rgb t (bu = "1") (z_of_int w) (z_of_int h) (rows all h)
            else save_pnm cmyk_to_rgb (z_of_int (int_of_string prec)) t (bu = "1") (z_of_int w) (z_of_int h) (rows all h) in
          let b = Buffer.create 4096 in
          Buffer.add_string b "bytes ";
          List.iter (fun v -> Buffer.add_string b (Printf.sprintf "%02x" (int_of_z v))) bytes;
          print_endline (Buffer.contents b)
      end
  | _ -> print_endline "skip")
