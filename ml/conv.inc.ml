(* generic conversions between OCaml ints and the extracted inductive numbers *)
let rec pos_of_int n = if n = 1 then XH else if n land 1 = 0 then XO (pos_of_int (n lsr 1)) else XI (pos_of_int (n lsr 1))
let z_of_int n = if n = 0 then Z0 else if n > 0 then Zpos (pos_of_int n) else Zneg (pos_of_int (-n))
let rec int_of_pos = function XH -> 1 | XO p -> 2 * int_of_pos p | XI p -> 2 * int_of_pos p + 1
let int_of_z = function Z0 -> 0 | Zpos p -> int_of_pos p | Zneg p -> - (int_of_pos p)
let rec nat_of_int n = if n <= 0 then O else S (nat_of_int (n - 1))
let rec int_of_nat = function O -> 0 | S n -> 1 + int_of_nat n
let zl l = List.map z_of_int l
let il l = List.map int_of_z l
let words s = List.filter (fun x -> x <> "") (String.split_on_char ' ' (String.trim s))
let ints s = List.map int_of_string (words s)
let pr_ints l = String.concat " " (List.map string_of_int l)
let fields s = List.map String.trim (String.split_on_char '|' s)
let rec take n l = if n <= 0 then [] else match l with [] -> [] | x :: t -> x :: take (n - 1) t
let rec drop n l = if n <= 0 then l else match l with [] -> [] | _ :: t -> drop (n - 1) t
let iter_lines f = try while true do f (input_line stdin) done with End_of_file -> ()
