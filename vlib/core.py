"""Shared machinery for the /verif checks (see DESIGN.md sections 2-5).

A property plug-in is /verif/checks/Cxx.py with a function run(ctx) that uses:
  ctx.regen([...])              run translators tools/gen_*.py -> coq/gen/*.v
  ctx.prove()                   full .vo build of coq/props/Cxx.vo (+deps), forced
                                re-check of the property file, Print Assumptions
  ctx.model_driver()            extract coq/extract/ExtractCxx.v -> OCaml, build driver
  ctx.build_lib(flavour)        static libs of /repo's CURRENT working tree
  ctx.cc(name, srcs, flavour)   compile a C harness against that build
  ctx.violation(...) / ctx.broken_tie(...)   reporting, known-finding aware
  ctx.finish()                  evidence + exit code
"""
import fcntl
import hashlib
import json
import os
import re
import shutil
import subprocess
import sys
import time

VERIF = os.path.dirname(os.path.dirname(os.path.abspath(__file__)))
REPO = os.environ.get("VERIF_REPO", "/repo")
# An alternative source tree (VERIF_REPO=/tmp/x/repo: mutation trials) gets its own
# build root AND its own copy of the Coq tree, so that it never disturbs the
# shared build of /repo.
if os.path.realpath(REPO) == "/repo":
    BUILD = os.path.join(VERIF, "build")
    COQ = os.path.join(VERIF, "coq")
else:
    BUILD = os.path.join(VERIF, "build", "alt-" + hashlib.sha1(os.path.realpath(REPO).encode()).hexdigest()[:10])
    COQ = os.path.join(BUILD, "coq")
    os.makedirs(BUILD, exist_ok=True)
    subprocess.run(["rsync", "-a", "--delete", "--exclude", "gen/*.v", "--exclude", "gen/*.vo", "--exclude", "gen/*.glob",
                    os.path.join(VERIF, "coq") + "/", COQ + "/"], check=True)
    os.makedirs(os.path.join(COQ, "gen"), exist_ok=True)
os.environ["VERIF_BUILD"] = BUILD
GUARD = "LIBJPEG_TURBO_VERIF"

FORBIDDEN = re.compile(
    r"\b(Admitted|admit|Axiom|Axioms|Parameter|Parameters|Conjecture|Conjectures|"
    r"Admit Obligations|Unset Guard Checking|bypass_check|Unset Positivity Checking|"
    r"Unset Universe Checking|type-in-type|impredicative-set|native_compute)\b")


class SplitMix64:
    """One PRNG stream; every random choice of a check derives from it."""

    def __init__(self, seed):
        self.s = seed & 0xFFFFFFFFFFFFFFFF

    def next(self):
        self.s = (self.s + 0x9E3779B97F4A7C15) & 0xFFFFFFFFFFFFFFFF
        z = self.s
        z = ((z ^ (z >> 30)) * 0xBF58476D1CE4E5B9) & 0xFFFFFFFFFFFFFFFF
        z = ((z ^ (z >> 27)) * 0x94D049BB133111EB) & 0xFFFFFFFFFFFFFFFF
        return z ^ (z >> 31)

    def below(self, n):
        return self.next() % n if n > 0 else 0

    def range(self, lo, hi):
        return lo + self.below(hi - lo + 1)

    def choice(self, xs):
        return xs[self.below(len(xs))]

    def chance(self, num, den):
        return self.below(den) < num

    def bytes(self, n):
        out = bytearray()
        while len(out) < n:
            out += self.next().to_bytes(8, "little")
        return bytes(out[:n])

    def shuffle(self, xs):
        xs = list(xs)
        for i in range(len(xs) - 1, 0, -1):
            j = self.below(i + 1)
            xs[i], xs[j] = xs[j], xs[i]
        return xs

    def fork(self):
        return SplitMix64(self.next())


def sh(cmd, timeout=None, cwd=None, env=None, input=None):
    """Run a command; returns (rc, stdout+stderr).  rc -9 on timeout."""
    e = dict(os.environ)
    if env:
        e.update(env)
    try:
        p = subprocess.run(cmd, shell=isinstance(cmd, str), cwd=cwd, env=e, input=input,
                           stdout=subprocess.PIPE, stderr=subprocess.STDOUT, timeout=timeout)
        return p.returncode, p.stdout.decode("utf-8", "replace")
    except subprocess.TimeoutExpired as ex:
        out = ex.stdout.decode("utf-8", "replace") if ex.stdout else ""
        return -9, out + "\n[timeout]"


def sh2(cmd, timeout=None, cwd=None, env=None, input=None):
    """Run a command keeping stdout (bytes) and stderr (text) apart."""
    e = dict(os.environ)
    if env:
        e.update(env)
    try:
        p = subprocess.run(cmd, shell=isinstance(cmd, str), cwd=cwd, env=e, input=input,
                           stdout=subprocess.PIPE, stderr=subprocess.PIPE, timeout=timeout)
        return p.returncode, p.stdout, p.stderr.decode("utf-8", "replace")
    except subprocess.TimeoutExpired as ex:
        return -9, ex.stdout or b"", "[timeout]"


class Lock:
    def __init__(self, name):
        os.makedirs(BUILD, exist_ok=True)
        self.path = os.path.join(BUILD, "." + name + ".lock")

    def __enter__(self):
        self.f = open(self.path, "w")
        fcntl.flock(self.f, fcntl.LOCK_EX)
        return self

    def __exit__(self, *a):
        fcntl.flock(self.f, fcntl.LOCK_UN)
        self.f.close()


def write_if_changed(path, text):
    try:
        with open(path) as f:
            if f.read() == text:
                return False
    except FileNotFoundError:
        pass
    os.makedirs(os.path.dirname(path), exist_ok=True)
    tmp = path + ".tmp%d" % os.getpid()
    with open(tmp, "w") as f:
        f.write(text)
    os.replace(tmp, path)
    return True


def coq_project():
    """(Re)write coq/_CoqProject + Makefile from the .v files present."""
    vs = []
    for d in ("lib", "gen", "model", "proofs", "props", "extract"):
        p = os.path.join(COQ, d)
        if os.path.isdir(p):
            for f in sorted(os.listdir(p)):
                if f.endswith(".v"):
                    vs.append("%s/%s" % (d, f))
    text = "-Q . LJT\n-arg -w -arg -notation-overridden,-deprecated-hint-without-locality,-deprecated-instance-without-locality\n" + "\n".join(vs) + "\n"
    ch = write_if_changed(os.path.join(COQ, "_CoqProject"), text)
    if ch or not os.path.exists(os.path.join(COQ, "Makefile")):
        rc, out = sh("coq_makefile -f _CoqProject -o Makefile", cwd=COQ, timeout=120)
        if rc != 0:
            raise RuntimeError("coq_makefile failed: " + out)
        try:
            os.remove(os.path.join(COQ, ".Makefile.d"))
        except OSError:
            pass


def gate_sources():
    """Trusted-base gate: no axioms / admits / disabled checks anywhere in coq/."""
    bad = []
    for root, _, files in os.walk(COQ):
        for f in files:
            if not f.endswith(".v"):
                continue
            p = os.path.join(root, f)
            depth = 0
            in_comment = 0
            for n, line in enumerate(open(p, errors="replace"), 1):
                code = re.sub(r"\(\*.*?\*\)", "", line)
                if FORBIDDEN.search(code):
                    bad.append("%s:%d: %s" % (p, n, line.strip()))
                if re.match(r"\s*Section\b", code):
                    depth += 1
                if re.match(r"\s*End\b", code) and depth > 0:
                    depth -= 1
                if depth == 0 and re.match(r"\s*(Variable|Variables|Hypothesis|Hypotheses|Context)\b", code):
                    bad.append("%s:%d: %s outside Section" % (p, n, line.strip()))
    return bad


class Ctx:
    def __init__(self, prop, tier, seed, replay=None):
        self.prop = prop
        self.tier = tier
        self.seed = seed
        self.replay = replay
        self.rng = SplitMix64(seed)
        self.t0 = time.time()
        self.violations = []      # (replay_path, nofail, what)
        self.known_hits = []
        self.obligations = []     # (name, ok)
        self.assumptions = {}     # theorem -> text
        self.cov = {"evaluations": 0, "distinct_nontrivial": 0, "traces_validated_against_impl": 0,
                    "samples": [], "rule": "", "streams": {}}
        self.notes = []
        self.trusted = [
            "Coq 8.16.1 kernel + coqc (vm_compute used; native_compute not used)",
            "no axioms declared by this development (source gate: Axiom/Parameter/Admitted/... rejected)",
        ]
        self.assume = []
        self.distinct = set()
        self.proof_ok = None
        self.known = load_known(prop)
        os.makedirs(evidence_dir(), exist_ok=True)
        os.makedirs(os.path.join(BUILD, "replay"), exist_ok=True)

    # ---------------------------------------------------------------- logging
    def log(self, *a):
        print("[%s %6.1fs]" % (self.prop, time.time() - self.t0), *a, flush=True)

    def thorough(self):
        return self.tier == "thorough"

    def n(self, quick, thorough):
        return thorough if self.tier == "thorough" else quick

    # ------------------------------------------------------- generated facts
    def regen(self, gens):
        """Run translators (tools/gen_<name>.py) against REPO's working tree.
        Each prints the .v text on stdout; failure = broken tie."""
        ok = True
        for g in gens:
            script = os.path.join(VERIF, "tools", "gen_%s.py" % g)
            rc, out, err = sh2([sys.executable, script, REPO], timeout=300)
            target = os.path.join(COQ, "gen", "Gen%s.v" % g)
            if rc != 0:
                ok = False
                self.log("translator gen_%s FAILED: %s" % (g, err.strip()[-400:]))
                # leave a stub that cannot satisfy the obligations: file absent
                for ext in (".v", ".vo", ".vok", ".vos", ".glob"):
                    try:
                        os.remove(target[:-2] + ext)
                    except OSError:
                        pass
                self.broken_tie("translator:gen_%s" % g,
                                "translator could not find its source construct: " + err.strip()[-300:])
            else:
                with Lock("coq"):
                    write_if_changed(target, out.decode())
        return ok

    # ---------------------------------------------------------------- proofs
    def prove(self, extra_targets=(), timeout=1500):
        """Full .vo build of props/<prop>.vo; the property file itself is always
        re-checked in this run and its Print Assumptions output recorded."""
        bad = gate_sources()
        if bad:
            for b in bad[:10]:
                self.log("GATE:", b)
            self.obligations.append(("source-gate", False))
            self.broken_tie("source-gate", "forbidden construct in coq/: " + "; ".join(bad[:3]))
            self.proof_ok = False
            return False
        pf = os.path.join(COQ, "props", self.prop + ".v")
        src = open(pf).read()
        thms = re.findall(r"^\s*(?:Theorem|Corollary)\s+([A-Za-z0-9_']+)", src, re.M)
        with Lock("coq"):
            coq_project()
        with Lock("coq-" + self.prop):
            for ext in (".vo", ".glob", ".vok", ".vos"):
                try:
                    os.remove(pf[:-2] + ext)
                except OSError:
                    pass
            targets = ["props/%s.vo" % self.prop] + list(extra_targets)
            rc, out = sh("timeout %d make -k -j8 %s" % (timeout, " ".join(targets)), cwd=COQ)
        self.coq_log = out
        ok = (rc == 0) and os.path.exists(pf[:-2] + ".vo")
        # parse Print Assumptions blocks: they follow each theorem in order
        blocks = parse_assumption_blocks(out)
        failing = None
        if not ok:
            m = re.search(r'File "\./([^"]+)", line (\d+)', out)
            failing = "%s:%s" % (m.group(1), m.group(2)) if m else "unknown"
            em = re.search(r"Error:[\s\S]{0,600}", out)
            self.log("PROOF BUILD FAILED at", failing, "\n", em.group(0) if em else out[-800:])
        for i, t in enumerate(thms):
            self.obligations.append((t, ok))
            if ok and i < len(blocks):
                self.assumptions[t] = " ".join(blocks[i].split())
        if ok:
            axs = sorted(set(a for v in self.assumptions.values() if v.startswith("Axioms")
                             for a in re.findall(r"([A-Za-z0-9_.']+) :", v)))
            if axs:
                self.trusted.append("stdlib axioms used (Print Assumptions): " + ", ".join(axs))
            else:
                self.trusted.append("Print Assumptions: every property theorem closed under the global context")
        else:
            self.broken_tie("proof:" + failing, "coqc no longer accepts %s (first error at %s)" % (
                "props/%s.v" % self.prop, failing))
        self.proof_ok = ok
        self.log("proof obligations: %d theorems, accepted=%s" % (len(thms), ok))
        if ok and self.thorough() and not self.replay:
            # independent re-check of the compiled property file and everything it depends on
            # at most 4 coqchk processes at a time (each may need several GB)
            slot = int(hashlib.sha1(self.prop.encode()).hexdigest(), 16) % 4
            for attempt in (1, 2):
                with Lock("coqchk-slot%d" % slot), Lock("coq-" + self.prop):
                    rc, out = sh("timeout 2400 coqchk -o -silent -Q . LJT LJT.props.%s" % self.prop, cwd=COQ)
                if rc == 0:
                    break
                self.log("coqchk attempt %d rc=%d" % (attempt, rc))
            tail = out[-3000:]
            self.cov["coqchk"] = {"rc": rc, "output_tail": tail}
            self.log("coqchk rc=%d" % rc)
            if rc != 0:
                self.obligations.append(("coqchk", False))
                self.broken_tie("coqchk", "independent checker rejected props/%s.vo: %s" % (self.prop, tail[-300:]))
            else:
                self.obligations.append(("coqchk", True))
                self.trusted.append("coqchk -o (independent checker) accepted props/%s.vo and its dependencies; axiom list in coverage.coqchk" % self.prop)
        return ok

    def model_driver(self, timeout=600):
        """Extract coq/extract/Extract<prop>.v and build ml/<prop>_driver.ml.
        Returns path of the executable or None."""
        out_dir = os.path.join(BUILD, "ml", self.prop)
        os.makedirs(out_dir, exist_ok=True)
        with Lock("coq"):
            coq_project()
        with Lock("coq-" + self.prop):
            rc, out = sh("timeout %d make -k -j8 extract/Extract%s.vo" % (timeout, self.prop), cwd=COQ)
            if rc != 0:
                self.log("extraction build failed:\n" + out[-1500:])
                self.broken_tie("extraction", "model no longer compiles/extracts: " + out[-300:])
                return None
            # Extraction writes into cwd of coqc (= coq/); move the files
            for f in os.listdir(COQ):
                if f.startswith("x_%s" % self.prop.lower()) and (f.endswith(".ml") or f.endswith(".mli")):
                    shutil.copy(os.path.join(COQ, f), os.path.join(out_dir, f))
        drv = os.path.join(VERIF, "ml", "%s_driver.ml" % self.prop)
        exe = os.path.join(out_dir, "driver")
        mod = "x_%s" % self.prop.lower()
        stamp = os.path.join(out_dir, ".stamp")
        h = hashlib.sha1()
        for f in (os.path.join(out_dir, mod + ".ml"), drv, os.path.join(VERIF, "ml", "conv.inc.ml")):
            h.update(open(f, "rb").read())
        if not (os.path.exists(exe) and os.path.exists(stamp) and open(stamp).read() == h.hexdigest()):
            with open(os.path.join(out_dir, "driver.ml"), "w") as f:
                f.write("open %s\n" % (mod[0].upper() + mod[1:]))
                f.write(open(os.path.join(VERIF, "ml", "conv.inc.ml")).read())
                f.write(open(drv).read())
            rc, out = sh("ocamlfind ocamlopt -O2 -w -a -package str -linkpkg %s.mli %s.ml driver.ml -o driver 2>&1 || "
                         "ocamlfind ocamlopt -w -a -package str -linkpkg %s.mli %s.ml driver.ml -o driver" % (mod, mod, mod, mod),
                         cwd=out_dir, timeout=600)
            if rc != 0 or not os.path.exists(exe):
                self.log("ocaml build failed:\n" + out[-1500:])
                self.broken_tie("extraction", "extracted model does not build: " + out[-300:])
                return None
            open(stamp, "w").write(h.hexdigest())
        if "OCaml 4.13.1 compiler + ml driver (correspondence only)" not in self.trusted:
            self.trusted.append("Extraction: ExtrOcamlBasic directives only (bool, option, unit, list, prod, sumbool); no Extract Constant; Z/N/positive/nat stay inductive")
            self.trusted.append("OCaml 4.13.1 compiler + ml driver (correspondence only)")
        return exe

    # ----------------------------------------------------------------- C side
    def build_lib(self, flavour="simd"):
        rc, out = sh([os.path.join(VERIF, "tools", "buildlib.sh"), flavour], timeout=1200)
        if rc != 0:
            self.log("library build failed (%s):\n%s" % (flavour, out[-1500:]))
            raise BuildError("library build of the working tree failed: " + out[-300:])
        return os.path.join(BUILD, "lib-" + flavour)

    def cc(self, name, srcs, flavour="simd", extra="", libs=("turbojpeg",), cflags=None):
        """Compile harness sources (relative to /verif/harness) against the build."""
        lib = self.build_lib(flavour)
        exe = os.path.join(BUILD, "harness", "%s-%s" % (name, flavour))
        os.makedirs(os.path.dirname(exe), exist_ok=True)
        san = {"simd": "-O1 -g", "plain": "-O1 -g",
               "asan": "-O1 -g -fno-omit-frame-pointer -fsanitize=address,undefined -fno-sanitize-recover=undefined",
               "asansimd": "-O1 -g -fsanitize=address",
               "tsan": "-O1 -g -fsanitize=thread"}[flavour]
        if cflags:
            san = cflags
        hook = "-D" + GUARD if repo_has_hooks() else ""
        srcp = " ".join(s if s.startswith("/") else os.path.join(VERIF, "harness", s) for s in srcs)
        libp = " ".join(os.path.join(lib, "lib%s.a" % l) for l in libs)
        cmd = ("gcc %s %s -Wno-error -w -DVERIF_HARNESS -I%s -I%s/src -I%s/simd -I%s/harness %s %s %s -lm -lpthread -o %s"
               % (san, hook, lib, REPO, REPO, VERIF, extra, srcp, libp, exe))
        with Lock("cc-" + name + flavour):
            rc, out = sh(cmd, timeout=600)
        if rc != 0:
            self.log("harness build failed:\n" + out[-2500:])
            raise BuildError("harness %s does not compile against the working tree: %s" % (name, out[-400:]))
        return exe

    # -------------------------------------------------------------- reporting
    def sample(self, obj, cap=6):
        if len(self.cov["samples"]) < cap:
            self.cov["samples"].append(obj)

    def count(self, stream, n=1, nontrivial_key=None):
        self.cov["evaluations"] += n
        self.cov["streams"][stream] = self.cov["streams"].get(stream, 0) + n
        if nontrivial_key is not None:
            self.distinct.add(nontrivial_key if isinstance(nontrivial_key, (str, int, tuple)) else repr(nontrivial_key))

    def write_replay(self, obj, tag="v"):
        d = os.path.join(BUILD, "replay")
        os.makedirs(d, exist_ok=True)
        p = os.path.join(d, "%s_%s_%d_%d.json" % (self.prop, tag, self.seed, len(self.violations) + len(self.known_hits)))
        with open(p, "w") as f:
            json.dump(obj, f, indent=1, default=repr)
        return p

    def violation(self, what, replay_obj, signature=None, nofail=False):
        """Report a violation unless it matches a KNOWN_FINDINGS entry.
        signature: stable string identifying the specific failing input/history."""
        sig = signature or what
        for k in self.known:
            if k["kind"] == "known" and k["sig"] and k["sig"] in sig:
                if k["sig"] not in [h[0] for h in self.known_hits]:
                    self.known_hits.append((k["sig"], k["text"]))
                return False
        if not hasattr(self, "_sigs"):
            self._sigs = {}
        self._sigs[sig] = self._sigs.get(sig, 0) + 1
        if self._sigs[sig] > 1:      # one replay per distinct signature
            return True
        replay_obj = dict(replay_obj)
        replay_obj.setdefault("property", self.prop)
        replay_obj.setdefault("what", what)
        replay_obj.setdefault("signature", sig)
        replay_obj.setdefault("seed", self.seed)
        p = self.write_replay(replay_obj, "nofail" if nofail else "v")
        self.violations.append((p, nofail, what))
        self.log("violation:", what)
        return True

    def broken_tie(self, name, detail):
        """A proof obligation / translator / correspondence stream no longer checks.
        Recorded; finish() emits it as no-failing-input-found unless the search
        produced a concrete failing input."""
        if not hasattr(self, "_broken"):
            self._broken = []
        self._broken.append((name, detail))

    def finish(self):
        broken = getattr(self, "_broken", [])
        concrete = [v for v in self.violations if not v[1]]
        if broken and not concrete:
            p = self.write_replay({"property": self.prop, "no_failing_input_found": True,
                                   "broken": [{"obligation": n, "detail": d} for n, d in broken],
                                   "seed": self.seed}, "nofail")
            self.violations.append((p, True, "broken: " + ", ".join(n for n, _ in broken)))
        elif broken:
            self.notes.append("broken obligations: " + "; ".join(n for n, _ in broken))
        nob = len(self.obligations)
        ndis = sum(1 for _, ok in self.obligations if ok)
        self.cov["distinct_nontrivial"] = max(self.cov["distinct_nontrivial"], len(self.distinct))
        self.cov["obligations"] = nob
        self.cov["discharged"] = ndis
        self.cov["obligation_names"] = [n for n, _ in self.obligations]
        self.cov["checker_cmd"] = "make -C coq props/%s.vo (coqc, full .vo build; property file re-checked every run)" % self.prop
        self.cov["trusted_base"] = self.trusted
        self.cov["print_assumptions"] = self.assumptions
        if self.notes:
            self.cov["notes"] = self.notes
        if self.known_hits:
            self.cov["known_findings_hit"] = [s for s, _ in self.known_hits]
        ev = {"property_id": self.prop, "tier": self.tier, "seed": self.seed, "level": "proof",
              "coverage": self.cov, "assumptions": self.assume, "wall_s": round(time.time() - self.t0, 2),
              "violations": len(self.violations)}
        with open(os.path.join(evidence_dir(), self.prop + ".json"), "w") as f:
            json.dump(ev, f, indent=1, default=repr)
        for sig, text in self.known_hits:
            print("KNOWN-FINDING: property=%s %s" % (self.prop, text), flush=True)
        for p, nofail, what in self.violations:
            print("VIOLATION property=%s replay=%s%s" % (self.prop, p, " no-failing-input-found" if nofail else ""), flush=True)
        self.log("done: evaluations=%d distinct=%d obligations=%d/%d violations=%d wall=%.1fs" % (
            self.cov["evaluations"], self.cov["distinct_nontrivial"], ndis, nob, len(self.violations), time.time() - self.t0))
        return 1 if self.violations else 0


def parse_assumption_blocks(out):
    """Print Assumptions output blocks, in order of appearance."""
    blocks, cur = [], None
    for line in out.split("\n"):
        if line.startswith("Closed under the global context"):
            if cur is not None:
                blocks.append(cur)
                cur = None
            blocks.append("Closed under the global context")
        elif line.startswith("Axioms:"):
            if cur is not None:
                blocks.append(cur)
            cur = "Axioms:"
        elif cur is not None:
            if line.strip() == "" or re.match(r"(COQC|COQDEP|make|File) ", line):
                blocks.append(cur)
                cur = None
            else:
                cur += " " + line.strip()
    if cur is not None:
        blocks.append(cur)
    return blocks


def evidence_dir():
    # evidence of a mutation trial must not overwrite the evidence of /repo
    return os.path.join(VERIF, "evidence") if BUILD == os.path.join(VERIF, "build") else os.path.join(BUILD, "evidence")


class BuildError(Exception):
    pass


def repo_has_hooks():
    rc, out = sh("grep -rlqs %s %s/src %s/simd" % (GUARD, REPO, REPO))
    return rc == 0


def load_known(prop):
    """KNOWN_FINDINGS.txt lines:
       known: property=Cxx sig=<signature substring> :: <what fails>
       fixed: property=Cxx <commit> <what failed>          (suppresses nothing)"""
    out = []
    p = os.path.join(VERIF, "KNOWN_FINDINGS.txt")
    if not os.path.exists(p):
        return out
    for line in open(p):
        line = line.strip()
        if not line or line.startswith("#"):
            continue
        m = re.match(r"known:\s+property=(\S+)\s+sig=(\S+)\s+::\s+(.*)", line)
        if m and m.group(1) == prop:
            out.append({"kind": "known", "sig": m.group(2), "text": m.group(3)})
        elif line.startswith("fixed:"):
            out.append({"kind": "fixed", "sig": None, "text": line})
    return out
