#!/usr/bin/env python3
"""Translator for C01: reads the tree given as argv[1] and prints coq/gen/GenLimits.v.

  * constants  DCTSIZE DCTSIZE2 NUM_QUANT_TBLS NUM_HUFF_TBLS NUM_ARITH_TBLS
               MAX_COMPS_IN_SCAN MAX_SAMP_FACTOR C_/D_MAX_BLOCKS_IN_MCU   (jpeglib.h)
               MAX_COMPONENTS JPEG_MAX_DIMENSION                           (jmorecfg.h)
               HUFF_LOOKAHEAD                                              (jdhuff.h)
  * marker codes of the JPEG_MARKER enum                                   (jdmarker.c)
  * jpeg_natural_order[] WITH its padding entries, declared size evaluated (jutils.c)
  * declared sizes of every array the decoder model indexes (evaluated with the
    constants above): the bounds used by the index-trace theorem
  * guard anchors: the text of every length/index/count/precision/dimension check
    of jdmarker.c / jdinput.c / jdhuff.c / jdphuff.c / jdarith.c / jdlhuff.c /
    jdlossls.c / jddiffct.c that the hand model mirrors must still be present
    (whitespace-normalised); a missing guard makes the translator fail.
Exits non-zero with a message when a construct it reads is gone.
"""
import re
import sys

repo = sys.argv[1]


def die(msg):
    sys.exit("gen_Limits: " + msg)


def rd(rel):
    try:
        return open(repo + "/src/" + rel).read()
    except OSError as e:
        die("cannot read src/%s: %s" % (rel, e))


def strip_comments(s):
    return re.sub(r"/\*.*?\*/", " ", s, flags=re.S)


JPEGLIB = strip_comments(rd("jpeglib.h"))
JMORECFG = strip_comments(rd("jmorecfg.h"))
JDHUFF_H = strip_comments(rd("jdhuff.h"))
JDMARKER = strip_comments(rd("jdmarker.c"))
JUTILS = strip_comments(rd("jutils.c"))
JPEGINT = strip_comments(rd("jpegint.h"))
JDHUFF_C = strip_comments(rd("jdhuff.c"))
JDINPUT = strip_comments(rd("jdinput.c"))
JDPHUFF = strip_comments(rd("jdphuff.c"))
JDARITH = strip_comments(rd("jdarith.c"))
JDLHUFF = strip_comments(rd("jdlhuff.c"))
JDLOSSLS = strip_comments(rd("jdlossls.c"))
JDDIFFCT = strip_comments(rd("jddiffct.c"))
JDSRC_TJ = strip_comments(rd("jdatasrc-tj.c"))
JDSRC = strip_comments(rd("jdatasrc.c"))
JDCOEFCT = strip_comments(rd("jdcoefct.c"))
JDCOEFCT_H = strip_comments(rd("jdcoefct.h"))
JDARITH_C = JDARITH

consts = {}


def define(src, name, fname):
    m = re.search(r"^[ \t]*#[ \t]*define[ \t]+%s[ \t]+(.+?)[ \t]*$" % name, src, re.M)
    if not m:
        die("%s: #define %s not found" % (fname, name))
    return m.group(1)


def ceval(expr):
    """evaluate a small C constant expression over the known constants"""
    e = re.sub(r"\b(\d+)(?:UL|LL|L|U)\b", r"\1", expr)
    e = re.sub(r"\b0x([0-9a-fA-F]+)\b", lambda m: str(int(m.group(1), 16)), e)

    def sub(m):
        n = m.group(0)
        if n not in consts:
            die("constant expression '%s' uses unknown name %s" % (expr, n))
        return str(consts[n])
    e = re.sub(r"[A-Za-z_][A-Za-z_0-9]*", sub, e)
    if not re.fullmatch(r"[\d\s+\-*/()<]+", e):
        die("constant expression '%s' not understood" % expr)
    return int(eval(e.replace("/", "//")))


for name, src, fn in [("DCTSIZE", JPEGLIB, "jpeglib.h"), ("DCTSIZE2", JPEGLIB, "jpeglib.h"),
                      ("NUM_QUANT_TBLS", JPEGLIB, "jpeglib.h"), ("NUM_HUFF_TBLS", JPEGLIB, "jpeglib.h"),
                      ("NUM_ARITH_TBLS", JPEGLIB, "jpeglib.h"), ("MAX_COMPS_IN_SCAN", JPEGLIB, "jpeglib.h"),
                      ("MAX_SAMP_FACTOR", JPEGLIB, "jpeglib.h"), ("C_MAX_BLOCKS_IN_MCU", JPEGLIB, "jpeglib.h"),
                      ("D_MAX_BLOCKS_IN_MCU", JPEGLIB, "jpeglib.h"), ("MAX_COMPONENTS", JMORECFG, "jmorecfg.h"),
                      ("JPEG_MAX_DIMENSION", JMORECFG, "jmorecfg.h"), ("HUFF_LOOKAHEAD", JDHUFF_H, "jdhuff.h"),
                      ("JPEG_EOI", JPEGLIB, "jpeglib.h"), ("JPEG_RST0", JPEGLIB, "jpeglib.h"),
                      ("APP0_DATA_LEN", JDMARKER, "jdmarker.c"), ("APP14_DATA_LEN", JDMARKER, "jdmarker.c"),
                      ("APPN_DATA_LEN", JDMARKER, "jdmarker.c"), ("BUFSIZE", JDHUFF_C, "jdhuff.c")]:
    consts[name] = ceval(define(src, name, fn))

# ---------------------------------------------------------------- marker enum
m = re.search(r"typedef\s+enum\s*\{([^}]*)\}\s*JPEG_MARKER\s*;", JDMARKER)
if not m:
    die("jdmarker.c: enum JPEG_MARKER not found")
markers = []
for name, val in re.findall(r"(M_[A-Za-z0-9]+)\s*=\s*(0x[0-9a-fA-F]+|\d+)", m.group(1)):
    markers.append((name, int(val, 0)))
need = ["M_SOF0", "M_SOF1", "M_SOF2", "M_SOF3", "M_SOF5", "M_SOF6", "M_SOF7", "M_JPG", "M_SOF9", "M_SOF10",
        "M_SOF11", "M_SOF13", "M_SOF14", "M_SOF15", "M_DHT", "M_DAC", "M_RST0", "M_RST7", "M_SOI", "M_EOI",
        "M_SOS", "M_DQT", "M_DNL", "M_DRI", "M_APP0", "M_APP14", "M_APP15", "M_COM", "M_TEM"]
have = dict(markers)
for n in need:
    if n not in have:
        die("jdmarker.c: marker %s missing from enum JPEG_MARKER" % n)

# ---------------------------------------------------------------- natural order
m = re.search(r"const\s+int\s+jpeg_natural_order\s*\[([^\]]*)\]\s*=\s*\{([^}]*)\}", JUTILS)
if not m:
    die("jutils.c: jpeg_natural_order[] literal not found")
nat_decl = ceval(m.group(1))
nat = [int(x) for x in re.findall(r"-?\d+", m.group(2))]
if len(nat) > nat_decl:
    die("jutils.c: jpeg_natural_order has more initialisers than its declared size")
nat = nat + [0] * (nat_decl - len(nat))      # C zero-fills missing initialisers

# ---------------------------------------------------------------- array bounds


def arr(src, fn, decl_re, what):
    mm = re.search(decl_re, src)
    if not mm:
        die("%s: declaration of %s not found" % (fn, what))
    return ceval(mm.group(1))


_m = re.search(r"struct\s+jpeg_decompress_struct\s*\{", JPEGLIB)
if not _m:
    die("jpeglib.h: struct jpeg_decompress_struct not found")
dstruct = JPEGLIB[_m.start():]
bounds = [
    ("bound_quantval", arr(JPEGLIB, "jpeglib.h", r"UINT16\s+quantval\s*\[([^\]]+)\]", "JQUANT_TBL.quantval")),
    ("bound_bits", arr(JPEGLIB, "jpeglib.h", r"UINT8\s+bits\s*\[([^\]]+)\]", "JHUFF_TBL.bits")),
    ("bound_huffval", arr(JPEGLIB, "jpeglib.h", r"UINT8\s+huffval\s*\[([^\]]+)\]", "JHUFF_TBL.huffval")),
    ("bound_quant_tbl_ptrs", arr(dstruct, "jpeglib.h", r"quant_tbl_ptrs\s*\[([^\]]+)\]", "quant_tbl_ptrs")),
    ("bound_dc_huff_tbl_ptrs", arr(dstruct, "jpeglib.h", r"dc_huff_tbl_ptrs\s*\[([^\]]+)\]", "dc_huff_tbl_ptrs")),
    ("bound_ac_huff_tbl_ptrs", arr(dstruct, "jpeglib.h", r"ac_huff_tbl_ptrs\s*\[([^\]]+)\]", "ac_huff_tbl_ptrs")),
    ("bound_arith_dc_L", arr(dstruct, "jpeglib.h", r"arith_dc_L\s*\[([^\]]+)\]", "arith_dc_L")),
    ("bound_arith_dc_U", arr(dstruct, "jpeglib.h", r"arith_dc_U\s*\[([^\]]+)\]", "arith_dc_U")),
    ("bound_arith_ac_K", arr(dstruct, "jpeglib.h", r"arith_ac_K\s*\[([^\]]+)\]", "arith_ac_K")),
    ("bound_cur_comp_info", arr(dstruct, "jpeglib.h", r"cur_comp_info\s*\[([^\]]+)\]", "cur_comp_info")),
    ("bound_MCU_membership", arr(dstruct, "jpeglib.h", r"MCU_membership\s*\[([^\]]+)\]", "MCU_membership")),
    ("bound_first_MCU_col", arr(JPEGINT, "jpegint.h", r"first_MCU_col\s*\[([^\]]+)\]", "first_MCU_col")),
    ("bound_get_dht_bits", arr(JDMARKER, "jdmarker.c", r"UINT8\s+bits\s*\[([^\]]+)\]", "get_dht bits[]")),
    ("bound_get_dht_huffval", arr(JDMARKER, "jdmarker.c", r"UINT8\s+huffval\s*\[([^\]]+)\]", "get_dht huffval[]")),
    ("bound_process_APPn", arr(JDMARKER, "jdmarker.c", r"process_APPn\s*\[([^\]]+)\]", "process_APPn")),
    ("bound_appn_b", arr(JDMARKER, "jdmarker.c", r"JOCTET\s+b\s*\[([^\]]+)\]", "get_interesting_appn b[]")),
    ("bound_dc_derived_tbls", arr(JDHUFF_C, "jdhuff.c", r"dc_derived_tbls\s*\[([^\]]+)\]", "dc_derived_tbls")),
    ("bound_ac_derived_tbls", arr(JDHUFF_C, "jdhuff.c", r"ac_derived_tbls\s*\[([^\]]+)\]", "ac_derived_tbls")),
    ("bound_dc_cur_tbls", arr(JDHUFF_C, "jdhuff.c", r"dc_cur_tbls\s*\[([^\]]+)\]", "dc_cur_tbls")),
    ("bound_last_dc_val", arr(JDHUFF_C, "jdhuff.c", r"last_dc_val\s*\[([^\]]+)\]", "last_dc_val")),
    ("bound_maxcode", arr(JDHUFF_H, "jdhuff.h", r"maxcode\s*\[([^\]]+)\]", "d_derived_tbl.maxcode")),
    ("bound_lookup", arr(JDHUFF_H, "jdhuff.h", r"int\s+lookup\s*\[([^\]]+)\]", "d_derived_tbl.lookup")),
    ("bound_phuff_derived_tbls", arr(JDPHUFF, "jdphuff.c", r"derived_tbls\s*\[([^\]]+)\]", "phuff derived_tbls")),
    ("bound_lhuff_derived_tbls", arr(JDLHUFF, "jdlhuff.c", r"derived_tbls\s*\[([^\]]+)\]", "lhuff derived_tbls")),
    ("bound_arith_dc_stats", arr(JDARITH, "jdarith.c", r"dc_stats\s*\[([^\]]+)\]", "arith dc_stats")),
    ("bound_arith_ac_stats", arr(JDARITH, "jdarith.c", r"ac_stats\s*\[([^\]]+)\]", "arith ac_stats")),
    ("bound_natural_order", nat_decl),
    ("bound_MCU_buffer", arr(JDCOEFCT_H, "jdcoefct.h", r"JBLOCKROW\s+MCU_buffer\s*\[([^\]]+)\]", "coef MCU_buffer")),
    ("bound_consume_buffer", arr(JDCOEFCT, "jdcoefct.c", r"JBLOCKARRAY\s+buffer\s*\[([^\]]+)\]", "consume_data buffer[]")),
    ("bound_newnz_pos", arr(JDPHUFF, "jdphuff.c", r"int\s+newnz_pos\s*\[([^\]]+)\]", "decode_mcu_AC_refine newnz_pos[]")),
    ("bound_lh_arrays", min(arr(JDLHUFF, "jdlhuff.c", r"\*cur_tbls\s*\[([^\]]+)\]", "lhuff cur_tbls"),
                            arr(JDLHUFF, "jdlhuff.c", r"JDIFFROW\s+output_ptr\s*\[([^\]]+)\]", "lhuff output_ptr"),
                            arr(JDLHUFF, "jdlhuff.c", r"output_ptr_info\s*\[([^\]]+)\]", "lhuff output_ptr_info"),
                            arr(JDLHUFF, "jdlhuff.c", r"int\s+output_ptr_index\s*\[([^\]]+)\]", "lhuff output_ptr_index"))),
]

# ---------------------------------------------------------------- guard anchors


def norm(s):
    return re.sub(r"\s+", "", s.replace("\\\n", " "))


GUARDS = [
    # (file text, file name, guard text (whitespace-insensitive), what the model mirrors)
    (JDMARKER, "jdmarker.c", "if (cinfo->marker->saw_SOI) ERREXIT(cinfo, JERR_SOI_DUPLICATE);", "get_soi duplicate"),
    (JDMARKER, "jdmarker.c", "if (cinfo->marker->saw_SOF) ERREXIT(cinfo, JERR_SOF_DUPLICATE);", "get_sof duplicate"),
    (JDMARKER, "jdmarker.c", "length -= 8;", "get_sof length"),
    (JDMARKER, "jdmarker.c", "if (cinfo->image_height <= 0 || cinfo->image_width <= 0 || cinfo->num_components <= 0) ERREXIT(cinfo, JERR_EMPTY_IMAGE);", "get_sof empty"),
    (JDMARKER, "jdmarker.c", "if (length != (cinfo->num_components * 3)) ERREXIT(cinfo, JERR_BAD_LENGTH);", "get_sof length check"),
    (JDMARKER, "jdmarker.c", "if (!cinfo->marker->saw_SOF) ERREXIT(cinfo, JERR_SOS_NO_SOF);", "get_sos no sof"),
    (JDMARKER, "jdmarker.c", "if (length != (n * 2 + 6) || n < 1 || n > MAX_COMPS_IN_SCAN) ERREXIT(cinfo, JERR_BAD_LENGTH);", "get_sos Ns"),
    (JDMARKER, "jdmarker.c", "for (ci = 0, compptr = cinfo->comp_info; ci < cinfo->num_components; ci++, compptr++) { if (cc == compptr->component_id) { for (pi = 0; pi < i; pi++) { if (cinfo->cur_comp_info[pi] == compptr) break; } if (pi == i) goto id_found; } } ERREXIT1(cinfo, JERR_BAD_COMPONENT_ID, cc);", "get_sos id lookup"),
    (JDMARKER, "jdmarker.c", "id_found: cinfo->cur_comp_info[i] = compptr; compptr->dc_tbl_no = (c >> 4) & 15; compptr->ac_tbl_no = (c ) & 15;", "get_sos table selectors"),
    (JDMARKER, "jdmarker.c", "for (pi = 0; pi < i; pi++) { if (cinfo->cur_comp_info[pi] == compptr) { ERREXIT1(cinfo, JERR_BAD_COMPONENT_ID, cc); } }", "get_sos duplicate id"),
    (JDMARKER, "jdmarker.c", "if (index < 0 || index >= (2 * NUM_ARITH_TBLS)) ERREXIT1(cinfo, JERR_DAC_INDEX, index);", "get_dac index"),
    (JDMARKER, "jdmarker.c", "if (cinfo->arith_dc_L[index] > cinfo->arith_dc_U[index]) ERREXIT1(cinfo, JERR_DAC_VALUE, val);", "get_dac value"),
    (JDMARKER, "jdmarker.c", "while (length > 16) {", "get_dht loop"),
    (JDMARKER, "jdmarker.c", "for (i = 1; i <= 16; i++) { INPUT_BYTE(cinfo, bits[i], return FALSE); count += bits[i]; }", "get_dht counts"),
    (JDMARKER, "jdmarker.c", "length -= 1 + 16;", "get_dht length"),
    (JDMARKER, "jdmarker.c", "if (count > 256 || ((JLONG)count) > length) ERREXIT(cinfo, JERR_BAD_HUFF_TABLE);", "get_dht count"),
    (JDMARKER, "jdmarker.c", "if (index & 0x10) { index -= 0x10; if (index < 0 || index >= NUM_HUFF_TBLS) ERREXIT1(cinfo, JERR_DHT_INDEX, index); htblptr = &cinfo->ac_huff_tbl_ptrs[index]; } else { if (index < 0 || index >= NUM_HUFF_TBLS) ERREXIT1(cinfo, JERR_DHT_INDEX, index); htblptr = &cinfo->dc_huff_tbl_ptrs[index]; }", "get_dht index"),
    (JDMARKER, "jdmarker.c", "if (n >= NUM_QUANT_TBLS) ERREXIT1(cinfo, JERR_DQT_INDEX, n);", "get_dqt index"),
    (JDMARKER, "jdmarker.c", "for (i = 0; i < DCTSIZE2; i++) { if (prec) INPUT_2BYTES(cinfo, tmp, return FALSE); else INPUT_BYTE(cinfo, tmp, return FALSE);", "get_dqt loop"),
    (JDMARKER, "jdmarker.c", "quant_ptr->quantval[jpeg_natural_order[i]] = (UINT16)tmp;", "get_dqt store"),
    (JDMARKER, "jdmarker.c", "length -= DCTSIZE2 + 1; if (prec) length -= DCTSIZE2;", "get_dqt length"),
    (JDMARKER, "jdmarker.c", "if (length != 4) ERREXIT(cinfo, JERR_BAD_LENGTH);", "get_dri length"),
    (JDMARKER, "jdmarker.c", "if (c != 0xFF || c2 != (int)M_SOI) ERREXIT2(cinfo, JERR_NO_SOI, c, c2);", "first_marker"),
    (JDMARKER, "jdmarker.c", "if (length >= APPN_DATA_LEN) numtoread = APPN_DATA_LEN; else if (length > 0) numtoread = (unsigned int)length; else numtoread = 0;", "get_interesting_appn numtoread"),
    (JDINPUT, "jdinput.c", "if ((long)cinfo->image_height > (long)JPEG_MAX_DIMENSION || (long)cinfo->image_width > (long)JPEG_MAX_DIMENSION) ERREXIT1(cinfo, JERR_IMAGE_TOO_BIG, (unsigned int)JPEG_MAX_DIMENSION);", "initial_setup dimension"),
    (JDINPUT, "jdinput.c", "if (cinfo->data_precision < 2 || cinfo->data_precision > 16) ERREXIT1(cinfo, JERR_BAD_PRECISION, cinfo->data_precision);", "initial_setup lossless precision"),
    (JDINPUT, "jdinput.c", "if (cinfo->data_precision != 8 && cinfo->data_precision != 12) ERREXIT1(cinfo, JERR_BAD_PRECISION, cinfo->data_precision);", "initial_setup lossy precision"),
    (JDINPUT, "jdinput.c", "if (cinfo->num_components > MAX_COMPONENTS) ERREXIT2(cinfo, JERR_COMPONENT_COUNT, cinfo->num_components, MAX_COMPONENTS);", "initial_setup components"),
    (JDINPUT, "jdinput.c", "if (compptr->h_samp_factor <= 0 || compptr->h_samp_factor > MAX_SAMP_FACTOR || compptr->v_samp_factor <= 0 || compptr->v_samp_factor > MAX_SAMP_FACTOR) ERREXIT(cinfo, JERR_BAD_SAMPLING);", "initial_setup sampling"),
    (JDINPUT, "jdinput.c", "if (cinfo->comps_in_scan <= 0 || cinfo->comps_in_scan > MAX_COMPS_IN_SCAN) ERREXIT2(cinfo, JERR_COMPONENT_COUNT, cinfo->comps_in_scan, MAX_COMPS_IN_SCAN);", "per_scan_setup comps"),
    (JDINPUT, "jdinput.c", "if (cinfo->blocks_in_MCU + mcublks > D_MAX_BLOCKS_IN_MCU) ERREXIT(cinfo, JERR_BAD_MCU_SIZE);", "per_scan_setup blocks"),
    (JDINPUT, "jdinput.c", "while (mcublks-- > 0) { cinfo->MCU_membership[cinfo->blocks_in_MCU++] = ci; }", "per_scan_setup membership"),
    (JDINPUT, "jdinput.c", "if (qtblno < 0 || qtblno >= NUM_QUANT_TBLS || cinfo->quant_tbl_ptrs[qtblno] == NULL) ERREXIT1(cinfo, JERR_NO_QUANT_TABLE, qtblno);", "latch_quant_tables"),
    (JDINPUT, "jdinput.c", "if (!inputctl->pub.has_multiple_scans) ERREXIT(cinfo, JERR_EOI_EXPECTED);", "consume_markers 2nd SOS"),
    (JDINPUT, "jdinput.c", "if (cinfo->marker->saw_SOF) ERREXIT(cinfo, JERR_SOF_NO_SOS);", "consume_markers EOI"),
    (JDHUFF_C, "jdhuff.c", "if (tblno < 0 || tblno >= NUM_HUFF_TBLS) ERREXIT1(cinfo, JERR_NO_HUFF_TABLE, tblno);", "make_d_derived tblno"),
    (JDHUFF_C, "jdhuff.c", "if (htbl == NULL) ERREXIT1(cinfo, JERR_NO_HUFF_TABLE, tblno);", "make_d_derived present"),
    (JDHUFF_C, "jdhuff.c", "if (i < 0 || p + i > 256) ERREXIT(cinfo, JERR_BAD_HUFF_TABLE);", "make_d_derived overrun"),
    (JDHUFF_C, "jdhuff.c", "if (((JLONG)code) >= (((JLONG)1) << si)) ERREXIT(cinfo, JERR_BAD_HUFF_TABLE);", "make_d_derived code legality"),
    (JDHUFF_C, "jdhuff.c", "if (sym < 0 || sym > (cinfo->master->lossless ? 16 : 15)) ERREXIT(cinfo, JERR_BAD_HUFF_TABLE);", "make_d_derived DC symbols"),
    (JDHUFF_C, "jdhuff.c", "dtbl->maxcode[17] = 0xFFFFFL;", "17-bit sentinel"),
    (JDHUFF_C, "jdhuff.c", "if (cinfo->src->bytes_in_buffer < BUFSIZE * (size_t)cinfo->blocks_in_MCU || cinfo->unread_marker != 0) usefast = 0;", "decode_mcu fast-path threshold"),
    (JDHUFF_C, "jdhuff.c", "if (cinfo->restart_interval) { if (entropy->restarts_to_go == 0) if (!process_restart(cinfo)) return FALSE; usefast = 0; }", "decode_mcu no fast path with restarts"),
    (JDHUFF_C, "jdhuff.c", "if (bits_left <= 16) { GET_BYTE GET_BYTE GET_BYTE GET_BYTE GET_BYTE GET_BYTE }", "fast path prefetch of 6 bytes"),
    (JDPHUFF, "jdphuff.c", "for (k = cinfo->Ss; k <= Se; k++) { HUFF_DECODE(s, br_state, tbl, return FALSE, label2); r = s >> 4; s &= 15; if (s) { k += r; CHECK_BIT_BUFFER(br_state, s, return FALSE); r = GET_BITS(s); s = HUFF_EXTEND(r, s);", "AC first loop"),
    (JDPHUFF, "jdphuff.c", "(*block)[jpeg_natural_order[k]] = (JCOEF)LEFT_SHIFT(s, Al); } else { if (r == 15) { k += 15; } else { EOBRUN = 1 << r; if (r) { CHECK_BIT_BUFFER(br_state, r, return FALSE); r = GET_BITS(r); EOBRUN += r; } EOBRUN--; break; } }", "AC first store / EOB run"),
    (JDPHUFF, "jdphuff.c", "k = cinfo->Ss; if (EOBRUN == 0) { for (; k <= Se; k++) { HUFF_DECODE(s, br_state, tbl, goto undoit, label3); r = s >> 4; s &= 15;", "AC refine outer loop"),
    (JDPHUFF, "jdphuff.c", "do { thiscoef = *block + jpeg_natural_order[k]; if (*thiscoef != 0) {", "AC refine inner loop head"),
    (JDPHUFF, "jdphuff.c", "} else { if (--r < 0) break; } k++; } while (k <= Se); if (s) { int pos = jpeg_natural_order[k]; (*block)[pos] = (JCOEF)s; newnz_pos[num_newnz++] = pos; }", "AC refine inner loop tail / new coefficient"),
    (JDPHUFF, "jdphuff.c", "if (EOBRUN > 0) { for (; k <= Se; k++) { thiscoef = *block + jpeg_natural_order[k];", "AC refine EOB tail"),
    (JDPHUFF, "jdphuff.c", "cinfo->num_components * 2 * DCTSIZE2 * sizeof(int)", "coef_bits allocation"),
    (JDPHUFF, "jdphuff.c", "coef_bit_ptr = &cinfo->coef_bits[cindex][0]; prev_coef_bit_ptr = &cinfo->coef_bits[cindex + cinfo->num_components][0];", "coef_bits rows"),
    (JDPHUFF, "jdphuff.c", "for (coefi = MIN(cinfo->Ss, 1); coefi <= MAX(cinfo->Se, 9); coefi++) {", "coef_bits previous-row loop"),
    (JDPHUFF, "jdphuff.c", "for (coefi = cinfo->Ss; coefi <= cinfo->Se; coefi++) {", "coef_bits band loop"),
    (JDLHUFF, "jdlhuff.c", "for (sampn = 0, ptrn = 0; sampn < cinfo->blocks_in_MCU;) { compptr = cinfo->cur_comp_info[cinfo->MCU_membership[sampn]]; ci = compptr->component_index; for (yoffset = 0; yoffset < compptr->MCU_height; yoffset++, ptrn++) {", "lhuff start_pass pointer loop"),
    (JDLHUFF, "jdlhuff.c", "for (xoffset = 0; xoffset < compptr->MCU_width; xoffset++, sampn++) { entropy->output_ptr_index[sampn] = ptrn; entropy->cur_tbls[sampn] = entropy->derived_tbls[compptr->dc_tbl_no]; }", "lhuff start_pass sample loop"),
    (JDLHUFF, "jdlhuff.c", "*entropy->output_ptr[entropy->output_ptr_index[sampn]]++ = (JDIFF)s;", "lhuff decode_mcus store"),
    (JDCOEFCT, "jdcoefct.c", "(JDIMENSION)jround_up((long)compptr->width_in_blocks, (long)compptr->h_samp_factor), (JDIMENSION)jround_up((long)compptr->height_in_blocks, (long)compptr->v_samp_factor),", "virtual array extents"),
    (JDCOEFCT, "jdcoefct.c", "cinfo->input_iMCU_row * compptr->v_samp_factor, (JDIMENSION)compptr->v_samp_factor, TRUE);", "consume_data row window"),
    (JDCOEFCT, "jdcoefct.c", "for (MCU_col_num = coef->MCU_ctr; MCU_col_num < cinfo->MCUs_per_row; MCU_col_num++) {", "consume_data MCU column loop"),
    (JDCOEFCT, "jdcoefct.c", "start_col = MCU_col_num * compptr->MCU_width; for (yindex = 0; yindex < compptr->MCU_height; yindex++) { buffer_ptr = buffer[ci][yindex + yoffset] + start_col; for (xindex = 0; xindex < compptr->MCU_width; xindex++) { coef->MCU_buffer[blkn++] = buffer_ptr++; } }", "consume_data block pointers"),
    (JDCOEFCT_H, "jdcoefct.h", "if (cinfo->comps_in_scan > 1) { coef->MCU_rows_per_iMCU_row = 1; } else { if (cinfo->input_iMCU_row < (cinfo->total_iMCU_rows - 1)) coef->MCU_rows_per_iMCU_row = cinfo->cur_comp_info[0]->v_samp_factor; else coef->MCU_rows_per_iMCU_row = cinfo->cur_comp_info[0]->last_row_height; }", "start_iMCU_row"),
    (JDINPUT, "jdinput.c", "compptr->width_in_blocks = (JDIMENSION) jdiv_round_up((long)cinfo->image_width * (long)compptr->h_samp_factor, (long)(cinfo->max_h_samp_factor * data_unit));", "width_in_blocks"),
    (JDINPUT, "jdinput.c", "compptr->height_in_blocks = (JDIMENSION) jdiv_round_up((long)cinfo->image_height * (long)compptr->v_samp_factor, (long)(cinfo->max_v_samp_factor * data_unit));", "height_in_blocks"),
    (JDINPUT, "jdinput.c", "cinfo->total_iMCU_rows = (JDIMENSION) jdiv_round_up((long)cinfo->image_height, (long)(cinfo->max_v_samp_factor * data_unit));", "total_iMCU_rows"),
    (JDINPUT, "jdinput.c", "cinfo->MCUs_per_row = (JDIMENSION) jdiv_round_up((long)cinfo->image_width, (long)(cinfo->max_h_samp_factor * data_unit));", "MCUs_per_row interleaved"),
    (JUTILS, "jutils.c", "return (a + b - 1L) / b;", "jdiv_round_up"),
    (JUTILS, "jutils.c", "a += b - 1L; return a - (a % b);", "jround_up"),
    (JDARITH, "jdarith.c", "st = entropy->dc_stats[tbl] + entropy->dc_context[ci];", "arith DC S0"),
    (JDARITH, "jdarith.c", "sign = arith_decode(cinfo, st + 1); st += 2; st += sign; if ((m = arith_decode(cinfo, st)) != 0) { st = entropy->dc_stats[tbl] + 20; while (arith_decode(cinfo, st)) { if ((m <<= 1) == 0x8000) { WARNMS(cinfo, JWRN_ARITH_BAD_CODE); entropy->ct = -1; return TRUE; } st += 1; } }", "arith DC sign/magnitude category"),
    (JDARITH, "jdarith.c", "entropy->dc_context[ci] = 12 + (sign * 4); else entropy->dc_context[ci] = 4 + (sign * 4); v = m; st += 14; while (m >>= 1) if (arith_decode(cinfo, st)) v |= m;", "arith DC context / magnitude bits"),
    (JDARITH, "jdarith.c", "for (k = 1; k <= DCTSIZE2 - 1; k++) { st = entropy->ac_stats[tbl] + 3 * (k - 1); if (arith_decode(cinfo, st)) break; while (arith_decode(cinfo, st + 1) == 0) { st += 3; k++; if (k > DCTSIZE2 - 1) { WARNMS(cinfo, JWRN_ARITH_BAD_CODE); entropy->ct = -1; return TRUE; } }", "arith AC EOB/run loop"),
    (JDARITH, "jdarith.c", "sign = arith_decode(cinfo, entropy->fixed_bin); st += 2; if ((m = arith_decode(cinfo, st)) != 0) { if (arith_decode(cinfo, st)) { m <<= 1; st = entropy->ac_stats[tbl] + (k <= cinfo->arith_ac_K[tbl] ? 189 : 217); while (arith_decode(cinfo, st)) { if ((m <<= 1) == 0x8000) { WARNMS(cinfo, JWRN_ARITH_BAD_CODE); entropy->ct = -1; return TRUE; } st += 1; } } }", "arith AC magnitude category"),
    (JDARITH, "jdarith.c", "v = m; st += 14; while (m >>= 1) if (arith_decode(cinfo, st)) v |= m; v += 1; if (sign) v = -v; if (block) (*block)[jpeg_natural_order[k]] = (JCOEF)v;", "arith AC magnitude bits / store"),
    (JDARITH, "jdarith.c", "if (entropy->ct == -1) return TRUE;", "arith error state skips the MCU"),
    (JDARITH, "jdarith.c", "sv = *st; qe = jpeg_aritab[sv & 0x7F]; nl = qe & 0xFF; qe >>= 8; nm = qe & 0xFF; qe >>= 8;", "arith_decode table fetch"),
    (JDARITH, "jdarith.c", "while (e->a < 0x8000L) { if (--e->ct < 0) {", "arith_decode renormalisation loop"),
    (JDARITH, "jdarith.c", "memset(entropy->dc_stats[tbl], 0, DC_STAT_BINS);", "arith DC stats zeroed"),
    (JDARITH, "jdarith.c", "memset(entropy->ac_stats[tbl], 0, AC_STAT_BINS);", "arith AC stats zeroed"),
    (strip_comments(rd("jdtrans.c")), "jdtrans.c", "for (;;) { int retcode; if (cinfo->progress != NULL) (*cinfo->progress->progress_monitor) ((j_common_ptr)cinfo); retcode = (*cinfo->inputctl->consume_input) (cinfo); if (retcode == JPEG_SUSPENDED) return NULL; if (retcode == JPEG_REACHED_EOI) break;", "jpeg_read_coefficients calls the progress monitor before every consume_input"),
    (strip_comments(rd("jdapistd.c")), "jdapistd.c", "for (;;) { int retcode; if (cinfo->progress != NULL) (*cinfo->progress->progress_monitor) ((j_common_ptr)cinfo); retcode = (*cinfo->inputctl->consume_input) (cinfo); if (retcode == JPEG_SUSPENDED) return FALSE; if (retcode == JPEG_REACHED_EOI) break;", "jpeg_start_decompress calls the progress monitor before every consume_input"),
    (strip_comments(rd("turbojpeg.c")), "turbojpeg.c", "if (dinfo->is_decompressor) { int scan_no = ((j_decompress_ptr)dinfo)->input_scan_number; if (scan_no > myprog->this->scanLimit) {", "TurboJPEG scan limit lives in the progress monitor"),
    (JDLHUFF, "jdlhuff.c", "entropy->output_ptr[ptrn] = diff_buf[ci][MCU_row_num + yoffset] + (MCU_col_num * MCU_width);", "lhuff decode_mcus row start"),
    (JDMARKER, "jdmarker.c", "marker->cur_marker = cur_marker; marker->bytes_read = 0;", "save_marker sets bytes_read whenever it sets cur_marker"),
    (JDMARKER, "jdmarker.c", "cinfo->marker->next_restart_num = 0;", "get_sos resets next_restart_num"),
    (JDHUFF_C, "jdhuff.c", "for (k = 1; k < DCTSIZE2; k++) { HUFF_DECODE(s, br_state, actbl, return FALSE, label2); r = s >> 4; s &= 15; if (s) { k += r; CHECK_BIT_BUFFER(br_state, s, return FALSE); r = GET_BITS(s); s = HUFF_EXTEND(r, s);", "decode_mcu_slow AC loop"),
    (JDHUFF_C, "jdhuff.c", "(*block)[jpeg_natural_order[k]] = (JCOEF)s; } else { if (r != 15) break; k += 15; }", "decode_mcu_slow store"),
    (JDPHUFF, "jdphuff.c", "if (is_DC_band) { if (cinfo->Se != 0) bad = TRUE; } else { if (cinfo->Ss > cinfo->Se || cinfo->Se >= DCTSIZE2) bad = TRUE; if (cinfo->comps_in_scan != 1) bad = TRUE; } if (cinfo->Ah != 0) { if (cinfo->Al != cinfo->Ah - 1) bad = TRUE; } if (cinfo->Al > 13) bad = TRUE;", "jdphuff start_pass validation"),
    (JDARITH, "jdarith.c", "if (tbl < 0 || tbl >= NUM_ARITH_TBLS) ERREXIT1(cinfo, JERR_NO_ARITH_TABLE, tbl);", "jdarith start_pass table"),
    (JDARITH, "jdarith.c", "if (cinfo->Se < cinfo->Ss || cinfo->Se > DCTSIZE2 - 1) goto bad;", "jdarith start_pass validation"),
    (JDLHUFF, "jdlhuff.c", "if (dctbl < 0 || dctbl >= NUM_HUFF_TBLS || cinfo->dc_huff_tbl_ptrs[dctbl] == NULL) ERREXIT1(cinfo, JERR_NO_HUFF_TABLE, dctbl);", "jdlhuff start_pass table"),
    (JDLOSSLS, "jdlossls.c", "if (cinfo->Ss < 1 || cinfo->Ss > 7 || cinfo->Se != 0 || cinfo->Ah != 0 || cinfo->Al < 0 || cinfo->Al >= cinfo->data_precision) ERREXIT4(cinfo, JERR_BAD_PROGRESSION,", "lossless scan parameters"),
    (JDDIFFCT, "jddiffct.c", "if (cinfo->restart_interval % cinfo->MCUs_per_row != 0) ERREXIT2(cinfo, JERR_BAD_RESTART,", "lossless restart interval"),
    (JDSRC_TJ, "jdatasrc-tj.c", "WARNMS(cinfo, JWRN_JPEG_EOF); cinfo->src->next_input_byte = mybuffer; cinfo->src->bytes_in_buffer = 2; return TRUE;", "TJ source fake EOI"),
    (JDSRC_TJ, "jdatasrc-tj.c", "(JOCTET)0xFF, (JOCTET)JPEG_EOI, 0, 0", "TJ source fake EOI bytes"),
    (JDSRC, "jdatasrc.c", "WARNMS(cinfo, JWRN_JPEG_EOF); cinfo->src->next_input_byte = mybuffer; cinfo->src->bytes_in_buffer = 2; return TRUE;", "mem source fake EOI"),
    (JDSRC, "jdatasrc.c", "(JOCTET)0xFF, (JOCTET)JPEG_EOI, 0, 0", "mem source fake EOI bytes"),
]
# A missing guard does not stop the translation (the model must still extract so that the
# correspondence can exhibit a concrete stream); it makes the generated fact
# guards_all_present false, which props/C01.v proves to be true.
guard_names = []
for src, fn, text, what in GUARDS:
    ok = norm(text) in norm(src)
    if not ok:
        sys.stderr.write("gen_Limits: %s: guard mirrored by the model is gone (%s): %s\n" % (fn, what, text[:120]))
    guard_names.append((fn, what, ok))

# SOF dispatch of read_markers: which SOFn are accepted with which (prog, lossless, arith)
sof = []
for mk, args in re.findall(r"case\s+(M_SOF\d+)\s*:\s*(?:case\s+M_SOF\d+\s*:\s*)*if\s*\(\s*!get_sof\(cinfo,\s*([A-Z, ]+)\)\)", JDMARKER):
    sof.append((mk, [a.strip() == "TRUE" for a in args.split(",")]))
m = re.search(r"case\s+M_SOF0\s*:\s*case\s+M_SOF1\s*:\s*if\s*\(\s*!get_sof\(cinfo,\s*FALSE,\s*FALSE,\s*FALSE\)\)", JDMARKER)
if not m:
    die("jdmarker.c: read_markers no longer dispatches SOF0/SOF1 to get_sof(FALSE,FALSE,FALSE)")
sofmap = {}
for mk, fl in sof:
    sofmap[mk] = fl
sofmap["M_SOF0"] = [False, False, False]      # the two-label case checked just above
sofmap["M_SOF1"] = [False, False, False]
for mk in ("M_SOF1", "M_SOF2", "M_SOF3", "M_SOF9", "M_SOF10", "M_SOF11"):
    if mk not in sofmap:
        die("jdmarker.c: read_markers dispatch of %s to get_sof not found" % mk)
m = re.search(r"case\s+M_SOF5\s*:\s*case\s+M_SOF6\s*:\s*case\s+M_SOF7\s*:\s*case\s+M_JPG\s*:\s*case\s+M_SOF13\s*:\s*case\s+M_SOF14\s*:\s*"
              r"case\s+M_SOF15\s*:\s*ERREXIT1\(cinfo,\s*JERR_SOF_UNSUPPORTED", JDMARKER)
if not m:
    die("jdmarker.c: unsupported-SOF case list of read_markers changed")

# ---------------------------------------------------------------- standard Huffman tables (jinit_huff_decoder)
JSTD = strip_comments(rd("jstdhuff.c"))
std = {}
for nm in ("bits_dc_luminance", "val_dc_luminance", "bits_dc_chrominance", "val_dc_chrominance",
           "bits_ac_luminance", "val_ac_luminance", "bits_ac_chrominance", "val_ac_chrominance"):
    mm = re.search(r"static\s+const\s+UINT8\s+%s\s*\[[^\]]*\]\s*=\s*\{([^}]*)\}" % nm, JSTD)
    if not mm:
        die("jstdhuff.c: table %s not found" % nm)
    std[nm] = [int(x, 0) for x in re.findall(r"0x[0-9a-fA-F]+|\d+", mm.group(1))]
    if nm.startswith("bits") and len(std[nm]) != 17:
        die("jstdhuff.c: %s does not have 17 entries" % nm)
slots = re.findall(r"add_huff_table\(cinfo,\s*&(dc|ac)_huff_tbl_ptrs\[(\d)\],\s*(bits_\w+),\s*(val_\w+)\);", JSTD)
if sorted((a, int(b)) for a, b, _, _ in slots) != [("ac", 0), ("ac", 1), ("dc", 0), ("dc", 1)]:
    die("jstdhuff.c: std_huff_tables no longer fills exactly dc/ac slots 0 and 1")
if norm("if (*htblptr == NULL) *htblptr = jpeg_alloc_huff_table(cinfo); else if (cinfo->is_decompressor) return;") not in norm(JSTD):
    die("jstdhuff.c: add_huff_table no longer keeps a table already defined by the datastream")
if norm("std_huff_tables((j_common_ptr)cinfo);") not in norm(JDHUFF_C[JDHUFF_C.find("jinit_huff_decoder"):]):
    die("jdhuff.c: jinit_huff_decoder no longer installs the standard tables")
for f, fn in ((JDPHUFF, "jdphuff.c"), (JDLHUFF, "jdlhuff.c")):
    if "std_huff_tables" in f:
        die("%s now installs standard tables too (model assumes only jdhuff.c does)" % fn)

# ---------------------------------------------------------------- per-datastream state of the marker reader / input controller


def struct_fields(body):
    """[(name, is_method)] of a struct body (comments already stripped)"""
    out = []
    for decl in body.split(";"):
        d = " ".join(decl.split())
        if not d:
            continue
        mm = re.search(r"\(\s*\*\s*(\w+)\s*\)\s*\(", d)          # function pointer
        if mm:
            out.append((mm.group(1), True))
            continue
        mm = re.search(r"(\w+)\s*(?:\[[^\]]*\])?$", d)
        if not mm:
            die("cannot parse struct member '%s'" % d)
        is_method = bool(re.match(r"jpeg_marker_parser_method\b", d))
        out.append((mm.group(1), is_method))
    return out


def struct_body(src, fn, pat, what):
    mm = re.search(pat, src, re.S)
    if not mm:
        die("%s: %s not found" % (fn, what))
    return mm.group(1)


def func_body(src, fn, name):
    mm = re.search(r"\n%s\s*\(j_decompress_ptr cinfo\)\s*\{(.*?)\n\}" % name, src, re.S)
    if not mm:
        die("%s: function %s not found" % (fn, name))
    return mm.group(1)


mr_pub = struct_fields(struct_body(JPEGINT, "jpegint.h", r"struct\s+jpeg_marker_reader\s*\{(.*?)\n\};", "struct jpeg_marker_reader"))
mr_priv = struct_fields(struct_body(JDMARKER, "jdmarker.c", r"typedef\s+struct\s*\{(.*?)\}\s*my_marker_reader\s*;", "my_marker_reader"))
mr_priv = [f for f in mr_priv if f[0] != "pub"]
# configuration set by jinit_marker_reader / jpeg_save_markers / jpeg_set_marker_processor: persistent by design
MR_CONFIG = ("process_COM", "process_APPn", "length_limit_COM", "length_limit_APPn")
for c in MR_CONFIG:
    if c not in [f[0] for f in mr_priv]:
        die("jdmarker.c: my_marker_reader lost its configuration member %s" % c)
mr_state = [n for n, meth in mr_pub + mr_priv if not meth and n not in MR_CONFIG]
rb = func_body(JDMARKER, "jdmarker.c", "reset_marker_reader")
mr_reset = sorted(set(re.findall(r"marker->(?:pub\.)?(\w+)\s*=", rb)))
cinfo_reset = sorted(set(re.findall(r"cinfo->(\w+)\s*=", rb)))
ic_pub = struct_fields(struct_body(JPEGINT, "jpegint.h", r"struct\s+jpeg_input_controller\s*\{(.*?)\n\};", "struct jpeg_input_controller"))
ic_priv = [f for f in struct_fields(struct_body(JDINPUT, "jdinput.c", r"typedef\s+struct\s*\{(.*?)\}\s*my_input_controller\s*;", "my_input_controller")) if f[0] != "pub"]
ic_state = [n for n, meth in ic_pub + ic_priv if not meth] + ["consume_input"]     # consume_input is switched per scan: state
ib = func_body(JDINPUT, "jdinput.c", "reset_input_controller")
ic_reset = sorted(set(re.findall(r"inputctl->(?:pub\.)?(\w+)\s*=", ib)))
if "reset_marker_reader" not in ib:
    die("jdinput.c: reset_input_controller no longer calls reset_marker_reader")
if norm("(*cinfo->inputctl->reset_input_controller) (cinfo);") not in norm(strip_comments(rd("jdapimin.c"))):
    die("jdapimin.c: jpeg_consume_input no longer resets the input controller at DSTATE_START")


def coq_strs(l):
    return "[%s]" % "; ".join('"%s"' % x for x in l)


# ---------------------------------------------------------------- arithmetic decoder facts
JARICOM = strip_comments(rd("jaricom.c"))
mm = re.search(r"const\s+JLONG\s+jpeg_aritab\s*\[([^\]]*)\]\s*=\s*\{(.*?)\};", JARICOM, re.S)
if not mm:
    die("jaricom.c: jpeg_aritab[] not found")
ari_decl = ceval(mm.group(1))
ari = [(int(i), int(a, 16), int(b), int(c), int(d)) for i, a, b, c, d in
       re.findall(r"V\(\s*(\d+)\s*,\s*0x([0-9a-fA-F]+)\s*,\s*(\d+)\s*,\s*(\d+)\s*,\s*(\d+)\s*\)", mm.group(2))]
if len(ari) != ari_decl or [r[0] for r in ari] != list(range(ari_decl)):
    die("jaricom.c: jpeg_aritab rows do not match the declared size / index column")
if norm("#define V(i, a, b, c, d) (((JLONG)a << 16) | ((JLONG)c << 8) | ((JLONG)d << 7) | b)") not in norm(rd("jaricom.c")):
    die("jaricom.c: packing macro V changed")
consts["DC_STAT_BINS"] = ceval(define(JDARITH, "DC_STAT_BINS", "jdarith.c"))
consts["AC_STAT_BINS"] = ceval(define(JDARITH, "AC_STAT_BINS", "jdarith.c"))
bounds.append(("bound_fixed_bin", arr(JDARITH, "jdarith.c", r"unsigned\s+char\s+fixed_bin\s*\[([^\]]+)\]", "arith fixed_bin")))
bounds.append(("bound_dc_context", arr(JDARITH, "jdarith.c", r"int\s+dc_context\s*\[([^\]]+)\]", "arith dc_context")))

# ---------------------------------------------------------------- statistics areas: allocated (start_pass) vs re-initialised (process_restart)


def cond_to_coq(c, fn):
    """C condition over progressive_mode / Ss / Ah -> Gallina bool over (prog : bool) (Ss Ah : Z)"""
    t = " ".join(c.split())
    t = t.replace("!cinfo->progressive_mode", "NOTPROG").replace("cinfo->progressive_mode", "PROG")
    t = re.sub(r"cinfo->Ss == 0", "(Ss =? 0)", t)
    t = re.sub(r"cinfo->Ah == 0", "(Ah =? 0)", t)
    t = re.sub(r"cinfo->Ss\b", "(negb (Ss =? 0))", t)
    t = re.sub(r"cinfo->Ah\b", "(negb (Ah =? 0))", t)
    t = t.replace("NOTPROG", "(negb prog)").replace("PROG", "prog")
    if re.search(r"cinfo|->|[!<>]", t.replace("=?", "")):
        die("%s: statistics-area condition '%s' not understood" % (fn, c))
    return t


def stat_conds(body, fn, what):
    """the innermost braced if-condition enclosing the first dc_stats[ / ac_stats[ access of a function body"""
    res = []
    for arr_name in ("dc_stats[", "ac_stats["):
        pos = body.find(arr_name)
        if pos < 0:
            die("%s: %s: no %s access" % (fn, what, arr_name))
        cands = [m for m in re.finditer(r"if \(([^{};]*?)\) \{", body[:pos], re.S)]
        if not cands:
            die("%s: %s: %s access is not guarded by a braced if" % (fn, what, arr_name))
        res.append(cond_to_coq(cands[-1].group(1), fn))
    return res[0], res[1]


def func_body2(src, fn, name):
    mm = re.search(r"\n%s\s*\(j_decompress_ptr cinfo\)\s*\{(.*?)\n\}" % name, src, re.S)
    if not mm:
        die("%s: function %s not found" % (fn, name))
    return mm.group(1)


sp_body = func_body2(JDARITH, "jdarith.c", "start_pass")
sp_alloc = sp_body[sp_body.find("Allocate & initialize requested statistics areas") if "Allocate" in sp_body else 0:]
i0 = sp_body.find("for (ci = 0; ci < cinfo->comps_in_scan; ci++) {\n    compptr")
sp_dc, sp_ac = stat_conds(sp_body[sp_body.rfind("for (ci = 0; ci < cinfo->comps_in_scan; ci++)"):], "jdarith.c", "start_pass")
pr_dc, pr_ac = stat_conds(func_body2(JDARITH, "jdarith.c", "process_restart"), "jdarith.c", "process_restart")

# ---------------------------------------------------------------- lossless difference-row length
JDDIFFCT_S = JDDIFFCT
rows = re.findall(r"diff->(diff_buf|undiff_buf)\[ci\]\s*=\s*ALLOC_DARRAY\(JPOOL_IMAGE,\s*(.*?),\s*\(JDIMENSION\)compptr->v_samp_factor\)", JDDIFFCT_S, re.S)
if sorted(r[0] for r in rows) != ["diff_buf", "undiff_buf"]:
    die("jddiffct.c: ALLOC_DARRAY of diff_buf / undiff_buf not found")


def width_to_coq(e):
    t = norm(e)
    if t == norm("(JDIMENSION)jround_up((long)compptr->width_in_blocks, (long)compptr->h_samp_factor)"):
        return "gen_round_up wib h"
    if t in (norm("compptr->width_in_blocks"), norm("(JDIMENSION)compptr->width_in_blocks")):
        return "wib"
    die("jddiffct.c: difference-row width expression '%s' not understood" % " ".join(e.split()))


diff_w = dict((k, width_to_coq(e)) for k, e in rows)

# ---------------------------------------------------------------- output
out = []
w = out.append
w("(* GENERATED by tools/gen_Limits.py from src/jpeglib.h jmorecfg.h jdhuff.h jdmarker.c jutils.c jpegint.h jdhuff.c")
w("   jdinput.c jdphuff.c jdarith.c jdlhuff.c jdlossls.c jddiffct.c jdatasrc*.c -- do not edit *)")
w("From Coq Require Import List ZArith Bool String.\nImport ListNotations.\nLocal Open Scope string_scope.\nLocal Open Scope Z_scope.\n")
for k in ["DCTSIZE", "DCTSIZE2", "NUM_QUANT_TBLS", "NUM_HUFF_TBLS", "NUM_ARITH_TBLS", "MAX_COMPS_IN_SCAN",
          "MAX_SAMP_FACTOR", "C_MAX_BLOCKS_IN_MCU", "D_MAX_BLOCKS_IN_MCU", "MAX_COMPONENTS", "JPEG_MAX_DIMENSION",
          "HUFF_LOOKAHEAD", "JPEG_EOI", "JPEG_RST0", "APP0_DATA_LEN", "APP14_DATA_LEN", "APPN_DATA_LEN", "BUFSIZE"]:
    w("Definition L_%s : Z := %d." % (k, consts[k]))
w("")
for name, val in markers:
    w("Definition %s : Z := %d." % (name, val))
w("")
w("(* SOFn accepted by read_markers: (marker, is_prog, is_lossless, is_arith) *)")
w("Definition sof_dispatch : list (Z * (bool * bool * bool)) :=\n  [%s]." % "; ".join(
    "(%d, (%s, %s, %s))" % (have[mk], *[str(b).lower() for b in sofmap[mk]])
    for mk in ("M_SOF0", "M_SOF1", "M_SOF2", "M_SOF3", "M_SOF9", "M_SOF10", "M_SOF11")))
w("Definition sof_unsupported : list Z := [%s]." % "; ".join(
    str(have[mk]) for mk in ("M_SOF5", "M_SOF6", "M_SOF7", "M_JPG", "M_SOF13", "M_SOF14", "M_SOF15")))
w("")
w("Definition natural_order : list Z :=\n  [%s]." % ";\n   ".join(
    "; ".join(str(x) for x in nat[i:i + 16]) for i in range(0, len(nat), 16)))
w("")
for name, val in bounds:
    w("Definition %s : Z := %d." % (name, val))
w("")
w("(* std_huff_tables: tables installed by jinit_huff_decoder into empty slots (isDC, slot, bits[17], huffval) *)")
w("Definition std_huff : list (bool * Z * list Z * list Z) :=\n  [%s]." % ";\n   ".join(
    "(%s, %s, [%s], [%s])" % ("true" if a == "dc" else "false", b, "; ".join(map(str, std[bn])), "; ".join(map(str, std[vn])))
    for a, b, bn, vn in slots))
w("")
w("(* per-datastream state: members of the marker reader / input controller that are neither methods nor")
w("   configuration, and the members assigned by reset_marker_reader / reset_input_controller *)")
w("Definition marker_reader_state_fields : list string := %s." % coq_strs(mr_state))
w("Definition reset_marker_reader_assigns : list string := %s." % coq_strs(mr_reset))
w("Definition reset_marker_reader_cinfo_assigns : list string := %s." % coq_strs(cinfo_reset))
w("Definition input_controller_state_fields : list string := %s." % coq_strs(ic_state))
w("Definition reset_input_controller_assigns : list string := %s." % coq_strs(ic_reset))
w("")
w("(* jpeg_aritab (jaricom.c): (Qe, Next_Index_LPS, Next_Index_MPS, Switch_MPS) per state *)")
w("Definition aritab : list (Z * Z * Z * Z) :=\n  [%s]." % "; ".join("(%d, %d, %d, %d)" % (a, b, c, d) for _, a, b, c, d in ari))
w("Definition L_DC_STAT_BINS : Z := %d.\nDefinition L_AC_STAT_BINS : Z := %d." % (consts["DC_STAT_BINS"], consts["AC_STAT_BINS"]))
w("")
w("(* jdarith.c: when start_pass validates/allocates dc_stats[Td] / ac_stats[Ta], and when process_restart memsets them *)")
w("Definition sp_allocs_dc (prog : bool) (Ss Ah : Z) : bool := %s." % sp_dc)
w("Definition sp_allocs_ac (prog : bool) (Ss Ah : Z) : bool := %s." % sp_ac)
w("Definition restart_uses_dc (prog : bool) (Ss Ah : Z) : bool := %s." % pr_dc)
w("Definition restart_uses_ac (prog : bool) (Ss Ah : Z) : bool := %s." % pr_ac)
w("(* jddiffct.c: samples per row of the lossless difference / undifference buffers of a component *)")
w("Definition gen_round_up (a b : Z) : Z := ((a + b - 1) / b) * b.")
w("Definition diff_buf_row (wib h : Z) : Z := %s." % diff_w["diff_buf"])
w("Definition undiff_buf_row (wib h : Z) : Z := %s." % diff_w["undiff_buf"])
w("")
w("(* guards of the C text the model mirrors: (file, what, found verbatim modulo whitespace) *)")
w("Definition guards : list (string * string * bool) :=\n  [%s]." % ";\n   ".join(
    '("%s", "%s", %s)' % (fn, what, "true" if ok else "false") for fn, what, ok in guard_names))
w("Definition guards_all_present : bool := forallb (fun g => snd g) guards.")
print("\n".join(out))
