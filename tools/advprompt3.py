#!/usr/bin/env python3
"""Round-3 red-team prompt: like advprompt.py, plus the list of changes already tried in rounds 1 and 2."""
import json, sys, glob, subprocess
pid = sys.argv[1]
base = subprocess.check_output([sys.executable, '/verif/tools/advprompt.py', pid]).decode()
base = base.replace('/tmp/adv-%s' % pid, '/tmp/adv3-%s' % pid)
tried = []
for f in sorted(glob.glob('/verif/seeded/%s-*/README.md' % pid)):
    lines = [l.strip('# ').strip() for l in open(f).read().split('\n') if l.strip()]
    if lines and lines[0] not in tried:
        tried.append(lines[0][:200])
extra = ("\n\nEarlier red teams already produced the following changes for this property; do NOT repeat them or close variants -- "
         "pick different files, mechanisms and trigger conditions.  Favour changes that only rare inputs expose: a boundary constant "
         "or comparison direction in a rarely taken branch, an interaction of two or more parameters, the 12-bit/16-bit or lossless "
         "or arithmetic-coded variants of a path, a multi-step API sequence, an error/cleanup path, a SIMD kernel's tail handling, "
         "a table entry that few images use:\n" + "\n".join("- " + t for t in tried))
print(base.replace("\n\nFor each change i in 1..3:", extra + "\n\nFor each change i in 1..3:"))
