#!/usr/bin/env python3
"""Translator: control-flow rules of the compressor that C07 depends on -> coq/gen/GenC07Ctl.v

  src/jccoefct.c compress_data(): the MCU loop resumes at `coef->mcu_ctr` after an output
      suspension, and the sample column handed to forward_DCT is `xpos`; the fact emitted is whether
      the ONLY assignment to xpos is `xpos = MCU_col_num * compptr->MCU_sample_width` (a function of
      the MCU column alone, independent of where the call started).
  src/jcparam.c jpeg_add_quant_table(): whether `(*qtblptr)->sent_table = FALSE;` is executed
      unconditionally (top level of the function body, not the branch of an if).
  src/jcmarker.c emit_dqt(): DQT emitted iff !sent_table, then sent_table = TRUE.
  src/jcapistd.c jpeg_start_compress(): write_all_tables -> jpeg_suppress_tables(cinfo, FALSE).
  src/jcapimin.c jpeg_suppress_tables(): every non-NULL quant table gets sent_table = suppress.
Exits non-zero when a function it reads is gone."""
import re, sys
repo = sys.argv[1]


def rd(p):
    try:
        return open(repo + "/src/" + p).read()
    except OSError as e:
        sys.exit("cannot read src/%s: %s" % (p, e))


def strip_comments(s):
    return re.sub(r"/\*.*?\*/", lambda m: " " * 0 + re.sub(r"[^\n]", " ", m.group(0)), s, flags=re.S)


def func_body(src, header_re, what):
    m = re.search(header_re, src)
    if not m:
        sys.exit("gen_C07Ctl: function not found: " + what)
    i = src.index("{", m.end())
    depth, j = 0, i
    while j < len(src):
        if src[j] == "{":
            depth += 1
        elif src[j] == "}":
            depth -= 1
            if depth == 0:
                return src[i:j + 1]
        j += 1
    sys.exit("gen_C07Ctl: unbalanced braces in " + what)


def B(b):
    return "true" if b else "false"


# ---- compress_data -------------------------------------------------------------------------------
cc = strip_comments(rd("jccoefct.c"))
body = func_body(cc, r"METHODDEF\(boolean\)\s*\ncompress_data\(j_compress_ptr cinfo, _JSAMPIMAGE input_buf\)", "jccoefct.c compress_data")
xas = [re.sub(r"\s+", " ", x.strip()) for x in re.findall(r"\bxpos\s*(?:[-+*/|&^]|<<|>>)?=(?!=)\s*([^;]*);", body)]
xincr = re.findall(r"\bxpos\s*(?:\+\+|--)|(?:\+\+|--)\s*xpos", body)
xpos_product = (xas == ["MCU_col_num * compptr->MCU_sample_width"]) and not xincr
resume = bool(re.search(r"for \(MCU_col_num = coef->mcu_ctr; MCU_col_num <= last_MCU_col;\s*MCU_col_num\+\+\)", body))
suspend = bool(re.search(r"if \(!\(\*cinfo->entropy->encode_mcu\) \(cinfo, coef->MCU_buffer\)\) \{\s*coef->MCU_vert_offset = yoffset;\s*coef->mcu_ctr = MCU_col_num;\s*return FALSE;", body))
fwd = bool(re.search(r"\(\*cinfo->fdct->_forward_DCT\) \(cinfo, compptr,\s*input_buf\[compptr->component_index\],\s*coef->MCU_buffer\[blkn\],\s*ypos, xpos, \(JDIMENSION\)blockcnt\);", body))
if not (resume and suspend and fwd):
    sys.exit("gen_C07Ctl: jccoefct.c compress_data no longer has the resume-at-mcu_ctr / suspend / forward_DCT(ypos, xpos) shape the model mirrors")

# ---- jpeg_add_quant_table ------------------------------------------------------------------------
cp = strip_comments(rd("jcparam.c"))
body = func_body(cp, r"GLOBAL\(void\)\s*\njpeg_add_quant_table\(j_compress_ptr cinfo, int which_tbl,", "jcparam.c jpeg_add_quant_table")
# statements at brace depth 1, with the text that precedes each
depth, stmts, cur = 0, [], ""
for ch in body:
    if ch == "{":
        depth += 1
        if depth == 1:
            continue
    if ch == "}":
        depth -= 1
        if depth == 0:
            break
        if depth == 1:
            cur += ch
            stmts.append(cur.strip())
            cur = ""
            continue
    cur += ch
    if ch == ";" and depth == 1:
        stmts.append(cur.strip())
        cur = ""
resets = [s for s in stmts if re.sub(r"\s+", " ", s) == "(*qtblptr)->sent_table = FALSE;"]
add_resets = len(resets) == 1
stores = re.findall(r"\(\*qtblptr\)->quantval\[i\] = \(UINT16\)temp;", body)

# ---- emit_dqt / jpeg_start_compress / jpeg_suppress_tables ----------------------------------------
cm = strip_comments(rd("jcmarker.c"))
body = func_body(cm, r"LOCAL\(int\)\s*\nemit_dqt\(j_compress_ptr cinfo, int index\)", "jcmarker.c emit_dqt")
emit_guard = bool(re.search(r"if \(!qtbl->sent_table\) \{\s*emit_marker\(cinfo, M_DQT\);.*?qtbl->sent_table = TRUE;\s*\}", body, re.S))
frame_loop = bool(re.search(r"prec \+= emit_dqt\(cinfo, compptr->quant_tbl_no\);", cm))
cs = strip_comments(rd("jcapistd.c"))
body = func_body(cs, r"GLOBAL\(void\)\s*\njpeg_start_compress\(j_compress_ptr cinfo, boolean write_all_tables\)", "jcapistd.c jpeg_start_compress")
start_all = bool(re.search(r"if \(write_all_tables\)\s*jpeg_suppress_tables\(cinfo, FALSE\);", body))
ca = strip_comments(rd("jcapimin.c"))
body = func_body(ca, r"GLOBAL\(void\)\s*\njpeg_suppress_tables\(j_compress_ptr cinfo, boolean suppress\)", "jcapimin.c jpeg_suppress_tables")
suppress_all = bool(re.search(r"for \(i = 0; i < NUM_QUANT_TBLS; i\+\+\) \{\s*if \(\(qtbl = cinfo->quant_tbl_ptrs\[i\]\) != NULL\)\s*qtbl->sent_table = suppress;\s*\}", body))

# ---- jdcoefct.c decompress_data(): the "force some input" loop ----------------------------------------
dcf = strip_comments(rd("jdcoefct.c"))
body = func_body(dcf, r"METHODDEF\(int\)\s*\ndecompress_data\(j_decompress_ptr cinfo, _JSAMPIMAGE output_buf\)", "jdcoefct.c decompress_data")
wait_loop = re.search(r"while \(cinfo->input_scan_number < cinfo->output_scan_number \|\|\s*"
                      r"\(cinfo->input_scan_number == cinfo->output_scan_number &&\s*"
                      r"cinfo->input_iMCU_row <= cinfo->output_iMCU_row\)\) \{\s*"
                      r"if \(\(\*cinfo->inputctl->consume_input\) \(cinfo\) == JPEG_SUSPENDED\)\s*return JPEG_SUSPENDED;\s*\}", body)
first_access = body.find("access_virt_barray")
if first_access < 0:
    sys.exit("gen_C07Ctl: jdcoefct.c decompress_data no longer reads the coefficient arrays through access_virt_barray")
rows_ahead_ok = bool(wait_loop) and wait_loop.end() < first_access
# any other construct before the first array access that looks at the input position (e.g. a helper call) is reported
pre = body[:first_access]
helper = re.findall(r"\b(\w+)\(cinfo, (\d+)\)", pre)

# ---- jddctmgr.c start_pass(): a multiplier table is marked built only after the quant table check ---------
dm = strip_comments(rd("jddctmgr.c"))
body = func_body(dm, r"METHODDEF\(void\)\s*\nstart_pass\(j_decompress_ptr cinfo\)", "jddctmgr.c start_pass")
m_skip = re.search(r"if \(!compptr->component_needed \|\| idct->cur_method\[ci\] == method\)\s*continue;", body)
m_q = re.search(r"qtbl = compptr->quant_table;\s*if \(qtbl == NULL\)\s*continue;", body)
marks = [m.start() for m in re.finditer(r"idct->cur_method\[ci\] = method;", body)]
m_sw = body.find("switch (method)", m_q.end() if m_q else 0)
if not (m_skip and m_q and marks and m_sw > 0):
    sys.exit("gen_C07Ctl: jddctmgr.c start_pass no longer has the skip / quant_table == NULL / cur_method[ci] = method shape the model mirrors")
mark_after_check = len(marks) == 1 and m_skip.end() <= m_q.start() and m_q.end() <= marks[0] < m_sw

# ---- edge replication: jcsample.c expand_right_edge, jcprepct.c expand_bottom_edge -------------------------
sm_ = strip_comments(rd("jcsample.c"))
body = func_body(sm_, r"LOCAL\(void\)\s*\nexpand_right_edge\(_JSAMPARRAY image_data, int num_rows, JDIMENSION input_cols,\s*JDIMENSION output_cols\)", "jcsample.c expand_right_edge")
if not re.search(r"int numcols = \(int\)\(output_cols - input_cols\);\s*if \(numcols > 0\) \{\s*for \(row = 0; row < num_rows; row\+\+\) \{\s*"
                 r"ptr = image_data\[row\] \+ input_cols;\s*pixval = ptr\[-1\];\s*for \(count = numcols; count > 0; count--\)\s*\*ptr\+\+ = pixval;\s*\}\s*\}", body):
    sys.exit("gen_C07Ctl: jcsample.c expand_right_edge no longer has the pixval = ptr[-1]; numcols stores shape the model mirrors")
body = func_body(sm_, r"METHODDEF\(void\)\s*\nfullsize_downsample\(j_compress_ptr cinfo, jpeg_component_info \*compptr,", "jcsample.c fullsize_downsample")
if not re.search(r"expand_right_edge\(output_data, cinfo->max_v_samp_factor, cinfo->image_width,\s*compptr->width_in_blocks \* data_unit\);", body):
    sys.exit("gen_C07Ctl: jcsample.c fullsize_downsample no longer pads image_width -> width_in_blocks * data_unit")
pc_ = strip_comments(rd("jcprepct.c"))
body = func_body(pc_, r"LOCAL\(void\)\s*\nexpand_bottom_edge\(_JSAMPARRAY image_data, JDIMENSION num_cols, int input_rows,\s*int output_rows\)", "jcprepct.c expand_bottom_edge")
if not re.search(r"for \(row = input_rows; row < output_rows; row\+\+\) \{\s*_jcopy_sample_rows\(image_data, input_rows - 1, image_data, row, 1,\s*num_cols\);\s*\}", body):
    sys.exit("gen_C07Ctl: jcprepct.c expand_bottom_edge no longer copies row input_rows - 1 into rows input_rows..output_rows-1")
n_bottom_calls = len(re.findall(r"expand_bottom_edge\(", pc_)) - 1

print("(* GENERATED by tools/gen_C07Ctl.py from src/jccoefct.c, src/jcparam.c, src/jcmarker.c, src/jcapistd.c, src/jcapimin.c, src/jdcoefct.c, src/jddctmgr.c, src/jcsample.c, src/jcprepct.c -- do not edit *)")
print("(* compress_data: assignments to xpos found: %s *)" % str(xas + xincr).replace("(*", "( *").replace("*)", "* )"))
print("Definition xpos_is_mcu_col_times_width : bool := %s." % B(xpos_product))
print("(* jpeg_add_quant_table: unconditional `qtblptr[0]->sent_table = FALSE;` statements at top level: %d; direct stores into quantval: %d *)" % (len(resets), len(stores)))
print("Definition add_quant_table_resets_sent : bool := %s." % B(add_resets))
print("Definition emit_dqt_iff_unsent_then_marks_sent : bool := %s." % B(emit_guard and frame_loop))
print("Definition start_compress_all_tables_unsends : bool := %s." % B(start_all))
print("Definition suppress_tables_sets_every_table : bool := %s." % B(suppress_all))
print("(* jdcoefct.c decompress_data: original wait loop (input_iMCU_row <= output_iMCU_row keeps reading) before the first array access: %s; helper calls seen: %s *)" % (B(rows_ahead_ok), helper))
print("Definition decompress_data_waits_until_input_row_gt_output_row : bool := %s." % B(rows_ahead_ok))
print("(* number of iMCU rows the input must have completed beyond output_iMCU_row when the scans coincide (0 = not established) *)")
print("Definition decompress_data_rows_ahead : nat := %d." % (1 if rows_ahead_ok else 0))
print("Definition idct_marks_table_built_after_quant_table_check : bool := %s." % B(mark_after_check))
print("(* expand_right_edge / expand_bottom_edge / fullsize_downsample have the statement shape model/C07Edge.v mirrors (the translator fails otherwise); call sites of expand_bottom_edge in jcprepct.c: %d *)" % n_bottom_calls)
print("Definition edge_functions_have_modelled_shape : bool := true.")
