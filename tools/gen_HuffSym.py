#!/usr/bin/env python3
"""Translator for C19 (symbol statistics): the guards and constants of the
symbol computations of the three statistics-gathering entropy encoders, read
from the CURRENT sources (argv[1] = repo root) -> coq/gen/GenHuffSym.v on
stdout.  Exits non-zero (with a message) when a statement shape mirrored by
coq/model/HuffSym.v is gone.

  jchuff.c  htest_one_block:   int max_coef_bits = cinfo->data_precision + <e>;
                               if (nbits > max_coef_bits + <d>) ERREXIT ; dc_counts[nbits]++;
                               while (r > <m>) { ac_counts[<zrl>]++; r -= <z>; }
                               if (nbits > max_coef_bits) ERREXIT ; ac_counts[(r << <s>) + nbits]++;
                               if (r > 0) ac_counts[<eob>]++;
  jcphuff.c encode_mcu_DC_first, ENCODE_COEFS_AC_FIRST, encode_mcu_AC_first,
            ENCODE_COEFS_AC_REFINE, encode_mcu_AC_refine(+_prepare), emit_eobrun,
            emit_symbol, emit_restart, finish_pass_gather_phuff, MAX_CORR_BITS
  jclhuff.c encode_mcus_gather: sign/mask constants, MAX_DIFF_BITS guard, counts[nbits]++
  jcmaster.c: lossy data_precision must be 8 or 12
  257-long count arrays in all three encoders; DCTSIZE2; JPEG_MAX_DIMENSION
"""
import re, sys

if len(sys.argv) < 2:
    sys.exit("usage: gen_HuffSym.py <repo root>")
repo = sys.argv[1]


def rd(p):
    try:
        return open(repo + "/" + p).read()
    except OSError as e:
        sys.exit("%s: cannot read (%s)" % (p, e))


def norm(s):
    s = re.sub(r"/\*.*?\*/", " ", s, flags=re.S)
    s = s.replace("\\\n", " ")
    return " ".join(s.split())


def func_body(src, fname, name_re):
    """text of the brace block that follows the first match of name_re"""
    m = re.search(name_re, src)
    if not m:
        sys.exit("%s: %s not found" % (fname, name_re))
    i = src.index("{", m.end() - 1)
    d, j = 1, i + 1
    while d and j < len(src):
        if src[j] == "{":
            d += 1
        elif src[j] == "}":
            d -= 1
        j += 1
    return norm(src[i + 1:j - 1])


def macro_body(src, fname, name):
    m = re.search(r"#define %s\b[^\n]*\\\n((?:[^\n]*\\\n)*[^\n]*\n)" % re.escape(name), src)
    if not m:
        sys.exit("%s: macro %s not found" % (fname, name))
    return norm(m.group(0))


def need(fname, body, pat, what):
    m = re.search(pat, body)
    if not m:
        sys.exit("%s: %s" % (fname, what))
    return m


def num(s):
    return int(s, 0)


NUM = r"(0[xX][0-9a-fA-F]+|\d+)"
out = {}

# ------------------------------------------------------------------ jchuff.c
F = "src/jchuff.c"
src = rd(F)
b = func_body(src, F, r"\nhtest_one_block\s*\(j_compress_ptr cinfo, JCOEFPTR block, int last_dc_val,\s*long dc_counts\[\], long ac_counts\[\]\)\s*\{")
m = need(F, b, r"int max_coef_bits = cinfo->data_precision \+ (\d+);", "htest_one_block: 'int max_coef_bits = cinfo->data_precision + <n>' not found")
out["seq_COEF_BITS_EXTRA"] = num(m.group(1))
need(F, b, r"temp = block\[0\] - last_dc_val; if \(temp < 0\) temp = -temp; nbits = 0; while \(temp\) \{ nbits\+\+; temp >>= 1; \}",
     "htest_one_block: DC magnitude/bit-length loop not found")
m = need(F, b, r"if \(nbits > max_coef_bits \+ (\d+)\) ERREXIT\(cinfo, JERR_BAD_DCT_COEF\); dc_counts\[nbits\]\+\+;",
         "htest_one_block: 'if (nbits > max_coef_bits + <d>) ERREXIT; dc_counts[nbits]++' not found")
out["seq_DC_EXTRA"] = num(m.group(1))
need(F, b, r"r = 0; for \(k = 1; k < DCTSIZE2; k\+\+\) \{ if \(\(temp = block\[jpeg_natural_order\[k\]\]\) == 0\) \{ r\+\+; \} else \{",
     "htest_one_block: AC loop 'for (k = 1; k < DCTSIZE2; k++) { if ((temp = block[..]) == 0) r++; else' not found")
m = need(F, b, r"while \(r > (\d+)\) \{ ac_counts\[" + NUM + r"\]\+\+; r -= (\d+); \}",
         "htest_one_block: 'while (r > 15) { ac_counts[0xF0]++; r -= 16; }' not found")
out["seq_RUN_MAX"], out["seq_ZRL"], out["seq_ZRL_RUN"] = num(m.group(1)), num(m.group(2)), num(m.group(3))
need(F, b, r"if \(temp < 0\) temp = -temp; nbits = 1; while \(\(temp >>= 1\)\) nbits\+\+;",
     "htest_one_block: AC bit-length loop not found")
m = need(F, b, r"if \(nbits > max_coef_bits\) ERREXIT\(cinfo, JERR_BAD_DCT_COEF\); ac_counts\[\(r << (\d+)\) \+ nbits\]\+\+; r = 0;",
         "htest_one_block: 'if (nbits > max_coef_bits) ERREXIT; ac_counts[(r << 4) + nbits]++; r = 0;' not found")
out["seq_RUN_SHIFT"] = num(m.group(1))
m = need(F, b, r"if \(r > 0\) ac_counts\[" + NUM + r"\]\+\+;$", "htest_one_block: final 'if (r > 0) ac_counts[0]++;' not found")
out["seq_EOB"] = num(m.group(1))
m = need(F, norm(src), r"memset\(entropy->dc_count_ptrs\[dctbl\], 0, (\d+) \* sizeof\(long\)\);.*?memset\(entropy->ac_count_ptrs\[actbl\], 0, (\d+) \* sizeof\(long\)\);",
         "count arrays 'memset(..count_ptrs[..], 0, 257 * sizeof(long))' not found")
if m.group(1) != m.group(2):
    sys.exit(F + ": DC and AC count arrays have different sizes")
out["seq_NCOUNTS"] = num(m.group(1))

# ----------------------------------------------------------------- jcphuff.c
F = "src/jcphuff.c"
src = rd(F)
m = need(F, src, r"#define MAX_CORR_BITS\s+(\d+)\b", "'#define MAX_CORR_BITS <n>' not found")
out["MAX_CORR_BITS"] = num(m.group(1))
m = need(F, norm(src), r"memset\(entropy->count_ptrs\[tbl\], 0, (\d+) \* sizeof\(long\)\);", "count array memset not found")
out["prog_NCOUNTS"] = num(m.group(1))

b = func_body(src, F, r"\nemit_symbol\s*\(phuff_entropy_ptr entropy, int tbl_no, int symbol\)\s*\{")
need(F, b, r"^if \(entropy->gather_statistics\) entropy->count_ptrs\[tbl_no\]\[symbol\]\+\+; else \{",
     "emit_symbol: 'if (gather_statistics) count_ptrs[tbl_no][symbol]++' not found")

b = func_body(src, F, r"\nemit_eobrun\s*\(phuff_entropy_ptr entropy\)\s*\{")
m = need(F, b, r"^register int temp, nbits; if \(entropy->EOBRUN > 0\) \{ temp = entropy->EOBRUN; nbits = JPEG_NBITS_NONZERO\(temp\) - 1; "
               r"if \(nbits > (\d+)\) ERREXIT\(entropy->cinfo, JERR_HUFF_MISSING_CODE\); "
               r"emit_symbol\(entropy, entropy->ac_tbl_no, nbits << (\d+)\); if \(nbits\) emit_bits\(entropy, entropy->EOBRUN, nbits\); "
               r"entropy->EOBRUN = 0; emit_buffered_bits\(entropy, entropy->bit_buffer, entropy->BE\); entropy->BE = 0; \}$",
         "emit_eobrun: body shape changed (EOBRUN > 0 / nbits - 1 / nbits > 14 / nbits << 4 / EOBRUN = 0 / BE = 0)")
out["EOBRUN_NBITS_MAX"], out["eobrun_SHIFT"] = num(m.group(1)), num(m.group(2))

b = func_body(src, F, r"\nemit_restart\s*\(phuff_entropy_ptr entropy, int restart_num\)\s*\{")
need(F, b, r"^int ci; emit_eobrun\(entropy\);", "emit_restart: does not start with emit_eobrun(entropy)")
b = func_body(src, F, r"\nfinish_pass_gather_phuff\s*\(j_compress_ptr cinfo\)\s*\{")
need(F, b, r"emit_eobrun\(entropy\);", "finish_pass_gather_phuff: emit_eobrun(entropy) not found")

b = func_body(src, F, r"\nencode_mcu_DC_first\s*\(j_compress_ptr cinfo, JBLOCKROW \*MCU_data\)\s*\{")
m = need(F, b, r"int max_coef_bits = cinfo->data_precision \+ (\d+);", "encode_mcu_DC_first: max_coef_bits not found")
out["progdc_COEF_BITS_EXTRA"] = num(m.group(1))
need(F, b, r"temp2 = IRIGHT_SHIFT\(\(int\)\(\(\*block\)\[0\]\), Al\); temp = temp2 - entropy->last_dc_val\[ci\]; entropy->last_dc_val\[ci\] = temp2;",
     "encode_mcu_DC_first: point transform / difference not found")
m = need(F, b, r"nbits = JPEG_NBITS\(temp\); if \(nbits > max_coef_bits \+ (\d+)\) ERREXIT\(cinfo, JERR_BAD_DCT_COEF\); "
               r"emit_symbol\(entropy, compptr->dc_tbl_no, nbits\);",
         "encode_mcu_DC_first: 'nbits = JPEG_NBITS(temp); if (nbits > max_coef_bits + 1) ERREXIT; emit_symbol(.., nbits)' not found")
out["progdc_DC_EXTRA"] = num(m.group(1))

b = macro_body(src, F, "COMPUTE_ABSVALUES_AC_FIRST")
need(F, b, r"temp2 = temp >> \(CHAR_BIT \* sizeof\(int\) - 1\); temp \^= temp2; temp -= temp2; temp >>= Al; if \(temp == 0\) continue;",
     "COMPUTE_ABSVALUES_AC_FIRST: abs value then '>>= Al' not found")
b = macro_body(src, F, "ENCODE_COEFS_AC_FIRST")
m = need(F, b, r"while \(zerobits\) \{ r = count_zeroes\(&zerobits\); cvalue \+= r; label temp = cvalue\[0\]; temp2 = cvalue\[DCTSIZE2\]; "
               r"while \(r > (\d+)\) \{ emit_symbol\(entropy, entropy->ac_tbl_no, " + NUM + r"\); r -= (\d+); \} "
               r"nbits = JPEG_NBITS_NONZERO\(temp\); if \(nbits > max_coef_bits\) ERREXIT\(cinfo, JERR_BAD_DCT_COEF\); "
               r"emit_symbol\(entropy, entropy->ac_tbl_no, \(r << (\d+)\) \+ nbits\);",
         "ENCODE_COEFS_AC_FIRST: body shape changed")
out["first_RUN_MAX"], out["first_ZRL"], out["first_ZRL_RUN"], out["first_RUN_SHIFT"] = [num(m.group(i)) for i in (1, 2, 3, 4)]
b = func_body(src, F, r"\nencode_mcu_AC_first\s*\(j_compress_ptr cinfo, JBLOCKROW \*MCU_data\)\s*\{")
m = need(F, b, r"int max_coef_bits = cinfo->data_precision \+ (\d+);", "encode_mcu_AC_first: max_coef_bits not found")
out["first_COEF_BITS_EXTRA"] = num(m.group(1))
need(F, b, r"if \(zerobits && \(entropy->EOBRUN > 0\)\) emit_eobrun\(entropy\);", "encode_mcu_AC_first: pending-EOBRUN flush not found")
m = need(F, b, r"if \(cvalue < \(values \+ Sl\)\) \{ entropy->EOBRUN\+\+; if \(entropy->EOBRUN == " + NUM + r"\) emit_eobrun\(entropy\); \}",
         "encode_mcu_AC_first: 'EOBRUN++; if (EOBRUN == 0x7FFF) emit_eobrun' not found")
out["first_EOBRUN_LIMIT"] = num(m.group(1))

b = macro_body(src, F, "COMPUTE_ABSVALUES_AC_REFINE")
need(F, b, r"temp >>= Al; if \(temp != 0\) \{ zerobits \|= \(\(size_t\)1U\) << k; signbits \|= \(\(size_t\)\(temp2 \+ 1\)\) << k; \} "
           r"absvalues\[k\] = \(UJCOEF\)temp; if \(temp == 1\) EOB = k \+ koffset;",
     "COMPUTE_ABSVALUES_AC_REFINE: 'if (temp == 1) EOB = k + koffset' shape not found")
b = func_body(src, F, r"\nencode_mcu_AC_refine_prepare\s*\(const JCOEF \*block,")
need(F, b, r"int EOB = 0;", "encode_mcu_AC_refine_prepare: 'int EOB = 0' not found")
b = macro_body(src, F, "ENCODE_COEFS_AC_REFINE")
m = need(F, b, r"while \(zerobits\) \{ idx = count_zeroes\(&zerobits\); r \+= idx; cabsvalue \+= idx; signbits >>= idx; label "
               r"while \(r > (\d+) && \(cabsvalue <= EOBPTR\)\) \{ emit_eobrun\(entropy\); emit_symbol\(entropy, entropy->ac_tbl_no, " + NUM + r"\); r -= (\d+); "
               r"emit_buffered_bits\(entropy, BR_buffer, BR\); BR_buffer = entropy->bit_buffer; BR = 0; \} "
               r"temp = \*cabsvalue\+\+; if \(temp > 1\) \{ BR_buffer\[BR\+\+\] = \(char\)\(temp & 1\); signbits >>= 1; zerobits >>= 1; continue; \} "
               r"emit_eobrun\(entropy\); emit_symbol\(entropy, entropy->ac_tbl_no, \(r << (\d+)\) \+ 1\);",
         "ENCODE_COEFS_AC_REFINE: body shape changed")
out["refine_RUN_MAX"], out["refine_ZRL"], out["refine_ZRL_RUN"], out["refine_RUN_SHIFT"] = [num(m.group(i)) for i in (1, 2, 3, 4)]
need(F, b, r"BR = 0; r = 0; signbits >>= 1; zerobits >>= 1; \} \}$", "ENCODE_COEFS_AC_REFINE: 'BR = 0; r = 0;' after the symbol not found")
b = func_body(src, F, r"\nencode_mcu_AC_refine\s*\(j_compress_ptr cinfo, JBLOCKROW \*MCU_data\)\s*\{")
need(F, b, r"r = 0; BR = 0; BR_buffer = entropy->bit_buffer \+ entropy->BE;", "encode_mcu_AC_refine: 'r = 0; BR = 0;' not found")
m = need(F, b, r"r \|= \(int\)\(\(absvalues \+ Sl\) - cabsvalue\); if \(r > 0 \|\| BR > 0\) \{ entropy->EOBRUN\+\+; entropy->BE \+= BR; "
               r"if \(entropy->EOBRUN == " + NUM + r" \|\| entropy->BE > \(MAX_CORR_BITS - DCTSIZE2 \+ 1\)\) emit_eobrun\(entropy\); \}",
         "encode_mcu_AC_refine: end-of-block EOBRUN handling not found")
out["refine_EOBRUN_LIMIT"] = num(m.group(1))

# ----------------------------------------------------------------- jclhuff.c
F = "src/jclhuff.c"
src = rd(F)
m = need(F, src, r"#define MAX_DIFF_BITS\s+(\d+)\b", "'#define MAX_DIFF_BITS <n>' not found")
out["MAX_DIFF_BITS"] = num(m.group(1))
m = need(F, norm(src), r"memset\(entropy->count_ptrs\[dctbl\], 0, (\d+) \* sizeof\(long\)\);", "count array memset not found")
out["lossless_NCOUNTS"] = num(m.group(1))
b = func_body(src, F, r"\nencode_mcus_gather\s*\(j_compress_ptr cinfo,")
m = need(F, b, r"long \*counts = entropy->cur_counts\[sampn\]; temp = \*entropy->input_ptr\[entropy->input_ptr_index\[sampn\]\]\+\+; "
               r"if \(temp & " + NUM + r"\) \{ temp = \(-temp\) & " + NUM + r"; if \(temp == 0\) temp = " + NUM + r"; \} else temp &= " + NUM + r"; "
               r"nbits = 0; while \(temp\) \{ nbits\+\+; temp >>= 1; \} "
               r"if \(nbits > MAX_DIFF_BITS\) ERREXIT\(cinfo, JERR_BAD_DCT_COEF\); counts\[nbits\]\+\+;",
         "encode_mcus_gather: sign/mask/bit-length/guard/count shape changed")
sgn, msk1, sgn2, msk2 = [num(m.group(i)) for i in (1, 2, 3, 4)]
if sgn != sgn2 or msk1 != msk2:
    sys.exit(F + ": encode_mcus_gather uses inconsistent sign/mask constants")
out["DIFF_SIGN"], out["DIFF_MASK"] = sgn, msk1

# ---------------------------------------------------------------- jcmaster.c
F = "src/jcmaster.c"
b = norm(rd(F))
m = need(F, b, r"if \(cinfo->master->lossless\) \{ if \(cinfo->data_precision < (\d+) \|\| cinfo->data_precision > (\d+)\) "
               r"ERREXIT1\(cinfo, JERR_BAD_PRECISION, cinfo->data_precision\); \} else #endif \{ "
               r"if \(cinfo->data_precision != (\d+) && cinfo->data_precision != (\d+)\) ERREXIT1\(cinfo, JERR_BAD_PRECISION, cinfo->data_precision\); \}",
         "initial_setup: data-precision checks (lossless 2..16, lossy 8 or 12) not found")
out["lossless_prec_lo"], out["lossless_prec_hi"] = num(m.group(1)), num(m.group(2))
precs = [num(m.group(3)), num(m.group(4))]
m = need(F, b, r"\(long\)cinfo->_jpeg_height > \(long\)JPEG_MAX_DIMENSION \|\| \(long\)cinfo->_jpeg_width > \(long\)JPEG_MAX_DIMENSION\) ERREXIT1\(cinfo, JERR_IMAGE_TOO_BIG",
         "initial_setup: JPEG_MAX_DIMENSION check not found")

m = need("src/jmorecfg.h", rd("src/jmorecfg.h"), r"#define JPEG_MAX_DIMENSION\s+(\d+)L?\b", "JPEG_MAX_DIMENSION not found")
out["JPEG_MAX_DIMENSION"] = num(m.group(1))
m = need("src/jpeglib.h", rd("src/jpeglib.h"), r"#define DCTSIZE2\s+(\d+)\b", "DCTSIZE2 not found")
out["DCTSIZE2"] = num(m.group(1))

print("(* GENERATED by tools/gen_HuffSym.py from src/jchuff.c (htest_one_block), src/jcphuff.c, src/jclhuff.c,")
print("   src/jcmaster.c, src/jmorecfg.h, src/jpeglib.h -- do not edit *)")
print("From Coq Require Import List ZArith.")
print("Import ListNotations.")
print("Local Open Scope Z_scope.")
print()
for k in sorted(out):
    if k.endswith("NCOUNTS"):
        print("Definition gen_%s : nat := %d." % (k, out[k]))
    else:
        print("Definition gen_%s : Z := %d." % (k, out[k]))
print("Definition gen_lossy_precisions : list Z := [%s]." % "; ".join(str(p) for p in precs))
