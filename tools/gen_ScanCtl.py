#!/usr/bin/env python3
"""Translator for C03 (round 3 seeds): control statements around the entropy coders.
  src/jcarith.c  finish_pass(): every emit_byte() site, in order, with "is it followed by the 0x00 stuffing?",
                 the termination masks / shifts (D.1.8) and the "discard trailing zero bytes" tests
  src/jdhuff.c   decode_mcu(): fast-path eligibility 'bytes_in_buffer < BUFSIZE * (size_t)cinfo->blocks_in_MCU', BUFSIZE
  src/jccoefct.c compress_data() / compress_output(), src/jctrans.c compress_output():
                 'coef->mcu_ctr = 0;' after the MCU-column loop of every MCU row; loops start at coef->mcu_ctr / MCU_vert_offset
Fails (exit non-zero) when a function or the loop skeleton is gone; a missing statement inside is translated to false."""
import re, sys
repo = sys.argv[1]


def rd(p):
    try:
        return re.sub(r"/\*.*?\*/", "", open(repo + "/" + p).read(), flags=re.S)
    except OSError as e:
        sys.exit("%s: cannot read (%s)" % (p, e))


def func(src, head, what):
    i = src.rfind(head)
    if i < 0:
        sys.exit("function not found: " + what)
    j = src.find("\n}\n", i)
    return src[i:j]


def num(s):
    s = s.strip().rstrip("UL")
    return int(s, 16) if s.lower().startswith("0x") else int(s)


a = rd("src/jcarith.c")
fp = func(a, "finish_pass(j_compress_ptr cinfo)", "jcarith.c finish_pass")
fp = fp[:fp.find("\n}") if fp.find("\n}") > 0 else len(fp)]
sites = []
toks = list(re.finditer(r"emit_byte\(\s*(.*?)\s*,\s*cinfo\s*\)\s*;", fp))
codes = {"e->buffer + 1": 1, "e->buffer": 2, "0xFF": 3, "(e->c >> 19) & 0xFF": 4, "(e->c >> 11) & 0xFF": 5}
for n, m in enumerate(toks):
    x = " ".join(m.group(1).split())
    if x == "0x00":
        continue
    if x not in codes:
        sys.exit("jcarith.c finish_pass: unexpected emit_byte argument: " + x)
    rest = fp[m.end():m.end() + 160]
    if x == "0xFF":
        stuffed = re.match(r"\s*emit_byte\(\s*0x00\s*,\s*cinfo\s*\)\s*;", rest) is not None
    else:
        stuffed = re.match(r"\s*if\s*\(\s*\(?\s*%s\s*\)?\s*==\s*0xFF\s*\)\s*emit_byte\(\s*0x00\s*,\s*cinfo\s*\)\s*;" % re.escape(x), rest) is not None
    sites.append((codes[x], stuffed))
consts = {}
for name, pat in [("gen_fin_round_mask", r"\(e->a - 1 \+ e->c\)\s*&\s*(0x[0-9A-Fa-f]+)UL"), ("gen_fin_round_add", r"e->c\s*=\s*temp\s*\+\s*(0x[0-9A-Fa-f]+)L"),
                  ("gen_fin_overflow_mask", r"if\s*\(e->c\s*&\s*(0xF[0-9A-Fa-f]+)UL\)"), ("gen_fin_bytes_mask", r"if\s*\(e->c\s*&\s*(0x7FF[0-9A-Fa-f]+)L\)"),
                  ("gen_fin_second_mask", r"if\s*\(e->c\s*&\s*(0x7F8[0-9A-Fa-f]+)L\)")]:
    m = re.search(pat, fp)
    if not m:
        sys.exit("jcarith.c finish_pass: construct for %s not found" % name)
    consts[name] = num(m.group(1))
if not re.search(r"if\s*\(e->buffer\s*==\s*0\)\s*\+\+e->zc;", fp):
    sys.exit("jcarith.c finish_pass: 'if (e->buffer == 0) ++e->zc' (zero bytes are held back) not found")
if not re.search(r"e->c\s*<<=\s*e->ct;", fp):
    sys.exit("jcarith.c finish_pass: 'e->c <<= e->ct' not found")
er = func(a, "emit_restart(j_compress_ptr cinfo, int restart_num)", "jcarith.c emit_restart")
restart_flushes = re.search(r"finish_pass\(cinfo\);\s*emit_byte\(0xFF, cinfo\);\s*emit_byte\(JPEG_RST0 \+ restart_num, cinfo\);", er) is not None

d = rd("src/jdhuff.c")
dm = func(d, "decode_mcu(j_decompress_ptr cinfo, JBLOCKROW *MCU_data)", "jdhuff.c decode_mcu")
m = re.search(r"cinfo->src->bytes_in_buffer\s*<\s*BUFSIZE(\s*\*\s*\(size_t\)\s*cinfo->blocks_in_MCU)?\s*\|\|", dm)
if not m:
    sys.exit("jdhuff.c decode_mcu: fast-path test on src->bytes_in_buffer / BUFSIZE not found")
per_block = m.group(1) is not None
mb = re.findall(r"#define\s+BUFSIZE\s+\(DCTSIZE2\s*\*\s*(\d+)\)", d)
if len(set(mb)) != 1:
    sys.exit("jdhuff.c: '#define BUFSIZE (DCTSIZE2 * 8)' not found / not unique")
bufsize = 64 * int(mb[0])


def ctl(src, head, what):
    f = func(src, head, what)
    if not re.search(r"for\s*\(yoffset\s*=\s*coef->MCU_vert_offset;\s*yoffset\s*<\s*coef->MCU_rows_per_iMCU_row;\s*yoffset\+\+\)", f):
        sys.exit(what + ": 'for (yoffset = coef->MCU_vert_offset; ...)' not found")
    if not re.search(r"for\s*\(MCU_col_num\s*=\s*coef->mcu_ctr;\s*MCU_col_num\s*<=?\s*(last_MCU_col|cinfo->MCUs_per_row)", f):
        sys.exit(what + ": 'for (MCU_col_num = coef->mcu_ctr; ...)' not found")
    if not re.search(r"coef->MCU_vert_offset\s*=\s*yoffset;\s*coef->mcu_ctr\s*=\s*MCU_col_num;\s*return FALSE;", f):
        sys.exit(what + ": suspension bookkeeping (MCU_vert_offset = yoffset; mcu_ctr = MCU_col_num; return FALSE) not found")
    # the reset must sit after the column loop, inside the yoffset loop, before 'coef->iMCU_row_num++'
    k = f.find("return FALSE;")
    tail = f[k:f.find("coef->iMCU_row_num++")]
    return re.search(r"\}\s*\}\s*coef->mcu_ctr\s*=\s*0;\s*\}", tail) is not None


cc = rd("src/jccoefct.c")
r_data = ctl(cc, "compress_data(j_compress_ptr cinfo,", "jccoefct.c compress_data")
r_out = ctl(cc, "compress_output(j_compress_ptr cinfo,", "jccoefct.c compress_output")
r_trans = ctl(rd("src/jctrans.c"), "compress_output(j_compress_ptr cinfo,", "jctrans.c compress_output")
si = func(cc, "start_iMCU_row(j_compress_ptr cinfo)", "jccoefct.c start_iMCU_row")
if not re.search(r"coef->mcu_ctr\s*=\s*0;\s*coef->MCU_vert_offset\s*=\s*0;", si):
    sys.exit("jccoefct.c start_iMCU_row: 'mcu_ctr = 0; MCU_vert_offset = 0;' not found")

b = lambda x: "true" if x else "false"
print("(* GENERATED by tools/gen_ScanCtl.py -- do not edit *)")
print("From Coq Require Import List ZArith Bool.\nImport ListNotations.\nLocal Open Scope Z_scope.\n")
print("(* jcarith.c finish_pass: emit_byte sites in order (1 buffer+1, 2 buffer, 3 stacked 0xFF, 4 (c>>19)&0xFF, 5 (c>>11)&0xFF), stuffed? *)")
print("Definition gen_fin_sites : list (Z * bool) := [%s]." % "; ".join("(%d, %s)" % (c, b(s)) for c, s in sites))
for k, v in consts.items():
    print("Definition %s : Z := %d." % (k, v))
print("Definition gen_restart_runs_finish_pass : bool := %s." % b(restart_flushes))
print("Definition gen_fast_lookahead_per_block : bool := %s.   (* jdhuff.c decode_mcu: BUFSIZE * blocks_in_MCU *)" % b(per_block))
print("Definition gen_dhuff_bufsize : Z := %d." % bufsize)
print("Definition gen_ctr_reset_compress_data : bool := %s.   (* jccoefct.c: coef->mcu_ctr = 0 after every MCU row *)" % b(r_data))
print("Definition gen_ctr_reset_compress_output : bool := %s." % b(r_out))
print("Definition gen_ctr_reset_trans_output : bool := %s.   (* jctrans.c *)" % b(r_trans))
