#!/bin/bash
# usage: confirm_seed.sh Cxx i     (uses /tmp/adv-Cxx worktree and /tmp/adv-Cxx-out/{patch,demo,build_demo}i.*)
# Confirms: patched tree compiles, full ctest passes, demo exits 0 unchanged / non-zero changed.
# On success copies the artefacts to /verif/seeded/Cxx-i/ with meta.json.
set -u
P=$1; I=$2; PFX=${ADVPFX:-adv}; OFF=${SEEDOFF:-0}; N=$((I+OFF)); WT=/tmp/$PFX-$P; OUT=/tmp/$PFX-$P-out; DEST=/verif/seeded/$P-$N
cd $WT || exit 2
git checkout -q -- . ; git clean -fdq -e _build0 -e _build1 2>/dev/null
# bring the worktree to /repo's current HEAD so that patches are confirmed against the current code
git checkout -q --detach $(git -C /repo rev-parse HEAD) 2>/dev/null
B0=$WT/_build0; B1=$WT/_build1
if [ ! -f $B0/.done ] || [ "$(cat $B0/.done)" != "$(git rev-parse HEAD)" ]; then
  rm -rf $B0; cmake -G Ninja -S $WT -B $B0 -DCMAKE_BUILD_TYPE=RelWithDebInfo >/dev/null && cmake --build $B0 >/dev/null 2>&1 || { echo "unchanged build failed"; exit 3; }
  git rev-parse HEAD > $B0/.done
fi
cd $OUT
bash build_demo$I.sh $WT $B0 >/tmp/confirm_${P}_${I}.log 2>&1 || { echo "demo build (unchanged) failed"; tail -5 /tmp/confirm_${P}_${I}.log; exit 4; }
DEMO=./demo$I; [ -x $DEMO ] || DEMO=$(ls -t | head -1)
( timeout 300 ./demo$I >/tmp/confirm_demo0.log 2>&1 ); RC0=$?
cd $WT; git apply $OUT/patch$I.diff || { echo "patch does not apply to current HEAD"; exit 5; }
rm -rf $B1; cmake -G Ninja -S $WT -B $B1 -DCMAKE_BUILD_TYPE=RelWithDebInfo >/dev/null && cmake --build $B1 >/dev/null 2>&1 || { echo "patched build failed"; git checkout -q -- .; exit 6; }
CT=$(ctest --test-dir $B1 -j8 --timeout 900 2>&1 | grep "tests passed\|tests failed" | tail -1)
cd $OUT; bash build_demo$I.sh $WT $B1 >/tmp/confirm_${P}_${I}.log 2>&1 || { echo "demo build (patched) failed"; cd $WT; git checkout -q -- .; exit 7; }
( timeout 300 ./demo$I >/tmp/confirm_demo1.log 2>&1 ); RC1=$?
cd $WT; git checkout -q -- .; rm -rf $B1
echo "$P-$N: unchanged demo rc=$RC0, patched demo rc=$RC1, ctest: $CT"
if [ $RC0 -eq 0 ] && [ $RC1 -ne 0 ] && echo "$CT" | grep -q "100% tests passed"; then
  mkdir -p $DEST; cp $OUT/patch$I.diff $DEST/patch.diff; cp $OUT/demo$I.c $DEST/demo.c; cp $OUT/build_demo$I.sh $DEST/build_demo.sh; cp $OUT/README$I.md $DEST/README.md
  python3 - "$P" "$N" "$RC0" "$RC1" "$CT" <<'PY'
import json,sys
p,i,rc0,rc1,ct=sys.argv[1:6]
readme=open(f'/verif/seeded/{p}-{i}/README.md').read()
json.dump({"property":p,"breaks":readme[:1500],"confirmed_by_lead":{"repo_head":__import__('subprocess').check_output(['git','-C','/repo','rev-parse','--short','HEAD']).decode().strip(),
  "unchanged_demo_rc":int(rc0),"patched_demo_rc":int(rc1),"ctest_on_patched_tree":ct,
  "commands":["cmake -G Ninja + cmake --build (unchanged and patched scratch worktree)","ctest -j8 --timeout 900 (patched)","build_demo.sh <tree> <build>; ./demo (both trees)"]},
  "detected_by_check":None},open(f'/verif/seeded/{p}-{i}/meta.json','w'),indent=1)
PY
  echo CONFIRMED
else
  echo NOT-CONFIRMED; exit 1
fi
