#!/usr/bin/env python3
"""Translator for C05: constants of the SIMD kernels and of their C counterparts.

Reads (argv[1] = tree under test)
  src/jccolor.c, src/jdcolor.c, src/jdmerge.c : SCALEBITS, every FIX(x) literal, the
      table-initialisation lines (slot -> linear function coef*i + addend, shifted or not)
  src/jfdctint.c, src/jidctint.c, src/jidctred.c, src/jfdctfst.c, src/jidctfst.c :
      CONST_BITS, PASS1_BITS, #define FIX_x_xxx ((JLONG)n) with the decimal in the comment
  simd/x86_64/<kernel>-{sse2,avx2}.asm : %define NAME expr, NAME equ expr, constant rows
      (NAME times N dw/dd/db e1, e2, ...), the two "bias pattern" immediates of jcsample,
      and per file the multiset of (mnemonic, constant-or-immediate operand) uses
  simd/x86_64/jsimd.c : per jsimd_can_* gate, which preconditions it tests
  src/jcdctmgr.c : the quantiser fallback gate (compute_reciprocal()==0 -> C quantize)
Prints coq/gen/GenSimdConst.v.  Exits non-zero when a construct it reads is gone.
"""
import re, sys, os
from fractions import Fraction

repo = sys.argv[1]
out = []
def P(s=""):
    out.append(s)

def die(msg):
    sys.exit("gen_SimdConst: " + msg)

def rd(rel):
    p = os.path.join(repo, rel)
    if not os.path.exists(p):
        die(rel + " not found")
    return open(p, errors="replace").read()

def strip_c_comments(s):
    return re.sub(r"/\*.*?\*/", " ", s, flags=re.S)

def zlit(n):
    return "(%d)" % n if n < 0 else "%d" % n

def coq_id(s):
    return re.sub(r"[^A-Za-z0-9_]", "_", s)

# ----------------------------------------------------------------------------
# C colour files
# ----------------------------------------------------------------------------
fix_literals = []   # (file, text, num, den, bits, value)

def fix_value(txt, bits):
    # C: (JLONG)((x) * (1L << SCALEBITS) + 0.5) in double arithmetic; Python floats are C doubles
    return int(float(txt) * (1 << bits) + 0.5)

def c_env(src, fname):
    m = re.search(r"#define\s+SCALEBITS\s+(\d+)", src)
    if not m:
        die(fname + ": #define SCALEBITS gone")
    bits = int(m.group(1))
    if not re.search(r"#define\s+FIX\(x\)\s+\(\(JLONG\)\(\(x\)\s*\*\s*\(1L\s*<<\s*SCALEBITS\)\s*\+\s*0\.5\)\)", src):
        die(fname + ": FIX(x) is no longer ((JLONG)((x) * (1L << SCALEBITS) + 0.5))")
    if not re.search(r"#define\s+ONE_HALF\s+\(\(JLONG\)1\s*<<\s*\(SCALEBITS\s*-\s*1\)\)", src):
        die(fname + ": ONE_HALF is no longer ((JLONG)1 << (SCALEBITS - 1))")
    env = {"SCALEBITS": bits, "ONE_HALF": 1 << (bits - 1)}
    if re.search(r"#define\s+CBCR_OFFSET\s+\(\(JLONG\)_CENTERJSAMPLE\s*<<\s*SCALEBITS\)", src):
        env["CBCR_OFFSET"] = 128 << bits          # _CENTERJSAMPLE for BITS_IN_JSAMPLE == 8
    return bits, env

def eval_linear(expr, var, env, bits, fname):
    """expr is linear in `var`; returns (coef, addend)."""
    def sub_fix(m):
        txt = m.group(1)
        v = fix_value(txt, bits)
        fr = Fraction(txt)
        fix_literals.append((fname, txt, fr.numerator, fr.denominator, bits, v))
        return str(v)
    e = re.sub(r"FIX\(\s*([0-9.]+)\s*\)", sub_fix, expr)
    for k, v in env.items():
        e = re.sub(r"\b%s\b" % k, str(v), e)
    if not re.fullmatch(r"[\s0-9()+\-*a-z]*", e) or re.search(r"[a-z]+", e) and set(re.findall(r"[a-z]+", e)) != {var}:
        die("%s: cannot evaluate table initialiser '%s'" % (fname, expr.strip()))
    f = lambda x: eval(e, {"__builtins__": {}}, {var: x})
    a0, a1, a2 = f(0), f(1), f(2)
    if a2 - a1 != a1 - a0:
        die("%s: table initialiser not linear: %s" % (fname, expr.strip()))
    return a1 - a0, a0

def c_color_tables():
    # ---- jccolor.c : rgb_ycc_tab[i + SLOT_OFF] = expr;
    src = strip_c_comments(rd("src/jccolor.c"))
    bits, env = c_env(src, "jccolor.c")
    if "CBCR_OFFSET" not in env:
        die("jccolor.c: CBCR_OFFSET definition gone")
    P("(* ---- src/jccolor.c : rgb_ycc_start() table, slot -> coef * i + addend ---- *)")
    P("Definition c_jccolor_SCALEBITS : Z := %d." % bits)
    slots = {}
    for m in re.finditer(r"rgb_ycc_tab\[i \+ ([A-Z_]+)_OFF\]\s*=\s*([^;]+);", src):
        slots[m.group(1)] = eval_linear(m.group(2), "i", env, bits, "jccolor.c")
    need = ["R_Y", "G_Y", "B_Y", "R_CB", "G_CB", "B_CB", "R_CR", "G_CR", "B_CR"]
    for s in need:
        if s not in slots:
            # B_CR / R_CR may be shared: "#define R_CR_OFF B_CB_OFF"
            mm = re.search(r"#define\s+%s_OFF\s+([A-Z_]+)_OFF\b" % s, src)
            if mm and mm.group(1) in slots:
                slots[s] = slots[mm.group(1)]
            else:
                die("jccolor.c: table slot %s_OFF initialiser not found" % s)
        P("Definition c_jccolor_%s : Z * Z := (%s, %s)." % (s, zlit(slots[s][0]), zlit(slots[s][1])))
    # the conversion loop: three sums of three table entries shifted by SCALEBITS
    body = rd("src/jccolext.c")
    for comp, names in (("Y", ("R_Y", "G_Y", "B_Y")), ("CB", ("R_CB", "G_CB", "B_CB")), ("CR", ("R_CR", "G_CR", "B_CR"))):
        pat = r"\(\(ctab\[r \+ %s_OFF\] \+ ctab\[g \+ %s_OFF\] \+\s*ctab\[b \+ %s_OFF\]\) >> SCALEBITS\)" % names
        if not re.search(pat, body):
            die("jccolext.c: the %s sum is no longer (ctab[r+..]+ctab[g+..]+ctab[b+..]) >> SCALEBITS" % comp)
    P()
    # ---- jdcolor.c / jdmerge.c : build_ycc_rgb_table
    for fname, obj in (("jdcolor.c", "cconvert"), ("jdmerge.c", "upsample")):
        src = strip_c_comments(rd("src/" + fname))
        bits, env = c_env(src, fname)
        tag = coq_id(fname[:-2])
        P("(* ---- src/%s : build_ycc_rgb_table(), x = i - CENTERJSAMPLE ---- *)" % fname)
        P("Definition c_%s_SCALEBITS : Z := %d." % (tag, bits))
        for tab in ("Cr_r", "Cb_b"):
            m = re.search(r"%s->%s_tab\[i\]\s*=\s*\(int\)\s*RIGHT_SHIFT\(([^;]+),\s*SCALEBITS\);" % (obj, tab), src)
            if not m:
                die("%s: %s_tab initialiser (RIGHT_SHIFT(..., SCALEBITS)) not found" % (fname, tab))
            c, a = eval_linear(m.group(1), "x", env, bits, fname)
            P("Definition c_%s_%s : Z * Z := (%s, %s).   (* RIGHT_SHIFT(coef * x + addend, SCALEBITS) *)" % (tag, tab, zlit(c), zlit(a)))
        for tab in ("Cr_g", "Cb_g"):
            m = re.search(r"%s->%s_tab\[i\]\s*=\s*([^;]+);" % (obj, tab), src)
            if not m:
                die("%s: %s_tab initialiser not found" % (fname, tab))
            c, a = eval_linear(m.group(1), "x", env, bits, fname)
            P("Definition c_%s_%s : Z * Z := (%s, %s).   (* coef * x + addend, not shifted *)" % (tag, tab, zlit(c), zlit(a)))
        if not re.search(r"for \(i = 0, x = -_CENTERJSAMPLE; i <= _MAXJSAMPLE; i\+\+, x\+\+\)", src):
            die(fname + ": build_ycc_rgb_table loop header changed")
        P()
    # the per-pixel uses
    ext = rd("src/jdcolext.c")
    if not re.search(r"range_limit\[y \+ Crrtab\[cr\]\]", ext) or not re.search(r"range_limit\[y \+ Cbbtab\[cb\]\]", ext) or \
       not re.search(r"RIGHT_SHIFT\(Cbgtab\[cb\] \+ Crgtab\[cr\],\s*SCALEBITS\)", ext):
        die("jdcolext.c: ycc_rgb_convert_internal pixel formulae changed")
    mrg = rd("src/jdmrgext.c")
    if len(re.findall(r"cgreen = \(int\)RIGHT_SHIFT\(Cbgtab\[cb\] \+ Crgtab\[cr\], SCALEBITS\);", mrg)) < 3 or \
       "cred = Crrtab[cr];" not in mrg or "cblue = Cbbtab[cb];" not in mrg:
        die("jdmrgext.c: merged upsampling chroma formulae changed")

# ----------------------------------------------------------------------------
# C sample files: rounding constants as written
# ----------------------------------------------------------------------------
def c_sample():
    cs = strip_c_comments(rd("src/jcsample.c"))
    ds = strip_c_comments(rd("src/jdsample.c"))
    P("(* ---- src/jcsample.c / src/jdsample.c : rounding constants as written ---- *)")
    # h2v1_downsample: bias = 0; ... (inptr[0] + inptr[1] + bias) >> 1; bias ^= 1;
    m = re.search(r"h2v1_downsample\(.*?\n\}", cs, re.S)
    if not m:
        die("jcsample.c: h2v1_downsample gone")
    b = m.group(0)
    m1 = re.search(r"bias = (\d+);.*?\(\(inptr\[0\] \+ inptr\[1\] \+ bias\) >> (\d+)\);\s*bias \^= (\d+);", b, re.S)
    if not m1:
        die("jcsample.c: h2v1_downsample kernel expression changed")
    P("Definition c_h2v1_down : Z * Z * Z := (%s, %s, %s).   (* initial bias, shift, bias xor *)" % m1.groups())
    m = re.search(r"\nh2v2_downsample\(.*?\n\}", cs, re.S)
    if not m:
        die("jcsample.c: h2v2_downsample gone")
    b = m.group(0)
    m2 = re.search(r"bias = (\d+);.*?\(\(inptr0\[0\] \+ inptr0\[1\] \+ inptr1\[0\] \+\s*inptr1\[1\] \+ bias\) >> (\d+)\);\s*bias \^= (\d+);", b, re.S)
    if not m2:
        die("jcsample.c: h2v2_downsample kernel expression changed")
    P("Definition c_h2v2_down : Z * Z * Z := (%s, %s, %s)." % m2.groups())
    # h2v1_fancy_upsample
    m = re.search(r"\nh2v1_fancy_upsample\(.*?\n\}", ds, re.S)
    if not m:
        die("jdsample.c: h2v1_fancy_upsample gone")
    b = m.group(0)
    pats = [r"\*outptr\+\+ = \(_JSAMPLE\)invalue;\s*\*outptr\+\+ = \(_JSAMPLE\)\(\(invalue \* (\d+) \+ inptr\[0\] \+ (\d+)\) >> (\d+)\);",
            r"invalue = \(\*inptr\+\+\) \* (\d+);\s*\*outptr\+\+ = \(_JSAMPLE\)\(\(invalue \+ inptr\[-2\] \+ (\d+)\) >> (\d+)\);\s*\*outptr\+\+ = \(_JSAMPLE\)\(\(invalue \+ inptr\[0\] \+ (\d+)\) >> (\d+)\);",
            r"invalue = \*inptr;\s*\*outptr\+\+ = \(_JSAMPLE\)\(\(invalue \* (\d+) \+ inptr\[-1\] \+ (\d+)\) >> (\d+)\);\s*\*outptr\+\+ = \(_JSAMPLE\)invalue;"]
    g = []
    for p_ in pats:
        mm = re.search(p_, b)
        if not mm:
            die("jdsample.c: h2v1_fancy_upsample expression changed (%s...)" % p_[:30])
        g.append(mm.groups())
    P("Definition c_h2v1_fancy_first : Z * Z * Z := (%s, %s, %s).          (* mult, odd bias, shift *)" % g[0])
    P("Definition c_h2v1_fancy_mid : Z * Z * Z * Z * Z := (%s, %s, %s, %s, %s).   (* mult, even bias, shift, odd bias, shift *)" % g[1])
    P("Definition c_h2v1_fancy_last : Z * Z * Z := (%s, %s, %s).           (* mult, even bias, shift *)" % g[2])
    m = re.search(r"\nh2v2_fancy_upsample\(.*?\n\}", ds, re.S)
    if not m:
        die("jdsample.c: h2v2_fancy_upsample gone")
    b = m.group(0)
    pats = [r"thiscolsum = \(\*inptr0\+\+\) \* (\d+) \+ \(\*inptr1\+\+\);",
            r"\*outptr\+\+ = \(_JSAMPLE\)\(\(thiscolsum \* (\d+) \+ (\d+)\) >> (\d+)\);\s*\*outptr\+\+ = \(_JSAMPLE\)\(\(thiscolsum \* (\d+) \+ nextcolsum \+ (\d+)\) >> (\d+)\);",
            r"\*outptr\+\+ = \(_JSAMPLE\)\(\(thiscolsum \* (\d+) \+ lastcolsum \+ (\d+)\) >> (\d+)\);\s*\*outptr\+\+ = \(_JSAMPLE\)\(\(thiscolsum \* (\d+) \+ nextcolsum \+ (\d+)\) >> (\d+)\);",
            r"\*outptr\+\+ = \(_JSAMPLE\)\(\(thiscolsum \* (\d+) \+ lastcolsum \+ (\d+)\) >> (\d+)\);\s*\*outptr\+\+ = \(_JSAMPLE\)\(\(thiscolsum \* (\d+) \+ (\d+)\) >> (\d+)\);"]
    g = []
    for p_ in pats:
        mm = re.search(p_, b)
        if not mm:
            die("jdsample.c: h2v2_fancy_upsample expression changed (%s...)" % p_[:40])
        g.append(mm.groups())
    P("Definition c_h2v2_fancy_vmult : Z := %s." % g[0][0])
    P("Definition c_h2v2_fancy_first : list Z := [%s]." % "; ".join(g[1]))
    P("Definition c_h2v2_fancy_mid : list Z := [%s]." % "; ".join(g[2]))
    P("Definition c_h2v2_fancy_last : list Z := [%s]." % "; ".join(g[3]))
    # fancy upsampling is selected only when downsampled_width > 2
    mm = re.findall(r"do_fancy && compptr->downsampled_width > (\d+)", ds)
    if len(mm) < 2:
        die("jdsample.c: fancy upsampling gate 'downsampled_width > 2' changed")
    P("Definition c_fancy_min_width_gt : Z := %s." % min(int(x) for x in mm))
    P()

# ----------------------------------------------------------------------------
# asm files
# ----------------------------------------------------------------------------
BASE_ENV = {"CENTERJSAMPLE": 128, "BYTE_BIT": 8, "WORD_BIT": 16, "DWORD_BIT": 32, "DCTSIZE": 8, "DCTSIZE2": 64,
            "SIZEOF_BYTE": 1, "SIZEOF_WORD": 2, "SIZEOF_DWORD": 4, "SIZEOF_QWORD": 8, "SIZEOF_MMWORD": 8,
            "SIZEOF_XMMWORD": 16, "SIZEOF_YMMWORD": 32, "SIZEOF_JSAMPLE": 1, "SIZEOF_DCTELEM": 2, "SIZEOF_JCOEF": 2,
            "SIZEOF_ISLOW_MULT_TYPE": 2, "SIZEOF_IFAST_MULT_TYPE": 2, "IFAST_SCALE_BITS": 2, "MAXJSAMPLE": 255}

def check_base_env():
    inc = re.sub(r";.*", "", rd("simd/nasm/jsimdext.inc"))
    raw = {}
    for m in re.finditer(r"^%define\s+([A-Za-z_][A-Za-z0-9_]*)\s+([A-Za-z0-9_]+)\s*$", inc, re.M):
        raw.setdefault(m.group(1), m.group(2))
    def res(k, d=0):
        v = raw.get(k)
        if v is None or d > 8:
            return None
        return int(v) if v.isdigit() else res(v, d + 1)
    for k in ("BYTE_BIT", "WORD_BIT", "SIZEOF_XMMWORD", "SIZEOF_YMMWORD", "SIZEOF_MMWORD", "SIZEOF_DWORD", "SIZEOF_WORD"):
        if res(k) != BASE_ENV[k]:
            die("jsimdext.inc: %s is no longer %d (got %s)" % (k, BASE_ENV[k], res(k)))
    jc = rd("simd/nasm/jsimdcfg.inc")
    m = re.search(r"%define\s+CENTERJSAMPLE\s+(\d+)", jc)
    if not m or int(m.group(1)) != BASE_ENV["CENTERJSAMPLE"]:
        die("jsimdcfg.inc: CENTERJSAMPLE is no longer 128")


def asm_eval(expr, env, fname):
    e = expr.strip()
    e = re.sub(r"\b0x([0-9A-Fa-f]+)\b", lambda m: str(int(m.group(1), 16)), e)
    for _ in range(8):
        e2 = re.sub(r"\b([A-Za-z_][A-Za-z0-9_]*)\b", lambda m: "(%s)" % env[m.group(1)] if m.group(1) in env else m.group(1), e)
        if e2 == e:
            break
        e = e2
    e = re.sub(r"DESCALE\(([^,]+),([^)]+(?:\([^)]*\))?[^)]*)\)", r"((((\1) + (1 << ((\2) - 1))) >> (\2)))", e)
    if not re.fullmatch(r"[\s0-9()+\-*<>/]*", e):
        die("%s: cannot evaluate asm expression '%s' (-> '%s')" % (fname, expr.strip(), e))
    try:
        return int(eval(e.replace("/", "//"), {"__builtins__": {}}, {}))
    except Exception as ex:
        die("%s: cannot evaluate asm expression '%s': %s" % (fname, expr.strip(), ex))

def asm_parse(fname):
    """returns (defs: ordered list (name, value), rows: list (name, width, values))"""
    txt = rd("simd/x86_64/" + fname)
    txt = re.sub(r"\\\n", " ", txt)
    env = dict(BASE_ENV)
    defs, rows = [], []
    stack = []       # conditional stack: True/False (active)
    for raw in txt.split("\n"):
        line = raw.split(";")[0].rstrip()
        if not line.strip():
            continue
        s = line.strip()
        if s.startswith("%if"):
            mm = re.match(r"%if\s+(.*)", s)
            cond = False
            if mm is None:          # %ifdef / %ifndef / %ifidn ...: not needed for constants
                md = re.match(r"%if(n?)def\s+([A-Za-z_][A-Za-z0-9_]*)", s)
                stack.append(bool(md) and ((md.group(2) in env) != (md.group(1) == "n")) and all(stack))
                continue
            if all(stack):
                ce = mm.group(1).replace("==", " == ")
                toks = re.findall(r"[A-Za-z_][A-Za-z0-9_]*", ce)
                if all(t in env for t in toks):
                    c2 = re.sub(r"\b([A-Za-z_][A-Za-z0-9_]*)\b", lambda m: str(env[m.group(1)]), ce)
                    try:
                        cond = bool(eval(c2, {"__builtins__": {}}, {}))
                    except Exception:
                        cond = False
                else:
                    cond = None      # unknown (e.g. RGB_PIXELSIZE): treat both branches as inactive for defs
            stack.append(bool(cond) if cond is not None else False)
            continue
        if s.startswith("%else"):
            if stack:
                stack[-1] = (not stack[-1]) and all(stack[:-1])
            continue
        if s.startswith("%endif"):
            if stack:
                stack.pop()
            continue
        if not all(stack):
            continue
        mm = re.match(r"%define\s+([A-Za-z_][A-Za-z0-9_]*)\s+(.+)$", s)
        if mm and "(" not in mm.group(1):
            name, ex = mm.group(1), mm.group(2).strip()
            toks = re.findall(r"[A-Za-z_][A-Za-z0-9_]*", ex)
            if all(t in env or t == "DESCALE" for t in toks) and re.fullmatch(r"[\sA-Za-z0-9_()+\-*<>/]*", ex):
                env[name] = asm_eval(ex, env, fname)
                if re.search(r"BITS|DESCALE", name):
                    defs.append((name, env[name]))
            continue
        mm = re.match(r"([A-Za-z_][A-Za-z0-9_]*)\s+equ\s+(.+)$", s)
        if mm:
            env[mm.group(1)] = asm_eval(mm.group(2), env, fname)
            defs.append((mm.group(1), env[mm.group(1)]))
            continue
        mm = re.match(r"(P[WDB]_[A-Za-z0-9_]+)\s+times\s+(\d+)\s+(dw|dd|db)\s+(.+)$", s)
        if mm:
            vals = [asm_eval(x, env, fname) for x in mm.group(4).split(",")]
            rows.append((mm.group(1), {"db": 1, "dw": 2, "dd": 4}[mm.group(3)], vals * int(mm.group(2))))
            continue
        mm = re.match(r"times\s+(\d+)\s+(dw|dd|db)\s+(.+)$", s)
        if mm and rows:      # continuation row of the previous label (jidctint-avx2)
            vals = [asm_eval(x, env, fname) for x in mm.group(3).split(",")]
            n, w, v = rows[-1]
            if w == {"db": 1, "dw": 2, "dd": 4}[mm.group(2)]:
                rows[-1] = (n, w, v + vals * int(mm.group(1)))
            continue
    return defs, rows, env

def asm_uses(fname):
    """multiset of (mnemonic operand) for instructions whose last operand is a named
    constant row or an immediate: the semantic content of a kernel that is independent
    of register allocation and scheduling."""
    txt = rd("simd/x86_64/" + fname)
    uses = {}
    for raw in txt.split("\n"):
        line = raw.split(";")[0].strip()
        mm = re.match(r"(v?p[a-z]+|v?mov[a-z]*|vperm[a-z0-9]+|vinserti128|vextracti128)\s+(.*)$", line)
        if not mm:
            continue
        mn, ops = mm.group(1), [o.strip() for o in mm.group(2).split(",")]
        last = ops[-1]
        key = None
        m2 = re.match(r"(?:[A-Z]+\s+)?\[rel ([A-Za-z0-9_]+)\]$", last)
        if m2:
            key = "[%s]" % m2.group(1)
        elif re.fullmatch(r"(0x[0-9A-Fa-f]+|\d+|\(?[A-Z_]+[A-Z_0-9]*(\s*-\s*\d+)?\)?|\(SIZEOF_[XY]MMWORD\s*-\s*\d+\))", last) and \
                not re.fullmatch(r"[xy]mm[A-H0-9]+|[re]?[a-ds][xil]l?|r\d+[dwb]?", last) and mn not in ("mov", "movzx"):
            key = last.replace(" ", "")
        if key is None:
            continue
        mn = mn[1:] if mn.startswith("vp") or mn.startswith("vmov") else mn
        k = mn + " " + key
        uses[k] = uses.get(k, 0) + 1
    return sorted(uses.items())

ASM_FILES = ["jccolor", "jcgray", "jdcolor", "jdmerge", "jdsample", "jcsample", "jquanti",
             "jfdctint", "jidctint"]
ASM_SSE2_ONLY = ["jidctred", "jfdctfst", "jidctfst"]
USE_FILES = ["jccolext", "jcgryext", "jdcolext", "jdmrgext", "jdsample", "jcsample", "jquanti"]

def asm_all():
    check_base_env()
    P("(* ---- simd/x86_64/*.asm : equ constants, %define'd bit counts, constant rows ---- *)")
    allrows = []
    for base in ASM_FILES + ASM_SSE2_ONLY:
        for isa in (("sse2", "avx2") if base in ASM_FILES else ("sse2",)):
            fname = "%s-%s.asm" % (base, isa)
            defs, rows, env = asm_parse(fname)
            tag = "%s_%s" % (base, isa)
            P("(* %s *)" % fname)
            seen = set()
            for n, v in defs:
                if n in seen:
                    die("%s: %s defined twice in the active branch" % (fname, n))
                seen.add(n)
                P("Definition %s_%s : Z := %s." % (tag, coq_id(n), zlit(v)))
            for n, w, vals in rows:
                P("Definition %s_%s : Z * list Z := (%d, [%s])." % (tag, coq_id(n), w, "; ".join(zlit(v) for v in vals)))
                allrows.append((tag, n, w, vals))
            if base == "jcsample":
                txt = rd("simd/x86_64/" + fname)
                bp = re.findall(r"mov\s+rdx,\s*(0x[0-9A-Fa-f]+)\s*;\s*bias pattern", txt)
                if len(bp) != 2:
                    die(fname + ": expected two 'bias pattern' immediates")
                i1 = txt.find("jsimd_h2v1_downsample"); i2 = txt.find("jsimd_h2v2_downsample")
                p1 = txt.find(bp[0]); p2 = txt.find(bp[1], p1 + 1)
                if not (0 <= i1 < p1 < i2 < p2):
                    die(fname + ": bias patterns are not one per downsample function in order")
                for nm, b in zip(("h2v1", "h2v2"), bp):
                    v = int(b, 16)
                    P("Definition %s_bias_%s : Z * Z := (%d, %d).   (* word lanes 2k, 2k+1 *)" % (tag, nm, v & 0xFFFF, (v >> 16) & 0xFFFF))
                    if v >> 32:
                        die(fname + ": bias pattern wider than 32 bits")
                sh = re.findall(r"v?psrlw\s+(?:[xy]mm\d,\s*)?[xy]mm\d,\s*(\d+)\s*$", re.sub(r";.*", "", txt), re.M)
                P("Definition %s_shifts : list Z := [%s]." % (tag, "; ".join(sh)))
            if base == "jdsample":
                txt = re.sub(r";.*", "", rd("simd/x86_64/" + fname))
                i1 = txt.find("EXTN(jsimd_h2v1_fancy_upsample_%s):" % isa)
                i2 = txt.find("EXTN(jsimd_h2v2_fancy_upsample_%s):" % isa)
                i3 = txt.find("EXTN(jsimd_h2v1_upsample_%s):" % isa)
                if not (0 <= i1 < i2 < i3):
                    die(fname + ": fancy upsample entry points not found in the expected order")
                for nm, seg in (("h2v1", txt[i1:i2]), ("h2v2", txt[i2:i3])):
                    sh = re.findall(r"v?psrlw\s+(?:[xy]mm\d,\s*)?[xy]mm\d,\s*(\d+)\s*$", seg, re.M)
                    if not sh:
                        die("%s: no psrlw in %s fancy upsample" % (fname, nm))
                    P("Definition %s_%s_fancy_psrlw : list Z := [%s]." % (tag, nm, "; ".join(sh)))
                    ks = re.findall(r"v?(pmullw|paddw)\s+(?:[xy]mm\d,\s*)?[xy]mm\d,\s*\[rel (PW_[A-Z]+)\]", seg)
                    P("Definition %s_%s_fancy_rows : list (string * string) := [%s]." % (
                        tag, nm, "; ".join('("%s", "%s")' % k for k in sorted(set(ks)))))
            P()
    # ---- row loops of the sample kernels: pointer increments (in rows) and counter decrement per iteration
    P("(* ---- row loops: (input rows consumed, output rows produced, row-counter decrement) per iteration; loop while counter > 0 ---- *)")
    for base, funcs in (("jdsample", ["h2v1_fancy_upsample", "h2v2_fancy_upsample", "h2v1_upsample", "h2v2_upsample"]),
                        ("jcsample", ["h2v1_downsample", "h2v2_downsample"])):
        for isa in ("sse2", "avx2"):
            fname = "%s-%s.asm" % (base, isa)
            txt = re.sub(r";.*", "", rd("simd/x86_64/" + fname))
            for fn in funcs:
                i1 = txt.find("EXTN(jsimd_%s_%s):" % (fn, isa))
                if i1 < 0:
                    die("%s: entry jsimd_%s_%s not found" % (fname, fn, isa))
                i2 = txt.find("EXTN(jsimd_", i1 + 10)
                seg = txt[i1:i2 if i2 > 0 else len(txt)]
                m = re.search(r"add\s+rsi,\s*byte\s+(?:(\d+)\*)?SIZEOF_JSAMPROW\s*\n\s*add\s+rdi,\s*byte\s+(?:(\d+)\*)?SIZEOF_JSAMPROW\s*\n\s*"
                              r"(dec\s+r[ac]x|sub\s+r[ac]x,\s*(?:byte\s+)?(\d+))\s*\n\s*jg\s+(?:near|short)?\s*\.rowloop", seg)
                if not m:
                    die("%s: row-loop tail of jsimd_%s_%s not recognised" % (fname, fn, isa))
                ins = int(m.group(1) or 1); outs = int(m.group(2) or 1)
                dec = 1 if m.group(3).startswith("dec") else int(m.group(4))
                # the counter is loaded from max_v_samp_factor (upsample: r10) / v_samp_factor (downsample: r12d)
                ctr = "r10" if base == "jdsample" else "r12d"
                reg = "rcx" if base == "jdsample" else "eax"
                if not re.search(r"mov\s+%s,\s*%s" % (reg, ctr), seg):
                    die("%s: jsimd_%s_%s no longer loads its row counter from %s" % (fname, fn, isa, ctr))
                P("Definition rowloop_%s_%s : Z * Z * Z := (%d, %d, %d)." % (fn, isa, ins, outs, dec))
    # colour / merged kernels: one input row and one output row per iteration, counter decremented by one
    for base in ("jccolext", "jcgryext", "jdcolext"):
        for isa in ("sse2", "avx2"):
            fname = "%s-%s.asm" % (base, isa)
            txt = re.sub(r";.*", "", rd("simd/x86_64/" + fname))
            adds = re.findall(r"add\s+r[a-z]+,\s*byte\s+(?:(\d+)\*)?SIZEOF_JSAMPROW", txt)
            m = re.search(r"(dec\s+rax|sub\s+rax,\s*(?:byte\s+)?(\d+))\s*\n\s*jg\s+(?:near|short)?\s*\.rowloop", txt)
            if not m or not adds:
                die(fname + ": row loop not recognised")
            P("Definition rowloop_%s_%s : list Z * Z := ([%s], %d)." % (base, isa, "; ".join(a or "1" for a in adds), 1 if m.group(1).startswith("dec") else int(m.group(2))))
    # AVX2 accurate DCTs: the in-place 8x8 word transposes (two rows / columns per ymm register), instruction by instruction
    P("(* ---- DOTRANSPOSE macros of jfdctint-avx2.asm / jidctint-avx2.asm: (mnemonic, dst, src1, src2-or-0, immediate) on macro parameters %1..%8 ---- *)")
    for base in ("jfdctint", "jidctint"):
        fname = base + "-avx2.asm"
        txt = re.sub(r";.*", "", rd("simd/x86_64/" + fname))
        m = re.search(r"%macro\s+DOTRANSPOSE\s+8\s*\n(.*?)%endmacro", txt, re.S)
        if not m:
            die(fname + ": macro DOTRANSPOSE 8 not found")
        prog = []
        for line in m.group(1).split("\n"):
            line = line.strip()
            if not line:
                continue
            m3 = re.fullmatch(r"(vpunpck[lh](?:wd|dq|qdq))\s+%(\d),\s*%(\d),\s*%(\d)", line)
            m2 = re.fullmatch(r"(vpermq)\s+%(\d),\s*%(\d),\s*(0x[0-9A-Fa-f]+)", line)
            if m3:
                prog.append((m3.group(1), int(m3.group(2)), int(m3.group(3)), int(m3.group(4)), 0))
            elif m2:
                prog.append((m2.group(1), int(m2.group(2)), int(m2.group(3)), 0, int(m2.group(4), 16)))
            else:
                die("%s: DOTRANSPOSE contains an instruction the shuffle model does not know: %s" % (fname, line))
        if len(prog) < 12:
            die(fname + ": DOTRANSPOSE shorter than expected")
        P("Definition %s_avx2_dotranspose : list (string * nat * nat * nat * Z) :=" % base)
        P("  [%s]." % "; ".join('("%s", %d%%nat, %d%%nat, %d%%nat, %d)' % t for t in prog))
        # how the macro is invoked (register order), pass 1 and pass 2
        calls = re.findall(r"^\s*DOTRANSPOSE\s+(ymm\d(?:,\s*ymm\d){7})\s*$", txt, re.M)
        if len(calls) != 2:
            die(fname + ": expected two DOTRANSPOSE invocations")
        P("Definition %s_avx2_dotranspose_calls : list (list Z) := [%s]." % (base, "; ".join("[%s]" % "; ".join(re.findall(r"ymm(\d)", c)) for c in calls)))
    # ---- jchuff-sse2.asm: mask table, the nbits table and its mirror for negative (one's complement) indices, struct layout
    P("(* ---- jchuff-sse2.asm: jpeg_mask_bits, jpeg_nbits_table (runs (count, value)) preceded by its mirror image, struct offsets ---- *)")
    txt = re.sub(r";.*", "", rd("simd/x86_64/jchuff-sse2.asm"))
    m = re.search(r"jpeg_mask_bits\s+dd\s+((?:0x[0-9A-Fa-f]+[,\s]*(?:dd\s+)?)+)", txt)
    if not m:
        die("jchuff-sse2.asm: jpeg_mask_bits table not found")
    mb = [int(x, 16) for x in re.findall(r"0x[0-9A-Fa-f]+", m.group(1))]
    P("Definition jchuff_sse2_mask_bits : list Z := [%s]." % "; ".join(map(str, mb)))
    i_lab = txt.find("EXTN(jpeg_nbits_table):")
    if i_lab < 0:
        die("jchuff-sse2.asm: jpeg_nbits_table label not found")
    def runs(seg):
        out = []
        for line in seg.split("\n"):
            mm = re.match(r"\s*times\s+1\s*(?:<<\s*(\d+))?\s+db\s+(\d+)\s*$", line)
            if mm:
                out.append((1 << int(mm.group(1)) if mm.group(1) else 1, int(mm.group(2))))
        return out
    pre = txt[m.end():txt.rfind("GLOBAL_DATA(jpeg_nbits_table)", 0, i_lab)]
    post = txt[i_lab:txt.find("ALIGNZ", i_lab)]
    rneg, rpos = runs(pre), runs(post)
    if not rneg or not rpos:
        die("jchuff-sse2.asm: nbits table rows not found")
    P("Definition jchuff_sse2_nbits_mirror : list (Z * Z) := [%s]." % "; ".join("(%d, %d)" % r for r in rneg))
    P("Definition jchuff_sse2_nbits_rows : list (Z * Z) := [%s]." % "; ".join("(%d, %d)" % r for r in rpos))
    if not re.search(r"%define\s+MASK_BITS\(x\)\s+NBITS\(\(x\)\s*\*\s*4\)\s*\+\s*\(jpeg_mask_bits\s*-\s*EXTN\(jpeg_nbits_table\)\)", txt):
        die("jchuff-sse2.asm: MASK_BITS(x) addressing changed")
    st = re.search(r"struc c_derived_tbl\s*\n\.ehufco:\s+resd\s+(\d+)\s*\n\.ehufsi:\s+resb\s+(\d+)", txt)
    if not st:
        die("jchuff-sse2.asm: struc c_derived_tbl changed")
    ch = rd("src/jchuff.h")
    if not re.search(r"unsigned int ehufco\[256\];", ch) or not re.search(r"char ehufsi\[256\];", ch):
        die("jchuff.h: c_derived_tbl layout changed")
    P("Definition jchuff_sse2_tbl_layout : Z * Z := (%s, %s).   (* ehufco dwords, ehufsi bytes; jchuff.h declares [256] of each *)" % st.groups())
    # the immediates of the run/size loop
    loop = txt[txt.find(".BRLOOP:"):]
    mlea = re.search(r"lea\s+code_temp,\s*\[nbitsq\s*-\s*(\d+)\]", loop)
    facts = [int(mlea.group(1))] if mlea else []
    m16 = re.findall(r"cmp\s+nbits,\s*(\d+)", loop)
    zrl = re.findall(r"c_derived_tbl\.ehuf(?:si|co)\s*\+\s*(0x[0-9a-fA-F]+)", loop)
    eob = re.search(r"cmp\s+td,\s*\(DCTSIZE2\s*-\s*(\d+)\)\s*\*\s*SIZEOF_WORD", loop)
    sym = re.search(r"ehufco\s*\+\s*\(tempq\s*-\s*(\d+)\)\s*\*\s*4", loop)
    if not facts or not m16 or not zrl or not eob or not sym:
        die("jchuff-sse2.asm: run/size loop shape changed")
    P("Definition jchuff_sse2_loop_consts : list Z := [%d; %s; %s; %s; %s].   (* ZRL decrement, run limit compares, ZRL symbol(s), EOB position test, symbol index bias *)" % (
        facts[0], "; ".join(sorted(set(m16))), "; ".join(str(int(z, 16)) for z in sorted(set(zrl))), eob.group(1), sym.group(1)))
    # zigzag order of the C code
    ju = rd("src/jutils.c")
    mz = re.search(r"const int jpeg_natural_order\[DCTSIZE2 \+ 16\]\s*=\s*\{([^}]*)\}", re.sub(r"/\*.*?\*/", "", ju, flags=re.S))
    if not mz:
        die("jutils.c: jpeg_natural_order not found")
    zz = [int(x) for x in re.findall(r"\d+", mz.group(1))]
    P("Definition c_jpeg_natural_order : list Z := [%s]." % "; ".join(map(str, zz[:64])))
    # the order the kernel gathers the block in, as its row comments state it; cross-checked by the tagged-block correspondence
    pins = re.findall(r"pinsrw\s+xmm(\d),\s*word \[block \+ (\d+) \* SIZEOF_WORD\],\s*(\d)", txt)
    P("Definition jchuff_sse2_pinsrw : list (Z * Z * Z) := [%s].   (* register, block index, lane *)" % "; ".join("(%s, %s, %s)" % p for p in pins))
    P()
    # ---- zero-AC ("DC only") shortcut of the IDCT kernels: which coefficient rows enter the OR chain that is tested
    P("(* ---- IDCT kernels: coefficient rows whose OR is tested before the all-AC-zero shortcut is taken ---- *)")
    for fname, tag in (("jidctint-sse2.asm", "jidctint_sse2"), ("jidctint-avx2.asm", "jidctint_avx2"),
                       ("jidctfst-sse2.asm", "jidctfst_sse2"), ("jidctred-sse2.asm", "jidctred_sse2_4x4")):
        txt = re.sub(r";.*", "", rd("simd/x86_64/" + fname))
        m = re.search(r"%ifndef\s+NO_ZERO_COLUMN_TEST_\w+\s*\n(.*?)\n\s*jnz\s+(?:short|near)?\s*\.columnDCT\s*\n(.*?)\n\s*jnz\s+(?:short|near)?\s*\.columnDCT", txt, re.S)
        if not m:
            die(fname + ": zero-column test (two 'jnz .columnDCT') not found")
        regs = {}
        tested = None
        def blk(op):
            mm = re.search(r"\[(X|Y)MMBLOCK\((\d+),\s*0,\s*(?:rsi|r11),\s*SIZEOF_JCOEF\)\]", op)
            if not mm:
                return None
            n = int(mm.group(2))
            return ({n}, {n + 1}) if mm.group(1) == "Y" else ({n}, set())
        def rn(op):
            mm = re.fullmatch(r"[xy]mm(\d+)", op.strip())
            return int(mm.group(1)) if mm else None
        for line in m.group(2).split("\n"):
            line = line.strip()
            if not line:
                continue
            mm = re.match(r"(\w+)\s+(.*)$", line)
            ops, depth, cur = [], 0, ""
            for ch in mm.group(2):
                if ch in "([":
                    depth += 1
                elif ch in ")]":
                    depth -= 1
                if ch == "," and depth == 0:
                    ops.append(cur.strip()); cur = ""
                else:
                    cur += ch
            ops.append(cur.strip())
            mn = mm.group(1)
            if mn in ("movdqa", "vmovdqu", "vmovdqa", "movdqu") and blk(ops[1]):
                regs[rn(ops[0])] = blk(ops[1])
            elif mn == "por":
                src = blk(ops[1]) or regs.get(rn(ops[1]))
                if src is None or rn(ops[0]) not in regs:
                    die("%s: zero-column test: cannot follow '%s'" % (fname, line))
                d = regs[rn(ops[0])]
                regs[rn(ops[0])] = (d[0] | src[0], d[1] | (src[1] if ops[0].startswith("y") else set()))
            elif mn == "vpor":
                a = regs.get(rn(ops[1])); b = blk(ops[2]) or regs.get(rn(ops[2]))
                if a is None or b is None:
                    die("%s: zero-column test: cannot follow '%s'" % (fname, line))
                y = ops[0].startswith("y")
                regs[rn(ops[0])] = (a[0] | b[0], (a[1] | b[1]) if y else set())
            elif mn == "vextracti128" and ops[2] == "1":
                regs[rn(ops[0])] = (set(regs[rn(ops[1])][1]), set())
            elif mn in ("packsswb", "vpacksswb"):
                if tested is None:
                    tested = rn(ops[0]) if mn == "packsswb" else rn(ops[1])
            elif mn in ("movd", "test", "mov", "or"):
                continue
            else:
                die("%s: zero-column test contains an instruction the row tracker does not know: %s" % (fname, line))
        if tested is None or tested not in regs:
            die(fname + ": zero-column test: tested register not found")
        P("Definition zero_ac_rows_%s : list Z := [%s]." % (tag, "; ".join(map(str, sorted(regs[tested][0])))))
    P()
    # h2v2 merged upsampling = two calls of the h2v1 routine: which luma/output row each call handles, in call order
    for isa in ("sse2", "avx2"):
        fname = "jdmrgext-%s.asm" % isa
        txt = re.sub(r";.*", "", rd("simd/x86_64/" + fname))
        i1 = txt.find("EXTN(jsimd_h2v2_merged_upsample_%s):" % isa)
        if i1 < 0:
            die(fname + ": jsimd_h2v2_merged_upsample entry not found")
        seg = txt[i1:]
        calls = [m.start() for m in re.finditer(r"call\s+EXTN\(jsimd_h2v1_merged_upsample_%s\)" % isa, seg)]
        if len(calls) != 2 or re.search(r"\.rowloop|\bjn?[a-z]+\s+\.", seg[:calls[1]]):
            die(fname + ": h2v2 merged upsampler is no longer two straight-line calls of the h2v1 routine (row order unknown)")
        if not re.search(r"mov\s+rdi,\s*r13", seg[:calls[0]]) or re.search(r"add\s+r[sd]i,\s*byte\s+SIZEOF_JSAMPROW", seg[:calls[0]]):
            die(fname + ": first h2v1 call does not use output_buf[0] / luma row 0")
        mid = seg[calls[0]:calls[1]]
        if len(re.findall(r"add\s+rdi,\s*byte\s+SIZEOF_JSAMPROW", mid)) != 1 or len(re.findall(r"add\s+rsi,\s*byte\s+SIZEOF_JSAMPROW", mid)) != 1:
            die(fname + ": second h2v1 call does not advance outptr and inptr0 by one row")
        P("Definition merged_h2v2_call_rows_%s : list Z := [0; 1].   (* output/luma row written by the 1st, 2nd h2v1 call *)" % isa)
    P()
    # every row must have the length of its vector (16 or 32 bytes)
    P("Definition asm_row_inventory : list (Z * Z * Z) :=   (* vector bytes, element bytes, length *)")
    P("  [%s]." % "; ".join("(%d, %d, %d)" % (32 if t.endswith("avx2") else 16, w, len(v)) for t, n, w, v in allrows))
    P()
    P("(* ---- per kernel file: multiset of (mnemonic, constant row or immediate) ---- *)")
    for base in USE_FILES:
        for isa in ("sse2", "avx2"):
            fname = "%s-%s.asm" % (base, isa)
            u = asm_uses(fname)
            if not u:
                die(fname + ": no constant/immediate uses found")
            P("Definition uses_%s_%s : list (string * Z) :=" % (base, isa))
            P("  [%s]." % ";\n   ".join('("%s", %d)' % kv for kv in u))
    P()

# ----------------------------------------------------------------------------
# C DCT constants
# ----------------------------------------------------------------------------
def c_dct():
    P("(* ---- src/j[fi]dct*.c : FIX_x #defines (decimal numerator/denominator, CONST_BITS, value) ---- *)")
    for fname in ("jfdctint.c", "jidctint.c", "jidctred.c", "jfdctfst.c", "jidctfst.c"):
        src = rd("src/" + fname)
        m = re.search(r"#define\s+CONST_BITS\s+(\d+)", src)
        if not m:
            die(fname + ": CONST_BITS gone")
        bits = int(m.group(1))
        # first (active for the default CONST_BITS) block of literal definitions
        ents = []
        seen = set()
        for mm in re.finditer(r"#define\s+(FIX_(\d)_(\d+))\s+\(\(JLONG\)(\d+)\)", src):
            if mm.group(1) in seen:
                continue
            seen.add(mm.group(1))
            dec = mm.group(2) + "." + mm.group(3)
            fr = Fraction(dec)
            ents.append((mm.group(1), fr.numerator, fr.denominator, int(mm.group(4))))
        if not ents:
            die(fname + ": no '#define FIX_x_xxx ((JLONG)n)' found")
        tag = coq_id(fname[:-2])
        P("Definition c_%s_CONST_BITS : Z := %d." % (tag, bits))
        for n, nu, de, v in ents:
            P("Definition c_%s_%s : Z := %d." % (tag, n, v))
        P("Definition c_%s_fix : list (Z * Z * Z) := [%s].   (* numerator, denominator, value *)" % (
            tag, "; ".join("(%d, %d, %d)" % (nu, de, v) for n, nu, de, v in ents)))
    # asm F_x_yyy <-> C FIX_x_yyyyyyyyy by the decimal in the asm comment
    P()
    P("(* asm F_* constant, the C FIX_* it names in its comment (value of the C #define) *)")
    pairs = []
    for base, cfile in (("jfdctint", "jfdctint.c"), ("jidctint", "jidctint.c"), ("jidctred", "jidctred.c"),
                        ("jfdctfst", "jfdctfst.c"), ("jidctfst", "jidctfst.c")):
        csrc = rd("src/" + cfile)
        for isa in (("sse2", "avx2") if base in ASM_FILES else ("sse2",)):
            fname = "%s-%s.asm" % (base, isa)
            txt = rd("simd/x86_64/" + fname)
            defs, rows, env = asm_parse(fname)
            dv = dict(defs)
            n = 0
            for mm in re.finditer(r"^(F_\d_\d+)\s+equ\s+\d+\s*;\s*FIX\((\d)\.(\d+)\)\s*$", txt, re.M):
                cname = "FIX_%s_%s" % (mm.group(2), mm.group(3))
                cm = re.search(r"#define\s+%s\s+\(\(JLONG\)(\d+)\)" % cname, csrc)
                if not cm:
                    die("%s: %s names %s which %s does not define" % (fname, mm.group(1), cname, cfile))
                pairs.append((fname, mm.group(1), dv[mm.group(1)], int(cm.group(1))))
                n += 1
            if n == 0:
                die(fname + ": no 'F_x_yyy equ n ; FIX(d)' lines")
    P("Definition dct_const_pairs : list (Z * Z) :=")
    P("  [%s]." % "; ".join("(%d, %d)" % (a, c) for f, n, a, c in pairs))
    P("Definition dct_const_pairs_count : Z := %d." % len(pairs))
    P()

# ----------------------------------------------------------------------------
# gates
# ----------------------------------------------------------------------------
def gates():
    src = rd("simd/x86_64/jsimd.c")
    P("(* ---- simd/x86_64/jsimd.c : jsimd_can_* gates ---- *)")
    P("(* name, tests BITS_IN_JSAMPLE != 8, tests RGB_PIXELSIZE in {3,4}, can return 1 *)")
    ents = []
    for m in re.finditer(r"GLOBAL\(int\)\s*\n(jsimd_(?:c_)?can_[a-z0-9_]+)\(void\)\s*\n\{(.*?)\n\}", src, re.S):
        name, body = m.group(1), m.group(2)
        bits8 = bool(re.search(r"if \(BITS_IN_JSAMPLE != 8\)\s*return 0;", body))
        pix = bool(re.search(r"if \(\(RGB_PIXELSIZE != 3\) && \(RGB_PIXELSIZE != 4\)\)\s*return 0;", body))
        ret1 = "return 1;" in body
        ents.append((name, bits8, pix, ret1))
    if len(ents) < 20:
        die("jsimd.c: fewer than 20 jsimd_can_* gates found")
    P("Definition simd_gates : list (string * bool * bool * bool) :=")
    P("  [%s]." % ";\n   ".join('("%s", %s, %s, %s)' % (n, str(a).lower(), str(b).lower(), str(c).lower()) for n, a, b, c in ents))
    # init_simd environment handling
    if not re.search(r'GETENV_S\(env, 2, "JSIMD_FORCENONE"\) && !strcmp\(env, "1"\)\)\s*simd_support = 0;', src) or \
       not re.search(r'GETENV_S\(env, 2, "JSIMD_FORCESSE2"\) && !strcmp\(env, "1"\)\)\s*simd_support &= JSIMD_SSE2;', src):
        die("jsimd.c: init_simd no longer honours JSIMD_FORCENONE / JSIMD_FORCESSE2 as the harness assumes")
    # quantiser gate
    q = rd("src/jcdctmgr.c")
    n = len(re.findall(r"if \(!compute_reciprocal\([^;]*?&dtbl\[i\]\) &&\s*fdct->quantize == jsimd_quantize\)\s*fdct->quantize = quantize;", q, re.S))
    if n < 2:
        die("jcdctmgr.c: the 'compute_reciprocal()==0 -> fdct->quantize = quantize' fallback is gone (found %d of 2)" % n)
    P("Definition quant_fallback_sites : Z := %d.   (* islow and ifast divisor loops of start_pass_fdctmgr *)" % n)
    if not re.search(r"if \(r <= 16\) return 0;\s*else return 1;", q):
        die("jcdctmgr.c: compute_reciprocal return condition changed")
    P()

P("(* GENERATED by tools/gen_SimdConst.py from the tree under test -- do not edit *)")
P("From Coq Require Import List ZArith String.")
P("Import ListNotations.")
P("Local Open Scope Z_scope.")
P("Local Open Scope string_scope.")
P()
c_color_tables()
c_sample()
asm_all()
c_dct()
gates()
P("(* every FIX(x) literal met in the C colour files: numerator, denominator, SCALEBITS, value as the C double arithmetic gives it *)")
seen = []
for f, t, nu, de, b, v in fix_literals:
    if (nu, de, b, v) not in seen:
        seen.append((nu, de, b, v))
P("Definition c_fix_literals : list (Z * Z * Z * Z) :=")
P("  [%s]." % "; ".join("(%d, %d, %d, %d)" % x for x in seen))
print("\n".join(out))
