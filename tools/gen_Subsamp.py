#!/usr/bin/env python3
"""Translator for C20: reads src/turbojpeg.h and src/turbojpeg.c of the tree given
as argv[1] and prints coq/gen/GenSubsamp.v:

  * constants/tables: TJ_NUMSAMP, enum TJSAMP values, tjMCUWidth[], tjMCUHeight[],
    NUMSF, sf[] (scaling factors)
  * the macros PAD, IS_POW2, TJSCALED translated from their #define bodies
  * every arithmetic statement / guard of tj3YUVPlaneWidth, tj3YUVPlaneHeight,
    tj3YUVBufSize, tj3YUVPlaneSize, of the four unified-buffer functions
    (strides, plane offsets, size check) and the pw[]/ph[] statements of the
    per-plane codec paths, each translated from the C expression text by a small
    C-expression parser (macros are expanded textually first, like cpp does).

Translation modes (chosen per statement from the C types involved):
  math : plain Z arithmetic (guards; operands are small or short-circuited)
  ull  : every + - * ~ result is reduced mod 2^64 (u64 ...)   [unsigned long long]
  int  : plain Z value, plus a definedness predicate <name>_ok that says that every
         intermediate + - * abs result lies in [INT_MIN, INT_MAX] (signed overflow
         is undefined behaviour in C; the model returns UB when <name>_ok is false)
C division '/' is Z.quot (truncation).  Exits non-zero with a message when a
construct it reads is gone.
"""
import re
import sys

repo = sys.argv[1]
H = open(repo + "/src/turbojpeg.h").read()
C = open(repo + "/src/turbojpeg.c").read()


def die(msg):
    sys.exit("gen_Subsamp: " + msg)


# ------------------------------------------------------------------ C expression parser
TOK = re.compile(r"\s*(?:(\d+)(?:ULL|UL|U|L|LL)?|([A-Za-z_][A-Za-z_0-9]*)|(\|\||&&|==|!=|<=|>=|[-+*/%&~!<>?:(),\[\]]))")


def tokenize(s):
    out, i = [], 0
    s = s.strip()
    while i < len(s):
        m = TOK.match(s, i)
        if not m:
            raise ValueError("cannot tokenize C expression at: " + s[i:i + 30])
        if m.group(1) is not None:
            out.append(("num", m.group(1)))
        elif m.group(2) is not None:
            out.append(("id", m.group(2)))
        else:
            out.append(("op", m.group(3)))
        i = m.end()
    return out


class P:
    def __init__(self, toks):
        self.t, self.i = toks, 0

    def peek(self):
        return self.t[self.i] if self.i < len(self.t) else ("eof", "")

    def eat(self, v=None):
        k = self.peek()
        if v is not None and k[1] != v:
            raise ValueError("expected %r, found %r" % (v, k[1]))
        self.i += 1
        return k

    def isop(self, *vs):
        k = self.peek()
        return k[0] == "op" and k[1] in vs

    def expr(self):
        c = self.lor()
        if self.isop("?"):
            self.eat()
            a = self.expr()
            self.eat(":")
            b = self.expr()
            return ("ite", c, a, b)
        return c

    def binl(self, sub, ops):
        a = sub()
        while self.isop(*ops):
            o = self.eat()[1]
            a = (o, a, sub())
        return a

    def lor(self): return self.binl(self.land, ("||",))
    def land(self): return self.binl(self.band, ("&&",))
    def band(self): return self.binl(self.eq, ("&",))
    def eq(self): return self.binl(self.rel, ("==", "!="))
    def rel(self): return self.binl(self.add, ("<", ">", "<=", ">="))
    def add(self): return self.binl(self.mul, ("+", "-"))
    def mul(self): return self.binl(self.unary, ("*", "/", "%"))

    def unary(self):
        if self.isop("~", "-", "!"):
            o = self.eat()[1]
            return ("u" + o, self.unary())
        return self.postfix()

    def postfix(self):
        a = self.primary()
        while self.isop("["):
            self.eat()
            ix = self.expr()
            self.eat("]")
            a = ("idx", a, ix)
        return a

    def primary(self):
        k = self.eat()
        if k[0] == "num":
            return ("num", k[1])
        if k[0] == "id":
            if self.isop("("):
                self.eat()
                args = []
                if not self.isop(")"):
                    args.append(self.expr())
                    while self.isop(","):
                        self.eat()
                        args.append(self.expr())
                self.eat(")")
                return ("call", k[1], args)
            return ("id", k[1])
        if k == ("op", "("):
            e = self.expr()
            self.eat(")")
            return e
        raise ValueError("unexpected token %r" % (k,))


def parse(s):
    p = P(tokenize(s))
    e = p.expr()
    if p.peek()[0] != "eof":
        raise ValueError("trailing tokens in: " + s)
    return e


CASTS = re.compile(r"\(\s*(?:unsigned long long|unsigned long|size_t|int|long|JDIMENSION|JUINTPTR)\s*\)")
TABLES = {"tjMCUWidth", "tjMCUHeight"}
CONSTS = {"TJ_NUMSAMP", "INT_MAX", "INT_MIN", "DCTSIZE", "D_MAX_BLOCKS_IN_MCU"}


def emit(e, mode, checks, params):
    """-> (coq_text, is_bool)"""
    k = e[0]
    if k == "num":
        return e[1], False
    if k == "id":
        n = e[1]
        if n in params or n in CONSTS or n.startswith("TJSAMP_"):
            return n, False
        raise ValueError("free identifier %r not among the parameters %s" % (n, params))
    if k == "idx":
        if e[1][0] == "id" and e[1][1] in TABLES:
            a, _ = emit(e[2], mode, checks, params)
            return "(%s %s)" % (e[1][1], a), False
        raise ValueError("unsupported subscript")
    if k == "call":
        if e[1] == "abs" and len(e[2]) == 1:
            a, _ = emit(e[2][0], mode, checks, params)
            r = "(Z.abs %s)" % a
            if mode == "int":
                checks.append(r)
            return r, False
        if e[1] == "jdiv_round_up" and len(e[2]) == 2:
            a, _ = emit(e[2][0], mode, checks, params)
            b, _ = emit(e[2][1], mode, checks, params)
            return "(jdiv_round_up_c %s %s)" % (a, b), False
        raise ValueError("unsupported call " + e[1])
    if k == "ite":
        c, cb = emit(e[1], mode, checks, params)
        a, ab = emit(e[2], mode, checks, params)
        b, _ = emit(e[3], mode, checks, params)
        return "(if %s then %s else %s)" % (c if cb else "negb (%s =? 0)" % c, a, b), ab
    if k in ("u~", "u-"):
        a, _ = emit(e[1], mode, checks, params)
        r = "(Z.lnot %s)" % a if k == "u~" else "(- %s)" % a
        if mode == "ull":
            r = "(u64 %s)" % r
        elif mode == "u32":
            r = "(u32 %s)" % r
        elif mode == "int" and k == "u-":
            checks.append(r)
        return r, False
    if k == "u!":
        a, ab = emit(e[1], mode, checks, params)
        return ("(negb %s)" % a) if ab else ("(%s =? 0)" % a), True
    a, ab = emit(e[1], mode, checks, params)
    b, bb = emit(e[2], mode, checks, params)
    if k in ("+", "-", "*"):
        r = "(%s %s %s)" % (a, k, b)
        if mode == "ull":
            r = "(u64 %s)" % r
        elif mode == "u32":
            r = "(u32 %s)" % r
        elif mode == "int":
            checks.append(r)
        return r, False
    if k == "%":
        return "(Z.rem %s %s)" % (a, b), False
    if k == "/":
        return "(Z.quot %s %s)" % (a, b), False
    if k == "&":
        return "(Z.land %s %s)" % (a, b), False
    if k in ("<", ">", "<=", ">=", "==", "!="):
        op = {"<": "<?", ">": ">?", "<=": "<=?", ">=": ">=?", "==": "=?"}.get(k)
        if k == "!=":
            return "(negb (%s =? %s))" % (a, b), True
        return "(%s %s %s)" % (a, op, b), True
    if k in ("||", "&&"):
        if not ab:
            a = "negb (%s =? 0)" % a
        if not bb:
            b = "negb (%s =? 0)" % b
        return "(%s %s %s)" % (a, k, b), True
    raise ValueError("unsupported operator " + k)


MACROS = {}


def define_macro(text, name):
    m = re.search(r"#define\s+%s\(([^)]*)\)\s*((?:\\\n|[^\n])*)" % name, text)
    if not m:
        die("macro %s(...) not found" % name)
    args = [a.strip() for a in m.group(1).split(",")]
    body = m.group(2).replace("\\\n", " ").strip()
    MACROS[name] = (args, body)
    return args, body


def split_args(s):
    out, depth, cur = [], 0, ""
    for ch in s:
        if ch == "," and depth == 0:
            out.append(cur)
            cur = ""
            continue
        depth += ch in "(["
        depth -= ch in ")]"
        cur += ch
    out.append(cur)
    return [x.strip() for x in out]


def expand(s):
    """textual macro expansion (innermost last), like the preprocessor"""
    for _ in range(20):
        hit = False
        for name, (args, body) in MACROS.items():
            m = re.search(r"\b%s\(" % name, s)
            if not m:
                continue
            i, depth = m.end(), 1
            while depth:
                if i >= len(s):
                    raise ValueError("unbalanced macro call")
                depth += s[i] == "("
                depth -= s[i] == ")"
                i += 1
            actual = split_args(s[m.end():i - 1])
            if len(actual) != len(args):
                raise ValueError("macro %s arity" % name)
            b = body
            for f, a in zip(args, actual):
                b = re.sub(r"\b%s\b" % re.escape(f), lambda _m, a=a: a, b)
            s = s[:m.start()] + b + s[i:]
            hit = True
        if not hit:
            return s
    raise ValueError("macro expansion does not terminate")


RENAMES = [(r"\bthis->", ""), (r"\bcinfo->", ""), (r"\bdinfo->", ""), (r"\bcompptr->", ""),
           (r"\bscalingFactor\.num\b", "sf_num"), (r"\bscalingFactor\.denom\b", "sf_denom"),
           (r"\bstrides\[(\d)\]", r"strides\1"), (r"\bsf_num\b", "sf_num"),
           (r"\bstrides\[i\]", "stride_i"), (r"\bpw\[i\]", "pw_i"), (r"\bph\[i\]", "ph_i"), (r"\biw\[i\]", "iw_i"),
           (r"\bth\[i\]", "th_i"), (r"\bcrow\[i\]", "crow_i"),
           (r"\bcomp_info\[0\]\.h_samp_factor\b", "yh"), (r"\bcomp_info\[0\]\.v_samp_factor\b", "yv"),
           (r"\bcomp_info\[k\]\.h_samp_factor\b", "ch"), (r"\bcomp_info\[k\]\.v_samp_factor\b", "cv")]

OUT = []
DEFS = []


def cdef(name, params, ctext, mode, what):
    """translate one C expression to a Coq definition"""
    src = " ".join(ctext.split())
    s = CASTS.sub("", expand(src))
    for a, b in RENAMES:
        s = re.sub(a, b, s)
    checks = []
    try:
        body, isb = emit(parse(s), mode, checks, params)
    except ValueError as ex:
        die("%s: cannot translate C expression `%s`: %s" % (what, src, ex))
    ps = " ".join(params)
    OUT.append("(* %s  [%s]\n   C: %s *)" % (what, mode, src.replace("(*", "( *").replace("*)", "* )")))
    OUT.append("Definition %s (%s : Z) : %s :=\n  %s.\n" % (name, ps, "bool" if isb else "Z", body))
    if mode == "int":
        ok = " && ".join("in_int %s" % c for c in checks) if checks else "true"
        OUT.append("Definition %s_ok (%s : Z) : bool :=\n  %s.\n" % (name, ps, ok))
    DEFS.append(name)


def func_body(name):
    m = re.search(r"DLLEXPORT\s+[\w \*]+?\b%s\s*\(" % name, C)
    if not m:
        m = re.search(r"static\s+[\w \*]+?\b%s\s*\(" % name, C)
    if not m:
        die("function %s not found in turbojpeg.c" % name)
    i = C.find("{", m.end())
    depth, j = 1, i + 1
    while depth:
        if j >= len(C):
            die("unbalanced braces in " + name)
        depth += C[j] == "{"
        depth -= C[j] == "}"
        j += 1
    return C[i:j]


def lib_body(path, name):
    text = open(repo + "/src/" + path).read()
    m = re.search(r"^%s\s*\(" % re.escape(name), text, re.M)
    if not m:
        die("%s: function %s not found" % (path, name))
    i = text.find("\n{", m.end())
    depth, j = 1, i + 2
    while depth:
        if j >= len(text):
            die("unbalanced braces in " + name)
        depth += text[j] == "{"
        depth -= text[j] == "}"
        j += 1
    return text[i:j]


class Body:
    """ordered search of statements inside one function body"""

    def __init__(self, fn, path=None):
        self.fn, self.b, self.pos = fn, (lib_body(path, fn) if path else func_body(fn)), 0

    def find(self, rx, what, flags=re.S):
        m = re.compile(rx, flags).search(self.b, self.pos)
        if not m:
            die("%s: statement not found (in this order): %s   [regex %s]" % (self.fn, what, rx))
        self.pos = m.end()
        return m


E = r"((?:[^;]|\n)*?)"   # an expression up to the terminating token that follows in the regex
W = r"\s*"

# ------------------------------------------------------------------ header facts
m = re.search(r"#define\s+TJ_NUMSAMP\s+(\d+)", H)
if not m:
    die("TJ_NUMSAMP not found")
NUMSAMP = int(m.group(1))
m = re.search(r"enum\s+TJSAMP\s*\{(.*?)\};", H, re.S)
if not m:
    die("enum TJSAMP not found")
enum_txt = re.sub(r"/\*.*?\*/", "", m.group(1), flags=re.S)
enum, nxt = [], 0
for item in [x.strip() for x in enum_txt.split(",") if x.strip()]:
    mm = re.match(r"(\w+)(?:\s*=\s*(-?\d+))?$", item)
    if not mm:
        die("enum TJSAMP item not understood: " + item)
    v = int(mm.group(2)) if mm.group(2) else nxt
    enum.append((mm.group(1), v))
    nxt = v + 1


def table(name):
    mm = re.search(r"static const int %s\[TJ_NUMSAMP\]\s*=\s*\{([^}]*)\}" % name, H)
    if not mm:
        die("table %s[TJ_NUMSAMP] not found in turbojpeg.h" % name)
    v = [int(x) for x in re.findall(r"-?\d+", mm.group(1))]
    if len(v) != NUMSAMP:
        die("%s has %d entries, TJ_NUMSAMP=%d" % (name, len(v), NUMSAMP))
    return v


mcuw, mcuh = table("tjMCUWidth"), table("tjMCUHeight")
m = re.search(r"#define\s+NUMSF\s+(\d+)", C)
if not m:
    die("NUMSF not found")
NUMSF = int(m.group(1))
m = re.search(r"static const tjscalingfactor sf\[NUMSF\]\s*=\s*\{(.*?)\};", C, re.S)
if not m:
    die("sf[NUMSF] table not found")
sf = [(int(a), int(b)) for a, b in re.findall(r"\{\s*(\d+)\s*,\s*(\d+)\s*\}", m.group(1))]
if len(sf) != NUMSF:
    die("sf[] has %d entries, NUMSF=%d" % (len(sf), NUMSF))

OUT.append("(* GENERATED by tools/gen_Subsamp.py from src/turbojpeg.h and src/turbojpeg.c -- do not edit *)")
OUT.append("From Coq Require Import List ZArith Bool.\nImport ListNotations.\nLocal Open Scope Z_scope.\nLocal Open Scope bool_scope.\n")
OUT.append("Definition INT_MAX : Z := 2147483647.   (* limits.h; int is 32 bits on every supported ABI *)")
OUT.append("Definition INT_MIN : Z := -2147483648.")
OUT.append("Definition DCTSIZE : Z := 8.")
OUT.append("Definition in_int (x : Z) : bool := (INT_MIN <=? x) && (x <=? INT_MAX).")
OUT.append("Definition u64 (x : Z) : Z := x mod 18446744073709551616.   (* unsigned long long wrap-around *)")
OUT.append("Definition u32 (x : Z) : Z := x mod 4294967296.   (* unsigned int (JDIMENSION) wrap-around *)\n")
JL = open(repo + "/src/jpeglib.h").read()
m = re.search(r"#define\s+D_MAX_BLOCKS_IN_MCU\s+(\d+)", JL)
if not m:
    die("D_MAX_BLOCKS_IN_MCU not found in jpeglib.h")
OUT.append("Definition D_MAX_BLOCKS_IN_MCU : Z := %s." % m.group(1))
OUT.append("Definition TJ_NUMSAMP : Z := %d." % NUMSAMP)
for n, v in enum:
    OUT.append("Definition %s : Z := %s." % (n, ("(%d)" % v) if v < 0 else str(v)))
OUT.append("Definition tjMCUWidth_tbl : list Z := [%s]." % "; ".join(map(str, mcuw)))
OUT.append("Definition tjMCUHeight_tbl : list Z := [%s]." % "; ".join(map(str, mcuh)))
OUT.append("Definition tjMCUWidth (s : Z) : Z := nth (Z.to_nat s) tjMCUWidth_tbl 0.")
OUT.append("Definition tjMCUHeight (s : Z) : Z := nth (Z.to_nat s) tjMCUHeight_tbl 0.")
OUT.append("Definition NUMSF : Z := %d." % NUMSF)
OUT.append("Definition sf_tbl : list (Z * Z) := [%s].\n" % "; ".join("(%d, %d)" % p for p in sf))

# ------------------------------------------------------------------ macros
a, b = define_macro(C, "PAD")
if len(a) != 2:
    die("PAD arity")
a2, b2 = define_macro(C, "IS_POW2")
a3, b3 = define_macro(H, "TJSCALED")
cdef("PAD_c", ["v", "p"], "PAD(v, p)", "int", "macro PAD(v, p), int operands")
cdef("PAD_ull", ["v", "p"], "PAD(v, p)", "ull", "macro PAD(v, p), unsigned long long first operand")
cdef("IS_POW2_c", ["x"], "IS_POW2(x)", "math", "macro IS_POW2(x)")
# TJSCALED(dimension, scalingFactor) uses scalingFactor.num/.denom
MACROS["TJSCALED"] = (a3, b3)
cdef("TJSCALED_c", ["dimension", "sf_num", "sf_denom"], "TJSCALED(dimension, scalingFactor)", "int",
     "macro TJSCALED(dimension, scalingFactor)")

# ------------------------------------------------------------------ plane width / height
for fn, dim, tbl, pfx, msg in (("tj3YUVPlaneWidth", "width", "tjMCUWidth", "pw", "Width is too large"),
                               ("tj3YUVPlaneHeight", "height", "tjMCUHeight", "ph", "Height is too large")):
    B = Body(fn)
    g = B.find(r"if \(" + E + r"\)" + W + r'THROWG\("Invalid argument", 0\);', "argument guard")
    cdef(pfx + "_guard", [dim, "subsamp"], g.group(1), "math", fn + ": first argument guard")
    g = B.find(r"nc = \(" + E + r"\);", "nc = ...")
    cdef(pfx + "_nc", ["subsamp"], g.group(1), "math", fn + ": number of components")
    g = B.find(r"if \(" + E + r"\)" + W + r'THROWG\("Invalid argument", 0\);', "componentID guard")
    cdef(pfx + "_compguard", ["componentID", "nc"], g.group(1), "math", fn + ": componentID guard")
    g = B.find(r"\b%s = " % pfx + E + r";", "%s = PAD(...)" % pfx)
    if "(unsigned long long)" + dim not in g.group(1):
        die("%s: the padded dimension is no longer computed in unsigned long long: %s" % (fn, g.group(1)))
    cdef(pfx + "_luma", [dim, "subsamp"], g.group(1), "ull", fn + ": padded luma dimension")
    g = B.find(r"if \(" + E + r"\)" + W + r"retval = " + E + r";" + W + r"else" + W + r"retval = " + E + r";", "retval selection")
    cdef(pfx + "_retval", ["componentID", pfx, "subsamp"], "(%s) ? (%s) : (%s)" % g.groups(), "ull", fn + ": returned dimension")
    g = B.find(r"if \(" + E + r"\)" + W + r'THROWG\("%s", 0\);' % msg, "INT_MAX check")
    if "(unsigned long long)INT_MAX" not in g.group(1):
        die(fn + ": INT_MAX check is not an unsigned long long comparison any more")
    cdef(pfx + "_toolarge", ["retval"], g.group(1), "math", fn + ": INT_MAX check")
    B.find(r"bailout:" + W + r"return \(int\)retval;", "return (int)retval")

# ------------------------------------------------------------------ tj3YUVBufSize
ULCHK = (r"#if ULLONG_MAX > ULONG_MAX" + W + r"if \(retval > \(unsigned long long\)\(\(unsigned long\)-1\)\)" + W +
         r'THROWG\("Image is too large", 0\);' + W + r"#endif")
B = Body("tj3YUVBufSize")
B.find(r"unsigned long long retval = 0;", "unsigned long long retval = 0")
g = B.find(r"if \(" + E + r"\)" + W + r'THROWG\("Invalid argument", 0\);', "argument guard")
cdef("bs_guard", ["align", "subsamp"], g.group(1), "math", "tj3YUVBufSize: argument guard")
g = B.find(r"nc = \(" + E + r"\);", "nc = ...")
cdef("bs_nc", ["subsamp"], g.group(1), "math", "tj3YUVBufSize: number of planes")
B.find(r"for \(i = 0; i < nc; i\+\+\) \{", "plane loop")
B.find(r"int pw = tj3YUVPlaneWidth\(i, width, subsamp\);", "pw = tj3YUVPlaneWidth(i, width, subsamp)")
g = B.find(r"unsigned long long stride = " + E + r";", "unsigned long long stride = ...")
if "(unsigned long long)pw" not in g.group(1):
    die("tj3YUVBufSize: the row stride is no longer padded in unsigned long long: " + g.group(1))
cdef("bs_stride", ["pw", "align"], g.group(1), "ull", "tj3YUVBufSize: row stride (unsigned long long arithmetic)")
B.find(r"int ph = tj3YUVPlaneHeight\(i, height, subsamp\);", "ph = tj3YUVPlaneHeight(i, height, subsamp)")
g = B.find(r"if \(" + E + r"\) return 0;", "zero-dimension test")
cdef("bs_zero", ["pw", "ph"], g.group(1), "math", "tj3YUVBufSize: zero-dimension test")
g = B.find(r"if \(" + E + r"\)" + W + r'THROWG\("Image or row alignment is too large", 0\);', "stride > INT_MAX test")
if "(unsigned long long)INT_MAX" not in g.group(1):
    die("tj3YUVBufSize: the stride test is not an unsigned long long comparison")
cdef("bs_stride_toolarge", ["stride"], g.group(1), "math", "tj3YUVBufSize: stride does not fit an int")
g = B.find(r"retval \+= " + E + r";", "retval += ...")
cdef("bs_term", ["stride", "ph"], g.group(1), "ull", "tj3YUVBufSize: size of one plane (stride is unsigned long long)")
B.find(ULCHK, "ULONG_MAX check")
B.find(r"bailout:" + W + r"return \(size_t\)retval;", "return (size_t)retval")

# ------------------------------------------------------------------ tj3YUVPlaneSize
B = Body("tj3YUVPlaneSize")
g = B.find(r"if \(" + E + r"\)" + W + r'THROWG\("Invalid argument", 0\);', "argument guard")
cdef("ps_guard", ["width", "height", "subsamp", "stride"], g.group(1), "math", "tj3YUVPlaneSize: argument guard")
B.find(r"pw = tj3YUVPlaneWidth\(componentID, width, subsamp\);" + W + r"ph = tj3YUVPlaneHeight\(componentID, height, subsamp\);", "pw/ph calls")
g = B.find(r"if \(" + E + r"\) return 0;", "zero-dimension test")
cdef("ps_zero", ["pw", "ph"], g.group(1), "math", "tj3YUVPlaneSize: zero-dimension test")
g = B.find(r"if \(" + E + r"\) stride = " + E + r";" + W + r"else stride = " + E + r";", "stride normalisation")
cdef("ps_stride", ["stride", "pw"], "(%s) ? (%s) : (%s)" % g.groups(), "int", "tj3YUVPlaneSize: effective stride")
g = B.find(r"retval = " + E + r";", "retval = ...")
if "(unsigned long long)stride" not in g.group(1):
    die("tj3YUVPlaneSize: the size is no longer computed in unsigned long long")
cdef("ps_retval", ["stride", "ph", "pw"], g.group(1), "ull", "tj3YUVPlaneSize: size")
B.find(ULCHK, "ULONG_MAX check")
B.find(r"bailout:" + W + r"return \(size_t\)retval;", "return (size_t)retval")

# ------------------------------------------------------------------ unified-buffer functions
UNI = [("tj3CompressFromYUV8", "src", "tj3CompressFromYUVPlanes8",
        r"return tj3CompressFromYUVPlanes8\(handle, srcPlanes, width, strides, height," + W + r"jpegBuf, jpegSize\);"),
       ("tj3EncodeYUV8", "dst", "tj3EncodeYUVPlanes8",
        r"return tj3EncodeYUVPlanes8\(handle, srcBuf, width, pitch, height, pixelFormat," + W + r"dstPlanes, strides\);"),
       ("tj3DecompressToYUV8", "dst", "tj3DecompressToYUVPlanes8",
        r"return tj3DecompressToYUVPlanes8\(handle, jpegBuf, jpegSize, dstPlanes," + W + r"strides\);"),
       ("tj3DecodeYUV8", "src", "tj3DecodeYUVPlanes8",
        r"return tj3DecodeYUVPlanes8\(handle, srcPlanes, strides, dstBuf, width, pitch," + W + r"height, pixelFormat\);")]
uni_names = []
OUT.append("(* one unified-buffer function: translated stride/offset/check expressions; legacy_* = the chroma dimension is\n"
           "   obtained through tjPlaneWidth/tjPlaneHeight, whose error value is -1 instead of 0 *)")
OUT.append("Record uni_fn := { u_argguard : Z -> Z -> Z -> bool; u_unknown : Z -> bool; u_padguard : Z -> Z -> Z -> bool; u_stride0 : Z -> Z -> Z; u_stride0_ok : Z -> Z -> bool; u_stride1 : Z -> Z -> Z; u_stride1_ok : Z -> Z -> bool;\n"
           "  u_toolarge : Z -> Z -> Z -> Z -> bool; u_off1 : Z -> Z -> Z; u_off1_ok : Z -> Z -> bool; u_off2 : Z -> Z -> Z; u_off2_ok : Z -> Z -> bool;\n"
           "  u_legacy_pw1 : bool; u_legacy_ph1 : bool }.\n")
for fn, sd, callee, callrx in UNI:
    B = Body(fn)
    short = fn[3:]
    pl = sd + "Planes"
    g = B.find(r"if \(" + E + r"\)" + W + r'THROW\("Invalid argument"\);', "argument guard")
    gtxt = " ".join(g.group(1).split())
    if "align < 1 || !IS_POW2(align)" not in gtxt:
        die(fn + ": the alignment guard `align < 1 || !IS_POW2(align)` is gone: " + gtxt)
    # the guard as a function of the geometry arguments: buffer pointers are taken to be non-NULL (1), jpegSize positive (1)
    gsub = re.sub(r"\b(srcBuf|dstBuf|jpegBuf|jpegSize)\b", "1", gtxt).replace("NULL", "0")
    cdef("u%s_argguard" % short, ["width", "align", "height"], gsub, "math", fn + ": argument guard (non-NULL buffers)")
    g = B.find(r"if \(" + E + r"\)" + W + r'THROW\("(?:TJPARAM_SUBSAMP must be specified|Could not determine subsampling level of JPEG image)"\);', "unknown-subsampling guard")
    cdef("u%s_unknown" % short, ["subsamp"], g.group(1), "math", fn + ": subsampling level not known")
    if fn == "tj3DecompressToYUV8":
        B.find(r"width = TJSCALED\(dinfo->image_width, this->scalingFactor\);" + W +
               r"height = TJSCALED\(dinfo->image_height, this->scalingFactor\);", "scaled width/height")
    B.find(r"pw0 = tj3YUVPlaneWidth\(0, width, this->subsamp\);" + W + r"ph0 = tj3YUVPlaneHeight\(0, height, this->subsamp\);", "pw0/ph0")
    B.find(r"%s\[0\] = %sBuf;" % (pl, sd), "plane 0 = buffer start")
    g = B.find(r"if \(" + E + r"\)" + W + r'THROW\("Image or row alignment is too large"\);', "luma dimension / padding guard")
    cdef("u%s_padguard" % short, ["pw0", "ph0", "align"], g.group(1), "math", fn + ": guard before the int PAD")
    g = B.find(r"strides\[0\] = " + E + r";", "strides[0] = ...")
    cdef("u%s_stride0" % short, ["pw0", "align"], g.group(1), "int", fn + ": luma stride")
    B.find(r"if \(this->subsamp == TJSAMP_GRAY\) \{" + W + r"strides\[1\] = strides\[2\] = 0;" + W +
           r"%s\[1\] = %s\[2\] = NULL;" % (pl, pl) + W + r"\} else \{", "grayscale branch")
    g = B.find(r"int pw1 = (tj3YUVPlaneWidth|tjPlaneWidth)\(1, width, this->subsamp\);" + W +
               r"int ph1 = (tj3YUVPlaneHeight|tjPlaneHeight)\(1, height, this->subsamp\);", "pw1/ph1")
    legacy_w, legacy_h = g.group(1) == "tjPlaneWidth", g.group(2) == "tjPlaneHeight"
    g = B.find(r"strides\[1\] = strides\[2\] = " + E + r";", "strides[1] = strides[2] = ...")
    cdef("u%s_stride1" % short, ["pw1", "align"], g.group(1), "int", fn + ": chroma stride")
    g = B.find(r"if \(" + E + r"\)" + W + r'THROW\("Image or row alignment is too large"\);', "plane size check")
    if g.group(1).count("(unsigned long long)") < 5:
        die(fn + ": the plane size check is no longer an unsigned long long comparison")
    cdef("u%s_toolarge" % short, ["strides0", "ph0", "strides1", "ph1"], g.group(1), "ull", fn + ": plane size check")
    g = B.find(r"%s\[1\] = %s\[0\] \+ " % (pl, pl) + E + r";", "plane 1 pointer")
    cdef("u%s_off1" % short, ["strides0", "ph0"], g.group(1), "int", fn + ": offset of plane 1 relative to plane 0")
    g = B.find(r"%s\[2\] = %s\[1\] \+ " % (pl, pl) + E + r";", "plane 2 pointer")
    cdef("u%s_off2" % short, ["strides1", "ph1"], g.group(1), "int", fn + ": offset of plane 2 relative to plane 1")
    B.find(callrx, "call of " + callee + " with the planes/strides computed above")
    OUT.append("Definition u%s : uni_fn := {| u_argguard := u%s_argguard; u_unknown := u%s_unknown; u_padguard := u%s_padguard; u_stride0 := u%s_stride0; u_stride0_ok := u%s_stride0_ok; u_stride1 := u%s_stride1; "
               "u_stride1_ok := u%s_stride1_ok;\n  u_toolarge := u%s_toolarge; u_off1 := u%s_off1; u_off1_ok := u%s_off1_ok; u_off2 := u%s_off2; "
               "u_off2_ok := u%s_off2_ok;\n  u_legacy_pw1 := %s; u_legacy_ph1 := %s |}.\n"
               % ((short,) * 13 + ("true" if legacy_w else "false", "true" if legacy_h else "false")))
    uni_names.append(short)


# ------------------------------------------------------------------ getSubsamp(): which sampling factors denote which level
B = Body("getSubsamp")
B.find(r"if \(dinfo->num_components == 1 && dinfo->jpeg_color_space == JCS_GRAYSCALE\)" + W + r"return TJSAMP_GRAY;", "grayscale special case")
B.find(r"for \(i = 0; i < TJ_NUMSAMP; i\+\+\) \{" + W + r"if \(i == TJSAMP_GRAY\) continue;", "level loop skipping TJSAMP_GRAY")
B.find(r"if \(dinfo->num_components == 3 \|\|" + W + r"\(\(dinfo->jpeg_color_space == JCS_YCCK \|\|" + W + r"dinfo->jpeg_color_space == JCS_CMYK\) &&" + W +
       r"dinfo->num_components == 4\)\) \{", "3-component (or 4-component CMYK/YCCK) test")
g = B.find(r"if \(" + E + r"\) \{" + W + r"int match = 0;", "standard rule")
cdef("gs_std", ["yh", "yv", "i"], g.group(1), "math", "getSubsamp: luma factors of the standard form of level i")
B.find(r"int href = 1, vref = 1;", "standard chroma factors 1x1")
MATCHK = r"if \(dinfo->comp_info\[k\]\.h_samp_factor == href &&" + W + r"dinfo->comp_info\[k\]\.v_samp_factor == vref\)" + W + r"match\+\+;"
B.find(MATCHK, "chroma factor comparison")
B.find(r"if \(match == dinfo->num_components - 1\) \{" + W + r"retval = i;  break;", "all chroma components must match")
g = B.find(r"if \(" + E + r"\) \{" + W + r"int match = 0;", "non-standard 4:2:2 / 4:4:0 rule")
cdef("gs_ns", ["yh", "yv", "i"], g.group(1), "math", "getSubsamp: luma factors of the non-standard form of level i")
g = B.find(r"int href = " + E + r", vref = " + E + r";", "non-standard chroma factors")
cdef("gs_ns_href", ["i"], g.group(1), "math", "getSubsamp: chroma h factor of the non-standard form")
cdef("gs_ns_vref", ["i"], g.group(2), "math", "getSubsamp: chroma v factor of the non-standard form")
B.find(MATCHK, "chroma factor comparison")
B.find(r"if \(match == dinfo->num_components - 1\) \{" + W + r"retval = i;  break;", "all chroma components must match")
g = B.find(r"if \(" + E + r"\) \{" + W + r"int match = 0;", "non-standard 4:4:4 rule")
cdef("gs_444", ["yh", "yv", "i"], g.group(1), "math", "getSubsamp: luma factors of a non-standard 4:4:4 form")
B.find(r"if \(dinfo->comp_info\[k\]\.h_samp_factor ==" + W + r"dinfo->comp_info\[0\]\.h_samp_factor &&" + W +
       r"dinfo->comp_info\[k\]\.v_samp_factor ==" + W + r"dinfo->comp_info\[0\]\.v_samp_factor\)" + W + r"match\+\+;", "chroma factors equal to the luma ones")


# ------------------------------------------------------------------ which geometry the unified splitters use, and the 2.x wrappers' plumbing
# tj3DecompressToYUV8 must derive subsamp/dimensions from the CURRENT header whether or not the caller has already
# read it (the 2.x wrappers read the header themselves and enter with global_state == DSTATE_READY)
B = Body("tj3DecompressToYUV8")
B.find(r"if \(dinfo->global_state <= DSTATE_INHEADER\) \{" + W + r"jpeg_mem_src_tj\(dinfo, jpegBuf, jpegSize\);" + W +
       r"jpeg_read_header\(dinfo, TRUE\);" + W + r"\}" + W + r"setDecompParameters\(this\);" + W +
       r"if \(this->subsamp == TJSAMP_UNKNOWN\)", "setDecompParameters(this) unconditionally after the conditional header read")
B = Body("tj3DecompressToYUVPlanes8")
B.find(r"if \(dinfo->global_state <= DSTATE_INHEADER\) \{" + W + r"jpeg_mem_src_tj\(dinfo, jpegBuf, jpegSize\);" + W +
       r"jpeg_read_header\(dinfo, TRUE\);" + W + r"\}" + W + r"setDecompParameters\(this\);", "setDecompParameters(this) unconditionally after the conditional header read")
LEGACY = [
    ("tjBufSizeYUV2", [r"tj3YUVBufSize\(width, align, height, subsamp\)"]),
    ("tjPlaneSizeYUV", [r"tj3YUVPlaneSize\(componentID, width, stride, height, subsamp\)"]),
    ("tjPlaneWidth", [r"tj3YUVPlaneWidth\(componentID, width, subsamp\)"]),
    ("tjPlaneHeight", [r"tj3YUVPlaneHeight\(componentID, height, subsamp\)"]),
    ("tjDecompressToYUV2", [r"jpeg_read_header\(dinfo, TRUE\);", r"if \(tj3SetScalingFactor\(handle, sf\[i\]\) == -1\)",
                            r"return tj3DecompressToYUV8\(handle, jpegBuf, \(size_t\)jpegSize, dstBuf, align\);"]),
    ("tjDecompressToYUV", [r"return tjDecompressToYUV2\(handle, jpegBuf, jpegSize, dstBuf, 0, 4, 0, flags\);"]),
    ("tjDecompressToYUVPlanes", [r"jpeg_read_header\(dinfo, TRUE\);", r"if \(tj3SetScalingFactor\(handle, sf\[i\]\) == -1\)",
                                 r"return tj3DecompressToYUVPlanes8\(handle, jpegBuf, jpegSize, dstPlanes," + W + r"strides\);"]),
    ("tjEncodeYUV3", [r"this->subsamp = subsamp;", r"return tj3EncodeYUV8\(handle, srcBuf, width, pitch, height, pixelFormat," + W + r"dstBuf, align\);"]),
    ("tjEncodeYUVPlanes", [r"this->subsamp = subsamp;", r"return tj3EncodeYUVPlanes8\(handle, srcBuf, width, pitch, height, pixelFormat," + W + r"dstPlanes, strides\);"]),
    ("tjDecodeYUV", [r"this->subsamp = subsamp;", r"return tj3DecodeYUV8\(handle, srcBuf, align, dstBuf, width, pitch, height," + W + r"pixelFormat\);"]),
    ("tjDecodeYUVPlanes", [r"this->subsamp = subsamp;", r"return tj3DecodeYUVPlanes8\(handle, srcPlanes, strides, dstBuf, width, pitch," + W + r"height, pixelFormat\);"]),
    ("tjCompressFromYUV", [r"this->subsamp = subsamp;", r"retval = tj3CompressFromYUV8\(handle, srcBuf, width, align, height, jpegBuf," + W + r"&size\);"]),
    ("tjCompressFromYUVPlanes", [r"this->subsamp = subsamp;", r"retval = tj3CompressFromYUVPlanes8\(handle, srcPlanes, width, strides, height," + W + r"jpegBuf, &size\);"]),
]
for fn, pats in LEGACY:
    B = Body(fn)
    for rx in pats:
        B.find(rx, "2.x wrapper plumbing")
OUT.append("(* 2.x wrappers whose forwarding to the tj3 functions (same geometry arguments, subsamp stored first) was checked in the source text;")
OUT.append("   tj3DecompressToYUV8 / tj3DecompressToYUVPlanes8 derive subsamp and dimensions from the current header unconditionally *)")
OUT.append("Definition legacy_wrappers_checked : Z := %d.\n" % len(LEGACY))

# ------------------------------------------------------------------ per-plane codec paths
B = Body("setCompDefaults")
g = B.find(r"comp_info\[0\]\.h_samp_factor = " + E + r";" + W + r"this->cinfo\.comp_info\[1\]\.h_samp_factor = 1;" + W +
           r"this->cinfo\.comp_info\[2\]\.h_samp_factor = 1;", "h_samp_factor assignments")
cdef("comp_hsamp0", ["subsamp"], g.group(1), "math", "setCompDefaults: luma h_samp_factor (chroma: 1)")
g = B.find(r"comp_info\[0\]\.v_samp_factor = " + E + r";" + W + r"this->cinfo\.comp_info\[1\]\.v_samp_factor = 1;" + W +
           r"this->cinfo\.comp_info\[2\]\.v_samp_factor = 1;", "v_samp_factor assignments")
cdef("comp_vsamp0", ["subsamp"], g.group(1), "math", "setCompDefaults: luma v_samp_factor (chroma: 1)")
B = Body("setDecodeDefaults")
g = B.find(r"compptr->h_samp_factor = \(i == 0\) \? " + E + r" : 1;", "h_samp_factor")
cdef("dec_hsamp0", ["subsamp"], g.group(1), "math", "setDecodeDefaults: luma h_samp_factor (chroma: 1)")
g = B.find(r"compptr->v_samp_factor = \(i == 0\) \? " + E + r" : 1;", "v_samp_factor")
cdef("dec_vsamp0", ["subsamp"], g.group(1), "math", "setDecodeDefaults: luma v_samp_factor (chroma: 1)")

B = Body("tj3CompressFromYUVPlanes8")
g = B.find(r"pw\[i\] = " + E + r";", "pw[i]")
cdef("cfp_pw", ["image_width", "max_h_samp_factor", "h_samp_factor"], g.group(1), "math", "tj3CompressFromYUVPlanes8: pw[i]")
g = B.find(r"ph\[i\] = " + E + r";", "ph[i]")
cdef("cfp_ph", ["image_height", "max_v_samp_factor", "v_samp_factor"], g.group(1), "math", "tj3CompressFromYUVPlanes8: ph[i]")
B.find(r"if \(iw\[i\] != pw\[i\] \|\| ih != ph\[i\]\) usetmpbuf = 1;", "usetmpbuf test")
for fn, short in (("tj3EncodeYUVPlanes8", "enc"), ("tj3DecodeYUVPlanes8", "dec")):
    B = Body(fn)
    g = B.find(r"pw0 = " + E + r";" + W + r"ph0 = " + E + r";", "pw0/ph0")
    cdef(short + "_pw0", ["width", "max_h_samp_factor"], g.group(1), "math", fn + ": pw0")
    cdef(short + "_ph0", ["height", "max_v_samp_factor"], g.group(2), "math", fn + ": ph0")
    g = B.find(r"pw\[i\] = " + E + r";" + W + r"ph\[i\] = " + E + r";", "pw[i]/ph[i]")
    cdef(short + "_pw", ["pw0", "h_samp_factor", "max_h_samp_factor"], g.group(1), "math", fn + ": pw[i]")
    cdef(short + "_ph", ["ph0", "v_samp_factor", "max_v_samp_factor"], g.group(2), "math", fn + ": ph[i]")
B = Body("tj3DecompressToYUVPlanes8")
g = B.find(r"dctsize = " + E + r";", "dctsize")
cdef("dtp_dctsize", ["sf_num", "sf_denom"], g.group(1), "math", "tj3DecompressToYUVPlanes8: scaled DCT size")
B.find(r"pw\[i\] = tj3YUVPlaneWidth\(i, dinfo->output_width, this->subsamp\);" + W +
       r"ph\[i\] = tj3YUVPlaneHeight\(i, dinfo->output_height, this->subsamp\);", "pw[i]/ph[i] from the size functions")
B.find(r"if \(iw\[i\] != pw\[i\] \|\| ih != ph\[i\]\) usetmpbuf = 1;", "usetmpbuf test")



# ------------------------------------------------------------------ library side: raw-data API, blocks per component, output size
B = Body("jdiv_round_up", "jutils.c")
g = B.find(r"return " + E + r";", "return (a + b - 1L) / b")
cdef("jdiv_round_up_c", ["a", "b"], g.group(1), "math", "jutils.c jdiv_round_up")
for path, fn, short in (("jdinput.c", "initial_setup", "ljd"), ("jcmaster.c", "initial_setup", "ljc")):
    B = Body(fn, path)
    g = B.find(r"compptr->width_in_blocks = \(JDIMENSION\)" + W + E + r";" + W + r"compptr->height_in_blocks = \(JDIMENSION\)" + W + E + r";", "blocks per component")
    unit = "data_unit"
    iwn, ihn = ("image_width", "image_height") if short == "ljd" else ("_jpeg_width", "_jpeg_height")   # jcmaster: _jpeg_width/_jpeg_height are macros for image_width/height in the v6b ABI
    cdef(short + "_wib", [iwn, "h_samp_factor", "max_h_samp_factor", unit], g.group(1), "math", path + " " + fn + ": width_in_blocks")
    cdef(short + "_hib", [ihn, "v_samp_factor", "max_v_samp_factor", unit], g.group(2), "math", path + " " + fn + ": height_in_blocks")
    g = B.find(r"cinfo->total_iMCU_rows = \(JDIMENSION\)" + W + E + r";", "total_iMCU_rows")
    cdef(short + "_imcu_rows", [ihn, "max_v_samp_factor", unit], g.group(1), "math", path + " " + fn + ": total_iMCU_rows")
for path, short in (("jdinput.c", "ljd"), ("jcmaster.c", "ljc")):
    B = Body("per_scan_setup", path)
    g = B.find(r"tmp = \(int\)\(" + E + r"\);" + W + r"if \(" + E + r"\) tmp = " + E + r";" + W + r"compptr->last_row_height = tmp;", "last_row_height")
    cdef(short + "_last_row_height", ["height_in_blocks", "v_samp_factor"], "(%s) == 0 ? (%s) : (%s)" % (g.group(1), g.group(3), g.group(1)), "math",
         path + " per_scan_setup: real block rows of the last iMCU row")
    if " ".join(g.group(2).split()) != "tmp == 0":
        die(path + ": last_row_height test changed: " + g.group(2))
B = Body("decompress_data", "jdcoefct.c")
B.find(r"JDIMENSION last_iMCU_row = cinfo->total_iMCU_rows - 1;", "last_iMCU_row")
B.find(r"if \(cinfo->output_iMCU_row < last_iMCU_row\)" + W + r"block_rows = compptr->v_samp_factor;", "full iMCU rows")
g = B.find(r"block_rows = \(int\)\(" + E + r"\);" + W + r"if \(block_rows == 0\) block_rows = " + E + r";", "block rows of the last iMCU row")
cdef("ljd_block_rows_last", ["height_in_blocks", "v_samp_factor"], "(%s) == 0 ? (%s) : (%s)" % (g.group(1), g.group(2), g.group(1)), "math",
     "jdcoefct.c decompress_data: block rows decoded in the last iMCU row")
B.find(r"for \(block_row = 0; block_row < block_rows; block_row\+\+\) \{", "block row loop")
B.find(r"output_ptr \+= compptr->_DCT_scaled_size;", "one block row = _DCT_scaled_size sample rows")
# jpeg_read_raw_data / jpeg_write_raw_data
B = Body("_jpeg_read_raw_data", "jdapistd.c")
g = B.find(r"if \(" + E + r"\) \{" + W + r"WARNMS\(cinfo, JWRN_TOO_MUCH_DATA\);" + W + r"return 0;", "too-much-data test")
cdef("rr_done", ["output_scanline", "output_height"], g.group(1), "math", "jpeg_read_raw_data: nothing left to return")
g = B.find(r"lines_per_iMCU_row = " + E + r";" + W + r"if \(" + E + r"\)" + W + r"ERREXIT\(cinfo, JERR_BUFFER_SIZE\);", "lines_per_iMCU_row and buffer test")
cdef("rr_lines", ["max_v_samp_factor", "_min_DCT_scaled_size"], g.group(1), "math", "jpeg_read_raw_data: lines_per_iMCU_row")
cdef("rr_toosmall", ["max_lines", "lines_per_iMCU_row"], g.group(2), "math", "jpeg_read_raw_data: JERR_BUFFER_SIZE test")
B.find(r"cinfo->output_scanline \+= lines_per_iMCU_row;" + W + r"return lines_per_iMCU_row;", "output_scanline advances by one iMCU row")
B = Body("_jpeg_write_raw_data", "jcapistd.c")
g = B.find(r"if \(" + E + r"\) \{" + W + r"WARNMS\(cinfo, JWRN_TOO_MUCH_DATA\);" + W + r"return 0;", "too-much-data test")
cdef("wr_done", ["next_scanline", "image_height"], g.group(1), "math", "jpeg_write_raw_data: nothing left to accept")
g = B.find(r"lines_per_iMCU_row = " + E + r";" + W + r"if \(" + E + r"\)" + W + r"ERREXIT\(cinfo, JERR_BUFFER_SIZE\);", "lines_per_iMCU_row and buffer test")
cdef("wr_lines", ["max_v_samp_factor"], g.group(1), "math", "jpeg_write_raw_data: lines_per_iMCU_row")
cdef("wr_toosmall", ["num_lines", "lines_per_iMCU_row"], g.group(2), "math", "jpeg_write_raw_data: JERR_BUFFER_SIZE test")
B.find(r"cinfo->next_scanline \+= lines_per_iMCU_row;" + W + r"return lines_per_iMCU_row;", "next_scanline advances by one iMCU row")
# jpeg_core_output_dimensions: the ladder of scale tests
JM = open(repo + "/src/jdmaster.c").read()
lad = re.findall(r"if \(cinfo->scale_num \* DCTSIZE <= cinfo->scale_denom(?: \* (\d+))?\) \{\s*/\*[^*]*\*/\s*cinfo->output_width = \(JDIMENSION\)\s*"
                 r"jdiv_round_up\(\(long\)cinfo->image_width(?: \* (\d+)L)?, \(long\)DCTSIZE\);\s*cinfo->output_height = \(JDIMENSION\)\s*"
                 r"jdiv_round_up\(\(long\)cinfo->image_height(?: \* (\d+)L)?, \(long\)DCTSIZE\);\s*cinfo->_min_DCT_h_scaled_size = (\d+);\s*"
                 r"cinfo->_min_DCT_v_scaled_size = (\d+);", JM)
m = re.search(r"\} else \{\s*/\*[^*]*\*/\s*cinfo->output_width = \(JDIMENSION\)\s*jdiv_round_up\(\(long\)cinfo->image_width \* (\d+)L, \(long\)DCTSIZE\);\s*"
              r"cinfo->output_height = \(JDIMENSION\)\s*jdiv_round_up\(\(long\)cinfo->image_height \* (\d+)L, \(long\)DCTSIZE\);\s*"
              r"cinfo->_min_DCT_h_scaled_size = (\d+);\s*cinfo->_min_DCT_v_scaled_size = (\d+);", JM)
if len(lad) < 8 or not m:
    die("jdmaster.c: the ladder of `scale_num * DCTSIZE <= scale_denom * N` tests was not recognised (%d rungs)" % len(lad))
rungs = []
for a, wm, hm, dh, dv in lad:
    rungs.append((int(a or 1), int(wm or 1), int(hm or 1), int(dh), int(dv)))
OUT.append("(* jdmaster.c jpeg_core_output_dimensions: rungs (N, width multiplier, height multiplier, min_DCT_h, min_DCT_v) of the ladder\n"
           "   `if (scale_num * DCTSIZE <= scale_denom * N)`, in source order, and the final else branch *)")
OUT.append("Definition lj_scale_ladder : list (Z * Z * Z * Z * Z) := [%s]." % "; ".join("(%d, %d, %d, %d, %d)" % r for r in rungs))
OUT.append("Definition lj_scale_else : Z * Z * Z * Z := (%s, %s, %s, %s).\n" % m.groups())


# ------------------------------------------------------------------ scratch buffers of tj3EncodeYUVPlanes8 / tj3DecodeYUVPlanes8 (unsigned int arithmetic)
B = Body("tj3EncodeYUVPlanes8")
g = B.find(r"_tmpbuf\[i\] = \(JSAMPLE \*\)MALLOC\(" + E + r"\);", "_tmpbuf[i] size")
cdef("enc_tmp_size", ["width_in_blocks", "max_h_samp_factor", "h_samp_factor", "max_v_samp_factor"], g.group(1), "u32", "tj3EncodeYUVPlanes8: bytes of the colour-conversion scratch buffer")
g = B.find(r"for \(row = 0; row < " + E + r"; row\+\+\) \{" + W + r"unsigned char \*_tmpbuf_aligned =" + W + r"\(unsigned char \*\)PAD\(\(JUINTPTR\)_tmpbuf\[i\], 32\);" + W +
           r"tmpbuf\[i\]\[row\] = &_tmpbuf_aligned\[" + E + r"\];", "tmpbuf row pointers")
cdef("enc_tmp_rows", ["max_v_samp_factor"], g.group(1), "math", "tj3EncodeYUVPlanes8: rows of the colour-conversion scratch buffer")
cdef("enc_tmp_rowoff", ["width_in_blocks", "max_h_samp_factor", "h_samp_factor", "row"], g.group(2), "u32", "tj3EncodeYUVPlanes8: offset of a scratch row from the aligned base")
g = B.find(r"_tmpbuf2\[i\] =" + W + r"\(JSAMPLE \*\)MALLOC\(" + E + r"\);", "_tmpbuf2[i] size")
cdef("enc_tmp2_size", ["width_in_blocks", "v_samp_factor"], g.group(1), "u32", "tj3EncodeYUVPlanes8: bytes of the downsampling scratch buffer")
g = B.find(r"for \(row = 0; row < " + E + r"; row\+\+\) \{" + W + r"unsigned char \*_tmpbuf2_aligned =" + W + r"\(unsigned char \*\)PAD\(\(JUINTPTR\)_tmpbuf2\[i\], 32\);" + W +
           r"tmpbuf2\[i\]\[row\] =" + W + r"&_tmpbuf2_aligned\[" + E + r"\];", "tmpbuf2 row pointers")
cdef("enc_tmp2_rows", ["v_samp_factor"], g.group(1), "math", "tj3EncodeYUVPlanes8: rows of the downsampling scratch buffer")
cdef("enc_tmp2_rowoff", ["width_in_blocks", "row"], g.group(2), "u32", "tj3EncodeYUVPlanes8: offset of a downsampling scratch row")
B = Body("tj3DecodeYUVPlanes8")
g = B.find(r"_tmpbuf\[i\] =" + W + r"\(JSAMPLE \*\)malloc\(" + E + r"\);", "_tmpbuf[i] size")
cdef("dec_tmp_size", ["width_in_blocks", "v_samp_factor"], g.group(1), "u32", "tj3DecodeYUVPlanes8: bytes of the upsampling scratch buffer")
g = B.find(r"for \(row = 0; row < " + E + r"; row\+\+\) \{" + W + r"unsigned char \*_tmpbuf_aligned =" + W + r"\(unsigned char \*\)PAD\(\(JUINTPTR\)_tmpbuf\[i\], 32\);" + W +
           r"tmpbuf\[i\]\[row\] =" + W + r"&_tmpbuf_aligned\[" + E + r"\];", "tmpbuf row pointers")
cdef("dec_tmp_rows", ["v_samp_factor"], g.group(1), "math", "tj3DecodeYUVPlanes8: rows of the upsampling scratch buffer")
cdef("dec_tmp_rowoff", ["width_in_blocks", "row"], g.group(2), "u32", "tj3DecodeYUVPlanes8: offset of an upsampling scratch row")


# ------------------------------------------------------------------ jutils.c jcopy_sample_rows (8-bit instance: sizeof(_JSAMPLE) == 1)
B = Body("_jcopy_sample_rows", "jutils.c")
g = B.find(r"register size_t count = " + E + r";", "count")
cdef("jcopy_count", ["num_cols"], re.sub(r"sizeof\(_JSAMPLE\)", "1", g.group(1)), "math", "jcopy_sample_rows: bytes per row (sizeof(_JSAMPLE) = 1)")
g = B.find(r"input_array \+= " + E + r";" + W + r"output_array \+= " + E + r";", "first source / destination row")
cdef("jcopy_src_first", ["source_row"], g.group(1), "math", "jcopy_sample_rows: first source row")
cdef("jcopy_dst_first", ["dest_row"], g.group(2), "math", "jcopy_sample_rows: first destination row")
g = B.find(r"for \(row = " + E + r"; row > 0; row--\) \{" + W + r"inptr = \*input_array\+\+;" + W + r"outptr = \*output_array\+\+;" + W +
           r"memcpy\(outptr, inptr, count\);", "row loop: one memcpy of count bytes per row, both row pointers advance by one")
cdef("jcopy_iterations", ["num_rows"], g.group(1), "math", "jcopy_sample_rows: initial value of the down-counting loop variable")

# ------------------------------------------------------------------ copy loops of the per-plane functions
JI = open(repo + "/src/jpegint.h").read()
MACROS["MAX"] = define_macro(JI, "MAX")
MACROS["MIN"] = define_macro(JI, "MIN")
A = r"([^,;]*?)"      # one argument of a call
ROWSTEP = r"\[i\]\[row\] = ptr;" + W + r"ptr \+= " + E + r";"
RS = ["strides", "stride_i", "pw_i"]

B = Body("tj3EncodeYUVPlanes8")
g = B.find(r"for \(row = 0; row < ph\[i\]; row\+\+\) \{" + W + r"outbuf" + ROWSTEP, "outbuf row pointers")
cdef("enc_rowstep", RS, g.group(1), "math", "tj3EncodeYUVPlanes8: distance between the row pointers of a plane")
g = B.find(r"for \(row = 0; row < ph0; row \+= " + E + r"\) \{", "main loop")
cdef("enc_loopstep", ["max_v_samp_factor"], g.group(1), "math", "tj3EncodeYUVPlanes8: rows of luma per iteration (loop bound: ph0)")
g = B.find(r"jcopy_sample_rows\(tmpbuf2\[i\], 0, outbuf\[i\]," + W + A + r"," + W + A + r"," + W + A + r"\);", "copy into the plane")
cdef("enc_copy_row", ["row", "v_samp_factor", "max_v_samp_factor"], g.group(1), "math", "tj3EncodeYUVPlanes8: first destination row")
cdef("enc_copy_n", ["v_samp_factor"], g.group(2), "math", "tj3EncodeYUVPlanes8: rows copied")
cdef("enc_copy_w", ["pw_i"], g.group(3), "math", "tj3EncodeYUVPlanes8: samples copied per row")

B = Body("tj3DecodeYUVPlanes8")
g = B.find(r"for \(row = 0; row < ph\[i\]; row\+\+\) \{" + W + r"inbuf" + ROWSTEP, "inbuf row pointers")
cdef("dec_rowstep", RS, g.group(1), "math", "tj3DecodeYUVPlanes8: distance between the row pointers of a plane")
g = B.find(r"for \(row = 0; row < ph0; row \+= " + E + r"\) \{", "main loop")
cdef("dec_loopstep", ["max_v_samp_factor"], g.group(1), "math", "tj3DecodeYUVPlanes8: rows of luma per iteration (loop bound: ph0)")
g = B.find(r"jcopy_sample_rows\(inbuf\[i\]," + W + A + r", tmpbuf\[i\], 0," + W + A + r"," + W + A + r"\);", "copy out of the plane")
cdef("dec_copy_row", ["row", "v_samp_factor", "max_v_samp_factor"], g.group(1), "math", "tj3DecodeYUVPlanes8: first source row")
cdef("dec_copy_n", ["v_samp_factor"], g.group(2), "math", "tj3DecodeYUVPlanes8: rows copied")
cdef("dec_copy_w", ["pw_i"], g.group(3), "math", "tj3DecodeYUVPlanes8: samples copied per row")

for fn, short, io, cinfo, dimfield in (("tj3DecompressToYUVPlanes8", "dtp", "outbuf", "dinfo", "output_height"),
                                       ("tj3CompressFromYUVPlanes8", "cfp", "inbuf", "cinfo", "image_height")):
    B = Body(fn)
    g = B.find(r"iw\[i\] = " + E + r";" + W + r"ih = " + E + r";", "iw[i], ih")
    unit = ["dctsize"] if short == "dtp" else []
    cdef(short + "_iw", ["width_in_blocks"] + unit, g.group(1), "math", fn + ": width of the rows the codec produces/consumes")
    cdef(short + "_ih", ["height_in_blocks"] + unit, g.group(2), "math", fn + ": number of rows the codec produces/consumes")
    g = B.find(r"if \(" + E + r"\) usetmpbuf = 1;", "usetmpbuf test")
    cdef(short + "_usetmp", ["iw_i", "pw_i", "ih", "ph_i"], g.group(1), "math", fn + ": intermediate copy needed for this component")
    g = B.find(r"th\[i\] = " + E + r";", "th[i]")
    cdef(short + "_th", ["v_samp_factor"] + unit, g.group(1), "math", fn + ": rows of this component per iMCU row")
    g = B.find(r"tmpbufsize \+= " + E + r";", "tmpbufsize")
    cdef(short + "_tmpsize", ["iw_i", "pw_i", "th_i"], g.group(1), "math", fn + ": share of this component in the intermediate buffer")
    g = B.find(r"for \(row = 0; row < ph\[i\]; row\+\+\) \{" + W + io + ROWSTEP, io + " row pointers")
    cdef(short + "_rowstep", RS, g.group(1), "math", fn + ": distance between the row pointers of a plane")
    if short == "dtp":
        B.find(r"memset\(_tmpbuf, 0, sizeof\(JSAMPLE\) \* tmpbufsize\);", "intermediate buffer cleared")
    g = B.find(r"for \(row = 0; row < th\[i\]; row\+\+\) \{" + W + r"tmpbuf\[i\]\[row\] = ptr;" + W + r"ptr \+= " + E + r";", "tmpbuf row pointers")
    cdef(short + "_tmpstep", ["iw_i", "pw_i"], g.group(1), "math", fn + ": width of an intermediate row")
    g = B.find(r"for \(row = 0; row < \(int\)%s->%s;" % (cinfo, dimfield) + W + r"row \+= " + E + r"\) \{", "iMCU row loop")
    cdef(short + "_loopstep", ["max_v_samp_factor"] + (["_min_DCT_scaled_size"] if short == "dtp" else []), g.group(1), "math",
         fn + ": image rows per iteration (loop bound: %s)" % dimfield)
    g = B.find(r"crow\[i\] = " + E + r";", "crow[i]")
    cdef(short + "_crow", ["row", "v_samp_factor", "max_v_samp_factor"], g.group(1), "math", fn + ": first row of this component in the iteration")
    if short == "dtp":
        B.find(r"if \(usetmpbuf\) yuvptr\[i\] = tmpbuf\[i\];" + W + r"else yuvptr\[i\] = &outbuf\[i\]\[crow\[i\]\];", "row pointers handed to the codec")
        g = B.find(r"for \(j = 0; j < " + E + r"; j\+\+\) \{" + W + r"memcpy\(outbuf\[i\]\[" + E + r"\], tmpbuf\[i\]\[j\], " + E + r"\);", "cropping copy")
        cdef("dtp_copy_n", ["th_i", "ph_i", "crow_i"], g.group(1), "math", fn + ": rows copied out of the intermediate buffer")
        cdef("dtp_copy_dst", ["crow_i", "j"], g.group(2), "math", fn + ": destination row")
        cdef("dtp_copy_len", ["pw_i"], g.group(3), "math", fn + ": samples copied per row")
        B2 = Body(fn)
        g = B2.find(r"jpeg_read_raw_data\(dinfo, yuvptr," + W + E + r"\);", "jpeg_read_raw_data call")
        cdef("dtp_rawlines", ["max_v_samp_factor", "_min_DCT_scaled_size"], g.group(1), "math", fn + ": lines requested from jpeg_read_raw_data")
    else:
        g = B.find(r"for \(j = 0; j < " + E + r"; j\+\+\) \{" + W + r"memcpy\(tmpbuf\[i\]\[j\], inbuf\[i\]\[" + E + r"\], " + E + r"\);", "padding copy")
        cdef("cfp_copy_n", ["th_i", "ph_i", "crow_i"], g.group(1), "math", fn + ": rows copied into the intermediate buffer")
        cdef("cfp_copy_src", ["crow_i", "j"], g.group(2), "math", fn + ": source row")
        cdef("cfp_copy_len", ["pw_i"], g.group(3), "math", fn + ": samples copied per row")
        g = B.find(r"for \(k = " + E + r"; k < " + E + r"; k\+\+\)" + W + r"tmpbuf\[i\]\[j\]\[k\] = tmpbuf\[i\]\[j\]\[" + E + r"\];", "column replication")
        cdef("cfp_pad_from", ["pw_i"], g.group(1), "math", fn + ": first replicated column")
        cdef("cfp_pad_to", ["iw_i"], g.group(2), "math", fn + ": end of the replicated columns")
        cdef("cfp_pad_src", ["pw_i"], g.group(3), "math", fn + ": column that is replicated")
        g = B.find(r"for \(j = " + E + r"; j < " + E + r"; j\+\+\)" + W + r"memcpy\(tmpbuf\[i\]\[j\], tmpbuf\[i\]\[" + E + r"\], " + E + r"\);", "row replication")
        cdef("cfp_dup_from", ["ph_i", "crow_i"], g.group(1), "math", fn + ": first replicated row of the intermediate buffer")
        cdef("cfp_dup_to", ["th_i"], g.group(2), "math", fn + ": end of the replicated rows")
        cdef("cfp_dup_src", ["ph_i", "crow_i"], g.group(3), "math", fn + ": row that is replicated")
        cdef("cfp_dup_len", ["iw_i"], g.group(4), "math", fn + ": samples replicated per row")
        B.find(r"yuvptr\[i\] = tmpbuf\[i\];" + W + r"\} else" + W + r"yuvptr\[i\] = &inbuf\[i\]\[crow\[i\]\];", "row pointers handed to the codec")
        g = B.find(r"jpeg_write_raw_data\(cinfo, yuvptr, " + E + r"\);", "jpeg_write_raw_data call")
        cdef("cfp_rawlines", ["max_v_samp_factor"], g.group(1), "math", fn + ": lines passed to jpeg_write_raw_data")

OUT.append("(* the unified-buffer functions whose statements were translated above *)")
OUT.append("Definition unified_fns : list uni_fn := [%s]." % "; ".join("u" + s for s in uni_names))
print("\n".join(OUT))
