#!/usr/bin/env python3
"""Translator for C08: scaling-factor facts of the CURRENT source tree -> coq/gen/GenScaling.v
  * turbojpeg.c : NUMSF, sf[NUMSF] = { {num, denom}, ... }
  * turbojpeg.h : TJSCALED macro (shape checked), tjMCUWidth[], tjMCUHeight[], TJ_NUMSAMP
  * jpeglib.h   : DCTSIZE
  * jdmaster.c  : the if/else-if chain of jpeg_core_output_dimensions
                  (threshold k in `scale_num * DCTSIZE <= scale_denom * k`, multiplier in
                  jdiv_round_up(image_width * mL, DCTSIZE), value stored in _min_DCT_h_scaled_size)
  * jdapistd.c  : the alignment expression of jpeg_crop_scanline (shape checked)
"""
import re, sys
repo = sys.argv[1]
def rd(p):
    return open(repo + "/src/" + p).read()
def die(m):
    sys.exit("gen_Scaling: " + m)

tc = rd("turbojpeg.c")
m = re.search(r"#define\s+NUMSF\s+(\d+)", tc) or die("turbojpeg.c: NUMSF not found")
numsf = int(m.group(1))
m = re.search(r"tjscalingfactor\s+sf\[NUMSF\]\s*=\s*\{(.*?)\};", tc, re.S) or die("turbojpeg.c: sf[NUMSF] table not found")
sf = [(int(a), int(b)) for a, b in re.findall(r"\{\s*(\d+)\s*,\s*(\d+)\s*\}", m.group(1))]
if not sf:
    die("turbojpeg.c: sf[] has no entries")

th = rd("turbojpeg.h")
m = re.search(r"#define\s+TJSCALED\(dimension,\s*scalingFactor\)\s*\\\s*\n(.*?\\\s*\n.*?)\n", th) or die("turbojpeg.h: TJSCALED not found")
body = re.sub(r"[\s\\]+", "", m.group(1))
if body != "(((dimension)*scalingFactor.num+scalingFactor.denom-1)/scalingFactor.denom)":
    die("turbojpeg.h: TJSCALED is no longer ((dim*num + denom - 1)/denom): " + body)
def arr(name):
    mm = re.search(r"static const int\s+%s\[TJ_NUMSAMP\]\s*=\s*\{([^}]*)\}" % name, th) or die("turbojpeg.h: %s not found" % name)
    return [int(x) for x in re.findall(r"\d+", mm.group(1))]
mcuw, mcuh = arr("tjMCUWidth"), arr("tjMCUHeight")
m = re.search(r"#define\s+TJ_NUMSAMP\s+(\d+)", th) or die("turbojpeg.h: TJ_NUMSAMP not found")
numsamp = int(m.group(1))

m = re.search(r"#define\s+DCTSIZE\s+(\d+)", rd("jpeglib.h")) or die("jpeglib.h: DCTSIZE not found")
dctsize = int(m.group(1))

jm = rd("jdmaster.c")
i = jm.find("jpeg_core_output_dimensions(j_decompress_ptr cinfo)")
j = jm.find("Recompute dimensions of components", i)
if i < 0 or j < 0:
    die("jdmaster.c: jpeg_core_output_dimensions not found")
chain_src = jm[i:j]
# split into branches: "if (cond) { body } else if (cond) { body } ... else { body }"
branches = []
pos = 0
pat = re.compile(r"(?:if\s*\(\s*cinfo->scale_num\s*\*\s*DCTSIZE\s*<=\s*cinfo->scale_denom(?:\s*\*\s*(\d+))?\s*\)|else)\s*\{", re.S)
for mm in pat.finditer(chain_src):
    start = mm.end()
    depth, k = 1, start
    while depth and k < len(chain_src):
        if chain_src[k] == "{": depth += 1
        elif chain_src[k] == "}": depth -= 1
        k += 1
    blk = chain_src[start:k]
    if "_min_DCT_h_scaled_size" not in blk or "if (" in blk.split("_min_DCT_h_scaled_size")[0][:0]:
        continue
    if re.search(r"\bif\s*\(\s*cinfo->scale_num", blk):
        continue        # outer block (the !lossless wrapper)
    is_if = mm.group(0).lstrip().startswith("if")
    thr = (int(mm.group(1)) if mm.group(1) else 1) if is_if else 0      # 0 = final else
    w = re.search(r"output_width\s*=\s*\(JDIMENSION\)\s*jdiv_round_up\(\(long\)cinfo->image_width(?:\s*\*\s*(\d+)L)?\s*,\s*\(long\)DCTSIZE\)", blk)
    h = re.search(r"output_height\s*=\s*\(JDIMENSION\)\s*jdiv_round_up\(\(long\)cinfo->image_height(?:\s*\*\s*(\d+)L)?\s*,\s*\(long\)DCTSIZE\)", blk)
    s1 = re.search(r"_min_DCT_h_scaled_size\s*=\s*(\d+)\s*;", blk)
    s2 = re.search(r"_min_DCT_v_scaled_size\s*=\s*(\d+)\s*;", blk)
    if not (w and h and s1 and s2):
        die("jdmaster.c: a branch of the scaling chain has an unexpected shape: " + blk[:200])
    mw = int(w.group(1)) if w.group(1) else 1
    mh = int(h.group(1)) if h.group(1) else 1
    branches.append((thr, mw, mh, int(s1.group(1)), int(s2.group(1))))
if len(branches) < 2 or branches[-1][0] != 0:
    die("jdmaster.c: scaling chain not recognised (%d branches)" % len(branches))

ja = rd("jdapistd.c")
if not re.search(r"if\s*\(cinfo->comps_in_scan == 1 && cinfo->num_components == 1\)\s*align = cinfo->_min_DCT_scaled_size;\s*else\s*align = cinfo->_min_DCT_scaled_size \* cinfo->max_h_samp_factor;", ja):
    die("jdapistd.c: jpeg_crop_scanline alignment expression changed")
if not re.search(r"\*xoffset = \(input_xoffset / align\) \* align;", ja):
    die("jdapistd.c: jpeg_crop_scanline no longer rounds xoffset down to a multiple of align")

# does jpeg_crop_scanline refrain from re-initialising the SEPARATE upsampler when the merged one is installed?
guard = bool(re.search(r"if\s*\(master->using_merged_upsample\)\s*reinit_upsampler\s*=\s*FALSE;\s*(?:#endif\s*)?if\s*\(reinit_upsampler\)", ja))
if "reinit_upsampler" not in ja:
    die("jdapistd.c: jpeg_crop_scanline no longer has the reinit_upsampler logic the model describes")

# interblock smoothing under a crop (jdcoefct.c decompress_smooth_data)
jc = rd("jdcoefct.c")
mdef = re.search(r"\ndecompress_smooth_data\(j_decompress_ptr cinfo,[^)]*\)\s*\{", jc)
i0 = mdef.start() if mdef else -1
if i0 < 0:
    die("jdcoefct.c: decompress_smooth_data not found")
i1 = jc.find("\n}\n", i0)
sm = jc[i0:i1]
if not re.search(r"for\s*\(block_num\s*=\s*cinfo->master->first_MCU_col\[ci\];\s*block_num\s*<=\s*cinfo->master->last_MCU_col\[ci\];\s*block_num\+\+\)", sm):
    die("jdcoefct.c: decompress_smooth_data no longer loops over first_MCU_col[ci]..last_MCU_col[ci]")
if not re.search(r"buffer_ptr\s*=\s*buffer\[block_row\]\s*\+\s*cinfo->master->first_MCU_col\[ci\];", sm) or \
   not re.search(r"DC11\s*=\s*DC12\s*=\s*DC13\s*=\s*DC14\s*=\s*DC15\s*=\s*\(int\)buffer_ptr\[0\]\[0\];", sm):
    die("jdcoefct.c: decompress_smooth_data no longer initialises the DC window from column first_MCU_col[ci]")
mm = re.search(r"last_block_column\s*=\s*([^;]+);", sm) or die("jdcoefct.c: last_block_column assignment not found")
lbc_width = re.sub(r"\s+", "", mm.group(1)) == "compptr->width_in_blocks-1"
if not re.search(r"block_num\s*<\s*last_block_column", sm) or not re.search(r"block_num\s*\+\s*1\s*<\s*last_block_column", sm):
    die("jdcoefct.c: the right-neighbour tests against last_block_column changed")
# repair of crop-hazard7 (F49): when first_MCU_col[ci] > 0 the two left-hand columns of the window come from the real
# neighbours (offsets -1 and, if first_MCU_col[ci] > 1, -2) of all five block rows
sm_nc = re.sub(r"/\*.*?\*/", " ", sm, flags=re.S)
smw = re.sub(r"\s+", "", sm_nc)
rows5 = ["prev_prev_block_row", "prev_block_row", "buffer_ptr", "next_block_row", "next_next_block_row"]
lefts = [("DC01", "DC02"), ("DC06", "DC07"), ("DC11", "DC12"), ("DC16", "DC17"), ("DC21", "DC22")]
n_left = sum(1 for (a, b), r in zip(lefts, rows5)
             if ("%s=(int)%s[left][0];%s=(int)%s[-1][0];" % (a, r, b, r)) in smw)
guard7 = "if(cinfo->master->first_MCU_col[ci]>0){intleft=cinfo->master->first_MCU_col[ci]>1?-2:-1;" in smw
if (n_left not in (0, 5)) or (guard7 != (n_left == 5)):
    die("jdcoefct.c: decompress_smooth_data contains part of the left-neighbour repair (crop-hazard7)")
left_real = guard7

# TurboJPEG destination row pointers (turbojpeg-mp.c tj3Decompress*)
tm = rd("turbojpeg-mp.c")
if "this->bottomUp" not in tm or "croppedHeight" not in tm:
    die("turbojpeg-mp.c: tj3Decompress no longer has bottomUp / croppedHeight")
anchor_ok = bool(re.search(r"if\s*\(this->bottomUp\)\s*row_pointer\[i\]\s*=\s*&dstBuf\[\(croppedHeight\s*-\s*i\s*-\s*1\)\s*\*\s*\(size_t\)pitch\];"
                           r"\s*else\s*row_pointer\[i\]\s*=\s*&dstBuf\[i\s*\*\s*\(size_t\)pitch\];", tm))

# the crop window is initialised once per image (master_selection), never at the start of an output pass
def body_of(src, name):
    mm = re.search(r"\n" + name + r"\(j_decompress_ptr cinfo\)\s*\{", src)
    if not mm:
        die("jdmaster.c: %s not found" % name)
    k, depth = mm.end(), 1
    while depth and k < len(src):
        depth += {"{": 1, "}": -1}.get(src[k], 0)
        k += 1
    return src[mm.end():k]
ms_body = body_of(jm, "master_selection")
pp_body = body_of(jm, "prepare_for_output_pass")
window_once = ("first_iMCU_col = 0" in re.sub(r"\s+", " ", ms_body)) and not re.search(r"first_iMCU_col|first_MCU_col|last_MCU_col|last_iMCU_col", pp_body)

# jpeg_skip_scanlines: the bottom clamp leaves the input controller alone in buffered-image mode;
# jpeg_crop_scanline: output_scanline is only tested in DSTATE_SCANNING
ja_nc = re.sub(r"/\*.*?\*/", "", ja, flags=re.S)
clamp_guard = bool(re.search(r"cinfo->output_scanline\s*=\s*cinfo->output_height;\s*if\s*\(!cinfo->buffered_image\)\s*\{\s*\(\*cinfo->inputctl->finish_input_pass\)\s*\(cinfo\);\s*cinfo->inputctl->eoi_reached\s*=\s*TRUE;\s*\}", ja_nc))
crop_state_ok = bool(re.search(r"cinfo->global_state\s*==\s*DSTATE_SCANNING\s*&&\s*cinfo->output_scanline\s*!=\s*0", ja_nc))
if "eoi_reached = TRUE" not in ja:
    die("jdapistd.c: jpeg_skip_scanlines no longer marks the end of input at the bottom clamp")

# repairs of the known jpeg_skip_scanlines hazards present in this tree? (shapes of the proposed minimal diffs)
fix_h1 = bool(re.search(r"if\s*\(!main_ptr->buffer_full\s*&&\s*lines_left_in_iMCU_row\s*>\s*0\)\s*\{\s*cinfo->output_scanline\s*-=\s*lines_per_iMCU_row\s*-\s*lines_left_in_iMCU_row;\s*"
                        r"lines_after_iMCU_row\s*=\s*num_lines\s*\+\s*\(lines_per_iMCU_row\s*-\s*lines_left_in_iMCU_row\);\s*lines_left_in_iMCU_row\s*=\s*0;\s*\}", ja_nc))
fix_h2 = bool(re.search(r"if\s*\(upsample->next_row_out\s*<\s*cinfo->max_v_samp_factor\)\s*\{\s*JDIMENSION partial\s*=\s*\(JDIMENSION\)\(cinfo->max_v_samp_factor\s*-\s*upsample->next_row_out\);\s*"
                        r"if\s*\(partial\s*>\s*rows\)\s*partial\s*=\s*rows;\s*read_and_discard_scanlines\(cinfo,\s*partial\);\s*rows\s*-=\s*partial;\s*\}", ja_nc))
fix_h4_sep = bool(re.search(r"cinfo->output_scanline\s*\+=\s*rows\s*-\s*rows_left;\s*if\s*\(!master->using_merged_upsample\)\s*\(\(my_upsample_ptr\)cinfo->upsample\)->rows_to_go\s*=\s*cinfo->output_height\s*-\s*cinfo->output_scanline;", ja_nc))
fix_h4_mrg = len(re.findall(r"else\s*\(\(my_merged_upsample_ptr\)cinfo->upsample\)->rows_to_go\s*=\s*cinfo->output_height\s*-\s*cinfo->output_scanline;", ja_nc)) >= 2
if fix_h4_sep != fix_h4_mrg:
    die("jdapistd.c: only one half of the rows_to_go repair (separate / merged upsampler) is present")
fix_h4 = fix_h4_sep and fix_h4_mrg
n_le1 = len(re.findall(r"lines_left_in_iMCU_row\s*<=\s*1\s*&&\s*main_ptr->buffer_full", ja_nc))
n_ltv = len(re.findall(r"lines_left_in_iMCU_row\s*<\s*\(JDIMENSION\)cinfo->max_v_samp_factor\s*&&\s*main_ptr->buffer_full", ja_nc))
if (n_le1, n_ltv) not in ((2, 0), (0, 2)):
    die("jdapistd.c: the 'next iMCU row already decoded' tests of jpeg_skip_scanlines changed shape (%d, %d)" % (n_le1, n_ltv))
fix_h6 = n_ltv == 2

def zl(xs):
    return "[" + "; ".join(str(x) for x in xs) + "]"
print("(* GENERATED by tools/gen_Scaling.py from src/turbojpeg.c, turbojpeg.h, jpeglib.h, jdmaster.c, jdapistd.c -- do not edit *)")
print("From Coq Require Import List ZArith.\nImport ListNotations.\nLocal Open Scope Z_scope.\n")
print("Definition gen_NUMSF : Z := %d." % numsf)
print("Definition gen_sf : list (Z * Z) :=\n  [%s]." % "; ".join("(%d, %d)" % p for p in sf))
print("Definition gen_DCTSIZE : Z := %d." % dctsize)
print("Definition gen_TJ_NUMSAMP : Z := %d." % numsamp)
print("Definition gen_tjMCUWidth : list Z := %s." % zl(mcuw))
print("Definition gen_tjMCUHeight : list Z := %s." % zl(mcuh))
print("(* jpeg_crop_scanline: `if (master->using_merged_upsample) reinit_upsampler = FALSE;` present before the re-initialisation *)")
print("Definition gen_crop_merged_guard : bool := %s." % ("true" if guard else "false"))
print("(* jdcoefct.c decompress_smooth_data: last_block_column = compptr->width_in_blocks - 1 (independent of the crop window) *)")
print("Definition gen_smooth_lbc_is_width : bool := %s." % ("true" if lbc_width else "false"))
print("(* jdcoefct.c decompress_smooth_data: a region starting inside the image takes the two left-hand window columns from the real neighbours *)")
print("Definition gen_smooth_left_real : bool := %s." % ("true" if left_real else "false"))
print("(* turbojpeg-mp.c tj3Decompress*: bottom-up rows are anchored at croppedHeight - i - 1, top-down rows at i *)")
print("Definition gen_tj_bottomup_anchor_cropped : bool := %s." % ("true" if anchor_ok else "false"))
print("(* jdmaster.c: first/last_iMCU_col are initialised in master_selection() and no (i)MCU column window is touched in prepare_for_output_pass() *)")
print("Definition gen_crop_window_set_once : bool := %s." % ("true" if window_once else "false"))
print("(* jdapistd.c: skip-to-bottom touches the input controller only when !buffered_image; crop tests output_scanline only in DSTATE_SCANNING *)")
print("Definition gen_skip_clamp_guards_buffered : bool := %s." % ("true" if clamp_guard else "false"))
print("Definition gen_crop_state_test_scanning_only : bool := %s." % ("true" if crop_state_ok else "false"))
print("(* jdapistd.c: repairs of skip hazards 1, 2, 4, 6 present in the source *)")
for nm, v in (("gen_fix_h1", fix_h1), ("gen_fix_h2", fix_h2), ("gen_fix_h4", fix_h4), ("gen_fix_h6", fix_h6)):
    print("Definition %s : bool := %s." % (nm, "true" if v else "false"))
print("(* jdmaster.c chain: (threshold k of `scale_num*DCTSIZE <= scale_denom*k` (0 = final else), width multiplier, height multiplier,")
print("   _min_DCT_h_scaled_size, _min_DCT_v_scaled_size) in source order *)")
print("Definition gen_scale_chain : list (Z * Z * Z * Z * Z) :=\n  [%s]." % "; ".join("(%d, %d, %d, %d, %d)" % b for b in branches))
