#!/usr/bin/env python3
"""Translator for C02: reads the CURRENT lossless sources and prints coq/gen/GenLossless.v
  * jlossls.h   PREDICTOR1..7 macro bodies  -> gen_predictor (expression translated term by term)
  * jclossls.c  which PREDICTOR each jpeg_difference<n> expands, INITIAL_PREDICTORx / INITIAL_PREDICTOR2,
                the Ss switch of jpeg_difference_first_row
  * jdlossls.c  the same for jpeg_undifference<n>, and every "& 0x...." mask of UNDIFFERENCE_1D/2D
  * jclhuff.c / jdlhuff.c  the constants of the difference category coding
Exits non-zero with a message when a construct it reads is gone."""
import re
import sys

repo = sys.argv[1]


def rd(name):
    return open(repo + "/src/" + name).read()


def die(msg):
    sys.exit("gen_Lossless: " + msg)


# ---------------------------------------------------------------- tiny C expression translator
TOK = re.compile(r"\s*(0[xX][0-9A-Fa-f]+|\d+|[A-Za-z_][A-Za-z_0-9]*(?:->[A-Za-z_][A-Za-z_0-9]*)?|<<|>>|[()+\-,*&\[\]])")


def tokenize(s):
    out, i = [], 0
    s = s.strip()
    while i < len(s):
        m = TOK.match(s, i)
        if not m:
            die("cannot tokenize %r at %r" % (s, s[i:i + 10]))
        out.append(m.group(1))
        i = m.end()
    return out


NAMES = {"Ra": "Ra", "Rb": "Rb", "Rc": "Rc", "cinfo->data_precision": "prec", "cinfo->Al": "pt"}
CASTS = {"int", "JLONG", "long"}


class P:
    def __init__(self, toks):
        self.t, self.i = toks, 0

    def peek(self):
        return self.t[self.i] if self.i < len(self.t) else None

    def eat(self, x=None):
        tok = self.peek()
        if tok is None or (x is not None and tok != x):
            die("expression: expected %r, found %r in %r" % (x, tok, " ".join(self.t)))
        self.i += 1
        return tok

    def shift(self):
        a = self.add()
        while self.peek() in ("<<", ">>"):
            op = self.eat()
            b = self.add()
            a = "(Z.shiftl %s %s)" % (a, b) if op == "<<" else "(Z.shiftr %s %s)" % (a, b)
        return a

    def add(self):
        a = self.unary()
        while self.peek() in ("+", "-"):
            op = self.eat()
            b = self.unary()
            a = "(%s %s %s)" % (a, op, b)
        return a

    def unary(self):
        tok = self.peek()
        if tok == "(":
            # cast?
            if self.i + 2 < len(self.t) and self.t[self.i + 1] in CASTS and self.t[self.i + 2] == ")":
                self.i += 3
                return self.unary()          # values fit: (int)/(JLONG) are identities on Z
            self.eat("(")
            e = self.shift()
            self.eat(")")
            return e
        if tok == "-":
            self.eat()
            return "(- %s)" % self.unary()
        if tok == "RIGHT_SHIFT":
            self.eat()
            self.eat("(")
            a = self.shift()
            self.eat(",")
            b = self.shift()
            self.eat(")")
            return "(Z.shiftr %s %s)" % (a, b)
        if re.match(r"0[xX]", tok or ""):
            self.eat()
            return str(int(tok, 16))
        if tok is not None and tok.isdigit():
            self.eat()
            return tok
        if tok in NAMES:
            self.eat()
            return NAMES[tok]
        die("expression: unexpected token %r in %r" % (tok, " ".join(self.t)))


def translate(expr):
    p = P(tokenize(expr))
    e = p.shift()
    if p.peek() is not None:
        die("expression: trailing tokens in %r" % expr)
    return e


# ---------------------------------------------------------------- jlossls.h
h = rd("jlossls.h")
preds = {}
for n in range(1, 8):
    m = re.search(r"^#define\s+PREDICTOR%d\s+(.+)$" % n, h, re.M)
    if not m:
        die("jlossls.h: PREDICTOR%d not found" % n)
    preds[n] = translate(m.group(1))


def macro_body(src, name, fname):
    m = re.search(r"^#define\s+" + name + r"\b[^\n]*\\\n((?:[^\n]*\\\n)*[^\n]*\n)", src, re.M)
    if not m:
        die("%s: macro %s not found" % (fname, name))
    return m.group(1)


def wiring(src, fname, stem, m1d, m2d):
    """jpeg_<stem><n> -> ('1d', 'INITIAL_PREDICTOR2') | ('2d', k)"""
    out = []
    for n in range(1, 8):
        m = re.search(r"\bjpeg_%s%d\s*\([^)]*\)\s*\{(.*?)\n\}" % (stem, n), src, re.S)
        if not m:
            die("%s: jpeg_%s%d not found" % (fname, stem, n))
        body = m.group(1)
        a = re.search(m1d + r"\((\w+)\)", body)
        b = re.search(m2d + r"\(PREDICTOR(\d)\)", body)
        if a and not b:
            if a.group(1) != "INITIAL_PREDICTOR2":
                die("%s: jpeg_%s%d uses %s" % (fname, stem, n, a.group(1)))
            out.append((n, 0))          # 0 = one-dimensional with Rb of the first column
        elif b and not a:
            out.append((n, int(b.group(1))))
        else:
            die("%s: jpeg_%s%d expands neither/both differencing macros" % (fname, stem, n))
    m = re.search(r"\bjpeg_%s_first_row\s*\([^)]*\)\s*\{(.*?)\n\}" % stem, src, re.S)
    if not m:
        die("%s: jpeg_%s_first_row not found" % (fname, stem))
    body = m.group(1)
    if not re.search(m1d + r"\(INITIAL_PREDICTORx\)", body):
        die("%s: first-row function no longer expands %s(INITIAL_PREDICTORx)" % (fname, m1d))
    sw = re.findall(r"case\s+(\d+):\s*\n?\s*\w+->predict_%s\[\w+\]\s*=\s*jpeg_%s(\d);" % (stem, stem), body)
    if len(sw) != 7:
        die("%s: Ss switch of the first-row function not recognised" % fname)
    return out, [(int(a), int(b)) for a, b in sw]


def initials(src, fname):
    m = re.search(r"^#define\s+INITIAL_PREDICTORx\s+(.+)$", src, re.M)
    m2 = re.search(r"^#define\s+INITIAL_PREDICTOR2\s+(.+)$", src, re.M)
    if not m or not m2:
        die("%s: INITIAL_PREDICTORx / INITIAL_PREDICTOR2 not found" % fname)
    if m2.group(1).strip() != "prev_row[0]":
        die("%s: INITIAL_PREDICTOR2 is %r" % (fname, m2.group(1)))
    return translate(m.group(1))


c = rd("jclossls.c")
d = rd("jdlossls.c")
cw, csw = wiring(c, "jclossls.c", "difference", "DIFFERENCE_1D", "DIFFERENCE_2D")
dw, dsw = wiring(d, "jdlossls.c", "undifference", "UNDIFFERENCE_1D", "UNDIFFERENCE_2D")
cx = initials(c, "jclossls.c")
dx = initials(d, "jdlossls.c")

# shape of the differencing macros: "*diff_buf++ = samp - <P>;" twice each
for name, firstp in (("DIFFERENCE_1D", "INITIAL_PREDICTOR"), ("DIFFERENCE_2D", "PREDICTOR2")):
    b = macro_body(c, name, "jclossls.c")
    st = re.findall(r"\*diff_buf\+\+\s*=\s*samp\s*-\s*(\w+);", b)
    want = [firstp, "PREDICTOR1" if name == "DIFFERENCE_1D" else "PREDICTOR"]
    if st != want:
        die("jclossls.c: %s stores %r, expected %r" % (name, st, want))
masks = []
for name, firstp in (("UNDIFFERENCE_1D", "INITIAL_PREDICTOR"), ("UNDIFFERENCE_2D", "PREDICTOR2")):
    b = macro_body(d, name, "jdlossls.c")
    st = re.findall(r"Ra\s*=\s*\(\*diff_buf\+\+\s*\+\s*(\w+)\)\s*(?:&\s*(0[xX][0-9A-Fa-f]+|\d+))?\s*;", b)
    want = [firstp, "PREDICTOR1" if name == "UNDIFFERENCE_1D" else "PREDICTOR"]
    if [x[0] for x in st] != want:
        die("jdlossls.c: %s reconstructs with %r, expected %r" % (name, [x[0] for x in st], want))
    for x in st:
        if not x[1]:
            die("jdlossls.c: %s reconstructs a sample without reducing it modulo 2^16 (no '& 0xFFFF')" % name)
        masks.append(int(x[1], 0))

# restart accounting in DIFFERENCE_*: "--restart_rows_to_go == 0 => reset_predictor"
for name in ("DIFFERENCE_1D", "DIFFERENCE_2D"):
    b = macro_body(c, name, "jclossls.c")
    if not re.search(r"if \(cinfo->restart_interval\)\s*\{\s*\\\n\s*if \(--\(?losslessc->restart_rows_to_go\[ci\]\)? == 0\)", b):
        die("jclossls.c: restart accounting of %s not recognised" % name)
m = re.search(r"restart_rows_to_go\[ci\]\s*=\s*\n?\s*cinfo->restart_interval\s*/\s*cinfo->MCUs_per_row\s*;", c)
if not m:
    die("jclossls.c: reset_predictor no longer sets restart_rows_to_go = restart_interval / MCUs_per_row")
dd = rd("jddiffct.c")
if len(re.findall(r"diff->restart_rows_to_go\s*=\s*cinfo->restart_interval\s*/\s*cinfo->MCUs_per_row\s*;", dd)) != 2:
    die("jddiffct.c: restart_rows_to_go = restart_interval / MCUs_per_row expected in start_input_pass and process_restart")

# ---------------------------------------------------------------- jclhuff.c / jdlhuff.c
eh = rd("jclhuff.c")
sign = re.findall(r"if \(temp & (0[xX][0-9A-Fa-f]+)\)", eh)
negm = re.findall(r"temp = \(-temp\) & (0[xX][0-9A-Fa-f]+);", eh)
posm = re.findall(r"temp &= (0[xX][0-9A-Fa-f]+);", eh)
big = re.findall(r"temp = (0[xX][0-9A-Fa-f]+);", eh)
noex = re.findall(r"nbits != (\d+)\)", eh)
if not (len(sign) == 2 and len(negm) == 2 and len(posm) == 2 and len(big) == 2 and len(noex) == 1):
    die("jclhuff.c: difference category coding of encode_mcus_huff / encode_mcus_gather not recognised")
for lst in (sign, negm, posm, big):
    if lst[0].lower() != lst[1].lower():
        die("jclhuff.c: encode_mcus_huff and encode_mcus_gather use different constants")
dh = rd("jdlhuff.c")
m16 = re.search(r"if \(s == (\d+)\)[^\n]*\n\s*s = (\d+);", dh)
if not m16:
    die("jdlhuff.c: 'if (s == 16) s = 32768' not found")

# ---------------------------------------------------------------- suspension inside an MCU row
def strip_comments(t):
    return re.sub(r"/\*.*?\*/", "", t, flags=re.S)


dhc = strip_comments(dh)
mm = re.search(r"\ndecode_mcus\s*\(", dhc)
if not mm:
    die("jdlhuff.c: decode_mcus not found")
k = dhc.find("for (mcu_num = 0; mcu_num < nMCU; mcu_num++) {", mm.end())
if k < 0:
    die("jdlhuff.c: the MCU loop of decode_mcus not found")
depth, j = 0, dhc.index("{", k)
start = j
while True:
    if dhc[j] == "{":
        depth += 1
    elif dhc[j] == "}":
        depth -= 1
        if depth == 0:
            break
    j += 1
loop_body = dhc[start + 1:j]
# the statements directly inside the MCU loop (nested blocks removed)
flat, depth = "", 0
for ch in loop_body:
    if ch == "{":
        depth += 1
    elif ch == "}":
        depth -= 1
    elif depth == 0:
        flat += ch
save_per_mcu = bool(re.search(r"BITREAD_SAVE_STATE\(cinfo, entropy->bitstate\);", flat))
fail_actions = len(re.findall(r"(?:HUFF_DECODE|CHECK_BIT_BUFFER)\([^;]*return mcu_num", loop_body))
ddc = strip_comments(dd)
ctr_adv = bool(re.search(r"diff->MCU_ctr \+= MCU_count;", ddc)) and \
    bool(re.search(r"decode_mcus\) \(cinfo,\s*diff->diff_buf, yoffset, MCU_col_num,\s*cinfo->MCUs_per_row - MCU_col_num\)", ddc))

# ---------------------------------------------------------------- byte level of the entropy coder
ehc = strip_comments(eh)


def need(pat, text, what):
    m = re.search(pat, text)
    if not m:
        die(what + " not found")
    return m


m_align = need(r"put_buffer <<= (\d+) - put_bits;", ehc, "jclhuff.c emit_bits: 'put_buffer <<= 24 - put_bits'")
m_byte = need(r"int c = \(int\)\(\(put_buffer >> (\d+)\) & (0x[0-9A-Fa-f]+)\);", ehc, "jclhuff.c emit_bits: byte extraction")
m_loop = need(r"while \(put_bits >= (\d+)\) \{", ehc, "jclhuff.c emit_bits: byte loop")
m_stuff = need(r"if \(c == (0x[0-9A-Fa-f]+)\) \{\s*emit_byte\(state, 0, return FALSE\);", ehc, "jclhuff.c emit_bits: zero stuffing")
need(r"put_buffer <<= 8;\s*put_bits -= 8;", ehc, "jclhuff.c emit_bits: 'put_buffer <<= 8; put_bits -= 8'")
need(r"put_buffer &= \(\(\(size_t\)1\) << size\) - 1;", ehc, "jclhuff.c emit_bits: code mask")
need(r"put_buffer \|= state->cur.put_buffer;", ehc, "jclhuff.c emit_bits: merge")
m_flush = need(r"emit_bits\(state, (0x[0-9A-Fa-f]+), (\d+)\)", ehc, "jclhuff.c flush_bits")
need(r"state->cur.put_buffer = 0;\s*state->cur.put_bits = 0;", ehc, "jclhuff.c flush_bits: reset")
need(r"emit_byte\(state, 0xFF, return FALSE\);\s*emit_byte\(state, JPEG_RST0 \+ restart_num, return FALSE\);", ehc,
     "jclhuff.c emit_restart")
m_num = need(r"entropy->next_restart_num\+\+;\s*entropy->next_restart_num &= (\d+);", ehc, "jclhuff.c next_restart_num update")
need(r"if \(entropy->restarts_to_go == 0\) \{\s*entropy->restarts_to_go = cinfo->restart_interval;", ehc,
     "jclhuff.c restarts_to_go reload")
need(r"entropy->restarts_to_go = cinfo->restart_interval;\s*entropy->next_restart_num = 0;", ehc, "jclhuff.c start_pass restart state")
m_rst0 = need(r"#define\s+JPEG_RST0\s+(0x[0-9A-Fa-f]+)", rd("jpeglib.h"), "jpeglib.h JPEG_RST0")
fb = strip_comments(rd("jdhuff.c"))
need(r"if \(c == 0xFF\) \{\s*do \{", fb, "jdhuff.c jpeg_fill_bit_buffer: FF handling")
need(r"\} while \(c == 0xFF\);\s*if \(c == 0\) \{\s*c = 0xFF;\s*\} else \{\s*cinfo->unread_marker = c;", fb,
     "jdhuff.c jpeg_fill_bit_buffer: FF 00 / marker")
byte_consts = [int(m_align.group(1)), int(m_byte.group(1)), int(m_byte.group(2), 16), int(m_loop.group(1)),
               int(m_stuff.group(1), 16), int(m_flush.group(1), 16), int(m_flush.group(2)), int(m_rst0.group(1), 16),
               int(m_num.group(1))]

# ---------------------------------------------------------------- decoder: lazy bit buffer and row counters
jh = rd("jdhuff.h")
mbb = re.search(r"#if SIZEOF_SIZE_T == 8 \|\| defined\(_WIN64\)\s*typedef size_t bit_buf_type;[^\n]*\n#define BIT_BUF_SIZE\s+(\d+)", jh)
if not mbb:
    die("jdhuff.h: BIT_BUF_SIZE of the 64-bit build not found")
mmg = re.search(r"#define MIN_GET_BITS\s+\(BIT_BUF_SIZE - (\d+)\)", fb)
if not mmg:
    die("jdhuff.c: MIN_GET_BITS not found")
min_get_bits = int(mbb.group(1)) - int(mmg.group(1))
bit_buf_size = int(mbb.group(1))
jhc = re.sub(r"\\\n", " ", jh)
need(r"#define GET_BITS\(nbits\)\s+\(\(\(int\)\(get_buffer >> \(bits_left -= \(nbits\)\)\)\) & \(\(1 << \(nbits\)\) - 1\)\)", jhc, "jdhuff.h GET_BITS")
need(r"#define PEEK_BITS\(nbits\)\s+\(\(\(int\)\(get_buffer >> \(bits_left -\s+\(nbits\)\)\)\) & \(\(1 << \(nbits\)\) - 1\)\)", jhc, "jdhuff.h PEEK_BITS")
need(r"#define DROP_BITS\(nbits\)\s+\(bits_left -= \(nbits\)\)", jhc, "jdhuff.h DROP_BITS")
need(r"while \(bits_left < MIN_GET_BITS\) \{", fb, "jdhuff.c jpeg_fill_bit_buffer: fill loop")
need(r"if \(cinfo->unread_marker == 0\) \{", fb, "jdhuff.c jpeg_fill_bit_buffer: marker test")
need(r"if \(nbits > bits_left\) \{.*?WARNMS\(cinfo, JWRN_HIT_MARKER\);.*?insufficient_data = TRUE;.*?get_buffer <<= MIN_GET_BITS - bits_left;\s*bits_left = MIN_GET_BITS;",
     re.sub(r"\s+", " ", fb), "jdhuff.c jpeg_fill_bit_buffer: zero fill after a marker")
need(r"get_buffer = \(get_buffer << 8\) \| c;\s*bits_left \+= 8;", fb, "jdhuff.c jpeg_fill_bit_buffer: byte load")
need(r"if \(diff->restart_rows_to_go == 0\)\s*if \(!process_restart\(cinfo, yoffset\)\) \{\s*diff->MCU_vert_offset = yoffset;\s*return JPEG_SUSPENDED;",
     ddc, "jddiffct.c decompress_data: per-row restart test with MCU_vert_offset saved on suspension")
need(r"diff->restart_pending \|= 1U << yoffset;\s*diff->restart_rows_to_go = cinfo->restart_interval / cinfo->MCUs_per_row;",
     ddc, "jddiffct.c process_restart: restart_pending")
need(r"if \(diff->restart_pending & 1\)\s*\(\*cinfo->idct->start_pass\) \(cinfo\);", ddc,
     "jddiffct.c decompress_data: start_pass before undifferencing row 0 of a new interval")
if len(re.findall(r"diff->restart_pending = 0;", ddc)) != 2:
    die("jddiffct.c: restart_pending must be cleared in start_input_pass and after undifferencing")
need(r"if \(cinfo->restart_interval\)\s*diff->restart_rows_to_go--;", ddc, "jddiffct.c: restart_rows_to_go--")
dlc = strip_comments(dh)
need(r"entropy->bitstate.bits_left = 0;.*?if \(!\(\*cinfo->marker->read_restart_marker\) \(cinfo\)\)\s*return FALSE;",
     re.sub(r"\s+", " ", dlc), "jdlhuff.c process_restart")
dmk = strip_comments(rd("jdmarker.c"))
need(r"if \(cinfo->unread_marker ==\s*\(\(int\)M_RST0 \+ cinfo->marker->next_restart_num\)\) \{", dmk, "jdmarker.c read_restart_marker")
need(r"cinfo->marker->next_restart_num = \(cinfo->marker->next_restart_num \+ 1\) & 7;", dmk, "jdmarker.c next_restart_num update")

# ---------------------------------------------------------------- pixel formats
th = rd("turbojpeg.h")


def tj_array(name):
    m = re.search(r"static const int %s\[TJ_NUMPF\] = \{([^}]*)\}" % name, th)
    if not m:
        die("turbojpeg.h: %s not found" % name)
    v = [int(x) for x in re.findall(r"-?\d+", m.group(1))]
    if len(v) != 12:
        die("turbojpeg.h: %s has %d entries" % (name, len(v)))
    return v


tjr, tjg, tjb, tja, tjps = [tj_array(n) for n in ("tjRedOffset", "tjGreenOffset", "tjBlueOffset", "tjAlphaOffset", "tjPixelSize")]
tc = rd("turbojpeg.c")
m = re.search(r"pf2cs\[TJ_NUMPF\] = \{([^}]*)\}", tc)
if not m:
    die("turbojpeg.c: pf2cs not found")
pf2cs = re.findall(r"JCS_\w+", m.group(1))
jl = strip_comments(rd("jpeglib.h"))
m = re.search(r"typedef enum \{([^}]*)\} J_COLOR_SPACE;", jl)
if not m:
    die("jpeglib.h: J_COLOR_SPACE not found")
cs_enum = re.findall(r"JCS_\w+", m.group(1))
mc = rd("jmorecfg.h")
defs = dict((a, int(b)) for a, b in re.findall(r"#define\s+((?:EXT_\w+|RGB)_(?:RED|GREEN|BLUE|PIXELSIZE))\s+(\d+)", mc))


def cs_array(name):
    m = re.search(r"static const int %s\[JPEG_NUMCS\] = \{([^}]*)\}" % name, mc)
    if not m:
        die("jmorecfg.h: %s not found" % name)
    out = []
    for t in re.findall(r"-?\w+", m.group(1)):
        out.append(int(t) if re.match(r"-?\d+$", t) else defs[t] if t in defs else die("jmorecfg.h: %s undefined" % t))
    return out


cr, cg, cb, cps = [cs_array(n) for n in ("rgb_red", "rgb_green", "rgb_blue", "rgb_pixelsize")]
if len(pf2cs) != 12 or any(c not in cs_enum for c in pf2cs):
    die("turbojpeg.c: pf2cs entries not recognised")
jpeg_layout = []
for c in pf2cs:
    k = cs_enum.index(c)
    jpeg_layout.append((cr[k], cg[k], cb[k], cps[k]))
# the converters themselves: offsets are used as inptr[RGB_x] / outptr[RGB_x], pointer advanced by RGB_PIXELSIZE
cce = rd("jccolext.c")
dce = rd("jdcolext.c")
need(r"outptr0\[col\] = inptr\[RGB_RED\];\s*outptr1\[col\] = inptr\[RGB_GREEN\];\s*outptr2\[col\] = inptr\[RGB_BLUE\];\s*inptr \+= RGB_PIXELSIZE;",
     cce, "jccolext.c rgb_rgb_convert_internal loop")
need(r"outptr\[RGB_RED\] = inptr0\[col\];\s*outptr\[RGB_GREEN\] = inptr1\[col\];\s*outptr\[RGB_BLUE\] = inptr2\[col\];", dce,
     "jdcolext.c rgb_rgb_convert_internal loop")
# decompressor: which slot rgb_rgb_convert fills with _MAXJSAMPLE (jdcolor.c "#define RGB_ALPHA n" per inclusion of jdcolext.c)
dcol = rd("jdcolor.c")
dec_alpha_by_ext = {}
for blk in re.findall(r"#define RGB_RED\s+EXT_(\w+)_RED(.*?)#include \"jdcolext.c\"", dcol, re.S):
    ma = re.search(r"#define RGB_ALPHA\s+(\d+)", blk[1])
    dec_alpha_by_ext[blk[0]] = int(ma.group(1)) if ma else -1
if sorted(dec_alpha_by_ext) != ["BGR", "BGRX", "RGB", "RGBX", "XBGR", "XRGB"]:
    die("jdcolor.c: the six inclusions of jdcolext.c not recognised")
ALIAS = {"RGBA": "RGBX", "BGRA": "BGRX", "ABGR": "XBGR", "ARGB": "XRGB"}
for a, x in ALIAS.items():      # jdcolor.c: "case JCS_EXT_RGBX: case JCS_EXT_RGBA: ext..._convert"
    if not re.search(r"case JCS_EXT_%s:\s*case JCS_EXT_%s:" % (x, a), dcol):
        die("jdcolor.c: JCS_EXT_%s no longer shares the converter of JCS_EXT_%s" % (a, x))
dec_alpha = []
for c in pf2cs:
    n = c.replace("JCS_EXT_", "") if c.startswith("JCS_EXT_") else None
    dec_alpha.append(dec_alpha_by_ext[ALIAS.get(n, n)] if n else -1)
tmp = strip_comments(rd("turbojpeg-mp.c"))
if len(re.findall(r"if \(this->bottomUp\)\s*row_pointer\[i\] = \(_JSAMPROW\)&srcBuf\[\(height - i - 1\) \* \(size_t\)pitch\];\s*else\s*row_pointer\[i\] = \(_JSAMPROW\)&srcBuf\[i \* \(size_t\)pitch\];", tmp)) != 1:
    die("turbojpeg-mp.c: tj3Compress row pointers not recognised")
if not re.search(r"if \(this->bottomUp\)\s*row_pointer\[i\] = &dstBuf\[\((?:dinfo->output_height|croppedHeight) - i - 1\) \* \(size_t\)pitch\];\s*else\s*row_pointer\[i\] = &dstBuf\[i \* \(size_t\)pitch\];", tmp):
    die("turbojpeg-mp.c: tj3Decompress row pointers not recognised")

print("(* GENERATED by tools/gen_Lossless.py from src/jlossls.h, jclossls.c, jdlossls.c, jddiffct.c, jclhuff.c, jdlhuff.c -- do not edit *)")
print("From Coq Require Import List ZArith.\nImport ListNotations.\nLocal Open Scope Z_scope.\n")
print("(* jlossls.h PREDICTOR1..7, translated term by term ((int)/(JLONG) casts dropped, RIGHT_SHIFT = Z.shiftr) *)")
print("Definition gen_predictor (psv Ra Rb Rc : Z) : Z :=\n  match psv with")
for n in range(1, 8):
    print("  | %d => %s" % (n, preds[n]))
print("  | _ => 0\n  end.\n")
print("(* INITIAL_PREDICTORx of jclossls.c and of jdlossls.c *)")
print("Definition gen_initial_x_c (prec pt : Z) : Z := %s." % cx)
print("Definition gen_initial_x_d (prec pt : Z) : Z := %s.\n" % dx)
print("(* (n, k): jpeg_[un]difference<n> expands [UN]DIFFERENCE_2D(PREDICTOR<k>); k = 0: [UN]DIFFERENCE_1D(prev_row[0]) *)")
print("Definition gen_diff_wiring : list (Z * Z) := [%s]." % "; ".join("(%d, %d)" % x for x in cw))
print("Definition gen_undiff_wiring : list (Z * Z) := [%s]." % "; ".join("(%d, %d)" % x for x in dw))
print("(* (Ss, n): 'case Ss: predict_[un]difference[ci] = jpeg_[un]difference<n>' after the first row *)")
print("Definition gen_diff_switch : list (Z * Z) := [%s]." % "; ".join("(%d, %d)" % x for x in csw))
print("Definition gen_undiff_switch : list (Z * Z) := [%s].\n" % "; ".join("(%d, %d)" % x for x in dsw))
print("(* the mask of every reconstruction 'Ra = (diff + P) & mask' of UNDIFFERENCE_1D/2D *)")
print("Definition gen_undiff_masks : list Z := [%s].\n" % "; ".join(str(x) for x in masks))
print("(* jclhuff.c: temp & SIGN, (-temp) & NEGMASK, temp &= POSMASK, magnitude BIG, no extra bits for category NOEXTRA;")
print("   jdlhuff.c: category CAT16 decodes to VAL16 *)")
print("(* jdlhuff.c decode_mcus: BITREAD_SAVE_STATE is a statement of the per-MCU loop body (state committed after every")
print("   completed MCU); both suspension exits are 'return mcu_num'; jddiffct.c resumes at MCU_ctr += MCU_count *)")
print("Definition gen_bitread_save_per_mcu : bool := %s." % ("true" if save_per_mcu else "false"))
print("Definition gen_suspend_returns_mcu_num : bool := %s." % ("true" if fail_actions == 2 else "false"))
print("Definition gen_resume_at_mcu_ctr : bool := %s.\n" % ("true" if ctr_adv else "false"))
print("(* jclhuff.c emit_bits / flush_bits / emit_restart, jpeglib.h JPEG_RST0: align shift, byte shift, byte mask, loop bound,")
print("   stuffed value, flush code, flush size, RST0, restart-number mask *)")
print("(* jdhuff.h / jdhuff.c: MIN_GET_BITS of the 64-bit build; the shapes of jpeg_fill_bit_buffer, of the row loop of")
print("   jddiffct.c decompress_data (restart test, MCU_vert_offset save, restart_pending) and of process_restart /")
print("   read_restart_marker were found as the model (model/LosslessLazy.v) states them *)")
print("Definition gen_min_get_bits : Z := %d." % min_get_bits)
print("(* jdhuff.h: BIT_BUF_SIZE of the 64-bit build; GET_BITS / PEEK_BITS / DROP_BITS have the texts model/LosslessBitReg.v transcribes *)")
print("Definition gen_bit_buf_size : Z := %d.\n" % bit_buf_size)
print("Definition gen_byte_consts : list Z := [%s].\n" % "; ".join(str(x) for x in byte_consts))
print("(* per TurboJPEG pixel format 0..11: turbojpeg.h (red, green, blue, alpha, pixel size) and, through turbojpeg.c pf2cs,")
print("   jmorecfg.h (rgb_red, rgb_green, rgb_blue, rgb_pixelsize) of the colour space given to the converters *)")
print("Definition gen_tj_layout : list (Z * Z * Z * Z * Z) := [%s]." % "; ".join(
    "(%d, %d, %d, %d, %d)" % (tjr[i], tjg[i], tjb[i], tja[i], tjps[i]) for i in range(12)))
print("(* slot that the decompressor's rgb_rgb_convert sets to _MAXJSAMPLE (jdcolor.c RGB_ALPHA), per TurboJPEG pixel format *)")
print("Definition gen_dec_alpha : list Z := [%s]." % "; ".join(str(x) for x in dec_alpha))
print("Definition gen_jpeg_layout : list (Z * Z * Z * Z) := [%s].\n" % "; ".join("(%d, %d, %d, %d)" % x for x in jpeg_layout))
print("Definition gen_huff_consts : list Z := [%d; %d; %d; %d; %s; %s; %s]." % (
    int(sign[0], 16), int(negm[0], 16), int(posm[0], 16), int(big[0], 16), noex[0], m16.group(1), m16.group(2)))
