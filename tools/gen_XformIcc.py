#!/usr/bin/env python3
"""Translator for C13 (transform worst case + ICC): turns the ICC term of tj3TransformBufSize()
and the marker/ICC writing rule of tj3Transform() (src/turbojpeg.c), the marker selection of
jcopy_markers_setup/execute (src/transupp.c) and the extraction rule of tj3DecompressHeader /
tj3GetICCProfile into Gallina definitions, side by side.  argv[1] = source tree; prints
coq/gen/GenXformIcc.v.  The C conditions are TRANSLATED (small expression parser), so a change
of a condition changes the generated definition and the theorem is re-checked against it."""
import re, sys
repo = sys.argv[1]


def load(n):
    s = open(repo + "/src/" + n).read()
    s = re.sub(r"/\*.*?\*/", " ", s, flags=re.S)
    return re.sub(r"//[^\n]*", " ", s)


def norm(s):
    return re.sub(r"\s+", "", s)


def func(src, name, fname):
    m = re.search(r"\b%s\s*\([^;{]*\)\s*\{" % re.escape(name), src)
    if not m:
        sys.exit("%s: function %s not found" % (fname, name))
    i, depth = m.end(), 1
    while depth and i < len(src):
        depth += {"{": 1, "}": -1}.get(src[i], 0)
        i += 1
    return norm(src[m.end():i - 1])


# ------------------------------------------------------------ C condition -> Gallina (bool)
ATOMS = [
    (r"this->saveMarkers==(\d+)", lambda m: "(save =? %s)" % m.group(1)),
    (r"this->saveMarkers!=(\d+)", lambda m: "negb (save =? %s)" % m.group(1)),
    (r"copyOption==JCOPYOPT_(\w+?)(?=[|&)]|$)", lambda m: "(opt =? jcopyopt_%s)" % m.group(1)),
    (r"option==JCOPYOPT_(\w+?)(?=[|&)]|$)", lambda m: "(opt =? jcopyopt_%s)" % m.group(1)),
    (r"option!=JCOPYOPT_(\w+?)(?=[|&)]|$)", lambda m: "negb (opt =? jcopyopt_%s)" % m.group(1)),
    (r"(?:transform->|t\[i\]\.)options&TJXOPT_COPYNONE", lambda m: "copynone"),
    (r"this->tempICCSize(?:!=0|>0)", lambda m: "negb (temp =? 0)"),
    (r"this->tempICCSize==0", lambda m: "(temp =? 0)"),
    (r"this->tempICCBuf!=NULL", lambda m: "negb (temp =? 0)"),
    (r"this->tempICCSize(?![=!<>\w])", lambda m: "negb (temp =? 0)"),
    (r"this->iccSize(?:!=0|>0)", lambda m: "negb (inst =? 0)"),
    (r"this->iccBuf!=NULL", lambda m: "negb (inst =? 0)"),
    (r"this->iccSize(?![=!<>\w])", lambda m: "negb (inst =? 0)"),
    (r"iccCopied", lambda m: "copied"),
]


class P:
    def __init__(self, s, where):
        self.s, self.i, self.where = s, 0, where

    def fail(self):
        sys.exit("%s: cannot translate condition `%s` (at offset %d)" % (self.where, self.s, self.i))

    def peek(self, t):
        return self.s.startswith(t, self.i)

    def eat(self, t):
        if not self.peek(t):
            self.fail()
        self.i += len(t)

    def or_(self):
        l = self.and_()
        while self.peek("||"):
            self.eat("||")
            l = "(%s || %s)" % (l, self.and_())
        return l

    def and_(self):
        l = self.unary()
        while self.peek("&&"):
            self.eat("&&")
            l = "(%s && %s)" % (l, self.unary())
        return l

    def unary(self):
        if self.peek("!") and not self.peek("!="):
            self.eat("!")
            return "negb %s" % self.unary()
        for pat, fn in ATOMS:            # atoms first: `(a&b)` forms contain parentheses
            m = re.compile(pat).match(self.s, self.i)
            if m:
                self.i = m.end()
                return fn(m)
        if self.peek("("):
            self.eat("(")
            e = self.or_()
            self.eat(")")
            return e
        self.fail()


def cond(s, where):
    p = P(s, where)
    e = p.or_()
    if p.i != len(s):
        p.fail()
    return e


tc = load("turbojpeg.c")
th = load("transupp.h")
tu = load("transupp.c")

# enum JCOPY_OPTION
m = re.search(r"typedef enum\s*\{([^}]*)\}\s*JCOPY_OPTION", th)
if not m:
    sys.exit("transupp.h: JCOPY_OPTION not found")
opts = [x.strip() for x in m.group(1).split(",") if x.strip()]
if opts != ["JCOPYOPT_NONE", "JCOPYOPT_COMMENTS", "JCOPYOPT_ALL", "JCOPYOPT_ALL_EXCEPT_ICC", "JCOPYOPT_ICC"]:
    sys.exit("transupp.h: JCOPY_OPTION enumerators changed: %s" % opts)

# ---- tj3TransformBufSize: if (C) retval += this->A; else retval += this->B;
b = func(tc, "tj3TransformBufSize", "turbojpeg.c")
m = re.search(r"retval=tj3JPEGBufSize\(dstWidth,dstHeight,dstSubsamp\);(.*?)bailout:", b)
if not m:
    sys.exit("turbojpeg.c tj3TransformBufSize: size statement not found")
rest = m.group(1)
FIELD = {"tempICCSize": "temp", "iccSize": "inst"}
m2 = re.fullmatch(r"if\((.*)\)retval\+=this->(\w+);elseretval\+=this->(\w+);", rest)
m3 = re.fullmatch(r"retval\+=this->(\w+);", rest)
# with the per-chunk marker overhead: source markers counted at header time, instance profile in 65519-byte chunks
m4 = re.fullmatch(r"if\((.*)\)retval\+=this->tempICCSize\+(\d+)\*\(size_t\)this->tempICCMarkers;"
                  r"elseif\(this->iccSize!=0\)retval\+=this->iccSize\+(\d+)\*\(this->iccSize/(\d+)\+\(this->iccSize%(\d+)!=0\)\);", rest)
chunk_overhead, inst_chunk = 0, 65519
picks_temp = "false"
if m2 and m2.group(2) in FIELD and m2.group(3) in FIELD:
    size_term = "if %s then %s else %s" % (cond(m2.group(1), "tj3TransformBufSize"), FIELD[m2.group(2)], FIELD[m2.group(3)])
    if (m2.group(2), m2.group(3)) == ("tempICCSize", "iccSize"):
        picks_temp = cond(m2.group(1), "tj3TransformBufSize")
elif m3 and m3.group(1) in FIELD:
    size_term = FIELD[m3.group(1)]
    picks_temp = "true" if m3.group(1) == "tempICCSize" else "false"
elif m4 and m4.group(2) == m4.group(3) and m4.group(4) == m4.group(5):
    size_term = "if %s then temp else inst" % cond(m4.group(1), "tj3TransformBufSize")
    picks_temp = cond(m4.group(1), "tj3TransformBufSize")
    chunk_overhead, inst_chunk = int(m4.group(2)), int(m4.group(4))
    hh = func(tc, "tj3DecompressHeader", "turbojpeg.c")
    if "this->tempICCMarkers=0;" not in hh.split("jpeg_read_header")[0] or \
       "if(marker->marker==JPEG_APP0+2&&marker->data_length>=14&&!memcmp(marker->data,\"ICC_PROFILE\\0\",12))this->tempICCMarkers++;" not in hh:
        sys.exit("turbojpeg.c tj3DecompressHeader: counting of the source ICC markers not recognised")
    if "tempICCMarkers=0" in func(tc, "tj3GetICCProfile", "turbojpeg.c"):
        sys.exit("turbojpeg.c tj3GetICCProfile: resets tempICCMarkers")
else:
    sys.exit("turbojpeg.c tj3TransformBufSize: ICC term `%s` not recognised" % rest[:200])

# ---- tj3Transform
t = func(tc, "tj3Transform", "turbojpeg.c")
if "if(!(t[i].options&TJXOPT_COPYNONE))saveMarkers=1;" not in t or \
   "jcopy_markers_setup(dinfo,saveMarkers?(JCOPY_OPTION)this->saveMarkers:JCOPYOPT_NONE);" not in t:
    sys.exit("turbojpeg.c tj3Transform: marker setup rule not recognised")
if "JCOPY_OPTIONcopyOption=t[i].options&TJXOPT_COPYNONE?JCOPYOPT_NONE:(JCOPY_OPTION)this->saveMarkers;" not in t or \
   "jcopy_markers_execute(dinfo,cinfo,copyOption);" not in t:
    sys.exit("turbojpeg.c tj3Transform: copy option rule not recognised")
m = re.search(r"jcopy_markers_execute\(dinfo,cinfo,copyOption\);if\((.*?)\)\{jpeg_saved_marker_ptrmarker;for\(marker=dinfo->marker_list;"
              r"marker!=NULL;marker=marker->next\)\{if\(marker->marker==JPEG_APP0\+2&&marker->data_length>=12&&"
              r"!memcmp\(marker->data,\"ICC_PROFILE\\0\",12\)\)iccCopied=TRUE;\}\}", t)
if m:
    copied = "%s && has_saved_icc" % cond(m.group(1), "tj3Transform iccCopied")
elif "iccCopied" not in t:
    copied = "false"
else:
    sys.exit("turbojpeg.c tj3Transform: iccCopied rule not recognised")
m = re.search(r"if\(((?:(?!if\().)*?)\)jpeg_write_icc_profile\(cinfo,this->iccBuf,\(unsignedint\)this->iccSize\);\}elsejinit_c_master_control", t)
if not m:
    sys.exit("turbojpeg.c tj3Transform: instance profile rule not recognised")
writes_inst = cond(m.group(1), "tj3Transform instance profile")

# ---- transupp.c: which options save / copy APP2
st = func(tu, "jcopy_markers_setup", "transupp.c")
m = re.search(r"if\((option==JCOPYOPT_ALL\|\|option==JCOPYOPT_ALL_EXCEPT_ICC)\)\{for\(m=0;m<16;m\+\+\)\{"
              r"if\((option==JCOPYOPT_ALL_EXCEPT_ICC)&&m==2\)continue;jpeg_save_markers\(srcinfo,JPEG_APP0\+m,0xFFFF\);\}\}"
              r"if\((option==JCOPYOPT_ICC)\)\{jpeg_save_markers\(srcinfo,JPEG_APP0\+2,0xFFFF\);\}", st)
if not m:
    sys.exit("transupp.c jcopy_markers_setup: APPn rule not recognised")
saves_app2 = "((%s && negb %s) || %s)" % (cond(m.group(1), "setup"), cond(m.group(2), "setup"), cond(m.group(3), "setup"))
ex = func(tu, "jcopy_markers_execute", "transupp.c")
for stx in ["if(option==JCOPYOPT_NONE)continue;", "elseif(option==JCOPYOPT_COMMENTS){if(marker->marker!=JPEG_COM)continue;}",
            "elseif(option==JCOPYOPT_ALL_EXCEPT_ICC){if(marker->marker==JPEG_APP0+2)continue;}",
            "elseif(option==JCOPYOPT_ICC){if(marker->marker!=JPEG_APP0+2)continue;}",
            "jpeg_write_marker(dstinfo,marker->marker,marker->data,marker->data_length);"]:
    if stx not in ex:
        sys.exit("transupp.c jcopy_markers_execute: `%s` not found" % stx)
copies_app2 = "(negb (opt =? jcopyopt_NONE) && negb (opt =? jcopyopt_COMMENTS) && negb (opt =? jcopyopt_ALL_EXCEPT_ICC))"

# ---- tj3DecompressHeader / tj3GetICCProfile
h = func(tc, "tj3DecompressHeader", "turbojpeg.c")
resets = "free(this->tempICCBuf);this->tempICCBuf=NULL;this->tempICCSize=0;" in h.split("jpeg_read_header")[0]
m = re.search(r"if\(((?:(?!if\().)*?)\)\{if\(jpeg_read_icc_profile\(dinfo,&iccPtr,&iccLen\)\)\{free\(this->tempICCBuf\);this->tempICCBuf=iccPtr;"
              r"this->tempICCSize=\(size_t\)iccLen;(?:for\(marker=dinfo->marker_list;marker!=NULL;marker=marker->next\)\{if\(marker->marker==JPEG_APP0\+2&&"
              r"marker->data_length>=14&&!memcmp\(marker->data,\"ICC_PROFILE\\0\",12\)\)this->tempICCMarkers\+\+;\})?\}\}", h)
if not m:
    sys.exit("turbojpeg.c tj3DecompressHeader: ICC extraction rule not recognised")
extracts = cond(m.group(1), "tj3DecompressHeader")
g = func(tc, "tj3GetICCProfile", "turbojpeg.c")
get_zeroes = "*iccBuf=this->tempICCBuf;this->tempICCBuf=NULL;this->tempICCSize=0;" in g
if not get_zeroes and "tempICCSize=0" in g:
    sys.exit("turbojpeg.c tj3GetICCProfile: hand-over rule not recognised")
s = func(tc, "tj3SetICCProfile", "turbojpeg.c")
if "this->iccBuf=NULL;this->iccSize=0;if(iccBuf&&iccSize){" not in s:
    sys.exit("turbojpeg.c tj3SetICCProfile: iccBuf/iccSize are no longer set together")

m = re.search(r"SET_PARAM\(saveMarkers,(\d+),(\d+)\);", norm(tc))
if not m:
    sys.exit("turbojpeg.c tj3Set: range of TJPARAM_SAVEMARKERS not found")
save_min, save_max = int(m.group(1)), int(m.group(2))
print("(* GENERATED by tools/gen_XformIcc.py from src/turbojpeg.c, transupp.c, transupp.h -- do not edit *)")
print("From Coq Require Import ZArith Bool.\nLocal Open Scope Z_scope.\nLocal Open Scope bool_scope.\n")
for i, o in enumerate(opts):
    print("Definition %s : Z := %d." % (o.replace("JCOPYOPT_", "jcopyopt_"), i))
print("Definition gen_savemarkers_min : Z := %d.\nDefinition gen_savemarkers_max : Z := %d.   (* tj3Set(TJPARAM_SAVEMARKERS) *)" % (save_min, save_max))
print("\n(* tj3TransformBufSize: the ICC term added to tj3JPEGBufSize (save = TJPARAM_SAVEMARKERS,")
print("   temp = tempICCSize, inst = iccSize) *)")
print("Definition gen_size_term (save : Z) (copynone : bool) (temp inst : Z) : Z :=\n  %s." % size_term)
print("(* bytes the size function adds per ICC chunk of the profile it accounts (0 = payload only), and the chunk size")
print("   it assumes for the instance profile *)")
print("Definition gen_chunk_overhead : Z := %d.\nDefinition gen_inst_chunk : Z := %d." % (chunk_overhead, inst_chunk))
print("Definition gen_size_picks_temp (save : Z) (copynone : bool) (temp inst : Z) : bool :=\n  %s." % picks_temp)
print("\n(* tj3Transform: copyOption, iccCopied, and whether the instance profile is written *)")
print("Definition gen_copy_option (save : Z) (copynone : bool) : Z := if copynone then jcopyopt_NONE else save.")
print("Definition gen_icc_copied (opt : Z) (has_saved_icc : bool) : bool :=\n  %s." % copied)
print("Definition gen_writes_inst (inst : Z) (copied : bool) : bool :=\n  %s." % writes_inst)
print("\n(* transupp.c: options under which jcopy_markers_setup saves / jcopy_markers_execute copies APP2 *)")
print("Definition gen_saves_app2 (opt : Z) : bool :=\n  %s." % saves_app2)
print("Definition gen_copies_app2 (opt : Z) : bool :=\n  %s." % copies_app2)
print("\n(* tj3DecompressHeader extracts the source profile into tempICC; tj3GetICCProfile hands it over *)")
print("Definition gen_header_resets_temp : bool := %s." % ("true" if resets else "false"))
print("Definition gen_header_extracts (save : Z) : bool :=\n  %s." % extracts)
print("Definition gen_get_zeroes_temp : bool := %s." % ("true" if get_zeroes else "false"))
