#!/usr/bin/env python3
"""Translator for C10: pixel-layout facts of the CURRENT source tree -> coq/gen/GenLayouts.v

reads  src/jpeglib.h      J_COLOR_SPACE enum (numeric values)
       src/jpegint.h      IsExtRGB()
       src/jmorecfg.h     RGB_*/EXT_*_{RED,GREEN,BLUE,PIXELSIZE}, rgb_red[]/rgb_green[]/rgb_blue[]/rgb_pixelsize[],
                          MAXJSAMPLE/CENTERJSAMPLE (8/12/16 bit)
       src/jccolor.c      per-layout instantiations of jccolext.c (mini preprocessor), the switch of
                          rgb_ycc_convert/rgb_gray_convert/rgb_rgb_convert, SCALEBITS, FIX(), rgb_ycc_start entries,
                          12-bit RANGE_LIMIT mask
       src/jdcolor.c      same for jdcolext.c (+RGB_ALPHA), ycc_rgb_convert/gray_rgb_convert/rgb_rgb_convert,
                          build_ycc_rgb_table, build_rgb_y_table
       src/jdmerge.c      same for jdmrgext.c, h2v1/h2v2_merged_upsample, build_ycc_rgb_table
       src/turbojpeg.h    enum TJPF, tj{Red,Green,Blue,Alpha}Offset[], tjPixelSize[]
       src/turbojpeg.c    pf2cs[], cs2pf[] (with its #if on RGB_*)
       simd/nasm/jsimdcfg.inc, simd/x86_64/{jccolor,jcgray,jdcolor,jdmerge}-{avx2,sse2}.asm, simd/x86_64/jsimd.c
                          (when present) the SIMD instantiations, their dispatch and the F_x_xxx constants
exits non-zero with a message when a construct it reads is gone."""
import os, re, sys
from fractions import Fraction

repo = sys.argv[1]


def die(msg):
    sys.exit("gen_Layouts: " + msg)


def rd(rel):
    p = os.path.join(repo, rel)
    if not os.path.exists(p):
        die(rel + " not found")
    return open(p, errors="replace").read()


def strip_comments(s):
    s = re.sub(r"/\*.*?\*/", lambda m: "\n" * m.group(0).count("\n"), s, flags=re.S)
    return re.sub(r"//[^\n]*", "", s)


def to_int(tok, env, what):
    tok = tok.strip()
    seen = 0
    while not re.fullmatch(r"-?\d+|0[xX][0-9a-fA-F]+", tok):
        if tok not in env or seen > 20:
            die("cannot evaluate '%s' (%s)" % (tok, what))
        tok = str(env[tok]).strip()
        seen += 1
    return int(tok, 0)


# ---------------------------------------------------------------- jpeglib.h enum
jpeglib = strip_comments(rd("src/jpeglib.h"))
m = re.search(r"typedef\s+enum\s*\{([^}]*)\}\s*J_COLOR_SPACE\s*;", jpeglib)
if not m:
    die("jpeglib.h: J_COLOR_SPACE enum not found")
JCS = {}
for i, t in enumerate([x.strip() for x in m.group(1).split(",") if x.strip()]):
    if "=" in t:
        die("jpeglib.h: J_COLOR_SPACE has explicit values, translator must be revisited")
    JCS[t] = i
NUMCS = len(JCS)

jpegint = strip_comments(rd("src/jpegint.h"))
m = re.search(r"#define\s+IsExtRGB\(cs\)\s*\\?\s*\(cs == JCS_RGB \|\| \(cs >= JCS_EXT_RGB && cs <= JCS_EXT_ARGB\)\)", jpegint)
if not m:
    die("jpegint.h: IsExtRGB(cs) is no longer 'cs == JCS_RGB || (JCS_EXT_RGB <= cs <= JCS_EXT_ARGB)'")
FAMILY = [JCS["JCS_RGB"]] + list(range(JCS["JCS_EXT_RGB"], JCS["JCS_EXT_ARGB"] + 1))

# ---------------------------------------------------------------- jmorecfg.h
jmore = strip_comments(rd("src/jmorecfg.h"))
m = re.search(r"#define\s+JPEG_NUMCS\s+(\d+)", jmore)
if not m or int(m.group(1)) != NUMCS:
    die("jmorecfg.h: JPEG_NUMCS does not match the number of J_COLOR_SPACE enumerators")
ENV = {}
for name, val in re.findall(r"^[ \t]*#[ \t]*define[ \t]+((?:EXT_[A-Z]+|RGB)_(?:RED|GREEN|BLUE|PIXELSIZE))[ \t]+(\S+)[ \t]*$", jmore, re.M):
    ENV[name] = val
LAYOUT_NAMES = ["RGB", "EXT_RGB", "EXT_RGBX", "EXT_BGR", "EXT_BGRX", "EXT_XBGR", "EXT_XRGB"]
for ln in LAYOUT_NAMES:
    for f in ("RED", "GREEN", "BLUE", "PIXELSIZE"):
        if ln + "_" + f not in ENV:
            die("jmorecfg.h: #define %s_%s not found" % (ln, f))
SAMP = {}
for name in ("MAXJSAMPLE", "CENTERJSAMPLE", "MAXJ12SAMPLE", "CENTERJ12SAMPLE", "MAXJ16SAMPLE", "CENTERJ16SAMPLE"):
    m = re.search(r"#define\s+%s\s+(\d+)" % name, jmore)
    if not m:
        die("jmorecfg.h: %s not found" % name)
    SAMP[name] = int(m.group(1))


def c_array(src, decl_re, what, env):
    m = re.search(decl_re + r"\s*=\s*\{([^}]*)\}\s*;", src)
    if not m:
        die(what + " not found")
    body = m.group(1)
    return body


def eval_list(body, env, what):
    return [to_int(t, env, what) for t in body.replace("\n", " ").split(",") if t.strip()]


TABS = {}
for t in ("rgb_red", "rgb_green", "rgb_blue", "rgb_pixelsize"):
    body = c_array(jmore, r"static\s+const\s+int\s+%s\s*\[\s*JPEG_NUMCS\s*\]" % t, "jmorecfg.h: %s[JPEG_NUMCS]" % t, ENV)
    TABS[t] = eval_list(body, ENV, "jmorecfg.h " + t)
    if len(TABS[t]) != NUMCS:
        die("jmorecfg.h: %s has %d entries, JPEG_NUMCS is %d" % (t, len(TABS[t]), NUMCS))


# ---------------------------------------------------------------- mini preprocessor over the instantiating files
def instantiate(text, tmpl_file, tmpl_funcs, base_env, directive="#"):
    """Walk the lines of an instantiating file; at every include of tmpl_file record
    {actual function name -> (r,g,b,a,ps)} under the object-like macros then in force."""
    env = dict(base_env)
    inst = {}
    d = re.escape(directive)
    n_inc = 0
    text = re.sub(r"\\[ \t]*\n", " ", text)     # line continuations
    for line in text.split("\n"):
        mm = re.match(r"\s*" + d + r"\s*define\s+(\w+)\s+(\S+)\s*$", line)
        if mm:
            env[mm.group(1)] = mm.group(2)
            continue
        mm = re.match(r"\s*" + d + r"\s*undef\s+(\w+)\s*$", line)
        if mm:
            env.pop(mm.group(1), None)
            continue
        mm = re.match(r"\s*" + d + r"\s*include\s+\"([^\"]+)\"", line)
        if mm and mm.group(1) == tmpl_file:
            n_inc += 1
            lay = tuple(to_int(k, env, "%s instantiation %d" % (tmpl_file, n_inc)) for k in ("RGB_RED", "RGB_GREEN", "RGB_BLUE")) \
                + ((to_int("RGB_ALPHA", env, "alpha") if "RGB_ALPHA" in env else -1),) \
                + (to_int("RGB_PIXELSIZE", env, "%s instantiation %d" % (tmpl_file, n_inc)),)
            for f in tmpl_funcs:
                actual = env.get(f, f)
                if actual in inst:
                    die("%s: function %s instantiated twice" % (tmpl_file, actual))
                inst[actual] = lay
    if n_inc < 7:
        die("%s is included %d times, expected the base layout + 6 extended layouts" % (tmpl_file, n_inc))
    return inst


def template_funcs(text, what):
    fs = re.findall(r"^(\w+_internal)\s*\(", text, re.M)
    if not fs:
        die(what + ": no *_internal template functions found")
    return fs


def func_body(text, name, what):
    m = re.search(r"^%s\s*\([^)]*\)\s*\{" % re.escape(name), text, re.M)
    if not m:
        die("%s: function %s not found" % (what, name))
    i = m.end()
    depth = 1
    while depth and i < len(text):
        depth += {"{": 1, "}": -1}.get(text[i], 0)
        i += 1
    return text[m.end():i]


def dispatch(text, fname, selector, inst, what, call_re=r"\b(\w+)\s*\("):
    """cs -> layout through 'switch (cinfo->selector) { case JCS_x: ... f(...); break; default: g(...) }'"""
    body = func_body(text, fname, what)
    m = re.search(r"switch\s*\(\s*cinfo->%s\s*\)\s*\{" % selector, body)
    if not m:
        die("%s: %s no longer switches on cinfo->%s" % (what, fname, selector))
    sw = body[m.end():]
    table, default, labels = {}, None, []
    for tok in re.finditer(r"case\s+(\w+)\s*:|default\s*:|" + call_re + r"|break\s*;", sw):
        s = tok.group(0)
        if s.startswith("case"):
            labels.append(tok.group(1))
        elif s.startswith("default"):
            labels.append(None)
        elif s.startswith("break"):
            labels = []
        else:
            fn = tok.group(2)
            if fn not in inst:
                continue
            for l in labels:
                if l is None:
                    default = fn
                else:
                    if l not in JCS:
                        die("%s: unknown case label %s" % (what, l))
                    table.setdefault(JCS[l], fn)
    if default is None:
        die("%s: %s has no default branch calling an instantiation" % (what, fname))
    out = []
    for cs in FAMILY:
        out.append((cs, inst[table.get(cs, default)]))
    return out


C_FILES = {}   # key -> list of (cs, layout)
for key, cfile, tmpl, sel, funcs in (
        ("jccolor", "src/jccolor.c", "jccolext.c", "in_color_space", ["rgb_ycc_convert", "rgb_gray_convert", "rgb_rgb_convert"]),
        ("jdcolor", "src/jdcolor.c", "jdcolext.c", "out_color_space", ["ycc_rgb_convert", "gray_rgb_convert", "rgb_rgb_convert"]),
        ("jdmerge", "src/jdmerge.c", "jdmrgext.c", "out_color_space", ["h2v1_merged_upsample", "h2v2_merged_upsample"])):
    text = strip_comments(rd(cfile))
    tf = template_funcs(strip_comments(rd("src/" + tmpl)), "src/" + tmpl)
    inst = instantiate(text, tmpl, tf, ENV)
    for f in funcs:
        C_FILES["%s_%s" % (key, f)] = dispatch(text, f, sel, inst, cfile)

# ---------------------------------------------------------------- fixed-point constants
def fix_of(dec):
    fr = Fraction(dec)
    v = (fr * 65536 * 2 + 1) // 2          # floor(x*2^16 + 1/2), exact
    if int(float(dec) * 65536 + 0.5) != v:
        die("FIX(%s): double evaluation differs from the exact rational one" % dec)
    return fr, int(v)


def need(text, pat, what):
    m = re.search(pat, text)
    if not m:
        die(what)
    return m


FIXPAT = r"#define\s+FIX\(x\)\s+\(\(JLONG\)\(\(x\)\s*\*\s*\(1L\s*<<\s*SCALEBITS\)\s*\+\s*0\.5\)\)"
jcc = strip_comments(rd("src/jccolor.c"))
C_SCALEBITS = int(need(jcc, r"#define\s+SCALEBITS\s+(\d+)", "jccolor.c: SCALEBITS not found").group(1))
need(jcc, FIXPAT, "jccolor.c: FIX(x) is no longer ((JLONG)((x) * (1L << SCALEBITS) + 0.5))")
need(jcc, r"#define\s+CBCR_OFFSET\s+\(\(JLONG\)_CENTERJSAMPLE\s*<<\s*SCALEBITS\)", "jccolor.c: CBCR_OFFSET changed")
need(jcc, r"#define\s+ONE_HALF\s+\(\(JLONG\)1\s*<<\s*\(SCALEBITS\s*-\s*1\)\)", "jccolor.c: ONE_HALF changed")
mask12 = int(need(jcc, r"#if\s+BITS_IN_JSAMPLE\s*==\s*12\s*\n\s*#define\s+RANGE_LIMIT\(value\)\s+\(\(value\)\s*&\s*(0x[0-9A-Fa-f]+)\)\s*\n\s*#else\s*\n\s*#define\s+RANGE_LIMIT\(value\)\s+\(value\)",
                  "jccolor.c: RANGE_LIMIT (12-bit mask / identity) changed").group(1), 16)
OFFS = {}
for name, k in re.findall(r"#define\s+([RGB]_(?:Y|CB|CR)_OFF)\s+\(?\s*(\d+)\s*(?:\*\s*\(_MAXJSAMPLE\s*\+\s*1\)\s*\))?\s*$", jcc, re.M):
    OFFS[name] = int(k)
mm = re.search(r"#define\s+R_CR_OFF\s+(\w+)", jcc)
if mm and mm.group(1) in OFFS:
    OFFS["R_CR_OFF"] = OFFS[mm.group(1)]
for n in ("R_Y_OFF", "G_Y_OFF", "B_Y_OFF", "R_CB_OFF", "G_CB_OFF", "B_CB_OFF", "R_CR_OFF", "G_CR_OFF", "B_CR_OFF"):
    if n not in OFFS:
        die("jccolor.c: table section offset %s not found" % n)
start = func_body(jcc, "rgb_ycc_start", "jccolor.c")
C_ENTRIES = []   # (section, sign, num, den, cbcr, half, minus1)
for sec, neg, dec, tail in re.findall(r"rgb_ycc_tab\[i \+ (\w+)\]\s*=\s*\(?(-?)FIX\(([0-9.]+)\)\)?\s*\*\s*i([^;]*);", start):
    tail = re.sub(r"\s+", "", tail)
    if tail not in ("", "+ONE_HALF", "+CBCR_OFFSET+ONE_HALF-1"):
        die("jccolor.c: rgb_ycc_start entry for %s has an unexpected addend '%s'" % (sec, tail))
    fr, v = fix_of(dec)
    C_ENTRIES.append((OFFS[sec], -1 if neg else 1, fr.numerator, fr.denominator, "CBCR_OFFSET" in tail, "ONE_HALF" in tail, tail.endswith("-1"), v))
if sorted(e[0] for e in C_ENTRIES) != list(range(8)):
    die("jccolor.c: rgb_ycc_start no longer fills exactly the 8 table sections")


def dtab(text, fname, what):
    need(text, FIXPAT, what + ": FIX(x) changed")
    sb = int(need(text, r"#define\s+SCALEBITS\s+(\d+)", what + ": SCALEBITS not found").group(1))
    body = func_body(text, "build_ycc_rgb_table", what)
    need(body, r"for\s*\(i = 0, x = -_CENTERJSAMPLE; i <= _MAXJSAMPLE; i\+\+, x\+\+\)", what + ": build_ycc_rgb_table loop changed")
    out = {}
    for tab in ("Cr_r_tab", "Cb_b_tab"):
        m = need(body, r"->%s\[i\]\s*=\s*\(int\)\s*RIGHT_SHIFT\(FIX\(([0-9.]+)\)\s*\*\s*x\s*\+\s*ONE_HALF,\s*SCALEBITS\)\s*;" % tab,
                 what + ": %s entry changed shape" % tab)
        out[tab] = fix_of(m.group(1))
    m = need(body, r"->Cr_g_tab\[i\]\s*=\s*\(-FIX\(([0-9.]+)\)\)\s*\*\s*x\s*;", what + ": Cr_g_tab entry changed shape")
    out["Cr_g_tab"] = fix_of(m.group(1))
    m = need(body, r"->Cb_g_tab\[i\]\s*=\s*\(-FIX\(([0-9.]+)\)\)\s*\*\s*x\s*\+\s*ONE_HALF\s*;", what + ": Cb_g_tab entry changed shape")
    out["Cb_g_tab"] = fix_of(m.group(1))
    return sb, out


jdc = strip_comments(rd("src/jdcolor.c"))
jdm = strip_comments(rd("src/jdmerge.c"))
D_SCALEBITS, D_TAB = dtab(jdc, "build_ycc_rgb_table", "jdcolor.c")
M_SCALEBITS, M_TAB = dtab(jdm, "build_ycc_rgb_table", "jdmerge.c")
ybody = func_body(jdc, "build_rgb_y_table", "jdcolor.c")
D_Y = []
for sec, dec, tail in re.findall(r"rgb_y_tab\[i \+ (\w+)\]\s*=\s*FIX\(([0-9.]+)\)\s*\*\s*i([^;]*);", ybody):
    tail = re.sub(r"\s+", "", tail)
    if tail not in ("", "+ONE_HALF"):
        die("jdcolor.c: build_rgb_y_table entry has an unexpected addend")
    fr, v = fix_of(dec)
    D_Y.append((sec, fr.numerator, fr.denominator, bool(tail), v))
if [e[0] for e in D_Y] != ["R_Y_OFF", "G_Y_OFF", "B_Y_OFF"]:
    die("jdcolor.c: build_rgb_y_table no longer fills R_Y/G_Y/B_Y")

# ---------------------------------------------------------------- turbojpeg.h / turbojpeg.c
tjh = strip_comments(rd("src/turbojpeg.h"))
m = re.search(r"enum\s+TJPF\s*\{([^}]*)\}", tjh)
if not m:
    die("turbojpeg.h: enum TJPF not found")
TJPF, nxt = {}, 0
for t in [x.strip() for x in m.group(1).split(",") if x.strip()]:
    if "=" in t:
        n, v = [y.strip() for y in t.split("=")]
        TJPF[n] = int(v)
        nxt = int(v) + 1
    else:
        TJPF[t] = nxt
        nxt += 1
NUMPF = int(need(tjh, r"#define\s+TJ_NUMPF\s+(\d+)", "turbojpeg.h: TJ_NUMPF not found").group(1))
TJT = {}
for t in ("tjRedOffset", "tjGreenOffset", "tjBlueOffset", "tjAlphaOffset", "tjPixelSize"):
    body = c_array(tjh, r"static\s+const\s+int\s+%s\s*\[\s*TJ_NUMPF\s*\]" % t, "turbojpeg.h: %s[TJ_NUMPF]" % t, {})
    TJT[t] = eval_list(body, {}, t)
    if len(TJT[t]) != NUMPF:
        die("turbojpeg.h: %s has %d entries, TJ_NUMPF is %d" % (t, len(TJT[t]), NUMPF))

tjc_raw = rd("src/turbojpeg.c")
tjc = strip_comments(tjc_raw)
body = c_array(tjc, r"static\s+J_COLOR_SPACE\s+pf2cs\s*\[\s*TJ_NUMPF\s*\]", "turbojpeg.c: pf2cs[TJ_NUMPF]", JCS)
PF2CS = eval_list(body, JCS, "pf2cs")
if len(PF2CS) != NUMPF:
    die("turbojpeg.c: pf2cs has %d entries" % len(PF2CS))
body = c_array(tjc, r"static\s+int\s+cs2pf\s*\[\s*JPEG_NUMCS\s*\]", "turbojpeg.c: cs2pf[JPEG_NUMCS]", TJPF)
# evaluate the #if/#elif chain on RGB_RED/RGB_GREEN/RGB_BLUE/RGB_PIXELSIZE
base = {k: to_int(k, ENV, k) for k in ("RGB_RED", "RGB_GREEN", "RGB_BLUE", "RGB_PIXELSIZE")}
out_lines, state = [], []   # state stack: [taken_already, currently_active]
for line in body.split("\n"):
    mm = re.match(r"\s*#\s*(if|elif|else|endif)\b(.*)", line)
    if not mm:
        if all(s[1] for s in state):
            out_lines.append(line)
        continue
    kind, cond = mm.group(1), mm.group(2)
    if kind in ("if", "elif"):
        expr = cond
        for k, v in base.items():
            expr = re.sub(r"\b%s\b" % k, str(v), expr)
        if not re.fullmatch(r"[\s\d=&()]*", expr):
            die("turbojpeg.c: cs2pf conditional '%s' is not a conjunction of RGB_* comparisons" % cond.strip())
        val = bool(eval(expr.replace("&&", " and ")))
        if kind == "if":
            state.append([val, val])
        else:
            state[-1][1] = (not state[-1][0]) and val
            state[-1][0] = state[-1][0] or val
    elif kind == "else":
        state[-1][1] = not state[-1][0]
        state[-1][0] = True
    else:
        state.pop()
CS2PF = eval_list("\n".join(out_lines), TJPF, "cs2pf")
if len(CS2PF) != NUMCS:
    die("turbojpeg.c: cs2pf has %d entries after preprocessing, JPEG_NUMCS is %d" % (len(CS2PF), NUMCS))
tjmp = strip_comments(rd("src/turbojpeg-mp.c"))
n_bu = len(re.findall(r"if \(this->bottomUp\)\s*row_pointer\[i\] = (?:\(_JSAMPROW\))?&(?:srcBuf|dstBuf)\[\((?:height|croppedHeight) - i - 1\) \* \(size_t\)pitch\];\s*"
                      r"else\s*row_pointer\[i\] = (?:\(_JSAMPROW\))?&(?:srcBuf|dstBuf)\[i \* \(size_t\)pitch\];", tjmp))
if n_bu < 2:
    die("turbojpeg-mp.c: the row-pointer loops (bottomUp ? (h-i-1)*pitch : i*pitch) of tj3Compress/tj3Decompress changed")
need(tjmp, r"if \(pitch == 0\) pitch = width \* tjPixelSize\[pixelFormat\];", "turbojpeg-mp.c: default pitch of tj3Compress changed")

# ---------------------------------------------------------------- legacy flags -> parameters (processFlags)
TJFLAGS = {}
for name, val in re.findall(r"#define\s+(TJFLAG_[A-Z0-9]+)\s+(\d+)", tjh):
    TJFLAGS[name] = int(val)
PF_FIELDS = {"bottomUp": 0, "fastUpsample": 1, "noRealloc": 2, "fastDCT": 3, "jerr.stopOnWarning": 4, "progressive": 5, "scanLimit": 6}
m = re.search(r"static\s+void\s+processFlags\s*\(\s*tjhandle\s+handle\s*,\s*int\s+flags\s*,\s*int\s+operation\s*\)\s*\{", tjc)
if not m:
    die("turbojpeg.c: processFlags(handle, flags, operation) not found")
i = m.end(); depth = 1
while depth and i < len(tjc):
    depth += {"{": 1, "}": -1}.get(tjc[i], 0); i += 1
pfb = tjc[m.end():i - 1]
pfb = re.sub(r"tjinstance\s*\*this\s*=\s*\(tjinstance\s*\*\)handle\s*;", "", pfb, count=1)
mm = re.search(r"#ifndef\s+NO_PUTENV(.*?)#endif", pfb, re.S)
if mm:
    inner = re.sub(r"(?:else\s+)?if\s*\(flags\s*&\s*TJFLAG_FORCE\w+\)\s*PUTENV_S\(\"\w+\",\s*\"1\"\)\s*;", "", mm.group(1))
    if inner.strip():
        die("turbojpeg.c: processFlags: the NO_PUTENV block contains more than PUTENV_S statements")
    pfb = pfb[:mm.start()] + pfb[mm.end():]
m = re.search(r"enum\s*\{\s*COMPRESS\s*=\s*(\d+)\s*,\s*DECOMPRESS\s*=\s*(\d+)\s*\}", tjc)
if not m:
    die("turbojpeg.c: enum { COMPRESS = .., DECOMPRESS = .. } not found")
OP_COMPRESS, OP_DECOMPRESS = int(m.group(1)), int(m.group(2))
PF_ENTRIES = []   # (field, kind, mask1, mask2, value): kind 0 assign !!(flags&m1); 1 set-only if (flags&m1) field=value; 2 fastDCT rule
pos = 0
SH_ASSIGN = re.compile(r"\s*this->([\w.]+)\s*=\s*!!\(flags\s*&\s*(TJFLAG_\w+)\)\s*;")
SH_SET = re.compile(r"\s*if\s*\(flags\s*&\s*(TJFLAG_\w+)\)\s*this->([\w.]+)\s*=\s*(\w+)\s*;")
SH_DCT = re.compile(r"\s*if\s*\(operation\s*==\s*COMPRESS\)\s*\{\s*if\s*\(this->quality\s*>=\s*(\d+)\s*\|\|\s*flags\s*&\s*(TJFLAG_\w+)\)\s*this->fastDCT\s*=\s*FALSE\s*;"
                    r"\s*else\s*this->fastDCT\s*=\s*TRUE\s*;\s*\}\s*else\s*this->fastDCT\s*=\s*!!\(flags\s*&\s*(TJFLAG_\w+)\)\s*;")
while pfb[pos:].strip():
    for kind, rx in ((0, SH_ASSIGN), (1, SH_SET), (2, SH_DCT)):
        mm = rx.match(pfb, pos)
        if mm:
            break
    else:
        die("turbojpeg.c: processFlags: statement of unknown shape: '%s'" % " ".join(pfb[pos:pos + 90].split()))
    if kind == 0:
        fld, fl = mm.group(1), mm.group(2)
        ent = (fld, 0, TJFLAGS.get(fl), 0, 0)
    elif kind == 1:
        fl, fld, val = mm.group(1), mm.group(2), mm.group(3)
        v = {"TRUE": 1, "FALSE": 0}.get(val, None)
        if v is None:
            v = int(val) if re.fullmatch(r"\d+", val) else die("processFlags: value " + val)
        ent = (fld, 1, TJFLAGS.get(fl), 0, v)
    else:
        ent = ("fastDCT", 2, TJFLAGS.get(mm.group(2)), TJFLAGS.get(mm.group(3)), int(mm.group(1)))
    if ent[0] not in PF_FIELDS or ent[2] is None or ent[3] is None:
        die("turbojpeg.c: processFlags: unknown field or flag in '%s'" % mm.group(0).strip())
    PF_ENTRIES.append((PF_FIELDS[ent[0]],) + ent[1:])
    pos = mm.end()
n_calls = len(re.findall(r"processFlags\(handle,\s*flags,\s*(?:COMPRESS|DECOMPRESS)\)\s*;", tjc))
if n_calls < 10:
    die("turbojpeg.c: fewer than 10 legacy entry points call processFlags")

# ---------------------------------------------------------------- RGB565 macros, dither matrix, jdcol565.c loop structure
def hx(x):
    return int(x, 0)

m = need(jdc, r"#define\s+PACK_SHORT_565_LE\(r, g, b\)\s*\\?\s*\(\(\(\(r\)\s*<<\s*(\d+)\)\s*&\s*(0x[0-9A-Fa-f]+)\)\s*\|\s*\(\(\(g\)\s*<<\s*(\d+)\)\s*&\s*(0x[0-9A-Fa-f]+)\)\s*\|\s*\(\(b\)\s*>>\s*(\d+)\)\)",
         "jdcolor.c: PACK_SHORT_565_LE changed shape")
P565_LE = [int(m.group(1)), hx(m.group(2)), int(m.group(3)), hx(m.group(4)), int(m.group(5))]
m = need(jdc, r"#define\s+PACK_SHORT_565_BE\(r, g, b\)\s*\\?\s*\(\(\(r\)\s*&\s*(0x[0-9A-Fa-f]+)\)\s*\|\s*\(\(g\)\s*>>\s*(\d+)\)\s*\|\s*\(\(\(g\)\s*<<\s*(\d+)\)\s*&\s*(0x[0-9A-Fa-f]+)\)\s*\|\s*\(\(\(b\)\s*<<\s*(\d+)\)\s*&\s*(0x[0-9A-Fa-f]+)\)\)",
         "jdcolor.c: PACK_SHORT_565_BE changed shape")
P565_BE = [hx(m.group(1)), int(m.group(2)), int(m.group(3)), hx(m.group(4)), int(m.group(5)), hx(m.group(6))]
need(jdc, r"#define\s+PACK_TWO_PIXELS_LE\(l, r\)\s+\(\(r << 16\) \| l\)", "jdcolor.c: PACK_TWO_PIXELS_LE changed")
need(jdc, r"#define\s+PACK_TWO_PIXELS_BE\(l, r\)\s+\(\(l << 16\) \| r\)", "jdcolor.c: PACK_TWO_PIXELS_BE changed")
ALIGN_MASK = int(need(jdc, r"#define\s+PACK_NEED_ALIGNMENT\(ptr\)\s+\(\(\(size_t\)\(ptr\)\) & (\d+)\)", "jdcolor.c: PACK_NEED_ALIGNMENT changed").group(1))
need(jdc, r"#define\s+WRITE_TWO_ALIGNED_PIXELS\(addr, pixels\)\s+\(\(\*\(int \*\)\(addr\)\) = pixels\)", "jdcolor.c: WRITE_TWO_ALIGNED_PIXELS changed")
m = need(jdc, r"#define\s+DITHER_565_R\(r, dither\)\s+\(\(r\) \+ \(\(dither\) & (0x[0-9A-Fa-f]+)\)\)\s*\n\s*#define\s+DITHER_565_G\(g, dither\)\s+\(\(g\) \+ \(\(\(dither\) & (0x[0-9A-Fa-f]+)\) >> (\d+)\)\)\s*\n\s*"
            r"#define\s+DITHER_565_B\(b, dither\)\s+\(\(b\) \+ \(\(dither\) & (0x[0-9A-Fa-f]+)\)\)", "jdcolor.c: DITHER_565_R/G/B changed")
DITH = [hx(m.group(1)), hx(m.group(2)), int(m.group(3)), hx(m.group(4))]
DITHER_MASK = hx(need(jdc, r"#define\s+DITHER_MASK\s+(0x[0-9A-Fa-f]+|\d+)", "jdcolor.c: DITHER_MASK not found").group(1))
m = need(jdc, r"#define\s+DITHER_ROTATE\(x\)\s+\(\(\(\(x\) & (0x[0-9A-Fa-f]+)\) << (\d+)\) \| \(\(\(x\) >> (\d+)\) & (0x[0-9A-Fa-f]+)\)\)", "jdcolor.c: DITHER_ROTATE changed")
DROT = [hx(m.group(1)), int(m.group(2)), int(m.group(3)), hx(m.group(4))]
m = need(jdc, r"static\s+const\s+JLONG\s+dither_matrix\[4\]\s*=\s*\{([^}]*)\}", "jdcolor.c: dither_matrix[4] not found")
DMAT = [hx(x.strip()) for x in m.group(1).split(",") if x.strip()]
if len(DMAT) != 4:
    die("jdcolor.c: dither_matrix does not have 4 rows")
j565 = strip_comments(rd("src/jdcol565.c"))
F565 = re.findall(r"^(\w+_rgb565D?_convert_internal)\s*\(", j565, re.M)
if sorted(F565) != sorted(["ycc_rgb565_convert_internal", "ycc_rgb565D_convert_internal", "rgb_rgb565_convert_internal",
                           "rgb_rgb565D_convert_internal", "gray_rgb565_convert_internal", "gray_rgb565D_convert_internal"]):
    die("jdcol565.c: the six *_rgb565[D]_convert_internal templates are no longer there")
RESET = []
for f in F565:
    b = func_body(j565, f, "jdcol565.c")
    wl = b.find("while (--num_rows >= 0)")
    if wl < 0:
        die("jdcol565.c: %s: row loop not found" % f)
    pre, loop = b[:wl], b[wl:]
    for pat, what in ((r"if \(PACK_NEED_ALIGNMENT\(outptr\)\) \{", "alignment branch"), (r"num_cols--;", "num_cols--"),
                      (r"for \(col = 0; col < \(num_cols >> 1\); col\+\+\)", "pair loop"), (r"if \(num_cols & 1\)", "odd tail"),
                      (r"WRITE_TWO_ALIGNED_PIXELS\(outptr, rgb\);\s*outptr \+= 4;", "pair store"),
                      (r"\*\(INT16 \*\)outptr = \(INT16\)rgb;\s*outptr \+= 2;\s*num_cols--;", "aligned single store")):
        if not re.search(pat, loop):
            die("jdcol565.c: %s: %s changed shape" % (f, what))
    init_out = bool(re.search(r"JDIMENSION\s+num_cols\s*=\s*cinfo->output_width\s*;", pre))
    init_in = bool(re.search(r"num_cols\s*=\s*cinfo->output_width\s*;", loop))
    if not (init_out or init_in):
        die("jdcol565.c: %s: num_cols is never initialised from output_width" % f)
    RESET.append(init_in)
    isD = "565D" in f
    if isD != bool(re.search(r"JLONG d0 = dither_matrix\[cinfo->output_scanline & DITHER_MASK\];", pre)):
        die("jdcol565.c: %s: d0 initialisation changed" % f)
    if isD and len(re.findall(r"d0 = DITHER_ROTATE\(d0\);", loop)) != 2:
        die("jdcol565.c: %s: expected exactly two DITHER_ROTATE per pair and none in the single-pixel branches" % f)
if len(set(RESET)) != 1:
    die("jdcol565.c: the six templates no longer agree on where num_cols is initialised")

# ---------------------------------------------------------------- CMYK <-> YCCK statement shapes
cb_ = func_body(jcc, "cmyk_ycck_convert", "jccolor.c")
CMYK_IN = []
for ch in ("r", "g", "b"):
    m = re.search(r"\b%s = _MAXJSAMPLE - RANGE_LIMIT\(inptr\[(\d)\]\);" % ch, cb_)
    if not m:
        die("jccolor.c: cmyk_ycck_convert: '%s = _MAXJSAMPLE - RANGE_LIMIT(inptr[k])' not found" % ch)
    CMYK_IN.append(int(m.group(1)))
m = re.search(r"outptr3\[col\] = inptr\[(\d)\];\s*inptr \+= (\d);", cb_)
if not m:
    die("jccolor.c: cmyk_ycck_convert: K pass-through / pixel stride changed")
CMYK_K, CMYK_PS = int(m.group(1)), int(m.group(2))
for o, (a, b2, c) in (("0", ("R_Y_OFF", "G_Y_OFF", "B_Y_OFF")), ("1", ("R_CB_OFF", "G_CB_OFF", "B_CB_OFF")), ("2", ("R_CR_OFF", "G_CR_OFF", "B_CR_OFF"))):
    if not re.search(r"outptr%s\[col\] = \(_JSAMPLE\)\(\(ctab\[r \+ %s\] \+ ctab\[g \+ %s\] \+\s*ctab\[b \+ %s\]\) >> SCALEBITS\);" % (o, a, b2, c), cb_):
        die("jccolor.c: cmyk_ycck_convert: component %s arithmetic changed" % o)
db_ = func_body(jdc, "ycck_cmyk_convert", "jdcolor.c")
YCCK_OUT = []
for k, pat in ((0, r"outptr\[(\d)\] = range_limit\[_MAXJSAMPLE - \(y \+ Crrtab\[cr\]\)\];"),
               (1, r"outptr\[(\d)\] = range_limit\[_MAXJSAMPLE - \(y \+\s*\(\(int\)RIGHT_SHIFT\(Cbgtab\[cb\] \+ Crgtab\[cr\],\s*SCALEBITS\)\)\)\];"),
               (2, r"outptr\[(\d)\] = range_limit\[_MAXJSAMPLE - \(y \+ Cbbtab\[cb\]\)\];")):
    m = re.search(pat, db_)
    if not m:
        die("jdcolor.c: ycck_cmyk_convert: channel %d statement changed shape" % k)
    YCCK_OUT.append(int(m.group(1)))
m = re.search(r"outptr\[(\d)\] = inptr3\[col\];\s*outptr \+= (\d);", db_)
if not m:
    die("jdcolor.c: ycck_cmyk_convert: K pass-through / pixel stride changed")
YCCK_K, YCCK_PS = int(m.group(1)), int(m.group(2))

# ---------------------------------------------------------------- prepare_range_limit_table (jdmaster.c): one shape for 8/12/16 bit
jdmas = strip_comments(rd("src/jdmaster.c"))
rlb = func_body(jdmas, "prepare_range_limit_table", "jdmaster.c")
RL_SHAPE = (r"(?P<t>\w+) = \(\w+ \*\)\s*\(\*cinfo->mem->alloc_small\) \(\(j_common_ptr\)cinfo, JPOOL_IMAGE,\s*\((\d+) \* \((?P<M>MAXJ\d*SAMPLE) \+ 1\) \+ (?P<C>CENTERJ\d*SAMPLE)\) \*\s*sizeof\(\w+\)\);\s*"
            r"(?P=t) \+= \((?P=M) \+ 1\);\s*cinfo->sample_range_limit = (?:\(JSAMPLE \*\))?(?P=t);\s*"
            r"memset\((?P=t) - \((?P=M) \+ 1\), 0,\s*\((?P=M) \+ 1\) \* sizeof\(\w+\)\);\s*"
            r"for \(i = 0; i <= (?P=M); i\+\+\)\s*(?P=t)\[i\] = \(\w+\)i;\s*"
            r"(?P=t) \+= (?P=C);\s*"
            r"for \(i = (?P=C); i < 2 \* \((?P=M) \+ 1\); i\+\+\)\s*(?P=t)\[i\] = (?P=M);\s*"
            r"memset\((?P=t) \+ \(2 \* \((?P=M) \+ 1\)\), 0,\s*\(2 \* \((?P=M) \+ 1\) - (?P=C)\) \* sizeof\(\w+\)\);\s*"
            r"memcpy\((?P=t) \+ \(4 \* \((?P=M) \+ 1\) - (?P=C)\),\s*cinfo->sample_range_limit, (?P=C) \* sizeof\(\w+\)\);")
RL = [(mm.group("M"), mm.group("C"), int(mm.group(2))) for mm in re.finditer(RL_SHAPE, rlb)]
if [x[0] for x in RL] != ["MAXJSAMPLE", "MAXJ12SAMPLE", "MAXJ16SAMPLE"] or [x[1] for x in RL] != ["CENTERJSAMPLE", "CENTERJ12SAMPLE", "CENTERJ16SAMPLE"] \
        or any(x[2] != 5 for x in RL):
    die("jdmaster.c: prepare_range_limit_table no longer has the three (8/12/16-bit) branches of the known shape")
if not re.search(r"if \(cinfo->data_precision <= 8\)", rlb) or not re.search(r"else if \(cinfo->data_precision <= 12\)", rlb):
    die("jdmaster.c: prepare_range_limit_table precision dispatch changed")

# ---------------------------------------------------------------- SIMD (x86-64) instantiations, optional
SIMD = {}
SIMD_FIX = []
simd_dir = os.path.join(repo, "simd", "x86_64")
if os.path.isdir(simd_dir) and os.path.exists(os.path.join(repo, "simd/nasm/jsimdcfg.inc")):
    cfg = rd("simd/nasm/jsimdcfg.inc")
    SENV = {}
    for name, val in re.findall(r"^%define\s+((?:EXT_[A-Z]+|RGB)_(?:RED|GREEN|BLUE|PIXELSIZE))\s+(\S+)", cfg, re.M):
        SENV[name] = val
    for ln in LAYOUT_NAMES:
        for f in ("RED", "GREEN", "BLUE", "PIXELSIZE"):
            if ln + "_" + f not in SENV:
                die("jsimdcfg.inc: %%define %s_%s not found" % (ln, f))
    jsimd_c = strip_comments(rd("simd/x86_64/jsimd.c"))
    for isa in ("avx2", "sse2"):
        for key, asm, tmpl, sel, cfunc, tfuncs in (
                ("rgb_ycc", "jccolor", "jccolext", "in_color_space", "jsimd_rgb_ycc_convert", ["jsimd_rgb_ycc_convert"]),
                ("rgb_gray", "jcgray", "jcgryext", "in_color_space", "jsimd_rgb_gray_convert", ["jsimd_rgb_gray_convert"]),
                ("ycc_rgb", "jdcolor", "jdcolext", "out_color_space", "jsimd_ycc_rgb_convert", ["jsimd_ycc_rgb_convert"]),
                ("h2v1_merged", "jdmerge", "jdmrgext", "out_color_space", "jsimd_h2v1_merged_upsample", ["jsimd_h2v1_merged_upsample", "jsimd_h2v2_merged_upsample"]),
                ("h2v2_merged", "jdmerge", "jdmrgext", "out_color_space", "jsimd_h2v2_merged_upsample", ["jsimd_h2v1_merged_upsample", "jsimd_h2v2_merged_upsample"])):
            text = re.sub(r";[^\n]*", "", rd("simd/x86_64/%s-%s.asm" % (asm, isa)))
            tname = "%s-%s.asm" % (tmpl, isa)
            ttext = rd("simd/x86_64/" + tname)
            tf = ["%s_%s" % (f, isa) for f in tfuncs]
            for f in tf:
                if not re.search(r"GLOBAL_FUNCTION\(%s\)" % f, ttext):
                    die("%s: GLOBAL_FUNCTION(%s) not found" % (tname, f))
            inst = instantiate(text, tname, tf, SENV, directive="%")
            SIMD["%s_%s" % (key, isa)] = dispatch(jsimd_c, cfunc, sel, inst, "simd/x86_64/jsimd.c",
                                                  call_re=r"%sfct\s*=\s*(\w+)\s*;" % isa)
        for asm in ("jccolor", "jcgray", "jdcolor", "jdmerge"):
            text = rd("simd/x86_64/%s-%s.asm" % (asm, isa))
            sb = need(text, r"%define\s+SCALEBITS\s+(\d+)", "%s-%s.asm: SCALEBITS not found" % (asm, isa)).group(1)
            if int(sb) != C_SCALEBITS:
                die("%s-%s.asm: SCALEBITS differs from jccolor.c" % (asm, isa))
            for name, val, dec in re.findall(r"^(F_\d_\d+)\s+equ\s+(\d+)\s*;\s*FIX\(([0-9.]+)\)\s*$", text, re.M):
                fr = Fraction(dec)
                SIMD_FIX.append(("%s-%s:%s" % (asm, isa, name), int(val), fr.numerator, fr.denominator))

# ---------------------------------------------------------------- SIMD kernels: plane-pointer advance per loop iteration
# every `add <reg>, [byte] <expr> ; inptr0|inptr1|inptr2|outptr0|outptr1|outptr2` (the planar side of the colour and merged
# kernels) must advance by exactly one vector of the file's ISA, in BOTH RGB_PIXELSIZE branches
ADV = []
if os.path.isdir(simd_dir):
    need_n = {"jccolext": 3, "jcgryext": 1, "jdcolext": 6, "jdmrgext": 6}
    for isa, vec, size in (("avx2", "SIZEOF_YMMWORD", 32), ("sse2", "SIZEOF_XMMWORD", 16)):
        for base_, nmin in need_n.items():
            text = rd("simd/x86_64/%s-%s.asm" % (base_, isa))
            found = re.findall(r"^\s*add\s+\w+,\s*(?:byte\s+)?(\S+)\s*;\s*((?:in|out)ptr[0-2])\s*$", text, re.M)
            if len(found) < nmin:
                die("%s-%s.asm: only %d plane-pointer advances found, expected at least %d" % (base_, isa, len(found), nmin))
            found = [(e_, t_) for e_, t_ in found if e_ != "SIZEOF_JSAMPROW" and t_.startswith("in" if base_[1] == "d" else "out")]
            if len(found) < nmin:
                die("%s-%s.asm: only %d plane-pointer advances found, expected at least %d" % (base_, isa, len(found), nmin))
            for expr, tag in found:
                mm = re.fullmatch(r"(?:(\d+)\*)?SIZEOF_([XY])MMWORD", expr)
                if not mm:
                    die("%s-%s.asm: cannot evaluate the advance '%s' of %s" % (base_, isa, expr, tag))
                ADV.append((int(mm.group(1) or 1) * (32 if mm.group(2) == "Y" else 16), size))

# ---------------------------------------------------------------- output
def zl(xs):
    return "[" + "; ".join("(%d)" % x if x < 0 else str(x) for x in xs) + "]"


def lay(l):
    return "(%s)" % ", ".join("(%d)" % x if x < 0 else str(x) for x in l)


def disp(name, tab):
    return "Definition %s : list (Z * (Z * Z * Z * Z * Z)) :=\n  [%s].\n" % (
        name, ";\n   ".join("(%d, %s)" % (cs, lay(l)) for cs, l in tab))


P = print
P("(* GENERATED by tools/gen_Layouts.py from jpeglib.h, jpegint.h, jmorecfg.h, jccolor.c, jdcolor.c, jdmerge.c,")
P("   turbojpeg.h, turbojpeg.c, turbojpeg-mp.c and simd/ -- do not edit *)")
P("From Coq Require Import List ZArith Bool.\nImport ListNotations.\nLocal Open Scope Z_scope.\n")
P("(* J_COLOR_SPACE *)")
for n, v in JCS.items():
    P("Definition %s : Z := %d." % (n, v))
P("Definition JPEG_NUMCS : Z := %d." % NUMCS)
P("Definition rgb_family_cs : list Z := %s.   (* IsExtRGB *)" % zl(FAMILY))
P("\n(* jmorecfg.h *)")
for ln in LAYOUT_NAMES:
    P("Definition %s_layout : Z * Z * Z * Z := %s." % (ln, lay([to_int(ln + "_" + f, ENV, ln) for f in ("RED", "GREEN", "BLUE", "PIXELSIZE")])))
for t in ("rgb_red", "rgb_green", "rgb_blue", "rgb_pixelsize"):
    P("Definition %s_tab : list Z := %s." % (t, zl(TABS[t])))
for k, v in SAMP.items():
    P("Definition %s : Z := %d." % (k, v))
P("\n(* per-colour-space layout (r,g,b,alpha|-1,pixelsize) reached through the switch of each converter *)")
for k, tab in C_FILES.items():
    P(disp("disp_" + k, tab))
P("(* TurboJPEG *)")
for n, v in TJPF.items():
    P("Definition %s : Z := %s." % (n, "(%d)" % v if v < 0 else v))
P("Definition TJ_NUMPF : Z := %d." % NUMPF)
for t in ("tjRedOffset", "tjGreenOffset", "tjBlueOffset", "tjAlphaOffset", "tjPixelSize"):
    P("Definition %s_tab : list Z := %s." % (t, zl(TJT[t])))
P("Definition pf2cs_tab : list Z := %s." % zl(PF2CS))
P("Definition cs2pf_tab : list Z := %s." % zl(CS2PF))
P("Definition tj_rgb_family_pf : list Z := %s." % zl([i for i in range(NUMPF) if PF2CS[i] in FAMILY]))
P("\n(* fixed-point constants: FIX(x) = floor(x * 2^SCALEBITS + 1/2), x given as num/den *)")
P("Definition c_scalebits : Z := %d." % C_SCALEBITS)
P("Definition d_scalebits : Z := %d." % D_SCALEBITS)
P("Definition m_scalebits : Z := %d." % M_SCALEBITS)
P("Definition c_range_mask12 : Z := %d." % mask12)
for n in ("R_Y_OFF", "G_Y_OFF", "B_Y_OFF", "R_CB_OFF", "G_CB_OFF", "B_CB_OFF", "R_CR_OFF", "G_CR_OFF", "B_CR_OFF"):
    P("Definition c_%s : Z := %d.   (* x (_MAXJSAMPLE+1) *)" % (n, OFFS[n]))
P("(* rgb_ycc_start: (section, (sign, num, den), (+CBCR_OFFSET, +ONE_HALF, -1)) *)")
P("Definition c_tab_entries : list (Z * (Z * Z * Z) * (bool * bool * bool)) :=\n  [%s]." % ";\n   ".join(
    "(%d, (%s, %d, %d), (%s, %s, %s))" % (e[0], "(-1)" if e[1] < 0 else "1", e[2], e[3], str(e[4]).lower(), str(e[5]).lower(), str(e[6]).lower())
    for e in sorted(C_ENTRIES)))
P("Definition c_fix_values : list Z := %s.   (* translator's own evaluation, cross-checked in Coq *)" % zl([e[7] for e in sorted(C_ENTRIES)]))
for pre, T in (("d", D_TAB), ("m", M_TAB)):
    for tab in ("Cr_r_tab", "Cb_b_tab", "Cr_g_tab", "Cb_g_tab"):
        fr, v = T[tab]
        P("Definition %s_%s_fix : Z * Z := (%d, %d).   (* = %d *)" % (pre, tab, fr.numerator, fr.denominator, v))
P("Definition d_rgb_y_entries : list (Z * Z * bool) := [%s].   (* R,G,B => Y: (num, den, +ONE_HALF) *)" % "; ".join(
    "(%d, %d, %s)" % (e[1], e[2], str(e[3]).lower()) for e in D_Y))
P("\n(* SIMD (x86-64): dispatch of simd/x86_64/jsimd.c through the per-layout instantiations of the .asm files *)")
P("Definition simd_present : bool := %s." % ("true" if SIMD else "false"))
names = []
for k, tab in SIMD.items():
    P(disp("simd_disp_" + k, tab))
    names.append("simd_disp_" + k)
P("Definition simd_dispatch_tables : list (list (Z * (Z * Z * Z * Z * Z))) := [%s]." % "; ".join(names))
P("(* F_x_xxx equ v ; FIX(num/den) of the .asm files: (v, num, den) *)")
P("Definition simd_fix_consts : list (Z * Z * Z) := [%s]." % "; ".join("(%d, %d, %d)" % (v, n, d) for _, v, n, d in SIMD_FIX))
P("\n(* legacy TurboJPEG flags: processFlags() of turbojpeg.c, statement by statement, in order.")
P("   fields: 0 bottomUp 1 fastUpsample 2 noRealloc 3 fastDCT 4 stopOnWarning 5 progressive 6 scanLimit")
P("   (field, kind, mask1, mask2, value): kind 0: field = !!(flags & mask1); kind 1: if (flags & mask1) field = value;")
P("   kind 2: field = operation == COMPRESS ? !(quality >= value || flags & mask1) : !!(flags & mask2) *)")
for n, v in sorted(TJFLAGS.items(), key=lambda kv: kv[1]):
    P("Definition %s : Z := %d." % (n, v))
P("Definition OP_COMPRESS : Z := %d.\nDefinition OP_DECOMPRESS : Z := %d." % (OP_COMPRESS, OP_DECOMPRESS))
P("Definition process_flags_entries : list (Z * Z * Z * Z * Z) :=\n  [%s]." % ";\n   ".join("(%d, %d, %d, %d, %d)" % e for e in PF_ENTRIES))
P("Definition process_flags_callers : Z := %d." % n_calls)
P("\n(* RGB565 (jdcolor.c macros, jdcol565.c loop structure) *)")
P("Definition pack565_le : list Z := %s.   (* ((r << a) & m) | ((g << b) & n) | (b >> c): [a; m; b; n; c] *)" % zl(P565_LE))
P("Definition pack565_be : list Z := %s.   (* (r & m) | (g >> a) | ((g << b) & n) | ((b << c) & o): [m; a; b; n; c; o] *)" % zl(P565_BE))
P("Definition pack_align_mask : Z := %d." % ALIGN_MASK)
P("Definition dither565 : list Z := %s.   (* R: + (d & m0); G: + ((d & m1) >> s); B: + (d & m2): [m0; m1; s; m2] *)" % zl(DITH))
P("Definition DITHER_MASK : Z := %d." % DITHER_MASK)
P("Definition dither_rotate : list Z := %s.   (* (((x) & m) << a) | (((x) >> b) & n): [m; a; b; n] *)" % zl(DROT))
P("Definition dither_matrix : list Z := %s." % zl(DMAT))
P("Definition rgb565_numcols_reset_per_row : bool := %s.   (* is num_cols re-initialised from output_width inside the row loop? *)" % str(RESET[0]).lower())
P("\n(* CMYK <-> YCCK (jccolor.c cmyk_ycck_convert, jdcolor.c ycck_cmyk_convert) *)")
P("Definition cmyk_in_offsets : list Z := %s.   (* r,g,b = _MAXJSAMPLE - RANGE_LIMIT(inptr[k]) *)" % zl(CMYK_IN))
P("Definition cmyk_in_k : Z := %d.\nDefinition cmyk_in_pixelsize : Z := %d." % (CMYK_K, CMYK_PS))
P("Definition ycck_out_offsets : list Z := %s.   (* outptr[k] = range_limit[_MAXJSAMPLE - (y + chroma_k)] *)" % zl(YCCK_OUT))
P("Definition ycck_out_k : Z := %d.\nDefinition ycck_out_pixelsize : Z := %d." % (YCCK_K, YCCK_PS))
P("\n(* prepare_range_limit_table (jdmaster.c), identical shape for 8/12/16 bit; indices relative to sample_range_limit,")
P("   (kind, a, c, la, lc): start = a*(MAX+1) + c*CENTER, length = la*(MAX+1) + lc*CENTER;")
P("   kind 0: zero, 1: table[i] = i, 2: MAX, 3: copy of sample_range_limit[0 .. length) *)")
P("Definition range_limit_alloc : Z * Z := (5, 1).")
P("Definition range_limit_ops : list (Z * Z * Z * Z * Z) :=\n  [(0, (-1), 0, 1, 0); (1, 0, 0, 1, 0); (2, 0, 2, 2, (-1)); (0, 2, 1, 2, (-1)); (3, 4, 0, 0, 1)].")
P("\n(* SIMD colour / merged kernels: (advance of a plane pointer per loop iteration, vector size of the file) *)")
P("Definition simd_plane_ptr_advances : list (Z * Z) := [%s]." % "; ".join("(%d, %d)" % a for a in ADV))
