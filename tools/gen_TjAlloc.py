#!/usr/bin/env python3
"""Translator for C14 (round 3b): the allocation / release structure of every TurboJPEG API function that acquires a
resource (malloc / MALLOC / tj3Init / fopen) in src/turbojpeg.c and src/turbojpeg-mp.c -> coq/gen/GenTjAlloc.v:
one `prog` (model/TjAlloc.v) per function: declarations (initialised to NULL or not), NULL assignments, acquisition sites
with their NULL test, THROW sites, setjmp handlers, libjpeg calls, releases in the body and in the `bailout:` epilogue,
per-component loops.  Also the size expression of every malloc (for the overflow theorem).
Fails loudly (exit != 0) when a construct is not understood, never skips silently."""
import re, sys

repo = sys.argv[1]


def rd(p):
    try:
        return open(repo + "/" + p).read()
    except OSError as e:
        sys.exit("%s: cannot read (%s)" % (p, e))


def strip_comments(s):
    s = re.sub(r"/\*.*?\*/", lambda m: " " * 0 + re.sub(r"[^\n]", " ", m.group(0)), s, flags=re.S)
    return re.sub(r'"(?:\\.|[^"\\])*"', '""', s)


def preprocess(body):
    """_MSC_VER -> #else branch; every other #if -> first branch (the configuration that is built)"""
    out, stack = [], []
    for line in body.split("\n"):
        t = line.strip()
        if t.startswith("#if"):
            msvc = "_MSC_VER" in t
            stack.append([msvc, False])       # [take_else, in_else]
            continue
        if t.startswith("#else") or t.startswith("#elif"):
            if not stack:
                sys.exit("unbalanced #else")
            stack[-1][1] = True
            continue
        if t.startswith("#endif"):
            if not stack:
                sys.exit("unbalanced #endif")
            stack.pop()
            continue
        if t.startswith("#"):
            continue
        keep = all((in_else if take_else else not in_else) for take_else, in_else in stack)
        out.append(line if keep else "")
    return "\n".join(out)


def match_brace(s, i, o="{", c="}"):
    d, j = 1, i + 1
    while d and j < len(s):
        d += s[j] == o
        d -= s[j] == c
        j += 1
    if d:
        sys.exit("unbalanced %s" % o)
    return j


def functions(src):
    for m in re.finditer(r"\n(?:DLLEXPORT|static)\b[^;{}]*?\)\s*\{", src):
        i = m.end() - 1
        j = match_brace(src, i)
        hdr = m.group(0)
        nm = re.search(r"GET_NAME\((\w+)|\b(_?tj\w+)\s*\(", hdr)
        if not nm:
            continue
        yield (nm.group(1) or nm.group(2)), src[i + 1:j - 1]


ACQ_OUT = re.compile(r"(?<![\w>.])jpeg_read_icc_profile\s*\(\s*\w+\s*,\s*&\s*(\w+)")       # block returned through an out-parameter
OWNED_FREE = re.compile(r"\bfree\s*\(\s*(this->\w+)\s*\)")
HANDOVER = re.compile(r"\*\s*\w+\s*=\s*(this->\w+)\s*;")
ACQ = re.compile(r"(?<![\w>.])((?:this->)?\w+)(\s*\[\s*\w+\s*\])?\s*=\s*(?:\([^()]*\)\s*)?(malloc|MALLOC|calloc|realloc|strdup|tj3Init|fopen)\s*\(")
CALL = re.compile(r"(?<![\w>.])(_?jpeg_\w+|jinit_\w+|jcopy_markers_\w+|jtransform_\w+|setCompDefaults|setDecompParameters|setDecodeDefaults)\s*\(|\(\*\s*\w+->[\w>\-]+\)\s*\(")
NOFAIL = {"jpeg_abort_compress", "jpeg_abort_decompress", "jpeg_destroy_compress", "jpeg_destroy_decompress"}

progs, sizes = [], []
for fname in ("src/turbojpeg.c", "src/turbojpeg-mp.c"):
    src = strip_comments(rd(fname))
    owned_members = set(OWNED_FREE.findall(src))       # pointer members of the instance (freed somewhere)
    for name, raw in functions(src):
        if not (ACQ.search(raw) or ACQ_OUT.search(raw) or OWNED_FREE.search(raw) or HANDOVER.search(raw)):
            continue
        body = preprocess(raw)
        if not (ACQ.search(body) or ACQ_OUT.search(body) or OWNED_FREE.search(body) or HANDOVER.search(body)):
            continue
        if name in ("tj3Alloc", "tj3Init"):
            continue          # tj3Alloc is the allocator itself; tj3Init is modelled in model/TjInit.v
        bl = [m.start() for m in re.finditer(r"\nbailout:", body)]
        if len(bl) > 1:
            sys.exit("%s: %s has %d bailout labels after preprocessing" % (fname, name, len(bl)))
        cut = bl[0] if bl else len(body)
        # tracked variables
        vars_, acqs = [], []
        for m in ACQ.finditer(body):
            v = m.group(1)
            if v not in vars_:
                vars_.append(v)
            acqs.append(m)
        outs = list(ACQ_OUT.finditer(body))
        for m in outs:
            if m.group(1) not in vars_:
                vars_.append(m.group(1))
        hand = [m for m in HANDOVER.finditer(body) if m.group(1) in owned_members]
        for m in list(OWNED_FREE.finditer(body)) + hand:
            if m.group(1) not in vars_:
                vars_.append(m.group(1))
        if not (acqs or outs or vars_):
            continue
        # loop spans
        loops = []
        for m in re.finditer(r"\bfor\s*\(", body):
            hend = match_brace(body, m.end() - 1, "(", ")")
            k = hend
            while body[k].isspace():
                k += 1
            if body[k] == "{":
                end = match_brace(body, k)
            else:
                end = body.index(";", k) + 1
            loops.append((m.start(), end, "MAX_COMPONENTS" in body[m.start():hend]))
        # setjmp handler blocks (their inner goto/retval are not separate THROW sites)
        handlers = []
        for m in re.finditer(r"if\s*\(\s*setjmp\s*\(", body):
            k = match_brace(body, body.index("(", m.start()), "(", ")")
            while body[k].isspace():
                k += 1
            handlers.append((m.start(), match_brace(body, k) if body[k] == "{" else body.index(";", k) + 1))

        def in_handler(p):
            return any(a <= p < b for a, b in handlers)

        ev = []   # (pos, text)
        cond_spans = []
        for v in vars_:
            ve = re.escape(v)
            if not v.startswith("this->"):
                d = re.search(r"[\*\s]" + ve + r"\s*(\[[^\]]*\])?\s*(=\s*NULL|=\s*\{[^}]*\})?\s*[,;]", body)
                first = re.search(r"(?<![\w>.])" + ve + r"(?![\w])", body)
                if not d or d.start() + 1 > first.start() + 1:
                    sys.exit("%s: %s: declaration of '%s' not found before its first use" % (fname, name, v))
                ev.append((d.start(), "BDecl %d %s" % (vars_.index(v), "true" if d.group(2) else "false")))
                skip = d.end()
            else:
                skip = 0
            for m in re.finditer(r"(?<![\w>.])" + ve + r"(\s*\[\s*\w+\s*\])?\s*=\s*NULL\s*[;,)]", body):
                if m.start() >= skip:
                    ev.append((m.start(), "BSetNull %d" % vars_.index(v)))
            for m in re.finditer(r"(?:\bif\s*\(\s*retval\s*<\s*0\s*\)\s*\{?\s*)?\b(free|tj3Destroy|fclose|tj3Free)\s*\(\s*" + ve + r"(\s*\[\s*\w+\s*\])?\s*\)", body):
                cond = m.group(0).startswith("if")
                ev.append((m.start(), ("BReleaseIfFailed %d" if cond else "BRelease %d") % vars_.index(v)))
                if cond:      # "if (retval < 0) { free(v); v = NULL; }": the assignment belongs to the conditional release
                    tail = re.match(r"\s*;\s*" + ve + r"\s*=\s*NULL\s*;\s*\}", body[m.end():])
                    if tail:
                        cond_spans.append((m.end(), m.end() + tail.end()))
        for m in acqs:
            v = m.group(1)
            close = match_brace(body, m.end() - 1, "(", ")")
            tail = body[close:close + 260]
            t = re.match(r"\s*\)?\s*\)?\s*==\s*NULL\s*\)\s*(THROW\w*|return\b|goto bailout)", tail) or \
                re.match(r"\s*;\s*if\s*\(\s*!\s*" + re.escape(v) + r"(\s*\[\s*\w+\s*\])?\s*\)\s*(THROW\w*|return\b|goto bailout)", tail)
            if not t:
                sys.exit("%s: %s: no NULL test directly after the acquisition of '%s': ...%s" % (fname, name, v, " ".join(tail[:80].split())))
            ret = t.group(t.lastindex) == "return"
            if m.group(3) == "realloc" and re.match(r"\s*" + re.escape(v) + r"\s*[\[,]", body[m.end():]):
                ev.append((m.start(), "BRealloc %d" % vars_.index(v)))      # v = realloc(v, ..): a failure overwrites the only pointer
            else:
                ev.append((m.start(), ("BAcquireRet %d" if ret else "BAcquire %d") % vars_.index(v)))
            if m.group(3) in ("malloc", "MALLOC"):
                sizes.append((name, v, " ".join(body[m.end():close - 1].split())))
            # the THROW that belongs to this NULL test is not a separate choice point
            handlers.append((close, close + t.end()))
        for m in outs:
            ev.append((m.start(), "BAcquireOut %d" % vars_.index(m.group(1))))
        for v in vars_:
            for w in vars_:
                if v != w:
                    for m in re.finditer(r"(?<![\w>.*])" + re.escape(v) + r"\s*=\s*" + re.escape(w) + r"\s*;", body):
                        ev.append((m.start(), "BMove %d %d" % (vars_.index(v), vars_.index(w))))
        for m in hand:
            ev.append((m.start(), "BEscape %d" % vars_.index(m.group(1))))
        for m in re.finditer(r"\bTHROW\w*\s*[\({]|\bgoto\s+bailout\b", body[:cut]):
            if not in_handler(m.start()):
                ev.append((m.start(), "BThrow"))
        for m in re.finditer(r"if\s*\(\s*setjmp\s*\(", body):
            ev.append((m.start(), "BSetjmp"))
        outpos = {m.start() for m in outs}
        for m in CALL.finditer(body[:cut]):
            if m.group(1) in NOFAIL or m.start() in outpos:
                continue
            ev.append((m.start(), "BCall"))
        ev = [(p_, t_) for p_, t_ in ev if not (t_.startswith("BSetNull") and any(a <= p_ < b for a, b in cond_spans))]
        ev.sort()
        # early returns between the first acquisition and the epilogue other than an acquisition's own test
        first_acq = min([m.start() for m in acqs] + [m.start() for m in outs] + [len(body)])
        for m in re.finditer(r"\breturn\b", body[first_acq:cut]):
            p = first_acq + m.start()
            if not bl and re.match(r"return\b[^;]*;\s*$", body[p:]):
                continue          # the final statement of a function without epilogue
            if not in_handler(p):
                sys.exit("%s: %s: 'return' between the first acquisition and the epilogue" % (fname, name))
        # use after release in the epilogue
        for v in vars_:
            for m in re.finditer(r"\b(free|tj3Destroy|fclose)\s*\(\s*" + re.escape(v) + r"(\s*\[\s*\w+\s*\])?\s*\)\s*;", body[cut:]):
                rest = body[cut + m.end():]
                for u in re.finditer(r"(?<![\w>.])" + re.escape(v) + r"(?![\w])(\s*\[\s*\w+\s*\])?", rest):
                    after = rest[u.end():u.end() + 12]
                    before = rest[max(0, u.start() - 12):u.start()]
                    if re.match(r"\s*=\s*NULL", after) or re.search(r"(free|tj3Destroy|fclose)\s*\(\s*$", before) or re.search(r"return\s*$", before):
                        continue
                    sys.exit("%s: %s: '%s' is used after it was released in the epilogue" % (fname, name, v))

        def emit(lo, hi):
            out, i = [], 0
            evs = [(p, t) for p, t in ev if lo <= p < hi]
            used = [l for l in loops if lo <= l[0] < hi and any(l[0] <= p < l[1] and not t.startswith(("BThrow", "BCall", "BSetjmp", "BDecl")) for p, t in evs)]
            # outermost loops only; nested tracked loops are not supported
            outer = [l for l in used if not any(o is not l and o[0] <= l[0] and l[1] <= o[1] for o in used)]
            if len(outer) != len(used):
                sys.exit("%s: %s: nested loops with acquisitions/releases are not supported" % (fname, name))
            k = 0
            while k < len(evs):
                p, t = evs[k]
                lp = [l for l in outer if l[0] <= p < l[1]]
                if lp:
                    l = lp[0]
                    inner = [t2 for p2, t2 in evs if l[0] <= p2 < l[1]]
                    out.append("Loop %s [%s]" % ("true" if l[2] else "false", "; ".join(inner)))
                    k += len(inner)
                else:
                    out.append("I (%s)" % t)
                    k += 1
            return out
        bodyi = emit(0, cut)
        baili = emit(cut, len(body))
        esc = [vars_.index(v) for v in vars_ if re.search(r"\breturn\s+" + re.escape(v) + r"\s*;", body[cut:])]
        own = [vars_.index(v) for v in vars_ if v.startswith("this->")]
        nonm = sum(1 for m in acqs if m.group(3) in ("tj3Init", "fopen"))
        progs.append((name, fname.split("/")[-1], vars_, bodyi, baili, esc, own, len(acqs) + len(outs), nonm + len(outs), name == "tj3Destroy"))

if len(progs) < 8:
    sys.exit("expected at least 8 TurboJPEG functions with acquisitions, found %d" % len(progs))
P = print
P("(* GENERATED by tools/gen_TjAlloc.py from src/turbojpeg.c and src/turbojpeg-mp.c -- do not edit *)")
P("From Coq Require Import List ZArith.\nFrom LJT Require Import model.TjAlloc.\nImport ListNotations.\n")
for k, (name, fn, vars_, bodyi, baili, esc, own, nacq, nonm, destroys) in enumerate(progs):
    P("(* %s (%s): %s; %d acquisition sites *)" % (name, fn, ", ".join("%d=%s" % (i, v) for i, v in enumerate(vars_)), nacq))
    P("Definition prog_%s_%d : prog :=\n  {| p_name := %d;\n     p_body := [%s];\n     p_bail := [%s];\n     p_escape := [%s]; p_owned := [%s]; p_destroys := %s |}.\n" % (
        name, k, k, ";\n                ".join(bodyi), "; ".join(baili), "; ".join(map(str, esc)), "; ".join(map(str, own)), "true" if destroys else "false"))
P("Definition tj_progs : list prog := [%s]." % "; ".join("prog_%s_%d" % (p[0], k) for k, p in enumerate(progs)))
P("Definition tj_acquisition_sites : nat := %d." % sum(p[7] for p in progs))
P("(* acquisition sites that are not malloc (tj3Init, fopen), per program *)")
P("Definition tj_nonmalloc : list nat := [%s]." % "; ".join(str(p[8]) for p in progs))
# ---------------------------------------------------------------- calls inside the epilogues
def fbody(path, name):
    src = strip_comments(rd(path))
    m = re.search(r"[\n ]" + re.escape(name) + r"\s*\([^;{)]*\)\s*\{", src)
    if not m:
        sys.exit("%s: function %s not found" % (path, name))
    j = match_brace(src, m.end() - 1)
    return " ".join(src[m.end():j - 1].split())


epi = []      # (function, callee, class)
KEYW = {"if", "for", "while", "return", "sizeof", "switch"}
for fname in ("src/turbojpeg.c", "src/turbojpeg-mp.c"):
    src = strip_comments(rd(fname))
    for name, raw in functions(src):
        body = preprocess(raw)
        if "\nbailout:" not in body:
            continue
        tail = body[body.rindex("\nbailout:"):]
        for m in re.finditer(r"\(\*\s*[\w>\-]+->(\w+)\)\s*\(|(?<![\w>.])([A-Za-z_]\w*)\s*\(", tail):
            callee = m.group(1) or m.group(2)
            if callee in KEYW:
                continue
            cls = ("ERelease" if callee in ("free", "tj3Free", "fclose") else
                   "EAbortLike" if callee in ("jpeg_abort_compress", "jpeg_abort_decompress", "jpeg_destroy_compress", "jpeg_destroy_decompress", "tj3Destroy") else
                   "ETerm" if callee == "term_destination" else "EOther")
            epi.append((name, callee, cls))
if len(epi) < 20:
    sys.exit("expected at least 20 calls inside bailout epilogues, found %d" % len(epi))
# the callee classes, read from their sources
facts = []
b = fbody("src/jcomapi.c", "jpeg_abort")
facts.append(("jpeg_abort: no ERREXIT / allocation, pools released through free_pool", not re.search(r"ERREXIT|WARNMS|alloc_|malloc", b) and "free_pool" in b))
b = fbody("src/jcomapi.c", "jpeg_destroy")
facts.append(("jpeg_destroy: no ERREXIT / allocation, only self_destruct", not re.search(r"ERREXIT|WARNMS|alloc_|malloc", b) and "self_destruct" in b))
facts.append(("jpeg_abort_compress = jpeg_abort", fbody("src/jcapimin.c", "jpeg_abort_compress") == "jpeg_abort((j_common_ptr)cinfo);"))
facts.append(("jpeg_destroy_compress = jpeg_destroy", fbody("src/jcapimin.c", "jpeg_destroy_compress") == "jpeg_destroy((j_common_ptr)cinfo);"))
facts.append(("jpeg_abort_decompress = jpeg_abort", fbody("src/jdapimin.c", "jpeg_abort_decompress") == "jpeg_abort((j_common_ptr)cinfo);"))
facts.append(("jpeg_destroy_decompress = jpeg_destroy", fbody("src/jdapimin.c", "jpeg_destroy_decompress") == "jpeg_destroy((j_common_ptr)cinfo);"))
b = fbody("src/jdatadst-tj.c", "term_mem_destination")
facts.append(("term_mem_destination (jdatadst-tj.c): assignments only", not re.search(r"ERREXIT|malloc|MALLOC|\w+\s*\(\s*cinfo", b.replace("(my_mem_dest_ptr)cinfo->dest", ""))))
b = fbody("src/turbojpeg.c", "tj3Destroy")
facts.append(("tj3Destroy installs its own handler before the jpeg_destroy_* calls", bool(re.search(r"if \(setjmp\(this->jerr\.setjmp_buffer\)\) return;.*jpeg_destroy_compress", b))))
b = fbody("src/jmemmgr.c", "free_pool")
facts.append(("free_pool: the only ERREXIT is the pool-id check", len(re.findall(r"ERREXIT", b)) == 1 and "JERR_BAD_POOL_ID" in b))
b = fbody("src/jmemmgr.c", "self_destruct")
facts.append(("self_destruct: no ERREXIT", "ERREXIT" not in b))

# ---------------------------------------------------------------- size expressions
import ast
SIZEOF = {"JSAMPROW": (8, 8), "_JSAMPROW": (8, 8), "JSAMPLE": (1, 1), "size_t": (8, 8), "jpeg_transform_info": (1, 512), "_JSAMPLE": (1, 2)}
INT = (0, 2 ** 31 - 1)
VARS = {"ph": INT, "ph0": INT, "th": INT, "height": INT, "croppedHeight": INT, "n": INT, "tmpbufsize": INT,
        "width_in_blocks": (0, 65500), "max_h_samp_factor": (1, 4), "max_v_samp_factor": (1, 4), "h_samp_factor": (1, 4), "v_samp_factor": (1, 4),
        "iccSize": (0, 2 ** 64 - 1)}
GUARDED = {"pitch"}      # pitch * height is compared with SIZE_MAX in 64-bit arithmetic before the malloc (tj3LoadImage)
varids = {}


def conv(node):
    """-> (coq term, is_size_t)"""
    if isinstance(node, ast.Constant):
        return "SConst %d" % node.value, False
    if isinstance(node, ast.Name):
        nm = node.id
        if nm == "DCTSIZE":
            return "SConst 8", False
        if nm.startswith("SIZEOF_"):
            lo, hi = SIZEOF[nm[7:]]
            if lo == hi:
                return "SConst %d" % lo, True
            key = nm
            VARS[key] = (lo, hi)
        else:
            key = nm
        if key not in VARS:
            sys.exit("size expression: no bound known for '%s'" % key)
        if key not in varids:
            varids[key] = len(varids)
        return "SVar %d" % varids[key], key.startswith("SIZEOF_") or key in ("iccSize",)
    if isinstance(node, ast.BinOp):
        a, sa = conv(node.left)
        b, sb = conv(node.right)
        st = sa or sb
        w = 64 if st else 32
        if isinstance(node.op, ast.Mult):
            return "SMul %d (%s) (%s)" % (w, a, b), st
        if isinstance(node.op, ast.Add):
            return "SAdd %d (%s) (%s)" % (w, a, b), st
        if isinstance(node.op, ast.Div):
            return "SDiv (%s) (%s)" % (a, b), st
    if isinstance(node, ast.Call) and getattr(node.func, "id", "") == "PAD" and isinstance(node.args[1], ast.Constant):
        a, sa = conv(node.args[0])
        return "SPad %d (%s) %d" % (64 if sa else 32, a, node.args[1].value), sa
    sys.exit("size expression: unsupported construct %s" % ast.dump(node)[:80])


P("\n(* every call that occurs inside a bailout epilogue: (function, callee) -> class *)")
for f_, c_, k_ in epi:
    P("(* %s: %s -> %s *)" % (f_, c_, k_))
P("Definition tj_epilogue_calls : list ecall := [%s]." % "; ".join(k_ for _, _, k_ in epi))
P("(* facts about the callee classes, read from their sources *)")
for t_, ok_ in facts:
    P("(* %s: %s *)" % (t_, ok_))
P("Definition tj_epilogue_callee_facts : list bool := [%s]." % "; ".join("true" if ok_ else "false" for _, ok_ in facts))
P("\n(* size expressions of the malloc sites *)")
terms, guarded = [], []
for name, v, e in sizes:
    P("(* %s: %s = malloc(%s) *)" % (name, v, e.replace("(*", "( *").replace("*)", "* )")))
    t = re.sub(r"sizeof\(\s*(\w+)(?:\s*\*)?\s*\)", lambda m: "SIZEOF_" + m.group(1), e)
    t = re.sub(r"\b\w+->", "", t)
    t = re.sub(r"\[\s*\w+\s*\]", "", t)
    t = re.sub(r"\(\s*\*\s*(\w+)\s*\)", r"\1", t)
    if any(g in re.findall(r"\w+", t) for g in GUARDED):
        guarded.append(name + ":" + v)
        continue
    try:
        tree = ast.parse(t, mode="eval").body
    except SyntaxError:
        sys.exit("size expression of %s:%s not parsable: %s" % (name, v, t))
    terms.append(conv(tree)[0])
P("From LJT Require Import model.SizeExpr.\nLocal Open Scope Z_scope.")
P("Definition tj_size_exprs : list sx :=\n  [%s]." % ";\n   ".join(terms))
P("(* variable bounds: %s *)" % ", ".join("%d=%s in [%d,%d]" % (i, k, VARS[k][0], VARS[k][1]) for k, i in sorted(varids.items(), key=lambda x: x[1])))
P("Definition tj_size_bounds : bounds := fun v =>\n  %s (0, 0)." % " ".join("if Nat.eqb v %d then (%d, %d) else" % (i, VARS[k][0], VARS[k][1]) for k, i in sorted(varids.items(), key=lambda x: x[1])))
P("(* guarded by an explicit 64-bit comparison with SIZE_MAX before the call, not analysed: %s *)" % ", ".join(guarded))
P("Definition tj_size_guarded : nat := %d." % len(guarded))
