#!/usr/bin/env python3
"""Print the red-team prompt for property Cxx (property text only; nothing from /verif)."""
import json, sys
pid = sys.argv[1]
for l in open('/verif/properties.jsonl'):
    p = json.loads(l)
    if p['id'] == pid:
        break
files = ", ".join(p['anchors']['files'][:14])
print(f"""You are a red-team engineer. You have your own scratch git worktree of the libjpeg-turbo 3.1.1 source at /tmp/adv-{pid} (a checkout of HEAD). Work ONLY inside /tmp/adv-{pid} and /tmp/adv-{pid}-out (create it). Do NOT read, list or touch /verif, and do not modify /repo.

Property under test (a semantic property the library is supposed to satisfy) -- "{p['title']}":
"{p['statement']}"
(Quantified over: {p['quantifier']['text']}.) Code the property is anchored in: {files}.

Task: write THREE independent, realistic source changes (the kind of bug a maintainer could introduce in a refactoring, optimisation or feature patch), each of which BREAKS this property while (a) the library still compiles, (b) the ENTIRE existing test suite still passes, and (c) the breakage needs something specific to manifest -- a particular interleaving, a fault at a particular point, a multi-step sequence of calls, an unusual input or parameter value, or two cooperating sites that each look fine alone -- not something ordinary use would expose at once. The three should touch different mechanisms/files of the anchored code.

For each change i in 1..3: start from a clean tree (git -C /tmp/adv-{pid} checkout -- .), apply your edit, build and run the full suite:
  cmake -G Ninja -S /tmp/adv-{pid} -B /tmp/adv-{pid}/_build -DCMAKE_BUILD_TYPE=RelWithDebInfo >/dev/null && cmake --build /tmp/adv-{pid}/_build >/dev/null && ctest --test-dir /tmp/adv-{pid}/_build -j8 --timeout 900 | tail -3
It must say "100% tests passed" (662 tests). Then write a small demonstration program demo<i>.c (public API preferred; it may #include library sources or internal headers from the worktree to reach internals, and link /tmp/adv-{pid}/_build/libjpeg.a or libturbojpeg.a; sanitizer flags allowed if you rebuild the library with them in a separate build dir) that exits 0 on the UNCHANGED tree and exits non-zero (printing what failed) on the changed tree; verify BOTH outcomes yourself (build the unchanged tree in a second build dir, e.g. /tmp/adv-{pid}/_build0, before editing). Save in /tmp/adv-{pid}-out/: patch<i>.diff (git diff output, applicable with `git apply` at the repository root), demo<i>.c, build_demo<i>.sh (exact compile command taking the repo root and the build dir as $1 $2 and producing ./demo<i>), and README<i>.md (what the change is, which clause of the property it breaks, what is needed for it to manifest, the commands you ran and their observed results). Finally leave /tmp/adv-{pid} clean (git checkout -- . ; remove _build dirs to save disk). Final answer: <= 15 lines summarising the three changes.""")
