#!/usr/bin/env python3
"""Assemble MANIFEST.json from checks/Cxx.manifest.json fragments."""
import json, os, glob
V = os.path.dirname(os.path.dirname(os.path.abspath(__file__)))
props = [json.loads(l) for l in open(os.path.join(V, "properties.jsonl"))]
m = json.load(open(os.path.join(V, "MANIFEST.json")))
claimed_file = os.path.join(V, "checks", "claimed.txt")
claimed = set(open(claimed_file).read().split()) if os.path.exists(claimed_file) else None
frs = {}
for f in sorted(glob.glob(os.path.join(V, "checks", "C*.manifest.json"))):
    fr = json.load(open(f))
    if os.path.exists(os.path.join(V, "checks", fr["property_id"] + ".py")) and os.path.exists(os.path.join(V, "coq", "props", fr["property_id"] + ".v")):
        if claimed is None or fr["property_id"] in claimed:
            frs[fr["property_id"]] = fr
na_reasons = {}
if os.path.exists(os.path.join(V, "checks", "not_applicable.json")):
    na_reasons = json.load(open(os.path.join(V, "checks", "not_applicable.json")))
m["checks"] = []
m["not_applicable"] = []
for p in props:
    pid = p["id"]
    if pid in frs:
        fr = frs[pid]
        m["checks"].append({
            "property_id": pid, "quick_cmd": "./check %s --tier quick" % pid, "thorough_cmd": "./check %s --tier thorough" % pid,
            "evidence_file": "evidence/%s.json" % pid, "replay_cmd_template": "./check %s --replay {path}" % pid,
            "engine": "coq-proof+correspondence",
            "level_claimed": {"category": "proof", "text": fr["level_text"], "design_ref": "DESIGN.md section 6 (%s) and design/%s.md" % (pid, pid)},
            "level_note": fr["level_note"], "technique": fr.get("technique", "machine-checked proof in Coq + correspondence")})
    else:
        m["not_applicable"].append({"property_id": pid, "reason": na_reasons.get(pid, "check under construction (design in DESIGN.md section 6); not claimed yet")})
m["engines"][0]["serves_properties"] = sorted(frs)
json.dump(m, open(os.path.join(V, "MANIFEST.json"), "w"), indent=1)
print("claimed:", sorted(frs))
