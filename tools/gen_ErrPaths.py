#!/usr/bin/env python3
"""Translator for C12: reads src/turbojpeg.c, src/turbojpeg-mp.c, src/jcparam.c, src/jstdhuff.c, src/jdmarker.c,
src/jdinput.c, src/jdapimin.c, src/jcomapi.c, src/jctrans.c, src/jdatadst-tj.c, src/jdmaster.c, src/jpeglib.h,
src/turbojpeg.h of the tree given as argv[1] and prints coq/gen/GenErrPaths.v:

* api_functions: for every DLLEXPORT function its `if (setjmp(...->jerr.setjmp_buffer)) {...}` handler(s) and its
  `bailout:` block as classified statements, and which libjpeg object(s) it drives;
* tj3set_table: the parameter table of tj3Set (field, accepted range, applicability, read-only, cleared field);
* field lists: assigned by jpeg_set_defaults (transitively), reset_marker_reader, reset_input_controller,
  default_decompress_parms, get_soi, get_sof, jpeg_abort (decompressor branch), setCompDefaults (cinfo <- parameter
  pairs), setDecompParameters, tj3DecodeYUVPlanes8+setDecodeDefaults; parameter members of jpeg_compress_struct;
* order / presence facts about four places where stale state is read (F5, F9, F10, F11) and the two fixed ones (F1
  is visible in api_functions, F2 as dest_forgets_newbuffer).
Exits non-zero with a message when a construct it reads is gone."""
import re
import sys

repo = sys.argv[1]


def rd(rel):
    try:
        return open(repo + "/" + rel, errors="replace").read()
    except OSError:
        sys.exit("cannot read " + rel)


def strip_comments(s):
    s = re.sub(r"/\*.*?\*/", lambda m: " " * 0 + "\n" * m.group(0).count("\n"), s, flags=re.S)
    s = re.sub(r"//[^\n]*", "", s)
    return s


def match_brace(s, i):
    """s[i] == '{' -> index just after the matching '}'"""
    depth = 0
    j = i
    while j < len(s):
        c = s[j]
        if c == "{":
            depth += 1
        elif c == "}":
            depth -= 1
            if depth == 0:
                return j + 1
        elif c == '"':
            j += 1
            while j < len(s) and s[j] != '"':
                if s[j] == "\\":
                    j += 1
                j += 1
        elif c == "'":
            j += 1
            while j < len(s) and s[j] != "'":
                if s[j] == "\\":
                    j += 1
                j += 1
        j += 1
    sys.exit("unbalanced braces")


def match_paren(s, i):
    depth = 0
    j = i
    while j < len(s):
        if s[j] == "(":
            depth += 1
        elif s[j] == ")":
            depth -= 1
            if depth == 0:
                return j + 1
        j += 1
    sys.exit("unbalanced parentheses")


def preprocess(text, defs):
    """evaluate the #if / #elif / #else / #endif lines that mention the macros in `defs`
    (BITS_IN_JSAMPLE, *_SUPPORTED, _MSC_VER, ...); other directives are dropped, their text kept."""
    out = []
    stack = []   # (active_before, taken, active_now, known)

    def ev(expr):
        e = expr
        e = re.sub(r"defined\s*\(\s*(\w+)\s*\)", lambda m: "1" if defs.get(m.group(1)) is not None else ("0" if m.group(1) in KNOWN_UNDEF else "UNKNOWN"), e)
        e = re.sub(r"defined\s+(\w+)", lambda m: "1" if defs.get(m.group(1)) is not None else ("0" if m.group(1) in KNOWN_UNDEF else "UNKNOWN"), e)
        for k, v in defs.items():
            if v is not None:
                e = re.sub(r"\b%s\b" % k, str(v), e)
        if re.search(r"[A-Za-z_]", e.replace("UNKNOWN", "").replace("ULL", "")) or "UNKNOWN" in e:
            return None
        e = e.replace("&&", " and ").replace("||", " or ").replace("!", " not ").replace(" not =", "!=")
        try:
            return bool(eval(e))
        except Exception:
            return None

    for line in text.split("\n"):
        m = re.match(r"\s*#\s*(if|ifdef|ifndef|elif|else|endif)\b(.*)", line)
        if not m:
            if all(s[2] for s in stack):
                out.append(line)
            else:
                out.append("")
            continue
        d, rest = m.group(1), m.group(2).strip()
        if d in ("if", "ifdef", "ifndef"):
            if d == "ifdef":
                v = ev("defined(%s)" % rest)
            elif d == "ifndef":
                v = ev("defined(%s)" % rest)
                v = None if v is None else (not v)
            else:
                v = ev(rest)
            if v is None:
                stack.append((True, True, True, False))      # unknown: keep every branch
            else:
                stack.append((True, v, v, True))
        elif d == "elif":
            a, taken, now, known = stack.pop()
            if not known:
                stack.append((a, taken, True, False))
            else:
                v = ev(rest)
                if v is None:
                    v = True
                stack.append((a, taken or v, (not taken) and v, True))
        elif d == "else":
            a, taken, now, known = stack.pop()
            stack.append((a, True, True if not known else (not taken), known))
        else:
            if stack:
                stack.pop()
        out.append("")
    return "\n".join(out)


KNOWN_UNDEF = {"_MSC_VER", "_WIN32", "NO_PUTENV", "NO_GETENV", "WITH_SIMD_NEVER"}
BASE_DEFS = {"C_LOSSLESS_SUPPORTED": 1, "D_LOSSLESS_SUPPORTED": 1, "C_PROGRESSIVE_SUPPORTED": 1, "D_PROGRESSIVE_SUPPORTED": 1,
             "SAVE_MARKERS_SUPPORTED": 1, "UPSAMPLE_MERGING_SUPPORTED": 1, "D_MULTISCAN_FILES_SUPPORTED": 1,
             "QUANT_1PASS_SUPPORTED": 1, "QUANT_2PASS_SUPPORTED": 1, "JPEG_LIB_VERSION": 62}

# --------------------------------------------------------------------------- API functions
tj_c = strip_comments(rd("src/turbojpeg.c"))
mp_c = strip_comments(rd("src/turbojpeg-mp.c"))
if "#include \"turbojpeg-mp.c\"" not in tj_c:
    sys.exit("turbojpeg.c no longer includes turbojpeg-mp.c")
bits_list = [int(x) for x in re.findall(r"#define BITS_IN_JSAMPLE\s+(\d+)\s*\n\s*#include \"turbojpeg-mp.c\"", tj_c)]
if sorted(bits_list) != [8, 12, 16]:
    sys.exit("turbojpeg.c: expected turbojpeg-mp.c to be included for 8, 12 and 16 bits, found %s" % bits_list)


def functions(text, bits=None):
    """[(name, body)] of the DLLEXPORT functions"""
    res = []
    for m in re.finditer(r"\bDLLEXPORT\b", text):
        i = m.end()
        j = text.find("(", i)
        head = text[i:j]
        if "GET_NAME" in head:
            k = match_paren(text, j)
            nm = re.match(r"\s*(\w+)\s*,\s*BITS_IN_JSAMPLE", text[j + 1:k - 1])
            if not nm:
                sys.exit("turbojpeg-mp.c: unexpected GET_NAME use: " + text[j:k])
            name = nm.group(1) + str(bits)
            j = text.find("(", k)
        else:
            name = head.split()[-1].lstrip("*")
        k = match_paren(text, j)
        rest = text[k:k + 40].lstrip()
        if not rest.startswith("{"):
            continue                                   # a declaration
        b0 = text.find("{", k)
        b1 = match_brace(text, b0)
        res.append((name, text[b0 + 1:b1 - 1]))
    return res


fns = []
for name, body in functions(preprocess(tj_c, dict(BASE_DEFS))):
    fns.append((name, body, "turbojpeg.c"))
for bits in (8, 12, 16):
    d = dict(BASE_DEFS)
    d["BITS_IN_JSAMPLE"] = bits
    for name, body in functions(preprocess(mp_c, d), bits):
        fns.append((name, body, "turbojpeg-mp.c"))
names = [f[0] for f in fns]
for must in ("tj3Init", "tj3Set", "tj3Compress8", "tj3Compress12", "tj3Compress16", "tj3Decompress8", "tj3DecompressHeader", "tj3Transform",
             "tj3CompressFromYUVPlanes8", "tj3EncodeYUVPlanes8", "tj3DecompressToYUVPlanes8", "tj3DecodeYUVPlanes8", "tj3GetICCProfile",
             "tj3TransformBufSize", "tj3SetICCProfile"):
    if must not in names:
        sys.exit("DLLEXPORT function %s not found" % must)


def split_stmts(block):
    """top-level statements of a block text (without the outer braces)"""
    out = []
    i = 0
    n = len(block)
    while i < n:
        while i < n and block[i] in " \t\n":
            i += 1
        if i >= n:
            break
        m = re.match(r"(if|for|while)\b\s*", block[i:])
        if m:
            j = block.find("(", i)
            k = match_paren(block, j)
            head = block[i:k]
            r = k
            while r < n and block[r] in " \t\n":
                r += 1
            if r < n and block[r] == "{":
                e = match_brace(block, r)
                body = block[r + 1:e - 1]
                # else branch?
                mm = re.match(r"\s*else\b", block[e:])
                if mm:
                    e2 = e + mm.end()
                    while e2 < n and block[e2] in " \t\n":
                        e2 += 1
                    if e2 < n and block[e2] == "{":
                        e = match_brace(block, e2)
                    else:
                        e = block.find(";", e2) + 1
                    out.append(("compound", block[i:e].strip(), None))
                else:
                    out.append((m.group(1), head, body))
                i = e
            else:
                e = block.find(";", r)
                # nested "if (...) (*f) (x);" may contain parentheses but no ';'
                out.append((m.group(1), head, block[r:e + 1]))
                i = e + 1
        else:
            e = block.find(";", i)
            if e < 0:
                rest = block[i:].strip()
                if rest:
                    out.append(("simple", rest, None))
                break
            out.append(("simple", block[i:e].strip(), None))
            i = e + 1
    return out


def norm(s):
    return re.sub(r"\s+", " ", s).strip()


def cond_of(head):
    c = norm(head)
    c = re.sub(r"^if\s*\(", "", c)[:-1].strip()
    table = {
        "cinfo->global_state > CSTATE_START": "HIfGtStartC",
        "dinfo->global_state > DSTATE_START": "HIfGtStartD",
        "cinfo->global_state > CSTATE_START || retval == -1": "HIfGtStartCOrErr",
        "cinfo->global_state > CSTATE_START && alloc": "HIfGtStartCAndAlloc",
        "alloc": "HIfAlloc",
        "this->jerr.warning": "HIfWarning",
        "retval < 0": "HIfRetNeg",
        "file": "HIfFile",
    }
    return table.get(c), c


def classify(stmts, cond="HAlways"):
    """-> list of Coq terms of type hstmt"""
    out = []
    for kind, a, b in stmts:
        if kind == "simple":
            t = norm(a)
            if t == "":
                continue
            m = re.match(r"retval = (-?\d+|NULL)$", t)
            if m:
                v = 0 if m.group(1) == "NULL" else int(m.group(1))
                out.append('HRetval %s (%d)' % (cond, v))
            elif t == "goto bailout":
                out.append("HGotoBailout %s" % cond)
            elif t.startswith("return"):
                out.append("HReturn %s" % cond)
            elif re.match(r"jpeg_abort_compress\s*\(\s*cinfo\s*\)$", t):
                out.append("HAbortC %s" % cond)
            elif re.match(r"jpeg_abort_decompress\s*\(\s*dinfo\s*\)$", t):
                out.append("HAbortD %s" % cond)
            elif re.match(r"\(\s*\*\s*cinfo->dest->term_destination\s*\)\s*\(\s*cinfo\s*\)$", t):
                out.append("HTermDest %s" % cond)
            elif re.match(r"free\s*\((.*)\)$", t):
                v = re.match(r"free\s*\((.*)\)$", t).group(1).strip()
                v = re.sub(r"\[\w+\]", "[]", v)
                out.append('HFree %s "%s"' % (cond, v))
            elif re.match(r"tj3Destroy\s*\(\s*handle2\s*\)$", t):
                out.append("HDestroyTmp %s" % cond)
            elif re.match(r"fclose\s*\(", t):
                out.append("HFclose %s" % cond)
            else:
                out.append('HOther %s "%s"' % (cond, t.replace('"', "'")[:60]))
        elif kind == "if" and re.match(r"if\s*\(\s*old_(read_markers|reset_marker_reader)\s*\)$", norm(a)) and \
                re.match(r"dinfo->marker->(read_markers|reset_marker_reader)\s*=\s*old_(read_markers|reset_marker_reader)\s*;?$", norm(b)):
            out.append("HRestoreMarkerMethods %s" % cond)
        elif kind == "if" and re.match(r"if\s*\(\s*old_start_input_pass\s*\)$", norm(a)) and \
                re.match(r"dinfo->inputctl->start_input_pass\s*=\s*old_start_input_pass\s*;?$", norm(b)):
            out.append("HRestoreStartInputPass %s" % cond)
        elif kind == "if":
            c, raw = cond_of(a)
            inner = split_stmts(b)
            if cond != "HAlways" and c is not None:
                # nested condition: only the combination the source uses
                if cond == "HIfGtStartC" and c == "HIfAlloc":
                    out += classify(inner, "HIfGtStartCAndAlloc")
                else:
                    out.append('HOther %s "%s"' % (cond, norm(a + " " + b)[:60].replace('"', "'")))
            elif c is None:
                out.append('HOther %s "%s"' % (cond, norm(a + " " + b)[:60].replace('"', "'")))
            elif c == "HIfWarning" and [norm(x[1]) for x in inner] == ["retval = -1"]:
                out.append("HWarnRet")
            else:
                out += classify(inner, c)
        elif kind == "for":
            out += classify(split_stmts(b), cond)
        else:
            out.append('HOther %s "%s"' % (cond, norm(a)[:60].replace('"', "'")))
    return out


C_ADV = re.compile(r"\b(jpeg_start_compress|jpeg_write_coefficients|jinit_c_master_control|jpeg_set_defaults|setCompDefaults)\s*\(\s*(cinfo|&this->cinfo|this)\b")
D_ADV = re.compile(r"\b(jpeg_read_header|jpeg_start_decompress|jpeg_read_coefficients|jinit_master_decompress)\s*\(\s*(dinfo|&this->dinfo)\b")
TMP = re.compile(r"\bhandle2\s*=\s*tj3Init\s*\(")

CUR_BITS = {}
for n_, b_, s_ in fns:
    mb_ = re.match(r"tj3\w+?(8|12|16)$", n_)
    if s_ == "turbojpeg-mp.c" and mb_:
        CUR_BITS[n_] = mb_.group(1)
api = []
for name, body, src in fns:
    handlers = []
    for m in re.finditer(r"if\s*\(\s*setjmp\s*\(\s*(this2?)->jerr\.setjmp_buffer\s*\)\s*\)", body):
        r = m.end()
        while body[r] in " \t\n":
            r += 1
        if body[r] == "{":
            e = match_brace(body, r)
            hb = body[r + 1:e - 1]
        else:
            e = body.find(";", r) + 1
            hb = body[r:e]
        handlers.append(classify(split_stmts(hb)))
    bm = re.search(r"\n\s*bailout\s*:", body)
    bail = classify(split_stmts(body[bm.end():])) if bm else None
    uses_c = bool(C_ADV.search(body))
    uses_d = bool(D_ADV.search(body))
    tmp = bool(TMP.search(body))
    if tmp:
        uses_c = uses_d = False     # works on a temporary instance that the bailout destroys
    throws = len(re.findall(r"\bTHROW\w*\s*\(", body))
    # `return` statements that leave the function AFTER it started to drive a libjpeg object and BEFORE the bailout label
    # (they bypass the bailout block): tail calls of another API function, the tables-only return of tj3DecompressHeader
    # and "parameter setter failed" returns are known shapes, anything else is reported verbatim
    erets = []
    adv = [m_.start() for m_ in list(C_ADV.finditer(body)) + list(D_ADV.finditer(body))]
    if adv and not tmp:
        lo = min(adv)
        hi = bm.start() if bm else len(body)
        for rm_ in re.finditer(r"\breturn\b([^;]*);", body[lo:hi]):
            pos = lo + rm_.start()
            ctx_start = max(body.rfind(";", 0, pos), body.rfind("{", 0, pos), body.rfind("}", 0, pos)) + 1
            guard = norm(body[ctx_start:pos])
            expr = norm(rm_.group(1))
            # the enclosing block's condition when the return is the last statement of a braced block
            blk = body.rfind("{", 0, pos)
            pre = norm(body[max(0, blk - 200):blk]) if blk >= 0 else ""
            tc = re.match(r"(tj\w+)\s*\(", expr)
            if tc and tc.group(1) in names:
                erets.append('ERTailCall "%s"' % tc.group(1))
            elif "JPEG_HEADER_TABLES_ONLY" in guard and expr == "0":
                erets.append("ERTablesOnly")
            elif re.search(r"if \(tj3Set(ScalingFactor|CroppingRegion)\s*\([^;]*== -1\)$", guard):
                erets.append("ERSetterFailed")
            else:
                erets.append('EROther "%s"' % (guard + " return " + expr + " [in: " + pre[-60:] + "]").replace('"', "'")[:150])
    calls = []
    for cm_ in re.finditer(r"\b(tj3?[A-Z]\w*|TJBUFSIZE\w*|GET_NAME\s*\(\s*(tj3\w+)\s*,\s*BITS_IN_JSAMPLE\s*\))\s*\(", body):
        cn = cm_.group(2) + str(CUR_BITS.get(name, "")) if cm_.group(2) else cm_.group(1)
        if cn in names and cn != name and cn not in calls:
            calls.append(cn)
    libjpeg = bool(re.search(r"\b(jpeg_\w+|jinit_\w+|j\d*init_\w+|jcopy_\w+|jtransform_\w+|setjmp)\s*\(", body)) or \
        bool(re.search(r"\(\s*\*\s*(cinfo|dinfo|src|dst)->", body))
    writes = sorted(set(m_.group(1) for m_ in re.finditer(r"\bthis->([\w.]+)\s*(?:=(?!=)|\+=)", body)
                        if m_.group(1) not in ("jerr.warning", "isInstanceError")))
    if re.search(r"\bprocessFlags\s*\(", body):
        writes.append("processFlags")
    api.append((name, src, uses_c, uses_d, tmp, handlers, bail, throws, calls, libjpeg, writes, erets))

# --------------------------------------------------------------------------- tj3Set table
hdr = strip_comments(rd("src/turbojpeg.h"))
em = re.search(r"enum\s+TJPARAM\s*\{(.*?)\}", hdr, re.S)
if not em:
    sys.exit("turbojpeg.h: enum TJPARAM not found")
penum = [x.strip().split("=")[0].strip() for x in em.group(1).split(",") if x.strip()]
setbody = [b for n, b, s in fns if n == "tj3Set"][0]
sm = re.search(r"switch\s*\(\s*param\s*\)\s*\{", setbody)
if not sm:
    sys.exit("tj3Set: switch (param) not found")
sw = setbody[sm.end() - 1:match_brace(setbody, sm.end() - 1)]
params = []
consts = {"TJ_NUMSAMP": None, "TJ_NUMCS": None}
for k in consts:
    m = re.search(r"#define\s+%s\s+(\d+)" % k, hdr)
    if not m:
        sys.exit("turbojpeg.h: %s not found" % k)
    consts[k] = int(m.group(1))
for m in re.finditer(r"case\s+(TJPARAM_\w+)\s*:(.*?)break\s*;", sw, re.S):
    pname, blk = m.group(1), m.group(2)
    if pname not in penum:
        sys.exit("tj3Set: case %s is not in enum TJPARAM" % pname)
    need = "NeedNone"
    if re.search(r"!\s*\(\s*this->init\s*&\s*COMPRESS\s*\)", blk):
        need = "NeedC"
    if re.search(r"!\s*\(\s*this->init\s*&\s*DECOMPRESS\s*\)", blk):
        need = "NeedD"
    sp = re.search(r"SET_PARAM\s*\(\s*([\w.]+)\s*,\s*([^,]+),\s*(.+?)\)\s*;", blk, re.S)
    sb = re.search(r"SET_BOOL_PARAM\s*\(\s*([\w.]+)\s*\)", blk)
    readonly = False
    field, lo, hi, isb = "", 0, 0, False
    if sb:
        field, lo, hi, isb = sb.group(1), 0, 1, True
    elif sp:
        field = sp.group(1)

        def cv(x):
            x = norm(x)
            for k, v in consts.items():
                x = re.sub(r"\b%s\b" % k, str(v), x)
            if re.match(r"^-?\d+( ?[-+] ?\d+)?$", x):
                return int(eval(x))
            if "LONG_MAX" in x or "INT_MAX" in x:
                return 2147483647 // 1 if "INT_MAX" in x and "min" in x else 2147483647
            sys.exit("tj3Set: cannot evaluate bound '%s' of %s" % (x, pname))
        lo, hi = cv(sp.group(2)), cv(sp.group(3))
        if "LONG_MAX" in sp.group(3):
            # min(LONG_MAX / 1048576L, (long)INT_MAX) on LP64
            hi = 2147483647
    else:
        readonly = True
    clears = ""
    cm = re.search(r"if\s*\(\s*value\s*!=\s*0\s*\)\s*this->(\w+)\s*=\s*0", blk)
    if cm:
        clears = cm.group(1)
    params.append((pname, penum.index(pname), field, lo, hi, isb, need, readonly, clears))
if len(params) != len(penum):
    sys.exit("tj3Set handles %d parameters, enum TJPARAM has %d" % (len(params), len(penum)))
if not re.search(r"#define SET_PARAM\(field, minValue, maxValue\)\s*\{\s*\\\s*if \(value < minValue \|\| \(maxValue > 0 && value > maxValue\)\)", rd("src/turbojpeg.c")):
    sys.exit("SET_PARAM macro no longer has the range check the model assumes")
# tj3Get must read the same fields
getbody = [b for n, b, s in fns if n == "tj3Get"][0]
for pname, pid, field, lo, hi, isb, need, ro, clears in params:
    gm = re.search(r"case\s+%s\s*:\s*return\s+this->([\w.]+)\s*;" % pname, getbody)
    if not gm:
        sys.exit("tj3Get: case %s not found" % pname)
    if field and gm.group(1) != field:
        sys.exit("tj3Get(%s) reads %s but tj3Set writes %s" % (pname, gm.group(1), field))
    if not field:
        params[params.index((pname, pid, field, lo, hi, isb, need, ro, clears))] = (pname, pid, gm.group(1), lo, hi, isb, need, ro, clears)

# --------------------------------------------------------------------------- field lists
def func_body(text, name):
    m = re.search(r"\n%s\s*\(" % re.escape(name), text)
    if not m:
        return None
    k = match_paren(text, text.find("(", m.start()))
    b0 = text.find("{", k)
    if b0 < 0 or text[k:b0].strip() not in ("",):
        # K&R style comment between? allow only whitespace
        if text[k:b0].strip():
            return None
    return text[b0 + 1:match_brace(text, b0) - 1]


def canon(expr):
    e = re.sub(r"\s+", "", expr)
    e = re.sub(r"\[[^\]]*\]", "", e)
    e = e.replace("marker->pub.", "marker->").replace("inputctl->pub.", "inputctl->").replace("master->pub.", "master->")
    e = re.sub(r"^\(\(j_decompress_ptr\)cinfo\)->", "", e)
    e = re.sub(r"^(cinfo|dinfo|dstinfo|this->cinfo\.|this->dinfo\.|this->cinfo|this->dinfo)(->|\.)?", "", e)
    return e


def assigned(body, roots=("cinfo", "dinfo", "dstinfo", "this->cinfo", "this->dinfo", "marker", "inputctl", r"\(\(j_decompress_ptr\)cinfo\)")):
    res = []
    body = re.sub(r"\(\s*\(\s*j_(de)?compress_ptr\s*\)\s*cinfo\s*\)", "cinfo", body)
    pat = r"(?<![\w>.])((?:%s)(?:->|\.)[\w.>\-\[\]+ ]*?)\s*(?:=(?!=)|\+=|\+\+)" % "|".join(roots)
    for m in re.finditer(pat, body):
        lhs = m.group(1)
        if "(" in lhs:
            continue
        f = canon(lhs)
        if f.startswith("marker->") or f.startswith("inputctl->") or not re.match(r"^(marker|inputctl)\b", f):
            pass
        if f and f not in res:
            res.append(f)
    # a = b = c chains: every "x =" before the last is caught by the regex as well
    return res


def closure(files, name, seen=None, special=None):
    seen = seen if seen is not None else set()
    if name in seen:
        return []
    seen.add(name)
    body = None
    for t in files:
        body = func_body(t, name)
        if body is not None:
            break
    if body is None:
        return []
    res = assigned(body)
    for k, v in (special or {}).items():
        if re.search(r"\b%s\s*\(" % k, body):
            for x in v:
                if x not in res:
                    res.append(x)
    for m in re.finditer(r"\b(\w+)\s*\(\s*(?:\(j_common_ptr\)\s*)?(?:cinfo|dstinfo)\b", body):
        for x in closure(files, m.group(1), seen, special):
            if x not in res:
                res.append(x)
    return res


jcparam = strip_comments(rd("src/jcparam.c"))
jstdhuff = strip_comments(rd("src/jstdhuff.c"))
jdmarker = strip_comments(rd("src/jdmarker.c"))
jdinput = strip_comments(rd("src/jdinput.c"))
jdapimin = strip_comments(rd("src/jdapimin.c"))
jcomapi = strip_comments(rd("src/jcomapi.c"))
jctrans = strip_comments(rd("src/jctrans.c"))
jdatadst = strip_comments(rd("src/jdatadst-tj.c"))
jdmaster = strip_comments(rd("src/jdmaster.c"))
jdapistd = strip_comments(rd("src/jdapistd.c"))
SPECIAL = {"jpeg_add_quant_table": ["quant_tbl_ptrs"], "add_huff_table": ["dc_huff_tbl_ptrs", "ac_huff_tbl_ptrs"], "SET_COMP": ["comp_info"]}
set_defaults = closure([preprocess(jcparam, dict(BASE_DEFS)), jstdhuff], "jpeg_set_defaults", special=SPECIAL)
if not set_defaults or "scan_info" not in " ".join(set_defaults) and False:
    sys.exit("jpeg_set_defaults not found in jcparam.c")
if not set_defaults:
    sys.exit("jpeg_set_defaults not found in jcparam.c")
rmr = assigned(func_body(jdmarker, "reset_marker_reader") or sys.exit("reset_marker_reader not found"))
ric_body = func_body(jdinput, "reset_input_controller") or sys.exit("reset_input_controller not found")
ric = assigned(ric_body)
ric_calls_rmr = bool(re.search(r"\(\s*\*\s*cinfo->marker->reset_marker_reader\s*\)\s*\(\s*cinfo\s*\)", ric_body))
ddp = assigned(preprocess(func_body(jdapimin, "default_decompress_parms") or sys.exit("default_decompress_parms not found"), dict(BASE_DEFS)))
soi = assigned(func_body(jdmarker, "get_soi") or sys.exit("get_soi not found"))
sof = assigned(func_body(jdmarker, "get_sof") or sys.exit("get_sof not found"))
ab_body = func_body(jcomapi, "jpeg_abort") or sys.exit("jpeg_abort not found")
ab = assigned(ab_body)
if not re.search(r"free_pool\s*\)\s*\(\s*cinfo\s*,\s*pool\s*\)", ab_body):
    sys.exit("jpeg_abort no longer releases the non-permanent pools")
rh_body = func_body(jdapimin, "jpeg_read_header") or sys.exit("jpeg_read_header not found")
eoi = re.search(r"case\s+JPEG_REACHED_EOI\s*:(.*?)break\s*;", rh_body, re.S)
if not eoi:
    sys.exit("jpeg_read_header: case JPEG_REACHED_EOI not found")
tables_only_aborts = bool(re.search(r"jpeg_abort\s*\(", eoi.group(1)))
if not tables_only_aborts and not re.search(r"global_state\s*=\s*DSTATE_START", eoi.group(1)):
    sys.exit("jpeg_read_header: the tables-only case neither aborts nor resets global_state")
ci_body = func_body(jdapimin, "jpeg_consume_input") or sys.exit("jpeg_consume_input not found")
if not re.search(r"case\s+DSTATE_START\s*:\s*\(\s*\*\s*cinfo->inputctl->reset_input_controller\s*\)\s*\(\s*cinfo\s*\)", ci_body):
    sys.exit("jpeg_consume_input: DSTATE_START no longer resets the input controller first")

tj_raw = preprocess(tj_c, dict(BASE_DEFS))
scd = func_body(tj_raw, "static void setCompDefaults") or func_body(tj_raw, "setCompDefaults")
if scd is None:
    m = re.search(r"static\s+void\s+setCompDefaults\s*\(", tj_raw)
    if not m:
        sys.exit("setCompDefaults not found")
    b0 = tj_raw.find("{", m.end())
    scd = tj_raw[b0 + 1:match_brace(tj_raw, b0) - 1]


def static_body(text, name):
    m = re.search(r"static\s+\w+\s+\*?%s\s*\(" % name, text)
    if not m:
        sys.exit("%s not found" % name)
    k = match_paren(text, text.find("(", m.start()))
    b0 = text.find("{", k)
    return text[b0 + 1:match_brace(text, b0) - 1]


scd = static_body(tj_raw, "setCompDefaults")
sdp = static_body(tj_raw, "setDecompParameters")
sdd = static_body(tj_raw, "setDecodeDefaults")
scd_pairs = []
scd_lossy_pairs = []
ll = re.search(r"if\s*\(\s*this->lossless\s*\)\s*\{", scd)
if not ll:
    sys.exit("setCompDefaults: if (this->lossless) block not found")
ll_end = match_brace(scd, ll.end() - 1)
if not re.search(r"return\s*;\s*\}\s*$", scd[ll.end():ll_end]):
    sys.exit("setCompDefaults: the lossless block no longer returns early")
for m in re.finditer(r"this->cinfo\.([\w>\-]+)\s*=\s*(?:\([\w ]+\)\s*)?this->(\w+)\b([^;]*);", scd):
    (scd_pairs if m.start() < ll.start() else scd_lossy_pairs).append((m.group(1), m.group(2)))
if not re.search(r"jpeg_set_defaults\s*\(\s*&this->cinfo\s*\)", scd):
    sys.exit("setCompDefaults no longer calls jpeg_set_defaults")
scd_pre = assigned(scd[:scd.index("jpeg_set_defaults")])
sdp_pairs = []
for m in re.finditer(r"this->(\w+)\s*=\s*this->dinfo\.([\w>\-.]+)\s*;", sdp):
    sdp_pairs.append((m.group(1), canon("dinfo->" + m.group(2))))
if re.search(r"switch\s*\(\s*this->dinfo\.jpeg_color_space\s*\)", sdp):
    sdp_pairs.append(("colorspace", "jpeg_color_space"))
sdp_pairs.append(("subsamp", "comp_info"))
dyp = [b for n, b, s in fns if n == "tj3DecodeYUVPlanes8"][0]
dy_assigned = assigned(dyp) + [x for x in assigned(sdd) if x not in assigned(dyp)]

# jpeg_compress_struct parameter members
jl = preprocess(strip_comments(rd("src/jpeglib.h")), dict(BASE_DEFS))
sm = re.search(r"struct\s+jpeg_compress_struct\s*\{", jl)
if not sm:
    sys.exit("jpeglib.h: struct jpeg_compress_struct not found")
sbody = jl[sm.end():match_brace(jl, sm.end() - 1) - 1]
members = []
for decl in sbody.split(";"):
    d = norm(decl)
    if not d or d == "jpeg_common_fields":
        continue
    for part in d.split(","):
        mm = re.search(r"(\w+)\s*(\[[^\]]*\])?\s*$", part.strip())
        if mm:
            members.append(mm.group(1))
if "image_width" not in members or "next_scanline" not in members:
    sys.exit("jpeglib.h: jpeg_compress_struct members image_width / next_scanline not found")
comp_params = members[members.index("image_width"):members.index("next_scanline")]

# --------------------------------------------------------------------------- presence / order facts
cc_body = func_body(jctrans, "jpeg_copy_critical_parameters") or sys.exit("jpeg_copy_critical_parameters not found")
i_def = cc_body.find("jpeg_set_defaults")
i_prec = re.search(r"dstinfo->data_precision\s*=", cc_body)
if i_def < 0 or not i_prec:
    sys.exit("jpeg_copy_critical_parameters: jpeg_set_defaults / data_precision assignment not found")
f11_fixed = i_prec.start() < i_def
sd_body = func_body(preprocess(jcparam, dict(BASE_DEFS)), "jpeg_set_defaults")
sd_reads_precision = bool(re.search(r"if\s*\(\s*cinfo->data_precision\s*==\s*12\s*\)", sd_body))

md_body = func_body(jdatadst, "jpeg_mem_dest_tj") or sys.exit("jpeg_mem_dest_tj not found")
reuse = re.search(r"if\s*\(\s*dest->buffer\s*==\s*\*outbuffer\s*&&\s*\*outbuffer\s*!=\s*NULL\s*&&\s*alloc\s*\)\s*reused\s*=\s*TRUE\s*;\s*(else\s+dest->newbuffer\s*=\s*NULL\s*;)?", md_body)
if not reuse:
    sys.exit("jpeg_mem_dest_tj: buffer-reuse test not found")
f2_fixed = bool(reuse.group(1))
eo_body = func_body(jdatadst, "empty_mem_output_buffer") or sys.exit("empty_mem_output_buffer not found")
if not re.search(r"free\s*\(\s*dest->newbuffer\s*\)", eo_body):
    sys.exit("empty_mem_output_buffer no longer frees dest->newbuffer")

hdr_body = [b for n, b, s in fns if n == "tj3DecompressHeader"][0]
icc = re.search(r"if\s*\(\s*jpeg_read_icc_profile\s*\(\s*dinfo\s*,\s*&iccPtr\s*,\s*&iccLen\s*\)\s*\)\s*\{(.*?)\}\s*(else\b)?", hdr_body, re.S)
if not icc:
    sys.exit("tj3DecompressHeader: jpeg_read_icc_profile block not found")
pre = hdr_body[:icc.start()]
f9_fixed = bool(icc.group(2)) or bool(re.search(r"this->tempICCBuf\s*=\s*NULL", pre)) or bool(re.search(r"this->tempICCSize\s*=\s*0", pre))

f10_fixed = bool(re.search(r"master->lossless\s*=\s*FALSE", dyp + sdd))
f12_fixed = bool(re.search(r"saw_Adobe_marker\s*=[^;]*FALSE", dyp + sdd)) and bool(re.search(r"saw_JFIF_marker\s*=[^;]*FALSE", dyp + sdd))
# F13: tj3DecodeYUVPlanes8 runs start_input_pass (entropy start_pass builds derived tables from whatever Huffman tables an
# earlier header left in the permanent slots) unless it replaces that method or selects the arithmetic decoder
f13_fixed = bool(re.search(r"inputctl->start_input_pass\s*=", dyp)) or bool(re.search(r"arith_code\s*=\s*TRUE", dyp + sdd)) or \
    bool(re.search(r"(dc|ac)_huff_tbl_ptrs\[[^\]]*\]\s*=", dyp + sdd))
ddp_body = preprocess(func_body(jdapimin, "default_decompress_parms"), dict(BASE_DEFS))
if not re.search(r"cinfo->saw_JFIF_marker", ddp_body) or not re.search(r"cinfo->saw_Adobe_marker", ddp_body):
    sys.exit("default_decompress_parms no longer derives the colour space from saw_JFIF_marker / saw_Adobe_marker")

ms_body = func_body(preprocess(jdmaster, dict(BASE_DEFS)), "master_selection") or sys.exit("master_selection not found")
rd_body = func_body(preprocess(jdapistd, dict(BASE_DEFS)), "read_and_discard_scanlines") or sys.exit("read_and_discard_scanlines not found")
reads_cc = bool(re.search(r"if\s*\(\s*cinfo->cconvert\s*&&\s*cinfo->cconvert->_?color_convert\s*\)", rd_body))
f5_fixed = (not reads_cc) or bool(re.search(r"cinfo->cconvert\s*=\s*NULL", ms_body + ab_body)) or \
    bool(re.search(r"using_merged_upsample", rd_body[:rd_body.find("cinfo->cconvert")] if "cinfo->cconvert" in rd_body else ""))
merged_no_cconvert = bool(re.search(r"if\s*\(\s*master->using_merged_upsample\s*\)\s*\{[^}]*jinit_merged_upsampler[^}]*\}\s*else\s*\{[^}]*jinit_color_deconverter", ms_body, re.S))
if not merged_no_cconvert:
    sys.exit("master_selection: merged-upsampling / colour-deconverter alternative not found")

# tj3Decompress: header re-read condition and order of calls (used by the model)
dec_body = [b for n, b, s in fns if n == "tj3Decompress8"][0]
if not re.search(r"if\s*\(\s*dinfo->global_state\s*<=\s*DSTATE_INHEADER\s*\)\s*\{\s*jpeg_mem_src_tj\s*\(\s*dinfo\s*,\s*jpegBuf\s*,\s*jpegSize\s*\)\s*;\s*jpeg_read_header\s*\(\s*dinfo\s*,\s*TRUE\s*\)", dec_body):
    sys.exit("tj3Decompress8: header (re)read under global_state <= DSTATE_INHEADER not found")
comp_body = [b for n, b, s in fns if n == "tj3Compress8"][0]
comp_defaults_before_dest = comp_body.find("setCompDefaults") < comp_body.find("jpeg_mem_dest_tj")


# memory manager bookkeeping: free_pool must subtract what it frees, for both object lists
jmemmgr = strip_comments(rd("src/jmemmgr.c"))
fp_body = func_body(jmemmgr, "free_pool") or sys.exit("jmemmgr.c: free_pool not found")
lm = re.search(r"lhdr_ptr\s*=\s*mem->large_list\[pool_id\]", fp_body)
sm_ = re.search(r"shdr_ptr\s*=\s*mem->small_list\[pool_id\]", fp_body)
if not lm or not sm_ or lm.start() > sm_.start():
    sys.exit("jmemmgr.c free_pool: large-list loop followed by small-list loop not found")
large_part, small_part = fp_body[lm.start():sm_.start()], fp_body[sm_.start():]
SUB = r"mem->total_space_allocated\s*-=\s*space_freed"
fp_sub_large = bool(re.search(r"jpeg_free_large\s*\([^;]*;\s*" + SUB, large_part))
fp_sub_small = bool(re.search(r"jpeg_free_small\s*\([^;]*;\s*" + SUB, small_part))
ADD = r"mem->total_space_allocated\s*\+="
as_body = func_body(jmemmgr, "alloc_small") or sys.exit("jmemmgr.c: alloc_small not found")
al_body = func_body(jmemmgr, "alloc_large") or sys.exit("jmemmgr.c: alloc_large not found")
if not re.search(ADD, as_body) or not re.search(ADD, al_body):
    sys.exit("jmemmgr.c: alloc_small / alloc_large no longer add to total_space_allocated")
rv_body = func_body(jmemmgr, "realize_virt_arrays") or sys.exit("jmemmgr.c: realize_virt_arrays not found")
if not re.search(r"jpeg_mem_available\s*\([^;]*mem->total_space_allocated\s*\)", rv_body):
    sys.exit("realize_virt_arrays no longer passes total_space_allocated to jpeg_mem_available")

# marker copying: which marker classes jcopy_markers_setup() makes the decompressor save for an option, and which
# classes jcopy_markers_execute() lets through for it (classes: COM, APP2, any other APPn)
transupp = preprocess(strip_comments(rd("src/transupp.c")), dict(BASE_DEFS))
tu_h = strip_comments(rd("src/transupp.h"))
em_ = re.search(r"typedef\s+enum\s*\{([^}]*)\}\s*JCOPY_OPTION", tu_h)
if not em_:
    sys.exit("transupp.h: JCOPY_OPTION not found")
copy_opts = [x.strip() for x in em_.group(1).split(",") if x.strip()]
if copy_opts != ["JCOPYOPT_NONE", "JCOPYOPT_COMMENTS", "JCOPYOPT_ALL", "JCOPYOPT_ALL_EXCEPT_ICC", "JCOPYOPT_ICC"]:
    sys.exit("transupp.h: JCOPY_OPTION enumerators changed: %s" % copy_opts)
su = func_body(transupp, "jcopy_markers_setup") or sys.exit("jcopy_markers_setup not found")
msu = re.search(r"if\s*\((?P<c1>[^{]*?)\)\s*\{\s*jpeg_save_markers\s*\(\s*srcinfo\s*,\s*JPEG_COM\s*,[^;]*;\s*\}\s*"
                r"if\s*\((?P<c2>[^{]*?)\)\s*\{\s*for\s*\(\s*m\s*=\s*0\s*;\s*m\s*<\s*16\s*;\s*m\+\+\s*\)\s*\{\s*"
                r"if\s*\((?P<c3>[^{;]*?)\)\s*continue\s*;\s*jpeg_save_markers\s*\(\s*srcinfo\s*,\s*JPEG_APP0\s*\+\s*m\s*,[^;]*;\s*\}\s*\}\s*"
                r"if\s*\((?P<c4>[^{]*?)\)\s*\{\s*jpeg_save_markers\s*\(\s*srcinfo\s*,\s*JPEG_APP0\s*\+\s*2\s*,", su)
if not msu:
    sys.exit("jcopy_markers_setup: expected statement shape not found")
ex = func_body(transupp, "jcopy_markers_execute") or sys.exit("jcopy_markers_execute not found")
mex = re.search(r"if\s*\(\s*option\s*==\s*JCOPYOPT_NONE\s*\)\s*continue\s*;(?P<rest>(\s*else\s+if\s*\(\s*option\s*==\s*\w+\s*\)\s*\{\s*"
                r"if\s*\([^{;]*\)\s*continue\s*;\s*\})+)", ex)
if not mex:
    sys.exit("jcopy_markers_execute: option filter chain not found")
chain = re.findall(r"else\s+if\s*\(\s*option\s*==\s*(\w+)\s*\)\s*\{\s*if\s*\(([^{;]*)\)\s*continue\s*;\s*\}", mex.group("rest"))


def cev(expr, env):
    e = expr
    for k, v in env.items():
        e = re.sub(r"\b%s\b" % re.escape(k), str(v), e)
    e = e.replace("marker->marker", str(env["__marker"]))
    e = e.replace("&&", " and ").replace("||", " or ")
    if re.search(r"[A-Za-z_]", e.replace("and", "").replace("or", "")):
        sys.exit("cannot evaluate C condition: " + expr)
    return bool(eval(e))


COM, APP0 = 0xFE, 0xE0
copy_rows = []
for ov, oname in enumerate(copy_opts):
    env = {n: i for i, n in enumerate(copy_opts)}
    env.update({"option": ov, "JPEG_COM": COM, "JPEG_APP0": APP0, "__marker": 0})
    saves_com = cev(msu.group("c1"), env)
    saves_app = []
    for m_ in range(16):
        env["m"] = m_
        sv = cev(msu.group("c2"), env) and not cev(msu.group("c3"), env)
        if m_ == 2 and cev(msu.group("c4"), env):
            sv = True
        saves_app.append(sv)
    env.pop("m", None)
    passes = {}
    for mk_, mv in (("com", COM), ("app2", APP0 + 2), ("app1", APP0 + 1)):
        env["__marker"] = mv
        ok = ov != 0
        for on, cond in chain:
            if env[on] == ov and cev(cond, env):
                ok = False
        passes[mk_] = ok
    others = [saves_app[i] for i in range(16) if i != 2]
    if any(others) != all(others):
        sys.exit("jcopy_markers_setup: APPn (n != 2) are not treated alike for option %s" % oname)
    copy_rows.append((ov, saves_com, saves_app[2], others[0], passes["com"], passes["app2"], passes["app1"]))

# processFlags: which parameter member every legacy flag lands in (order of the assignments)
pf_body = static_body(tj_raw, "processFlags")
pf_assign = []
for mm_ in re.finditer(r"this->([\w.]+)\s*=\s*([^;]*);", pf_body):
    fld_, rhs = mm_.group(1), norm(mm_.group(2))
    fm = re.findall(r"TJFLAG_(\w+)", rhs)
    pf_assign.append((fld_, fm[0] if fm else rhs))
want = [("bottomUp", "BOTTOMUP"), ("fastUpsample", "FASTUPSAMPLE"), ("noRealloc", "NOREALLOC"), ("fastDCT", "FALSE"), ("fastDCT", "TRUE"),
        ("fastDCT", "FASTDCT"), ("jerr.stopOnWarning", "STOPONWARNING"), ("progressive", "PROGRESSIVE"), ("scanLimit", "500")]
if pf_assign != want:
    sys.exit("processFlags: assignments changed: %s" % pf_assign)
if not re.search(r"if\s*\(\s*this->quality\s*>=\s*96\s*\|\|\s*flags\s*&\s*TJFLAG_ACCURATEDCT\s*\)\s*this->fastDCT\s*=\s*FALSE", pf_body) or \
        not re.search(r"if\s*\(\s*flags\s*&\s*TJFLAG_LIMITSCANS\s*\)\s*this->scanLimit\s*=\s*500", pf_body):
    sys.exit("processFlags: fastDCT / scanLimit conditions changed")

# cinfo members the TurboJPEG compression functions assign themselves before setCompDefaults() / jpeg_set_defaults()
pre_defaults = []
for fname_ in ("tj3Compress8", "tj3Compress12", "tj3Compress16", "tj3CompressFromYUVPlanes8", "tj3EncodeYUVPlanes8"):
    b_ = [b for n, b, s_ in fns if n == fname_][0]
    cut = b_.find("setCompDefaults")
    if cut < 0:
        sys.exit("%s no longer calls setCompDefaults" % fname_)
    sj = b_.find("setjmp")
    pre_defaults.append((fname_, [x for x in assigned(b_[sj if sj >= 0 else 0:cut], roots=("cinfo",)) if "->" not in x]))

# global_state values
jpegint = rd("src/jpegint.h")
gstates = []
for nm in ("CSTATE_START", "CSTATE_SCANNING", "CSTATE_RAW_OK", "CSTATE_WRCOEFS", "DSTATE_START", "DSTATE_INHEADER", "DSTATE_READY",
           "DSTATE_PRELOAD", "DSTATE_PRESCAN", "DSTATE_SCANNING", "DSTATE_RAW_OK", "DSTATE_BUFIMAGE", "DSTATE_BUFPOST", "DSTATE_RDCOEFS",
           "DSTATE_STOPPING"):
    m = re.search(r"#define\s+%s\s+(\d+)" % nm, jpegint)
    if not m:
        sys.exit("jpegint.h: %s not found" % nm)
    gstates.append((nm, int(m.group(1))))
# members of jpeg_compress_struct that some compressor source file reads
import glob
csrc = ""
for fn in sorted(glob.glob(repo + "/src/jc*.c") + [repo + "/src/jutils.c", repo + "/src/jfdct*.c"]):
    try:
        csrc += strip_comments(open(fn, errors="replace").read())
    except OSError:
        pass
comp_params_read = []
for mname in comp_params:
    for mm in re.finditer(r"(?:cinfo|dstinfo)->%s\b(\s*\[[^\]]*\])?\s*(=(?!=))?" % mname, csrc):
        if not mm.group(2):
            comp_params_read.append(mname)
            break


# --------------------------------------------------------------------------- output
def coq_list(xs):
    return "[" + "; ".join(xs) + "]"


def qs(x):
    return '"%s"' % x


print("(* GENERATED by tools/gen_ErrPaths.py from src/turbojpeg.c, turbojpeg-mp.c, jcparam.c, jstdhuff.c, jdmarker.c, jdinput.c,")
print("   jdapimin.c, jcomapi.c, jctrans.c, jdatadst-tj.c, jdmaster.c, jdapistd.c, jpeglib.h, turbojpeg.h -- do not edit *)")
print("From Coq Require Import List ZArith String.\nImport ListNotations.\nLocal Open Scope Z_scope.\nLocal Open Scope string_scope.\n")
print("""Inductive hcond := HAlways | HIfGtStartC | HIfGtStartD | HIfGtStartCOrErr | HIfGtStartCAndAlloc | HIfAlloc
  | HIfWarning | HIfRetNeg | HIfFile.
Inductive hstmt :=
  | HRetval (c : hcond) (v : Z) | HGotoBailout (c : hcond) | HReturn (c : hcond)
  | HAbortC (c : hcond) | HAbortD (c : hcond) | HTermDest (c : hcond)
  | HFree (c : hcond) (what : string) | HDestroyTmp (c : hcond) | HFclose (c : hcond) | HWarnRet
  | HRestoreMarkerMethods (c : hcond) | HRestoreStartInputPass (c : hcond)
  | HOther (c : hcond) (text : string).
Inductive eret := ERTailCall (callee : string) | ERTablesOnly | ERSetterFailed | EROther (text : string).
Record apifn := { fn_name : string; fn_file : string; fn_uses_c : bool; fn_uses_d : bool; fn_tmp_instance : bool;
                  fn_handlers : list (list hstmt); fn_bailout : option (list hstmt); fn_throws : Z;
                  fn_calls : list string;      (* other exported functions it calls *)
                  fn_libjpeg : bool;           (* calls libjpeg / installs a setjmp handler itself *)
                  fn_writes : list string;     (* tjinstance members it assigns itself (error bookkeeping aside) *)
                  fn_early_returns : list eret (* returns after the first state-advancing libjpeg call that bypass the bailout block *) }.
Inductive pneed := NeedNone | NeedC | NeedD.
Record tjparam := { p_name : string; p_id : Z; p_field : string; p_lo : Z; p_hi : Z; p_bool : bool; p_need : pneed;
                    p_readonly : bool; p_clears : string }.
""")
print("Definition api_functions : list apifn :=\n  [")
rows = []
for name, src, uc, ud, tmp, handlers, bail, throws, calls, libjpeg, writes, erets in api:
    hs = coq_list([coq_list(h) for h in handlers])
    bl = "None" if bail is None else "Some " + coq_list(bail)
    rows.append('   {| fn_name := %s; fn_file := %s; fn_uses_c := %s; fn_uses_d := %s; fn_tmp_instance := %s;\n      fn_handlers := %s;\n      fn_bailout := %s; fn_throws := %d;\n      fn_calls := %s; fn_libjpeg := %s; fn_writes := %s;\n      fn_early_returns := %s |}'
                % (qs(name), qs(src), str(uc).lower(), str(ud).lower(), str(tmp).lower(), hs, bl, throws,
                   coq_list([qs(c) for c in calls]), str(libjpeg).lower(), coq_list([qs(w) for w in writes]), coq_list(erets)))
print(";\n".join(rows))
print("  ].\n")
exported = []
for mm_ in re.finditer(r"\bDLLEXPORT\b[^;{(]*?\b(\w+)\s*\(", hdr):
    if mm_.group(1) not in exported and mm_.group(1) not in ("__declspec", "__attribute__", "defined"):
        exported.append(mm_.group(1))
if len(exported) < 60 or "tj3Compress8" not in exported:
    sys.exit("turbojpeg.h: DLLEXPORT declarations not found")
missing_def = [e for e in exported if e not in names]
if missing_def:
    sys.exit("turbojpeg.h declares functions without a definition in turbojpeg.c / turbojpeg-mp.c: %s" % missing_def)
print("(* every function turbojpeg.h exports *)\nDefinition exported_functions : list string :=\n  %s.\n" % coq_list([qs(e) for e in exported]))
print("Definition tj3set_table : list tjparam :=\n  [")
print(";\n".join('   {| p_name := %s; p_id := %d; p_field := %s; p_lo := %d; p_hi := %d; p_bool := %s; p_need := %s; p_readonly := %s; p_clears := %s |}'
                % (qs(n), i, qs(f), lo, hi, str(isb).lower(), need, str(ro).lower(), qs(cl)) for n, i, f, lo, hi, isb, need, ro, cl in params))
print("  ].\n")


def strs(name, xs, comment):
    print("(* %s *)\nDefinition %s : list string :=\n  %s.\n" % (comment, name, coq_list([qs(x) for x in xs])))


for nm, v in gstates:
    print("Definition %s : Z := %d." % (nm.lower(), v))
print("")
strs("comp_param_members_read", comp_params_read, "those parameter members that some compressor source file (jc*.c) reads")
strs("set_defaults_fields", set_defaults, "members assigned by jpeg_set_defaults and the functions it calls (jcparam.c, jstdhuff.c)")
strs("comp_param_members", comp_params, "parameter members of struct jpeg_compress_struct (image_width .. before next_scanline)")
strs("setcompdefaults_pre_fields", scd_pre, "members assigned by setCompDefaults before it calls jpeg_set_defaults")
strs("reset_marker_reader_fields", rmr, "members assigned by reset_marker_reader (jdmarker.c)")
strs("reset_input_controller_fields", ric, "members assigned by reset_input_controller itself (jdinput.c)")
print("Definition reset_input_controller_calls_reset_marker_reader : bool := %s.\n" % str(ric_calls_rmr).lower())
strs("default_decompress_parms_fields", ddp, "members assigned by default_decompress_parms (jdapimin.c)")
strs("get_soi_fields", soi, "members assigned by get_soi (jdmarker.c)")
strs("get_sof_fields", sof, "members assigned by get_sof (jdmarker.c)")
strs("jpeg_abort_fields", ab, "members assigned by jpeg_abort (jcomapi.c), after it released the non-permanent pools")
strs("decodeyuv_assigned_fields", dy_assigned, "members assigned by tj3DecodeYUVPlanes8 and setDecodeDefaults (they replace the header)")
print("(* setCompDefaults: cinfo member <- tjinstance parameter field *)\nDefinition setcompdefaults_pairs : list (string * string) :=\n  %s.\n"
      % coq_list(["(%s, %s)" % (qs(a), qs(b)) for a, b in scd_pairs]))
print("(* setCompDefaults, lossy part only (after the early return of the lossless block) *)\nDefinition setcompdefaults_lossy_pairs : list (string * string) :=\n  %s.\n"
      % coq_list(["(%s, %s)" % (qs(a), qs(b)) for a, b in scd_lossy_pairs]))
print("(* setDecompParameters: tjinstance parameter field <- dinfo member *)\nDefinition setdecompparameters_pairs : list (string * string) :=\n  %s.\n"
      % coq_list(["(%s, %s)" % (qs(a), qs(b)) for a, b in sdp_pairs]))
print("(* jpeg_set_defaults tests cinfo->data_precision == 12 (forces optimize_coding) *)")
print("Definition set_defaults_reads_data_precision : bool := %s." % str(sd_reads_precision).lower())
print("(* jpeg_copy_critical_parameters assigns dstinfo->data_precision BEFORE calling jpeg_set_defaults (F11 fixed) *)")
print("Definition copy_critical_sets_precision_first : bool := %s." % str(f11_fixed).lower())
print("(* jpeg_mem_dest_tj forgets dest->newbuffer unless the caller passes the same buffer back (F2 fixed) *)")
print("Definition dest_forgets_newbuffer : bool := %s." % str(f2_fixed).lower())
print("(* tj3DecompressHeader discards a previously extracted ICC profile when the new image has none (F9 fixed) *)")
print("Definition header_discards_old_icc : bool := %s." % str(f9_fixed).lower())
print("(* tj3DecodeYUVPlanes8 / setDecodeDefaults reset dinfo->master->lossless (F10 fixed) *)")
print("Definition decodeyuv_resets_lossless : bool := %s." % str(f10_fixed).lower())
print("(* tj3DecodeYUVPlanes8 / setDecodeDefaults reset saw_JFIF_marker and saw_Adobe_marker, from which default_decompress_parms derives the colour space (F12 fixed) *)")
print("Definition decodeyuv_resets_marker_flags : bool := %s." % str(f12_fixed).lower())
print("(* tj3DecodeYUVPlanes8 does not build derived Huffman tables from the permanent table slots (F13 fixed) *)")
print("Definition decodeyuv_ignores_huffman_slots : bool := %s." % str(f13_fixed).lower())
print("(* read_and_discard_scanlines cannot see a colour converter of an earlier image (F5 fixed) *)")
print("Definition skip_ignores_stale_cconvert : bool := %s." % str(f5_fixed).lower())
print("(* free_pool subtracts the size of every freed large / small pool block from total_space_allocated (the value")
print("   realize_virt_arrays compares with max_memory_to_use) *)")
print("Definition free_pool_subtracts_large : bool := %s." % str(fp_sub_large).lower())
print("Definition free_pool_subtracts_small : bool := %s." % str(fp_sub_small).lower())
print("(* jpeg_read_header: a tables-only datastream ends in jpeg_abort() (which also drops the saved markers) *)")
print("Definition read_header_tables_only_aborts : bool := %s." % str(tables_only_aborts).lower())
print("(* JCOPY_OPTION value -> (jcopy_markers_setup saves COM, APP2, other APPn ; jcopy_markers_execute passes COM, APP2, other APPn) *)")
print("Definition copy_option_table : list (Z * ((bool * bool * bool) * (bool * bool * bool))) :=\n  %s.\n" % coq_list(
    ["(%d, ((%s, %s, %s), (%s, %s, %s)))" % ((r[0],) + tuple(str(x).lower() for x in r[1:])) for r in copy_rows]))
print("(* processFlags(): parameter members assigned, in order (compression variant: fastDCT twice, by the quality test) *)")
print("Definition process_flags_fields : list string :=\n  %s.\n" % coq_list([qs(f) for f, _ in pf_assign if not (f == "fastDCT" and _ == "FASTDCT")]))
print("(* cinfo members each TurboJPEG compression function assigns itself before setCompDefaults() *)")
print("Definition tj_pre_defaults : list (string * list string) :=\n  %s.\n" % coq_list(
    ["(%s, %s)" % (qs(n), coq_list([qs(x) for x in fs])) for n, fs in pre_defaults]))
print("(* tj3Compress*: setCompDefaults is called before jpeg_mem_dest_tj *)")
print("Definition compress_defaults_before_dest : bool := %s." % str(comp_defaults_before_dest).lower())
