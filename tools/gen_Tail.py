#!/usr/bin/env python3
"""Translator (C11): the caller-side load/store sequences of the x86-64 SIMD colour
converters -> coq/gen/GenTail.v.

For RGB_PIXELSIZE 3 and 4 the nasm conditionals of
  simd/x86_64/jdcolext-{sse2,avx2}.asm, jdmrgext-{sse2,avx2}.asm   (stores through rdi)
  simd/x86_64/jccolext-{sse2,avx2}.asm, jcgryext-{sse2,avx2}.asm   (loads through rsi)
are resolved, the main column loop and the tail cascade are parsed into the small
programs interpreted by coq/model/Extent.v (st_kernel / ld_kernel).  The size of an
access is taken from the MNEMONIC AND REGISTER (XMMWORD/YMMWORD/XMM_MMWORD are blank
macros in jsimdext.inc), the constants SIZEOF_* from simd/nasm/jsimdext.inc.
Exits non-zero when a construct it relies on is gone."""
import re, sys

repo = sys.argv[1]


def die(msg):
    sys.exit("gen_Tail: " + msg)


# ---------------------------------------------------------------- constants
inc = open(repo + "/simd/nasm/jsimdext.inc").read()
CONST = {}
for m in re.finditer(r"^%define\s+(SIZEOF_[A-Z0-9]+)\s+([A-Z0-9_]+)\s*(?:;.*)?$", inc, re.M):
    CONST[m.group(1)] = m.group(2)


def resolve(name, depth=0):
    v = CONST.get(name)
    if v is None or depth > 8:
        die("constant %s not defined in jsimdext.inc" % name)
    return int(v) if v.isdigit() else resolve(v, depth + 1)


for q in ("XMMWORD", "YMMWORD", "XMM_DWORD", "XMM_MMWORD"):
    if not re.search(r"^%define\s+" + q + r"\s*(;.*)?$", inc, re.M):
        die("size qualifier %s is no longer a blank macro (access sizes would have to be re-read)" % q)


def ev(expr, ps):
    e = expr.strip()
    e = re.sub(r"^byte\s+", "", e)
    e = e.replace("RGB_PIXELSIZE", str(ps))
    e = re.sub(r"SIZEOF_[A-Z0-9]+", lambda m: str(resolve(m.group(0))), e)
    if not re.fullmatch(r"[0-9+\-*/() ]+", e):
        die("cannot evaluate expression '%s'" % expr)
    return int(eval(e.replace("/", "//")))


# ------------------------------------------------------------ preprocessing
def linear(path, ps):
    """instruction stream of the FIRST global function with the %if RGB_PIXELSIZE
    conditionals resolved; items are ('label', name) or ('ins', mnemonic, operands)"""
    out = []
    stack = []   # booleans: is this branch active
    started = False
    for raw in open(path):
        line = raw.split(";")[0].rstrip()
        s = line.strip()
        if not s:
            continue
        if s.startswith("GLOBAL_FUNCTION"):
            if started:
                break
            started = True
            continue
        if not started:
            continue
        if s.startswith("%if"):
            if re.match(r"%if\s+RGB_PIXELSIZE\s*==\s*3", s):
                stack.append(ps == 3)
            elif re.match(r"%ifdef\s+RGBX_FILLER_0XFF", s):
                stack.append(True)
            else:
                die("%s: unexpected conditional '%s'" % (path, s))
            continue
        if s.startswith("%else"):
            stack[-1] = not stack[-1]
            continue
        if s.startswith("%endif"):
            stack.pop()
            continue
        if s.startswith("%"):
            continue
        if not all(stack):
            continue
        m = re.match(r"^(\.[A-Za-z0-9_]+):\s*(.*)$", s)
        if m:
            out.append(("label", m.group(1)))
            s = m.group(2).strip()
            if not s:
                continue
        parts = s.split(None, 1)
        ops = [o.strip() for o in parts[1].split(",")] if len(parts) > 1 else []
        out.append(("ins", parts[0], ops))
    return out


VEC = ("movdqu", "movdqa", "movntdq", "vmovdqu", "vmovdqa", "vmovntdq")


def access_size(mn, ops, memidx):
    reg = ops[1 - memidx]
    mem = ops[memidx]
    if mn in VEC:
        if reg.startswith("ymm"):
            return 32
        if reg.startswith("xmm"):
            return 16
        die("vector move with unknown register '%s'" % reg)
    if mn in ("movq", "vmovq"):
        return 8
    if mn in ("movd", "vmovd"):
        return 4
    if mn in ("mov", "movzx"):
        if re.match(r"byte\b", mem):
            return 1
        if re.match(r"word\b", mem):
            return 2
    die("memory access of unknown size: %s %s" % (mn, ", ".join(ops)))


def mem_of(op):
    m = re.search(r"\[([^\]]+)\]", op)
    return m.group(1).replace(" ", "") if m else None


def find(stream, pred, start=0):
    for i in range(start, len(stream)):
        if pred(stream[i]):
            return i
    return -1


def is_label(it, name=None):
    return it[0] == "label" and (name is None or it[1] == name)


def is_ins(it, mn=None):
    return it[0] == "ins" and (mn is None or it[1] == mn)


# -------------------------------------------------------------- store side
def parse_store_kernel(path, ps):
    st = linear(path, ps)
    i0 = find(st, lambda it: is_label(it, ".columnloop"))
    if i0 < 0:
        die(path + ": .columnloop not found")
    # main loop test: cmp rcx, V / jb .column_stX
    i = find(st, lambda it: is_ins(it, "cmp") and it[2][0] == "rcx", i0)
    if i < 0 or not (is_ins(st[i + 1], "jb")):
        die(path + ": 'cmp rcx, V / jb tail' of the column loop not found")
    V = ev(st[i][2][1], ps)
    tail_label = st[i + 1][2][0].split()[-1]
    iout0 = find(st, lambda it: is_label(it, ".out0"), i)
    itail = find(st, lambda it: is_label(it, tail_label), i)
    if iout0 < 0 or itail < 0 or iout0 > itail:
        die(path + ": .out0 / tail label layout changed")
    # full stores: aligned block then .out1 unaligned block, must be identical
    blocks = [[], []]
    b = 0
    for it in st[i + 2:iout0]:
        if is_label(it, ".out1"):
            b = 1
        elif is_ins(it) and it[2] and mem_of(it[2][0]) and mem_of(it[2][0]).startswith("rdi"):
            mem = mem_of(it[2][0])
            off = ev(mem[3:] or "0", ps) if mem != "rdi" else 0
            blocks[b].append((off, access_size(it[1], it[2], 0)))
        elif is_ins(it) and it[1] not in ("test", "jnz", "jmp"):
            die(path + ": unexpected instruction in the full-store block: " + it[1])
    if blocks[0] != blocks[1] or not blocks[0]:
        die(path + ": aligned and unaligned full-store sequences differ")
    full = blocks[0]
    # after .out0: add rdi, ps*V ; sub rcx, V ; jz end
    seq = [it for it in st[iout0 + 1:iout0 + 4]]
    if not (is_ins(seq[0], "add") and seq[0][2][0] == "rdi" and ev(seq[0][2][1], ps) == ps * V
            and is_ins(seq[1], "sub") and seq[1][2][0] == "rcx" and ev(seq[1][2][1], ps) == V
            and is_ins(seq[2], "jz")):
        die(path + ": 'add rdi, ps*V / sub rcx, V / jz' after .out0 changed")
    end_label = seq[2][2][0].split()[-1]
    iend = find(st, lambda it: is_label(it, end_label), itail)
    if iend < 0:
        die(path + ": end label %s not found after the tail" % end_label)
    # tail blocks
    blocks = []
    cur = None
    for it in st[itail:iend]:
        if it[0] == "label":
            cur = {"label": it[1], "ins": []}
            blocks.append(cur)
        else:
            cur["ins"].append(it)
    labels = [b["label"] for b in blocks]
    mult = 1
    steps = []
    for bi, b in enumerate(blocks):
        thr = None
        acc = []
        adv = dec = None
        skip = 0
        ins = b["ins"]
        k = 0
        while k < len(ins):
            mn, ops = ins[k][1], ins[k][2]
            if mn == "lea" and ops[0] == "rcx":
                if ops[1].replace(" ", "") != "[rcx+rcx*2]" or bi != 0 or thr is not None:
                    die(path + ": unexpected lea on rcx")
                mult = 3
            elif mn == "cmp" and ops[0] == "rcx":
                thr = ev(ops[1], ps)
                nxt = ins[k + 1]
                if nxt[1] != "jb" or bi + 1 >= len(labels) or nxt[2][0].split()[-1] != labels[bi + 1]:
                    die(path + ": %s: 'jb' does not target the next block" % b["label"])
                k += 1
            elif mn == "test" and ops == ["rcx", "rcx"]:
                thr = 1
                nxt = ins[k + 1]
                if nxt[1] != "jz" or nxt[2][0].split()[-1] != end_label or bi != len(blocks) - 1:
                    die(path + ": %s: 'test rcx,rcx / jz end' is not the last block" % b["label"])
                k += 1
            elif ops and mem_of(ops[0]) is not None:
                mem = mem_of(ops[0])
                if not mem.startswith("rdi"):
                    die(path + ": store through a register other than rdi in the tail: " + mem)
                if thr is None:
                    die(path + ": %s: store before the guard" % b["label"])
                off = 0 if mem == "rdi" else ev(mem[3:], ps)
                acc.append((off, access_size(mn, ops, 0)))
            elif len(ops) > 1 and mem_of(ops[1]) is not None and "rel" not in ops[1]:
                die(path + ": unexpected memory read in the tail: " + ops[1])
            elif mn == "add" and ops[0] == "rdi":
                adv = ev(ops[1], ps)
            elif mn == "sub" and ops[0] == "rcx":
                dec = ev(ops[1], ps)
            elif mn == "jmp":
                tgt = ops[0].split()[-1]
                if tgt not in labels or labels.index(tgt) <= bi:
                    die(path + ": %s: jmp target %s is not a later tail block" % (b["label"], tgt))
                skip = labels.index(tgt) - (bi + 1)
            elif ops and ops[0] in ("rdi", "rcx", "edi", "ecx", "cl"):
                die(path + ": %s: unrecognised instruction writing %s: %s" % (b["label"], ops[0], mn))
            k += 1
        if thr is None or not acc:
            die(path + ": %s: block without guard or without store" % b["label"])
        if bi == len(blocks) - 1:
            # final block: no pointer update follows; normalise
            adv = sum(l for _, l in acc) if adv is None else adv
            dec = thr if dec is None else dec
        if adv is None or dec is None:
            die(path + ": %s: missing 'add rdi' or 'sub rcx'" % b["label"])
        steps.append((thr, acc, adv, dec, skip))
    return (V, ps, mult, full, steps)


# --------------------------------------------------------------- load side
def parse_load_kernel(path, ps):
    st = linear(path, ps)
    i0 = find(st, lambda it: is_label(it, ".rowloop"))
    i = find(st, lambda it: is_ins(it, "cmp") and it[2][0] == "rcx", i0)
    if i0 < 0 or i < 0 or not is_ins(st[i + 1], "jae") or st[i + 1][2][0].split()[-1] != ".columnloop":
        die(path + ": 'cmp rcx, V / jae .columnloop' not found")
    V = ev(st[i][2][1], ps)
    ild = i + 2
    if not is_label(st[ild], ".column_ld1"):
        die(path + ": .column_ld1 does not follow the loop test")
    icl = find(st, lambda it: is_label(it, ".columnloop"), ild)
    icnv = find(st, lambda it: it[0] == "label" and it[1].endswith("_cnv"), icl)
    if icl < 0 or icnv < 0:
        die(path + ": .columnloop / conversion label not found")
    cnv = st[icnv][1]
    full = []
    for it in st[icl + 1:icnv]:
        mem = mem_of(it[2][1]) if len(it[2]) > 1 else None
        if mem is None or not mem.startswith("rsi"):
            die(path + ": unexpected instruction in .columnloop load block")
        full.append((0 if mem == "rsi" else ev(mem[3:], ps), access_size(it[1], it[2], 1)))
    # loop control at the end
    j = find(st, lambda it: is_ins(it, "jnz") and it[2][0].split()[-1] == ".column_ld1", icnv)
    if j < 0:
        die(path + ": 'jnz .column_ld1' not found")
    ctl = st[j - 6:j + 1]
    txt = " | ".join("%s %s" % (c[1], ",".join(c[2])) if c[0] == "ins" else c[1] for c in ctl)
    isub = find(st, lambda it: is_ins(it, "sub") and it[2][0] == "rcx", icnv)
    iadd = find(st, lambda it: is_ins(it, "add") and it[2][0] == "rsi", icnv)
    if isub < 0 or iadd < 0 or ev(st[isub][2][1], ps) != V or ev(st[iadd][2][1], ps) != ps * V:
        die(path + ": 'sub rcx, V / add rsi, ps*V' changed: " + txt)
    if not (is_ins(st[j - 1], "test") and st[j - 1][2] == ["rcx", "rcx"] and is_ins(st[j - 2], "jae")
            and is_ins(st[j - 3], "cmp") and st[j - 3][2][0] == "rcx" and ev(st[j - 3][2][1], ps) == V):
        die(path + ": loop control 'cmp rcx,V / jae / test rcx,rcx / jnz' changed: " + txt)
    # cascade blocks
    blocks = []
    cur = None
    for it in st[ild:icl]:
        if it[0] == "label":
            cur = {"label": it[1], "ins": []}
            blocks.append(cur)
        else:
            cur["ins"].append(it)
    labels = [b["label"] for b in blocks]
    mult, scale = 1, None
    steps = []
    for bi, b in enumerate(blocks):
        bit = None
        dec = 0
        acc = []
        ex = False
        for k, it in enumerate(b["ins"]):
            mn, ops = it[1], it[2]
            if mn == "lea" and ops[0] == "rcx":
                if ops[1].replace(" ", "") != "[rcx+rcx*2]" or bi != 0 or bit is not None:
                    die(path + ": unexpected lea on rcx")
                mult = 3
            elif mn == "test" and ops[0] == "cl":
                if bit is not None:
                    die(path + ": two tests in " + b["label"])
                bit = ev(ops[1], ps)
            elif mn == "jz":
                tgt = ops[0].split()[-1]
                want = labels[bi + 1] if bi + 1 < len(labels) else cnv
                if tgt != want or bit is None or acc:
                    die(path + ": %s: jz does not skip exactly this block" % b["label"])
            elif mn == "sub" and ops[0] == "rcx":
                if acc:
                    die(path + ": %s: sub after a load" % b["label"])
                dec = ev(ops[1], ps)
            elif mn == "mov" and ops[0] == "rcx":
                # reload of the column counter for the conversion: only after the last use
                rest = b["ins"][k + 1:]
                if any(mem_of(o) and "rcx" in mem_of(o) for r in rest for o in r[2]) or \
                   any(r[1] == "sub" and r[2][0] == "rcx" for r in rest) or \
                   (bi + 1 < len(labels) and not any(r[1] == "jmp" for r in rest)):
                    die(path + ": %s: counter reloaded before its last use" % b["label"])
            elif mn == "jmp":
                if ops[0].split()[-1] != cnv:
                    die(path + ": %s: jmp to %s" % (b["label"], ops[0]))
                ex = True
            elif len(ops) > 1 and mem_of(ops[1]) is not None:
                mem = mem_of(ops[1])
                if not mem.startswith("rsi"):
                    die(path + ": load through a register other than rsi: " + mem)
                size = access_size(mn, ops, 1)
                if mem == "rsi+rcx":
                    acc.append((True, 0, size)); sc = 1
                elif mem == "rsi+rcx*RGB_PIXELSIZE":
                    acc.append((True, 0, size)); sc = ps
                elif "rcx" in mem:
                    die(path + ": unrecognised addressing " + mem)
                else:
                    acc.append((False, 0 if mem == "rsi" else ev(mem[3:], ps), size)); sc = None
                if sc is not None:
                    if scale not in (None, sc):
                        die(path + ": mixed index scales")
                    scale = sc
            elif ops and mem_of(ops[0]) is not None:
                die(path + ": memory write in the load cascade: " + ops[0])
            elif ops and ops[0] in ("rsi", "rcx", "ecx", "cl", "esi"):
                die(path + ": %s: unrecognised instruction writing %s: %s" % (b["label"], ops[0], mn))
        if bit is None or not acc:
            die(path + ": %s: block without test or load" % b["label"])
        if bi == len(blocks) - 1:
            ex = True      # falls through / jumps into the conversion
        steps.append((bit, dec, acc, ex))
    return (V, ps, mult, scale or 1, full, steps)


# ------------------------------------------------------------------ output
def zl(pairs):
    return "[" + "; ".join("(%d,%d)" % p for p in pairs) + "]"


out = ["(* GENERATED by tools/gen_Tail.py from simd/x86_64/j{d,c}colext-*.asm, jdmrgext-*.asm, jcgryext-*.asm",
       "   and simd/nasm/jsimdext.inc -- do not edit *)",
       "From Coq Require Import List ZArith Bool.", "From LJT Require Import model.Extent.",
       "Import ListNotations.", "Local Open Scope Z_scope.", ""]
out.append("Definition sizeof_xmmword : Z := %d." % resolve("SIZEOF_XMMWORD"))
out.append("Definition sizeof_ymmword : Z := %d." % resolve("SIZEOF_YMMWORD"))
st_names, ld_names = [], []
for base in ("jdcolext", "jdmrgext"):
    for isa in ("sse2", "avx2"):
        for ps in (3, 4):
            V, ps_, mult, full, steps = parse_store_kernel("%s/simd/x86_64/%s-%s.asm" % (repo, base, isa), ps)
            name = "%s_%s_st%d" % (base, isa, ps)
            st_names.append(name)
            out.append("Definition %s : st_kernel := mkStK %d %d %d %s\n  [ %s ]." % (
                name, V, ps_, mult, zl(full),
                ";\n    ".join("mkSt %d %s %d %d %d" % (t, zl(a), adv, dec, sk) for t, a, adv, dec, sk in steps)))
for base in ("jccolext", "jcgryext"):
    for isa in ("sse2", "avx2"):
        for ps in (3, 4):
            V, ps_, mult, scale, full, steps = parse_load_kernel("%s/simd/x86_64/%s-%s.asm" % (repo, base, isa), ps)
            name = "%s_%s_ld%d" % (base, isa, ps)
            ld_names.append(name)
            out.append("Definition %s : ld_kernel := mkLdK %d %d %d %d %s\n  [ %s ]." % (
                name, V, ps_, mult, scale, zl(full),
                ";\n    ".join("mkLd %d %d [%s] %s" % (
                    b, d, "; ".join("(%s,%d,%d)" % ("true" if r else "false", o, l) for r, o, l in a),
                    "true" if e else "false") for b, d, a, e in steps)))
out.append("Definition gen_st_kernels : list st_kernel := [%s]." % "; ".join(st_names))
out.append("Definition gen_ld_kernels : list ld_kernel := [%s]." % "; ".join(ld_names))
print("\n".join(out))
