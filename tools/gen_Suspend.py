#!/usr/bin/env python3
"""Translator for C09: reads the suspension discipline out of the CURRENT source text and prints
coq/gen/GenSuspend.v.  Every fact is a statement-ORDER fact of one C function (the model has the same
order built in: state that is not a plain re-assignable value is committed only after the last read
that can suspend / after the last byte of the MCU).  Exits non-zero when a construct is not found."""
import re, sys, os

repo = sys.argv[1]


def die(msg):
    sys.stderr.write("gen_Suspend: " + msg + "\n")
    sys.exit(2)


def src(name):
    p = os.path.join(repo, "src", name)
    if not os.path.exists(p):
        die("missing " + p)
    return open(p, errors="replace").read()


def body(text, header_re, fname):
    m = re.search(header_re, text)
    if not m:
        die("function %s not found" % fname)
    start = text.index("{", m.end())
    end = text.find("\n}\n", start)
    if end < 0:
        die("end of %s not found" % fname)
    # strip comments
    b = re.sub(r"/\*.*?\*/", "", text[start:end], flags=re.S)
    return b


def pos(b, needle, fname, last=False):
    i = b.rfind(needle) if last else b.find(needle)
    if i < 0:
        die("`%s` not found in %s" % (needle, fname))
    return i


def last_read(b):
    return max(b.rfind("INPUT_BYTE("), b.rfind("INPUT_2BYTES("))


jdmarker = src("jdmarker.c")
facts = {}

b = body(jdmarker, r"\nget_sos\s*\(j_decompress_ptr cinfo\)", "get_sos")
facts["sos_commit_after_last_read"] = (pos(b, "cinfo->input_scan_number++", "get_sos") > last_read(b) and
                                        pos(b, "next_restart_num = 0", "get_sos") > last_read(b) and
                                        b.count("cinfo->input_scan_number++") == 1 and
                                        pos(b, "INPUT_SYNC(cinfo)", "get_sos") > pos(b, "cinfo->input_scan_number++", "get_sos"))

b = body(jdmarker, r"\nget_sof\s*\(j_decompress_ptr cinfo", "get_sof")
facts["sof_commit_after_last_read"] = pos(b, "cinfo->marker->saw_SOF = TRUE", "get_sof") > last_read(b)

b = body(jdmarker, r"\nget_dri\s*\(j_decompress_ptr cinfo\)", "get_dri")
facts["dri_sync_last"] = pos(b, "INPUT_SYNC(cinfo)", "get_dri") > last_read(b)

b = body(jdmarker, r"\nsave_marker\s*\(j_decompress_ptr cinfo\)", "save_marker")
w = pos(b, "while (bytes_read < data_length) {", "save_marker")
loop = b[w:]
i_sync = pos(loop, "INPUT_SYNC(cinfo)", "save_marker loop")
i_rec = pos(loop, "marker->bytes_read = bytes_read", "save_marker loop") if "marker->bytes_read = bytes_read" in loop else -1
i_avail = pos(loop, "MAKE_BYTE_AVAIL(cinfo, return FALSE)", "save_marker loop")
facts["save_marker_records_progress"] = (0 <= i_sync < i_avail and 0 <= i_rec < i_avail)

b = body(jdmarker, r"\nnext_marker\s*\(j_decompress_ptr cinfo\)", "next_marker")
facts["next_marker_syncs_each_discard"] = bool(re.search(r"discarded_bytes\+\+;\s*INPUT_SYNC\(cinfo\);", b)) and \
    bool(re.search(r"discarded_bytes \+= 2;\s*INPUT_SYNC\(cinfo\);", b))

jdhuff = src("jdhuff.c")
b = body(jdhuff, r"\ndecode_mcu_slow\s*\(j_decompress_ptr cinfo", "decode_mcu_slow")
loop_end = pos(b, "BITREAD_SAVE_STATE(cinfo, entropy->bitstate)", "decode_mcu_slow")
before = b[:loop_end]
facts["huff_state_committed_at_mcu_end"] = (pos(b, "entropy->saved = state", "decode_mcu_slow") > loop_end and
                                            not re.search(r"entropy->saved\s*(\.\w+(\[[^\]]*\])?)?\s*=[^=]", before.replace("state = entropy->saved", "")) and
                                            not re.search(r"entropy->bitstate\.\w+\s*=[^=]", before) and
                                            b.count("return FALSE") >= 1 and "return FALSE" not in b[loop_end:])

jchuff = src("jchuff.c")
b = body(jchuff, r"\nencode_mcu_huff\s*\(j_compress_ptr cinfo", "encode_mcu_huff")
commit = min(pos(b, "entropy->saved = state.cur", "encode_mcu_huff"),
             pos(b, "cinfo->dest->next_output_byte = state.next_output_byte", "encode_mcu_huff"))
before = b[:commit]
facts["enc_state_committed_at_mcu_end"] = ("return FALSE" not in b[commit:] and
                                           not re.search(r"entropy->(restarts_to_go|next_restart_num)\s*(=[^=]|\+\+|--)", before) and
                                           not re.search(r"cinfo->dest->(next_output_byte|free_in_buffer)\s*=[^=]", before[before.find("state.cinfo"):]))

jdmaster = src("jdmaster.c")
b = body(jdmaster, r"\nprepare_for_output_pass\s*\(j_decompress_ptr cinfo\)", "prepare_for_output_pass")
i = pos(b, "(*cinfo->idct->start_pass) (cinfo);", "prepare_for_output_pass")
guard = re.search(r"if\s*\(\s*!\s*cinfo->master->lossless\s*\)\s*$", b[:i].rstrip()) is not None
facts["output_pass_resets_lossless"] = not guard

jdinput = src("jdinput.c")
b = body(jdinput, r"\nlatch_quant_tables\s*\(j_decompress_ptr cinfo\)", "latch_quant_tables")
pos(b, "compptr->quant_table = qtbl", "latch_quant_tables")
by_copy = (re.search(r"qtbl\s*=\s*\(JQUANT_TBL \*\)\s*\(\*cinfo->mem->alloc_small\)", b) is not None and
           re.search(r"memcpy\(qtbl,\s*cinfo->quant_tbl_ptrs\[qtblno\],\s*sizeof\(JQUANT_TBL\)\)", b) is not None and
           re.search(r"qtbl\s*=\s*cinfo->quant_tbl_ptrs", b) is None)
facts["latch_once_per_component"] = re.search(r"if \(compptr->quant_table != NULL\)\s*continue;", b) is not None
jddctmgr = src("jddctmgr.c")
b = body(jddctmgr, r"\nstart_pass\s*\(j_decompress_ptr cinfo\)", "jddctmgr start_pass")
facts["dct_table_built_once"] = (re.search(r"idct->cur_method\[ci\] == method\)\s*continue;", b) is not None and
                                 re.search(r"qtbl = compptr->quant_table;\s*if \(qtbl == NULL\)\s*continue;", b) is not None)

def rows_ahead(text, fname, header_re, helper_file):
    """look-ahead of the 'force some input' loop of an output routine: the output of iMCU row r waits until
    input_iMCU_row >= r + ahead (same scan)."""
    b = body(text, header_re, fname)
    if re.search(r"cinfo->input_iMCU_row\s*<=\s*cinfo->output_iMCU_row\s*\)", b) and "consume_input" in b:
        return 1
    m = re.search(r"sync_input\s*\(\s*cinfo\s*,\s*(\d+)\s*\)", b)
    if m:
        hb = body(helper_file, r"\nsync_input\s*\(j_decompress_ptr cinfo", "sync_input")
        if not re.search(r"cinfo->input_iMCU_row\s*>=\s*cinfo->output_iMCU_row\s*\+\s*rows_ahead", hb):
            die("sync_input: look-ahead condition not recognised")
        return int(m.group(1))
    die("force-input loop of %s not recognised" % fname)


jdcoefct = src("jdcoefct.c")
jddiffct = src("jddiffct.c")
ahead = min(rows_ahead(jdcoefct, "decompress_data", r"\ndecompress_data\s*\(j_decompress_ptr cinfo", jdcoefct),
            rows_ahead(jddiffct, "output_data", r"\noutput_data\s*\(j_decompress_ptr cinfo", jddiffct))

# ---- lossless restart handling (jddiffct.c)
b = body(jddiffct, r"\ndecompress_data\s*\(j_decompress_ptr cinfo", "jddiffct decompress_data")
m = re.search(r"if \(!process_restart\(cinfo, yoffset\)\)\s*\{(.*?)\}", b, flags=re.S)
if not m:
    die("jddiffct.c decompress_data: `if (!process_restart(cinfo, yoffset)) {` not found")
facts["lossless_restart_resumes_at_row"] = (re.search(r"diff->MCU_vert_offset\s*=\s*yoffset;", m.group(1)) is not None and
                                            "return JPEG_SUSPENDED" in m.group(1))
pb = body(jddiffct, r"\nprocess_restart\s*\(j_decompress_ptr cinfo, unsigned int yoffset\)", "jddiffct process_restart")
i_ent = pos(pb, "(*cinfo->entropy->process_restart) (cinfo)", "jddiffct process_restart")
i_mask = pos(pb, "diff->restart_pending |= 1U << yoffset", "jddiffct process_restart")
facts["lossless_pending_mask"] = (i_ent < i_mask and "(*cinfo->idct->start_pass)" not in pb and
                                  re.search(r"if \(diff->restart_pending & 1\)\s*\(\*cinfo->idct->start_pass\) \(cinfo\);", b) is not None and
                                  re.search(r"if \(row > 0 && \(diff->restart_pending & \(1U << row\)\)\)\s*\(\*cinfo->idct->start_pass\) \(cinfo\);", b) is not None and
                                  pos(b, "diff->restart_pending = 0;", "decompress_data", last=True) > pos(b, "predict_undifference", "decompress_data"))

# ---- compression coefficient controller: mcu_ctr reset after every MCU row (jccoefct.c compress_data)
jccoefct = src("jccoefct.c")
b = body(jccoefct, r"\ncompress_data\s*\(j_compress_ptr cinfo", "jccoefct compress_data")
pos(b, "coef->mcu_ctr = MCU_col_num;", "compress_data")
pos(b, "coef->MCU_vert_offset = yoffset;", "compress_data")
coef_reset = re.search(r"return FALSE;\s*\}\s*\}\s*coef->mcu_ctr = 0;\s*\}", b) is not None

# ---- constants the models use
jdhuffh = src("jdhuff.h")
m = re.search(r"#if SIZEOF_SIZE_T == 8[^\n]*\n\s*typedef size_t bit_buf_type;[^\n]*\n#define BIT_BUF_SIZE\s+(\d+)", jdhuffh)
if not m:
    die("jdhuff.h: BIT_BUF_SIZE for 64-bit size_t not found")
bit_buf_size = int(m.group(1))
m = re.search(r"#define HUFF_LOOKAHEAD\s+(\d+)", jdhuffh)
if not m:
    die("jdhuff.h: HUFF_LOOKAHEAD not found")
huff_lookahead = int(m.group(1))
m = re.search(r"#else\s*\n#define MIN_GET_BITS\s+\(BIT_BUF_SIZE - (\d+)\)", jdhuff)
if not m:
    die("jdhuff.c: MIN_GET_BITS (BIT_BUF_SIZE - k) not found")
min_get_bits = bit_buf_size - int(m.group(1))
def bufsize(text, fname):
    m = re.search(r"#define BUFSIZE\s+\(DCTSIZE2 \* (\d+)\)", text)
    if not m:
        die(fname + ": BUFSIZE (DCTSIZE2 * k) not found")
    return 64 * int(m.group(1))
dec_bufsize = bufsize(jdhuff, "jdhuff.c")
enc_bufsize = bufsize(jchuff, "jchuff.c")
b = body(jdhuff, r"\ndecode_mcu\s*\(j_decompress_ptr cinfo", "decode_mcu")
if not re.search(r"cinfo->src->bytes_in_buffer < BUFSIZE \* \(size_t\)cinfo->blocks_in_MCU \|\|\s*cinfo->unread_marker != 0\)\s*usefast = 0;", b):
    die("decode_mcu: fast-path threshold test not recognised")
if not re.search(r"if \(cinfo->restart_interval\) \{[^}]*\}\s*usefast = 0;", b, flags=re.S) and "usefast = 0" not in b:
    die("decode_mcu: restart interval does not disable the fast path")
m = re.search(r"FILL_BIT_BUFFER_FAST \\\s*\n\s*if \(bits_left <= (\d+)\) \{ \\\s*\n\s*((?:GET_BYTE ?)+)", jdhuff)
if not m:
    die("jdhuff.c: FILL_BIT_BUFFER_FAST (64-bit) not recognised")
fast_fill_threshold, fast_fill_bytes = int(m.group(1)), m.group(2).count("GET_BYTE")

print("(* GENERATED by tools/gen_Suspend.py from the current source tree -- do not edit *)")
print("Definition output_pass_resets_lossless : bool := %s." % ("true" if facts["output_pass_resets_lossless"] else "false"))
print("From Coq Require Import ZArith.")
print("Definition src_bit_buf_size : Z := %d." % bit_buf_size)
print("Definition src_min_get_bits : Z := %d." % min_get_bits)
print("Definition src_huff_lookahead : Z := %d." % huff_lookahead)
print("Definition src_dec_bufsize : nat := %d." % dec_bufsize)
print("Definition src_enc_bufsize : nat := %d." % enc_bufsize)
print("Definition src_fast_fill_threshold : Z := %d." % fast_fill_threshold)
print("Definition src_fast_fill_bytes : nat := %d." % fast_fill_bytes)
print("Definition output_rows_ahead : nat := %d." % ahead)
print("Definition coef_ctr_reset_per_row : bool := %s." % ("true" if coef_reset else "false"))
print("Definition latch_by_copy : bool := %s." % ("true" if by_copy else "false"))
names = [k for k in facts if k != "output_pass_resets_lossless"]
for k in names:
    print("Definition %s : bool := %s." % (k, "true" if facts[k] else "false"))
print("Definition suspension_discipline : bool :=\n  " + " && ".join(names) + ".")
