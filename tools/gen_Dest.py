#!/usr/bin/env python3
"""Translator for C13: reads the destination managers (jdatadst-tj.c, jdatadst.c),
the Huffman local-buffer constant (jchuff.c), the ICC writer constants (jcicc.c) and
the worst-case size formula (turbojpeg.c tj3JPEGBufSize, turbojpeg.h MCU tables) of
the tree given as argv[1] and prints coq/gen/GenDest.v.  Exits non-zero when one
of the statements the Coq model (coq/model/Dest.v) mirrors is no longer there."""
import re, sys

repo = sys.argv[1]


def load(name):
    s = open(repo + "/src/" + name).read()
    s = re.sub(r"/\*.*?\*/", " ", s, flags=re.S)
    s = re.sub(r"//[^\n]*", " ", s)
    return s


def norm(s):
    return re.sub(r"\s+", "", s)


def func(src, name, fname):
    """text of the body of function `name` (brace matching), whitespace removed"""
    m = re.search(r"\b%s\s*\([^;{]*\)\s*\{" % re.escape(name), src)
    if not m:
        sys.exit("%s: function %s not found" % (fname, name))
    i = m.end()
    depth = 1
    while depth and i < len(src):
        depth += {"{": 1, "}": -1}.get(src[i], 0)
        i += 1
    return norm(src[m.end():i - 1])


def need(body, stmt, where):
    if norm(stmt) not in body:
        sys.exit("%s: statement `%s` not found (the model in coq/model/Dest.v mirrors it)" % (where, stmt))


def define(src, name, fname):
    m = re.search(r"#define\s+%s\s+(.+)" % name, src)
    if not m:
        sys.exit("%s: #define %s not found" % (fname, name))
    return m.group(1).strip()


out = []
tj = load("jdatadst-tj.c")
ij = load("jdatadst.c")

# ---- jdatadst-tj.c
tj_obs = int(define(tj, "OUTPUT_BUF_SIZE", "jdatadst-tj.c"), 0)
e = func(tj, "empty_mem_output_buffer", "jdatadst-tj.c")
need(e, "if (!dest->alloc) ERREXIT(cinfo, JERR_BUFFER_SIZE);", "jdatadst-tj.c empty_mem_output_buffer")
m = re.search(r"nextsize=dest->bufsize\*(\d+);", e)
if not m:
    sys.exit("jdatadst-tj.c empty_mem_output_buffer: `nextsize = dest->bufsize * K` not found")
tj_growth = int(m.group(1))
for st in ["nextbuffer = (JOCTET *)MALLOC(nextsize);", "memcpy(nextbuffer, dest->buffer, dest->bufsize);",
           "free(dest->newbuffer);", "dest->newbuffer = nextbuffer;",
           "dest->pub.next_output_byte = nextbuffer + dest->bufsize;", "dest->pub.free_in_buffer = dest->bufsize;",
           "dest->buffer = nextbuffer;", "dest->bufsize = nextsize;"]:
    need(e, st, "jdatadst-tj.c empty_mem_output_buffer")
# the order of the statements matters (memcpy before free, free before overwrite of newbuffer)
order = [e.find(norm(x)) for x in ["memcpy(nextbuffer", "free(dest->newbuffer)", "dest->newbuffer = nextbuffer",
                                   "dest->pub.free_in_buffer = dest->bufsize", "dest->bufsize = nextsize"]]
if order != sorted(order):
    sys.exit("jdatadst-tj.c empty_mem_output_buffer: statement order changed")
t = func(tj, "term_mem_destination", "jdatadst-tj.c")
need(t, "if (dest->alloc) *dest->outbuffer = dest->buffer;", "jdatadst-tj.c term_mem_destination")
need(t, "*dest->outsize = dest->bufsize - dest->pub.free_in_buffer;", "jdatadst-tj.c term_mem_destination")
d = func(tj, "jpeg_mem_dest_tj", "jdatadst-tj.c")
for st in ["dest->newbuffer = NULL; dest->buffer = NULL;",
           "if (dest->buffer == *outbuffer && *outbuffer != NULL && alloc) reused = TRUE;",
           "dest->alloc = alloc;",
           "dest->newbuffer = *outbuffer = (unsigned char *)MALLOC(OUTPUT_BUF_SIZE);",
           "*outsize = OUTPUT_BUF_SIZE;", "} else ERREXIT(cinfo, JERR_BUFFER_SIZE);",
           "dest->pub.next_output_byte = dest->buffer = *outbuffer;",
           "if (!reused) dest->bufsize = *outsize;", "dest->pub.free_in_buffer = dest->bufsize;"]:
    need(d, st, "jdatadst-tj.c jpeg_mem_dest_tj")
clears = norm("reused = TRUE; else dest->newbuffer = NULL;") in d or norm("reused = TRUE; else { dest->newbuffer = NULL;") in d
# are dest->outbuffer / dest->outsize bound on every call (statements at the top level, not inside the else branch)?
if norm("dest->outbuffer = outbuffer; dest->outsize = outsize;") not in d:
    sys.exit("jdatadst-tj.c jpeg_mem_dest_tj: binding of outbuffer/outsize not found")
tj_rebind = norm("dest->newbuffer = NULL; dest->outbuffer = outbuffer; dest->outsize = outsize; dest->alloc = alloc;") in d or \
    norm("reused = TRUE; dest->outbuffer = outbuffer; dest->outsize = outsize; dest->alloc = alloc;") in d
if not clears and norm("reused = TRUE; dest->outbuffer = outbuffer;") not in d:
    sys.exit("jdatadst-tj.c jpeg_mem_dest_tj: neither the `else dest->newbuffer = NULL` rule nor its absence recognised")

zfix = norm("if (*outbuffer == NULL || (*outsize == 0 && !reused)) {") in d
if not zfix and norm("if (*outbuffer == NULL || *outsize == 0) {") not in d:
    sys.exit("jdatadst-tj.c jpeg_mem_dest_tj: condition of the allocation branch not recognised")

# ---- jdatadst.c
ij_obs = int(define(ij, "OUTPUT_BUF_SIZE", "jdatadst.c"), 0)
e2 = func(ij, "empty_mem_output_buffer", "jdatadst.c")
m = re.search(r"nextsize=dest->bufsize\*(\d+);", e2)
if not m:
    sys.exit("jdatadst.c empty_mem_output_buffer: growth rule not found")
ij_growth = int(m.group(1))
for st in ["nextbuffer = (JOCTET *)malloc(nextsize);", "memcpy(nextbuffer, dest->buffer, dest->bufsize);",
           "free(dest->newbuffer);", "dest->newbuffer = nextbuffer;",
           "dest->pub.next_output_byte = nextbuffer + dest->bufsize;", "dest->pub.free_in_buffer = dest->bufsize;",
           "dest->buffer = nextbuffer;", "dest->bufsize = nextsize;"]:
    need(e2, st, "jdatadst.c empty_mem_output_buffer")
if "ERREXIT(cinfo,JERR_BUFFER_SIZE)" in e2:
    sys.exit("jdatadst.c empty_mem_output_buffer: unexpected JERR_BUFFER_SIZE exit (model has none)")
t2 = func(ij, "term_mem_destination", "jdatadst.c")
need(t2, "*dest->outbuffer = dest->buffer;", "jdatadst.c term_mem_destination")
need(t2, "*dest->outsize = (unsigned long)(dest->bufsize - dest->pub.free_in_buffer);", "jdatadst.c term_mem_destination")
d2 = func(ij, "jpeg_mem_dest", "jdatadst.c")
ijg_rebind = norm("dest->term_destination = term_mem_destination; dest->outbuffer = outbuffer; dest->outsize = outsize;").replace("dest->term","dest->pub.term") in d2
for st in ["dest->newbuffer = NULL;", "if (*outbuffer == NULL || *outsize == 0) {",
           "dest->newbuffer = *outbuffer = (unsigned char *)malloc(OUTPUT_BUF_SIZE);", "*outsize = OUTPUT_BUF_SIZE;",
           "dest->pub.next_output_byte = dest->buffer = *outbuffer;",
           "dest->pub.free_in_buffer = dest->bufsize = *outsize;"]:
    need(d2, st, "jdatadst.c jpeg_mem_dest")

# ---- emit_byte of the marker writer (single-byte producer step)
jm = load("jcmarker.c")
eb = func(jm, "emit_byte", "jcmarker.c")
need(eb, "*(dest->next_output_byte)++ = (JOCTET)val;", "jcmarker.c emit_byte")
need(eb, "if (--dest->free_in_buffer == 0) {", "jcmarker.c emit_byte")

# ---- jchuff.c local buffer
jh = load("jchuff.c")
jl = load("jpeglib.h")
dct2 = int(define(jl, "DCTSIZE2", "jpeglib.h").split()[0], 0)
bexpr = define(jh, "BUFSIZE", "jchuff.c")
m = re.match(r"\(DCTSIZE2\s*\*\s*(\d+)\)", bexpr)
if not m:
    sys.exit("jchuff.c: BUFSIZE is no longer (DCTSIZE2 * k): " + bexpr)
huff_k = int(m.group(1))
huff_bufsize = dct2 * huff_k
nj = norm(jh)
for st in ["if (state->free_in_buffer < BUFSIZE) { \\ localbuf = 1; \\ buffer = _buffer; \\ } else \\ buffer = state->next_output_byte;",
           "bytestocopy = MIN(bytes, state->free_in_buffer);",
           "if (state->free_in_buffer == 0) \\ if (!dump_buffer(state)) return FALSE;",
           "state->free_in_buffer -= (buffer - state->next_output_byte);"]:
    if norm(st) not in nj:
        sys.exit("jchuff.c: LOAD_BUFFER/STORE_BUFFER statement `%s` not found" % st)

# ---- jcicc.c
ic = load("jcicc.c")
icc_over = int(define(ic, "ICC_OVERHEAD_LEN", "jcicc.c").split()[0], 0)
icc_maxb = int(define(ic, "MAX_BYTES_IN_MARKER", "jcicc.c").split()[0], 0)
if norm("(MAX_BYTES_IN_MARKER - ICC_OVERHEAD_LEN)") != norm(define(ic, "MAX_DATA_BYTES_IN_MARKER", "jcicc.c")):
    sys.exit("jcicc.c: MAX_DATA_BYTES_IN_MARKER definition changed")
w = func(ic, "jpeg_write_icc_profile", "jcicc.c")
need(w, "num_markers = icc_data_len / MAX_DATA_BYTES_IN_MARKER;", "jcicc.c")
need(w, "jpeg_write_m_header(cinfo, ICC_MARKER, (unsigned int)(length + ICC_OVERHEAD_LEN));", "jcicc.c")
# jpeg_write_m_header emits the 2-byte marker and the 2-byte length (= datalen + 2)
ja = load("jcmarker.c")
wh = func(ja, "write_marker_header", "jcmarker.c")
need(wh, "emit_marker(cinfo, (JPEG_MARKER)marker);", "jcmarker.c write_marker_header")
need(wh, "emit_2bytes(cinfo, (int)(datalen + 2));", "jcmarker.c write_marker_header")

# ---- turbojpeg.c / turbojpeg.h worst-case formula
tc = load("turbojpeg.c")
th = load("turbojpeg.h")
b = func(tc, "tj3JPEGBufSize", "turbojpeg.c")
need(b, "if (jpegSubsamp == TJSAMP_UNKNOWN) jpegSubsamp = TJSAMP_444;", "turbojpeg.c tj3JPEGBufSize")
need(b, "chromasf = jpegSubsamp == TJSAMP_GRAY ? 0 : 4 * 64 / (mcuw * mcuh);", "turbojpeg.c tj3JPEGBufSize")
m = re.search(r"retval=PAD\(width,mcuw\)\*PAD\(height,mcuh\)\*\((\d+)ULL\+chromasf\)\+(\d+)ULL;", b)
if not m:
    sys.exit("turbojpeg.c tj3JPEGBufSize: size formula not recognised")
bytes_per_luma, slack = int(m.group(1)), int(m.group(2))
if norm("#define PAD(v, p) ((v + (p) - 1) & (~((p) - 1)))") not in norm(tc):
    sys.exit("turbojpeg.c: PAD macro changed")
tb = func(tc, "tj3TransformBufSize", "turbojpeg.c")
need(tb, "retval = tj3JPEGBufSize(dstWidth, dstHeight, dstSubsamp);", "turbojpeg.c tj3TransformBufSize")
if "retval+=this->iccSize" not in tb:
    sys.exit("turbojpeg.c tj3TransformBufSize: the instance ICC profile is no longer added (details: tools/gen_XformIcc.py)")


def table(name):
    m = re.search(r"static const int %s\[TJ_NUMSAMP\]\s*=\s*\{([^}]*)\}" % name, th)
    if not m:
        sys.exit("turbojpeg.h: %s not found" % name)
    return [int(x) for x in re.findall(r"\d+", m.group(1))]


mw, mh = table("tjMCUWidth"), table("tjMCUHeight")
m = re.search(r"enum TJSAMP\s*\{([^}]*)\}", th)
if not m:
    sys.exit("turbojpeg.h: enum TJSAMP not found")
names = [x.split("=")[0].strip() for x in m.group(1).split(",") if x.strip()]
names = [n for n in names if n != "TJSAMP_UNKNOWN"]
if len(names) != len(mw) or len(mw) != len(mh):
    sys.exit("turbojpeg.h: TJSAMP enum and MCU tables disagree")
gray = names.index("TJSAMP_GRAY")
s444 = names.index("TJSAMP_444")

print("(* GENERATED by tools/gen_Dest.py from src/jdatadst-tj.c, jdatadst.c, jchuff.c, jcicc.c, jcmarker.c,")
print("   turbojpeg.c, turbojpeg.h -- do not edit *)")
print("From Coq Require Import List ZArith.\nImport ListNotations.\nLocal Open Scope Z_scope.\n")
print("Definition tj_output_buf_size : Z := %d." % tj_obs)
print("Definition tj_growth : Z := %d." % tj_growth)
print("(* jpeg_mem_dest_tj: `else dest->newbuffer = NULL` when the buffer is not reused (the F2 fix) *)")
print("Definition tj_clears_newbuffer : bool := %s." % ("true" if clears else "false"))
print("(* jpeg_mem_dest_tj: the allocation branch is not taken for a reused buffer whose size is given as 0 (the zero-size fix) *)")
print("Definition tj_zero_size_keeps_reused : bool := %s." % ("true" if zfix else "false"))
print("(* dest->outbuffer / dest->outsize are assigned unconditionally on every call *)")
print("Definition tj_rebinds_out_always : bool := %s." % ("true" if tj_rebind else "false"))
print("Definition ijg_rebinds_out_always : bool := %s." % ("true" if ijg_rebind else "false"))
print("Definition ijg_output_buf_size : Z := %d." % ij_obs)
print("Definition ijg_growth : Z := %d." % ij_growth)
print("Definition huff_local_bufsize : Z := %d.   (* jchuff.c BUFSIZE = DCTSIZE2 * %s *)" % (huff_bufsize, huff_k))
print("Definition icc_overhead_len : Z := %d." % icc_over)
print("Definition icc_max_bytes_in_marker : Z := %d." % icc_maxb)
print("Definition tj_mcu_width : list Z := [%s]." % "; ".join(map(str, mw)))
print("Definition tj_mcu_height : list Z := [%s]." % "; ".join(map(str, mh)))
print("Definition tjsamp_gray : Z := %d." % gray)
print("Definition tjsamp_444 : Z := %d." % s444)
print("Definition bufsize_bytes_per_luma : Z := %d." % bytes_per_luma)
print("Definition bufsize_slack : Z := %d." % slack)
