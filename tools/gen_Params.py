#!/usr/bin/env python3
"""Translator for C17: compression parameter limits and the tj3Set switch
   -> coq/gen/GenParams.v

   jpeglib.h / jmorecfg.h : DCTSIZE, DCTSIZE2, MAX_COMPONENTS, MAX_COMPS_IN_SCAN,
                            C_MAX_BLOCKS_IN_MCU, MAX_SAMP_FACTOR, NUM_*_TBLS, JPEG_MAX_DIMENSION
   jchuff.c               : BUFSIZE (evaluated), BIT_BUF_SIZE (64-bit branch), the
                            "max_coef_bits = data_precision + K" rule and the +1 of the DC test
   jcphuff.c              : the same rule (must agree)
   jcmaster.c             : max_Ah_Al rule, precision ranges, restart clamp, PSV range
   jcparam.c              : quant clamps (1, 32767, 255), quality clamp 1..100
   jcdctmgr.c             : CLAMP_DIVISOR present and applied at every compute_reciprocal call (F3 fix)
   turbojpeg.c / .h       : every `case TJPARAM_x:` of tj3Set: instance requirement,
                            SET_PARAM(field, lo, hi) / SET_BOOL_PARAM(field) / unconditional THROW
Exits non-zero with a message when a construct it reads is gone."""
import re, sys

repo = sys.argv[1]


def rd(p):
    return open(repo + "/src/" + p, errors="replace").read()


def die(msg):
    sys.exit("gen_Params: " + msg)


def strip_comments(s):
    return re.sub(r"/\*.*?\*/", " ", s, flags=re.S)


jpeglib = strip_comments(rd("jpeglib.h"))
jmorecfg = strip_comments(rd("jmorecfg.h"))
consts = {}


def define(src, name, fname):
    m = re.search(r"^\s*#define\s+%s\s+(.+?)\s*$" % name, src, re.M)
    if not m:
        die("%s: #define %s not found" % (fname, name))
    return m.group(1).strip()


def ev(expr, what):
    """evaluate a C integer constant expression over the known constants"""
    e = expr
    e = re.sub(r"\(\s*(?:unsigned\s+)?(?:int|long|JLONG|size_t|UINT16|unsigned int)\s*\)", "", e)
    e = re.sub(r"\b(\d+)[uUlL]+\b", r"\1", e)
    e = re.sub(r"\bmin\s*\(", "min(", e)
    env = dict(consts)
    env.update({"LONG_MAX": (1 << 63) - 1, "INT_MAX": (1 << 31) - 1, "min": min, "max": max})
    e = e.replace("/", "//")
    if not re.fullmatch(r"[\w\s()+\-*/<>,]+", e):
        die("cannot evaluate %s: %r" % (what, expr))
    try:
        v = eval(e, {"__builtins__": {}}, env)
    except Exception as ex:
        die("cannot evaluate %s: %r (%s)" % (what, expr, ex))
    if not isinstance(v, int):
        die("%s does not evaluate to an integer: %r" % (what, expr))
    return v


for n in ["DCTSIZE", "DCTSIZE2", "NUM_QUANT_TBLS", "NUM_HUFF_TBLS", "NUM_ARITH_TBLS", "MAX_COMPS_IN_SCAN",
          "MAX_SAMP_FACTOR", "C_MAX_BLOCKS_IN_MCU", "D_MAX_BLOCKS_IN_MCU"]:
    consts[n] = ev(define(jpeglib, n, "jpeglib.h"), n)
for n in ["MAX_COMPONENTS", "JPEG_MAX_DIMENSION"]:
    consts[n] = ev(define(jmorecfg, n, "jmorecfg.h"), n)

# ---------------------------------------------------------------- jchuff.c
jchuff = strip_comments(rd("jchuff.c"))
jchuff = re.sub(r"\n[ \t]*\\(?=\n)", "", jchuff)      # macro lines that held only a comment
consts["BUFSIZE"] = ev(define(jchuff, "BUFSIZE", "jchuff.c"), "BUFSIZE")
m = re.search(r"#if \(defined\(SIZEOF_SIZE_T\) && SIZEOF_SIZE_T == 8\)[^\n]*\\?\n[^\n]*\n#define BIT_BUF_SIZE\s+(\d+)\s*\n"
              r"#elif[^\n]*\n#define BIT_BUF_SIZE\s+(\d+)", jchuff)
if not m:
    die("jchuff.c: BIT_BUF_SIZE 64/32 selection not found")
consts["BIT_BUF_SIZE"] = int(m.group(1))
consts["BIT_BUF_SIZE_32"] = int(m.group(2))
if not re.search(r"JOCTET\s+_buffer\[BUFSIZE\]", jchuff):
    die("jchuff.c: staging buffer `JOCTET _buffer[BUFSIZE]` not found")
if not re.search(r"if \(state->free_in_buffer < BUFSIZE\)", jchuff):
    die("jchuff.c: LOAD_BUFFER no longer compares free_in_buffer with BUFSIZE")


def coef_rule(src, fname, min_sites):
    ks = re.findall(r"int max_coef_bits = (?:state->)?cinfo->data_precision \+ (\d+);", src)
    if len(ks) < min_sites or len(set(ks)) != 1:
        die("%s: `max_coef_bits = data_precision + K` rule not found / inconsistent: %r" % (fname, ks))
    dc = re.findall(r"if \(nbits > max_coef_bits \+ (\d+)\)\s*\\?\s*ERREXIT\((?:state->)?cinfo, JERR_BAD_DCT_COEF\)", src)
    ac = re.findall(r"if \(nbits > max_coef_bits\)\s*\\?\s*ERREXIT\((?:state->)?cinfo, JERR_BAD_DCT_COEF\)", src)
    if not dc or len(set(dc)) != 1 or not ac:
        die("%s: coefficient range checks (DC: nbits > max_coef_bits + 1, AC: nbits > max_coef_bits) not found" % fname)
    return int(ks[0]), int(dc[0]), len(dc), len(ac)


k1, d1, ndc1, nac1 = coef_rule(jchuff, "jchuff.c", 2)
jcphuff = strip_comments(rd("jcphuff.c"))
k2, d2, ndc2, nac2 = coef_rule(jcphuff, "jcphuff.c", 2)
if (k1, d1) != (k2, d2):
    die("jchuff.c and jcphuff.c disagree on the coefficient range rule")
if ndc1 < 2 or nac1 < 2:
    die("jchuff.c: expected the range checks in both encode_one_block and htest_one_block")
consts["MAX_COEF_BITS_ADD"] = k1
consts["DC_EXTRA_BITS"] = d1
# the PUT_CODE / PUT_BITS structure of encode_one_block the byte-count model mirrors
for pat, what in [(r"#define PUT_BITS\(code, size\) \{ \\\s*free_bits -= size; \\\s*if \(free_bits < 0\) \\\s*PUT_AND_FLUSH\(code, size\) \\\s*else \\\s*put_buffer = \(put_buffer << size\) \| code; \\\s*\}", "PUT_BITS"),
                  (r"#define PUT_CODE\(code, size\) \{ \\\s*(?:if \(\(size\) == 0\) \\\s*ERREXIT\(state->cinfo, JERR_HUFF_MISSING_CODE\); \\\s*)?temp &= \(\(\(JLONG\)1\) << nbits\) - 1; \\\s*temp \|= code << nbits; \\\s*nbits \+= size; \\\s*PUT_BITS\(temp, nbits\) \\\s*\}", "PUT_CODE"),
                  (r"free_bits \+= BIT_BUF_SIZE; \\\s*put_buffer = code;", "PUT_AND_FLUSH"),
                  (r"buffer -= -2 \+ \(\(JOCTET\)\(b\) < 0xFF\);", "EMIT_BYTE"),
                  (r"while \(r >= 16 \* 16\) \{ \\\s*r -= 16 \* 16; \\\s*(?:if \(actbl->ehufsi\[0xf0\] == 0\) \\\s*ERREXIT\(state->cinfo, JERR_HUFF_MISSING_CODE\); \\\s*)?PUT_BITS\(actbl->ehufco\[0xf0\], actbl->ehufsi\[0xf0\]\)", "ZRL loop"),
                  (r"PUT_CODE\(dctbl->ehufco\[nbits\], dctbl->ehufsi\[nbits\]\)", "DC PUT_CODE"),
                  (r"PUT_CODE\(actbl->ehufco\[r\], actbl->ehufsi\[r\]\)", "AC PUT_CODE"),
                  (r"if \(r > 0\) \{\s*(?:if \(actbl->ehufsi\[0\] == 0\)\s*ERREXIT\(state->cinfo, JERR_HUFF_MISSING_CODE\);\s*)?PUT_BITS\(actbl->ehufco\[0\], actbl->ehufsi\[0\]\)", "EOB")]:
    if not re.search(pat, jchuff):
        die("jchuff.c: %s macro/statement no longer has the modelled form" % what)
# F17 fix: PUT_CODE reports a symbol without a code
consts["MISSING_CODE_CHECK"] = 1 if re.search(
    r"#define PUT_CODE\(code, size\) \{ \\\s*if \(\(size\) == 0\) \\\s*ERREXIT\(state->cinfo, JERR_HUFF_MISSING_CODE\);", jchuff) else 0
consts["MISSING_ZRL_EOB_CHECK"] = 1 if (re.search(
    r"r -= 16 \* 16; \\\s*if \(actbl->ehufsi\[0xf0\] == 0\) \\\s*ERREXIT\(state->cinfo, JERR_HUFF_MISSING_CODE\); \\\s*PUT_BITS\(actbl->ehufco\[0xf0\]", jchuff)
    and re.search(r"if \(r > 0\) \{\s*if \(actbl->ehufsi\[0\] == 0\)\s*ERREXIT\(state->cinfo, JERR_HUFF_MISSING_CODE\);\s*PUT_BITS\(actbl->ehufco\[0\]", jchuff)) else 0
# F15 fix: the SIMD path checks the coefficient range in C before calling the SIMD encoder
consts["SIMD_RANGE_PRECHECK"] = 1 if re.search(
    r"int max_coef = \(1 << \(state->cinfo->data_precision \+ (\d+)\)\) - 1;.*?if \(temp > 2 \* max_coef \+ 1\)\s*ERREXIT\(state->cinfo, JERR_BAD_DCT_COEF\);"
    r".*?temp2 \|= temp;.*?if \(temp2 > max_coef\)\s*ERREXIT\(state->cinfo, JERR_BAD_DCT_COEF\);.*?jsimd_huff_encode_one_block\(", jchuff, re.S) else 0
kl = re.findall(r"kloop\((\d+)\);", jchuff)
if len(kl) != 63:
    die("jchuff.c: expected 63 kloop() invocations, found %d" % len(kl))
zz = [0] + [int(x) for x in kl]
if sorted(zz) != list(range(64)):
    die("jchuff.c: kloop order is not a permutation of 1..63")


# ---------------------------------------------------------------- jcphuff.c: the correction-bit buffer of AC refinement scans
consts["MAX_CORR_BITS"] = ev(define(jcphuff, "MAX_CORR_BITS", "jcphuff.c"), "MAX_CORR_BITS")
m = re.search(r"entropy->EOBRUN\+\+;\s*entropy->BE \+= BR;\s*if \(entropy->EOBRUN == 0x7FFF \|\|\s*entropy->BE > \(([^;{}]*?)\)\)\s*emit_eobrun\(entropy\);", jcphuff)
if not m:
    die("jcphuff.c: flush test of encode_mcu_AC_refine not found")
consts["CORR_FLUSH_THRESHOLD"] = ev(m.group(1), "correction-bit flush threshold")
m = re.search(r"entropy->bit_buffer = \(char \*\)\s*\(\*cinfo->mem->alloc_small\) \(\(j_common_ptr\)cinfo, JPOOL_IMAGE,\s*([^;]*?) \* sizeof\(char\)\);", jcphuff)
if not m:
    die("jcphuff.c: allocation of bit_buffer not found")
consts["CORR_BUFFER_SIZE"] = ev(m.group(1), "bit_buffer size")
for pat, what in [(r"BR_buffer = entropy->bit_buffer \+ entropy->BE;", "BR_buffer start"),
                  (r"if \(temp > 1\) \{\s*\\\s*BR_buffer\[BR\+\+\] = \(char\)\(temp & 1\);", "correction bit store"),
                  (r"emit_buffered_bits\(entropy, BR_buffer, BR\);\s*\\\s*BR_buffer = entropy->bit_buffer;\s*\\\s*BR = 0;", "buffer reset after a flush"),
                  (r"emit_buffered_bits\(entropy, entropy->bit_buffer, entropy->BE\);\s*entropy->BE = 0;", "emit_eobrun reset"),
                  (r"int Sl = cinfo->Se - cinfo->Ss \+ 1;", "band length")]:
    if not re.search(pat, re.sub(r"\n[ \t]*\\(?=\n)", "", jcphuff)):
        die("jcphuff.c: %s no longer has the modelled form" % what)

# ---------------------------------------------------------------- jcmaster.c
jcm = strip_comments(rd("jcmaster.c"))
m = re.search(r"int max_Ah_Al = cinfo->data_precision == (\d+) \? (\d+) : (\d+);", jcm)
if not m:
    die("jcmaster.c: max_Ah_Al rule not found")
consts["AHAL_PREC"] = int(m.group(1)); consts["MAX_AH_AL_HI"] = int(m.group(2)); consts["MAX_AH_AL_LO"] = int(m.group(3))
m = re.search(r"if \(cinfo->data_precision < (\d+) \|\| cinfo->data_precision > (\d+)\)\s*ERREXIT1\(cinfo, JERR_BAD_PRECISION", jcm)
if not m:
    die("jcmaster.c: lossless precision range check not found")
consts["LOSSLESS_PREC_MIN"] = int(m.group(1)); consts["LOSSLESS_PREC_MAX"] = int(m.group(2))
m = re.search(r"if \(cinfo->data_precision != (\d+) && cinfo->data_precision != (\d+)\)\s*ERREXIT1\(cinfo, JERR_BAD_PRECISION", jcm)
if not m:
    die("jcmaster.c: lossy precision check (8 / 12) not found")
consts["LOSSY_PREC_A"] = int(m.group(1)); consts["LOSSY_PREC_B"] = int(m.group(2))
m = re.search(r"cinfo->restart_interval = \(unsigned int\)MIN\(nominal, (\d+)L\);", jcm)
if not m:
    die("jcmaster.c: restart interval clamp MIN(nominal, 65535L) not found")
consts["RESTART_MAX"] = int(m.group(1))
# F16 fix: a directly stored restart interval is limited as well
m2 = re.search(r"cinfo->restart_interval = \(unsigned int\)MIN\(nominal, 65535L\);\s*\}\s*if \(cinfo->restart_interval > (\d+)\)\s*cinfo->restart_interval = (\d+);", jcm)
consts["RESTART_CLAMP_DIRECT"] = 1 if (m2 and m2.group(1) == m2.group(2) == m.group(1)) else 0
m = re.search(r"if \(Ss < (\d+) \|\| Ss > (\d+) \|\|\s*Se != 0 \|\| Ah != 0 \|\|\s*Al < 0 \|\| Al >= cinfo->data_precision\)", jcm)
if not m:
    die("jcmaster.c: lossless scan parameter check (Ss 1..7, Se=Ah=0, Al < precision) not found")
consts["PSV_MIN"] = int(m.group(1)); consts["PSV_MAX"] = int(m.group(2))
for pat, what in [(r"if \(cinfo->blocks_in_MCU \+ mcublks > C_MAX_BLOCKS_IN_MCU\)\s*ERREXIT\(cinfo, JERR_BAD_MCU_SIZE\)", "blocks_in_MCU limit"),
                  (r"if \(ncomps <= 0 \|\| ncomps > MAX_COMPS_IN_SCAN\)", "comps_in_scan check"),
                  (r"if \(thisi < 0 \|\| thisi >= cinfo->num_components\)", "component index check"),
                  (r"if \(ci > 0 && thisi <= scanptr->component_index\[ci - 1\]\)", "component order check"),
                  (r"if \(Ss < 0 \|\| Ss >= DCTSIZE2 \|\| Se < Ss \|\| Se >= DCTSIZE2 \|\|\s*Ah < 0 \|\| Ah > max_Ah_Al \|\| Al < 0 \|\| Al > max_Ah_Al\)", "progressive parameter check"),
                  (r"if \(Ah != last_bitpos_ptr\[coefi\] \|\| Al != Ah - 1\)", "successive approximation check"),
                  (r"int last_bitpos\[MAX_COMPONENTS\]\[DCTSIZE2\];", "last_bitpos declaration"),
                  (r"boolean component_sent\[MAX_COMPONENTS\];", "component_sent declaration"),
                  (r"if \(cinfo->num_components > MAX_COMPONENTS\)", "num_components check"),
                  (r"compptr->h_samp_factor > MAX_SAMP_FACTOR", "sampling factor check")]:
    if not re.search(pat, jcm):
        die("jcmaster.c: %s no longer has the modelled form" % what)

# ---------------------------------------------------------------- jcparam.c
jcp = strip_comments(rd("jcparam.c"))
m = re.search(r"if \(temp <= 0L\) temp = (\d+)L;\s*if \(temp > (\d+)L\) temp = (\d+)L;\s*if \(force_baseline && temp > (\d+)L\)\s*temp = (\d+)L;", jcp)
if not m or m.group(2) != m.group(3) or m.group(4) != m.group(5):
    die("jcparam.c: quant value clamping (1, 32767, 255) not found")
consts["QUANT_MIN"] = int(m.group(1)); consts["QUANT_MAX"] = int(m.group(2)); consts["QUANT_BASELINE_MAX"] = int(m.group(4))
m = re.search(r"if \(quality <= 0\) quality = (\d+);\s*if \(quality > (\d+)\) quality = (\d+);", jcp)
if not m:
    die("jcparam.c: jpeg_quality_scaling clamp not found")
consts["QUALITY_MIN"] = int(m.group(1)); consts["QUALITY_MAX"] = int(m.group(2))


# ---------------------------------------------------------------- jcparam.c jpeg_simple_progression
m = re.search(r"GLOBAL\(void\)\s*jpeg_simple_progression\(j_compress_ptr cinfo\)\s*\{(.*?)\n\}", jcp, re.S)
if not m:
    die("jcparam.c: jpeg_simple_progression not found")
sp = m.group(1)
m = re.search(r"if \(ncomps == (\d+) && cinfo->jpeg_color_space == JCS_YCbCr\) \{\s*nscans = (\d+);\s*\} else \{\s*"
              r"if \(ncomps > MAX_COMPS_IN_SCAN\)\s*nscans = (\d+) \* ncomps;\s*else\s*nscans = (\d+) \+ (\d+) \* ncomps;\s*\}", sp)
if not m:
    die("jcparam.c: nscans computation of jpeg_simple_progression no longer has the modelled form")
consts["SP_YCC_NCOMPS"], consts["SP_YCC_NSCANS"], consts["SP_BIG_MUL"], consts["SP_ADD"], consts["SP_MUL"] = [int(x) for x in m.groups()]
# the workspace rule: (condition) { size update; allocation }.  Two shapes are understood:
#   guard 1: the allocation is executed whenever the size is updated          (alloc entries = new size)
#   guard 2: the allocation is executed only when script_space == NULL         (an existing workspace never grows)
m = re.search(r"if \(cinfo->script_space == NULL \|\| cinfo->script_space_size < nscans\) \{(.*?)\n  \}\s*scanptr = cinfo->script_space;", sp, re.S)
if not m:
    die("jcparam.c: script workspace test of jpeg_simple_progression not found")
ws = re.sub(r"\s+", " ", m.group(1)).strip()
alloc = (r"cinfo->script_space = \(jpeg_scan_info \*\) \(\*cinfo->mem->alloc_small\) \(\(j_common_ptr\)cinfo, JPOOL_PERMANENT, "
         r"cinfo->script_space_size \* sizeof\(jpeg_scan_info\)\);")
m1 = re.fullmatch(r"cinfo->script_space_size = MAX\(nscans, (\d+)\); " + alloc, ws)
m2 = re.fullmatch(r"cinfo->script_space_size = MAX\(cinfo->script_space_size, MAX\(nscans, (\d+)\)\); if \(cinfo->script_space == NULL\) " + alloc, ws)
m3 = re.fullmatch(r"cinfo->script_space_size = MAX\(cinfo->script_space_size, MAX\(nscans, (\d+)\)\); " + alloc, ws)
if m1:
    consts["SP_SIZE_RULE"], consts["SP_ALLOC_GUARD"], consts["SP_MIN_SLOTS"] = 1, 1, int(m1.group(1))
elif m2:
    consts["SP_SIZE_RULE"], consts["SP_ALLOC_GUARD"], consts["SP_MIN_SLOTS"] = 2, 2, int(m2.group(1))
elif m3:
    consts["SP_SIZE_RULE"], consts["SP_ALLOC_GUARD"], consts["SP_MIN_SLOTS"] = 2, 1, int(m3.group(1))
else:
    die("jcparam.c: script workspace (re)allocation of jpeg_simple_progression has an unknown form: " + ws[:200])
if not re.search(r"scanptr = cinfo->script_space;\s*cinfo->scan_info = scanptr;\s*cinfo->num_scans = nscans;", sp):
    die("jcparam.c: jpeg_simple_progression no longer stores scan_info / num_scans as modelled")
# the two scripts as data: (kind, a, b, c, d, e)  kind 0 fill_dc_scans(Ah, Al), 1 fill_a_scan(ci, Ss, Se, Ah, Al), 2 fill_scans(Ss, Se, Ah, Al)
m = re.search(r"cinfo->num_scans = nscans;\s*if \(ncomps == \d+ && cinfo->jpeg_color_space == JCS_YCbCr\) \{(.*?)\} else \{(.*?)\}\s*$", sp, re.S)
if not m:
    die("jcparam.c: the two script bodies of jpeg_simple_progression not found")
def script_calls(body, what):
    out = []
    for stmt in [x.strip() for x in body.split(";") if x.strip()]:
        mm = re.fullmatch(r"scanptr = fill_dc_scans\(scanptr, ncomps, (\d+), (\d+)\)", stmt)
        if mm:
            out.append((0, int(mm.group(1)), int(mm.group(2)), 0, 0, 0)); continue
        mm = re.fullmatch(r"scanptr = fill_a_scan\(scanptr, (\d+), (\d+), (\d+), (\d+), (\d+)\)", stmt)
        if mm:
            out.append((1,) + tuple(int(x) for x in mm.groups())); continue
        mm = re.fullmatch(r"scanptr = fill_scans\(scanptr, ncomps, (\d+), (\d+), (\d+), (\d+)\)", stmt)
        if mm:
            out.append((2,) + tuple(int(x) for x in mm.groups()) + (0,)); continue
        die("jcparam.c: unexpected statement in the %s script of jpeg_simple_progression: %r" % (what, stmt))
    return out
sp_ycc = script_calls(m.group(1), "YCbCr")
sp_gen = script_calls(m.group(2), "all-purpose")
for pat, what in [(r"if \(ncomps <= MAX_COMPS_IN_SCAN\) \{\s*scanptr->comps_in_scan = ncomps;\s*for \(ci = 0; ci < ncomps; ci\+\+\)\s*scanptr->component_index\[ci\] = ci;\s*"
                   r"scanptr->Ss = scanptr->Se = 0;\s*scanptr->Ah = Ah;\s*scanptr->Al = Al;\s*scanptr\+\+;\s*\} else \{\s*scanptr = fill_scans\(scanptr, ncomps, 0, 0, Ah, Al\);", "fill_dc_scans"),
                  (r"for \(ci = 0; ci < ncomps; ci\+\+\) \{\s*scanptr->comps_in_scan = 1;\s*scanptr->component_index\[0\] = ci;\s*scanptr->Ss = Ss;\s*scanptr->Se = Se;\s*"
                   r"scanptr->Ah = Ah;\s*scanptr->Al = Al;\s*scanptr\+\+;\s*\}", "fill_scans")]:
    if not re.search(pat, jcp):
        die("jcparam.c: %s no longer has the modelled form" % what)


# ---------------------------------------------------------------- jcmarker.c: DRI emission rule
jcmk = strip_comments(rd("jcmarker.c"))
m = re.search(r"if \(([^{};]*?)\) \{\s*emit_dri\(cinfo\);\s*marker->last_restart_interval = cinfo->restart_interval;\s*\}\s*emit_sos\(cinfo\);", jcmk)
if not m:
    die("jcmarker.c: DRI emission in write_scan_header not found")
cond = re.sub(r"\s+", " ", m.group(1)).strip()
if cond == "cinfo->restart_interval != marker->last_restart_interval":
    consts["DRI_RULE"] = 1            # emit whenever the interval differs from the last one written
elif cond == "cinfo->restart_interval && marker->last_restart_interval == 0":
    consts["DRI_RULE"] = 2            # emit only the first non-zero interval of the image
else:
    die("jcmarker.c: DRI emission condition has an unknown form: " + cond)
if len(re.findall(r"marker->last_restart_interval = 0;", jcmk)) < 2:
    die("jcmarker.c: last_restart_interval is no longer reset in write_file_header / jinit_marker_writer")
if not re.search(r"emit_2bytes\(cinfo, \(int\)cinfo->restart_interval\);", jcmk):
    die("jcmarker.c: emit_dri no longer writes cinfo->restart_interval")

# ---------------------------------------------------------------- jcmarker.c: marker codes and the shape of the writer
mcodes = {}
for nm in ["SOF0", "SOF1", "SOF2", "SOF3", "SOF9", "SOF10", "DHT", "DAC", "SOI", "EOI", "SOS", "DQT", "DRI", "APP0", "APP14"]:
    mm = re.search(r"\bM_%s\s*=\s*0x([0-9a-fA-F]+)," % nm, jcmk)
    if not mm:
        die("jcmarker.c: marker code M_%s not found" % nm)
    mcodes[nm] = int(mm.group(1), 16)
for pat, what in [
    (r"if \(!qtbl->sent_table\) \{\s*emit_marker\(cinfo, M_DQT\);\s*emit_2bytes\(cinfo, prec \? DCTSIZE2 \* 2 \+ 1 \+ 2 : DCTSIZE2 \+ 1 \+ 2\);\s*emit_byte\(cinfo, index \+ \(prec << 4\)\);", "emit_dqt header"),
    (r"unsigned int qval = qtbl->quantval\[jpeg_natural_order\[i\]\];\s*if \(prec\)\s*emit_byte\(cinfo, \(int\)\(qval >> 8\)\);\s*emit_byte\(cinfo, \(int\)\(qval & 0xFF\)\);\s*\}\s*qtbl->sent_table = TRUE;", "emit_dqt body"),
    (r"if \(!htbl->sent_table\) \{\s*emit_marker\(cinfo, M_DHT\);\s*length = 0;\s*for \(i = 1; i <= 16; i\+\+\)\s*length \+= htbl->bits\[i\];\s*emit_2bytes\(cinfo, length \+ 2 \+ 1 \+ 16\);\s*emit_byte\(cinfo, index\);", "emit_dht header"),
    (r"for \(i = 0; i < length; i\+\+\)\s*emit_byte\(cinfo, htbl->huffval\[i\]\);\s*htbl->sent_table = TRUE;", "emit_dht body"),
    (r"index \+= 0x10;", "emit_dht AC index"),
    (r"emit_marker\(cinfo, M_DRI\);\s*emit_2bytes\(cinfo, 4\);", "emit_dri"),
    (r"emit_2bytes\(cinfo, 3 \* cinfo->num_components \+ 2 \+ 5 \+ 1\);", "emit_sof length"),
    (r"emit_byte\(cinfo, \(compptr->h_samp_factor << 4\) \+ compptr->v_samp_factor\);\s*emit_byte\(cinfo, compptr->quant_tbl_no\);", "emit_sof component"),
    (r"emit_2bytes\(cinfo, 2 \* cinfo->comps_in_scan \+ 2 \+ 1 \+ 3\);", "emit_sos length"),
    (r"td = cinfo->master->lossless \|\| \(cinfo->Ss == 0 && cinfo->Ah == 0\) \?\s*compptr->dc_tbl_no : 0;\s*ta = cinfo->Se \? compptr->ac_tbl_no : 0;\s*emit_byte\(cinfo, \(td << 4\) \+ ta\);", "emit_sos table selectors"),
    (r"emit_byte\(cinfo, cinfo->Ss\);\s*emit_byte\(cinfo, cinfo->Se\);\s*emit_byte\(cinfo, \(cinfo->Ah << 4\) \+ cinfo->Al\);", "emit_sos parameters"),
    (r"emit_marker\(cinfo, M_SOI\);\s*marker->last_restart_interval = 0;\s*if \(cinfo->write_JFIF_header\)\s*emit_jfif_app0\(cinfo\);\s*if \(cinfo->write_Adobe_marker\)\s*emit_adobe_app14\(cinfo\);", "write_file_header"),
    (r"if \(!cinfo->master->lossless\) \{\s*for \(ci = 0, compptr = cinfo->comp_info; ci < cinfo->num_components;\s*ci\+\+, compptr\+\+\) \{\s*prec \+= emit_dqt\(cinfo, compptr->quant_tbl_no\);", "write_frame_header DQT loop"),
    (r"if \(cinfo->arith_code\) \{\s*if \(cinfo->progressive_mode\)\s*emit_sof\(cinfo, M_SOF10\);\s*else\s*emit_sof\(cinfo, M_SOF9\);\s*\} else \{\s*if \(cinfo->progressive_mode\)\s*emit_sof\(cinfo, M_SOF2\);\s*"
     r"else if \(cinfo->master->lossless\)\s*emit_sof\(cinfo, M_SOF3\);\s*else if \(is_baseline\)\s*emit_sof\(cinfo, M_SOF0\);\s*else\s*emit_sof\(cinfo, M_SOF1\);", "SOF selection"),
    (r"if \(\(cinfo->Ss == 0 && cinfo->Ah == 0\) \|\| cinfo->master->lossless\)\s*emit_dht\(cinfo, compptr->dc_tbl_no, FALSE\);\s*if \(cinfo->Se && !cinfo->master->lossless\)\s*emit_dht\(cinfo, compptr->ac_tbl_no, TRUE\);", "write_scan_header DHT loop"),
    (r"METHODDEF\(void\)\s*write_file_trailer\(j_compress_ptr cinfo\)\s*\{\s*emit_marker\(cinfo, M_EOI\);\s*\}", "write_file_trailer")]:
    if not re.search(pat, jcmk):
        die("jcmarker.c: %s no longer has the modelled form" % what)
# F18 fix (if present): emit_dqt checks the table number before indexing quant_tbl_ptrs[]
consts["DQT_INDEX_CHECK"] = 1 if re.search(r"if \(index < 0 \|\| index >= NUM_QUANT_TBLS\)\s*ERREXIT1\(cinfo, JERR_NO_QUANT_TABLE, index\);", jcmk) else 0
# the statistics pass must clear sent_table of every table it generates (regen_ok of the marker model)
if not re.search(r"htbl->sent_table = FALSE;\s*\}\s*(?:/\*.*?\*/\s*)*(?:METHODDEF|LOCAL|GLOBAL|#)", jchuff, re.S) and \
   not re.search(r"jpeg_gen_optimal_table\(.*?htbl->sent_table = FALSE;", jchuff, re.S):
    die("jchuff.c: jpeg_gen_optimal_table no longer clears htbl->sent_table")
# F19 fix: start_pass_huff checks the table numbers before forming &entropy->xx_derived_tbls[tbl] on both paths
m = re.search(r"actbl = compptr->ac_tbl_no;\s*if \(dctbl < 0 \|\| dctbl >= NUM_HUFF_TBLS\)\s*ERREXIT1\(cinfo, JERR_NO_HUFF_TABLE, dctbl\);\s*"
              r"if \(actbl < 0 \|\| actbl >= NUM_HUFF_TBLS\)\s*ERREXIT1\(cinfo, JERR_NO_HUFF_TABLE, actbl\);\s*if \(gather_statistics\)", jchuff)
consts["HUFF_TBLNO_CHECK_FIRST"] = 1 if m else 0
# std tables the correspondence needs (jcparam.c, jstdhuff.c)
def c_array(src, name, fname):
    mm = re.search(r"%s\[[^\]]*\]\s*=\s*\{([^}]*)\}" % name, src)
    if not mm:
        die("%s: table %s not found" % (fname, name))
    return [int(x, 0) for x in re.findall(r"0x[0-9a-fA-F]+|\d+", mm.group(1))]
std_lum_q = c_array(jcp, "std_luminance_quant_tbl", "jcparam.c")
jsh = strip_comments(rd("jstdhuff.c"))
std_dc_bits = c_array(jsh, "bits_dc_luminance", "jstdhuff.c"); std_dc_vals = c_array(jsh, "val_dc_luminance", "jstdhuff.c")
std_ac_bits = c_array(jsh, "bits_ac_luminance", "jstdhuff.c"); std_ac_vals = c_array(jsh, "val_ac_luminance", "jstdhuff.c")
std_chr_q = c_array(jcp, "std_chrominance_quant_tbl", "jcparam.c")
std_dcc_bits = c_array(jsh, "bits_dc_chrominance", "jstdhuff.c"); std_dcc_vals = c_array(jsh, "val_dc_chrominance", "jstdhuff.c")
std_acc_bits = c_array(jsh, "bits_ac_chrominance", "jstdhuff.c"); std_acc_vals = c_array(jsh, "val_ac_chrominance", "jstdhuff.c")
# jcapimin.c: the state tests of jpeg_write_marker / jpeg_write_m_header / jpeg_write_tables, jcmarker.c write_marker_header
jcam2 = strip_comments(rd("jcapimin.c"))
wm_test = (r"if \(cinfo->next_scanline != 0 \|\|\s*\(cinfo->global_state != CSTATE_SCANNING &&\s*cinfo->global_state != CSTATE_RAW_OK &&\s*"
           r"cinfo->global_state != CSTATE_WRCOEFS\)\)\s*ERREXIT1\(cinfo, JERR_BAD_STATE, cinfo->global_state\);")
if len(re.findall(wm_test, jcam2)) != 2:
    die("jcapimin.c: state test of jpeg_write_marker / jpeg_write_m_header not found twice")
if not re.search(r"jpeg_write_tables\(j_compress_ptr cinfo\)\s*\{\s*if \(cinfo->global_state != CSTATE_START\)\s*ERREXIT1\(cinfo, JERR_BAD_STATE, cinfo->global_state\);"
                 r".*?jinit_marker_writer\(cinfo\);\s*\(\*cinfo->marker->write_tables_only\) \(cinfo\);", jcam2, re.S):
    die("jcapimin.c: jpeg_write_tables no longer has the modelled form")
m = re.search(r"if \(datalen > \(unsigned int\)(\d+)\)\s*ERREXIT\(cinfo, JERR_BAD_LENGTH\);\s*emit_marker\(cinfo, \(JPEG_MARKER\)marker\);\s*emit_2bytes\(cinfo, \(int\)\(datalen \+ 2\)\);", jcmk)
if not m:
    die("jcmarker.c: write_marker_header no longer has the modelled form")
consts["MARKER_MAX_DATA"] = int(m.group(1))
if not re.search(r"emit_marker\(cinfo, M_SOI\);\s*for \(i = 0; i < NUM_QUANT_TBLS; i\+\+\) \{\s*if \(cinfo->quant_tbl_ptrs\[i\] != NULL\)\s*\(void\)emit_dqt\(cinfo, i\);\s*\}\s*"
                 r"if \(!cinfo->arith_code\) \{\s*for \(i = 0; i < NUM_HUFF_TBLS; i\+\+\) \{\s*if \(cinfo->dc_huff_tbl_ptrs\[i\] != NULL\)\s*emit_dht\(cinfo, i, FALSE\);\s*"
                 r"if \(cinfo->ac_huff_tbl_ptrs\[i\] != NULL\)\s*emit_dht\(cinfo, i, TRUE\);\s*\}\s*\}\s*emit_marker\(cinfo, M_EOI\);", jcmk):
    die("jcmarker.c: write_tables_only no longer has the modelled form")
jcl = strip_comments(rd("jclossls.c"))
if not re.search(r"if \(cinfo->restart_interval % cinfo->MCUs_per_row != 0\)\s*ERREXIT2\(cinfo, JERR_BAD_RESTART,", jcl):
    die("jclossls.c: restart interval test of start_pass_lossless not found")
if len(std_lum_q) != 64 or len(std_dc_bits) != 17 or len(std_ac_bits) != 17:
    die("std table sizes changed")
m = re.search(r"if \(quality < 50\)\s*quality = 5000 / quality;\s*else\s*quality = 200 - quality \* 2;", jcp)
if not m:
    die("jcparam.c: jpeg_quality_scaling curve not found")
# jcmaster.c: the pass bookkeeping the pass model mirrors
for pat, what in [(r"if \(cinfo->Ss != 0 \|\| cinfo->Ah == 0 \|\| cinfo->arith_code \|\|\s*cinfo->master->lossless\) \{", "huff_opt_pass skip condition"),
                  (r"master->pass_type = output_pass;\s*master->pass_number\+\+;\s*#endif\s*FALLTHROUGH", "DC refinement fall-through"),
                  (r"if \(cinfo->optimize_coding\)\s*master->total_passes = cinfo->num_scans \* 2;\s*else\s*master->total_passes = cinfo->num_scans;", "total_passes"),
                  (r"if \(cinfo->arith_code\)\s*cinfo->optimize_coding = FALSE;\s*else \{\s*if \(cinfo->master->lossless \|\|\s*cinfo->progressive_mode\)\s*cinfo->optimize_coding = TRUE;", "optimize_coding forcing"),
                  (r"master->pub.is_last_pass = \(master->pass_number == master->total_passes - 1\);", "is_last_pass")]:
    if not re.search(pat, jcm):
        die("jcmaster.c: %s no longer has the modelled form" % what)

# ---------------------------------------------------------------- jcapistd.c: raw-data row accounting
jca = strip_comments(rd("jcapistd.c"))
m = re.search(r"lines_per_iMCU_row = cinfo->max_v_samp_factor \* DCTSIZE;\s*if \(num_lines < lines_per_iMCU_row\)\s*ERREXIT\(cinfo, JERR_BUFFER_SIZE\);", jca)
if not m:
    die("jcapistd.c: _jpeg_write_raw_data num_lines test not found")
m = re.search(r"cinfo->next_scanline \+= (\w+);\s*return (\w+);\s*\}\s*#endif", jca)
if not m or m.group(1) != m.group(2):
    die("jcapistd.c: _jpeg_write_raw_data row accounting not found")
if m.group(1) == "lines_per_iMCU_row":
    consts["RAW_ADVANCE"] = 1
elif m.group(1) == "num_lines":
    consts["RAW_ADVANCE"] = 2
else:
    die("jcapistd.c: _jpeg_write_raw_data advances next_scanline by an unknown amount: " + m.group(1))
jcam = strip_comments(rd("jcapimin.c"))
if not re.search(r"if \(cinfo->next_scanline < cinfo->image_height\)\s*ERREXIT\(cinfo, JERR_TOO_LITTLE_DATA\);", jcam):
    die("jcapimin.c: jpeg_finish_compress too-little-data test not found")


# ---------------------------------------------------------------- J_COLOR_SPACE, jpeg_set_colorspace, jpeg_default_colorspace
m = re.search(r"typedef enum \{(.*?)\} J_COLOR_SPACE;", jpeglib, re.S)
if not m:
    die("jpeglib.h: J_COLOR_SPACE not found")
jcs = {}
for i, item in enumerate([x.strip() for x in m.group(1).split(",") if x.strip()]):
    mm = re.fullmatch(r"(JCS_\w+)", item)
    if not mm:
        die("jpeglib.h: cannot parse J_COLOR_SPACE enumerator %r" % item)
    jcs[mm.group(1)] = i
m = re.search(r"jpeg_set_colorspace\(j_compress_ptr cinfo, J_COLOR_SPACE colorspace\)\s*\{(.*?)\n\}", jcp, re.S)
if not m:
    die("jcparam.c: jpeg_set_colorspace not found")
scs = m.group(1)
if not re.search(r"cinfo->jpeg_color_space = colorspace;\s*cinfo->write_JFIF_header = FALSE;\s*cinfo->write_Adobe_marker = FALSE;\s*switch \(colorspace\) \{", scs):
    die("jcparam.c: jpeg_set_colorspace prologue changed")
cs_rows = []
blocks = re.findall(r"case (JCS_\w+):(.*?)break;", scs, re.S)
seen_unknown = False
for name, body in blocks:
    stmts = [x.strip() for x in body.split(";") if x.strip()]
    jfif = adobe = 0; ncomp = None; comps = []
    if name == "JCS_UNKNOWN":
        if not re.search(r"cinfo->num_components = cinfo->input_components;\s*if \(cinfo->num_components < 1 \|\| cinfo->num_components > MAX_COMPONENTS\)\s*"
                         r"ERREXIT2\(cinfo, JERR_COMPONENT_COUNT, cinfo->num_components,\s*MAX_COMPONENTS\);\s*for \(ci = 0; ci < cinfo->num_components; ci\+\+\) \{\s*"
                         r"SET_COMP\(ci, ci, 1, 1, 0, 0, 0\);\s*\}", body):
            die("jcparam.c: JCS_UNKNOWN case of jpeg_set_colorspace changed")
        seen_unknown = True
        continue
    for st in stmts:
        st = re.sub(r"\s+", " ", st).replace(" ,", ",")
        if st == "cinfo->write_JFIF_header = TRUE":
            jfif = 1
        elif st == "cinfo->write_Adobe_marker = TRUE":
            adobe = 1
        elif re.fullmatch(r"cinfo->num_components = (\d+)", st):
            ncomp = int(st.split("=")[1])
        elif re.fullmatch(r"SET_COMP\((\d+), (0x[0-9A-Fa-f]+|\d+), (\d+), (\d+), (\d+), (\d+), (\d+)\)", st):
            a = re.fullmatch(r"SET_COMP\((\d+), (0x[0-9A-Fa-f]+|\d+), (\d+), (\d+), (\d+), (\d+), (\d+)\)", st).groups()
            if int(a[0]) != len(comps):
                die("jcparam.c: SET_COMP indexes of %s are not consecutive" % name)
            comps.append((int(a[1], 0),) + tuple(int(x) for x in a[2:]))
        else:
            die("jcparam.c: unexpected statement in case %s of jpeg_set_colorspace: %r" % (name, st))
    if ncomp != len(comps):
        die("jcparam.c: num_components of %s does not match its SET_COMP list" % name)
    cs_rows.append((jcs[name], jfif, adobe, comps))
if not seen_unknown or not re.search(r"default:\s*ERREXIT\(cinfo, JERR_BAD_J_COLORSPACE\);", scs):
    die("jcparam.c: jpeg_set_colorspace JCS_UNKNOWN / default cases not found")
m = re.search(r"jpeg_default_colorspace\(j_compress_ptr cinfo\)\s*\{\s*switch \(cinfo->in_color_space\) \{(.*?)default:\s*ERREXIT\(cinfo, JERR_BAD_IN_COLORSPACE\);", jcp, re.S)
if not m:
    die("jcparam.c: jpeg_default_colorspace not found")
dflt_rows = []
for labels, body in re.findall(r"((?:case JCS_\w+:\s*)+)(.*?)break;", m.group(1), re.S):
    body = re.sub(r"#ifdef C_LOSSLESS_SUPPORTED|#endif", "", body)
    body = re.sub(r"\s+", " ", body).strip()
    mm = re.fullmatch(r"jpeg_set_colorspace\(cinfo, (JCS_\w+)\);", body)
    m2 = re.fullmatch(r"if \(cinfo->master->lossless\) jpeg_set_colorspace\(cinfo, (JCS_\w+)\); else jpeg_set_colorspace\(cinfo, (JCS_\w+)\);", body)
    if mm:
        lossy = lossl = jcs[mm.group(1)]
    elif m2:
        lossl, lossy = jcs[m2.group(1)], jcs[m2.group(2)]
    else:
        die("jcparam.c: cannot interpret a case of jpeg_default_colorspace: %r" % body)
    for lab in re.findall(r"JCS_\w+", labels):
        dflt_rows.append((jcs[lab], lossy, lossl))
m = re.search(r"if \(quality <= 0\) quality = 1;\s*if \(quality > 100\) quality = 100;\s*if \(quality < 50\)\s*quality = (\d+) / quality;\s*else\s*quality = (\d+) - quality \* (\d+);", jcp)
if not m:
    die("jcparam.c: jpeg_quality_scaling not found")
consts["QS_NUM"], consts["QS_BASE"], consts["QS_MUL"] = int(m.group(1)), int(m.group(2)), int(m.group(3))
for pat, what in [(r"jpeg_set_linear_quality\(j_compress_ptr cinfo, int scale_factor,\s*boolean force_baseline\)\s*\{\s*jpeg_add_quant_table\(cinfo, 0, std_luminance_quant_tbl,\s*scale_factor, force_baseline\);\s*"
                   r"jpeg_add_quant_table\(cinfo, 1, std_chrominance_quant_tbl,\s*scale_factor, force_baseline\);", "jpeg_set_linear_quality"),
                  (r"quality = jpeg_quality_scaling\(quality\);\s*jpeg_set_linear_quality\(cinfo, quality, force_baseline\);", "jpeg_set_quality"),
                  (r"temp = \(\(long\)basic_table\[i\] \* scale_factor \+ 50L\) / 100L;", "jpeg_add_quant_table scaling"),
                  (r"jpeg_set_quality\(cinfo, 75, TRUE\);\s*std_huff_tables\(\(j_common_ptr\)cinfo\);", "jpeg_set_defaults tables")]:
    if not re.search(pat, jcp):
        die("jcparam.c: %s no longer has the modelled form" % what)
# ---------------------------------------------------------------- jcinit.c: module selection
jci = strip_comments(rd("jcinit.c"))
for pat, what in [(r"jinit_c_master_control\(cinfo, FALSE\s*\);\s*if \(!cinfo->raw_data_in\) \{\s*if \(cinfo->data_precision <= 8\) \{\s*jinit_color_converter\(cinfo\);\s*jinit_downsampler\(cinfo\);\s*jinit_c_prep_controller\(cinfo, FALSE\s*\);", "preprocessing selection"),
                  (r"if \(cinfo->master->lossless\) \{\s*#ifdef C_LOSSLESS_SUPPORTED\s*if \(cinfo->data_precision <= 8\)\s*jinit_lossless_compressor\(cinfo\);", "lossless compressor selection"),
                  (r"if \(cinfo->arith_code\) \{\s*ERREXIT\(cinfo, JERR_ARITH_NOTIMPL\);\s*\} else \{\s*jinit_lhuff_encoder\(cinfo\);\s*\}", "lossless entropy selection"),
                  (r"if \(cinfo->data_precision == 8\)\s*jinit_forward_dct\(cinfo\);\s*else if \(cinfo->data_precision == 12\)\s*j12init_forward_dct\(cinfo\);\s*else\s*ERREXIT1\(cinfo, JERR_BAD_PRECISION, cinfo->data_precision\);", "forward DCT selection"),
                  (r"if \(cinfo->arith_code\) \{\s*#ifdef C_ARITH_CODING_SUPPORTED\s*jinit_arith_encoder\(cinfo\);\s*#else\s*ERREXIT\(cinfo, JERR_ARITH_NOTIMPL\);\s*#endif\s*\} else \{\s*if \(cinfo->progressive_mode\) \{\s*#ifdef C_PROGRESSIVE_SUPPORTED\s*jinit_phuff_encoder\(cinfo\);", "lossy entropy selection"),
                  (r"\} else\s*jinit_huff_encoder\(cinfo\);", "sequential Huffman selection"),
                  (r"jinit_c_coef_controller\(cinfo, \(boolean\)\(cinfo->num_scans > 1 \|\|\s*cinfo->optimize_coding\)\);", "coefficient buffer mode"),
                  (r"jinit_marker_writer\(cinfo\);\s*\(\*cinfo->mem->realize_virt_arrays\) \(\(j_common_ptr\)cinfo\);\s*\(\*cinfo->marker->write_file_header\) \(cinfo\);", "marker writer / file header")]:
    if not re.search(pat, jci):
        die("jcinit.c: %s no longer has the modelled form" % what)

# ---------------------------------------------------------------- jcinit.c jinit_compress_master as a decision tree
def preprocess(src, defined):
    """resolve #ifdef NAME / #else / #endif for the feature macros of the build (all defined)"""
    out, stack = [], []
    for ln in src.split("\n"):
        t = ln.strip()
        mm = re.match(r"#\s*ifdef\s+(\w+)", t)
        if mm:
            if mm.group(1) not in defined:
                die("jcinit.c: #ifdef %s: unknown feature macro" % mm.group(1))
            stack.append(True); continue
        if re.match(r"#\s*else", t):
            if not stack:
                die("jcinit.c: #else without #ifdef")
            stack[-1] = not stack[-1]; continue
        if re.match(r"#\s*endif", t):
            if not stack:
                die("jcinit.c: #endif without #ifdef")
            stack.pop(); continue
        if t.startswith("#"):
            die("jcinit.c: unexpected preprocessor line in jinit_compress_master: " + t)
        if all(stack):
            out.append(ln)
    return "\n".join(out)

m = re.search(r"GLOBAL\(void\)\s*jinit_compress_master\(j_compress_ptr cinfo\)\s*\{(.*)\n\}", strip_comments(rd("jcinit.c")), re.S)
if not m:
    die("jcinit.c: jinit_compress_master not found")
cm_src = preprocess(m.group(1), {"C_LOSSLESS_SUPPORTED", "C_ARITH_CODING_SUPPORTED", "C_PROGRESSIVE_SUPPORTED"})
cm_toks = re.findall(r"[A-Za-z_]\w*|\d+|->|==|!=|<=|>=|\|\||&&|[{}();,!<>*&.]", cm_src)

CM_MODULES = ["c_master_control", "color_converter", "downsampler", "c_prep_controller", "lossless_compressor", "lhuff_encoder",
              "c_diff_controller", "forward_dct", "arith_encoder", "phuff_encoder", "huff_encoder", "c_coef_controller",
              "c_main_controller", "marker_writer", "realize_virt_arrays", "write_file_header"]
CM_ERRS = {"JERR_ARITH_NOTIMPL": "ArithNotImpl_", "JERR_BAD_PRECISION": "BadPrecision_", "JERR_NOT_COMPILED": "NotCompiled_"}

class CMParser:
    def __init__(self, toks):
        self.t, self.i = toks, 0
    def peek(self, k=0):
        return self.t[self.i + k] if self.i + k < len(self.t) else None
    def eat(self, x=None):
        tok = self.peek()
        if tok is None or (x is not None and tok != x):
            die("jcinit.c: jinit_compress_master: expected %r, found %r near token %d" % (x, tok, self.i))
        self.i += 1
        return tok
    def cond(self):
        """cond := '!'? atom ; atom := cinfo->raw_data_in | cinfo->master->lossless | cinfo->arith_code | cinfo->progressive_mode
                                        | cinfo->data_precision (<=|==) N"""
        neg = False
        if self.peek() == "!":
            self.eat(); neg = True
        self.eat("cinfo"); self.eat("->")
        f = self.eat()
        if f == "master":
            self.eat("->"); f = self.eat()
            if f != "lossless":
                die("jcinit.c: unknown condition field master->%s" % f)
            c = "CLossless"
        elif f == "raw_data_in":
            c = "CRaw"
        elif f == "arith_code":
            c = "CArith"
        elif f == "progressive_mode":
            c = "CProg"
        elif f == "data_precision":
            op = self.eat(); n = self.eat()
            if op not in ("<=", "==") or not n.isdigit():
                die("jcinit.c: unknown precision test %s %s" % (op, n))
            c = "(%s %s)" % ("CPrecLe" if op == "<=" else "CPrecEq", n)
        else:
            die("jcinit.c: unknown condition field %s" % f)
        return "(CNot %s)" % c if neg else c
    def args_until_close(self):
        depth, out = 1, []
        while True:
            tok = self.eat()
            if tok == "(":
                depth += 1
            elif tok == ")":
                depth -= 1
                if depth == 0:
                    return out
            out.append(tok)
    def stmt(self):
        tok = self.peek()
        if tok == "{":
            self.eat()
            items = []
            while self.peek() != "}":
                items.append(self.stmt())
            self.eat("}")
            return "(TSeq [%s])" % "; ".join(items)
        if tok == "if":
            self.eat(); self.eat("("); c = self.cond(); self.eat(")")
            th = self.stmt()
            el = "TNop"
            if self.peek() == "else":
                self.eat(); el = self.stmt()
            return "(TIf %s %s %s)" % (c, th, el)
        if tok in ("ERREXIT", "ERREXIT1", "ERREXIT2"):
            self.eat(); self.eat("("); a = self.args_until_close(); self.eat(";")
            if len(a) < 3 or a[0] != "cinfo" or a[2] not in CM_ERRS:
                die("jcinit.c: unknown ERREXIT in jinit_compress_master: %r" % a)
            return "(TErr %s)" % CM_ERRS[a[2]]
        if tok == "(":        # (*cinfo->mem->realize_virt_arrays) ((j_common_ptr)cinfo);  /  (*cinfo->marker->write_file_header) (cinfo);
            self.eat(); self.eat("*"); self.eat("cinfo"); self.eat("->"); self.eat(); self.eat("->"); name = self.eat(); self.eat(")")
            self.eat("("); self.args_until_close(); self.eat(";")
            if name not in CM_MODULES:
                die("jcinit.c: unknown method call %s in jinit_compress_master" % name)
            return "(TCall %d ArgNone)" % CM_MODULES.index(name)
        mm = re.fullmatch(r"j(?:12|16)?init_(\w+)", tok or "")
        if mm:
            self.eat(); self.eat("("); a = self.args_until_close(); self.eat(";")
            name = mm.group(1)
            if name not in CM_MODULES:
                die("jcinit.c: unknown module initialiser %s in jinit_compress_master" % tok)
            rest = a[2:] if a[:1] == ["cinfo"] and len(a) > 1 else []
            if a == ["cinfo"]:
                arg = "ArgNone"
            elif rest == ["FALSE"]:
                arg = "ArgFalse"
            elif rest == ["(", "boolean", ")", "(", "cinfo", "->", "num_scans", ">", "1", "||", "cinfo", "->", "optimize_coding", ")"]:
                arg = "ArgFullBuf"
            else:
                die("jcinit.c: unknown argument list of %s: %r" % (tok, a))
            return "(TCall %d %s)" % (CM_MODULES.index(name), arg)
        die("jcinit.c: unknown statement in jinit_compress_master starting at %r" % tok)

cmp_ = CMParser(cm_toks)
cm_items = []
while cmp_.peek() is not None:
    cm_items.append(cmp_.stmt())
cm_tree = "TSeq [%s]" % ";\n    ".join(cm_items)

# ---------------------------------------------------------------- TurboJPEG: tables and checks of tj3Compress*
def tj_array(src, name, fname):
    mm = re.search(r"%s\[[^\]]*\]\s*=\s*\{([^}]*)\}" % name, src)
    if not mm:
        die("%s: %s not found" % (fname, name))
    return [x.strip() for x in mm.group(1).replace("\n", " ").split(",") if x.strip()]
tjh = rd("turbojpeg.h")
tjc = strip_comments(rd("turbojpeg.c"))
tjh2 = strip_comments(tjh)
consts["TJ_NUMSAMP"] = ev(define(tjh2, "TJ_NUMSAMP", "turbojpeg.h"), "TJ_NUMSAMP")
tj_pixsize = [int(x) for x in tj_array(tjh2, "tjPixelSize", "turbojpeg.h")]
tj_mcuw = [int(x) for x in tj_array(tjh2, "tjMCUWidth", "turbojpeg.h")]
tj_mcuh = [int(x) for x in tj_array(tjh2, "tjMCUHeight", "turbojpeg.h")]
tj_pf2cs = [jcs[x] for x in tj_array(tjc, "pf2cs", "turbojpeg.c")]
consts["TJ_NUMPF"] = ev(define(tjh2, "TJ_NUMPF", "turbojpeg.h"), "TJ_NUMPF")
if not (len(tj_pixsize) == len(tj_pf2cs) == consts["TJ_NUMPF"] and len(tj_mcuw) == len(tj_mcuh) == consts["TJ_NUMSAMP"]):
    die("turbojpeg: table sizes inconsistent")
tjmp = strip_comments(rd("turbojpeg-mp.c"))
for pat, what in [(r"if \(srcBuf == NULL \|\| width <= 0 \|\| pitch < 0 \|\| height <= 0 \|\|\s*pixelFormat < 0 \|\| pixelFormat >= TJ_NUMPF \|\| jpegBuf == NULL \|\|\s*jpegSize == NULL\)\s*THROW\(\"Invalid argument\"\);", "argument check"),
                  (r"if \(!this->lossless && this->quality == -1\)\s*THROW\(\"TJPARAM_QUALITY must be specified\"\);\s*if \(!this->lossless && this->subsamp == TJSAMP_UNKNOWN\)\s*THROW\(\"TJPARAM_SUBSAMP must be specified\"\);", "quality / subsamp check"),
                  (r"cinfo->data_precision = BITS_IN_JSAMPLE;\s*#if BITS_IN_JSAMPLE == 8\s*if \(this->lossless && this->precision >= 2 &&\s*this->precision <= BITS_IN_JSAMPLE\)\s*#else\s*if \(this->lossless && this->precision >= BITS_IN_JSAMPLE - 3 &&\s*this->precision <= BITS_IN_JSAMPLE\)\s*#endif\s*cinfo->data_precision = this->precision;", "precision selection"),
                  (r"setCompDefaults\(this, pixelFormat\);", "setCompDefaults call")]:
    if not re.search(pat, tjmp):
        die("turbojpeg-mp.c: tj3Compress %s no longer has the modelled form" % what)
for pat, what in [(r"if \(this->lossless\) \{\s*#ifdef C_LOSSLESS_SUPPORTED\s*jpeg_enable_lossless\(&this->cinfo, this->losslessPSV, this->losslessPt\);\s*#endif", "lossless branch"),
                  (r"this->cinfo\.comp_info\[0\]\.h_samp_factor = tjMCUWidth\[subsamp\] / 8;\s*this->cinfo\.comp_info\[1\]\.h_samp_factor = 1;\s*this->cinfo\.comp_info\[2\]\.h_samp_factor = 1;\s*if \(this->cinfo\.num_components > 3\)\s*this->cinfo\.comp_info\[3\]\.h_samp_factor = tjMCUWidth\[subsamp\] / 8;", "sampling factors"),
                  (r"if \(this->cinfo\.data_precision == 8\)\s*this->cinfo\.optimize_coding = this->optimize;", "optimize rule"),
                  (r"default:\s*if \(subsamp == TJSAMP_GRAY\)\s*jpeg_set_colorspace\(&this->cinfo, JCS_GRAYSCALE\);\s*else if \(pixelFormat == TJPF_CMYK\)\s*jpeg_set_colorspace\(&this->cinfo, JCS_YCCK\);\s*else\s*jpeg_set_colorspace\(&this->cinfo, JCS_YCbCr\);", "default colourspace rule")]:
    if not re.search(pat, tjc):
        die("turbojpeg.c: setCompDefaults %s no longer has the modelled form" % what)
tjcs = []
for nm in ["TJCS_RGB", "TJCS_YCbCr", "TJCS_GRAY", "TJCS_CMYK", "TJCS_YCCK"]:
    mm = re.search(r"case %s:\s*jpeg_set_colorspace\(&this->cinfo, (JCS_\w+)\);" % nm, tjc)
    if not mm:
        die("turbojpeg.c: setCompDefaults case %s not found" % nm)
    tjcs.append(jcs[mm.group(1)])
mm = re.search(r"enum TJCS \{(.*?)\};", tjh2, re.S)
if not mm or [x.strip() for x in mm.group(1).split(",") if x.strip()] != ["TJCS_RGB", "TJCS_YCbCr", "TJCS_GRAY", "TJCS_CMYK", "TJCS_YCCK"]:
    die("turbojpeg.h: enum TJCS changed")
mm = re.search(r"enum TJSAMP \{(.*?)\};", tjh2, re.S)
if not mm:
    die("turbojpeg.h: enum TJSAMP not found")
tjsamp = [x.strip() for x in mm.group(1).split(",") if x.strip()]
if tjsamp[3] != "TJSAMP_GRAY" or not tjsamp[-1].replace(" ", "").startswith("TJSAMP_UNKNOWN=-1"):
    die("turbojpeg.h: TJSAMP_GRAY / TJSAMP_UNKNOWN changed")

# ---------------------------------------------------------------- jcdctmgr.c (F3 fix)
jcd = strip_comments(rd("jcdctmgr.c"))
m = re.search(r"#define CLAMP_DIVISOR\(d\)\s+\(\(d\) > (\d+) \? \(UINT16\)(\d+) : \(UINT16\)\(d\)\)", jcd)
ncalls = len(re.findall(r"compute_reciprocal\(", jcd)) - 1           # minus the definition
nclamped = len(re.findall(r"compute_reciprocal\(\s*CLAMP_DIVISOR\(", jcd))
divisor_clamped = 1 if (m and m.group(1) == m.group(2) == "65535" and ncalls > 0 and ncalls == nclamped) else 0
consts["DIVISOR_CLAMP"] = int(m.group(1)) if m else 0
consts["DIVISOR_CLAMPED_EVERYWHERE"] = divisor_clamped
# F13 fix: a zero quantization value is rejected before any divisor is computed
m = re.search(r"qtbl = cinfo->quant_tbl_ptrs\[qtblno\];\s*for \(i = 0; i < DCTSIZE2; i\+\+\) \{\s*if \(qtbl->quantval\[i\] == 0\)\s*"
              r"ERREXIT1\(cinfo, JERR_NO_QUANT_TABLE, qtblno\);\s*\}", jcd)
consts["ZERO_QUANT_REJECTED"] = 1 if m else 0
# F12 fix: validate_script checks the component count before touching its per-component arrays
m = re.search(r"if \(cinfo->num_scans <= 0\)\s*ERREXIT1\(cinfo, JERR_BAD_SCAN_SCRIPT, 0\);\s*"
              r"if \(cinfo->num_components > MAX_COMPONENTS\)\s*ERREXIT2\(cinfo, JERR_COMPONENT_COUNT, cinfo->num_components,\s*MAX_COMPONENTS\);", jcm)
consts["NCOMP_CHECK_IN_VALIDATE"] = 1 if m else 0
# F14 fix: the script is validated again after lossless mode reset the colour space
m = re.search(r"jpeg_default_colorspace\(cinfo\);\s*#ifdef NEED_SCAN_SCRIPT\s*if \(cinfo->scan_info != NULL\)\s*validate_script\(cinfo\);\s*#endif\s*"
              r"for \(ci = 0, compptr = cinfo->comp_info; ci < cinfo->num_components;", jcm)
consts["REVALIDATE_AFTER_LOSSLESS"] = 1 if m else 0
m = re.search(r"if \(cinfo->scan_info != NULL\) \{\s*#ifdef NEED_SCAN_SCRIPT\s*validate_script\(cinfo\);", jcm)
if not m:
    die("jcmaster.c: jinit_c_master_control no longer validates the script first")

# ---------------------------------------------------------------- turbojpeg
tjh = rd("turbojpeg.h")
for n in ["TJ_NUMSAMP", "TJ_NUMCS"]:
    consts[n] = ev(define(strip_comments(tjh), n, "turbojpeg.h"), n)
m = re.search(r"enum TJPARAM \{(.*?)\n\};", tjh, re.S)
if not m:
    die("turbojpeg.h: enum TJPARAM not found")
body = strip_comments(m.group(1))
names, val = [], 0
for item in [x.strip() for x in body.split(",") if x.strip()]:
    mm = re.fullmatch(r"(TJPARAM_\w+)(?:\s*=\s*(-?\d+))?", item)
    if not mm:
        die("turbojpeg.h: cannot parse TJPARAM enumerator %r" % item)
    if mm.group(2) is not None:
        val = int(mm.group(2))
    names.append((mm.group(1), val))
    val += 1

tjc = strip_comments(rd("turbojpeg.c"))
m = re.search(r"#define SET_PARAM\(field, minValue, maxValue\) \{ \\\s*if \(value < minValue \|\| \(maxValue > 0 && value > maxValue\)\) \\\s*"
              r"THROW\(\"Parameter value out of range\"\); \\\s*this->field = value; \\\s*\}", tjc)
if not m:
    die("turbojpeg.c: SET_PARAM macro no longer has the modelled form")
m = re.search(r"#define SET_BOOL_PARAM\(field\) \{ \\\s*if \(value < 0 \|\| value > 1\) \\\s*THROW\(\"Parameter value out of range\"\); \\\s*"
              r"this->field = \(boolean\)value; \\\s*\}", tjc)
if not m:
    die("turbojpeg.c: SET_BOOL_PARAM macro no longer has the modelled form")
m = re.search(r"DLLEXPORT int tj3Set\(tjhandle handle, int param, int value\)\s*\{(.*?)\n\}", tjc, re.S)
if not m:
    die("turbojpeg.c: tj3Set not found")
sw = m.group(1)
cases = re.findall(r"case (TJPARAM_\w+):(.*?)break;", sw, re.S)
if not cases:
    die("turbojpeg.c: no case TJPARAM_x in tj3Set")
if not re.search(r'default:\s*THROW\("Invalid parameter"\);', sw):
    die("turbojpeg.c: tj3Set default: THROW(\"Invalid parameter\") not found")
# kind: 0 = bool, 1 = range, 2 = always rejected (read-only).  need: 0 none, 1 COMPRESS, 2 DECOMPRESS
rows = []
enumv = dict(names)
fields = {}
for name, bodyc in cases:
    if name not in enumv:
        die("turbojpeg.c: case %s not in enum TJPARAM" % name)
    need = 0
    b = bodyc
    mm = re.search(r"if \(!\(this->init & (COMPRESS|DECOMPRESS)\)\)\s*THROW\([^;]*\);", b)
    if mm:
        need = 1 if mm.group(1) == "COMPRESS" else 2
        b = b.replace(mm.group(0), "")
    b = b.strip()
    sp = re.match(r"SET_PARAM\((\w[\w.]*), (.+?), ([^;]+)\);?(.*)$", b, re.S)
    sb = re.match(r"SET_BOOL_PARAM\((\w[\w.]*)\);?(.*)$", b, re.S)
    if sp:
        # split "lo, hi" at the top-level comma: lo is always a plain token here
        lo = ev(sp.group(2), name + " min")
        hi = ev(sp.group(3).rstrip(")") if sp.group(3).count(")") > sp.group(3).count("(") else sp.group(3), name + " max")
        rest = sp.group(4).strip()
        if rest and not re.fullmatch(r"if \(value != 0\) this->\w+ = 0;", rest):
            die("turbojpeg.c: unexpected statement in case %s: %r" % (name, rest))
        rows.append((name, enumv[name], 1, need, lo, hi)); fields[name] = sp.group(1)
    elif sb:
        if sb.group(2).strip():
            die("turbojpeg.c: unexpected statement in case %s: %r" % (name, sb.group(2)))
        rows.append((name, enumv[name], 0, need, 0, 1)); fields[name] = sb.group(1)
    elif re.fullmatch(r"THROW\([^;]*\);", b):
        rows.append((name, enumv[name], 2, need, 0, 0)); fields[name] = "-"
    else:
        die("turbojpeg.c: cannot interpret case %s: %r" % (name, b))
missing = [n for n, _ in names if n not in dict((r[0], 1) for r in rows)]
if missing:
    die("turbojpeg.c: tj3Set has no case for %s" % missing)
# consumers of the stored values: the casts in setCompDefaults the ranges must fit
for pat, what in [(r"this->cinfo\.restart_interval = this->restartIntervalBlocks;", "restart_interval consumer"),
                  (r"this->cinfo\.restart_in_rows = this->restartIntervalRows;", "restart_in_rows consumer"),
                  (r"this->cinfo\.X_density = \(UINT16\)this->xDensity;", "X_density consumer"),
                  (r"this->cinfo\.Y_density = \(UINT16\)this->yDensity;", "Y_density consumer"),
                  (r"this->cinfo\.density_unit = \(UINT8\)this->densityUnits;", "density_unit consumer"),
                  (r"max_memory_to_use = \(long\)this->maxMemory \* 1048576L;", "maxMemory consumer"),
                  (r"jpeg_enable_lossless\(&this->cinfo, this->losslessPSV, this->losslessPt\);", "lossless consumer"),
                  (r"jpeg_set_quality\(&this->cinfo, this->quality, TRUE\);", "quality consumer"),
                  (r"tjMCUWidth\[subsamp\] / 8", "subsamp consumer")]:
    if not re.search(pat, tjc):
        die("turbojpeg.c: %s no longer has the modelled form" % what)

# ---------------------------------------------------------------- output
out = []
out.append("(* GENERATED by tools/gen_Params.py from src/{jpeglib.h,jmorecfg.h,jchuff.c,jcphuff.c,jcmaster.c,jcparam.c,jcdctmgr.c,turbojpeg.c,turbojpeg.h} -- do not edit *)")
out.append("From Coq Require Import List ZArith.\nImport ListNotations.\nLocal Open Scope Z_scope.\n")
for k in ["DCTSIZE", "DCTSIZE2", "MAX_COMPONENTS", "MAX_COMPS_IN_SCAN", "C_MAX_BLOCKS_IN_MCU", "D_MAX_BLOCKS_IN_MCU", "MAX_SAMP_FACTOR",
          "NUM_QUANT_TBLS", "NUM_HUFF_TBLS", "NUM_ARITH_TBLS", "JPEG_MAX_DIMENSION", "BUFSIZE", "BIT_BUF_SIZE", "BIT_BUF_SIZE_32",
          "MAX_COEF_BITS_ADD", "DC_EXTRA_BITS", "AHAL_PREC", "MAX_AH_AL_HI", "MAX_AH_AL_LO", "LOSSLESS_PREC_MIN", "LOSSLESS_PREC_MAX",
          "LOSSY_PREC_A", "LOSSY_PREC_B", "RESTART_MAX", "PSV_MIN", "PSV_MAX", "QUANT_MIN", "QUANT_MAX", "QUANT_BASELINE_MAX",
          "QUALITY_MIN", "QUALITY_MAX", "SP_YCC_NCOMPS", "SP_YCC_NSCANS", "SP_BIG_MUL", "SP_ADD", "SP_MUL", "SP_SIZE_RULE",
          "SP_ALLOC_GUARD", "SP_MIN_SLOTS", "DRI_RULE", "RAW_ADVANCE", "MAX_CORR_BITS", "CORR_FLUSH_THRESHOLD", "CORR_BUFFER_SIZE", "QS_NUM", "QS_BASE", "QS_MUL", "TJ_NUMPF", "MARKER_MAX_DATA", "DQT_INDEX_CHECK", "HUFF_TBLNO_CHECK_FIRST", "DIVISOR_CLAMP", "DIVISOR_CLAMPED_EVERYWHERE", "ZERO_QUANT_REJECTED",
          "NCOMP_CHECK_IN_VALIDATE", "REVALIDATE_AFTER_LOSSLESS", "MISSING_CODE_CHECK", "MISSING_ZRL_EOB_CHECK", "SIMD_RANGE_PRECHECK", "RESTART_CLAMP_DIRECT", "TJ_NUMSAMP", "TJ_NUMCS"]:
    out.append("Definition g_%s : Z := %d." % (k, consts[k]))
out.append("\n(* zigzag order of encode_one_block: position 0 and the 63 kloop() arguments *)")
out.append("Definition g_kloop_order : list Z :=\n  [%s]." % "; ".join(map(str, zz)))
for nm in sorted(mcodes):
    out.append("Definition g_M_%s : Z := %d." % (nm, mcodes[nm]))
for nm, l in (("g_std_luminance_quant_tbl", std_lum_q), ("g_std_dc_bits", std_dc_bits), ("g_std_dc_vals", std_dc_vals),
              ("g_std_ac_bits", std_ac_bits), ("g_std_ac_vals", std_ac_vals), ("g_std_chrominance_quant_tbl", std_chr_q),
              ("g_std_dcc_bits", std_dcc_bits), ("g_std_dcc_vals", std_dcc_vals), ("g_std_acc_bits", std_acc_bits), ("g_std_acc_vals", std_acc_vals)):
    out.append("Definition %s : list Z :=\n  [%s]." % (nm, "; ".join(map(str, l))))
for nm in sorted(jcs):
    out.append("Definition g_%s : Z := %d." % (nm, jcs[nm]))
out.append("(* jpeg_set_colorspace: (colorspace, write_JFIF_header, write_Adobe_marker, [(id, h, v, Tq, Td, Ta)]) *)")
out.append("Definition g_colorspaces : list (Z * Z * Z * list (Z * Z * Z * Z * Z * Z)) :=\n  [%s]." % ";\n   ".join(
    "(%d, %d, %d, [%s])" % (c, j, a, "; ".join("(%d, %d, %d, %d, %d, %d)" % t for t in comps)) for c, j, a, comps in cs_rows))
out.append("(* jpeg_default_colorspace: (in_color_space, jpeg colour space, jpeg colour space in lossless mode) *)")
out.append("Definition g_default_colorspace : list (Z * Z * Z) :=\n  [%s]." % "; ".join("(%d, %d, %d)" % t for t in dflt_rows))
for nm, l in (("g_tjPixelSize", tj_pixsize), ("g_tjMCUWidth", tj_mcuw), ("g_tjMCUHeight", tj_mcuh), ("g_tj_pf2cs", tj_pf2cs), ("g_tjcs2jcs", tjcs)):
    out.append("Definition %s : list Z :=\n  [%s]." % (nm, "; ".join(map(str, l))))
out.append("\n(* jcinit.c jinit_compress_master, statement by statement (feature macros of the build resolved) *)")
out.append("Inductive cm_cond := CRaw | CLossless | CArith | CProg | CPrecLe (n : Z) | CPrecEq (n : Z) | CNot (c : cm_cond).")
out.append("Inductive cm_arg := ArgNone | ArgFalse | ArgFullBuf.")
out.append("Inductive cm_err := ArithNotImpl_ | BadPrecision_ | NotCompiled_.")
out.append("Inductive cm_tree := TNop | TSeq (l : list cm_tree) | TIf (c : cm_cond) (t e : cm_tree) | TCall (module : Z) (a : cm_arg) | TErr (e : cm_err).")
for i, nm in enumerate(CM_MODULES):
    out.append("Definition g_MOD_%s : Z := %d." % (nm, i))
out.append("Definition g_compress_master : cm_tree :=\n  %s." % cm_tree)
out.append("\n(* jpeg_simple_progression: the two scripts as calls (kind, a, b, c, d, e): 0 fill_dc_scans(Ah, Al), 1 fill_a_scan(ci, Ss, Se, Ah, Al), 2 fill_scans(Ss, Se, Ah, Al) *)")
for nm, l in (("g_sp_ycc", sp_ycc), ("g_sp_gen", sp_gen)):
    out.append("Definition %s : list (Z * Z * Z * Z * Z * Z) :=\n  [%s]." % (nm, "; ".join("(%d, %d, %d, %d, %d, %d)" % t for t in l)))
out.append("\n(* tj3Set: (param, kind, need, lo, hi)   kind 0 = SET_BOOL_PARAM, 1 = SET_PARAM(lo, hi) (hi <= 0: no upper bound),")
out.append("   2 = always THROW (read-only);   need 0 = any instance, 1 = COMPRESS, 2 = DECOMPRESS *)")
for name, v, kind, need, lo, hi in rows:
    out.append("Definition g_%s : Z := %d.   (* field %s *)" % (name, v, fields[name]))
out.append("Definition g_tj_params : list (Z * Z * Z * Z * Z) :=\n  [%s]." % ";\n   ".join(
    "(g_%s, %d, %d, %d, %d)" % (name, kind, need, lo, hi) for name, v, kind, need, lo, hi in rows))
out.append("Definition g_tj_param_count : Z := %d." % len(names))
print("\n".join(out))
