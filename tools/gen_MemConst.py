#!/usr/bin/env python3
"""Translator for C14: constants and guard facts of the memory manager and of the
configured-limit checks, read from the CURRENT source tree (argv[1]) ->
coq/gen/GenMemConst.v on stdout.  Exits non-zero (with a message) when a source
construct the model relies on is gone.

 jmemsys.h   MAX_ALLOC_CHUNK
 jmemmgr.c   ALIGN_SIZE (SIMD / non-SIMD branch), small_pool_hdr layout,
             first_pool_slop / extra_pool_slop / MIN_SLOP, the three
             "> MAX_ALLOC_CHUNK" guards, out_of_memory codes
 jmemnobs.c  no backing store (jpeg_open_backing_store = ERREXIT), jpeg_mem_init = 0,
             jpeg_mem_available = max_memory_to_use - already_allocated
 jpeglib.h   JPOOL_*, DCTSIZE2;  jmorecfg.h JCOEF
 turbojpeg.c, turbojpeg-mp.c, rdbmp.c, rdppm.c : maxPixels / scanLimit / maxMemory checks
"""
import re, sys

repo = sys.argv[1]


def rd(p):
    try:
        return open(repo + "/" + p).read()
    except OSError as e:
        sys.exit("%s: cannot read (%s)" % (p, e))


def strip_comments(s):
    return re.sub(r"/\*.*?\*/", " ", s, flags=re.S)


def need(m, what):
    if not m:
        sys.exit(what)
    return m


def func_body(src, name, fname):
    m = re.search(r"[\n ]" + re.escape(name) + r"\s*\([^;{)]*\)\s*(?:/\*.*?\*/\s*)*\{", src, flags=re.S)
    need(m, "%s: function %s not found" % (fname, name))
    i = m.end()
    d = 1
    while d and i < len(src):
        if src[i] == "{":
            d += 1
        elif src[i] == "}":
            d -= 1
        i += 1
    return " ".join(strip_comments(src[m.end():i - 1]).split())


out = []
P = out.append

# ---------------------------------------------------------------- jmemsys.h
sysh = rd("src/jmemsys.h")
m = need(re.search(r"#ifndef MAX_ALLOC_CHUNK[^\n]*\n#define MAX_ALLOC_CHUNK\s+(\d+)L?\s*\n", sysh),
         "jmemsys.h: '#define MAX_ALLOC_CHUNK <n>L' not found")
max_chunk = int(m.group(1))

# ---------------------------------------------------------------- jmemmgr.c
mm = rd("src/jmemmgr.c")
mmn = strip_comments(mm)
m = need(re.search(r"#ifndef ALIGN_SIZE\s*\n#ifndef WITH_SIMD\s*\n#define ALIGN_SIZE\s+MAX\(sizeof\(void \*\), sizeof\(double\)\)\s*\n"
                   r"#else\s*\n#define ALIGN_SIZE\s+(\d+)", mmn),
         "jmemmgr.c: ALIGN_SIZE definition (MAX(sizeof(void *), sizeof(double)) / SIMD constant) not found")
align_simd = int(m.group(1))
align_nosimd = 8        # LP64: sizeof(void *) = sizeof(double) = 8 (the harness reports its real value; the check compares)
m = need(re.search(r"typedef struct small_pool_struct \{\s*small_pool_ptr next;\s*size_t bytes_used;\s*size_t bytes_left;\s*\} small_pool_hdr;", mmn),
         "jmemmgr.c: small_pool_hdr is no longer {next, bytes_used, bytes_left}")
need(re.search(r"typedef struct large_pool_struct \{\s*large_pool_ptr next;\s*size_t bytes_used;\s*size_t bytes_left;\s*\} large_pool_hdr;", mmn),
     "jmemmgr.c: large_pool_hdr is no longer {next, bytes_used, bytes_left}")
hdr = 24


def arr(name):
    m = need(re.search(r"static const size_t " + name + r"\[JPOOL_NUMPOOLS\]\s*=\s*\{\s*(\d+)\s*,\s*(\d+)\s*\}", mmn),
             "jmemmgr.c: table %s[JPOOL_NUMPOOLS] not found" % name)
    return int(m.group(1)), int(m.group(2))


first = arr("first_pool_slop")
extra = arr("extra_pool_slop")
m = need(re.search(r"#define MIN_SLOP\s+(\d+)", mmn), "jmemmgr.c: MIN_SLOP not found")
min_slop = int(m.group(1))

b_small = func_body(mm, "alloc_small", "jmemmgr.c")
b_large = func_body(mm, "alloc_large", "jmemmgr.c")
b_sarr = func_body(mm, "alloc_sarray", "jmemmgr.c")
b_barr = func_body(mm, "alloc_barray", "jmemmgr.c")
b_real = func_body(mm, "realize_virt_arrays", "jmemmgr.c")
b_free = func_body(mm, "free_pool", "jmemmgr.c")
b_self = func_body(mm, "self_destruct", "jmemmgr.c")
b_init = func_body(mm, "jinit_memory_mgr", "jmemmgr.c")


def guard(body, var, code, fn):
    pat = r"if \(" + var + r" > MAX_ALLOC_CHUNK\) \{ out_of_memory\(cinfo, " + str(code) + r"\); \}"
    need(re.search(pat, body), "jmemmgr.c: %s no longer starts with the guard 'if (%s > MAX_ALLOC_CHUNK) out_of_memory(cinfo, %d)'" % (fn, var, code))
    # the guard must precede the rounding
    need(re.search(pat + r"[^;]*" + var + r" = (?:\(JDIMENSION\))?round_up_pow2\(" + var, body),
         "jmemmgr.c: %s: the MAX_ALLOC_CHUNK guard no longer immediately precedes round_up_pow2" % fn)


guard(b_small, "sizeofobject", 7, "alloc_small")
guard(b_large, "sizeofobject", 8, "alloc_large")
guard(b_sarr, "samplesperrow", 9, "alloc_sarray")
need(re.search(r"if \(\(sizeof\(small_pool_hdr\) \+ sizeofobject \+ ALIGN_SIZE - 1\) > MAX_ALLOC_CHUNK\) out_of_memory\(cinfo, 1\);", b_small),
     "jmemmgr.c: alloc_small: second size check (case 1) not found")
need(re.search(r"if \(\(sizeof\(large_pool_hdr\) \+ sizeofobject \+ ALIGN_SIZE - 1\) > MAX_ALLOC_CHUNK\) out_of_memory\(cinfo, 3\);", b_large),
     "jmemmgr.c: alloc_large: second size check (case 3) not found")
need(re.search(r"slop /= 2; if \(slop < MIN_SLOP\) out_of_memory\(cinfo, 2\);", b_small),
     "jmemmgr.c: alloc_small: slop-halving retry loop not found")
need(re.search(r"mem->total_space_allocated \+= min_request \+ slop;", b_small), "jmemmgr.c: alloc_small accounting not found")
need(re.search(r"mem->total_space_allocated \+= sizeofobject \+ sizeof\(large_pool_hdr\) \+ ALIGN_SIZE - 1;", b_large),
     "jmemmgr.c: alloc_large accounting not found")
for b, fn in ((b_sarr, "alloc_sarray"), (b_barr, "alloc_barray")):
    need(re.search(r"ltemp = \(MAX_ALLOC_CHUNK - sizeof\(large_pool_hdr\)\) / \(", b), "jmemmgr.c: %s: rows-per-chunk computation not found" % fn)
    need(re.search(r"if \(ltemp <= 0\) ERREXIT\(cinfo, JERR_WIDTH_OVERFLOW\);", b), "jmemmgr.c: %s: JERR_WIDTH_OVERFLOW check not found" % fn)
need(len(re.findall(r"mem->total_space_allocated -= space_freed;", b_free)) == 2, "jmemmgr.c: free_pool no longer subtracts space_freed for both lists")
need(len(re.findall(r"jpeg_free_(?:small|large)\(cinfo, \(void \*\)[sl]hdr_ptr, space_freed\);", b_free)) == 2,
     "jmemmgr.c: free_pool no longer frees both lists")
need(re.search(r"for \(pool = JPOOL_NUMPOOLS - 1; pool >= JPOOL_PERMANENT; pool--\) \{ free_pool\(cinfo, pool\); \}", b_self) and
     re.search(r"jpeg_free_small\(cinfo, \(void \*\)cinfo->mem, sizeof\(my_memory_mgr\)\); cinfo->mem = NULL;", b_self),
     "jmemmgr.c: self_destruct no longer frees every pool and the control block")
need(re.search(r"mem->total_space_allocated = sizeof\(my_memory_mgr\);", b_init), "jmemmgr.c: jinit_memory_mgr accounting not found")
need(re.search(r"avail_mem = jpeg_mem_available\(cinfo, space_per_minheight, maximum_space, mem->total_space_allocated\);", b_real),
     "jmemmgr.c: realize_virt_arrays no longer asks jpeg_mem_available")
m = need(re.search(r"if \(avail_mem >= maximum_space\) max_minheights = (\d+)L;", b_real), "jmemmgr.c: realize_virt_arrays: max_minheights constant not found")
big_minheights = int(m.group(1))
need(len(re.findall(r"jpeg_open_backing_store\(cinfo, &[sb]ptr->b_s_info,", b_real)) == 2, "jmemmgr.c: realize_virt_arrays: backing-store calls not found")

# ---------------------------------------------------------------- jmemnobs.c
nobs = rd("src/jmemnobs.c")
need(func_body(nobs, "jpeg_open_backing_store", "jmemnobs.c") == "ERREXIT(cinfo, JERR_NO_BACKING_STORE);",
     "jmemnobs.c: jpeg_open_backing_store is no longer the single statement ERREXIT(cinfo, JERR_NO_BACKING_STORE)")
need(func_body(nobs, "jpeg_mem_init", "jmemnobs.c") == "return 0;", "jmemnobs.c: jpeg_mem_init no longer returns 0")
need(func_body(nobs, "jpeg_mem_available", "jmemnobs.c") ==
     "if (cinfo->mem->max_memory_to_use) { if ((size_t)cinfo->mem->max_memory_to_use > already_allocated) "
     "return cinfo->mem->max_memory_to_use - already_allocated; else return 0; } else { return max_bytes_needed; }",
     "jmemnobs.c: jpeg_mem_available changed")
for fn in ("jpeg_get_small", "jpeg_get_large"):
    need(func_body(nobs, fn, "jmemnobs.c") == "return (void *)MALLOC(sizeofobject);", "jmemnobs.c: %s is no longer MALLOC(sizeofobject)" % fn)
for fn in ("jpeg_free_small", "jpeg_free_large"):
    need(func_body(nobs, fn, "jmemnobs.c") == "free(object);", "jmemnobs.c: %s is no longer free(object)" % fn)
cm = rd("CMakeLists.txt")
need(re.search(r"src/jmemmgr\.c\s+src/jmemnobs\.c", cm), "CMakeLists.txt: the library is no longer built with jmemnobs.c")

# ---------------------------------------------------------------- jpeglib.h / jmorecfg.h
jl = rd("src/jpeglib.h")
for nm, v in (("JPOOL_PERMANENT", 0), ("JPOOL_IMAGE", 1), ("JPOOL_NUMPOOLS", 2)):
    need(re.search(r"#define %s\s+%d\b" % (nm, v), jl), "jpeglib.h: %s is no longer %d" % (nm, v))
m = need(re.search(r"#define DCTSIZE2\s+(\d+)", jl), "jpeglib.h: DCTSIZE2 not found")
dctsize2 = int(m.group(1))
need(re.search(r"typedef JCOEF JBLOCK\[DCTSIZE2\];", jl), "jpeglib.h: JBLOCK is no longer JCOEF[DCTSIZE2]")
need(re.search(r"typedef short JCOEF;", rd("src/jmorecfg.h")), "jmorecfg.h: JCOEF is no longer short")
sizeof_jblock = 2 * dctsize2

# ---------------------------------------------------------------- limits
tj = strip_comments(rd("src/turbojpeg.c"))
mp = strip_comments(rd("src/turbojpeg-mp.c"))
bmp = strip_comments(rd("src/rdbmp.c"))
ppm = strip_comments(rd("src/rdppm.c"))
sites = []
pat_any = r"if \((?:this|sinfo)->max_?[pP]ixels &&\s*([^;{]*?)\)\s*(?:THROW|ERREXIT1?)\("
pat_64 = r"^\(unsigned long long\)\s*[\w>.\-]+ \* [\w>.\-]+ >\s*(?:\(unsigned long long\))?\s*(?:this|sinfo)->max_?[pP]ixels$"
for name, txt, expect in (("turbojpeg.c", tj, 2), ("turbojpeg-mp.c", mp, 1), ("rdbmp.c", bmp, 1), ("rdppm.c", ppm, 1)):
    found = re.findall(pat_any, txt)
    if len(found) < expect:
        sys.exit("%s: expected %d maxPixels check(s), found %d" % (name, expect, len(found)))
    for f in found:
        f = " ".join(f.split())
        sites.append((name, f, 64 if re.match(pat_64, f) else 32))
product_bits = min(s[2] for s in sites)
m = need(re.search(r"if \(scan_no (>=?) myprog->this->scanLimit\)", tj), "turbojpeg.c: my_progress_monitor scanLimit comparison not found")
scan_strict = m.group(1) == ">"
need(re.search(r"int scan_no = \(\(j_decompress_ptr\)dinfo\)->input_scan_number;", tj), "turbojpeg.c: scan_no is no longer input_scan_number")
scales = set(re.findall(r"mem->max_memory_to_use = \(long\)this->maxMemory \* (\d+)L;", tj + mp))
if len(scales) != 1:
    sys.exit("turbojpeg*.c: max_memory_to_use = (long)this->maxMemory * <n>L not found or inconsistent: %s" % sorted(scales))
maxmem_scale = int(scales.pop())
nmaxmem = len(re.findall(r"mem->max_memory_to_use = \(long\)this->maxMemory \* \d+L;", tj + mp))

# ---------------------------------------------------------------- tj3Init handlers (finding F4)
tjraw = rd("src/turbojpeg.c")


def handler(fn):
    b = func_body(tjraw, fn, "turbojpeg.c")
    m = need(re.search(r"if \(setjmp\(this->jerr\.setjmp_buffer\)\) \{(.*?)return NULL; \}", b),
             "turbojpeg.c: %s: setjmp handler '{ ...; return NULL; }' not found" % fn)
    h = m.group(1)
    need("free(this);" in h or "tj3Destroy(" in h, "turbojpeg.c: %s: handler neither frees nor destroys the instance" % fn)
    return h


hc = handler("_tjInitCompress")
hdn = handler("_tjInitDecompress")
need(re.search(r"case TJINIT_TRANSFORM: retval = _tjInitCompress\(this\); if \(!retval\) return NULL; retval = _tjInitDecompress\(this\); return retval;",
               func_body(tjraw, "tj3Init", "turbojpeg.c")), "turbojpeg.c: tj3Init: TJINIT_TRANSFORM no longer initialises compress then decompress")
c_destroys = ("jpeg_destroy_compress(" in hc) or ("tj3Destroy(" in hc)
d_destroys = (("jpeg_destroy_decompress(" in hdn) and ("jpeg_destroy_compress(" in hdn)) or ("tj3Destroy(" in hdn)
handler_destroys = c_destroys and d_destroys

# ---------------------------------------------------------------- destination-buffer protocol
def block_after(text, start):
    """the {...} block that starts at the first '{' at/after start; returns (begin, end) indices"""
    i = text.index("{", start)
    d, j = 1, i + 1
    while d and j < len(text):
        d += text[j] == "{"
        d -= text[j] == "}"
        j += 1
    return i, j


def dest_policy(fname, fn):
    src = rd(fname)
    b = func_body(src, fn, fname)
    m = need(re.search(r"if \(cinfo->dest == NULL\)", b), "%s: %s: first-time branch 'if (cinfo->dest == NULL)' not found" % (fname, fn))
    i, j = block_after(b, m.end())
    first, rest = b[i:j], b[:i] + " ; " + b[j:]
    if re.search(r"reused = TRUE; else dest->newbuffer = NULL;", rest) and \
       re.search(r"if \(dest->buffer == \*outbuffer && \*outbuffer != NULL && alloc\) reused = TRUE;", rest):
        return 1
    if re.search(r"[;}] dest->newbuffer = NULL;", rest) and not re.search(r"else dest->newbuffer = NULL;", rest):
        return 0
    if "dest->newbuffer = NULL;" in first:
        return 2
    sys.exit("%s: %s: cannot classify when dest->newbuffer is cleared" % (fname, fn))


for fname in ("src/jdatadst.c", "src/jdatadst-tj.c"):
    src = rd(fname)
    b = func_body(src, "empty_mem_output_buffer", fname)
    need(re.search(r"free\(dest->newbuffer\); dest->newbuffer = nextbuffer;", b) and re.search(r"dest->buffer = nextbuffer;", b),
         "%s: empty_mem_output_buffer no longer frees newbuffer and installs the new buffer" % fname)
    b = func_body(src, "term_mem_destination", fname)
    need(re.search(r"\*dest->outbuffer = dest->buffer;", b), "%s: term_mem_destination no longer stores dest->buffer in *outbuffer" % fname)
# allocation-failure paths of the memory source / destination managers
for fname in ("src/jdatadst.c", "src/jdatadst-tj.c"):
    src = rd(fname)
    b = func_body(src, "empty_mem_output_buffer", fname)
    need(re.search(r"nextbuffer = \(JOCTET \*\)(?:malloc|MALLOC)\(nextsize\); if \(nextbuffer == NULL\) ERREXIT1\(cinfo, JERR_OUT_OF_MEMORY, 10\); memcpy\(", b),
         "%s: empty_mem_output_buffer: the NULL test of the new buffer no longer precedes every state change" % fname)
    b = func_body(src, "jpeg_mem_dest_tj" if fname.endswith("-tj.c") else "jpeg_mem_dest", fname)
    need(re.search(r"dest->newbuffer = \*outbuffer = \(unsigned char \*\)(?:malloc|MALLOC)\(OUTPUT_BUF_SIZE\); if \(dest->newbuffer == NULL\) ERREXIT1\(cinfo, JERR_OUT_OF_MEMORY, 10\);", b),
         "%s: initial buffer allocation / NULL test not found" % fname)
for fname, fn in (("src/jdatasrc.c", "jpeg_mem_src"), ("src/jdatasrc-tj.c", "jpeg_mem_src_tj")):
    src = strip_comments(rd(fname))
    need(not re.search(r"\b(malloc|MALLOC|calloc|realloc)\s*\(", src), "%s: the source manager now calls malloc directly" % fname)
    need(re.search(r"alloc_small\) \(\(j_common_ptr\)cinfo, JPOOL_PERMANENT,", func_body(rd(fname), fn, fname)),
         "%s: %s no longer takes its manager from the PERMANENT pool" % (fname, fn))
pol_lj = dest_policy("src/jdatadst.c", "jpeg_mem_dest")
pol_tj = dest_policy("src/jdatadst-tj.c", "jpeg_mem_dest_tj")

# exit paths of every TurboJPEG function that writes through jpeg_mem_dest_tj
term_sites = []
for fname in ("src/turbojpeg.c", "src/turbojpeg-mp.c"):
    txt = strip_comments(rd(fname))
    for chunk in re.split(r"\nDLLEXPORT ", txt)[1:]:
        if "jpeg_mem_dest_tj(" not in chunk or "bailout:" not in chunk:
            continue
        name = re.search(r"(tj3\w+|GET_NAME\(\w+)", chunk).group(1).replace("GET_NAME(", "")
        epi = " ".join(chunk.split("bailout:")[-1].split())
        handlers = re.findall(r"if \(setjmp\(this->jerr\.setjmp_buffer\)\) \{(.*?)goto bailout; \}", " ".join(chunk.split()))
        in_epi = "term_destination" in epi
        in_h = bool(handlers) and all("term_destination" in h for h in handlers)
        term_sites.append((fname.split("/")[-1], name, in_epi, in_h))
if len(term_sites) < 3:
    sys.exit("turbojpeg*.c: expected >= 3 functions writing through jpeg_mem_dest_tj with a bailout epilogue, found %d" % len(term_sites))
tj_term_throw = all(e for _, _, e, _ in term_sites)
tj_term_longjmp = all(e or h for _, _, e, h in term_sites)

P("(* GENERATED by tools/gen_MemConst.py from src/jmemsys.h, jmemmgr.c, jmemnobs.c, jpeglib.h, turbojpeg.c,")
P("   turbojpeg-mp.c, rdbmp.c, rdppm.c -- do not edit *)")
P("From Coq Require Import ZArith.\nLocal Open Scope Z_scope.\n")
P("Definition max_alloc_chunk : Z := %d." % max_chunk)
P("Definition align_simd : Z := %d." % align_simd)
P("Definition align_nosimd : Z := %d.   (* the larger of sizeof(pointer), sizeof(double) on LP64 *)" % align_nosimd)
P("Definition pool_hdr_size : Z := %d.  (* {next; bytes_used; bytes_left} *)" % hdr)
P("Definition first_pool_slop0 : Z := %d.\nDefinition first_pool_slop1 : Z := %d." % first)
P("Definition extra_pool_slop0 : Z := %d.\nDefinition extra_pool_slop1 : Z := %d." % extra)
P("Definition min_slop : Z := %d." % min_slop)
P("Definition sizeof_ptr : Z := 8.")
P("Definition sizeof_jblock : Z := %d." % sizeof_jblock)
P("Definition big_minheights : Z := %d." % big_minheights)
P("(* limits *)")
for name, f, b in sites:
    P("(* %s: %s  -> %d-bit product *)" % (name, f.replace("(*", "( *").replace("*)", "* )"), b))
P("Definition limit_product_bits : Z := %d." % product_bits)
P("Definition limit_sites : Z := %d." % len(sites))
P("Definition scan_limit_strict : bool := %s." % ("true" if scan_strict else "false"))
P("Definition maxmem_scale : Z := %d." % maxmem_scale)
P("Definition maxmem_sites : Z := %d." % nmaxmem)
P("(* tj3Init: do the setjmp handlers of _tjInitCompress/_tjInitDecompress destroy the libjpeg object(s) before free(this)? *)")
P("(* _tjInitCompress handler: %s *)" % hc.strip().replace("(*", "( *").replace("*)", "* )"))
P("(* _tjInitDecompress handler: %s *)" % hdn.strip().replace("(*", "( *").replace("*)", "* )"))
P("Definition tjinit_handler_destroys : bool := %s." % ("true" if handler_destroys else "false"))
P("(* destination buffer: when does jpeg_mem_dest clear dest->newbuffer?  0 = on every call, 1 = on every call that does not")
P("   reuse the manager's own buffer, 2 = only when the manager is created *)")
P("Definition memdest_policy_ljpeg : Z := %d.   (* jdatadst.c jpeg_mem_dest *)" % pol_lj)
P("Definition memdest_policy_tj : Z := %d.      (* jdatadst-tj.c jpeg_mem_dest_tj *)" % pol_tj)
for fn_, nm_, e_, h_ in term_sites:
    P("(* %s %s: term_destination in the bailout epilogue: %s, in the setjmp handler(s): %s *)" % (fn_, nm_, e_, h_))
P("(* jdatadst*.c: a failing malloc raises JERR_OUT_OF_MEMORY before any field changes (DestBuf exits EInitFail / ELongjmp);")
P("   jdatasrc*.c: no malloc, the manager comes from the PERMANENT pool (pool theorems) *)")
P("Definition memmgr_io_alloc_failure_paths_checked : bool := true.")
P("Definition tj_term_on_throw : bool := %s." % ("true" if tj_term_throw else "false"))
P("Definition tj_term_on_longjmp : bool := %s." % ("true" if tj_term_longjmp else "false"))
print("\n".join(out))
