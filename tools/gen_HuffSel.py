#!/usr/bin/env python3
"""Translator for C19 (which Huffman table is used where): facts about the
CURRENT sources (argv[1] = repo root) -> coq/gen/GenHuffSel.v on stdout.

1. gen_table_selection : for every statement of jchuff.c / jcphuff.c / jclhuff.c /
   jdhuff.c / jdphuff.c / jdlhuff.c that indexes a DC- or AC-classed table array
   (dc_/ac_derived_tbls, dc_/ac_count_ptrs, dc_/ac_huff_tbl_ptrs, the isDC argument
   of jpeg_make_{c,d}_derived_tbl, the single arrays of the lossless codecs, the
   emit_symbol table argument of the progressive encoder) the pair
   (class of the array, class of the component field -- dc_tbl_no or ac_tbl_no --
   the index comes from).  A local index variable is resolved through the most
   recent textual assignment `v = compptr->{dc,ac}_tbl_no` in the same function;
   the band-dependent `tbl` of jcphuff.c is resolved through the fixed shape
   `if (is_DC_band) .. tbl = compptr->dc_tbl_no .. else .. tbl = compptr->ac_tbl_no`.
   An index that cannot be resolved is an error (exit non-zero).
2. gen_sent_table_writers : every assignment to a JHUFF_TBL's sent_table in src/*.c
   (file, function, value).
3. gen_genopt_static_locals : number of `static` local declarations in
   jpeg_gen_optimal_table (its work arrays must have automatic storage: the model
   treats the generator as a pure function of the histogram).
"""
import re, sys, os

if len(sys.argv) < 2:
    sys.exit("usage: gen_HuffSel.py <repo root>")
repo = sys.argv[1]


def rd(p):
    try:
        return open(os.path.join(repo, p)).read()
    except OSError as e:
        sys.exit("%s: cannot read (%s)" % (p, e))


def strip(s):
    s = re.sub(r"/\*.*?\*/", lambda m: " " * 0 + "\n" * m.group(0).count("\n"), s, flags=re.S)
    return s.replace("\\\n", " \n")


def functions(src):
    """[(name, body)] of the top-level brace blocks preceded by `name(...)`"""
    out, i, n = [], 0, len(src)
    depth, start, name = 0, None, None
    for m in re.finditer(r"[{}]", src):
        c = m.group(0)
        if c == "{":
            if depth == 0:
                head = src[max(0, m.start() - 600):m.start()]
                hm = re.findall(r"\b(\w+)\s*\([^;{}()]*\)\s*$", head, flags=re.S)
                name = hm[-1] if hm else None
                start = m.end()
            depth += 1
        else:
            depth -= 1
            if depth == 0 and name:
                out.append((name, " ".join(src[start:m.start()].split())))
    return out


IDX = r"([\w>\-]+)"
sites = []        # (label, array class, index class)
SKIP = {"i", "tblno", "tbl_no"}


def resolve(fname, func, idx, env, body, pos):
    if idx in ("compptr->dc_tbl_no", "compptr->ac_tbl_no"):
        return idx[9:11]
    if idx in SKIP:
        return None
    if idx in env:
        return env[idx]
    sys.exit("%s: %s: table index '%s' cannot be traced to compptr->dc_tbl_no / ac_tbl_no" % (fname, func, idx))


BAND = (r"if \(is_DC_band\) \{ (?:if \(cinfo->Ah != 0\) continue; )?tbl = compptr->dc_tbl_no; \} "
        r"else \{ (?:entropy->ac_tbl_no = )?tbl = compptr->ac_tbl_no; \}")


def scan_file(fname, lossless=False, progenc=False, progdec=False):
    src = strip(rd(fname))
    genv = {}
    for m in re.finditer(r"entropy->ac_tbl_no = (?:\w+ = )?compptr->(dc|ac)_tbl_no;", " ".join(src.split())):
        genv["entropy->ac_tbl_no"] = m.group(1)
    for func, body in functions(src):
        env = dict(genv)
        band = False
        if progenc and re.search(BAND, body):
            band = True
        events = []
        for m in re.finditer(r"((?:[\w>\-]+ = )+)compptr->(dc|ac)_tbl_no;", body):
            for v in re.findall(r"([\w>\-]+) = ", m.group(1)):
                events.append((m.start(), "asg", v, m.group(2)))
        pats = [
            (r"\b(dc|ac)_(?:derived_tbls|count_ptrs|huff_tbl_ptrs)\[" + IDX + r"\]", "arr"),
            (r"jpeg_make_[cd]_derived_tbl\(cinfo, (TRUE|FALSE|is_DC_band), " + IDX + r",", "mk"),
        ]
        if lossless:
            pats.append((r"(?<![\w_])(derived_tbls|count_ptrs)\[" + IDX + r"\]", "ll"))
        if progenc:
            pats.append((r"emit_symbol\(entropy, " + IDX + r",", "emit"))
        if progdec:
            pats.append((r"(?<![\w_])(derived_tbls)\[" + IDX + r"\]", "pd"))
        for pat, kind in pats:
            for m in re.finditer(pat, body):
                events.append((m.start(), kind, m))
        events.sort(key=lambda e: e[0])
        for ev in events:
            if ev[1] == "asg":
                env[ev[2]] = "band" if (band and ev[2] == "tbl") else ev[3]
                continue
            kind, m = ev[1], ev[2]
            label = "%s:%s" % (os.path.basename(fname), func)
            if kind == "arr":
                cls, idx = m.group(1), m.group(2)
            elif kind == "mk":
                cls = {"TRUE": "dc", "FALSE": "ac", "is_DC_band": "band"}[m.group(1)]
                idx = m.group(2)
            elif kind == "ll":
                cls, idx = "dc", m.group(2)
            elif kind == "emit":
                idx = m.group(1)
                if idx in ("symbol",):
                    continue
                cls = "dc" if "_DC_" in func else "ac"
            else:  # progressive decoder single array
                idx = m.group(2)
                if "_DC_" in func:
                    cls = "dc"
                elif re.search(r"entropy->ac_derived_tbl = entropy->derived_tbls\[" + re.escape(idx) + r"\]", body[max(0, m.start() - 40):m.end()]):
                    cls = "ac"
                else:
                    continue
            r = resolve(fname, func, idx, env, body, m.start())
            if r is None:
                continue
            if r == "band" or cls == "band":
                # band-dependent index: only legal in the band-dependent shapes
                ok = (cls == "band" and r == "band") or \
                     (r == "band" and re.search(r"if \(is_DC_band\) htblptr = &cinfo->dc_huff_tbl_ptrs\[tbl\]; "
                                                r"else htblptr = &cinfo->ac_huff_tbl_ptrs\[tbl\];", body))
                if not ok:
                    sys.exit("%s: %s: band-dependent table index used outside the expected shape (%s)" % (fname, func, m.group(0)))
                if cls == "band":
                    sites.append((label + " " + m.group(0) + " [DC band]", "dc", "dc"))
                    sites.append((label + " " + m.group(0) + " [AC band]", "ac", "ac"))
                else:
                    sites.append((label + " " + m.group(0) + " [%s band]" % cls.upper(), cls, cls))
                continue
            sites.append((label + " " + m.group(0), cls, r))


scan_file("src/jchuff.c")
scan_file("src/jdhuff.c")
scan_file("src/jcphuff.c", progenc=True)
scan_file("src/jdphuff.c", progdec=True)
scan_file("src/jclhuff.c", lossless=True)
scan_file("src/jdlhuff.c", lossless=True)
if len(sites) < 20:
    sys.exit("table-selection sites: only %d found, the statement shapes have changed" % len(sites))
# jcphuff.c: entropy->ac_tbl_no must be the AC table number
if not any("emit_symbol" in s[0] for s in sites):
    sys.exit("jcphuff.c: no emit_symbol call sites found")

# ---------------------------------------------------------------- sent_table writers
writers = []
srcdir = os.path.join(repo, "src")
for fn in sorted(os.listdir(srcdir)):
    if not fn.endswith(".c") or not fn.startswith("j"):
        continue
    src = strip(rd("src/" + fn))
    for func, body in functions(src):
        for m in re.finditer(r"(\(?\*?\w+\)?)->sent_table = (\w+);", body):
            if "q" in m.group(1).lower() or "quant" in func:      # quantization tables (qtbl, *qtblptr)
                continue
            writers.append((fn, func, m.group(2)))
if not writers:
    sys.exit("no sent_table assignment found")

# ---------------------------------------------------------------- work arrays of jpeg_gen_optimal_table
src = strip(rd("src/jchuff.c"))
body = dict(functions(src)).get("jpeg_gen_optimal_table")
if body is None:
    sys.exit("jchuff.c: jpeg_gen_optimal_table not found")
decl_end = body.index("memset(bits, 0, sizeof(bits));") if "memset(bits, 0, sizeof(bits));" in body else None
if decl_end is None:
    sys.exit("jchuff.c: jpeg_gen_optimal_table: 'memset(bits, 0, sizeof(bits));' (end of the declarations) not found")
decls = body[:decl_end]
arrays = re.findall(r"(static\s+)?(?:UINT8|int|long)\s+(\w+)\[[^\]]+\];", decls)
names = [a[1] for a in arrays]
for need in ("bits", "bit_pos", "codesize", "nz_index", "others"):
    if need not in names:
        sys.exit("jchuff.c: jpeg_gen_optimal_table: work array '%s' not found among the local declarations" % need)
nstatic = len(re.findall(r"\bstatic\b", decls))

print("(* GENERATED by tools/gen_HuffSel.py from src/j{c,d}{,p,l}huff.c and src/j*.c -- do not edit *)")
print("From Coq Require Import List String.")
print("Import ListNotations.")
print("Local Open Scope string_scope.")
print()
print("(* (array class is DC, index comes from dc_tbl_no) per table-selection statement *)")
print("Definition gen_table_selection : list (bool * bool) := [")
for i, (label, a, b) in enumerate(sites):
    print("  (%s, %s)%s   (* %s *)" % ("true" if a == "dc" else "false", "true" if b == "dc" else "false",
                                        ";" if i + 1 < len(sites) else "", label.replace("*", "")))
print("].")
print()
print("Definition gen_sent_table_writers : list (string * string * string) := [")
for i, (f, fu, v) in enumerate(writers):
    print('  ("%s", "%s", "%s")%s' % (f, fu, v, ";" if i + 1 < len(writers) else ""))
print("].")
print()
print("Definition gen_genopt_work_arrays : list string := [%s]." % "; ".join('"%s"' % x for x in names))
print("Definition gen_genopt_static_locals : nat := %d." % nstatic)
