#!/usr/bin/env python3
"""Translator for C06: reads the dispatch structure of the lossless-transform code from
the CURRENT source (argv[1] = repo) and prints coq/gen/GenXform.v:
  * order of JXFORM_CODE / TJXOP and the xformtypes[] map (turbojpeg.c)
  * jtransform_perfect_transform: which dimension each operation tests
  * jtransform_request_workspace: per operation trim calls (edge, source dimension),
    need_workspace / transpose_it
  * jtransform_execute_transform: per operation the do_* routines called
  * transpose_critical_parameters / jtransform_adjust_parameters: which operations transpose
  * tjMCUWidth/tjMCUHeight per TJSAMP and the getDstSubsamp swaps
Fails (non-zero exit + message) when a construct it reads is gone."""
import re
import sys

repo = sys.argv[1]


def die(msg):
    sys.stderr.write("gen_Xform: " + msg + "\n")
    sys.exit(2)


def read(rel):
    try:
        return open(repo + "/" + rel, errors="replace").read()
    except OSError as e:
        die("cannot read %s: %s" % (rel, e))


def strip_comments(t):
    return re.sub(r"/\*.*?\*/", " ", t, flags=re.S)


transupp_c = strip_comments(read("src/transupp.c"))
transupp_h = strip_comments(read("src/transupp.h"))
tj_c = strip_comments(read("src/turbojpeg.c"))
tj_h = strip_comments(read("src/turbojpeg.h"))

XOP = {"JXFORM_NONE": "XNone", "JXFORM_FLIP_H": "XFlipH", "JXFORM_FLIP_V": "XFlipV", "JXFORM_TRANSPOSE": "XTranspose",
       "JXFORM_TRANSVERSE": "XTransverse", "JXFORM_ROT_90": "XRot90", "JXFORM_ROT_180": "XRot180", "JXFORM_ROT_270": "XRot270"}
TJOP = {"TJXOP_NONE": "XNone", "TJXOP_HFLIP": "XFlipH", "TJXOP_VFLIP": "XFlipV", "TJXOP_TRANSPOSE": "XTranspose",
        "TJXOP_TRANSVERSE": "XTransverse", "TJXOP_ROT90": "XRot90", "TJXOP_ROT180": "XRot180", "TJXOP_ROT270": "XRot270"}
ORDER = ["XNone", "XFlipH", "XFlipV", "XTranspose", "XTransverse", "XRot90", "XRot180", "XRot270"]

# ---- enums and the TJ map
m = re.search(r"typedef\s+enum\s*\{([^}]*)\}\s*JXFORM_CODE\s*;", transupp_h)
if not m:
    die("JXFORM_CODE enum not found in transupp.h")
jx = [x.strip() for x in m.group(1).split(",") if x.strip()]
if any("=" in x for x in jx):
    die("JXFORM_CODE has explicit values")
jx_order = [XOP[x] for x in jx if x in XOP]
if len(jx_order) != 8 or [x for x in jx[:8] if x not in XOP]:
    die("JXFORM_CODE: the first eight enumerators are not the eight geometric operations: %s" % jx)

m = re.search(r"enum\s+TJXOP\s*\{([^}]*)\}", tj_h)
if not m:
    die("enum TJXOP not found in turbojpeg.h")
tjx = [x.strip() for x in m.group(1).split(",") if x.strip()]
if any(x not in TJOP for x in tjx):
    die("unknown TJXOP enumerator in %s" % tjx)
m = re.search(r"xformtypes\s*\[\s*TJ_NUMXOP\s*\]\s*=\s*\{([^}]*)\}", tj_c)
if not m:
    die("xformtypes[] not found in turbojpeg.c")
xt = [x.strip() for x in m.group(1).split(",") if x.strip()]
if len(xt) != len(tjx) or any(x not in XOP for x in xt):
    die("xformtypes[] has unexpected entries: %s" % xt)
tj_map = [(TJOP[a], XOP[b]) for a, b in zip(tjx, xt)]


def func_body(text, name):
    m = re.search(r"\b%s\s*\([^;{]*\)\s*\{" % re.escape(name), text)
    if not m:
        die("function %s not found" % name)
    i = m.end()
    depth = 1
    while depth and i < len(text):
        if text[i] == "{":
            depth += 1
        elif text[i] == "}":
            depth -= 1
        i += 1
    return text[m.end():i - 1]


def switch_cases(body, anchor=None):
    """{label: statements} of the first `switch (...transform)` after anchor; fallthrough labels share"""
    start = body.index(anchor) if anchor else 0
    m = re.search(r"switch\s*\(\s*(?:info->)?transform\s*\)\s*\{", body[start:])
    if not m:
        die("switch on the transform code not found" + (" after '%s'" % anchor if anchor else ""))
    i = start + m.end()
    depth = 1
    j = i
    while depth and j < len(body):
        if body[j] == "{":
            depth += 1
        elif body[j] == "}":
            depth -= 1
        j += 1
    sw = body[i:j - 1]
    out = {}
    labels = []
    pos = 0
    cur = ""
    for tok in re.split(r"(case\s+\w+\s*:|default\s*:)", sw):
        if re.match(r"case\s+\w+\s*:|default\s*:", tok):
            if cur.strip() and labels:
                for l in labels:
                    out[l] = out.get(l, "") + cur
                if re.search(r"\bbreak\s*;\s*$", cur.strip()):
                    labels = []
            cur = ""
            labels.append(re.sub(r"case\s+|\s*:|\s", "", tok))
        else:
            cur += tok
    if cur.strip() and labels:
        for l in labels:
            out[l] = out.get(l, "") + cur
    return out


# ---- perfect
pc = switch_cases(func_body(transupp_c, "jtransform_perfect_transform"))
perfect = []
for jxn, xn in XOP.items():
    stm = pc.get(jxn, pc.get("default", ""))
    perfect.append((xn, bool(re.search(r"image_width\s*%", stm)), bool(re.search(r"image_height\s*%", stm))))
    if re.search(r"%", stm) and not re.search(r"image_(width|height)\s*%\s*\(JDIMENSION\)\s*MCU_(width|height)", stm):
        die("perfect test of %s has an unknown shape" % jxn)
    for d in ("width", "height"):
        mm = re.search(r"image_%s\s*%%\s*\(JDIMENSION\)\s*MCU_(\w+)" % d, stm)
        if mm and mm.group(1) != d:
            die("perfect test of %s mixes image_%s with MCU_%s" % (jxn, d, mm.group(1)))

# ---- request_workspace: trims, workspace, transposition
rw = func_body(transupp_c, "jtransform_request_workspace")
rc = switch_cases(rw, "need_workspace = FALSE")
trims, transposed = [], []
for jxn, xn in XOP.items():
    stm = rc.get(jxn)
    if stm is None:
        die("request_workspace has no case for %s" % jxn)
    r = re.findall(r"trim_right_edge\s*\(\s*info\s*,\s*srcinfo->output_(width|height)\s*\)", stm)
    b = re.findall(r"trim_bottom_edge\s*\(\s*info\s*,\s*srcinfo->output_(width|height)\s*\)", stm)
    if len(r) > 1 or len(b) > 1 or len(re.findall(r"trim_\w+_edge", stm)) != len(r) + len(b):
        die("unexpected trim calls for %s" % jxn)
    if (r or b) and not re.search(r"if\s*\(\s*info->trim\s*\)", stm):
        die("trim of %s is not guarded by info->trim" % jxn)
    trims.append((xn, r[0] if r else None, b[0] if b else None))
    transposed.append((xn, bool(re.search(r"transpose_it\s*=\s*TRUE", stm))))
# dimension swap of the output for the transposing operations
oc = switch_cases(rw, "jtransform_perfect_transform")
swap = []
for jxn, xn in XOP.items():
    stm = oc.get(jxn, oc.get("default", ""))
    sw_ = bool(re.search(r"info->output_width\s*=\s*srcinfo->output_height", stm)) and \
        bool(re.search(r"info->output_height\s*=\s*srcinfo->output_width", stm))
    same = bool(re.search(r"info->output_width\s*=\s*srcinfo->output_width", stm)) and \
        bool(re.search(r"info->output_height\s*=\s*srcinfo->output_height", stm))
    if sw_ == same:
        die("output dimensions of %s: unknown shape" % jxn)
    swap.append((xn, sw_))

# ---- trim_right_edge / trim_bottom_edge: the fields they combine
def trim_shape(fname, fullname):
    bd = func_body(transupp_c, fname)
    bd = re.sub(r"\s+", " ", bd)
    mm = re.search(r"(\w+) = info->(\w+) / info->(\w+); if \( ?\1 > 0 && info->(\w+) \+ \1 == %s / info->(\w+) ?\) "
                   r"info->(\w+) = \1 \* info->(\w+);" % fullname, bd)
    if not mm:
        die("%s: unknown shape" % fname)
    return mm.groups()[1:]


trim_r = trim_shape("trim_right_edge", "full_width")
trim_b = trim_shape("trim_bottom_edge", "full_height")

# ---- per routine: which source dimension MCU_cols / MCU_rows are taken from, and the loop shape
ROUT = ["do_crop", "do_flip_h_no_crop", "do_flip_h", "do_flip_v", "do_transpose", "do_rot_90", "do_rot_270", "do_rot_180", "do_transverse"]
mcu_dims, loop_shape = [], []
for rn in ROUT:
    bd = re.sub(r"\s+", " ", func_body(transupp_c, rn))
    mc = re.findall(r"MCU_cols = srcinfo->output_(width|height) / \( ?dstinfo->max_(h|v)_samp_factor \* dstinfo_min_DCT_(h|v)_scaled_size ?\)", bd)
    mr = re.findall(r"MCU_rows = srcinfo->output_(width|height) / \( ?dstinfo->max_(h|v)_samp_factor \* dstinfo_min_DCT_(h|v)_scaled_size ?\)", bd)
    if len(mc) > 1 or len(mr) > 1 or len(re.findall(r"MCU_cols =", bd)) != len(mc) or len(re.findall(r"MCU_rows =", bd)) != len(mr):
        die("%s: MCU_cols / MCU_rows have an unknown shape" % rn)
    if (mc and mc[0][1:] != ("h", "h")) or (mr and mr[0][1:] != ("v", "v")):
        die("%s: MCU_cols must divide by the horizontal, MCU_rows by the vertical iMCU size" % rn)
    if mc and not re.search(r"comp_width = MCU_cols \* compptr->h_samp_factor", bd):
        die("%s: comp_width shape" % rn)
    if mr and not re.search(r"comp_height = MCU_rows \* compptr->v_samp_factor", bd):
        die("%s: comp_height shape" % rn)
    mcu_dims.append((rn, mc[0][0] if mc else None, mr[0][0] if mr else None))
    ystep = re.findall(r"for \( ?(?:dst_)?blk_y = 0; (?:dst_)?blk_y < (?:compptr->height_in_blocks|comp_height); (?:dst_)?blk_y \+= compptr->v_samp_factor ?\)", bd)
    if len(ystep) != 1 or "offset_y < compptr->v_samp_factor" not in bd:
        die("%s: outer block-row loop has an unknown shape" % rn)
    bw = len(re.findall(r"dst_blk_x \+= compptr->h_samp_factor", bd))
    rw = len(re.findall(r"dst_blk_x\+\+", bd))
    if rn in ("do_crop",):
        bw, rw = 0, 1          # whole rows by jcopy_block_row(..., compptr->width_in_blocks)
        if "jcopy_block_row" not in bd or "compptr->width_in_blocks" not in bd:
            die("do_crop: row copy shape")
    if rn == "do_flip_h_no_crop":
        bw, rw = 0, 1
    if (bw > 0) == (rw > 0):
        die("%s: cannot tell row-wise from block-wise column loop" % rn)
    if bw and "offset_x < compptr->h_samp_factor" not in bd:
        die("%s: block-wise loop without offset_x loop" % rn)
    loop_shape.append((rn, bw > 0))

# ---- the in-block loops: a small interpreter for the C statements that move the 64 coefficients
TOK = re.compile(r"\s*(\+\+|\+=|<=|==|[A-Za-z_]\w*|\d+|[-+*<=(){}\[\];,])")


def tokenize(text):
    out, pos = [], 0
    text = text.strip()
    while pos < len(text):
        mm = TOK.match(text, pos)
        if not mm:
            die("in-block loop: cannot tokenize near '%s'" % text[pos:pos + 30])
        out.append(mm.group(1))
        pos = mm.end()
    return out


class Interp:
    """executes one in-block loop statement; state: integer variables, pointer offsets, temporaries"""

    def __init__(self, toks, rn):
        self.t, self.p, self.rn = toks, 0, rn
        self.env = {"DCTSIZE": 8, "DCTSIZE2": 64}
        self.ptr = {"dst_ptr": 0, "src_ptr": 0, "ptr1": 0, "ptr2": 0}
        self.tmp = {}
        self.writes = []          # (target pointer, dst index, source pointer, src index, negated)
        self.steps = 0

    def fail(self, msg):
        die("%s: in-block loop: %s near '%s'" % (self.rn, msg, " ".join(self.t[self.p:self.p + 8])))

    def peek(self):
        return self.t[self.p] if self.p < len(self.t) else None

    def eat(self, x=None):
        tk = self.peek()
        if tk is None or (x is not None and tk != x):
            self.fail("expected '%s'" % x)
        self.p += 1
        return tk

    # ---- skipping (to re-execute loop bodies we remember token positions)
    def skip_stmt(self):
        if self.peek() == "{":
            depth = 0
            while True:
                tk = self.eat()
                if tk == "{":
                    depth += 1
                elif tk == "}":
                    depth -= 1
                    if depth == 0:
                        return
        if self.peek() == "for":
            self.eat("for")
            self.eat("(")
            depth = 1
            while depth:
                tk = self.eat()
                depth += (tk == "(") - (tk == ")")
            return self.skip_stmt()
        while self.eat() != ";":
            pass

    # ---- integer expressions over i, j, k, DCTSIZE
    def atom(self):
        tk = self.eat()
        if tk == "(":
            v = self.expr()
            self.eat(")")
            return v
        if tk.isdigit():
            return int(tk)
        if tk in self.env:
            return self.env[tk]
        self.fail("unknown identifier '%s' in an index expression" % tk)

    def term(self):
        v = self.atom()
        while self.peek() == "*":
            self.eat()
            v *= self.atom()
        return v

    def expr(self):
        v = self.term()
        while self.peek() in ("+", "-"):
            v = v + self.term() if self.eat() == "+" else v - self.term()
        return v

    # ---- values: *p, *p++, p[e], temp, with optional sign / parentheses
    def value(self):
        neg = False
        if self.peek() == "-":
            self.eat()
            neg = True
        if self.peek() == "(":
            self.eat()
            src, idx, n2 = self.value()
            self.eat(")")
            return src, idx, neg != n2
        if self.peek() == "*":
            self.eat()
            pn = self.eat()
            if pn not in self.ptr:
                self.fail("read through unknown pointer '%s'" % pn)
            idx = self.ptr[pn]
            if self.peek() == "++":
                self.eat()
                self.ptr[pn] += 1
            return pn, idx, neg
        name = self.eat()
        if name in self.tmp:
            src, idx, n2 = self.tmp[name]
            return src, idx, neg != n2
        if name in self.ptr and self.peek() == "[":
            self.eat("[")
            idx = self.expr()
            self.eat("]")
            return name, idx, neg
        self.fail("unrecognised right-hand side '%s'" % name)

    def stmt(self):
        self.steps += 1
        if self.steps > 100000:
            self.fail("loop does not terminate")
        tk = self.peek()
        if tk == "{":
            self.eat()
            while self.peek() != "}":
                self.stmt()
            self.eat("}")
        elif tk == "for":
            self.eat()
            self.eat("(")
            var = self.eat()
            self.eat("=")
            self.env[var] = self.expr()
            self.eat(";")
            cond = self.p
            while self.eat() != ";":
                pass
            step = self.p
            depth = 1
            while depth:
                t2 = self.eat()
                depth += (t2 == "(") - (t2 == ")")
            body = self.p
            self.skip_stmt()
            end = self.p
            while True:
                self.p = cond
                a = self.expr()
                if self.eat() != "<":
                    self.fail("loop condition is not '<'")
                b = self.expr()
                if not a < b:
                    break
                self.p = body
                self.stmt()
                self.p = step
                v = self.eat()
                if v not in self.env:
                    self.fail("loop step on unknown variable")
                o = self.eat()
                if o == "++":
                    self.env[v] += 1
                elif o == "+=":
                    self.env[v] += self.expr()
                else:
                    self.fail("unknown loop step")
            self.p = end
        elif tk == "*":                      # *p++ = value;
            self.eat()
            pn = self.eat()
            if pn not in self.ptr:
                self.fail("write through unknown pointer")
            idx = self.ptr[pn]
            if self.peek() == "++":
                self.eat()
                self.ptr[pn] += 1
            self.eat("=")
            src, si, neg = self.value()
            self.eat(";")
            self.writes.append((pn, idx, src, si, neg))
        elif tk in self.ptr and self.t[self.p + 1] == "[":     # p[e] = value;
            pn = self.eat()
            self.eat("[")
            idx = self.expr()
            self.eat("]")
            self.eat("=")
            src, si, neg = self.value()
            self.eat(";")
            self.writes.append((pn, idx, src, si, neg))
        elif tk in ("i", "j", "k") and self.t[self.p + 1] == "++":
            self.env[self.eat()] += 1
            self.eat("++")
            self.eat(";")
        elif tk in ("temp1", "temp2"):
            name = self.eat()
            self.eat("=")
            self.tmp[name] = self.value()
            self.eat(";")
        else:
            self.fail("unrecognised statement")


def stmt_after(bd, start):
    """text of the statement starting at bd[start:] (a for statement, possibly braced)"""
    i = start
    depth = 0
    seen_paren = False
    while i < len(bd):
        ch = bd[i]
        if ch == "(":
            depth += 1
        elif ch == ")":
            depth -= 1
            if depth == 0:
                seen_paren = True
                break
        i += 1
    # body: next non-space char
    j = i + 1
    while bd[j].isspace():
        j += 1
    if bd[j] == "{":
        d = 0
        while True:
            if bd[j] == "{":
                d += 1
            elif bd[j] == "}":
                d -= 1
                if d == 0:
                    return bd[start:j + 1]
            j += 1
    if bd.startswith("for", j):
        inner = stmt_after(bd, j)
        return bd[start:j] + inner
    k = bd.index(";", j)
    return bd[start:k + 1]


inblock = []
INBLOCK_ROUTINES = ["do_flip_h", "do_flip_v", "do_transpose", "do_rot_90", "do_rot_270", "do_rot_180", "do_transverse"]
for rn in INBLOCK_ROUTINES:
    bd = func_body(transupp_c, rn)
    lists = []
    for mm in re.finditer(r"\bsrc_ptr\s*=[^;]*;\s*(?=for\b)", bd):
        st = stmt_after(bd, mm.end())
        it = Interp(tokenize(st), rn)
        it.stmt()
        if it.p != len(it.t):
            die("%s: trailing tokens after an in-block loop" % rn)
        ws = it.writes
        if any(w[0] != "dst_ptr" or w[2] != "src_ptr" for w in ws) or not ws:
            die("%s: in-block loop writes/reads through an unexpected pointer" % rn)
        if any(not (0 <= w[1] < 64 and 0 <= w[3] < 64) for w in ws):
            die("%s: in-block loop index outside the block" % rn)
        lists.append([(w[1], w[3], w[4]) for w in ws])
    # every coefficient statement of the routine must be inside one of the interpreted loops
    nstm = len(re.findall(r"dst_ptr\s*\[[^\]]*\]\s*=|\*dst_ptr\+\+\s*=", bd))
    covered = sum(len(re.findall(r"dst_ptr\s*\[[^\]]*\]\s*=|\*dst_ptr\+\+\s*=", stmt_after(bd, mm.end())))
                  for mm in re.finditer(r"\bsrc_ptr\s*=[^;]*;\s*(?=for\b)", bd))
    if nstm != covered or not lists:
        die("%s: %d coefficient statements, only %d inside recognised in-block loops" % (rn, nstm, covered))
    inblock.append((rn, lists))
# the swap loop of do_flip_h_no_crop
bd = func_body(transupp_c, "do_flip_h_no_crop")
mm = re.search(r"\bptr2\s*=[^;]*;\s*(?=for\b)", bd)
if not mm:
    die("do_flip_h_no_crop: swap loop not found")
it = Interp(tokenize(stmt_after(bd, mm.end())), "do_flip_h_no_crop")
it.stmt()
sw1 = [(w[1], w[3], w[4]) for w in it.writes if w[0] == "ptr1" and w[2] == "ptr2"]
sw2 = [(w[1], w[3], w[4]) for w in it.writes if w[0] == "ptr2" and w[2] == "ptr1"]
if len(sw1) + len(sw2) != len(it.writes) or len(sw1) != 64 or len(sw2) != 64:
    die("do_flip_h_no_crop: swap loop does not exchange the two blocks element by element")
inblock.append(("do_flip_h_no_crop", [sw1, sw2]))

# ---- features of transupp.c that tj3Transform can never request
tj_unreach = [(w, len(re.findall(r"\b%s\b" % w, tj_c))) for w in
              ("JCROP_FORCE", "JCROP_REFLECT", "JXFORM_WIPE", "JXFORM_DROP", "drop_ptr", "drop_coef_arrays", "JCROP_NEG")]
tj_sets = sorted(set(re.findall(r"xinfo\[i\]\.(\w+)\s*=", tj_c)))

# ---- error exits of tj3Transform / tjTransform after the header was read must pass through bailout's abort
errpaths = []
for fn in ("tj3Transform", "tjTransform"):
    bd = func_body(tj_c, fn)
    k = bd.find("jpeg_read_header")
    b = bd.find("bailout:")
    if k < 0 or b < 0 or b < k:
        die("%s: jpeg_read_header / bailout: not found in this order" % fn)
    early = len(re.findall(r"\breturn\b", bd[k:b]))
    tail = bd[b:]
    aborts = bool(re.search(r"global_state\s*>\s*DSTATE_START\s*\)\s*jpeg_abort_decompress\s*\(\s*dinfo\s*\)", tail))
    nret = len(re.findall(r"\breturn\b", tail))
    errpaths.append((fn, early, aborts, nret))
# tj3Transform reuses a pre-read header only in this state test (the reason the abort matters)
if not re.search(r"global_state\s*<=\s*DSTATE_INHEADER\s*\)\s*jpeg_read_header", func_body(tj_c, "tj3Transform")):
    die("tj3Transform: header re-use test (global_state <= DSTATE_INHEADER) not found")

# ---- adjust_parameters: who calls transpose_critical_parameters
ac = switch_cases(func_body(transupp_c, "jtransform_adjust_parameters"))
crit = [(xn, "transpose_critical_parameters" in ac.get(jxn, ac.get("default", ""))) for jxn, xn in XOP.items()]

# ---- execute: routines per operation
ec = switch_cases(func_body(transupp_c, "jtransform_execute_transform"))
execs = []
for jxn, xn in XOP.items():
    stm = ec.get(jxn)
    if stm is None:
        die("execute_transform has no case for %s" % jxn)
    execs.append((xn, re.findall(r"\b(do_\w+)\s*\(", stm)))

# ---- TurboJPEG iMCU table and destination subsampling
m = re.search(r"enum\s+TJSAMP\s*\{([^}]*)\}", tj_h)
if not m:
    die("enum TJSAMP not found")
samp = [x.strip() for x in m.group(1).split(",") if x.strip() and "UNKNOWN" not in x]
FACT = {"TJSAMP_444": (1, 1), "TJSAMP_422": (2, 1), "TJSAMP_420": (2, 2), "TJSAMP_GRAY": (1, 1),
        "TJSAMP_440": (1, 2), "TJSAMP_411": (4, 1), "TJSAMP_441": (1, 4)}
if any(x not in FACT for x in samp):
    die("unknown TJSAMP enumerator in %s" % samp)


def int_array(name):
    mm = re.search(r"%s\s*\[\s*TJ_NUMSAMP\s*\]\s*=\s*\{([^}]*)\}" % name, tj_h)
    if not mm:
        die("%s[] not found in turbojpeg.h" % name)
    return [int(x) for x in mm.group(1).split(",") if x.strip()]


mw, mhh = int_array("tjMCUWidth"), int_array("tjMCUHeight")
if len(mw) != len(samp) or len(mhh) != len(samp):
    die("tjMCUWidth/Height length differs from enum TJSAMP")
gd = func_body(tj_c, "getDstSubsamp")
swaps = re.findall(r"if\s*\(\s*dstSubsamp\s*==\s*(TJSAMP_\w+)\s*\)\s*dstSubsamp\s*=\s*(TJSAMP_\w+)\s*;", gd)
if not swaps or not re.search(r"TJXOP_TRANSPOSE.*TJXOP_TRANSVERSE.*TJXOP_ROT90.*TJXOP_ROT270", gd, re.S):
    die("getDstSubsamp: swap table / transposing-operation test not found")
dstmap = {a: b for a, b in swaps}
# crop alignment test of tj3Transform
t3 = func_body(tj_c, "tj3Transform")
if not re.search(r"t\[i\]\.r\.x\s*%\s*xinfo\[i\]\.iMCU_sample_width\s*\)\s*!=\s*0\s*\|\|\s*\(\s*t\[i\]\.r\.y\s*%\s*xinfo\[i\]\.iMCU_sample_height\s*\)\s*!=\s*0", t3):
    die("tj3Transform: crop alignment test on xinfo[i].iMCU_sample_width/height not found")
if not re.search(r"dstSubsamp\s*==\s*TJSAMP_UNKNOWN\s*\)\s*THROW", t3):
    die("tj3Transform: unknown-destination-subsampling test not found")
if t3.find("jtransform_request_workspace") > t3.find("iMCU_sample_width") or t3.find("jtransform_request_workspace") < 0:
    die("tj3Transform: alignment test must follow jtransform_request_workspace")
if not re.search(r"n\s*!=\s*1\s*&&\s*t\[i\]\.op\s*==\s*TJXOP_HFLIP\s*\)\s*xinfo\[i\]\.slow_hflip\s*=\s*1", t3):
    die("tj3Transform: slow_hflip rule not found")


def b(v):
    return "true" if v else "false"


def dim(v):
    return "None" if v is None else ("Some DimW" if v == "width" else "Some DimH")


out = []
out.append("(* GENERATED by tools/gen_Xform.py from src/transupp.[ch], src/turbojpeg.[ch] -- do not edit *)")
out.append("From Coq Require Import List ZArith String.")
out.append("From LJT Require Import model.Transform.")
out.append("Import ListNotations.")
out.append("Local Open Scope Z_scope.")
out.append("Inductive srcdim := DimW | DimH.")
out.append("Definition gen_jxform_order : list xop := [%s]." % "; ".join(jx_order))
out.append("Definition gen_tjxop_map : list (xop * xop) := [%s]." % "; ".join("(%s, %s)" % p for p in tj_map))
out.append("(* operation, tests image_width, tests image_height *)")
out.append("Definition gen_perfect : list (xop * bool * bool) := [%s]." % "; ".join("(%s, %s, %s)" % (x, b(w), b(h)) for x, w, h in perfect))
out.append("(* operation, trim_right_edge argument, trim_bottom_edge argument *)")
out.append("Definition gen_trim : list (xop * option srcdim * option srcdim) := [%s]." % "; ".join("(%s, %s, %s)" % (x, dim(r), dim(bb)) for x, r, bb in trims))
out.append("(* trim_right_edge / trim_bottom_edge: out field, divisor, offset field, divisor of the full size, assigned field, factor *)")
out.append("Definition gen_trim_right_shape : list string := [%s]." % "; ".join('"%s"%%string' % x for x in trim_r))
out.append("Definition gen_trim_bottom_shape : list string := [%s]." % "; ".join('"%s"%%string' % x for x in trim_b))
out.append("Definition gen_transpose_it : list (xop * bool) := [%s]." % "; ".join("(%s, %s)" % (x, b(v)) for x, v in transposed))
out.append("Definition gen_swap_dims : list (xop * bool) := [%s]." % "; ".join("(%s, %s)" % (x, b(v)) for x, v in swap))
out.append("Definition gen_transpose_critical : list (xop * bool) := [%s]." % "; ".join("(%s, %s)" % (x, b(v)) for x, v in crit))
out.append("Definition gen_exec : list (xop * list string) := [%s]." % "; ".join(
    "(%s, [%s])" % (x, "; ".join('"%s"%%string' % r for r in rs)) for x, rs in execs))
out.append("(* routine, source dimension of MCU_cols, of MCU_rows; routine, column loop steps by h_samp_factor *)")
out.append("Definition gen_mcu_dims : list (string * option srcdim * option srcdim) := [%s]." % "; ".join(
    '("%s"%%string, %s, %s)' % (r, dim(a), dim(bb)) for r, a, bb in mcu_dims))
out.append("Definition gen_blockwise : list (string * bool) := [%s]." % "; ".join('("%s"%%string, %s)' % (r, b(v)) for r, v in loop_shape))
out.append("Local Open Scope nat_scope.")
out.append("(* in-block loops in order of appearance per routine: (destination index, source index, negated) in execution order *)")
out.append("Definition gen_inblock : list (string * list (list (nat * nat * bool))) := [%s]." % ";\n  ".join(
    '("%s"%%string, [%s])' % (r, "; ".join("[%s]" % "; ".join("(%d, %d, %s)" % (a, c, b(n)) for a, c, n in l) for l in ls)) for r, ls in inblock))
out.append("(* function, `return` statements between jpeg_read_header and bailout:, bailout aborts the decompressor, returns after bailout: *)")
out.append("Definition gen_tj_errpaths : list (string * nat * bool * nat) := [%s]." % "; ".join('("%s"%%string, %d, %s, %d)' % (f, e, b(a), n) for f, e, a, n in errpaths))
out.append("(* occurrences in turbojpeg.c of the transupp.c features outside the model; fields of jpeg_transform_info it assigns *)")
out.append("Definition gen_tj_unreachable : list (string * nat) := [%s]." % "; ".join('("%s"%%string, %d)' % e for e in tj_unreach))
out.append("Local Close Scope nat_scope.")
out.append("Definition gen_tj_xinfo_fields : list string := [%s]." % "; ".join('"%s"%%string' % f for f in tj_sets))
out.append("(* TJSAMP order: luminance factors, (tjMCUWidth, tjMCUHeight), luminance factors of getDstSubsamp under transposition *)")
rows = []
for i, sname in enumerate(samp):
    d = dstmap.get(sname, sname)
    rows.append("((%d, %d), (%d, %d), (%d, %d))" % (FACT[sname] + (mw[i], mhh[i]) + FACT[d]))
out.append("Definition gen_tjsamp : list ((Z * Z) * (Z * Z) * (Z * Z)) := [%s]." % "; ".join(rows))
print("\n".join(out))
