#!/usr/bin/env python3
"""Round-2 red-team prompt: like advprompt.py, plus the list of changes already tried (from the round-1 READMEs)."""
import json, sys, glob, subprocess
pid = sys.argv[1]
base = subprocess.check_output([sys.executable, '/verif/tools/advprompt.py', pid]).decode()
base = base.replace('/tmp/adv-%s' % pid, '/tmp/adv2-%s' % pid)
tried = []
for f in sorted(glob.glob('/tmp/adv-%s-out/README*.md' % pid)) + sorted(glob.glob('/verif/seeded/%s-*/README.md' % pid)):
    lines = [l.strip('# ').strip() for l in open(f).read().split('\n') if l.strip()]
    if lines and lines[0] not in tried:
        tried.append(lines[0][:200])
extra = "\n\nA previous red team already produced the following changes for this property; do NOT repeat them or close variants -- pick different files, mechanisms and trigger conditions (other entry points, other modes/precisions, other parameter interactions, other multi-step sequences):\n" + "\n".join("- " + t for t in tried)
print(base.replace("\n\nFor each change i in 1..3:", extra + "\n\nFor each change i in 1..3:"))
