#!/usr/bin/env python3
"""Translator for C16: reads the constants the ICC / marker round-trip model depends on
from the CURRENT source tree (argv[1]) and prints coq/gen/GenIccConst.v.

 jcicc.c   ICC_MARKER, ICC_OVERHEAD_LEN, MAX_BYTES_IN_MARKER, MAX_DATA_BYTES_IN_MARKER,
           the literal bytes written before the profile data (signature, then seq, count)
 jdicc.c   ICC_MARKER, ICC_OVERHEAD_LEN, MAX_SEQ_NO, the bytes marker_is_icc compares,
           the data[] indexes of sequence number and count
 jpeglib.h JPEG_APP0, JPEG_COM
 jcmarker.c / jdmarker.c   the JPEG_MARKER enums (must agree), the write_marker_header
           length limit, the JFIF / Adobe identifier bytes of the emitters and examiners,
           field order of emit_jfif_app0 / examine_app0, APP0_DATA_LEN / APP14_DATA_LEN
 transupp.h / transupp.c   JCOPY_OPTION enumerators in order, identifier bytes tested by
           jcopy_markers_execute, save limit used by jcopy_markers_setup
 turbojpeg.c  range of TJPARAM_SAVEMARKERS, save limit of tj3DecompressHeader
Exits non-zero with a message when a construct is gone."""
import re, sys

repo = sys.argv[1]


def rd(p):
    try:
        return open(repo + "/src/" + p, errors="replace").read()
    except OSError as e:
        sys.exit("cannot read src/%s: %s" % (p, e))


def die(msg):
    sys.exit("gen_IccConst: " + msg)


def strip_comments(s):
    return re.sub(r"/\*.*?\*/", "", s, flags=re.S)


def func_body(src, name, fname):
    m = re.search(r"\n" + re.escape(name) + r"\s*\(", src) or \
        re.search(r"\n(?:DLLEXPORT|static)\s+[\w \*]*?\b" + re.escape(name) + r"\s*\(", src)
    if not m:
        die("%s: function %s not found" % (fname, name))
    i = src.find("{", m.end())
    depth, j = 0, i
    while j < len(src):
        if src[j] == "{":
            depth += 1
        elif src[j] == "}":
            depth -= 1
            if depth == 0:
                return strip_comments(src[i:j + 1])
        j += 1
    die("%s: body of %s not closed" % (fname, name))


def cint(s):
    s = s.strip().rstrip("UuLl")
    return int(s, 0)


def define(src, name, fname, env=None):
    m = re.search(r"#define\s+" + name + r"\s+(.+)", src)
    if not m:
        die("%s: #define %s not found" % (fname, name))
    e = strip_comments(m.group(1)).strip()
    e2 = e
    for k, v in (env or {}).items():
        e2 = re.sub(r"\b%s\b" % k, str(v), e2)
    if not re.fullmatch(r"[0-9xXa-fA-F+\-*() ]+", e2):
        die("%s: cannot evaluate %s = %s" % (fname, name, e))
    return eval(e2, {"__builtins__": {}})


jpeglib = rd("jpeglib.h")
env = {"JPEG_APP0": define(jpeglib, "JPEG_APP0", "jpeglib.h"), "JPEG_COM": define(jpeglib, "JPEG_COM", "jpeglib.h")}

# ---------------------------------------------------------------- jcicc.c
jc = rd("jcicc.c")
w = {}
w["ICC_MARKER"] = define(jc, "ICC_MARKER", "jcicc.c", env)
w["ICC_OVERHEAD_LEN"] = define(jc, "ICC_OVERHEAD_LEN", "jcicc.c", env)
w["MAX_BYTES_IN_MARKER"] = define(jc, "MAX_BYTES_IN_MARKER", "jcicc.c", env)
w["MAX_DATA_BYTES_IN_MARKER"] = define(jc, "MAX_DATA_BYTES_IN_MARKER", "jcicc.c", dict(env, **w))
body = func_body(jc, "jpeg_write_icc_profile", "jcicc.c")
mh = re.search(r"jpeg_write_m_header\s*\(\s*cinfo\s*,\s*ICC_MARKER\s*,\s*\(unsigned int\)\s*\(\s*length\s*\+\s*ICC_OVERHEAD_LEN\s*\)\s*\)", body)
if not mh:
    die("jcicc.c: jpeg_write_m_header(cinfo, ICC_MARKER, length + ICC_OVERHEAD_LEN) not found")
if not re.search(r"num_markers\s*=\s*icc_data_len\s*/\s*MAX_DATA_BYTES_IN_MARKER\s*;\s*if\s*\(\s*num_markers\s*\*\s*MAX_DATA_BYTES_IN_MARKER\s*!=\s*icc_data_len\s*\)\s*num_markers\+\+", body):
    die("jcicc.c: marker-count computation (len / MAX_DATA_BYTES_IN_MARKER, round up) changed")
if not re.search(r"if\s*\(\s*length\s*>\s*MAX_DATA_BYTES_IN_MARKER\s*\)\s*length\s*=\s*MAX_DATA_BYTES_IN_MARKER", body):
    die("jcicc.c: chunk clamp (length > MAX_DATA_BYTES_IN_MARKER) changed")
if not re.search(r"int\s+cur_marker\s*=\s*1\s*;", body):
    die("jcicc.c: cur_marker no longer starts at 1")
hdr = re.findall(r"jpeg_write_m_byte\s*\(\s*cinfo\s*,\s*([^;]+?)\)\s*;", body[mh.end():])
sigw, rest = [], []
for a in hdr:
    a = a.strip()
    if re.fullmatch(r"0[xX][0-9a-fA-F]+|\d+", a) and not rest:
        sigw.append(cint(a))
    else:
        rest.append(a)
if rest[:3] != ["cur_marker", "(int)num_markers", "*icc_data_ptr"]:
    die("jcicc.c: bytes after the identifier are no longer cur_marker, num_markers, data: %r" % rest[:3])

# ---------------------------------------------------------------- jdicc.c
jd = rd("jdicc.c")
r = {}
r["ICC_MARKER"] = define(jd, "ICC_MARKER", "jdicc.c", env)
r["ICC_OVERHEAD_LEN"] = define(jd, "ICC_OVERHEAD_LEN", "jdicc.c", env)
r["MAX_SEQ_NO"] = define(jd, "MAX_SEQ_NO", "jdicc.c", env)
mi = func_body(jd, "marker_is_icc", "jdicc.c")
if not re.search(r"marker->marker\s*==\s*ICC_MARKER\s*&&\s*marker->data_length\s*>=\s*ICC_OVERHEAD_LEN", mi):
    die("jdicc.c: marker_is_icc no longer tests marker code and data_length >= ICC_OVERHEAD_LEN")
cmp_ = re.findall(r"marker->data\[(\d+)\]\s*==\s*(0[xX][0-9a-fA-F]+|\d+)", mi)
if [int(i) for i, _ in cmp_] != list(range(len(cmp_))) or not cmp_:
    die("jdicc.c: marker_is_icc identifier comparison is not data[0..n-1] in order")
sigr = [cint(v) for _, v in cmp_]
rb = func_body(jd, "jpeg_read_icc_profile", "jdicc.c")
mc = re.search(r"num_markers\s*=\s*marker->data\[(\d+)\]", rb)
ms = re.findall(r"seq_no\s*=\s*marker->data\[(\d+)\]", rb)
if not mc or len(ms) != 2 or ms[0] != ms[1]:
    die("jdicc.c: sequence / count byte positions not found")
for pat, what in [(r"seq_no\s*<=\s*0\s*\|\|\s*seq_no\s*>\s*num_markers", "sequence-number range check"),
                  (r"if\s*\(\s*marker_present\[seq_no\]\s*\)", "duplicate check"),
                  (r"marker_present\[seq_no\]\s*==\s*0", "missing-marker check"),
                  (r"else\s+if\s*\(\s*num_markers\s*!=\s*marker->data\[\d+\]\s*\)", "count consistency check"),
                  (r"if\s*\(\s*total_length\s*==\s*0\s*\)", "empty-profile check"),
                  (r"if\s*\(\s*num_markers\s*==\s*0\s*\)\s*return\s+FALSE", "no-marker return")]:
    if not re.search(pat, rb):
        die("jdicc.c: %s is gone" % what)

# ---------------------------------------------------------------- marker enums
def marker_enum(src, fname):
    m = re.search(r"typedef\s+enum\s*\{(.*?)\}\s*JPEG_MARKER\s*;", src, re.S)
    if not m:
        die("%s: enum JPEG_MARKER not found" % fname)
    return {k: cint(v) for k, v in re.findall(r"(M_[A-Z0-9]+)\s*=\s*(0[xX][0-9a-fA-F]+|\d+)", strip_comments(m.group(1)))}


jcm = rd("jcmarker.c")
jdm = rd("jdmarker.c")
ec, ed = marker_enum(jcm, "jcmarker.c"), marker_enum(jdm, "jdmarker.c")
if ec != ed:
    die("JPEG_MARKER enums of jcmarker.c and jdmarker.c differ")
need = ["M_SOF0", "M_SOF1", "M_SOF2", "M_SOF3", "M_SOF9", "M_SOF10", "M_SOF11", "M_SOS", "M_DRI", "M_APP0", "M_APP14", "M_APP15", "M_COM", "M_SOI", "M_EOI"]
for k in need:
    if k not in ec:
        die("marker code %s missing" % k)
wm = func_body(jcm, "write_marker_header", "jcmarker.c")
ml = re.search(r"if\s*\(\s*datalen\s*>\s*\(unsigned int\)\s*(\d+)\s*\)", wm)
if not ml:
    die("jcmarker.c: write_marker_header length check not found")
wlimit = int(ml.group(1))
if not re.search(r"emit_2bytes\s*\(\s*cinfo\s*,\s*\(int\)\s*\(\s*datalen\s*\+\s*2\s*\)\s*\)", wm):
    die("jcmarker.c: write_marker_header no longer emits datalen + 2")
e2 = func_body(jcm, "emit_2bytes", "jcmarker.c")
if not re.search(r"emit_byte\s*\(\s*cinfo\s*,\s*\(value\s*>>\s*8\)\s*&\s*0xFF\s*\)\s*;\s*emit_byte\s*\(\s*cinfo\s*,\s*value\s*&\s*0xFF\s*\)", e2):
    die("jcmarker.c: emit_2bytes is no longer MSB first")


def emitted(body):
    """sequence of (kind, expr) emitted by a marker emitter"""
    return [(k, a.strip()) for k, a in re.findall(r"emit_(byte|2bytes|marker)\s*\(\s*cinfo\s*,\s*([^;]+?)\)\s*;", body)]


jf = emitted(func_body(jcm, "emit_jfif_app0", "jcmarker.c"))
exp_jf = [("marker", "M_APP0"), ("2bytes", None)] + [("byte", None)] * 5 + [
    ("byte", "cinfo->JFIF_major_version"), ("byte", "cinfo->JFIF_minor_version"), ("byte", "cinfo->density_unit"),
    ("2bytes", "(int)cinfo->X_density"), ("2bytes", "(int)cinfo->Y_density"), ("byte", "0"), ("byte", "0")]
if len(jf) != len(exp_jf) or any(e[0] != g[0] or (e[1] is not None and e[1] != g[1]) for e, g in zip(exp_jf, jf)):
    die("jcmarker.c: emit_jfif_app0 field order changed: %r" % (jf,))
jfif_emit = [cint(a) for _, a in jf[2:7]]
jfif_len = eval(jf[1][1], {"__builtins__": {}})
ad = emitted(func_body(jcm, "emit_adobe_app14", "jcmarker.c"))
if [k for k, _ in ad[:10]] != ["marker", "2bytes"] + ["byte"] * 5 + ["2bytes"] * 3 or ad[0][1] != "M_APP14":
    die("jcmarker.c: emit_adobe_app14 layout changed: %r" % (ad,))
adobe_emit = [cint(a) for _, a in ad[2:7]]
adobe_len = eval(ad[1][1], {"__builtins__": {}})
adobe_ver = [cint(a) for _, a in ad[7:10]]
adobe_tail = re.search(r"case\s+JCS_YCbCr\s*:\s*emit_byte\s*\(\s*cinfo\s*,\s*(\d+)\s*\).*?case\s+JCS_YCCK\s*:\s*emit_byte\s*\(\s*cinfo\s*,\s*(\d+)\s*\).*?default\s*:\s*emit_byte\s*\(\s*cinfo\s*,\s*(\d+)\s*\)",
                       func_body(jcm, "emit_adobe_app14", "jcmarker.c"), re.S)
if not adobe_tail:
    die("jcmarker.c: emit_adobe_app14 transform switch changed")
adobe_tr = [int(x) for x in adobe_tail.groups()]

sof = emitted(func_body(jcm, "emit_sof", "jcmarker.c"))
exp_sof = [("marker", "code"), ("2bytes", "3 * cinfo->num_components + 2 + 5 + 1"), ("byte", "cinfo->data_precision"),
           ("2bytes", "(int)cinfo->_jpeg_height"), ("2bytes", "(int)cinfo->_jpeg_width"), ("byte", "cinfo->num_components"),
           ("byte", "compptr->component_id"), ("byte", "(compptr->h_samp_factor << 4) + compptr->v_samp_factor"),
           ("byte", "compptr->quant_tbl_no")]
if sof != exp_sof:
    die("jcmarker.c: emit_sof field order changed: %r" % (sof,))
sos = emitted(func_body(jcm, "emit_sos", "jcmarker.c"))
exp_sos = [("marker", "M_SOS"), ("2bytes", "2 * cinfo->comps_in_scan + 2 + 1 + 3"), ("byte", "cinfo->comps_in_scan"),
           ("byte", "compptr->component_id"), ("byte", "(td << 4) + ta"), ("byte", "cinfo->Ss"), ("byte", "cinfo->Se"),
           ("byte", "(cinfo->Ah << 4) + cinfo->Al")]
if sos != exp_sos:
    die("jcmarker.c: emit_sos field order changed: %r" % (sos,))
sosb = func_body(jcm, "emit_sos", "jcmarker.c")
mtd = re.search(r"td\s*=\s*(.+?)\?\s*compptr->dc_tbl_no\s*:\s*0\s*;", sosb, re.S)
mta = re.search(r"ta\s*=\s*cinfo->Se\s*\?\s*compptr->ac_tbl_no\s*:\s*0\s*;", sosb)
if not mtd or not mta:
    die("jcmarker.c: emit_sos td/ta selection changed")
tdcond = " ".join(mtd.group(1).split())
if tdcond == "cinfo->Ss == 0 && cinfo->Ah == 0":
    td_lossless = 0      # Td is zeroed whenever Ss != 0, i.e. also in lossless scans
elif "lossless" in tdcond and "cinfo->Ss == 0 && cinfo->Ah == 0" in tdcond and "||" in tdcond:
    td_lossless = 1      # lossless scans keep dc_tbl_no
else:
    die("jcmarker.c: emit_sos td condition not understood: " + tdcond)
dri = emitted(func_body(jcm, "emit_dri", "jcmarker.c"))
if dri != [("marker", "M_DRI"), ("2bytes", "4"), ("2bytes", "(int)cinfo->restart_interval")]:
    die("jcmarker.c: emit_dri changed: %r" % (dri,))

# ---------------------------------------------------------------- jdmarker.c
app0len = define(jdm, "APP0_DATA_LEN", "jdmarker.c")
app14len = define(jdm, "APP14_DATA_LEN", "jdmarker.c")
appnlen = define(jdm, "APPN_DATA_LEN", "jdmarker.c")
ex0 = func_body(jdm, "examine_app0", "jdmarker.c")
m0 = re.search(r"if\s*\(\s*datalen\s*>=\s*APP0_DATA_LEN\s*&&(.*?)\)\s*\{", ex0, re.S)
if not m0:
    die("jdmarker.c: examine_app0 JFIF test not found")
jfif_exam = [cint(v) for _, v in re.findall(r"data\[(\d+)\]\s*==\s*(0[xX][0-9a-fA-F]+|\d+)", m0.group(1))]
for pat, what in [(r"JFIF_major_version\s*=\s*data\[5\]", "major"), (r"JFIF_minor_version\s*=\s*data\[6\]", "minor"),
                  (r"density_unit\s*=\s*data\[7\]", "unit"), (r"X_density\s*=\s*\(data\[8\]\s*<<\s*8\)\s*\+\s*data\[9\]", "X_density"),
                  (r"Y_density\s*=\s*\(data\[10\]\s*<<\s*8\)\s*\+\s*data\[11\]", "Y_density")]:
    if not re.search(pat, ex0):
        die("jdmarker.c: examine_app0 field %s moved" % what)
ex14 = func_body(jdm, "examine_app14", "jdmarker.c")
m14 = re.search(r"if\s*\(\s*datalen\s*>=\s*APP14_DATA_LEN\s*&&(.*?)\)\s*\{", ex14, re.S)
if not m14 or not re.search(r"transform\s*=\s*data\[11\]", ex14):
    die("jdmarker.c: examine_app14 changed")
adobe_exam = [cint(v) for _, v in re.findall(r"data\[(\d+)\]\s*==\s*(0[xX][0-9a-fA-F]+|\d+)", m14.group(1))]
sm = func_body(jdm, "save_marker", "jdmarker.c")
for pat, what in [(r"length\s*-=\s*2\s*;", "length -= 2"),
                  (r"if\s*\(\s*\(unsigned int\)\s*length\s*<\s*limit\s*\)\s*limit\s*=\s*\(unsigned int\)\s*length", "limit = min(length, limit)"),
                  (r"cur_marker->original_length\s*=\s*\(unsigned int\)\s*length", "original_length"),
                  (r"cur_marker->data_length\s*=\s*limit", "data_length = limit"),
                  (r"marker_list_end->next\s*=\s*cur_marker", "append at list end")]:
    if not re.search(pat, sm):
        die("jdmarker.c: save_marker: '%s' is gone" % what)
sv = func_body(jdm, "jpeg_save_markers", "jdmarker.c")
if not re.search(r"marker_code\s*==\s*\(int\)\s*M_APP0\s*&&\s*length_limit\s*<\s*APP0_DATA_LEN\s*\)\s*length_limit\s*=\s*APP0_DATA_LEN", sv) or \
   not re.search(r"marker_code\s*==\s*\(int\)\s*M_APP14\s*&&\s*length_limit\s*<\s*APP14_DATA_LEN\s*\)\s*length_limit\s*=\s*APP14_DATA_LEN", sv):
    die("jdmarker.c: jpeg_save_markers APP0/APP14 minimum changed")

# ---------------------------------------------------------------- transupp
th = rd("transupp.h")
me = re.search(r"typedef\s+enum\s*\{(.*?)\}\s*JCOPY_OPTION\s*;", th, re.S)
if not me:
    die("transupp.h: enum JCOPY_OPTION not found")
copyopts = re.findall(r"\b(JCOPYOPT_[A-Z_]+)\b", strip_comments(me.group(1)))
if copyopts != ["JCOPYOPT_NONE", "JCOPYOPT_COMMENTS", "JCOPYOPT_ALL", "JCOPYOPT_ALL_EXCEPT_ICC", "JCOPYOPT_ICC"]:
    die("transupp.h: JCOPY_OPTION enumerators changed: %r" % copyopts)
tc = rd("transupp.c")
cs = func_body(tc, "jcopy_markers_setup", "transupp.c")
lims = set(re.findall(r"jpeg_save_markers\s*\(\s*srcinfo\s*,[^,]+,\s*(0[xX][0-9a-fA-F]+|\d+)\s*\)", cs))
if len(lims) != 1:
    die("transupp.c: jcopy_markers_setup save limits are not one constant: %r" % lims)
copy_limit = cint(lims.pop())
ce = func_body(tc, "jcopy_markers_execute", "transupp.c")
mj = re.search(r"dstinfo->write_JFIF_header\s*&&\s*marker->marker\s*==\s*JPEG_APP0\s*&&\s*marker->data_length\s*>=\s*(\d+)\s*&&(.*?)\)\s*continue", ce, re.S)
ma = re.search(r"dstinfo->write_Adobe_marker\s*&&\s*marker->marker\s*==\s*JPEG_APP0\s*\+\s*14\s*&&\s*marker->data_length\s*>=\s*(\d+)\s*&&(.*?)\)\s*continue", ce, re.S)
if not mj or not ma:
    die("transupp.c: jcopy_markers_execute duplicate JFIF/Adobe tests not found")
jfif_copy = [cint(v) for _, v in re.findall(r"data\[(\d+)\]\s*==\s*(0[xX][0-9a-fA-F]+|\d+)", mj.group(2))]
adobe_copy = [cint(v) for _, v in re.findall(r"data\[(\d+)\]\s*==\s*(0[xX][0-9a-fA-F]+|\d+)", ma.group(2))]
jfif_copy_min, adobe_copy_min = int(mj.group(1)), int(ma.group(1))

# ---------------------------------------------------------------- turbojpeg.c
tj = rd("turbojpeg.c")
mt = re.search(r"SET_PARAM\s*\(\s*saveMarkers\s*,\s*(\d+)\s*,\s*(\d+)\s*\)", tj)
if not mt:
    die("turbojpeg.c: SET_PARAM(saveMarkers, lo, hi) not found")
mt2 = re.search(r"jpeg_save_markers\s*\(\s*dinfo\s*,\s*JPEG_APP0\s*\+\s*2\s*,\s*(0[xX][0-9a-fA-F]+|\d+)\s*\)", tj)
if not mt2:
    die("turbojpeg.c: tj3DecompressHeader no longer saves APP2 markers")
# tj3Transform: when is the instance profile (tj3SetICCProfile) written after the copied markers?
#   old form : if (iccBuf != NULL && iccSize != 0) jpeg_write_icc_profile(...)            -> unconditional (flag 1)
#   fixed    : iccCopied = TRUE when the option is JCOPYOPT_ALL / JCOPYOPT_ICC and the source marker list holds an
#              APP2 marker of at least N bytes starting with the identifier; written only if !iccCopied  (flag 0)
tb = func_body(tj, "tj3Transform", "turbojpeg.c")
mx = re.search(r"jcopy_markers_execute\s*\(.*?\)\s*;(.*?)jpeg_write_icc_profile\s*\(", tb, re.S)
if not mx:
    die("turbojpeg.c: tj3Transform no longer calls jpeg_write_icc_profile after jcopy_markers_execute")
between = " ".join(mx.group(1).split())
tj_icc_minlen, tj_icc_sig = 12, list(sigr)
if re.fullmatch(r"if \(this->iccBuf != NULL && this->iccSize != 0\)", between):
    tj_icc_uncond = 1
else:
    tj_icc_uncond = 0
    between2 = between.replace(" ", "")
    want_head = "if(copyOption==JCOPYOPT_ALL||copyOption==JCOPYOPT_ICC){jpeg_saved_marker_ptrmarker;for(marker=dinfo->marker_list;marker!=NULL;marker=marker->next){if(marker->marker==JPEG_APP0+2&&marker->data_length>="
    want_tail = "iccCopied=TRUE;}}if(this->iccBuf!=NULL&&this->iccSize!=0&&!iccCopied)"
    mg = None
    if between2.startswith(want_head) and between2.endswith(want_tail):
        mid = between2[len(want_head):len(between2) - len(want_tail)]
        mg = re.fullmatch(r'(\d+)&&!memcmp\(marker->data,"((?:[^"\\]|\\.)*)",(\d+)\)\)', mid)
    if not mg:
        die("turbojpeg.c: tj3Transform ICC condition not understood: " + between[:300])
    if not re.search(r"copyOption\s*=\s*t\[i\]\.options\s*&\s*TJXOPT_COPYNONE\s*\?\s*JCOPYOPT_NONE\s*:\s*\(JCOPY_OPTION\)\s*this->saveMarkers", tb) or \
       not re.search(r"jcopy_markers_execute\s*\(\s*dinfo\s*,\s*cinfo\s*,\s*copyOption\s*\)", tb):
        die("turbojpeg.c: tj3Transform copyOption is no longer COPYNONE ? NONE : saveMarkers")
    lit = mg.group(2).encode().decode("unicode_escape").encode("latin-1")
    ncmp = int(mg.group(3))
    lit = (lit + b"\0")[:ncmp]            # memcmp may include the literal's terminating NUL
    if len(lit) != ncmp:
        die("turbojpeg.c: tj3Transform memcmp length exceeds the literal")
    tj_icc_minlen, tj_icc_sig = int(mg.group(1)), list(lit)

# turbojpeg.h: iMCU sizes per subsampling level and the TJSAMP enumerators (getSubsamp / setCompDefaults)
tjh = rd("turbojpeg.h")
mw = re.search(r"tjMCUWidth\[TJ_NUMSAMP\]\s*=\s*\{([^}]*)\}", tjh)
mh_ = re.search(r"tjMCUHeight\[TJ_NUMSAMP\]\s*=\s*\{([^}]*)\}", tjh)
if not mw or not mh_:
    die("turbojpeg.h: tjMCUWidth / tjMCUHeight not found")
mcuw = [int(x) for x in re.findall(r"\d+", mw.group(1))]
mcuh = [int(x) for x in re.findall(r"\d+", mh_.group(1))]
msamp = re.search(r"enum\s+TJSAMP\s*\{(.*?)\}\s*;", tjh, re.S)
if not msamp:
    die("turbojpeg.h: enum TJSAMP not found")
samps = re.findall(r"\b(TJSAMP_[A-Z0-9]+)\b(?:\s*=\s*(-?\d+))?\s*(?:,|$)", strip_comments(msamp.group(1)))
sampv, cur = {}, 0
for name, val in samps:
    if val:
        cur = int(val)
    sampv[name] = cur
    cur += 1
for k in ("TJSAMP_444", "TJSAMP_422", "TJSAMP_420", "TJSAMP_GRAY", "TJSAMP_440", "TJSAMP_411", "TJSAMP_441"):
    if k not in sampv:
        die("turbojpeg.h: %s missing" % k)
if len(mcuw) != len(mcuh) or len(mcuw) != 1 + max(v for k, v in sampv.items() if v >= 0):
    die("turbojpeg.h: tjMCUWidth/Height do not have one entry per TJSAMP level")
dmax = define(jpeglib, "D_MAX_BLOCKS_IN_MCU", "jpeglib.h")
gs = func_body(tj, "getSubsamp", "turbojpeg.c")
for pat, what in [(r"num_components\s*==\s*1\s*&&\s*dinfo->jpeg_color_space\s*==\s*JCS_GRAYSCALE\s*\)\s*return\s+TJSAMP_GRAY", "grayscale special case"),
                  (r"if\s*\(\s*i\s*==\s*TJSAMP_GRAY\s*\)\s*continue", "skip of TJSAMP_GRAY"),
                  (r"i\s*==\s*TJSAMP_422\s*\|\|\s*i\s*==\s*TJSAMP_440", "non-standard 4:2:2 / 4:4:0 case"),
                  (r"D_MAX_BLOCKS_IN_MCU\s*/\s*3\s*&&\s*i\s*==\s*TJSAMP_444", "non-standard 4:4:4 case")]:
    if not re.search(pat, gs):
        die("turbojpeg.c: getSubsamp: %s is gone" % what)
# jpegint.h compressor states; jcapimin.c / jcicc.c state checks of the marker-writing API
jint = rd("jpegint.h")
cstates = {k: define(jint, k, "jpegint.h") for k in ("CSTATE_START", "CSTATE_SCANNING", "CSTATE_RAW_OK", "CSTATE_WRCOEFS")}
dstate_ready = define(jint, "DSTATE_READY", "jpegint.h")
jca = rd("jcapimin.c")
state_pat = (r"if\s*\(\s*cinfo->next_scanline\s*!=\s*0\s*\|\|\s*\(\s*cinfo->global_state\s*!=\s*CSTATE_SCANNING\s*&&\s*"
             r"cinfo->global_state\s*!=\s*CSTATE_RAW_OK\s*&&\s*cinfo->global_state\s*!=\s*CSTATE_WRCOEFS\s*\)\s*\)\s*ERREXIT1\s*\(\s*cinfo\s*,\s*JERR_BAD_STATE")
for fn in ("jpeg_write_marker", "jpeg_write_m_header"):
    b = func_body(jca, fn, "jcapimin.c")
    m1 = re.search(state_pat, b)
    m2 = re.search(r"\(\*cinfo->marker->write_marker_header\)\s*\(\s*cinfo\s*,\s*marker\s*,\s*datalen\s*\)", b)
    if not m1 or not m2 or m1.start() > m2.start():
        die("jcapimin.c: %s no longer checks next_scanline/global_state before write_marker_header" % fn)
wb = func_body(jc, "jpeg_write_icc_profile", "jcicc.c")
m1 = re.search(r"if\s*\(\s*icc_data_ptr\s*==\s*NULL\s*\|\|\s*icc_data_len\s*==\s*0\s*\)\s*ERREXIT\s*\(\s*cinfo\s*,\s*JERR_BUFFER_SIZE\s*\)", wb)
m2 = re.search(r"if\s*\(\s*cinfo->global_state\s*<\s*CSTATE_SCANNING\s*\)\s*ERREXIT1\s*\(\s*cinfo\s*,\s*JERR_BAD_STATE", wb)
if not m1 or not m2 or m1.start() > m2.start():
    die("jcicc.c: jpeg_write_icc_profile argument / state checks changed")
rb2 = func_body(jd, "jpeg_read_icc_profile", "jdicc.c")
if not re.search(r"if\s*\(\s*cinfo->global_state\s*<\s*DSTATE_READY\s*\)\s*ERREXIT1\s*\(\s*cinfo\s*,\s*JERR_BAD_STATE", rb2):
    die("jdicc.c: jpeg_read_icc_profile state check changed")
# tables: jutils.c jpeg_natural_order, jpeglib.h table counts, statement shapes of get_dqt / get_dht / emit_dqt
ju = rd("jutils.c")
mno = re.search(r"jpeg_natural_order\[DCTSIZE2 \+ 16\]\s*=\s*\{([^}]*)\}", strip_comments(ju))
if not mno:
    die("jutils.c: jpeg_natural_order not found")
natorder = [int(x) for x in re.findall(r"\d+", mno.group(1))][:64]
if sorted(natorder) != list(range(64)):
    die("jutils.c: jpeg_natural_order is not a permutation of 0..63")
num_qt = define(jpeglib, "NUM_QUANT_TBLS", "jpeglib.h")
num_ht = define(jpeglib, "NUM_HUFF_TBLS", "jpeglib.h")
dctsize2 = define(jpeglib, "DCTSIZE2", "jpeglib.h")
num_arith = define(jpeglib, "NUM_ARITH_TBLS", "jpeglib.h")
gd = func_body(jdm, "get_dac", "jdmarker.c")
for pat, what in [(r"while\s*\(\s*length\s*>\s*0\s*\)", "loop"), (r"index\s*<\s*0\s*\|\|\s*index\s*>=\s*\(2\s*\*\s*NUM_ARITH_TBLS\)", "index check"),
                  (r"arith_dc_L\[index\]\s*=\s*\(UINT8\)\s*\(val\s*&\s*0x0F\)\s*;\s*cinfo->arith_dc_U\[index\]\s*=\s*\(UINT8\)\s*\(val\s*>>\s*4\)", "L/U split"),
                  (r"arith_dc_L\[index\]\s*>\s*cinfo->arith_dc_U\[index\]", "L > U check"),
                  (r"if\s*\(\s*length\s*!=\s*0\s*\)\s*ERREXIT\s*\(\s*cinfo\s*,\s*JERR_BAD_LENGTH", "final length check")]:
    if not re.search(pat, gd):
        die("jdmarker.c: get_dac: '%s' is gone" % what)
gsoi = func_body(jdm, "get_soi", "jdmarker.c")
if not re.search(r"arith_dc_L\[i\]\s*=\s*0\s*;\s*cinfo->arith_dc_U\[i\]\s*=\s*1\s*;\s*cinfo->arith_ac_K\[i\]\s*=\s*5", gsoi):
    die("jdmarker.c: get_soi arithmetic conditioning defaults changed")
rmk = func_body(jdm, "read_markers", "jdmarker.c")
if not re.search(r"case\s+M_DNL\s*:[^;]*?if\s*\(\s*!skip_variable\s*\(\s*cinfo\s*\)\s*\)", rmk, re.S):
    die("jdmarker.c: read_markers no longer skips DNL with skip_variable")
if not re.search(r"default\s*:.*?ERREXIT1\s*\(\s*cinfo\s*,\s*JERR_UNKNOWN_MARKER", rmk, re.S):
    die("jdmarker.c: read_markers default case is no longer JERR_UNKNOWN_MARKER")
gq = func_body(jdm, "get_dqt", "jdmarker.c")
for pat, what in [(r"while\s*\(\s*length\s*>\s*0\s*\)", "loop while (length > 0)"), (r"prec\s*=\s*n\s*>>\s*4\s*;\s*n\s*&=\s*0x0F", "prec = n >> 4; n &= 0x0F"),
                  (r"if\s*\(\s*n\s*>=\s*NUM_QUANT_TBLS\s*\)\s*ERREXIT1", "index check"),
                  (r"quant_ptr->quantval\[jpeg_natural_order\[i\]\]\s*=\s*\(UINT16\)\s*tmp", "zigzag -> natural store"),
                  (r"length\s*-=\s*DCTSIZE2\s*\+\s*1\s*;\s*if\s*\(\s*prec\s*\)\s*length\s*-=\s*DCTSIZE2", "length accounting"),
                  (r"if\s*\(\s*length\s*!=\s*0\s*\)\s*ERREXIT\s*\(\s*cinfo\s*,\s*JERR_BAD_LENGTH", "final length check")]:
    if not re.search(pat, gq):
        die("jdmarker.c: get_dqt: '%s' is gone" % what)
gh = func_body(jdm, "get_dht", "jdmarker.c")
for pat, what in [(r"while\s*\(\s*length\s*>\s*16\s*\)", "loop while (length > 16)"),
                  (r"length\s*-=\s*1\s*\+\s*16", "length -= 1 + 16"),
                  (r"if\s*\(\s*count\s*>\s*256\s*\|\|\s*\(\(JLONG\)count\)\s*>\s*length\s*\)\s*ERREXIT", "count check"),
                  (r"if\s*\(\s*index\s*&\s*0x10\s*\)\s*\{[^}]*index\s*-=\s*0x10", "AC/DC split"),
                  (r"index\s*<\s*0\s*\|\|\s*index\s*>=\s*NUM_HUFF_TBLS", "index check"),
                  (r"if\s*\(\s*length\s*!=\s*0\s*\)\s*ERREXIT\s*\(\s*cinfo\s*,\s*JERR_BAD_LENGTH", "final length check")]:
    if not re.search(pat, gh):
        die("jdmarker.c: get_dht: '%s' is gone" % what)
eq = func_body(jcm, "emit_dqt", "jcmarker.c")
for pat, what in [(r"emit_2bytes\s*\(\s*cinfo\s*,\s*prec\s*\?\s*DCTSIZE2\s*\*\s*2\s*\+\s*1\s*\+\s*2\s*:\s*DCTSIZE2\s*\+\s*1\s*\+\s*2\s*\)", "segment length"),
                  (r"emit_byte\s*\(\s*cinfo\s*,\s*index\s*\+\s*\(prec\s*<<\s*4\)\s*\)", "Pq/Tq byte"),
                  (r"qval\s*=\s*qtbl->quantval\[jpeg_natural_order\[i\]\]", "zigzag emission order")]:
    if not re.search(pat, eq):
        die("jcmarker.c: emit_dqt: '%s' is gone" % what)
# tj3TransformBufSize: bytes added per APP2 marker of an ICC profile
tbs = func_body(tj, "tj3TransformBufSize", "turbojpeg.c")
mb1 = re.search(r"retval\s*\+=\s*this->tempICCSize\s*\+\s*(\d+)\s*\*\s*\(size_t\)\s*this->tempICCMarkers", tbs)
mb2 = re.search(r"retval\s*\+=\s*this->iccSize\s*\+\s*(\d+)\s*\*\s*\(\s*this->iccSize\s*/\s*(\d+)\s*\+\s*\(\s*this->iccSize\s*%\s*(\d+)\s*!=\s*0\s*\)\s*\)", tbs)
if not mb1 or not mb2 or mb1.group(1) != mb2.group(1) or mb2.group(2) != mb2.group(3):
    die("turbojpeg.c: tj3TransformBufSize ICC terms not understood")
bufsize_per_marker, bufsize_chunk = int(mb1.group(1)), int(mb2.group(2))

# default_decompress_parms (jdapimin.c): the colourspace decision as decision trees, statement by statement.
#   dtree := DLeaf jcs | DIf cond then else | DSwitchAdobe [(value, tree)] default_tree
#   cond  := conjunction of literals (negated?, atom); atoms: jfif, adobe, lossless, id k v
jda = rd("jdapimin.c")
ddp = func_body(jda, "default_decompress_parms", "jdapimin.c")
ddp = re.sub(r"^\s*#\s*(ifdef|ifndef|endif|else|if)\b.*$", "", ddp, flags=re.M)      # D_LOSSLESS_SUPPORTED is on in this tree
if "D_LOSSLESS_SUPPORTED" not in rd("jmorecfg.h"):
    die("jmorecfg.h: D_LOSSLESS_SUPPORTED no longer defined")
jcs_enum = re.search(r"typedef\s+enum\s*\{(.*?)\}\s*J_COLOR_SPACE\s*;", strip_comments(jpeglib), re.S)
if not jcs_enum:
    die("jpeglib.h: enum J_COLOR_SPACE not found")
jcs_names = re.findall(r"\b(JCS_[A-Za-z0-9_]+)\b", jcs_enum.group(1))
jcs_val = {n: i for i, n in enumerate(jcs_names)}
for k in ("JCS_UNKNOWN", "JCS_GRAYSCALE", "JCS_RGB", "JCS_YCbCr", "JCS_CMYK", "JCS_YCCK"):
    if k not in jcs_val:
        die("jpeglib.h: %s missing" % k)
_tok = re.findall(r"[A-Za-z_][A-Za-z0-9_]*(?:->[A-Za-z_][A-Za-z0-9_]*|\[\d+\]|\.[A-Za-z_][A-Za-z0-9_]*)*|\d+|==|&&|\|\||[-+*/!(){};:=,<>]", ddp)
_pos = [0]
_cid = {}


def _peek():
    return _tok[_pos[0]] if _pos[0] < len(_tok) else None


def _next():
    _pos[0] += 1
    return _tok[_pos[0] - 1]


def _expect(t):
    if _next() != t:
        die("jdapimin.c: default_decompress_parms: expected '%s' near token %d (%s)" % (t, _pos[0], " ".join(_tok[max(0, _pos[0] - 6):_pos[0] + 3])))


def _cond():
    """conjunction of literals up to the matching ')'"""
    lits, depth, cur = [], 0, []
    while True:
        t = _next()
        if t == "(":
            depth += 1; continue
        if t == ")":
            if depth == 0:
                break
            depth -= 1; continue
        if t == "||":
            die("jdapimin.c: default_decompress_parms: disjunction in a condition is not understood")
        if t == "&&":
            lits.append(cur); cur = []
        else:
            cur.append(t)
    lits.append(cur)
    out = []
    for l in lits:
        neg = False
        while l and l[0] == "!":
            neg = not neg; l = l[1:]
        s_ = " ".join(l)
        if s_ == "cinfo->saw_JFIF_marker":
            out.append((neg, "AJfif"))
        elif s_ == "cinfo->saw_Adobe_marker":
            out.append((neg, "AAdobe"))
        elif s_ == "cinfo->master->lossless":
            out.append((neg, "ALossless"))
        elif len(l) == 3 and l[1] == "==" and l[0] in _cid and l[2].isdigit():
            out.append((neg, "(AId %d %s)" % (_cid[l[0]], l[2])))
        else:
            die("jdapimin.c: default_decompress_parms: condition '%s' is not understood" % s_)
    return out


def _stmt():
    """returns a tree or None (statement without effect on jpeg_color_space)"""
    t = _peek()
    if t == "{":
        _next(); res = None
        while _peek() != "}":
            r = _stmt()
            if r is not None:
                if res is not None:
                    die("jdapimin.c: default_decompress_parms: two colourspace decisions in one block")
                res = r
        _next()
        return res
    if t == "if":
        _next(); _expect("(")
        c = _cond()
        th = _stmt()
        el = None
        if _peek() == "else":
            _next(); el = _stmt()
        if th is None and el is None:
            return None
        if th is None or el is None:
            die("jdapimin.c: default_decompress_parms: an if decides the colourspace on one branch only")
        return ("if", c, th, el)
    if t == "switch":
        _next(); _expect("(")
        what = []
        while _peek() != ")":
            what.append(_next())
        _next()
        if " ".join(what) != "cinfo->Adobe_transform":
            die("jdapimin.c: default_decompress_parms: switch on '%s' is not understood" % " ".join(what))
        _expect("{")
        cases, dflt = [], None
        while _peek() != "}":
            k = _next()
            if k == "case":
                v = _next(); _expect(":")
            elif k == "default":
                v = None; _expect(":")
            else:
                die("jdapimin.c: default_decompress_parms: unexpected token '%s' in the Adobe switch" % k)
            res = None
            while _peek() not in ("case", "default", "}"):
                r = _stmt()
                if r is not None:
                    res = r
            if res is None:
                die("jdapimin.c: default_decompress_parms: Adobe switch case without a colourspace")
            if v is None:
                dflt = res
            else:
                cases.append((int(v), res))
        _next()
        if dflt is None:
            die("jdapimin.c: default_decompress_parms: Adobe switch without default")
        return ("adobe", cases, dflt)
    # simple statement up to ';'
    st = []
    while _peek() != ";":
        st.append(_next())
    _next()
    s_ = " ".join(st)
    m_ = re.fullmatch(r"cinfo->jpeg_color_space = (JCS_\w+)", s_)
    if m_:
        return ("leaf", jcs_val[m_.group(1)])
    m_ = re.fullmatch(r"int (cid\d) = cinfo->comp_info\[(\d)\]\.component_id", s_)
    if m_:
        _cid[m_.group(1)] = int(m_.group(2))
    return None


# find "switch (cinfo->num_components) {"
try:
    i0 = next(i for i in range(len(_tok) - 4) if _tok[i:i + 4] == ["switch", "(", "cinfo->num_components", ")"])
except StopIteration:
    die("jdapimin.c: default_decompress_parms: switch (cinfo->num_components) not found")
_pos[0] = i0 + 4
_expect("{")
ddp_cases, ddp_default = {}, None
while _peek() != "}":
    k = _next()
    if k == "case":
        v = int(_next()); _expect(":")
    elif k == "default":
        v = None; _expect(":")
    else:
        die("jdapimin.c: default_decompress_parms: unexpected token '%s' in the component-count switch" % k)
    res_ = None
    while _peek() not in ("case", "default", "}"):
        r_ = _stmt()
        if r_ is not None:
            if res_ is not None:
                die("jdapimin.c: default_decompress_parms: two colourspace decisions for one component count")
            res_ = r_
    if res_ is None:
        die("jdapimin.c: default_decompress_parms: a component count without colourspace decision")
    if v is None:
        ddp_default = res_
    else:
        ddp_cases[v] = res_
if ddp_default is None:
    die("jdapimin.c: default_decompress_parms: no default case")


def coq_tree(t):
    if t[0] == "leaf":
        return "(DLeaf %d)" % t[1]
    if t[0] == "if":
        return "(DIf [%s] %s %s)" % ("; ".join("(%s, %s)" % ("true" if n else "false", a) for n, a in t[1]), coq_tree(t[2]), coq_tree(t[3]))
    return "(DAdobe [%s] %s)" % ("; ".join("(%d, %s)" % (v, coq_tree(x)) for v, x in t[1]), coq_tree(t[2]))
# next_marker / first_marker: the statement shapes the scanner model mirrors
nmk = func_body(jdm, "next_marker", "jdmarker.c")
for pat, what in [(r"while\s*\(\s*c\s*!=\s*0xFF\s*\)\s*\{\s*cinfo->marker->discarded_bytes\+\+", "garbage loop counting discarded_bytes"),
                  (r"do\s*\{\s*INPUT_BYTE\s*\(\s*cinfo\s*,\s*c\s*,\s*return FALSE\s*\)\s*;\s*\}\s*while\s*\(\s*c\s*==\s*0xFF\s*\)", "fill-byte loop"),
                  (r"if\s*\(\s*c\s*!=\s*0\s*\)\s*break", "marker test"),
                  (r"cinfo->marker->discarded_bytes\s*\+=\s*2", "stuffed zero counts 2"),
                  (r"WARNMS2\s*\(\s*cinfo\s*,\s*JWRN_EXTRANEOUS_DATA\s*,\s*cinfo->marker->discarded_bytes\s*,\s*c\s*\)", "JWRN_EXTRANEOUS_DATA report")]:
    if not re.search(pat, nmk):
        die("jdmarker.c: next_marker: '%s' is gone" % what)
fmk = func_body(jdm, "first_marker", "jdmarker.c")
if not re.search(r"if\s*\(\s*c\s*!=\s*0xFF\s*\|\|\s*c2\s*!=\s*\(int\)\s*M_SOI\s*\)\s*ERREXIT2\s*\(\s*cinfo\s*,\s*JERR_NO_SOI", fmk):
    die("jdmarker.c: first_marker SOI test changed")


def zl(xs):
    return "[" + "; ".join(str(x) for x in xs) + "]"


out = []
P = out.append
P("(* GENERATED by tools/gen_IccConst.py from src/jcicc.c, jdicc.c, jcmarker.c, jdmarker.c, jpeglib.h,")
P("   transupp.[ch], turbojpeg.c -- do not edit *)")
P("From Coq Require Import List ZArith.\nImport ListNotations.\nLocal Open Scope Z_scope.\n")
P("Definition JPEG_APP0 : Z := %d.\nDefinition JPEG_COM : Z := %d." % (env["JPEG_APP0"], env["JPEG_COM"]))
for k in ["ICC_MARKER", "ICC_OVERHEAD_LEN", "MAX_BYTES_IN_MARKER", "MAX_DATA_BYTES_IN_MARKER"]:
    P("Definition W_%s : Z := %d." % (k, w[k]))
for k in ["ICC_MARKER", "ICC_OVERHEAD_LEN", "MAX_SEQ_NO"]:
    P("Definition R_%s : Z := %d." % (k, r[k]))
P("Definition icc_sig_writer : list Z := %s." % zl(sigw))
P("Definition icc_sig_reader : list Z := %s." % zl(sigr))
P("Definition R_ICC_SEQ_INDEX : Z := %s.\nDefinition R_ICC_COUNT_INDEX : Z := %s." % (ms[0], mc.group(1)))
for k in sorted(ec):
    P("Definition %s : Z := %d." % (k, ec[k]))
P("Definition WRITE_MARKER_MAX_DATALEN : Z := %d." % wlimit)
P("Definition APP0_DATA_LEN : Z := %d.\nDefinition APP14_DATA_LEN : Z := %d.\nDefinition APPN_DATA_LEN : Z := %d." % (app0len, app14len, appnlen))
P("Definition jfif_sig_emit : list Z := %s.\nDefinition jfif_sig_examine : list Z := %s.\nDefinition jfif_sig_copy : list Z := %s." % (zl(jfif_emit), zl(jfif_exam), zl(jfif_copy)))
P("Definition adobe_sig_emit : list Z := %s.\nDefinition adobe_sig_examine : list Z := %s.\nDefinition adobe_sig_copy : list Z := %s." % (zl(adobe_emit), zl(adobe_exam), zl(adobe_copy)))
P("Definition JFIF_SEGMENT_LENGTH : Z := %d.\nDefinition ADOBE_SEGMENT_LENGTH : Z := %d." % (jfif_len, adobe_len))
P("Definition adobe_version_flags : list Z := %s." % zl(adobe_ver))
P("Definition ADOBE_TRANSFORM_YCbCr : Z := %d.\nDefinition ADOBE_TRANSFORM_YCCK : Z := %d.\nDefinition ADOBE_TRANSFORM_OTHER : Z := %d." % tuple(adobe_tr))
P("Definition JFIF_COPY_MINLEN : Z := %d.\nDefinition ADOBE_COPY_MINLEN : Z := %d." % (jfif_copy_min, adobe_copy_min))
P("(* 0: emit_sos zeroes Td whenever Ss <> 0 (also in lossless scans); 1: lossless scans keep dc_tbl_no *)")
P("Definition EMIT_SOS_TD_KEPT_IN_LOSSLESS : Z := %d." % td_lossless)
for i, k in enumerate(copyopts):
    P("Definition %s : Z := %d." % (k, i))
P("Definition COPY_SAVE_LIMIT : Z := %d." % copy_limit)
P("Definition TJ_SAVEMARKERS_MIN : Z := %s.\nDefinition TJ_SAVEMARKERS_MAX : Z := %s.\nDefinition TJ_ICC_SAVE_LIMIT : Z := %d." % (mt.group(1), mt.group(2), cint(mt2.group(1))))
P("Definition tj_mcu_width : list Z := %s.\nDefinition tj_mcu_height : list Z := %s." % (zl(mcuw), zl(mcuh)))
for k in ("TJSAMP_444", "TJSAMP_422", "TJSAMP_420", "TJSAMP_GRAY", "TJSAMP_440", "TJSAMP_411", "TJSAMP_441", "TJSAMP_UNKNOWN"):
    P("Definition %s : Z := %d." % (k, sampv.get(k, -1)))
P("Definition TJ_NUMSAMP : Z := %d.\nDefinition D_MAX_BLOCKS_IN_MCU : Z := %d." % (len(mcuw), dmax))
P("Definition jpeg_natural_order : list Z := %s." % zl(natorder))
P("Definition NUM_QUANT_TBLS : Z := %d.\nDefinition NUM_HUFF_TBLS : Z := %d.\nDefinition DCTSIZE2 : Z := %d.\nDefinition NUM_ARITH_TBLS : Z := %d." % (num_qt, num_ht, dctsize2, num_arith))
P("Definition TJ_BUFSIZE_ICC_PER_MARKER : Z := %d.\nDefinition TJ_BUFSIZE_ICC_CHUNK : Z := %d." % (bufsize_per_marker, bufsize_chunk))
P("(* jdapimin.c default_decompress_parms: the colourspace decision, in the order of the C text *)")
P("Inductive datom := AJfif | AAdobe | ALossless | AId (k v : Z).")
P("Inductive dtree := DLeaf (jcs : Z) | DIf (c : list (bool * datom)) (t e : dtree) | DAdobe (cases : list (Z * dtree)) (d : dtree).")
for k in ("JCS_UNKNOWN", "JCS_GRAYSCALE", "JCS_RGB", "JCS_YCbCr", "JCS_CMYK", "JCS_YCCK"):
    P("Definition %s : Z := %d." % (k, jcs_val[k]))
P("Definition ddp_cases : list (Z * dtree) :=\n  [%s]." % ";\n   ".join("(%d, %s)" % (k, coq_tree(v)) for k, v in sorted(ddp_cases.items())))
P("Definition ddp_default : dtree := %s." % coq_tree(ddp_default))
for k, v in cstates.items():
    P("Definition %s : Z := %d." % (k, v))
P("Definition DSTATE_READY : Z := %d." % dstate_ready)
P("(* 1: tj3Transform writes the profile set by tj3SetICCProfile after the copied markers whatever the copy option is *)")
P("Definition TJ_TRANSFORM_ICC_UNCONDITIONAL : Z := %d." % tj_icc_uncond)
P("(* the test that sets iccCopied in tj3Transform: APP2, data_length >= MINLEN, data starts with these bytes *)")
P("Definition TJ_ICC_COPIED_MINLEN : Z := %d.\nDefinition tj_icc_copied_sig : list Z := %s." % (tj_icc_minlen, zl(tj_icc_sig)))
print("\n".join(out))
