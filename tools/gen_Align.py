#!/usr/bin/env python3
"""Translator (C11): alignment / geometry constants -> coq/gen/GenAlign.v
  src/jmemmgr.c     ALIGN_SIZE (SIMD build), round_up_pow2 body, the alloc_sarray rounding
  src/turbojpeg.c   PAD macro, the row-pointer statements, the YUV copy statements
  src/turbojpeg.h   tjMCUWidth, tjMCUHeight, tjPixelSize, TJSCALED
Exits non-zero when one of the constructs the model transcribes is gone."""
import re, sys
repo = sys.argv[1]


def die(m):
    sys.exit("gen_Align: " + m)


def norm(s):
    return re.sub(r"\s+", "", s)


mm = open(repo + "/src/jmemmgr.c").read()
m = re.search(r"#ifndef ALIGN_SIZE[^\n]*\n#ifndef WITH_SIMD\n#define ALIGN_SIZE\s+MAX\(sizeof\(void \*\), sizeof\(double\)\)\n#else\n#define ALIGN_SIZE\s+(\d+)", mm)
if not m:
    die("jmemmgr.c: ALIGN_SIZE definition block not found")
align_simd = int(m.group(1))
if "return((a+b-1)&(~(b-1)));" not in norm(mm):
    die("jmemmgr.c: round_up_pow2 body changed")
if "samplesperrow=(JDIMENSION)round_up_pow2(samplesperrow,(2*ALIGN_SIZE)/sample_size);" not in norm(mm):
    die("jmemmgr.c: alloc_sarray no longer rounds samplesperrow to 2*ALIGN_SIZE/sample_size")

tj = open(repo + "/src/turbojpeg.c").read()
if "#definePAD(v,p)((v+(p)-1)&(~((p)-1)))" not in norm(tj):
    die("turbojpeg.c: PAD macro changed")
ntj = norm(tj)
need_tj = [
    # tj3EncodeYUVPlanes8 / tj3DecodeYUVPlanes8 row pointers
    "row_pointer[i]=(JSAMPROW)&srcBuf[(height-i-1)*(size_t)pitch];",
    "row_pointer[i]=(JSAMPROW)&srcBuf[i*(size_t)pitch];",
    "row_pointer[i]=&dstBuf[(height-i-1)*(size_t)pitch];",
    "row_pointer[i]=&dstBuf[i*(size_t)pitch];",
    # plane row pointers
    "ptr+=(strides&&strides[i]!=0)?strides[i]:pw[i];",
    # copy-out / copy-in through the temporary buffer
    "for(j=0;j<MIN(th[i],ph[i]-crow[i]);j++){memcpy(outbuf[i][crow[i]+j],tmpbuf[i][j],pw[i]);}",
    "for(j=0;j<MIN(th[i],ph[i]-crow[i]);j++){memcpy(tmpbuf[i][j],inbuf[i][crow[i]+j],pw[i]);",
    "if(iw[i]!=pw[i]||ih!=ph[i])usetmpbuf=1;",
    # geometry of the temporary buffer (model/ExtentTmp.v)
    "iw[i]=compptr->width_in_blocks*dctsize;",
    "th[i]=compptr->v_samp_factor*dctsize;",
    "if(usetmpbuf)yuvptr[i]=tmpbuf[i];elseyuvptr[i]=&outbuf[i][crow[i]];",
    "jcopy_sample_rows(tmpbuf2[i],0,outbuf[i],row*compptr->v_samp_factor/cinfo->max_v_samp_factor,compptr->v_samp_factor,pw[i]);",
    "jcopy_sample_rows(inbuf[i],row*compptr->v_samp_factor/dinfo->max_v_samp_factor,tmpbuf[i],0,compptr->v_samp_factor,pw[i]);",
    "retval=(unsignedlonglong)stride*(ph-1)+pw;",
    "pw=PAD((unsignedlonglong)width,tjMCUWidth[subsamp]/8);",
    "ph=PAD((unsignedlonglong)height,tjMCUHeight[subsamp]/8);",
]
for n in need_tj:
    if n not in ntj:
        die("turbojpeg.c: statement the model transcribes is gone: " + n)
# geometry of _tmpbuf inside tj3DecompressToYUVPlanes8 (model/ExtentTmp.v): rows iw[i] apart
# (as found: the copy-out of pw[i] bytes can read past them, finding F10) or MAX(iw[i], pw[i]) apart
m = re.search(r"DLLEXPORT int tj3DecompressToYUVPlanes8\b(.*?)\nDLLEXPORT ", tj, re.S)
if not m:
    die("turbojpeg.c: tj3DecompressToYUVPlanes8 not found")
body = norm(m.group(1))
narrow = "tmpbufsize+=iw[i]*th[i];" in body and "tmpbuf[i][row]=ptr;ptr+=iw[i];" in body
wide = "tmpbufsize+=MAX(iw[i],pw[i])*th[i];" in body and "tmpbuf[i][row]=ptr;ptr+=MAX(iw[i],pw[i]);" in body
if narrow == wide:
    die("turbojpeg.c: tj3DecompressToYUVPlanes8: layout of _tmpbuf (tmpbufsize / row stride) is neither iw[i] nor MAX(iw[i],pw[i])")
m2 = re.search(r"DLLEXPORT int tj3CompressFromYUVPlanes8\b(.*?)\nDLLEXPORT ", tj, re.S)
if not m2 or "tmpbufsize+=iw[i]*th[i];" not in norm(m2.group(1)) or "tmpbuf[i][row]=ptr;ptr+=iw[i];" not in norm(m2.group(1)):
    die("turbojpeg.c: tj3CompressFromYUVPlanes8: layout of _tmpbuf changed")
mp = norm(open(repo + "/src/turbojpeg-mp.c").read())
need_mp = [
    "row_pointer[i]=(_JSAMPROW)&srcBuf[(height-i-1)*(size_t)pitch];",
    "row_pointer[i]=(_JSAMPROW)&srcBuf[i*(size_t)pitch];",
    "row_pointer[i]=&dstBuf[(croppedHeight-i-1)*(size_t)pitch];",
    "row_pointer[i]=&dstBuf[i*(size_t)pitch];",
    "if(pitch==0)pitch=width*tjPixelSize[pixelFormat];",
    "if(pitch==0)pitch=dinfo->output_width*tjPixelSize[pixelFormat];",
    "croppedHeight=dinfo->output_height;",
    "if(this->croppingRegion.y!=0||this->croppingRegion.h!=0)",
    "croppedHeight=this->croppingRegion.h;",
]
for n in need_mp:
    if n not in mp:
        die("turbojpeg-mp.c: statement the model transcribes is gone: " + n)

need_mp2 = [
    "_jpeg_read_scanlines(dinfo,&row_pointer[dinfo->output_scanline-this->croppingRegion.y],this->croppingRegion.y+this->croppingRegion.h-dinfo->output_scanline);",
    "_jpeg_read_scanlines(dinfo,&row_pointer[dinfo->output_scanline],dinfo->output_height-dinfo->output_scanline);",
]
for n in need_mp2:
    if n not in mp:
        die("turbojpeg-mp.c: read loop the model transcribes is gone: " + n)
# rows written per jpeg_read_scanlines call (model/ExtentRows.v): the clamps of the upsamplers
def fbody(path, name):
    t = open(repo + "/src/" + path).read()
    m = re.search(r"\n" + name + r"\(j_decompress_ptr cinfo.*?\n}\n", t, re.S)
    if not m:
        die("%s: function %s not found" % (path, name))
    return norm(m.group(0))
clamp = "if(num_rows>upsample->rows_to_go)num_rows=upsample->rows_to_go;"
clamp2 = "out_rows_avail-=*out_row_ctr;if(num_rows>out_rows_avail)num_rows=out_rows_avail;"
for path, fn in (("jdsample.c", "sep_upsample"), ("jdmerge.c", "merged_2v_upsample")):
    b = fbody(path, fn)
    if clamp not in b or clamp2 not in b:
        die("%s: %s no longer clamps the row count with 'out_rows_avail -= *out_row_ctr'" % (path, fn))
b = fbody("jdsample.c", "sep_upsample")
if "output_buf+*out_row_ctr,(int)num_rows);" not in b or "*out_row_ctr+=num_rows;" not in b:
    die("jdsample.c: sep_upsample: destination rows / counter update changed")
b = fbody("jdmainct.c", "process_data_context_main")
if b.count("_post_process_data)(cinfo") != 2 or "if(*out_row_ctr>=out_rows_avail)return;" not in b:
    die("jdmainct.c: process_data_context_main: two post-processor invocations with the full-buffer return in between expected")
b = fbody("jdapistd.c", "_jpeg_read_scanlines")
if "row_ctr=0;" not in b or "(cinfo,scanlines,&row_ctr,max_lines);" not in b or "cinfo->output_scanline+=row_ctr;returnrow_ctr;" not in b:
    die("jdapistd.c: _jpeg_read_scanlines body changed")

# the re-checks of the cropping region inside tj3Decompress8/12 (model/ExtentHist.v)
chk_left = "if((int)crop_x!=this->croppingRegion.x)THROWI(" in mp
chk_width = "if((int)crop_w!=this->croppingRegion.w)THROWI(" in mp
chk_bottom = ("if(this->croppingRegion.y+this->croppingRegion.h>(int)dinfo->output_height)THROW(" in mp or
              "if((unsignedlonglong)this->croppingRegion.y+this->croppingRegion.h>dinfo->output_height)THROW(" in mp)
if "_jpeg_crop_scanline(dinfo,&crop_x,&crop_w);" not in mp:
    die("turbojpeg-mp.c: call of jpeg_crop_scanline changed")
ja = norm(open(repo + "/src/jdapistd.c").read())
for n in ("if(*width==0||(unsignedlonglong)(*xoffset)+*width>cinfo->output_width)ERREXIT(cinfo,JERR_WIDTH_OVERFLOW);",
          "*xoffset=(input_xoffset/align)*align;", "*width=*width+input_xoffset-*xoffset;cinfo->output_width=*width;",
          "align=cinfo->_min_DCT_scaled_size*cinfo->max_h_samp_factor;"):
    if n not in ja:
        die("jdapistd.c: jpeg_crop_scanline statement the model transcribes is gone: " + n)
# the C type of the product in every row_pointer[i] = &buf[i * pitch]: all of them must multiply in size_t
rp = re.findall(r"row_pointer\[i\]=[^;]*;", mp + ntj)
if len(rp) < 8 or any("*(size_t)pitch]" not in x for x in rp if "row_pointer[height-1]" not in x):
    die("a row_pointer[i] statement does not multiply in size_t: " + "; ".join(x for x in rp if "*(size_t)pitch]" not in x)[:200])
if re.search(r"&buf\[[^\]]*\*pitch\]", mp + ntj):
    die("a row address is computed as &buf[row * pitch] without the size_t cast")

# replicating upsamplers (model/ExtentUps.v)
def fbody_nc(path, name):
    t = open(repo + "/src/" + path).read()
    m = re.search(r"\n" + name + r"\(j_decompress_ptr cinfo.*?\n}\n", t, re.S)
    if not m:
        die("%s: function %s not found" % (path, name))
    return norm(re.sub(r"/\*.*?\*/", "", m.group(0), flags=re.S))
ups_pins = {
    "int_upsample": ["outend=outptr+cinfo->output_width;while(outptr<outend){invalue=*inptr++;for(h=h_expand;h>0;h--){*outptr++=invalue;}}",
                     "if(v_expand>1){_jcopy_sample_rows(output_data,outrow,output_data,outrow+1,v_expand-1,cinfo->output_width);}"],
    "h2v1_upsample": ["outend=outptr+cinfo->output_width;while(outptr<outend){invalue=*inptr++;*outptr++=invalue;*outptr++=invalue;}"],
    "h2v2_upsample": ["outend=outptr+cinfo->output_width;while(outptr<outend){invalue=*inptr++;*outptr++=invalue;*outptr++=invalue;}",
                      "_jcopy_sample_rows(output_data,outrow,output_data,outrow+1,1,cinfo->output_width);"],
    "h1v2_fancy_upsample": ["for(colctr=0;colctr<compptr->downsampled_width;colctr++){thiscolsum=(*inptr0++)*3+(*inptr1++);*outptr++=(_JSAMPLE)((thiscolsum+bias)>>2);}"],
}
for fn, pins in ups_pins.items():
    b = fbody_nc("jdsample.c", fn)
    for n in pins:
        if n not in b:
            die("jdsample.c: %s: loop the model transcribes is gone: %s" % (fn, n))
jds = norm(re.sub(r"/\*.*?\*/", "", open(repo + "/src/jdsample.c").read(), flags=re.S))
for n in ("(JDIMENSION)jround_up((long)cinfo->output_width,(long)cinfo->max_h_samp_factor),", "upsample->h_expand[ci]=(UINT8)(h_out_group/h_in_group);",
          "upsample->v_expand[ci]=(UINT8)(v_out_group/v_in_group);"):
    if n not in jds:
        die("jdsample.c: jinit_upsampler: statement the model relies on is gone: " + n)

# RGB565 converters (model/Extent565.v): six functions, same store structure; is num_cols set per row?
c565 = open(repo + "/src/jdcol565.c").read()
funcs = re.findall(r"\n(\w+_rgb565D?_convert_internal)\(j_decompress_ptr cinfo(.*?)\n}\n", c565, re.S)
if len(funcs) != 6:
    die("jdcol565.c: expected the six *_rgb565[D]_convert_internal functions, found %d" % len(funcs))
per_row = []
for name, body in funcs:
    b = norm(body)
    for n in ("if(PACK_NEED_ALIGNMENT(outptr)){", "outptr+=2;num_cols--;}", "for(col=0;col<(num_cols>>1);col++){",
              "WRITE_TWO_ALIGNED_PIXELS(outptr,rgb);outptr+=4;}", "if(num_cols&1){", "JDIMENSIONnum_cols"):
        if n not in b:
            die("jdcol565.c: %s: statement the model transcribes is gone: %s" % (name, n))
    loop = b[b.index("while(--num_rows>=0){"):]
    per_row.append("num_cols=cinfo->output_width;" in loop[:loop.index("if(PACK_NEED_ALIGNMENT(outptr)){")])
if len(set(per_row)) != 1:
    die("jdcol565.c: the six converters differ in where num_cols is initialised")
jdc = norm(open(repo + "/src/jdcolor.c").read())
if "#definePACK_NEED_ALIGNMENT(ptr)(((size_t)(ptr))&3)" not in jdc or "#defineWRITE_TWO_ALIGNED_PIXELS(addr,pixels)((*(int*)(addr))=pixels)" not in jdc:
    die("jdcolor.c: PACK_NEED_ALIGNMENT / WRITE_TWO_ALIGNED_PIXELS changed")
# re-packing instruction sequences whose positional effect proofs/ExtentShuffleProofs.v computes
def asm_norm(path):
    return [re.sub(r"\s+", " ", l.split(";")[0].strip()) for l in open(repo + "/simd/x86_64/" + path)]
for path, seqs in (("jcsample-avx2.asm", [["vpackuswb ymm0, ymm0, ymm1", "vpermq ymm0, ymm0, 0xd8"], ["vpackuswb ymm0, ymm0, ymm2", "vpermq ymm0, ymm0, 0xd8"]]),
                   ("jdsample-avx2.asm", [["vperm2i128 ymm2, ymm0, ymm1, 0x20", "vpalignr ymm2, ymm1, ymm2, 15"],
                                          ["vperm2i128 ymm4, ymm0, ymm1, 0x03", "vpalignr ymm3, ymm4, ymm1, 1"],
                                          ["vpunpckhbw ymm4, ymm1, ymm0", "vpunpcklbw ymm5, ymm1, ymm0", "vperm2i128 ymm1, ymm5, ymm4, 0x20", "vperm2i128 ymm4, ymm5, ymm4, 0x31"],
                                          ["vperm2i128 ymm0, ymm8, ymm7, 0x03", "vpalignr ymm0, ymm0, ymm7, 2"],
                                          ["vperm2i128 ymm1, ymm8, ymm7, 0x20", "vpalignr ymm1, ymm7, ymm1, 14"]]),
                   ("jcsample-sse2.asm", [["packuswb xmm0, xmm1"], ["packuswb xmm0, xmm2"]]),
                   ("jdsample-sse2.asm", [["pslldq xmm2, 1", "psrldq xmm3, 1"], ["punpcklbw xmm1, xmm0", "punpckhbw xmm4, xmm0"]])):
    lines = [l for l in asm_norm(path) if l]
    for sq in seqs:
        if not any(lines[i:i + len(sq)] == sq for i in range(len(lines))):
            die("%s: re-packing sequence changed: %s" % (path, " ; ".join(sq)))

# post-processing controller and spare-row copy (model/ExtentPost.v)
jp = open(repo + "/src/jdpostct.c").read()
def cbody(text, name, path):
    m = re.search(r"\n" + name + r"\(j_decompress_ptr cinfo.*?\n}\n", text, re.S)
    if not m:
        die("%s: function %s not found" % (path, name))
    return norm(re.sub(r"/\*.*?\*/", "", m.group(0), flags=re.S))
b2 = cbody(jp, "post_process_2pass", "jdpostct.c")
for n in ("num_rows=post->strip_height-post->next_row;", "max_rows=out_rows_avail-*out_row_ctr;if(num_rows>max_rows)num_rows=max_rows;",
          "output_buf+*out_row_ctr,(int)num_rows);*out_row_ctr+=num_rows;", "post->next_row+=num_rows;if(post->next_row>=post->strip_height){post->starting_row+=post->strip_height;post->next_row=0;}"):
    if n not in b2:
        die("jdpostct.c: post_process_2pass: statement the model transcribes is gone: " + n)
forms = {"max_rows=cinfo->output_height-post->starting_row;": 0, "max_rows=cinfo->output_height-post->starting_row-post->next_row;": 1,
         "max_rows=cinfo->image_height-post->starting_row;": 2}
hit = [v for k_, v in forms.items() if k_ in b2]
if len(hit) != 1:
    die("jdpostct.c: post_process_2pass: bottom-of-image clamp not recognised")
pp2_clamp = hit[0]
b1 = cbody(jp, "post_process_1pass", "jdpostct.c")
for n in ("max_rows=out_rows_avail-*out_row_ctr;if(max_rows>post->strip_height)max_rows=post->strip_height;", "post->buffer,&num_rows,max_rows);", "*out_row_ctr+=num_rows;"):
    if n not in b1:
        die("jdpostct.c: post_process_1pass changed: " + n)
if "(_JSAMPARRAY)NULL,(int)num_rows);" not in cbody(jp, "post_process_prepass", "jdpostct.c"):
    die("jdpostct.c: post_process_prepass no longer passes NULL as the output array")
jm = open(repo + "/src/jdmerge.c").read()
bm = cbody(jm, "merged_2v_upsample", "jdmerge.c")
if "_jcopy_sample_rows(&upsample->spare_row,0,output_buf+*out_row_ctr,0,1," not in bm:
    die("jdmerge.c: merged_2v_upsample: spare-row copy changed")
mrg_copy565 = "if(cinfo->out_color_space==JCS_RGB565)size=cinfo->output_width*2;" in bm and "1,size);" in bm
if not mrg_copy565 and "1,upsample->out_row_width);" not in bm:
    die("jdmerge.c: merged_2v_upsample: length of the spare-row copy not recognised")
bi = norm(re.sub(r"/\*.*?\*/", "", jm[jm.index("_jinit_merged_upsampler(j_decompress_ptr cinfo)"):], flags=re.S))
def site565(b, where):
    plain = "upsample->out_row_width=cinfo->output_width*cinfo->out_color_components;" in b
    special = "if(cinfo->out_color_space==JCS_RGB565)upsample->out_row_width=cinfo->output_width*2;" in b
    if not plain:
        die("%s: out_row_width is no longer output_width * out_color_components" % where)
    return special
mrg_init565 = site565(bi, "jdmerge.c _jinit_merged_upsampler")
mrg_crop565 = site565(norm(re.sub(r"/\*.*?\*/", "", open(repo + "/src/jdapistd.c").read(), flags=re.S)), "jdapistd.c jpeg_crop_scanline")

h = open(repo + "/src/turbojpeg.h").read()


def table(name):
    m = re.search(r"static const int " + name + r"\[[A-Z_]+\]\s*=\s*\{([^}]*)\}", h)
    if not m:
        die("turbojpeg.h: table %s not found" % name)
    return [int(x) for x in re.findall(r"-?\d+", m.group(1))]


if "#defineTJSCALED(dimension,scalingFactor)\\(((dimension)*scalingFactor.num+scalingFactor.denom-1)/\\scalingFactor.denom)" not in norm(h):
    die("turbojpeg.h: TJSCALED changed")
mw, mh, pxs = table("tjMCUWidth"), table("tjMCUHeight"), table("tjPixelSize")
m = re.search(r"static const tjscalingfactor sf\[NUMSF\]\s*=\s*\{(.*?)\};", tj, re.S)
if not m:
    die("turbojpeg.c: scaling factor table not found")
sfs = [(int(a), int(b)) for a, b in re.findall(r"\{\s*(\d+)\s*,\s*(\d+)\s*\}", m.group(1))]


def zl(xs):
    return "[" + "; ".join(str(x) for x in xs) + "]"


print("(* GENERATED by tools/gen_Align.py from src/jmemmgr.c, src/turbojpeg.c, src/turbojpeg-mp.c, src/turbojpeg.h -- do not edit *)")
print("From Coq Require Import List ZArith.\nImport ListNotations.\nLocal Open Scope Z_scope.\n")
print("Definition align_size_simd : Z := %d." % align_simd)
print("Definition dec_chk_left : bool := %s." % ("true" if chk_left else "false"))
print("Definition dec_chk_width : bool := %s." % ("true" if chk_width else "false"))
print("Definition dec_chk_bottom : bool := %s." % ("true" if chk_bottom else "false"))
print("(* size_t on the LP64 target the harness is built for *)")
print("Definition rowptr_mul_bits : Z := 64.")
print("Definition rgb565_reset_per_row : bool := %s." % ("true" if per_row[0] else "false"))
print("Definition pp2_clamp : Z := %d." % pp2_clamp)
for nm, v in (("mrg_copy565", mrg_copy565), ("mrg_init565", mrg_init565), ("mrg_crop565", mrg_crop565)):
    print("Definition %s : bool := %s." % (nm, "true" if v else "false"))
print("Definition tmp_rows_cover_pw : bool := %s." % ("true" if wide else "false"))
print("Definition tj_mcu_width : list Z := %s." % zl(mw))
print("Definition tj_mcu_height : list Z := %s." % zl(mh))
print("Definition tj_pixel_size : list Z := %s." % zl(pxs))
print("Definition tj_scaling_factors : list (Z * Z) := [%s]." % "; ".join("(%d,%d)" % s for s in sfs))
