#!/usr/bin/env python3
"""Translator for C03: reads from the tree under test (argv[1])
  src/jutils.c   jpeg_natural_order[DCTSIZE2 + 16]        -> gen_natural_order
  src/jchuff.c   the unrolled kloop(...) list              -> gen_kloop_order
                 the ZRL test  'while (r >= 16 * 16)' and 'r += 16'
  src/jcphuff.c  'EOBRUN == 0x7FFF' (twice), MAX_CORR_BITS, 'while (r > 15',
                 'if (nbits > 14)' in emit_eobrun
  src/jdhuff.c / jdphuff.c   'if (r != 15)' / 'if (r == 15)' + 'k += 15'
  src/jpeglib.h  DCTSIZE2
and prints coq/gen/GenNatOrder.v.  Python-side sanity: the first 64 entries are
a permutation of 0..63 and the last 16 are 63 (also proved in Coq from the
generated literal).  Exits non-zero when a construct is gone."""
import re, sys
repo = sys.argv[1]


def rd(p):
    try:
        return open(repo + "/" + p).read()
    except OSError as e:
        sys.exit("%s: cannot read (%s)" % (p, e))


def need(m, what):
    if not m:
        sys.exit("source construct not found: " + what)
    return m


def num(s):
    s = s.strip()
    return int(s, 16) if s.lower().startswith("0x") else int(s)


ju = rd("src/jutils.c")
m = need(re.search(r"const\s+int\s+jpeg_natural_order\s*\[\s*DCTSIZE2\s*\+\s*16\s*\]\s*=\s*\{([^}]*)\}", ju),
         "jutils.c: const int jpeg_natural_order[DCTSIZE2 + 16] = {...}")
body = re.sub(r"/\*.*?\*/", "", m.group(1), flags=re.S)
order = [int(x) for x in re.findall(r"\d+", body)]
h = rd("src/jpeglib.h")
dctsize2 = num(need(re.search(r"#define\s+DCTSIZE2\s+(\d+)", h), "jpeglib.h: DCTSIZE2").group(1))
if len(order) != dctsize2 + 16:
    sys.exit("jpeg_natural_order has %d entries, expected DCTSIZE2+16=%d" % (len(order), dctsize2 + 16))
if sorted(order[:dctsize2]) != list(range(dctsize2)):
    sys.exit("jpeg_natural_order[0..63] is not a permutation of 0..63")
if order[dctsize2:] != [63] * 16:
    sys.exit("jpeg_natural_order: the 16 safety entries are not all 63")

jc = rd("src/jchuff.c")
i = jc.find("encode_one_block(working_state")
need(i >= 0, "jchuff.c: encode_one_block")
j = jc.find("emit_restart(working_state", i)
fn = jc[i:j if j > 0 else len(jc)]
kl = [int(x) for x in re.findall(r"\bkloop\((\d+)\);", fn)]
if not kl:
    sys.exit("jchuff.c: unrolled kloop(n); list not found in encode_one_block")
need(re.search(r"block\[jpeg_natural_order_of_k\]", fn), "jchuff.c: kloop reads block[jpeg_natural_order_of_k]")
zrl = need(re.search(r"while\s*\(\s*r\s*>=\s*(\d+)\s*\*\s*(\d+)\s*\)", fn), "jchuff.c: while (r >= 16 * 16)")
rinc = need(re.search(r"r\s*\+=\s*(\d+)\s*;\s*\\\s*\n\s*\}\s*else", fn), "jchuff.c: r += 16 in kloop")
need(re.search(r"ehufco\[0xf0\]", fn), "jchuff.c: ZRL symbol 0xf0")
need(re.search(r"temp\s*=\s*block\[0\]\s*-\s*last_dc_val", fn), "jchuff.c: temp = block[0] - last_dc_val")
dcchk = need(re.search(r"nbits\s*>\s*max_coef_bits\s*\+\s*(\d+)", fn), "jchuff.c: DC range check nbits > max_coef_bits + 1")
mcb = need(re.search(r"max_coef_bits\s*=\s*state->cinfo->data_precision\s*\+\s*(\d+)", fn), "jchuff.c: max_coef_bits = data_precision + 2")
rst = need(re.search(r"next_restart_num\s*&=\s*(\d+)", jc), "jchuff.c: next_restart_num &= 7")

jp = rd("src/jcphuff.c")
th = [num(x) for x in re.findall(r"entropy->EOBRUN\s*==\s*(0x[0-9A-Fa-f]+|\d+)", jp)]
# one test in encode_mcu_AC_first, one in encode_mcu_AC_refine; anything else is translated to -1 (fact fails)
i1 = jp.rfind("encode_mcu_AC_first(j_compress_ptr")
i2 = jp.rfind("encode_mcu_DC_refine(j_compress_ptr")
i3 = jp.rfind("encode_mcu_AC_refine(j_compress_ptr")
i4 = jp.rfind("finish_pass_phuff(j_compress_ptr")
if min(i1, i2, i3, i4) < 0:
    sys.exit("jcphuff.c: encode_mcu_AC_first / DC_refine / AC_refine / finish_pass_phuff not found")
f_first, f_refine = jp[i1:i2], jp[i3:i4]
t1 = [num(x) for x in re.findall(r"entropy->EOBRUN\s*==\s*(0x[0-9A-Fa-f]+|\d+)", f_first)]
t2 = [num(x) for x in re.findall(r"entropy->EOBRUN\s*==\s*(0x[0-9A-Fa-f]+|\d+)", f_refine)]
th = [t1[0] if len(t1) == 1 else -1, t2[0] if len(t2) == 1 else -1]
# order of the end-of-block bookkeeping in encode_mcu_AC_refine:  EOBRUN++ ; BE += BR ; flush test
pa = f_refine.find("entropy->EOBRUN++")
pb = f_refine.find("entropy->BE += BR")
mflush = re.search(r"entropy->EOBRUN\s*==\s*(?:0x[0-9A-Fa-f]+|\d+)\s*\|\|\s*entropy->BE\s*>\s*\(MAX_CORR_BITS\s*-\s*DCTSIZE2\s*\+\s*1\)", f_refine)
acr_order_ok = pa >= 0 and pb > pa and mflush is not None and mflush.start() > pb
mcorr = num(need(re.search(r"#define\s+MAX_CORR_BITS\s+(\d+)", jp), "jcphuff.c: MAX_CORR_BITS").group(1))
pz = [num(x) for x in re.findall(r"while\s*\(\s*r\s*>\s*(\d+)", jp)]
if len(pz) != 2:
    sys.exit("jcphuff.c: expected two 'while (r > 15' loops, found %d" % len(pz))
i = jp.find("emit_eobrun(phuff_entropy_ptr entropy)")
need(i >= 0, "jcphuff.c: emit_eobrun")
eo = jp[i:jp.find("emit_restart", i)]
eon = num(need(re.search(r"if\s*\(\s*nbits\s*>\s*(\d+)\s*\)", eo), "jcphuff.c: emit_eobrun 'if (nbits > 14)'").group(1))
need(re.search(r"JPEG_NBITS_NONZERO\(temp\)\s*-\s*1", eo), "jcphuff.c: emit_eobrun nbits = JPEG_NBITS_NONZERO(temp) - 1")
need(re.search(r"IRIGHT_SHIFT\(\(int\)\(\(\*block\)\[0\]\),\s*Al\)", jp), "jcphuff.c: DC point transform IRIGHT_SHIFT(block[0], Al)")
need(re.search(r"temp\s*>>=\s*Al;", jp), "jcphuff.c: AC point transform temp >>= Al on the absolute value")

jd = rd("src/jdhuff.c")
dz = [num(x) for x in re.findall(r"if\s*\(\s*r\s*!=\s*(\d+)\s*\)", jd)]
dk = [num(x) for x in re.findall(r"k\s*\+=\s*(\d+)\s*;", jd)]
if not dz or not dk or len(set(dz)) != 1 or len(set(dk)) != 1:
    sys.exit("jdhuff.c: 'if (r != 15) break; k += 15;' pattern not found / not uniform")
jdp = rd("src/jdphuff.c")
pk = [num(x) for x in re.findall(r"k\s*\+=\s*(\d+)\s*;", jdp)]
pr = [num(x) for x in re.findall(r"if\s*\(\s*r\s*[!=]=\s*(\d+)\s*\)", jdp)]
if len(set(pk)) != 1 or len(set(pr)) != 1:
    sys.exit("jdphuff.c: ZRL handling (r == 15 / k += 15) not found / not uniform")


def zl(name, xs):
    rows = ["    " + "; ".join("%d" % x for x in xs[k:k + 16]) for k in range(0, len(xs), 16)]
    return "Definition %s : list Z :=\n  [\n%s\n  ].\n" % (name, ";\n".join(rows))


print("(* GENERATED by tools/gen_NatOrder.py from src/jutils.c, jchuff.c, jcphuff.c, jdhuff.c, jdphuff.c -- do not edit *)")
print("From Coq Require Import List ZArith.\nImport ListNotations.\nLocal Open Scope Z_scope.\n")
print(zl("gen_natural_order", order))
print(zl("gen_kloop_order", kl))
print("Definition gen_dctsize2 : Z := %d." % dctsize2)
print("Definition gen_seq_zrl_threshold : Z := %d.   (* jchuff.c while (r >= 16 * 16), r counted in steps of gen_seq_run_step *)" % (num(zrl.group(1)) * num(zrl.group(2))))
print("Definition gen_seq_run_step : Z := %d." % num(rinc.group(1)))
print("Definition gen_seq_dc_extra_bits : Z := %d.    (* nbits > max_coef_bits + 1 *)" % num(dcchk.group(1)))
print("Definition gen_max_coef_bits_offset : Z := %d. (* max_coef_bits = data_precision + 2 *)" % num(mcb.group(1)))
print("Definition gen_restart_num_mask : Z := %d." % num(rst.group(1)))
print("Definition gen_eobrun_flush_ac_first : Z := %d." % th[0])
print("Definition gen_eobrun_flush_ac_refine : Z := %d." % th[1])
print("Definition gen_max_corr_bits : Z := %d." % mcorr)
print("Definition gen_acr_be_before_flush : bool := %s.  (* encode_mcu_AC_refine: EOBRUN++; BE += BR; then the flush test on EOBRUN / BE *)" % ("true" if acr_order_ok else "false"))
print("Definition gen_prog_zrl_run_first : Z := %d.  (* while (r > 15) *)" % pz[0])
print("Definition gen_prog_zrl_run_refine : Z := %d." % pz[1])
print("Definition gen_eobrun_max_nbits : Z := %d." % eon)
print("Definition gen_dec_zrl_r : Z := %d.   (* jdhuff.c if (r != 15) break *)" % dz[0])
print("Definition gen_dec_zrl_skip : Z := %d. (* jdhuff.c k += 15 *)" % dk[0])
print("Definition gen_pdec_zrl_r : Z := %d." % pr[0])
print("Definition gen_pdec_zrl_skip : Z := %d." % pk[0])
