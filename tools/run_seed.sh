#!/bin/bash
# usage: run_seed.sh Cxx-i [check ids...]   runs the check(s) against a COPY of /repo with seeded/Cxx-i/patch.diff applied
# (alternative tree => own build root, /repo untouched).  Records the outcome in seeded/Cxx-i/meta.json.
set -u
S=$1; shift; P=${S%%-*}; CHECKS=${*:-$P}
ALT=/tmp/seedrun/$S/repo
rm -rf /tmp/seedrun/$S; mkdir -p $ALT
rsync -a --exclude _build --exclude .git /repo/ $ALT/
( cd $ALT && patch -p1 -s < /verif/seeded/$S/patch.diff ) || { echo "$S: patch does not apply"; exit 2; }
cd /verif
for C in $CHECKS; do
  VERIF_REPO=$ALT timeout 1800 ./check $C > /tmp/seedrun/$S/$C.log 2>&1; RC=$?
  V=$(grep -c "^VIOLATION" /tmp/seedrun/$S/$C.log); NF=$(grep -c "no-failing-input-found" /tmp/seedrun/$S/$C.log)
  MSG=$(grep "violation:" /tmp/seedrun/$S/$C.log | head -3 | cut -c1-200 | tr '\n' ';')
  echo "$S check=$C rc=$RC violations=$V nofail=$NF :: $MSG"
  python3 - "$S" "$C" "$RC" "$V" "$NF" "$MSG" <<'PY'
import json,sys
s,c,rc,v,nf,msg=sys.argv[1:7]
p=f'/verif/seeded/{s}/meta.json'; m=json.load(open(p))
d=m.get("detected_by_check") or {}
d[c]={"exit":int(rc),"violation_lines":int(v),"of_which_no_failing_input_found":int(nf),"first_messages":msg}
m["detected_by_check"]=d
json.dump(m,open(p,'w'),indent=1)
PY
done
H=$(python3 -c "import hashlib,os;print(hashlib.sha1(os.path.realpath('$ALT').encode()).hexdigest()[:10])")
rm -rf /verif/build/alt-$H /tmp/seedrun/$S
