#!/usr/bin/env python3
"""Translator for C18: reads the constructs of rdppm.c / wrppm.c / jmorecfg.h /
turbojpeg.c that the Coq model (coq/model/Pnm.v) is parameterised by and prints
coq/gen/GenPnm.v.  Exits non-zero when a construct it reads is gone.

Facts emitted (all read from the CURRENT source text):
  rpi_check_in_loop / rpi_check_after_loop   the two `val > maxval` tests of read_pbm_integer
  hdr_limit                                  the maxval argument of the three header reads
  rescale_floor / rescale_extra              table size  MAX(maxval, floor) + extra   (alloc and memset)
  rescale_loop_inclusive                     `val <= (long)maxval`
  word_check                                 every 16-bit sample assembled in a get_word_* reader is
                                             followed by `if (x > maxval) ERREXIT`
  byte_fast_needs_255                        the raw-byte fast paths additionally require maxval == 255
  cmyk_scale_by_prec                         the rescaled *_cmyk_row branches pass 2^prec-1 to rgb_to_cmyk
  word_hi_first                              wrppm.c PUTPPMSAMPLE writes (v >> 8) & 0xFF before v & 0xFF
  max_alloc_chunk                            jmemsys.h MAX_ALLOC_CHUNK (alloc_sarray refuses longer rows)
  pf_layouts                                 per TJPF 0..11: (red, green, blue, alpha, pixelsize) offsets
"""
import re
import sys


def die(msg):
    sys.stderr.write("gen_Pnm: " + msg + "\n")
    sys.exit(1)


def func_body(src, name):
    m = re.search(r"\n%s\s*\([^)]*\)\s*(?:/\*.*?\*/\s*)*\{" % re.escape(name), src, re.S)
    if not m:
        die("function %s not found" % name)
    i = m.end()
    depth = 1
    while depth and i < len(src):
        if src[i] == "{":
            depth += 1
        elif src[i] == "}":
            depth -= 1
        i += 1
    return src[m.end():i]


def b(x):
    return "true" if x else "false"


def main():
    repo = sys.argv[1]
    rd = open(repo + "/src/rdppm.c").read()
    wr = open(repo + "/src/wrppm.c").read()
    mc = open(repo + "/src/jmorecfg.h").read()
    tj = open(repo + "/src/turbojpeg.c").read()
    nocom = lambda s: re.sub(r"/\*.*?\*/", "", s, flags=re.S)

    # ---- read_pbm_integer
    rpi = nocom(func_body(rd, "read_pbm_integer"))
    mloop = re.search(r"while\s*\(\(ch = pbm_getc\(infile\)\) >= '0' && ch <= '9'\)\s*\{(.*?)\}", rpi, re.S)
    if not mloop:
        die("read_pbm_integer: digit loop not found")
    if not re.search(r"val \*= 10;\s*val \+= ch - '0';", mloop.group(1)):
        die("read_pbm_integer: accumulation statement changed")
    in_loop = bool(re.search(r"if \(val > maxval\)\s*ERREXIT\(cinfo, JERR_PPM_OUTOFRANGE\);", mloop.group(1)))
    after = rpi[mloop.end():]
    after_loop = bool(re.search(r"if \(val > maxval\)\s*ERREXIT\(cinfo, JERR_PPM_OUTOFRANGE\);\s*return val;", after))
    if not re.search(r"do \{\s*ch = pbm_getc\(infile\);\s*if \(ch == EOF\)\s*ERREXIT\(cinfo, JERR_INPUT_EOF\);\s*"
                     r"\} while \(ch == ' ' \|\| ch == '\\t' \|\| ch == '\\n' \|\| ch == '\\r'\);", rpi):
        die("read_pbm_integer: whitespace loop changed")
    if not re.search(r"if \(ch < '0' \|\| ch > '9'\)\s*ERREXIT\(cinfo, JERR_PPM_NONNUMERIC\);", rpi):
        die("read_pbm_integer: non-numeric test changed")
    getc = nocom(func_body(rd, "pbm_getc"))
    if not re.search(r"ch = getc\(infile\);\s*if \(ch == '#'\) \{\s*do \{\s*ch = getc\(infile\);\s*\} while \(ch != '\\n' && ch != EOF\);\s*\}\s*return ch;", getc):
        die("pbm_getc changed")

    # ---- start_input_ppm
    si = nocom(func_body(rd, "start_input_ppm"))
    lims = re.findall(r"= read_pbm_integer\(cinfo, source->pub\.input_file, (\d+)\);", si)
    if len(lims) != 3 or len(set(lims)) != 1:
        die("start_input_ppm: header reads changed: %r" % lims)
    if not re.search(r"if \(w <= 0 \|\| h <= 0 \|\| maxval <= 0\)", si):
        die("start_input_ppm: zero check changed")
    if not re.search(r"if \(sinfo->max_pixels && \(unsigned long long\)w \* h > sinfo->max_pixels\)", si):
        die("start_input_ppm: pixel-limit check changed")
    al = re.findall(r"\(size_t\)\(\(\(long\)MAX\(maxval, (\d+)\)(?: \+ (\d+)L)?\) \*\s*sizeof\(_JSAMPLE\)\)", si)
    al = [(a, e or "0") for a, e in al]
    if len(al) != 2 or al[0] != al[1]:
        die("start_input_ppm: rescale allocation/memset size changed: %r" % al)
    floor_, extra = int(al[0][0]), int(al[0][1])
    ml = re.search(r"for \(val = 0; val (<=|<) \(long\)maxval; val\+\+\)", si)
    if not ml:
        die("start_input_ppm: rescale loop changed")
    if not re.search(r"half_maxval = maxval / 2;", si) or not re.search(
            r"source->rescale\[val\] =\s*\(_JSAMPLE\)\(\(val \* \(\(1 << cinfo->data_precision\) - 1\) \+ half_maxval\) /\s*maxval\);", si):
        die("start_input_ppm: rescale formula changed")
    nraw = len(re.findall(r"maxval == \(\(1U << cinfo->data_precision\) - 1U\) &&", si))
    if nraw != 2:
        die("start_input_ppm: get_raw_row selection changed")
    raw255 = len(re.findall(r"maxval == 255 &&\s*maxval == \(\(1U << cinfo->data_precision\) - 1U\)|"
                            r"maxval == \(\(1U << cinfo->data_precision\) - 1U\) &&\s*maxval == 255", si))

    # ---- word readers: every assembled 16-bit value is range-checked
    nasm = nchk = 0
    for fn in ("get_word_gray_row", "get_word_gray_rgb_row", "get_word_gray_cmyk_row",
               "get_word_rgb_row", "get_word_rgb_cmyk_row"):
        body = nocom(func_body(rd, fn))
        a = re.findall(r"(\w+)\s*\|= UCH\(\*bufferptr\+\+\);", body)
        c = re.findall(r"(\w+)\s*\|= UCH\(\*bufferptr\+\+\);\s*if \(\1 > maxval\)\s*ERREXIT\(cinfo, JERR_PPM_OUTOFRANGE\);", body)
        if not a:
            die(fn + ": sample assembly not found")
        if not re.search(r"if \(!ReadOK\(source->pub\.input_file, source->iobuffer, source->buffer_width\)\)\s*ERREXIT\(cinfo, JERR_INPUT_EOF\);", body):
            die(fn + ": ReadOK test changed")
        nasm += len(a)
        nchk += len(c)
    # ---- byte readers: fast-path condition
    nfast = n255 = 0
    for fn in ("get_gray_rgb_row", "get_gray_cmyk_row", "get_rgb_row", "get_rgb_cmyk_row"):
        body = nocom(func_body(rd, fn))
        m = re.search(r"if \((maxval == \(1U << cinfo->data_precision\) - 1U[^)]*)\) \{", body)
        if not m:
            die(fn + ": fast-path test not found")
        nfast += 1
        if re.search(r"maxval == 255", m.group(1)):
            n255 += 1
        if not re.search(r"if \(!ReadOK\(source->pub\.input_file, source->iobuffer, source->buffer_width\)\)\s*ERREXIT\(cinfo, JERR_INPUT_EOF\);", body):
            die(fn + ": ReadOK test changed")
    if (n255 not in (0, nfast)) or (raw255 not in (0, 2)) or ((n255 == nfast) != (raw255 == 2)):
        die("byte fast paths are guarded inconsistently (%d/%d readers, %d/2 selections)" % (n255, nfast, raw255))
    # ---- cmyk scale argument in the rescaled branches
    ncm = ncm_prec = 0
    for fn in ("get_text_gray_cmyk_row", "get_text_rgb_cmyk_row", "get_gray_cmyk_row", "get_rgb_cmyk_row",
               "get_word_gray_cmyk_row", "get_word_rgb_cmyk_row"):
        body = nocom(func_body(rd, fn))
        calls = re.findall(r"rgb_to_cmyk\(([^,]+),", body)
        if not calls:
            die(fn + ": rgb_to_cmyk call not found")
        # the last call of each function is the rescaled branch (word readers have only that one)
        ncm += 1
        arg = calls[-1].strip()
        if arg == "maxval":
            pass
        elif re.fullmatch(r"\(1 << cinfo->data_precision\) - 1", arg):
            ncm_prec += 1
        else:
            die(fn + ": unexpected rgb_to_cmyk scale argument " + arg)
    if ncm_prec not in (0, ncm):
        die("rgb_to_cmyk scale argument differs between readers")

    # ---- wrppm.c
    mput = re.search(r"#define PUTPPMSAMPLE\(ptr, v\) \{ \\\s*register int val_ = v; \\\s*\*ptr\+\+ = \(char\)\((.*?)\); \\\s*\*ptr\+\+ = \(char\)\((.*?)\); \\\s*\}", wr)
    if not mput:
        die("wrppm.c: word PUTPPMSAMPLE changed")
    first, second = mput.group(1).strip(), mput.group(2).strip()
    if first == "(val_ >> 8) & 0xFF" and second == "val_ & 0xFF":
        hi_first = True
    elif second == "(val_ >> 8) & 0xFF" and first == "val_ & 0xFF":
        hi_first = False
    else:
        die("wrppm.c: PUTPPMSAMPLE bytes not recognised: %s / %s" % (first, second))
    if len(re.findall(r"#define PPM_MAXVAL  \(\(1 << cinfo->data_precision\) - 1\)", wr)) != 2:
        die("wrppm.c: PPM_MAXVAL changed")
    so = nocom(func_body(wr, "start_output_ppm"))
    if not re.search(r'"P5\\n%ld %ld\\n%d\\n"', so) or not re.search(r'"P6\\n%ld %ld\\n%d\\n"', so):
        die("wrppm.c: header format changed")
    prgb = nocom(func_body(wr, "put_rgb"))
    if not re.search(r"PUTPPMSAMPLE\(bufferptr, ptr\[rindex\]\);\s*PUTPPMSAMPLE\(bufferptr, ptr\[gindex\]\);\s*PUTPPMSAMPLE\(bufferptr, ptr\[bindex\]\);\s*ptr \+= ps;", prgb):
        die("wrppm.c: put_rgb changed")

    # ---- layouts
    defs = dict((k, int(v)) for k, v in re.findall(r"#define\s+(EXT_\w+_(?:RED|GREEN|BLUE|PIXELSIZE))\s+(\d+)", mc))
    mpf = re.search(r"static J_COLOR_SPACE pf2cs\[TJ_NUMPF\] = \{(.*?)\};", tj, re.S)
    if not mpf:
        die("turbojpeg.c: pf2cs not found")
    pf2cs = [x.strip() for x in mpf.group(1).replace("\n", " ").split(",") if x.strip()]
    if len(pf2cs) != 12:
        die("pf2cs has %d entries" % len(pf2cs))
    mai = re.search(r"static int alpha_index\[JPEG_NUMCS\] = \{(.*?)\};", rd, re.S)
    if not mai:
        die("rdppm.c: alpha_index not found")
    alpha = [int(x) for x in mai.group(1).replace("\n", " ").split(",") if x.strip()]
    mcs = re.search(r"typedef enum \{\s*JCS_UNKNOWN,(.*?)\} J_COLOR_SPACE;", open(repo + "/src/jpeglib.h").read(), re.S)
    if not mcs:
        die("jpeglib.h: J_COLOR_SPACE not found")
    csnames = ["JCS_UNKNOWN"] + re.findall(r"\b(JCS_\w+)\s*(?:,|/\*|$)", nocom(mcs.group(1)), re.M)
    csnames = [c for i, c in enumerate(csnames) if c not in csnames[:i]]
    layouts = []
    for pf, cs in enumerate(pf2cs):
        if cs not in csnames:
            die("colour space %s not in enum" % cs)
        idx = csnames.index(cs)
        if cs == "JCS_GRAYSCALE":
            layouts.append((-1, -1, -1, -1, 1))
        elif cs == "JCS_CMYK":
            layouts.append((-1, -1, -1, -1, 4))
        else:
            stem = cs[len("JCS_"):]
            # rgb_red[] maps RGBA->RGBX, BGRA->BGRX, ABGR->XBGR, ARGB->XRGB
            stem2 = {"EXT_RGBA": "EXT_RGBX", "EXT_BGRA": "EXT_BGRX", "EXT_ABGR": "EXT_XBGR", "EXT_ARGB": "EXT_XRGB"}.get(stem, stem)
            try:
                layouts.append((defs[stem2 + "_RED"], defs[stem2 + "_GREEN"], defs[stem2 + "_BLUE"], alpha[idx], defs[stem2 + "_PIXELSIZE"]))
            except KeyError as e:
                die("jmorecfg.h: macro %s not found" % e)

    # ---- memory manager limit that bounds every row allocation (used by the BMP model)
    msys = open(repo + "/src/jmemsys.h").read()
    mm = re.search(r"#define MAX_ALLOC_CHUNK\s+(\d+)L", msys)
    if not mm:
        die("jmemsys.h: MAX_ALLOC_CHUNK not found")
    mgr = nocom(func_body(open(repo + "/src/jmemmgr.c").read(), "alloc_sarray"))
    if not re.search(r"if \(samplesperrow > MAX_ALLOC_CHUNK\) \{\s*out_of_memory\(cinfo, 9\);", mgr):
        die("jmemmgr.c: alloc_sarray no longer refuses rows above MAX_ALLOC_CHUNK")

    out = []
    out.append("(* GENERATED by tools/gen_Pnm.py from src/rdppm.c, src/wrppm.c, src/jmorecfg.h, src/turbojpeg.c -- do not edit *)")
    out.append("From Coq Require Import List ZArith.")
    out.append("Import ListNotations.")
    out.append("Local Open Scope Z_scope.")
    out.append("Definition rpi_check_in_loop : bool := %s." % b(in_loop))
    out.append("Definition rpi_check_after_loop : bool := %s." % b(after_loop))
    out.append("Definition hdr_limit : Z := %s." % lims[0])
    out.append("Definition rescale_floor : Z := %d." % floor_)
    out.append("Definition rescale_extra : Z := %d." % extra)
    out.append("Definition rescale_loop_inclusive : bool := %s." % b(ml.group(1) == "<="))
    out.append("Definition word_check : bool := %s.  (* %d of %d assembled samples are range-checked *)" % (b(nasm == nchk), nchk, nasm))
    out.append("Definition byte_fast_needs_255 : bool := %s." % b(n255 == nfast))
    out.append("Definition cmyk_scale_by_prec : bool := %s." % b(ncm_prec == ncm))
    out.append("Definition word_hi_first : bool := %s." % b(hi_first))
    out.append("Definition max_alloc_chunk : Z := %s.  (* jmemsys.h; alloc_sarray refuses longer rows *)" % mm.group(1))
    out.append("(* per TJPF 0..11: red, green, blue, alpha offsets (-1 = none) and pixel size *)")
    out.append("Definition pf_layouts : list (Z * Z * Z * Z * Z) := [")
    out.append(";\n".join("  (%d, %d, %d, %d, %d)" % l for l in layouts))
    out.append("].")
    print("\n".join(out))


main()
