#!/bin/bash
# Build static libjpeg/turbojpeg from /repo's CURRENT working tree (incremental, ninja).
# usage: buildlib.sh <flavour>   flavours: simd | asan | tsan | plain
# Output: /verif/build/lib-<flavour>/{libjpeg.a,libturbojpeg.a,jconfig.h,...}
set -e
FL=${1:-simd}
REPO=${VERIF_REPO:-/repo}
OUT=${VERIF_BUILD:-/verif/build}/lib-$FL
mkdir -p "$OUT"
exec 9>"$OUT/.lock"; flock 9
case $FL in
  simd)  SIMD=ON;  CF="-O2 -g -Wno-error" ;;
  plain) SIMD=OFF; CF="-O1 -g -Wno-error" ;;
  asan)  SIMD=OFF; CF="-O1 -g -fno-omit-frame-pointer -fsanitize=address,undefined -fno-sanitize-recover=undefined -Wno-error" ;;
  asansimd) SIMD=ON; CF="-O1 -g -fno-omit-frame-pointer -fsanitize=address -Wno-error" ;;
  tsan)  SIMD=ON;  CF="-O1 -g -fsanitize=thread -Wno-error" ;;
  *) echo "unknown flavour $FL" >&2; exit 2 ;;
esac
HOOK=""
if grep -rqs LIBJPEG_TURBO_VERIF "$REPO/src" 2>/dev/null; then HOOK="-DLIBJPEG_TURBO_VERIF"; fi
if [ ! -f "$OUT/build.ninja" ] || [ "$(cat $OUT/.src 2>/dev/null)" != "$REPO" ]; then
  rm -rf "$OUT"/CMake* "$OUT"/build.ninja
  cmake -G Ninja -S "$REPO" -B "$OUT" -DCMAKE_BUILD_TYPE=None -DCMAKE_C_COMPILER=gcc \
    -DCMAKE_C_FLAGS="$CF $HOOK" -DENABLE_SHARED=OFF -DENABLE_STATIC=ON -DWITH_SIMD=$SIMD \
    -DWITH_JAVA=OFF -DWITH_FUZZ=OFF >"$OUT/cmake.log" 2>&1 || { cat "$OUT/cmake.log" >&2; exit 3; }
  echo "$REPO" > "$OUT/.src"
fi
# re-run cmake if CMakeLists changed is handled by ninja itself
ninja -C "$OUT" jpeg-static turbojpeg-static >"$OUT/ninja.log" 2>&1 || { tail -40 "$OUT/ninja.log" >&2; exit 4; }
echo "$OUT"
