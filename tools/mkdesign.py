#!/usr/bin/env python3
"""Regenerate the generated blocks of DESIGN.md (findings table, as-built summary, seeded-change table)
from KNOWN_FINDINGS.txt, evidence/*.json, coq/props/*.v, design/*.md and seeded/*/meta.json."""
import glob, json, os, re
V = os.path.dirname(os.path.dirname(os.path.abspath(__file__)))
D = os.path.join(V, "DESIGN.md")
s = open(D).read()

def block(name, text):
    global s
    b, e = "<!-- BEGIN:%s -->" % name, "<!-- END:%s -->" % name
    if b not in s:
        s += "\n%s\n%s\n" % (b, e)
    i, j = s.index(b) + len(b), s.index(e)
    s = s[:i] + "\n" + text.rstrip() + "\n" + s[j:]

# ---- findings
rows = []
for line in open(os.path.join(V, "KNOWN_FINDINGS.txt")):
    line = line.strip()
    m = re.match(r"fixed:\s+property=(\S+)\s+(\S+)\s+(.*)", line)
    if m:
        rows.append("| %s | fixed in /repo (`%s`) | %s |" % (m.group(1), m.group(2), m.group(3).replace("|", "\\|")))
    m = re.match(r"known:\s+property=(\S+)\s+sig=(\S+)\s+::\s+(.*)", line)
    if m:
        rows.append("| %s | KNOWN (sig `%s`) | %s |" % (m.group(1), m.group(2), m.group(3).replace("|", "\\|")))
block("findings", "| property | status | what failed (specific input / history) |\n|---|---|---|\n" + "\n".join(rows))

# ---- as built summary
props = [json.loads(l) for l in open(os.path.join(V, "properties.jsonl"))]
out = ["| id | property theorems (coq/props) | files | quick-tier coverage (last run) | as-built notes |", "|---|---|---|---|---|"]
for p in props:
    pid = p["id"]
    pf = os.path.join(V, "coq", "props", pid + ".v")
    thms = re.findall(r"^\s*(?:Theorem|Corollary)\s+([A-Za-z0-9_']+)", open(pf).read(), re.M) if os.path.exists(pf) else []
    ev = {}
    try:
        ev = json.load(open(os.path.join(V, "evidence", pid + ".json")))
    except Exception:
        pass
    cov = ev.get("coverage", {})
    streams = cov.get("streams", {})
    top = ", ".join("%s %d" % (k, v) for k, v in sorted(streams.items(), key=lambda kv: -kv[1])[:4])
    imports = []
    if os.path.exists(pf):
        imports = sorted(set(re.findall(r"\b(model\.[A-Za-z0-9_]+|gen\.[A-Za-z0-9_]+)", open(pf).read())))
    names = ", ".join("`%s`" % t for t in thms[:6]) + (" … (+%d)" % (len(thms) - 6) if len(thms) > 6 else "")
    out.append("| %s | %d: %s | %s | %s evaluations (%s), %s model/impl lines | design/%s.md |" % (
        pid, len(thms), names, " ".join(imports), cov.get("evaluations", "?"), top, cov.get("traces_validated_against_impl", "?"), pid))
block("asbuilt", "\n".join(out))

# ---- seeded
out = ["| seed | what the change is (red-team summary, first lines) | check result |", "|---|---|---|"]
for f in sorted(glob.glob(os.path.join(V, "seeded", "*", "meta.json"))):
    m = json.load(open(f))
    sid = f.split("/")[-2]
    txt = " ".join(l.strip("# ").strip() for l in m.get("breaks", "").split("\n") if l.strip())[:230].replace("|", "\\|")
    det = []
    for c, d in (m.get("detected_by_check") or {}).items():
        if d["exit"] == 0:
            det.append("%s: MISSED" % c)
        elif d["violation_lines"] - d["of_which_no_failing_input_found"] > 0:
            det.append("%s: caught, %d concrete replay(s): %s" % (c, d["violation_lines"] - d["of_which_no_failing_input_found"], re.sub(r"\[C\d\d\s+[\d.]+s\]\s*violation:\s*", "", d["first_messages"].split(";")[0])[:140].replace("|", "\\|")))
        else:
            det.append("%s: caught as broken proof/tie (no-failing-input-found)" % c)
    out.append("| %s | %s | %s |" % (sid, txt, "; ".join(det)))
block("seeded", "\n".join(out))
open(D, "w").write(s)
print("DESIGN.md blocks regenerated")
