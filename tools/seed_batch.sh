#!/bin/bash
# usage: seed_batch.sh Cxx   : confirm the three red-team patches of Cxx and run the check against each confirmed one
P=$1
for i in 1 2 3; do
  [ -f /tmp/adv-$P-out/patch$i.diff ] || continue
  /verif/tools/confirm_seed.sh $P $i 2>&1 | tail -2
  if [ -f /verif/seeded/$P-$i/meta.json ]; then /verif/tools/run_seed.sh $P-$i 2>&1 | tail -1; fi
done
rm -rf /tmp/adv-$P/_build0 /tmp/adv-$P/_build1
