#!/bin/bash
# usage: seed_batch.sh Cxx   : confirm the three red-team patches of Cxx and run the check against each confirmed one
P=$1
for i in 1 2 3; do
  PFX=${ADVPFX:-adv}; OFF=${SEEDOFF:-0}; N=$((i+OFF))
  [ -f /tmp/$PFX-$P-out/patch$i.diff ] || continue
  rm -rf /verif/seeded/$P-$N
  /verif/tools/confirm_seed.sh $P $i 2>&1 | tail -2
  if [ -f /verif/seeded/$P-$N/meta.json ]; then /verif/tools/run_seed.sh $P-$N 2>&1 | tail -1; fi
done
rm -rf /tmp/${ADVPFX:-adv}-$P/_build0 /tmp/${ADVPFX:-adv}-$P/_build1
