#!/usr/bin/env python3
"""Translator: constants of the accurate integer DCT pair and of the forward-DCT
manager, read from the CURRENT source -> coq/gen/GenDctConst.v

  src/jfdctint.c, src/jidctint.c : CONST_BITS, PASS1_BITS (8-bit / 12-bit arm), the
      twelve `#define FIX_a_bbbbbbbbb ((JLONG)n)  /* FIX(a.bbbbbbbbb) */` lines.  For each
      the integer n, the decimal literal of the COMMENT and the decimal literal
      spelled in the NAME are emitted; Coq re-derives FIX(x) = round(x * 2^CONST_BITS).
  src/jcdctmgr.c : the argument handed to compute_reciprocal in the JDCT_ISLOW arm of
      start_pass_fdctmgr (`qtbl->quantval[i] << 3`, clamped by CLAMP_DIVISOR or not),
      the CLAMP_DIVISOR limit, the UINT16 parameter type of compute_reciprocal/flss.
  src/jcparam.c  : the upper clamp of jpeg_add_quant_table (32767).
  src/jdct.h, src/jmorecfg.h, src/jsamplecomp.h : RANGE_MASK, MAXJSAMPLE, CENTERJSAMPLE.
Exits non-zero with a message when a construct it reads is gone."""
import re, sys
repo = sys.argv[1]


def rd(p):
    try:
        return open(repo + "/src/" + p).read()
    except OSError as e:
        sys.exit("cannot read src/%s: %s" % (p, e))


def need(m, what):
    if not m:
        sys.exit("gen_DctConst: construct not found: " + what)
    return m


def dct_file(fn):
    s = rd(fn)
    m = need(re.search(r"#if BITS_IN_JSAMPLE == 8\s*\n#define CONST_BITS\s+(\d+)\s*\n#define PASS1_BITS\s+(\d+)\s*\n#else\s*\n"
                       r"#define CONST_BITS\s+(\d+)\s*\n#define PASS1_BITS\s+(\d+)", s),
             fn + ": CONST_BITS/PASS1_BITS block (8-bit arm / 12-bit arm)")
    cb8, p8, cb12, p12 = (int(x) for x in m.groups())
    if cb8 != cb12:
        sys.exit("gen_DctConst: %s: CONST_BITS differs between the 8- and 12-bit arms (model assumes one value)" % fn)
    m2 = need(re.search(r"#if CONST_BITS == (\d+)\s*\n((?:#define FIX_\S+.*\n)+)#else", s), fn + ": pre-calculated FIX_* block")
    if int(m2.group(1)) != cb8:
        sys.exit("gen_DctConst: %s: the pre-calculated FIX_* block is for CONST_BITS == %s but CONST_BITS is %d" % (fn, m2.group(1), cb8))
    consts = []
    for line in m2.group(2).strip().split("\n"):
        mm = need(re.match(r"#define FIX_(\d)_(\d+)\s+\(\(JLONG\)(\d+)\)\s*/\*\s*FIX\((\d)\.(\d+)\)\s*\*/\s*$", line),
                  fn + ": line of the form `#define FIX_a_b ((JLONG)n) /* FIX(a.b) */`: " + line)
        a, b, n, ca, cb = mm.groups()
        consts.append(("FIX_%s_%s" % (a, b), int(n), int(a + b), 10 ** len(b), int(ca + cb), 10 ** len(cb)))
    names = [c[0] for c in consts]
    # every FIX_ name used in the body must be one of the defined ones
    body = s[m2.end():]
    used = set(re.findall(r"\bFIX_\d_\d+\b", body))
    for u in sorted(used):
        if u not in names:
            sys.exit("gen_DctConst: %s uses %s which has no pre-calculated value" % (fn, u))
    if not re.search(r"#define MULTIPLY\(var, const\)\s+MULTIPLY16C16\(var, const\)\s*\n#else\s*\n#define MULTIPLY\(var, const\)\s+\(\(var\) \* \(const\)\)", s):
        sys.exit("gen_DctConst: %s: MULTIPLY is no longer a plain product" % fn)
    return cb8, p8, p12, consts


fc, fp8, fp12, fcon = dct_file("jfdctint.c")
ic, ip8, ip12, icon = dct_file("jidctint.c")

jdct = rd("jdct.h")
need(re.search(r"#define DESCALE\(x, n\)\s+RIGHT_SHIFT\(\(x\) \+ \(ONE << \(\(n\) - 1\)\), n\)", jdct), "jdct.h: DESCALE(x,n) = RIGHT_SHIFT(x + (ONE << (n-1)), n)")
need(re.search(r"#define RANGE_MASK\s+\(_MAXJSAMPLE \* 4 \+ 3\)", jdct), "jdct.h: RANGE_MASK = _MAXJSAMPLE * 4 + 3")
need(re.search(r"#define IDCT_range_limit\(cinfo\) \\\s*\n\s*\(\(_JSAMPLE \*\)\(\(cinfo\)->sample_range_limit\) \+ _CENTERJSAMPLE\)", jdct),
     "jdct.h: IDCT_range_limit = sample_range_limit + _CENTERJSAMPLE")
need(re.search(r"#ifndef MULTIPLY16C16[^\n]*\n#define MULTIPLY16C16\(var, const\)\s+\(\(var\) \* \(const\)\)", jdct), "jdct.h: default MULTIPLY16C16 = plain product")
mc = rd("jmorecfg.h")
max8 = int(need(re.search(r"#define MAXJSAMPLE\s+(\d+)", mc), "MAXJSAMPLE").group(1))
cen8 = int(need(re.search(r"#define CENTERJSAMPLE\s+(\d+)", mc), "CENTERJSAMPLE").group(1))
max12 = int(need(re.search(r"#define MAXJ12SAMPLE\s+(\d+)", mc), "MAXJ12SAMPLE").group(1))
cen12 = int(need(re.search(r"#define CENTERJ12SAMPLE\s+(\d+)", mc), "CENTERJ12SAMPLE").group(1))

cm = rd("jcdctmgr.c")
need(re.search(r"LOCAL\(int\)\s*\nflss\(UINT16 val\)", cm), "jcdctmgr.c: flss(UINT16 val)")
need(re.search(r"LOCAL\(int\)\s*\ncompute_reciprocal\(UINT16 divisor, DCTELEM \*dtbl\)", cm), "jcdctmgr.c: compute_reciprocal(UINT16 divisor, DCTELEM *dtbl)")
i0 = cm.find("case JDCT_ISLOW:")
i1 = cm.find("case JDCT_IFAST:")
if i0 < 0 or i1 < i0:
    sys.exit("gen_DctConst: jcdctmgr.c: JDCT_ISLOW arm of start_pass_fdctmgr not found")
arm = cm[i0:i1]
calls = re.findall(r"compute_reciprocal\(\s*(.*?),\s*&dtbl\[i\]\)", arm, re.S)
if len(calls) != 2 or calls[0] != calls[1]:
    sys.exit("gen_DctConst: jcdctmgr.c: expected the same compute_reciprocal(<arg>, &dtbl[i]) call in the WITH_SIMD and scalar arms, got %r" % (calls,))
arg = re.sub(r"\s+", " ", calls[0])
m = re.match(r"^CLAMP_DIVISOR\(qtbl->quantval\[i\] << (\d+)\)$", arg)
clamp_limit = 0
if m:
    clamped, shift = True, int(m.group(1))
    mm = need(re.search(r"#define CLAMP_DIVISOR\(d\)\s+\(\(d\) > (\d+) \? \(UINT16\)(\d+) : \(UINT16\)\(d\)\)", cm), "jcdctmgr.c: CLAMP_DIVISOR(d) = ((d) > L ? (UINT16)L : (UINT16)(d))")
    if mm.group(1) != mm.group(2):
        sys.exit("gen_DctConst: CLAMP_DIVISOR compares with %s but yields %s" % (mm.group(1), mm.group(2)))
    clamp_limit = int(mm.group(1))
else:
    m = re.match(r"^qtbl->quantval\[i\] << (\d+)$", arg)
    if not m:
        sys.exit("gen_DctConst: jcdctmgr.c: unrecognised divisor expression in the ISLOW arm: " + arg)
    clamped, shift = False, int(m.group(1))
m12 = need(re.search(r"dtbl\[i\] = \(\(DCTELEM\)qtbl->quantval\[i\]\) << (\d+);", arm), "jcdctmgr.c: 12-bit ISLOW divisor dtbl[i] = ((DCTELEM)quantval) << n")
shift12 = int(m12.group(1))

cp = rd("jcparam.c")
m = need(re.search(r"if \(temp <= 0L\) temp = 1L;\s*\n\s*if \(temp > (\d+)L\) temp = (\d+)L;", cp), "jcparam.c: jpeg_add_quant_table clamps to 1..32767")
if m.group(1) != m.group(2):
    sys.exit("gen_DctConst: jcparam.c clamp compares with %s but assigns %s" % (m.group(1), m.group(2)))
qmax = int(m.group(1))

dd = rd("jddctmgr.c")
need(re.search(r"ismtbl\[i\] = \(ISLOW_MULT_TYPE\)qtbl->quantval\[i\];", dd), "jddctmgr.c: ismtbl[i] = (ISLOW_MULT_TYPE)qtbl->quantval[i]")

out = []
P = out.append
P("(* GENERATED by tools/gen_DctConst.py from src/jfdctint.c, src/jidctint.c, src/jcdctmgr.c, src/jcparam.c, src/jdct.h -- do not edit *)")
P("From Coq Require Import List ZArith.\nImport ListNotations.\nLocal Open Scope Z_scope.\n")
P("Definition fdct_const_bits : Z := %d." % fc)
P("Definition fdct_pass1_bits_8 : Z := %d.\nDefinition fdct_pass1_bits_12 : Z := %d." % (fp8, fp12))
P("Definition idct_const_bits : Z := %d." % ic)
P("Definition idct_pass1_bits_8 : Z := %d.\nDefinition idct_pass1_bits_12 : Z := %d.\n" % (ip8, ip12))
for pre, cons in (("F", fcon), ("I", icon)):
    for name, n, nn, nd, cn, cd in cons:
        P("Definition %s%s : Z := %d." % (pre, name, n))
    P("(* (defined integer, literal in the NAME num/den, literal in the COMMENT num/den) *)")
    P("Definition %s_fix_table : list (Z * (Z * Z) * (Z * Z)) :=\n  [%s].\n" % (
        "fdct" if pre == "F" else "idct",
        ";\n   ".join("(%d, (%d, %d), (%d, %d))" % (n, nn, nd, cn, cd) for _, n, nn, nd, cn, cd in cons)))
P("Definition maxjsample_8 : Z := %d.\nDefinition centerjsample_8 : Z := %d." % (max8, cen8))
P("Definition maxjsample_12 : Z := %d.\nDefinition centerjsample_12 : Z := %d.\n" % (max12, cen12))
P("(* start_pass_fdctmgr, JDCT_ISLOW, 8-bit: compute_reciprocal(%s, &dtbl[i]) *)" % arg)
P("Definition divisor_shift : Z := %d." % shift)
P("Definition divisor_clamped : bool := %s." % ("true" if clamped else "false"))
P("Definition divisor_clamp_limit : Z := %d." % clamp_limit)
P("Definition divisor_shift_12 : Z := %d." % shift12)
P("(* jpeg_add_quant_table: 1 <= quantval <= %d *)" % qmax)
P("Definition quantval_max : Z := %d." % qmax)
print("\n".join(out))
